(* C02: property theorems only; each closed by [exact] and followed by Print Assumptions. *)
From Coq Require Import List NArith ZArith Bool.
From GoPdf.Base Require Import Bytes Res.
From GoPdf.Gen Require Import Gen_Consts Gen_C02.
From GoPdf.C02 Require Import Obj Dec Syntax Writer Stored Reader Expect Inst WriterProofs LayoutProofs ReaderProofs MoreProofs OpenProofs ChainProofs ObjStmProofs MemberRead FullProofs Alias AliasProofs Samples LenientProofs CapsProofs.
Import ListNotations.
Open Scope N_scope.

(* [pos] is the length of what has been sent to the sink, after every accepted history:
   all offsets the writer records are real offsets *)
Theorem pos_inv :
  forall fmt fmt_sd encS encB fenc deflate (c : cfg) (ops : list op) (st : state),
    run fmt fmt_sd encS encB fenc deflate c ops = Ok st ->
    pos st = N.of_nat (length (out st)).
Proof. exact pos_inv_lemma. Qed.
Print Assumptions pos_inv.

(* layout: outside an open stream, every in-use entry of the cross-reference map is the offset of
   the chunk "N G obj ..." that was written for this number and generation; for a stream the
   chunk carries /Length = length of the body in all three strategies (direct, 12 padded bytes,
   indirect integer object that has itself been written).  The only entry without a record is the
   cross-reference stream's own (it is not part of the serialised table [xtab]). *)
Theorem layout :
  forall fmt fmt_sd encS encB fenc deflate (c : cfg) (ops : list op) (st : state),
    run fmt fmt_sd encS encB fenc deflate c ops = Ok st ->
    strm st = None ->
    forall n off g, xlookup n (xref st) = Some (EUse off g) ->
      (closed st = true /\ xlookup n (xtab st) = None) \/
      exists v ch rest,
        wlookup n (wr st) = Some (g, v) /\
        skipn (N.to_nat off) (out st) = ch ++ rest /\
        chunk_of fmt fmt_sd encS encB fenc c st [] n g v ch.
Proof. exact layout_lemma. Qed.
Print Assumptions layout.

(* the same for the table that Close serialised *)
Theorem layout_closed :
  forall fmt fmt_sd encS encB fenc deflate (c : cfg) (ops : list op) (st : state),
    run fmt fmt_sd encS encB fenc deflate c ops = Ok st ->
    closed st = true ->
    forall n off g, xlookup n (xtab st) = Some (EUse off g) ->
      exists v ch rest,
        wlookup n (wr st) = Some (g, v) /\
        skipn (N.to_nat off) (out st) = ch ++ rest /\
        chunk_of fmt fmt_sd encS encB fenc c st [] n g v ch.
Proof. exact layout_closed_lemma. Qed.
Print Assumptions layout_closed.

(* deferred Puts appear after the stream that delayed them *)
Theorem deferred_after :
  forall fmt fmt_sd encS encB fenc (c : cfg) big (st st' : state) s,
    strm st = Some s ->
    close_stream fmt fmt_sd encS encB fenc c big st = Ok st' ->
    forall n g o, In (n, g, PObj o) (after st) ->
      exists off, xlookup n (xref st') = Some (EUse off g) /\ pos st < off.
Proof. exact deferred_after_lemma. Qed.
Print Assumptions deferred_after.

(* put_twice: a number that already has an entry is refused (errDuplicateRef) ... *)
Theorem dup_rejected :
  forall fmt fmt_sd encS encB fenc deflate (c : cfg) st n g o big,
    closed st = false -> strm st = None -> xlookup n (xref st) <> None ->
    step fmt fmt_sd encS encB fenc deflate c st (Put n g o big) = Err Other.
Proof. exact dup_rejected_lemma. Qed.
Print Assumptions dup_rejected.

(* ... in particular the second Put of one number, whatever generation and value *)
Theorem put_twice :
  forall fmt fmt_sd encS encB fenc deflate (c : cfg) st n g o big st',
    strm st = None ->
    step fmt fmt_sd encS encB fenc deflate c st (Put n g (PObj o) big) = Ok st' ->
    forall g' o' big', step fmt fmt_sd encS encB fenc deflate c st' (Put n g' o' big') = Err Other.
Proof. exact put_twice_lemma. Qed.
Print Assumptions put_twice.

(* ---- write_read ---- *)

(* The full statement: opening the produced bytes succeeds and every reference reads back as
   what was written (null for everything else); version round-trips.  [expected] is read off the
   ghost record of accepted writes, [observe] puts the reader's answer in the same vocabulary. *)
Definition write_read_full : Prop :=
  forall (fmt : obj -> bytes) (fmt_sd : dict -> lenrep -> bytes) (parse : bytes -> option (obj * bytes))
         (encS decS encB decB : N -> N -> bytes -> bytes)
         (fenc : bytes -> dict -> bytes -> bytes) (fdec : bytes -> dict -> bytes -> option bytes)
         (deflate : bytes -> bytes) (c : cfg) (wfo : obj -> Prop),
    (forall o rest, wfo o -> parse (LF :: fmt o ++ LF :: kw_endobj ++ rest) = Some (norm o, LF :: kw_endobj ++ rest)) ->
    (forall sd lr rest, wfo (ODict sd) -> exists d',
        parse (LF :: fmt_sd sd lr ++ LF :: kw_stream ++ rest) = Some (ODict d', LF :: kw_stream ++ rest) /\
        dict_get k_Length d' = Some (lenval lr) /\ ODict (dict_del k_Length d') = norm (ODict sd)) ->
    (forall n g s, decS n g (encS n g s) = s) ->
    (forall n g s, decB n g (encB n g s) = s) ->
    (forall name p s, fdec name p (fenc name p s) = Some s) ->
    (forall s p, fdec k_FlateDecode p (deflate s) = Some s) ->
    forall ops st,
      run fmt fmt_sd encS encB fenc deflate c ops = Ok st -> closed st = true ->
      wr_wf encS c wfo st -> plain_wf wfo st -> members_bound st ->
      (* no dictionary handed to OpenStream had /Filter already: such data is encoded by the caller,
         and a reader decodes the caller's chain as well, so it does not return the bytes written *)
      (forall n g d fs data, In (n, g, VStream d fs data) (wr st) -> dict_get k_Filter d = None) ->
      exists rs,
        open parse decS fdec (encrypted c) (out st) = Ok rs /\
        rversion rs = cv c /\
        forall n g,
          observe (stream_data decB fdec (encrypted c) rs n g)
                  (get parse decS decB fdec (encrypted c) 4 rs n g) = Some (expected (wr st) n g).

(* What is proved: Get over the writer's final cross-reference map and the bytes of the file
   (the step from the bytes of the cross-reference section to that map - Reader.open - is executed on
   every case of the check, not proved): every reference without an in-use entry of its generation
   reads as null, every reference with a record reads as the normalised object / the stream with its
   dictionary and raw data, whichever of the three /Length strategies was used. *)
Theorem write_read_partial :
  forall (fmt : obj -> bytes) (fmt_sd : dict -> lenrep -> bytes) (parse : bytes -> option (obj * bytes))
         (encS decS encB decB : N -> N -> bytes -> bytes)
         (fenc : bytes -> dict -> bytes -> bytes) (fdec : bytes -> dict -> bytes -> option bytes)
         (deflate : bytes -> bytes) (c : cfg) (wfo : obj -> Prop),
    (forall o rest, wfo o -> parse (LF :: fmt o ++ LF :: kw_endobj ++ rest) = Some (norm o, LF :: kw_endobj ++ rest)) ->
    (forall sd lr rest, wfo (ODict sd) -> exists d',
        parse (LF :: fmt_sd sd lr ++ LF :: kw_stream ++ rest) = Some (ODict d', LF :: kw_stream ++ rest) /\
        dict_get k_Length d' = Some (lenval lr) /\ ODict (dict_del k_Length d') = norm (ODict sd)) ->
    (forall n g s, decS n g (encS n g s) = s) ->
    forall ops st,
      run fmt fmt_sd encS encB fenc deflate c ops = Ok st -> strm st = None ->
      wr_wf encS c wfo st ->
      (forall n g f,
         match xlookup n (xref st) with
         | None | Some (EFree _) => True
         | Some (EUse _ g') => g' <> g
         | Some (EComp _ _) => g <> 0
         end ->
         get parse decS decB fdec (encrypted c) (S f) (rs_of c st) n g = Ok RNull) /\
      (forall n off g v,
         xlookup n (xref st) = Some (EUse off g) -> wlookup n (wr st) = Some (g, v) ->
         get parse decS decB fdec (encrypted c) 2 (rs_of c st) n g = Ok (rval_of encB fenc c n g v)).
Proof.
  intros fmt fmt_sd parse encS decS encB decB fenc fdec deflate c wfo H1 H2 H3 ops st Hr Hs WF. split.
  - intros n g f. apply get_null_lemma.
  - exact (get_written_lemma fmt fmt_sd parse encS decS encB decB fenc fdec deflate c wfo H1 H2 H3 ops st Hr Hs WF).
Qed.
Print Assumptions write_read_partial.

(* write_read for files with a cross-reference TABLE (version below 1.5, or HumanReadable), Reader.open
   included: the bytes open (header, last startxref, the 20-byte lines back into the map, the trailer),
   the version round-trips, and Get over the re-read map answers every reference as the record says.
   Premises: the file is shorter than 10^10 bytes and generations are at most 65535 (the widths of the
   fixed fields), the trailer dictionary and the recorded values are well-formed. *)
Theorem write_read_table_mode :
  forall (fmt : obj -> bytes) (fmt_sd : dict -> lenrep -> bytes) (parse : bytes -> option (obj * bytes))
         (encS decS encB decB : N -> N -> bytes -> bytes)
         (fenc : bytes -> dict -> bytes -> bytes) (fdec : bytes -> dict -> bytes -> option bytes)
         (deflate : bytes -> bytes) (c : cfg) (wfo : obj -> Prop),
    (forall o rest, wfo o -> parse (LF :: fmt o ++ LF :: kw_endobj ++ rest) = Some (norm o, LF :: kw_endobj ++ rest)) ->
    (forall sd lr rest, wfo (ODict sd) -> exists d',
        parse (LF :: fmt_sd sd lr ++ LF :: kw_stream ++ rest) = Some (ODict d', LF :: kw_stream ++ rest) /\
        dict_get k_Length d' = Some (lenval lr) /\ ODict (dict_del k_Length d') = norm (ODict sd)) ->
    (forall tr rest, wfo (ODict tr) ->
        parse (LF :: fmt (ODict tr) ++ LF :: kw_startxref ++ rest) = Some (norm (ODict tr), LF :: kw_startxref ++ rest)) ->
    (forall n g s, decS n g (encS n g s) = s) ->
    forall ops st,
      run fmt fmt_sd encS encB fenc deflate c ops = Ok st -> closed st = true -> use_xrefstm c = false ->
      N.of_nat (length (out st)) < 10000000000 ->
      (forall n off g, xlookup n (xtab st) = Some (EUse off g) -> g <= 65535) ->
      (forall root info size, wfo (ODict (trailer_dict c root info size))) ->
      wr_wf encS c wfo st ->
      exists rs, open parse decS fdec (encrypted c) (out st) = Ok rs /\ rversion rs = cv c /\
        (forall n g f,
           match xlookup n (xref st) with
           | None | Some (EFree _) => True
           | Some (EUse _ g') => g' <> g
           | Some (EComp _ _) => g <> 0
           end -> get parse decS decB fdec (encrypted c) (S f) rs n g = Ok RNull) /\
        (forall n off g v,
           xlookup n (xref st) = Some (EUse off g) -> wlookup n (wr st) = Some (g, v) ->
           get parse decS decB fdec (encrypted c) 2 rs n g = Ok (rval_of encB fenc c n g v)).
Proof. exact FullProofs.write_read_table_mode. Qed.
Print Assumptions write_read_table_mode.

(* with a cross-reference STREAM, Reader.open is proved as well: the stream object is read, its rows
   decoded (W widths, PNG-Up through the filter hypothesis), and the map that comes back is the
   serialised one (free generations truncated to the width of field 3, the stream's own number free) *)
Theorem open_xref_stream_mode :
  forall (fmt : obj -> bytes) (fmt_sd : dict -> lenrep -> bytes) (parse : bytes -> option (obj * bytes))
         (encS decS encB : N -> N -> bytes -> bytes)
         (fenc : bytes -> dict -> bytes -> bytes) (fdec : bytes -> dict -> bytes -> option bytes)
         (deflate : bytes -> bytes) (c : cfg) (wfo : obj -> Prop),
    (forall sd lr rest, wfo (ODict sd) -> exists d',
        parse (LF :: fmt_sd sd lr ++ LF :: kw_stream ++ rest) = Some (ODict d', LF :: kw_stream ++ rest) /\
        dict_get k_Length d' = Some (lenval lr) /\ ODict (dict_del k_Length d') = norm (ODict sd)) ->
    (forall cols rows, (forall r, In r rows -> length r = N.to_nat cols) ->
        fdec k_FlateDecode [(k_Columns, OInt (Z.of_N cols)); (k_Predictor, OInt 12)]
             (deflate (png_up (repeat 0 (N.to_nat cols)) rows)) = Some (concat rows)) ->
    forall ops st,
      run fmt fmt_sd encS encB fenc deflate c ops = Ok st -> closed st = true -> use_xrefstm c = true ->
      N.of_nat (length (out st)) < 10000000000 ->
      (forall n off g, xlookup n (xtab st) = Some (EUse off g) -> g <= 65535) ->
      (forall n s i, xlookup n (xtab st) = Some (EComp s i) -> i < 18446744073709551616) ->
      (forall root info r, nextRef st = r + 1 ->
         wfo (ODict (xs_dict deflate (xtab st) (nextRef st) (trailer_dict c root info r)))) ->
      exists rs r, open parse decS fdec (encrypted c) (out st) = Ok rs /\ nextRef st = r + 1 /\
        rfile rs = out st /\ rhdr rs = 0 /\ rversion rs = cv c /\ rplain rs = [r] /\
        xref st = xtab st ++ [(r, EUse (xpos st) 0)] /\ xagree (rxref rs) (xtab st).
Proof. exact open_xref_stream_agree. Qed.
Print Assumptions open_xref_stream_mode.

(* members of object streams: every compressed entry of the writer's map is answered by Get with the
   normalised object that WriteCompressed was given (the container is read through its own entry,
   its data decoded with the chain read back from its dictionary, the "num offset" table parsed, the
   member parsed at /First + offset).  [members_bound]: at most 10000 members per object stream, the
   limit of the Reader (a larger batch is the registered finding "huge batch"). *)
Theorem write_read_members :
  forall (fmt : obj -> bytes) (fmt_sd : dict -> lenrep -> bytes) (parse : bytes -> option (obj * bytes))
         (encS decS encB decB : N -> N -> bytes -> bytes)
         (fenc : bytes -> dict -> bytes -> bytes) (fdec : bytes -> dict -> bytes -> option bytes)
         (deflate : bytes -> bytes) (c : cfg) (wfo : obj -> Prop),
    (forall o rest, wfo o -> parse (LF :: fmt o ++ LF :: kw_endobj ++ rest) = Some (norm o, LF :: kw_endobj ++ rest)) ->
    (forall sd lr rest, wfo (ODict sd) -> exists d',
        parse (LF :: fmt_sd sd lr ++ LF :: kw_stream ++ rest) = Some (ODict d', LF :: kw_stream ++ rest) /\
        dict_get k_Length d' = Some (lenval lr) /\ ODict (dict_del k_Length d') = norm (ODict sd)) ->
    (forall o os, wfo o -> Forall wfo os ->
        exists r', parse (fmt o ++ match os with [] => [] | _ => LF :: join (map fmt os) end) = Some (norm o, r')) ->
    (forall n g s, decS n g (encS n g s) = s) ->
    (forall n g s, decB n g (encB n g s) = s) ->
    (forall name p x, fdec name (norm_parms p) (fenc name p x) = Some x) ->
    forall f ops st,
      run fmt fmt_sd encS encB fenc deflate c ops = Ok st -> strm st = None -> members_bound st ->
      wr_wf encS c wfo st -> plain_wf wfo st ->
      forall n s i, xlookup n (xref st) = Some (EComp s i) ->
        exists o, wlookup n (wr st) = Some (0, VObj o) /\
                  get parse decS decB fdec (encrypted c) (S (S (S f))) (rs_of c st) n 0 = Ok (RObj (norm o)).
Proof. exact get_member_lemma. Qed.
Print Assumptions write_read_members.

(* the filter chain read back from /Filter and /DecodeParms of the normalised dictionary is the chain
   given to OpenStream, for any number of filters ... *)
Theorem filter_chain_read_back :
  forall d fs, dict_get k_Filter d = None -> dict_get k_DecodeParms d = None ->
    filter_chain (dict_of (norm (ODict (add_filters d fs)))) = map (fun f => (fst f, norm_parms (snd f))) fs.
Proof. exact filter_chain_add_filters. Qed.
Print Assumptions filter_chain_read_back.

(* ... and decoding with it returns the bytes that were written to the stream *)
Theorem stream_data_round_trip :
  forall (fenc : bytes -> dict -> bytes -> bytes) (fdec : bytes -> dict -> bytes -> option bytes),
    (forall name p x, fdec name (norm_parms p) (fenc name p x) = Some x) ->
    forall (encB decB : N -> N -> bytes -> bytes) (c : cfg) (encd : bool) (rs : rstate) n g d fs data,
      (forall n g s, decB n g (encB n g s) = s) ->
      encd = encrypted c ->
      dict_get k_Filter d = None -> dict_get k_DecodeParms d = None ->
      (forall f, In f fs -> bytes_eqb (fst f) k_Crypt = false) ->
      existsb (N.eqb n) (rplain rs) = false ->
      stream_data decB fdec encd rs n g (dict_of (norm (ODict (stream_dict n g d fs))))
                  (stream_raw encB fenc c n g d fs data) = Some data.
Proof. exact stream_data_roundtrip. Qed.
Print Assumptions stream_data_round_trip.

(* OpenStream with filters on a dictionary that declares a chain already (the caller has encoded
   the data): whatever the shape of the declaration - a name with or without a parameter dictionary,
   an array with or without a parameter array, null or missing entries -, the chain a reader finds in
   the written dictionary is the filters of OpenStream followed by the declared filters, each with
   its own parameters (the /Filter and /DecodeParms arrays are aligned index by index) ... *)
Theorem declared_chain_read_back :
  forall n g d f fs o, dict_get k_Filter d = Some o ->
    filter_chain (dict_of (norm (ODict (stream_dict n g d (f :: fs))))) =
    map (fun f => (fst f, norm_parms (snd f))) (f :: fs) ++
    map (fun f => (fst f, norm_parms (snd f))) (old_chain (dict_del k_Length d)).
Proof. exact filter_chain_declared. Qed.
Print Assumptions declared_chain_read_back.

(* ... for a well-formed declaration (/Filter a name or an array of names) the second part is the
   chain a reader would find in the caller's own dictionary ... *)
Theorem declared_chain_is_callers :
  forall n g d f fs o, dict_get k_Filter d = Some o -> decl_wf (dict_del k_Length d) ->
    filter_chain (dict_of (norm (ODict (stream_dict n g d (f :: fs))))) =
    map (fun f => (fst f, norm_parms (snd f))) (f :: fs) ++ filter_chain (norm_parms (dict_del k_Length d)).
Proof. exact filter_chain_declared_wf. Qed.
Print Assumptions declared_chain_is_callers.

(* ... and decoding the written data with the written chain is decoding, with the declared chain,
   the bytes the caller handed to Write *)
Theorem stream_data_declared_chain :
  forall (fenc : bytes -> dict -> bytes -> bytes) (fdec : bytes -> dict -> bytes -> option bytes),
    (forall name p x, fdec name (norm_parms p) (fenc name p x) = Some x) ->
    forall (encB decB : N -> N -> bytes -> bytes) (c : cfg) (encd : bool) (rs : rstate) n g d f fs o data,
      (forall n g s, decB n g (encB n g s) = s) ->
      encd = encrypted c ->
      dict_get k_Filter d = Some o -> has_crypt_first d = false ->
      bytes_eqb (fst f) k_Crypt = false ->
      existsb (N.eqb n) (rplain rs) = false ->
      stream_data decB fdec encd rs n g (dict_of (norm (ODict (stream_dict n g d (f :: fs)))))
                  (stream_raw encB fenc c n g d (f :: fs) data) =
      decode_chain fdec (map (fun f => (fst f, norm_parms (snd f))) (old_chain (dict_del k_Length d))) data.
Proof. exact stream_data_declared. Qed.
Print Assumptions stream_data_declared_chain.

(* the shape of /Filter and /DecodeParms in every stream dictionary the writer renders: a single name
   with its parameter dictionary (absent if empty), or the array of names with /DecodeParms absent
   (all parameters empty) or an array of exactly the same length whose entries are the parameter
   dictionaries, null standing for an empty one *)
Theorem stream_dict_filters_aligned :
  forall n g d fs,
    (dict_get k_Filter d = None -> dict_get k_DecodeParms d = None ->
       chain_repr fs (stream_dict n g d fs)) /\
    (forall f fs' o, fs = f :: fs' -> dict_get k_Filter d = Some o ->
       chain_repr (fs ++ old_chain (dict_del k_Length d)) (stream_dict n g d fs)).
Proof.
  intros n g d fs. split.
  - intros HF HD. exact (proj1 (stream_dict_repr_plain n g d fs HF HD)).
  - intros f fs' o -> H. exact (proj1 (stream_dict_repr_declared n g d f fs' o H)).
Qed.
Print Assumptions stream_dict_filters_aligned.

(* ================= calls that are refused =================
   A call of Put, WriteCompressed or OpenStream that returns an error has either been refused before it
   touched anything (the writer is as it was), or it has failed after part of an object was
   registered or written: the writer keeps that error, and Put, OpenStream, WriteCompressed and Close
   return it from then on.  [run_lenient] runs a history through both kinds of refusal, [dirty st o]
   says of which kind the refusal of [o] in [st] is, [kept] are the calls that were accepted. *)

(* the refused calls contribute nothing: a lenient run that is not cut short is the plain run of the
   accepted calls - so pos_inv, layout, write_read, ... hold of its file *)
Theorem lenient_run_is_run_of_accepted :
  forall fmt fmt_sd encS encB fenc deflate (c : cfg) ops st i rf fl st' rf' fl',
    run_lenient fmt fmt_sd encS encB fenc deflate c st ops i rf fl = (st', rf', fl', None) ->
    run_from fmt fmt_sd encS encB fenc deflate c st (kept fmt fmt_sd encS encB fenc deflate c st ops fl) = Ok st'.
Proof. exact lenient_is_run_of_kept. Qed.
Print Assumptions lenient_run_is_run_of_accepted.

(* once the writer has failed it stays failed, and neither the file nor the table, the record of
   what was written, an open stream, or the closed flag change any more (only Alloc still works) *)
Theorem failed_is_absorbing :
  forall fmt fmt_sd encS encB fenc deflate (c : cfg) ops st i rf st' rf' fl' stop,
    run_lenient fmt fmt_sd encS encB fenc deflate c st ops i rf true = (st', rf', fl', stop) ->
    fl' = true /\ same_file st st'.
Proof. exact failed_absorbing. Qed.
Print Assumptions failed_is_absorbing.

(* a history that ends with a closed file has never failed: with lenient_run_is_run_of_accepted, the
   bytes of every file that Close reports as written are those of the accepted calls alone *)
Theorem close_ok_valid :
  forall fmt fmt_sd encS encB fenc deflate (c : cfg) ops st0 st rf fl,
    init c = Ok st0 ->
    run_lenient fmt fmt_sd encS encB fenc deflate c st0 ops 0 [] false = (st, rf, fl, None) ->
    closed st = true ->
    fl = false /\
    run fmt fmt_sd encS encB fenc deflate c (kept fmt fmt_sd encS encB fenc deflate c st0 ops false) = Ok st.
Proof.
  intros fmt fmt_sd encS encB fenc deflate c ops st0 st rf fl Hi H Hc. split.
  - eapply close_ok_not_failed; [|exact H | exact Hc].
    unfold init in Hi. destruct (negb _); [discriminate|]. destruct (_ && _); [discriminate|].
    destruct (_ && _); [discriminate|]. injection Hi as <-. reflexivity.
  - unfold run. rewrite Hi. cbn [bind]. eapply lenient_is_run_of_kept; exact H.
Qed.
Print Assumptions close_ok_valid.

(* refusals that are decided before anything is touched (the writer is not failed by them): the
   writer is closed; a stream is open; the arguments of WriteCompressed are refused by checkCompressed;
   every refusal of OpenStream (chain length, /Length that is no integer, number in use); a Put
   under a number that is in use *)
Theorem refused_unchanged :
  forall fmt fmt_sd encS encB fenc deflate (c : cfg) st,
    (forall o, closed st = true -> dirty fmt fmt_sd encS encB fenc deflate c st o = false) /\
    (forall s o, strm st = Some s -> dirty fmt fmt_sd encS encB fenc deflate c st o = false) /\
    (forall rs os bigs, check_compressed rs os = false ->
       dirty fmt fmt_sd encS encB fenc deflate c st (WriteCompressed rs os bigs) = false) /\
    (forall n g d fs, dirty fmt fmt_sd encS encB fenc deflate c st (OpenStream n g d fs) = false) /\
    (forall n g o big e, xlookup n (xref st) = Some e ->
       dirty fmt fmt_sd encS encB fenc deflate c st (Put n g o big) = false).
Proof.
  intros fmt fmt_sd encS encB fenc deflate c st. repeat split.
  - intros o Hc. apply dirty_closed, Hc.
  - intros s o Hs. eapply stream_open_clean, Hs.
  - intros rs os bigs H. apply check_compressed_clean, H.
  - intros n g d fs. apply open_stream_never_dirty.
  - intros n g o big e H. destruct o; [eapply duplicate_put_clean | eapply duplicate_stream_put_clean]; exact H.
Qed.
Print Assumptions refused_unchanged.

(* what the writer accepts is within the limits of the reader (strings below maxStringBytes, names
   below maxNameBytes, arrays up to maxArrayLen elements, dictionaries up to maxDictLen entries,
   nesting below maxScannerNestDepth, reals that are numbers, references below maxXRefSize): every
   object and every stream dictionary of an accepted history satisfies [caps_ok], in the form it was
   written or (members of object streams, catalog, info) as given *)
Theorem accepted_within_reader_caps :
  forall fmt fmt_sd encS encB fenc deflate (c : cfg) ops st,
    run fmt fmt_sd encS encB fenc deflate c ops = Ok st ->
    forall e, In e (wr st) -> caps_record encS c e.
Proof. exact accepted_within_caps. Qed.
Print Assumptions accepted_within_reader_caps.

(* the same limits on the reader's side: for a parser that refuses what is beyond them, as the
   scanner does ([cap_parse p], any p), the syntax hypothesis of the write_read theorems - the parser
   reads back the formatter's text of every well-formed value - is satisfiable only if well-formed
   implies within the limits *)
Theorem reader_caps_force_writer_caps :
  forall (p : bytes -> option (obj * bytes)) (fmt : obj -> bytes) (wfo : obj -> Prop),
    (forall o rest, wfo o ->
       cap_parse p (LF :: fmt o ++ LF :: kw_endobj ++ rest) = Some (norm o, LF :: kw_endobj ++ rest)) ->
    forall o, wfo o -> caps_ok 0 (norm o) = true.
Proof. exact capped_parser_forces_caps. Qed.
Print Assumptions reader_caps_force_writer_caps.

(* a value may be Put under two numbers: both read back equal *)
Theorem same_value_two_numbers :
  forall (fmt : obj -> bytes) (fmt_sd : dict -> lenrep -> bytes) (parse : bytes -> option (obj * bytes))
         (encS decS encB decB : N -> N -> bytes -> bytes)
         (fenc : bytes -> dict -> bytes -> bytes) (fdec : bytes -> dict -> bytes -> option bytes)
         (deflate : bytes -> bytes) (c : cfg) (wfo : obj -> Prop),
    (forall o rest, wfo o -> parse (LF :: fmt o ++ LF :: kw_endobj ++ rest) = Some (norm o, LF :: kw_endobj ++ rest)) ->
    (forall sd lr rest, wfo (ODict sd) -> exists d',
        parse (LF :: fmt_sd sd lr ++ LF :: kw_stream ++ rest) = Some (ODict d', LF :: kw_stream ++ rest) /\
        dict_get k_Length d' = Some (lenval lr) /\ ODict (dict_del k_Length d') = norm (ODict sd)) ->
    (forall n g s, decS n g (encS n g s) = s) ->
    forall ops st o n1 off1 g1 n2 off2 g2,
      run fmt fmt_sd encS encB fenc deflate c ops = Ok st -> strm st = None -> wr_wf encS c wfo st ->
      xlookup n1 (xref st) = Some (EUse off1 g1) -> wlookup n1 (wr st) = Some (g1, VObj o) ->
      xlookup n2 (xref st) = Some (EUse off2 g2) -> wlookup n2 (wr st) = Some (g2, VObj o) ->
      get parse decS decB fdec (encrypted c) 2 (rs_of c st) n1 g1 = Ok (RObj (norm o)) /\
      get parse decS decB fdec (encrypted c) 2 (rs_of c st) n2 g2 = Ok (RObj (norm o)).
Proof. exact same_value_two_numbers_lemma. Qed.
Print Assumptions same_value_two_numbers.

(* the translated defaultOutputOptions decides object streams / xref streams as the model does *)
Theorem options_tie :
  forall v, (v <= 8)%N ->
    (5 <=? v)%N = negb (Z.land (defaultOutputOptions (Z.of_N v + V1_0)) optObjStm =? 0)%Z /\
    (5 <=? v)%N = negb (Z.land (defaultOutputOptions (Z.of_N v + V1_0)) optXRefStream =? 0)%Z.
Proof. exact options_tie_lemma. Qed.
Print Assumptions options_tie.

(* ---- writing never modifies the caller's objects (store-passing model, Alias.v) ---- *)

Theorem no_alias_write :
  forall ks h v h' out,
    wf h v = true ->
    put false ks h v = (h', out) ->
    forall a bs, lookupb a h = Some bs -> lookupb a h' = Some bs.
Proof. exact AliasProofs.no_alias_write. Qed.
Print Assumptions no_alias_write.

Theorem put_twice_same_output :
  forall ks h v h1 o1 h2 o2,
    wf h v = true ->
    put false ks h v = (h1, o1) ->
    put false ks h1 v = (h2, o2) ->
    o1 = o2.
Proof. exact AliasProofs.put_twice_same_output. Qed.
Print Assumptions put_twice_same_output.

(* the in-place variant of EncryptBytes (defect F1, regress/revert-F1.diff) is not safe *)
Theorem no_alias_write_inplace_refuted :
  exists ks h v h' out a,
    put true ks h v = (h', out) /\ lookupb a h <> lookupb a h'.
Proof. exact AliasProofs.no_alias_write_inplace_refuted. Qed.
Print Assumptions no_alias_write_inplace_refuted.

Theorem put_twice_inplace_refuted :
  exists ks h v h1 o1 h2 o2,
    put true ks h v = (h1, o1) /\ put true ks h1 v = (h2, o2) /\ o1 <> o2.
Proof. exact AliasProofs.put_twice_inplace_refuted. Qed.
Print Assumptions put_twice_inplace_refuted.

(* OpenStream: append on the copy made by inlineFilterRefs never reaches the caller's array;
   append on the caller's own slice would *)
Theorem append_filter_no_alias :
  forall h s x h' s',
    wf_aslice h s = true ->
    open_stream_filter true h s x = (h', s') ->
    forall a l, lookupa a h = Some l -> lookupa a h' = Some l.
Proof. exact AliasProofs.append_filter_no_alias. Qed.
Print Assumptions append_filter_no_alias.

Theorem append_filter_direct_refuted :
  exists h s x h' s' a,
    open_stream_filter false h s x = (h', s') /\ lookupa a h <> lookupa a h'.
Proof. exact AliasProofs.append_filter_direct_refuted. Qed.
Print Assumptions append_filter_direct_refuted.

Example wf_value_exists : wf h_ex v_ex = true.
Proof. exact AliasProofs.wf_example. Qed.

(* the hypotheses about the object syntax are satisfiable: the canonical formatter and its parser,
   on a value with strings, names with escapes, nested containers, references and a null entry *)
Example parse_fmt_instance :
  parse_value (LF :: fmt_obj sample_value ++ LF :: b_endobj) = Some (norm sample_value, LF :: b_endobj).
Proof. vm_compute. reflexivity. Qed.

Example parse_sd_instance :
  exists d', parse_value (LF :: fmt_sd_concrete [(b_K, OInt 1)] (LPadded 1500) ++ LF :: b_stream)
             = Some (ODict d', LF :: b_stream) /\
             dict_get k_Length d' = Some (lenval (LPadded 1500)) /\
             ODict (dict_del k_Length d') = norm (ODict [(b_K, OInt 1)]).
Proof. eexists. vm_compute. repeat split. Qed.

(* the model reader on the model writer's output agrees with the record: a run with a deferred Put,
   a stream, an object stream and an xref stream *)
Example model_round_trip :
  match run_concrete sample_cfg sample_ops with
  | Ok st => self_check fdec_concrete sample_cfg st sample_refs
  | Err _ => false
  end = true.
Proof. vm_compute. reflexivity. Qed.
