(* C02: executable model of pdf.Writer (writer.go, xref.go, types.go:Placeholder).
   Definitions only.  Object syntax, ciphers and filter encoders are Section
   variables; Syntax.v / Stored.v supply the concrete instance that is run.

   A stream is modelled as one atomic emission at CloseStream: between
   OpenStream and the end of Close the real writer sends nothing else to the
   sink (Put is deferred, Alloc writes nothing, every other call is refused), so
   the final bytes are the same; what is observable in between - the xref entry
   made at OpenStream, nextRef, and the moment the indirect /Length object is
   allocated - is modelled at the time it happens. *)
From Coq Require Import List NArith ZArith Bool.
From GoPdf.Base Require Import Bytes Res.
From GoPdf.Gen Require Import Gen_Consts Gen_Limits Gen_C02.
From GoPdf.C02 Require Import Obj Dec Syntax.
Import ListNotations.
Open Scope N_scope.

Inductive cipher := CNone | CRC4_40 | CRC4_128 | CAES_128 | CAES_256.

Definition cipher_eqb (a b : cipher) : bool :=
  match a, b with
  | CNone, CNone | CRC4_40, CRC4_40 | CRC4_128, CRC4_128
  | CAES_128, CAES_128 | CAES_256, CAES_256 => true
  | _, _ => false
  end.

(* versions 0..8 = V1_0 .. V1_7, V2_0 *)
Record cfg := {
  cv : N;
  chuman : bool;
  cseek : bool;
  ccipher : cipher;
  cid : option (bytes * bytes);      (* the file identifier NewWriter chose (angelic) *)
  cencrypt : option obj              (* the /Encrypt dictionary NewWriter built (opaque here) *)
}.

(* NewWriter: the cipher is a function of the version *)
Definition cipher_for (v : N) : cipher :=
  if v <? 4 then CRC4_40 else if v <? 6 then CRC4_128 else if v <? 8 then CAES_128 else CAES_256.

Definition encrypted (c : cfg) : bool := negb (cipher_eqb (ccipher c) CNone).

(* defaultOutputOptions + HumanReadable: object streams and xref streams *)
Definition use_objstm (c : cfg) : bool := (5 <=? cv c) && negb (chuman c).
Definition use_xrefstm (c : cfg) : bool := (5 <=? cv c) && negb (chuman c).

Definition filt := (bytes * dict)%type.        (* filter name, decode parameters *)

Inductive pobj :=
| PObj (o : obj)
| PStream (d : dict) (data : bytes) (big : bool).
  (* a *pdf.Stream value; [big]: its encoded data reaches 1024 bytes (read when the Put is deferred;
     angelic unless nothing encodes the data) *)

Inductive op :=
| Alloc
| Put (n g : N) (o : pobj) (big : bool)
| WriteCompressed (rs : list (N * N)) (os : list pobj) (bigs : list bool)
  (* [bigs]: one flag per object stream that the call writes *)
| OpenStream (n g : N) (d : dict) (fs : list filt)
| Write (bs : bytes) (started : bool)   (* [started]: the sink grew during this call (angelic:
                                           filter encoders emit their output when they please) *)
| CloseStream (big : bool)   (* [big]: the encoded data reached 1024 bytes (angelic unless nothing encodes it) *)
| Close (cat : obj) (info : option obj).

Inductive entry :=
| EFree (g : N)
| EUse (off g : N)
| EComp (stm idx : N).

(* what was written under a reference (ghost: no writer decision reads it) *)
Inductive wval :=
| VObj (o : obj)
| VStream (d : dict) (fs : list filt) (data : bytes).

Record sstate := {
  s_num : N; s_gen : N;
  s_dict : dict;               (* caller's dictionary *)
  s_fs : list filt;
  s_buf : bytes;               (* data written so far (before filters) *)
  s_started : bool;            (* the 1024-byte buffer has been flushed *)
  s_lenref : option N          (* indirect /Length object, allocated when started on a non-seekable sink *)
}.

Record state := {
  out : bytes;
  pos : N;
  xref : list (N * entry);
  nextRef : N;
  strm : option sstate;
  after : list (N * N * pobj);
  wr : list (N * N * wval);
  xtab : list (N * entry);     (* the table as serialised by Close *)
  xpos : N;                    (* startxref *)
  closed : bool
}.

Definition K (s : bytes) := s.

Definition dict_set (k : bytes) (v : obj) (d : dict) : dict := dict_del k d ++ [(k, v)].

Fixpoint xlookup (n : N) (x : list (N * entry)) : option entry :=
  match x with
  | [] => None
  | (m, e) :: r => if n =? m then Some e else xlookup n r
  end.

Fixpoint wlookup (n : N) (w : list (N * N * wval)) : option (N * wval) :=
  match w with
  | [] => None
  | (m, g, v) :: r => if n =? m then Some (g, v) else wlookup n r
  end.

(* how /Length appears in a stream dictionary *)
Inductive lenrep :=
| LDirect (n : N)        (* the value is known when the dictionary is written *)
| LPadded (n : N)        (* 12 reserved bytes, filled in by seeking back *)
| LRef (r : N).          (* "r 0 R", the integer object follows the stream *)

Definition lenval (l : lenrep) : obj :=
  match l with
  | LDirect n | LPadded n => OInt (Z.of_N n)
  | LRef r => ORef r 0
  end.

(* appendFilter (filter.go) *)
Definition dict_nonempty (o : option obj) : bool :=
  match o with Some (ODict (_ :: _)) => true | _ => false end.
Definition as_dict (o : option obj) : dict :=
  match o with Some (ODict d) => d | _ => [] end.

Definition append_filter (sd : dict) (f : filt) : dict :=
  let '(name, parms) := f in
  match dict_get k_Filter sd with
  | Some (OName f0) =>
    let sd1 := dict_set k_Filter (OArr [OName f0; OName name]) sd in
    let p0 := as_dict (dict_get k_DecodeParms sd) in
    if (negb (Nat.eqb (length p0) 0)) || negb (Nat.eqb (length parms) 0)
    then dict_set k_DecodeParms (OArr [ODict p0; ODict parms]) sd1
    else sd1
  | Some (OArr fl) =>
    let sd1 := dict_set k_Filter (OArr (fl ++ [OName name])) sd in
    let pp := match dict_get k_DecodeParms sd with Some (OArr l) => l | _ => [] end in
    let needs := negb (Nat.eqb (length parms) 0) ||
                 existsb (fun p => match p with ODict (_ :: _) => true | _ => false end) pp in
    if needs then
      let pp1 := firstn (length fl) (pp ++ repeat ONull (length fl - length pp)) in
      dict_set k_DecodeParms (OArr (pp1 ++ [ODict parms])) sd1
    else sd1
  | _ =>
    (* a /DecodeParms found here has no filter it could belong to: it does not become the
       parameters of the filter added now *)
    let sd1 := dict_set k_Filter (OName name) sd in
    if negb (Nat.eqb (length parms) 0) then dict_set k_DecodeParms (ODict parms) sd1
    else dict_del k_DecodeParms sd1
  end.

Definition add_filters (d : dict) (fs : list filt) : dict := fold_left append_filter fs d.

(* big-endian, [w] bytes, high bytes dropped (encodeInt64) *)
Fixpoint be_bytes (w : nat) (x : N) : bytes :=
  match w with
  | O => []
  | S w' => ((x / 256 ^ N.of_nat w') mod 256) :: be_bytes w' x
  end.

(* (bits.Len64(m)+7)/8 *)
Definition width_of (m : N) : N := (N.size m + 7) / 8.

Fixpoint zipsub (a b : bytes) : bytes :=
  match a, b with
  | x :: a', y :: b' => ((x + 256 - y) mod 256) :: zipsub a' b'
  | x :: a', [] => x :: zipsub a' []
  | [], _ => []
  end.

(* PNG predictor "Up": every row is tagged 2 and holds the difference to the row above *)
Fixpoint png_up (prev : bytes) (rows : list bytes) : bytes :=
  match rows with
  | [] => []
  | r :: rs => 2 :: zipsub r prev ++ png_up r rs
  end.

Fixpoint seqN (start : N) (len : nat) : list N :=
  match len with
  | O => []
  | S k => start :: seqN (start + 1) k
  end.

Definition hdr_of (n g : N) : bytes := dec n ++ SP :: dec g ++ SP :: kw_obj ++ [LF].
Definition nl (c : cfg) : bytes := if chuman c then [LF] else [].
Definition k_endobj_nl := Eval compute in (LF :: kw_endobj ++ [LF]).
Definition k_stream_nl := Eval compute in (LF :: kw_stream ++ [LF]).
Definition k_endstream_endobj := Eval compute in (LF :: kw_endstream ++ LF :: kw_endobj ++ [LF]).

Definition version_text (v : N) : bytes :=
  if v =? 8 then [50; 46; 48] else [49; 46; 48 + v].

(* ---- what the formatter refuses to write, because the scanner would refuse to read it back
   (types.go doFormat / formatName / formatString / formatDict; scanner.go ReadString, ReadName,
   ReadArray, ReadDict): strings of maxStringBytes or more, names of maxNameBytes or more, arrays of
   more than maxArrayLen elements, dictionaries with more than maxDictLen entries that are not null,
   arrays and dictionaries nested maxScannerNestDepth deep, reals that are not finite (their text
   is no number), references to object numbers of maxXRefSize or above ---- *)
Definition real_char (b : N) : bool :=
  ((48 <=? b) && (b <=? 57)) || (b =? 46) || (b =? 45) || (b =? 43).
Definition real_ok (t : bytes) : bool :=
  forallb real_char t && existsb (fun b => (48 <=? b) && (b <=? 57)) t.
Definition name_ok (n : bytes) : bool := (Z.of_nat (length n) <? maxNameBytes)%Z.
Definition str_ok (s : bytes) : bool := (Z.of_nat (length s) <? maxStringBytes)%Z.
Definition count_nonnull (l : dict) : nat := length (filter (fun kv => negb (is_null (snd kv))) l).

Fixpoint caps_ok (depth : N) (o : obj) : bool :=
  match o with
  | OStr s => str_ok s
  | OName n => name_ok n
  | OReal t => real_ok t
  | ORef n _ => (Z.of_N n <? maxXRefSize)%Z
  | OArr l =>
    (Z.of_N depth <? maxScannerNestDepth)%Z && (Z.of_nat (length l) <=? maxArrayLen)%Z &&
    forallb (caps_ok (depth + 1)) l
  | ODict l =>
    (Z.of_N depth <? maxScannerNestDepth)%Z && (Z.of_nat (count_nonnull l) <=? maxDictLen)%Z &&
    forallb (fun kv => match kv with
                       | (k, v) => is_null v || (name_ok k && caps_ok (depth + 1) v)
                       end) l
  | _ => true
  end.

Section Writer.
  Variable fmt : obj -> bytes.                       (* object syntax (C01) *)
  Variable fmt_sd : dict -> lenrep -> bytes.         (* a stream dictionary with its /Length *)
  Variable encS : N -> N -> bytes -> bytes.          (* string cipher of object (n, g) *)
  Variable encB : N -> N -> bytes -> bytes.          (* stream cipher of object (n, g) *)
  Variable fenc : bytes -> dict -> bytes -> bytes.   (* filter encoders by name and parameters *)
  Variable deflate : bytes -> bytes.                 (* zlib *)

  Variable c : cfg.

  Definition sc (n g : N) : bytes -> bytes := if encrypted c then encS n g else fun s => s.
  Definition bc (on : bool) (n g : N) : bytes -> bytes :=
    if on && encrypted c then encB n g else fun s => s.

  Definition emit (bs : bytes) (st : state) : state :=
    {| out := out st ++ bs; pos := pos st + N.of_nat (length bs); xref := xref st;
       nextRef := nextRef st; strm := strm st; after := after st; wr := wr st;
       xtab := xtab st; xpos := xpos st; closed := closed st |}.

  Definition with_strm (s : option sstate) (st : state) : state :=
    {| out := out st; pos := pos st; xref := xref st; nextRef := nextRef st; strm := s;
       after := after st; wr := wr st; xtab := xtab st; xpos := xpos st; closed := closed st |}.

  Definition with_after (a : list (N * N * pobj)) (st : state) : state :=
    {| out := out st; pos := pos st; xref := xref st; nextRef := nextRef st; strm := strm st;
       after := a; wr := wr st; xtab := xtab st; xpos := xpos st; closed := closed st |}.

  Definition record (n g : N) (v : wval) (st : state) : state :=
    {| out := out st; pos := pos st; xref := xref st; nextRef := nextRef st; strm := strm st;
       after := after st; wr := wr st ++ [(n, g, v)]; xtab := xtab st; xpos := xpos st;
       closed := closed st |}.

  (* Writer.Alloc *)
  Definition alloc (st : state) : res (N * state) :=
    if Z.of_N (nextRef st) >=? maxXRefSize then Err Panic
    else Ok (nextRef st,
             {| out := out st; pos := pos st; xref := xref st; nextRef := nextRef st + 1;
                strm := strm st; after := after st; wr := wr st; xtab := xtab st;
                xpos := xpos st; closed := closed st |})%Z.

  (* Writer.setXRef *)
  Definition set_xref (n : N) (e : entry) (st : state) : res state :=
    match xlookup n (xref st) with
    | Some _ => Err Other                               (* errDuplicateRef *)
    | None =>
      Ok {| out := out st; pos := pos st; xref := xref st ++ [(n, e)];
            nextRef := N.max (nextRef st) (n + 1); strm := strm st; after := after st;
            wr := wr st; xtab := xtab st; xpos := xpos st; closed := closed st |}
    end.

  (* Put of a non-stream object, no stream open *)
  Definition put_obj (n g : N) (o : obj) (st : state) : res state :=
    bind (set_xref n (EUse (pos st) g) st) (fun st1 =>
    Ok (record n g (VObj o)
          (emit (hdr_of n g ++ fmt (map_str (sc n g) o) ++ k_endobj_nl ++ nl c) st1))).

  (* OpenStream: the part that happens at the call *)
  Definition has_crypt_first (d : dict) : bool :=
    match dict_get k_Filter d with
    | Some (OName f) => bytes_eqb f k_Crypt
    | Some (OArr (OName f :: _)) => bytes_eqb f k_Crypt
    | _ => false
    end.

  Definition open_stream (n g : N) (d : dict) (fs : list filt) (st : state) : res state :=
    match strm st with
    | Some _ => Err Other
    | None =>
      bind (set_xref n (EUse (pos st) g) st) (fun st1 =>
      match dict_get k_Length d with
      | Some (OInt _) | None =>
        Ok (with_strm (Some {| s_num := n; s_gen := g; s_dict := d; s_fs := fs; s_buf := [];
                               s_started := false; s_lenref := None |}) st1)
      | Some _ => Err Other                             (* /Length is not an Integer *)
      end)
    end.

  (* the buffer passes 1024 bytes: "N G obj", the dictionary and "stream" go out;
     on a non-seekable sink formatting the placeholder allocates the length object *)
  Definition start_stream (s : sstate) (st : state) : res (sstate * state) :=
    if s_started s then Ok (s, st)
    else
      match dict_get k_Length (s_dict s) with
      | Some _ =>
        Ok ({| s_num := s_num s; s_gen := s_gen s; s_dict := s_dict s; s_fs := s_fs s;
               s_buf := s_buf s; s_started := true; s_lenref := None |}, st)
      | None =>
        if cseek c then
          Ok ({| s_num := s_num s; s_gen := s_gen s; s_dict := s_dict s; s_fs := s_fs s;
                 s_buf := s_buf s; s_started := true; s_lenref := None |}, st)
        else
          bind (alloc st) (fun '(r, st1) =>
          Ok ({| s_num := s_num s; s_gen := s_gen s; s_dict := s_dict s; s_fs := s_fs s;
                 s_buf := s_buf s; s_started := true; s_lenref := Some r |}, st1))
      end.

  (* nothing stands between the caller's bytes and the stream writer *)
  Definition is_plain (s : sstate) : bool :=
    match s_fs s with
    | [] => negb (encrypted c) || has_crypt_first (s_dict s)
    | _ => false
    end.

  Definition write_stream (bs : bytes) (started : bool) (st : state) : res state :=
    match strm st with
    | None => Err Other
    | Some s =>
      let s1 := {| s_num := s_num s; s_gen := s_gen s; s_dict := s_dict s; s_fs := s_fs s;
                   s_buf := s_buf s ++ bs; s_started := s_started s; s_lenref := s_lenref s |} in
      (* without filters and encryption the moment is determined *)
      let plain := is_plain s in
      if plain && negb (Bool.eqb (s_started s || started) (1024 <=? N.of_nat (length (s_buf s1))))
      then Err Other                                     (* the angelic flag contradicts the code *)
      else if started || s_started s then
        bind (start_stream s1 st) (fun '(s2, st1) => Ok (with_strm (Some s2) st1))
      else Ok (with_strm (Some s1) st)
    end.

  Definition encode_chain (fs : list filt) (raw : bytes) : bytes :=
    fold_right (fun f acc => fenc (fst f) (snd f) acc) raw fs.

  Definition stream_raw (n g : N) (d : dict) (fs : list filt) (data : bytes) : bytes :=
    bc (negb (has_crypt_first d)) n g (encode_chain fs data).

  (* the dictionary as written, without /Length *)
  (* the chain a dictionary declares already: names with their parameters (OpenStream re-appends
     them behind the filters it applies itself) *)
  Fixpoint zip_chain (names pp : list obj) : list filt :=
    match names with
    | [] => []
    | n :: names' =>
      (match n with OName f => f | _ => [] end,
       match pp with ODict p :: _ => p | _ => [] end) :: zip_chain names' (tl pp)
    end.

  Definition old_chain (d : dict) : list filt :=
    match dict_get k_Filter d with
    | Some (OName f) => [(f, as_dict (dict_get k_DecodeParms d))]
    | Some (OArr names) =>
      zip_chain names (match dict_get k_DecodeParms d with Some (OArr l) => l | _ => [] end)
    | _ => []
    end.

  Definition stream_dict (n g : N) (d : dict) (fs : list filt) : dict :=
    let d0 := dict_del k_Length d in
    match dict_get k_Filter d0, fs with
    | Some _, _ :: _ =>
      add_filters (add_filters (dict_del k_Filter (dict_del k_DecodeParms d0)) fs) (old_chain d0)
    | _, _ => add_filters d0 fs
    end.

  Definition stream_chunk (n g : N) (sd : dict) (lr : lenrep) (raw : bytes) : bytes :=
    hdr_of n g ++ fmt_sd sd lr ++ k_stream_nl ++ raw ++ k_endstream_endobj ++ nl c.

  (* one deferred object, written when the stream has been closed.  A deferred
     *Stream is written through OpenStream/Close, whose Close walks the list of
     deferred objects again from its start (it is only truncated after the
     loop): the first element is then found written already. *)
  Definition put_stream_now (n g : N) (d : dict) (data : bytes) (st : state) : res state :=
    bind (open_stream n g d [] st) (fun st1 =>
    match strm st1 with
    | None => Err Panic
    | Some s =>
      let s1 := {| s_num := s_num s; s_gen := s_gen s; s_dict := s_dict s; s_fs := s_fs s;
                   s_buf := data; s_started := false; s_lenref := None |} in
      Ok (with_strm (Some s1) st1)
    end).

  (* everything streamWriter.Close does before it turns to the deferred objects.
     [big]: the encoded data reached 1024 bytes, so that the stream writer left
     its buffering mode (at the latest when the filters were flushed). *)
  Definition finish_stream (big : bool) (st : state) : res state :=
    match strm st with
    | None => Err Other
    | Some s0 =>
      let n := s_num s0 in let g := s_gen s0 in
      let raw := stream_raw n g (s_dict s0) (s_fs s0) (s_buf s0) in
      let len := N.of_nat (length raw) in
      let big' := if is_plain s0 then (1024 <=? len) else (s_started s0 || big) in
      (* the filters flush into the stream writer before it is closed *)
      bind (if big' then start_stream s0 st else Ok (s0, st)) (fun '(s, st1) =>
      if Bool.eqb (s_started s) big' then
        let sd := map (fun kv => match kv with (k, v) => (k, map_str (sc n g) v) end)
                      (stream_dict n g (s_dict s) (s_fs s)) in
        match dict_get k_Length (s_dict s) with
        | Some (OInt l) =>
          if (l =? Z.of_N len)%Z then
            Ok (record n g (VStream (s_dict s) (s_fs s) (s_buf s))
                  (with_strm None (emit (stream_chunk n g sd (LDirect len) raw) st1)))
          else Err Other                                (* stream length mismatch *)
        | Some _ => Err Other
        | None =>
          if s_started s then
            match s_lenref s with
            | Some r =>
              (* Placeholder.Set -> Put while the stream is still open: deferred, last *)
              Ok (record n g (VStream (s_dict s) (s_fs s) (s_buf s))
                    (with_after (after st1 ++ [(r, 0, PObj (OInt (Z.of_N len)))])
                       (with_strm None (emit (stream_chunk n g sd (LRef r) raw) st1))))
            | None =>
              if cseek c then
                Ok (record n g (VStream (s_dict s) (s_fs s) (s_buf s))
                      (with_strm None (emit (stream_chunk n g sd (LPadded len) raw) st1)))
              else Err Panic
            end
          else
            Ok (record n g (VStream (s_dict s) (s_fs s) (s_buf s))
                  (with_strm None (emit (stream_chunk n g sd (LDirect len) raw) st1)))
        end
      else Err Other)
    end.

  (* what a nested Close (of a deferred *Stream) finds deferred: the list was emptied before the
     outer loop started, and nobody can Put while the nested stream is written, so it is at most
     the indirect /Length object of that stream *)
  Fixpoint flush_objs (l : list (N * N * pobj)) (st : state) : res state :=
    match l with
    | [] => Ok (with_after [] st)
    | (n, g, PObj o) :: r => bind (put_obj n g o st) (flush_objs r)
    | (_, _, PStream _ _ _) :: _ => Err Panic
    end.

  (* the loop at the end of streamWriter.Close over the deferred objects, which have been taken
     out of Writer.afterStream before (pending := afterStream; afterStream = nil).  A deferred
     *Stream goes through OpenStream, Copy, Close. *)
  Fixpoint flush_after (l : list (N * N * pobj)) (st : state) : res state :=
    match l with
    | [] => Ok st
    | (n, g, PObj o) :: r => bind (put_obj n g o st) (flush_after r)
    | (n, g, PStream d data big) :: r =>
      bind (put_stream_now n g d data st) (fun st1 =>
      bind (finish_stream big st1) (fun st2 =>
      bind (flush_objs (after st2) st2) (flush_after r)))
    end.

  Definition close_stream (big : bool) (st : state) : res state :=
    bind (finish_stream big st) (fun st1 => flush_after (after st1) (with_after [] st1)).

  Definition put (n g : N) (o : pobj) (big : bool) (st : state) : res state :=
    match strm st with
    | Some _ => Ok (with_after (after st ++ [(n, g, o)]) st)
    | None =>
      match o with
      | PObj x => put_obj n g x st
      | PStream d data _ => bind (put_stream_now n g d data st) (close_stream big)
      end
    end.

  (* checkCompressed *)
  Fixpoint check_compressed (rs : list (N * N)) (os : list pobj) : bool :=
    match rs, os with
    | [], [] => true
    | (_, g) :: rs', o :: os' =>
      match o with
      | PStream _ _ _ => false
      | PObj (ORef _ _) => false
      | PObj _ => (g =? 0) && check_compressed rs' os'
      end
    | _, _ => false
    end.

  Fixpoint put_all (rs : list (N * N)) (os : list pobj) (st : state) : res state :=
    match rs, os with
    | (n, g) :: rs', o :: os' => bind (put n g o false st) (put_all rs' os')
    | _, _ => Ok st
    end.

  Fixpoint set_comp (sref : N) (i : N) (rs : list (N * N)) (st : state) : res state :=
    match rs with
    | [] => Ok st
    | (n, _) :: rs' => bind (set_xref n (EComp sref i) st) (set_comp sref (i + 1) rs')
    end.

  Definition pobj_obj (o : pobj) : obj := match o with PObj x => x | PStream _ _ _ => ONull end.

  (* "num offset\n" lines and the concatenated objects *)
  Fixpoint objstm_parts (rs : list (N * N)) (parts : list bytes) (off : N) : bytes * bytes :=
    match rs, parts with
    | (n, _) :: rs', p :: ps' =>
      let body := match ps' with [] => p | _ => p ++ [LF] end in
      let '(h, b) := objstm_parts rs' ps' (off + N.of_nat (length body)) in
      (dec n ++ SP :: dec off ++ LF :: h, body ++ b)
    | _, _ => ([], [])
    end.

  Definition flate_filt : filt := (k_FlateDecode, []).

  Fixpoint record_all (rs : list (N * N)) (os : list pobj) (st : state) : state :=
    match rs, os with
    | (n, g) :: rs', o :: os' => record_all rs' os' (record n g (VObj (pobj_obj o)) st)
    | _, _ => st
    end.

  (* one object stream holding the whole batch (rs, os) *)
  Definition wc_one (rs : list (N * N)) (os : list pobj) (big : bool) (st : state) : res state :=
    bind (alloc st) (fun '(sref, st1) =>
    bind (set_comp sref 0 rs st1) (fun st2 =>
    let '(head, body) := objstm_parts rs (map (fun o => fmt (pobj_obj o)) os) 0 in
    let d := [(k_Type, OName k_ObjStm); (k_N, OInt (Z.of_nat (length os)));
              (k_First, OInt (Z.of_nat (length head)))] in
    bind (open_stream sref 0 d [flate_filt] (record_all rs os st2)) (fun st3 =>
    match strm st3 with
    | None => Err Panic
    | Some s =>
      close_stream big (with_strm (Some {| s_num := s_num s; s_gen := s_gen s; s_dict := s_dict s;
                                      s_fs := s_fs s; s_buf := head ++ body;
                                      s_started := false; s_lenref := None |}) st3)
    end))).

  (* maxObjStmMembers: readers refuse larger object streams, so a larger batch is split *)
  Definition max_members : nat := N.to_nat 10000.

  Fixpoint wc_chunks (fuel : nat) (rs : list (N * N)) (os : list pobj) (bigs : list bool) (st : state)
    : res state :=
    match fuel with
    | O => Err OutOfFuel
    | S f =>
      if Nat.ltb max_members (length os) then
        bind (wc_one (firstn max_members rs) (firstn max_members os) (hd false bigs) st)
             (wc_chunks f (skipn max_members rs) (skipn max_members os) (tl bigs))
      else wc_one rs os (hd false bigs) st
    end.

  Definition write_compressed (rs : list (N * N)) (os : list pobj) (bigs : list bool) (st : state) : res state :=
    match strm st with
    | Some _ => Err Other
    | None =>
      if negb (check_compressed rs os) then Err Other
      else match os with
      | [] => Ok st
      | _ =>
        if negb (use_objstm c) then put_all rs os st
        else wc_chunks (S (length os)) rs os bigs st
      end
    end.

  (* ---- cross-reference section ---- *)

  Definition xref_line (e : option entry) : bytes :=
    match e with
    | Some (EUse off g) => pad0 10 (dec off) ++ SP :: pad0 5 (dec g) ++ [SP; 110; CR; LF]
    | _ => pad0 10 [] ++ SP :: dec 65535 ++ [SP; 102; CR; LF]
    end.

  Definition has_comp (x : list (N * entry)) : bool :=
    existsb (fun ne => match snd ne with EComp _ _ => true | _ => false end) x.

  Definition trailer_dict (root : N) (info : option N) (size : N) : dict :=
    [(k_Root, ORef root 0)] ++
    (match info with Some i => [(k_Info, ORef i 0)] | None => [] end) ++
    (match cid c with Some (a, b) => [(k_ID, OArr [OStr a; OStr b])] | None => [] end) ++
    (match cencrypt c with Some e => [(k_Encrypt, e)] | None => [] end) ++
    [(k_Size, OInt (Z.of_N size))].

  Definition write_xref_table (tr : dict) (st : state) : res state :=
    if has_comp (xref st) then Err Other
    else
      Ok (emit (kw_xref ++ LF :: 48 :: SP :: dec (nextRef st) ++ LF ::
                flat_map (fun i => xref_line (xlookup i (xref st))) (seqN 0 (N.to_nat (nextRef st))) ++
                kw_trailer ++ LF :: fmt (ODict tr) ++ [LF]) st).

  (* the three fields of an xref stream row *)
  Definition fields (e : option entry) : N * N * N :=
    match e with
    | Some (EComp s i) => (2, s, i)
    | Some (EUse off g) => (1, off, g)
    | Some (EFree g) => (0, 0, g)
    | None => (0, 0, 0)
    end.
  (* the value that takes part in the width computation *)
  Definition fields_for_width (e : option entry) : N * N :=
    match e with
    | Some (EComp s i) => (s, i)
    | Some (EUse off g) => (off, g)
    | Some (EFree g) => (0, if (Z.of_N g =? maxGeneration)%Z then 0 else g)
    | None => (0, 0)
    end.

  Definition xref_rows (x : list (N * entry)) (size : N) (w2 w3 : nat) : list bytes :=
    map (fun i => let '(t, f2, f3) := fields (xlookup i x) in
                  (t mod 256) :: be_bytes w2 f2 ++ be_bytes w3 f3)
        (seqN 0 (N.to_nat size)).

  Definition write_xref_stream (tr : dict) (st : state) : res state :=
    bind (alloc st) (fun '(r, st1) =>
    let size := nextRef st1 in
    let ws := map (fun i => fields_for_width (xlookup i (xref st1))) (seqN 0 (N.to_nat size)) in
    let m2 := fold_left N.max (map fst ws) 0 in
    let m3 := fold_left N.max (map snd ws) 0 in
    let w2 := width_of m2 in let w3 := width_of m3 in
    let cols := 1 + w2 + w3 in
    let rows := xref_rows (xref st1) size (N.to_nat w2) (N.to_nat w3) in
    let zdata := deflate (png_up (repeat 0 (N.to_nat cols)) rows) in
    (* a table that compresses below the reader's entry budget is stored as it is *)
    let sparse := (Gen_Limits.MaxXRefEntries (Z.of_nat (length zdata)) <? Z.of_N size)%Z in
    let data := if sparse then concat rows else zdata in
    let d := dict_set k_Size (OInt (Z.of_N size)) tr ++
             [(k_Type, OName k_XRef);
              (k_W, OArr [OInt 1; OInt (Z.of_N w2); OInt (Z.of_N w3)])] ++
             (if sparse then []
              else [(k_Filter, OName k_FlateDecode);
                    (k_DecodeParms, ODict [(k_Columns, OInt (Z.of_N cols)); (k_Predictor, OInt 12)])]) in
    (* w.w.enc = nil: neither strings nor data are encrypted *)
    bind (set_xref r (EUse (pos st1) 0) st1) (fun st2 =>
    Ok (emit (hdr_of r 0 ++ fmt_sd d (LDirect (N.of_nat (length data))) ++
              k_stream_nl ++ data ++ k_endstream_endobj ++ nl c)
          {| out := out st2; pos := pos st2; xref := xref st2; nextRef := nextRef st2;
             strm := strm st2; after := after st2; wr := wr st2; xtab := xref st1;
             xpos := xpos st2; closed := closed st2 |}))).

  Definition close0 (cat : obj) (info : option obj) (st : state) : res state :=
    match strm st with
    | Some _ => Err Other
    | None =>
      bind (alloc st) (fun '(croot, st1) =>
      bind (put_obj croot 0 cat st1) (fun st2 =>
      bind (match info with
            | None => Ok (None, st2)
            | Some i => bind (alloc st2) (fun '(ri, st3) =>
                        bind (put_obj ri 0 i st3) (fun st4 => Ok (Some ri, st4)))
            end) (fun '(iref, st5) =>
      let xp := pos st5 in
      let tr := trailer_dict croot iref (nextRef st5) in
      bind (if use_xrefstm c then write_xref_stream tr st5
            else bind (write_xref_table tr st5) (fun s =>
                 Ok {| out := out s; pos := pos s; xref := xref s; nextRef := nextRef s;
                       strm := strm s; after := after s; wr := wr s; xtab := xref s;
                       xpos := xpos s; closed := closed s |})) (fun st6 =>
      let st7 := emit (kw_startxref ++ LF :: dec xp ++ LF :: kw_eof ++ [LF]) st6 in
      Ok {| out := out st7; pos := pos st7; xref := xref st7; nextRef := nextRef st7;
            strm := strm st7; after := after st7; wr := wr st7; xtab := xtab st7;
            xpos := xp; closed := true |}))))
    end.

  (* Close recovers the panic of Alloc (no object number left for the catalog, the info dictionary
     or the cross-reference stream) and returns it as an error *)
  Definition close (cat : obj) (info : option obj) (st : state) : res state :=
    match close0 cat info st with
    | Err Panic => Err Other
    | r => r
    end.

  (* the operation as the code performs it once it has accepted the arguments *)
  Definition step0 (st : state) (o : op) : res state :=
    if closed st then Err Other else
    match o with
    | Alloc => bind (alloc st) (fun '(_, st1) => Ok st1)
    | Put n g x big => put n g x big st
    | WriteCompressed rs os bigs => write_compressed rs os bigs st
    | OpenStream n g d fs => open_stream n g d fs st
    | Write bs started => write_stream bs started st
    | CloseStream big => close_stream big st
    | Close cat info => close cat info st
    end.

  (* ---- acceptance: what Put, WriteCompressed, OpenStream and Close refuse before they touch
     the file, because the reader would refuse it.  A refused operation leaves the state as it
     was (no cross-reference entry, no byte written, the writer usable). ---- *)
  (* the stream dictionary as it is formatted: with its /Length, strings encrypted *)
  Definition written_stream_dict (n g : N) (d : dict) (fs : list filt) : obj :=
    ODict ((k_Length, OInt 0) ::
           map (fun kv => match kv with (k, v) => (k, map_str (sc n g) v) end) (stream_dict n g d fs)).

  Definition chain_length_ok (d : dict) (fs : list filt) : bool :=
    match fs with
    | [] => true                                       (* a chain only declared is written as it is *)
    | _ => (Z.of_nat (length fs + length (old_chain (dict_del k_Length d))) <=? maxFilterChainLength)%Z
    end.

  Definition accepts_pobj (n g : N) (o : pobj) : bool :=
    match o with
    | PObj x => caps_ok 0 (map_str (sc n g) x)
    | PStream d _ _ => caps_ok 0 (written_stream_dict n g d [])
    end.

  (* members of an object stream are not encrypted one by one; without object streams the batch
     is a series of Puts *)
  Fixpoint accepts_members (rs : list (N * N)) (os : list pobj) : bool :=
    match rs, os with
    | (n, g) :: rs', o :: os' =>
      (if use_objstm c then caps_ok 0 (pobj_obj o) else accepts_pobj n g o) && accepts_members rs' os'
    | _, _ => true
    end.

  Definition accepts_deferred (l : list (N * N * pobj)) : bool :=
    forallb (fun e => match e with (n, g, o) => accepts_pobj n g o end) l.

  (* [accepts st o]: the operation does not run into one of the formatter's refusals.
     - Put while a stream is open is deferred: nothing is formatted yet;
     - OpenStream checks the length of the chain; the dictionary is formatted when the stream is
       written, i.e. (for the streams of this model, whose moment of starting is an input) at
       CloseStream, together with the objects Put in between. *)
  Definition accepts (st : state) (o : op) : bool :=
    match o with
    | Put n g x _ => match strm st with Some _ => true | None => accepts_pobj n g x end
    | WriteCompressed rs os _ => accepts_members rs os
    | OpenStream n g d fs => chain_length_ok d fs
    | CloseStream _ =>
      match strm st with
      | Some s => caps_ok 0 (written_stream_dict (s_num s) (s_gen s) (s_dict s) (s_fs s)) &&
                  accepts_deferred (after st)
      | None => true
      end
    | Close cat info =>
      caps_ok 0 cat && match info with Some i => caps_ok 0 i | None => true end
    | _ => true
    end.

  Definition step (st : state) (o : op) : res state :=
    if accepts st o then step0 st o else Err Other.

  (* A call that returns an error has either been refused before it touched anything - the writer is
     as it was - or it has failed after part of an object was registered or written: the writer
     then keeps the error, and Put, OpenStream, WriteCompressed and Close return it from then on
     (Writer.fail).  [dirty st o]: the refusal of [o] in [st] is of the second kind.  Checked first,
     without effect: the writer is closed; a stream is open (WriteCompressed, OpenStream); the
     arguments of WriteCompressed (checkCompressed); the number is in use (Put, OpenStream); the
     chain length, /Length that is no integer (OpenStream).  With effect: the formatter's refusals
     (Put: the header is out; a *Stream: its dictionary is written at Close) and, with object
     streams, everything WriteCompressed does after it has allocated the stream's number. *)
  Definition is_ok {A} (r : res A) : bool := match r with Ok _ => true | Err _ => false end.

  (* without object streams the members are Put one by one: the first one refused cleanly leaves
     everything as it was; a format failure, or a refusal of a later member (the earlier ones are in
     the file), fails the writer *)
  Fixpoint fallback_dirty (first : bool) (rs : list (N * N)) (os : list pobj) (st : state) : bool :=
    match rs, os with
    | (n, g) :: rs', o :: os' =>
      match put n g o false st with
      | Ok st1 => if accepts_pobj n g o then fallback_dirty false rs' os' st1 else true
      | Err _ => negb first
      end
    | _, _ => false
    end.

  Definition dirty (st : state) (o : op) : bool :=
    negb (closed st) &&
    match o with
    | Put n g x big =>
      match strm st with
      | Some _ => false
      | None =>
        match x with
        | PObj y => negb (accepts_pobj n g x) && is_ok (put_obj n g y st)
        | PStream d data _ => is_ok (put_stream_now n g d data st)   (* the stream was opened *)
        end
      end
    | WriteCompressed rs os bigs =>
      match strm st, os with
      | None, _ :: _ =>
        check_compressed rs os &&
        (if use_objstm c then negb (is_ok (step st o))
         else fallback_dirty true rs os st)
      | _, _ => false
      end
    | _ => false
    end.

  Lemma step_ok st o st' : step st o = Ok st' -> step0 st o = Ok st'.
  Proof. unfold step. destruct (accepts st o); [auto | discriminate]. Qed.

  Lemma step_accepts st o st' : step st o = Ok st' -> accepts st o = true.
  Proof. unfold step. destruct (accepts st o); [auto | discriminate]. Qed.

  Lemma close_ok cat info st st' : close cat info st = Ok st' -> close0 cat info st = Ok st'.
  Proof. unfold close. destruct (close0 cat info st) as [x|[]]; auto; discriminate. Qed.

  (* NewWriter *)
  Definition init : res state :=
    if negb (cv c <=? 8) then Err Other
    else if encrypted c && ((cv c =? 0) || negb (cipher_eqb (ccipher c) (cipher_for (cv c)))) then Err Other
    else if (cv c =? 0) && (match cid c with Some _ => true | None => false end) then Err Other
    else
      let h := kw_pdf ++ version_text (cv c) ++ [LF; 37; 128; 128; 128; 128; LF] ++ nl c in
      Ok {| out := h; pos := N.of_nat (length h); xref := [(0, EFree 65535)]; nextRef := 1;
            strm := None; after := []; wr := []; xtab := []; xpos := 0; closed := false |}.

  Fixpoint run_from (st : state) (ops : list op) : res state :=
    match ops with
    | [] => Ok st
    | o :: r => bind (step st o) (fun st1 => run_from st1 r)
    end.

  Definition run (ops : list op) : res state := bind init (fun st => run_from st ops).

  (* Alloc, Put, WriteCompressed and OpenStream that are refused leave the writer usable: the
     history goes on from the same state (for the correspondence: the indices of the refused
     operations, then the first operation that ends the history and its class) *)
  Definition resumable (o : op) : bool :=
    match o with
    | Put _ _ _ _ | WriteCompressed _ _ _ | OpenStream _ _ _ _ => true
    | _ => false
    end.

  Fixpoint run_lenient (st : state) (ops : list op) (i : N) (refused : list N) (failed : bool)
    : state * list N * bool * option (N * cls) :=
    match ops with
    | [] => (st, rev refused, failed, None)
    | o :: r =>
      if failed then
        (* the writer keeps its first error: Alloc works, nothing else *)
        match o with
        | Alloc =>
          match step st o with
          | Ok st1 => run_lenient st1 r (i + 1) refused failed
          | Err e => (st, rev refused, failed, Some (i, e))
          end
        | _ =>
          if resumable o then run_lenient st r (i + 1) (i :: refused) failed
          else (st, rev refused, failed, Some (i, Other))
        end
      else
        match step st o with
        | Ok st1 => run_lenient st1 r (i + 1) refused failed
        | Err Other =>
          if resumable o then run_lenient st r (i + 1) (i :: refused) (dirty st o)
          else (st, rev refused, failed, Some (i, Other))
        | Err e => (st, rev refused, failed, Some (i, e))
        end
    end.

  (* index of the first rejected operation and its class (for the correspondence) *)
  Fixpoint run_trace (st : state) (ops : list op) (i : N) : state * option (N * cls) :=
    match ops with
    | [] => (st, None)
    | o :: r =>
      match step st o with
      | Ok st1 => run_trace st1 r (i + 1)
      | Err e => (st, Some (i, e))
      end
    end.
End Writer.
