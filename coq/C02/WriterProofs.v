(* C02: lemmas about the writer model: the sink only grows, pos = length out,
   duplicates are refused. *)
From Coq Require Import List NArith ZArith Bool Lia.
From GoPdf.Base Require Import Bytes Res.
From GoPdf.Gen Require Import Gen_Consts.
From GoPdf.C02 Require Import Obj Dec Syntax Writer.
Import ListNotations.
Open Scope N_scope.

Lemma bind_ok {A B} (r : res A) (f : A -> res B) (b : B) :
  bind r f = Ok b -> exists a, r = Ok a /\ f a = Ok b.
Proof. destruct r; cbn; intros H; [eauto | discriminate]. Qed.

Ltac binv H :=
  match type of H with
  | bind ?r ?f = Ok ?b =>
    let a := fresh "a" in let H1 := fresh "Hb" in let H2 := fresh "Hk" in
    destruct (bind_ok r f b H) as [a [H1 H2]]; clear H
  end.

Section Proofs.
  Variable fmt : obj -> bytes.
  Variable fmt_sd : dict -> lenrep -> bytes.
  Variable encS : N -> N -> bytes -> bytes.
  Variable encB : N -> N -> bytes -> bytes.
  Variable fenc : bytes -> dict -> bytes -> bytes.
  Variable deflate : bytes -> bytes.
  Variable c : cfg.

  Notation step := (step fmt fmt_sd encS encB fenc deflate c).
  Notation run_from := (run_from fmt fmt_sd encS encB fenc deflate c).
  Notation run := (run fmt fmt_sd encS encB fenc deflate c).
  Notation put_obj := (put_obj fmt encS c).
  Notation finish_stream := (finish_stream fmt_sd encS encB fenc c).
  Notation flush_after := (flush_after fmt fmt_sd encS encB fenc c).
  Notation flush_objs := (flush_objs fmt encS c).
  Notation close_stream := (close_stream fmt fmt_sd encS encB fenc c).
  Notation put := (put fmt fmt_sd encS encB fenc c).
  Notation put_all := (put_all fmt fmt_sd encS encB fenc c).
  Notation write_compressed := (write_compressed fmt fmt_sd encS encB fenc c).
  Notation write_xref_table := (write_xref_table fmt).
  Notation write_xref_stream := (write_xref_stream fmt_sd deflate c).
  Notation close := (close fmt fmt_sd encS deflate c).
  Notation start_stream := (start_stream c).
  Notation write_stream := (write_stream c).

  (* [ext st st']: st' has the bytes of st followed by more, and its position has moved along *)
  Definition ext (st st' : state) : Prop :=
    exists bs, out st' = out st ++ bs /\ pos st' = pos st + N.of_nat (length bs).

  Lemma ext_refl st : ext st st.
  Proof. exists []. rewrite app_nil_r. split; [reflexivity | cbn; lia]. Qed.

  Lemma ext_trans a b d : ext a b -> ext b d -> ext a d.
  Proof.
    intros [x [Hx Px]] [y [Hy Py]]. exists (x ++ y). rewrite Hy, Hx, app_assoc. split; [reflexivity|].
    rewrite Py, Px, app_length. lia.
  Qed.

  Lemma ext_same a b : out b = out a -> pos b = pos a -> ext a b.
  Proof. intros Ho Hp. exists []. rewrite app_nil_r, Ho, Hp. split; [reflexivity | cbn; lia]. Qed.

  Lemma ext_emit bs st : ext st (emit bs st).
  Proof. exists bs. cbn. split; reflexivity. Qed.

  Definition pos_ok (st : state) : Prop := pos st = N.of_nat (length (out st)).

  Lemma ext_pos_ok a b : ext a b -> pos_ok a -> pos_ok b.
  Proof. intros [x [Hx Px]] H. unfold pos_ok in *. rewrite Px, Hx, app_length, H. lia. Qed.

  Lemma alloc_ext st r st' : alloc st = Ok (r, st') -> ext st st'.
  Proof.
    unfold alloc. destruct (_ >=? _)%Z; [discriminate|]. intros H; inversion H; subst. apply ext_same; reflexivity.
  Qed.

  Lemma set_xref_ext n e st st' : set_xref n e st = Ok st' -> ext st st'.
  Proof.
    unfold set_xref. destruct (xlookup n (xref st)); [discriminate|]. intros H; inversion H; subst.
    apply ext_same; reflexivity.
  Qed.

  Lemma put_obj_ext n g o st st' : put_obj n g o st = Ok st' -> ext st st'.
  Proof.
    unfold Writer.put_obj. intros H. binv H. inversion Hk; subst.
    eapply ext_trans; [eapply set_xref_ext; eassumption|].
    eapply ext_trans; [apply ext_emit|]. apply ext_same; reflexivity.
  Qed.

  Lemma open_stream_ext n g d fs st st' : open_stream n g d fs st = Ok st' -> ext st st'.
  Proof.
    unfold open_stream. destruct (strm st); [discriminate|]. intros H. binv H.
    eapply ext_trans; [eapply set_xref_ext; eassumption|].
    destruct (dict_get k_Length d) as [[]|]; try discriminate; inversion Hk; subst; apply ext_same; reflexivity.
  Qed.

  Lemma start_stream_ext s st s' st' : start_stream s st = Ok (s', st') -> ext st st'.
  Proof.
    unfold Writer.start_stream. destruct (s_started s); [intros H; inversion H; subst; apply ext_refl|].
    destruct (dict_get k_Length (s_dict s)); [intros H; inversion H; subst; apply ext_refl|].
    destruct (cseek c); [intros H; inversion H; subst; apply ext_refl|].
    intros H. binv H. destruct a as [r st1]. inversion Hk; subst. eapply alloc_ext; eassumption.
  Qed.

  Lemma write_stream_ext bs b st st' : write_stream bs b st = Ok st' -> ext st st'.
  Proof.
    unfold Writer.write_stream. destruct (strm st) as [s|]; [|discriminate].
    destruct (_ && _); [discriminate|].
    destruct (b || s_started s).
    - intros H. binv H. destruct a as [s2 st1]. inversion Hk; subst.
      eapply ext_trans; [eapply start_stream_ext; eassumption|]. apply ext_same; reflexivity.
    - intros H; inversion H; subst. apply ext_same; reflexivity.
  Qed.

  Lemma finish_stream_ext big st st' : finish_stream big st = Ok st' -> ext st st'.
  Proof.
    unfold Writer.finish_stream. destruct (strm st) as [s0|]; [|discriminate].
    cbv zeta. intros H. binv H. destruct a as [s st1].
    assert (E1 : ext st st1).
    { destruct (if is_plain c s0 then _ else _).
      - eapply start_stream_ext; eassumption.
      - inversion Hb; subst; apply ext_refl. }
    destruct (Bool.eqb _ _); [|discriminate].
    destruct (dict_get k_Length (s_dict s)) as [[]|]; try discriminate.
    - destruct (_ =? _)%Z; [|discriminate]. inversion Hk; subst.
      eapply ext_trans; [exact E1|]. eapply ext_trans; [apply ext_emit|]. apply ext_same; reflexivity.
    - destruct (s_started s).
      + destruct (s_lenref s).
        * inversion Hk; subst. eapply ext_trans; [exact E1|]. eapply ext_trans; [apply ext_emit|]. apply ext_same; reflexivity.
        * destruct (cseek c); [|discriminate]. inversion Hk; subst.
          eapply ext_trans; [exact E1|]. eapply ext_trans; [apply ext_emit|]. apply ext_same; reflexivity.
      + inversion Hk; subst. eapply ext_trans; [exact E1|]. eapply ext_trans; [apply ext_emit|]. apply ext_same; reflexivity.
  Qed.

  Lemma flush_objs_ext l : forall st st', flush_objs l st = Ok st' -> ext st st'.
  Proof.
    induction l as [|[[n g] o] l IH]; intros st st' H; cbn in H.
    - inversion H; subst. apply ext_same; reflexivity.
    - destruct o; [|discriminate].
      binv H. eapply ext_trans; [eapply put_obj_ext; eassumption|]. eapply IH; eassumption.
  Qed.

  Lemma put_stream_now_ext n g d data st st' : put_stream_now n g d data st = Ok st' -> ext st st'.
  Proof.
    unfold put_stream_now. intros H. binv H.
    eapply ext_trans; [eapply open_stream_ext; eassumption|].
    destruct (strm a); [|discriminate]. inversion Hk; subst. apply ext_same; reflexivity.
  Qed.

  Lemma flush_after_ext l : forall st st', flush_after l st = Ok st' -> ext st st'.
  Proof.
    induction l as [|[[n g] o] l IH]; intros st st' H; cbn in H.
    - inversion H; subst. apply ext_refl.
    - destruct o.
      + binv H. eapply ext_trans; [eapply put_obj_ext; eassumption|]. eapply IH; eassumption.
      + binv H. binv Hk. binv Hk0.
        eapply ext_trans; [eapply put_stream_now_ext; eassumption|].
        eapply ext_trans; [eapply finish_stream_ext; eassumption|].
        eapply ext_trans; [eapply flush_objs_ext; eassumption|]. eapply IH; eassumption.
  Qed.

  Lemma close_stream_ext big st st' : close_stream big st = Ok st' -> ext st st'.
  Proof.
    unfold Writer.close_stream. intros H. binv H.
    eapply ext_trans; [eapply finish_stream_ext; eassumption|].
    eapply ext_trans; [|eapply flush_after_ext; eassumption]. apply ext_same; reflexivity.
  Qed.

  Lemma put_ext n g o big st st' : put n g o big st = Ok st' -> ext st st'.
  Proof.
    unfold Writer.put. destruct (strm st).
    - intros H; inversion H; subst. apply ext_same; reflexivity.
    - destruct o.
      + apply put_obj_ext.
      + intros H. binv H. eapply ext_trans; [eapply put_stream_now_ext; eassumption|].
        eapply close_stream_ext; eassumption.
  Qed.

  Lemma put_all_ext rs : forall os st st', put_all rs os st = Ok st' -> ext st st'.
  Proof.
    induction rs as [|[n g] rs IH]; intros os st st' H; cbn in H.
    - inversion H; subst; apply ext_refl.
    - destruct os as [|o os]; [inversion H; subst; apply ext_refl|].
      binv H. eapply ext_trans; [eapply put_ext; eassumption|]. eapply IH; eassumption.
  Qed.

  Lemma set_comp_ext sref rs : forall i st st', set_comp sref i rs st = Ok st' -> ext st st'.
  Proof.
    induction rs as [|[n g] rs IH]; intros i st st' H; cbn in H.
    - inversion H; subst; apply ext_refl.
    - binv H. eapply ext_trans; [eapply set_xref_ext; eassumption|]. eapply IH; eassumption.
  Qed.

  Lemma record_all_same rs : forall os st, out (record_all rs os st) = out st /\ pos (record_all rs os st) = pos st.
  Proof.
    induction rs as [|[n g] rs IH]; intros os st; cbn; [auto|].
    destruct os; [auto|]. destruct (IH os (record n g (VObj (pobj_obj p)) st)) as [A B].
    rewrite A, B. auto.
  Qed.

  Lemma wc_one_ext rs os big st st' : wc_one fmt fmt_sd encS encB fenc c rs os big st = Ok st' -> ext st st'.
  Proof.
    unfold wc_one. intros H. binv H. destruct a as [sref st1]. binv Hk.
    destruct (objstm_parts _ _ _) as [head body]. binv Hk0.
    destruct (strm a0) eqn:Es; [|discriminate].
    eapply ext_trans; [eapply alloc_ext; eassumption|].
    eapply ext_trans; [eapply set_comp_ext; eassumption|].
    eapply ext_trans.
    { destruct (record_all_same rs os a) as [A B]. apply ext_same; eassumption. }
    eapply ext_trans; [eapply open_stream_ext; eassumption|].
    eapply ext_trans; [|eapply close_stream_ext; eassumption]. apply ext_same; reflexivity.
  Qed.

  Lemma wc_chunks_ext fuel : forall rs os bigs st st',
    wc_chunks fmt fmt_sd encS encB fenc c fuel rs os bigs st = Ok st' -> ext st st'.
  Proof.
    induction fuel as [|f IH]; intros rs os bigs st st' H; cbn [wc_chunks] in H; [discriminate|].
    destruct (Nat.ltb _ _).
    - binv H. eapply ext_trans; [eapply wc_one_ext; eassumption | eapply IH; eassumption].
    - eapply wc_one_ext; eassumption.
  Qed.

  Lemma write_compressed_ext rs os bigs st st' : write_compressed rs os bigs st = Ok st' -> ext st st'.
  Proof.
    unfold Writer.write_compressed. destruct (strm st); [discriminate|].
    destruct (negb (check_compressed rs os)); [discriminate|].
    destruct os as [|o os]; [intros H; inversion H; subst; apply ext_refl|].
    destruct (negb (use_objstm c)); [apply put_all_ext | apply wc_chunks_ext].
  Qed.

  Lemma write_xref_table_ext tr st st' : write_xref_table tr st = Ok st' -> ext st st'.
  Proof.
    unfold Writer.write_xref_table. destruct (has_comp _); [discriminate|].
    intros H; inversion H; subst. apply ext_emit.
  Qed.

  Lemma write_xref_stream_ext tr st st' : write_xref_stream tr st = Ok st' -> ext st st'.
  Proof.
    unfold Writer.write_xref_stream. intros H. binv H. destruct a as [r st1]. cbv zeta in Hk.
    binv Hk. inversion Hk0; subst.
    eapply ext_trans; [eapply alloc_ext; eassumption|].
    eapply ext_trans; [eapply set_xref_ext; eassumption|].
    match goal with |- ext _ (emit ?bs ?s) => eapply ext_trans; [|apply (ext_emit bs s)] end.
    apply ext_same; reflexivity.
  Qed.

  Lemma close_ext cat info st st' : close cat info st = Ok st' -> ext st st'.
  Proof.
    intros Hc0; apply close_ok in Hc0; revert Hc0.
    unfold Writer.close0. destruct (strm st); [discriminate|].
    intros H. binv H. destruct a as [croot st1]. binv Hk. binv Hk0. destruct a0 as [iref st5].
    cbv zeta in Hk. binv Hk. inversion Hk0; subst.
    eapply ext_trans; [eapply alloc_ext; eassumption|].
    eapply ext_trans; [eapply put_obj_ext; eassumption|].
    assert (E : ext a st5).
    { destruct info.
      - binv Hb1. destruct a1 as [ri st3]. binv Hk. inversion Hk1; subst.
        eapply ext_trans; [eapply alloc_ext; eassumption|]. eapply put_obj_ext; eassumption.
      - inversion Hb1; subst. apply ext_refl. }
    eapply ext_trans; [exact E|].
    assert (E2 : ext st5 a0).
    { destruct (use_xrefstm c).
      - eapply write_xref_stream_ext; eassumption.
      - binv Hb2. inversion Hk; subst. eapply ext_trans; [eapply write_xref_table_ext; eassumption|].
        apply ext_same; reflexivity. }
    eapply ext_trans; [exact E2|].
    eapply ext_trans; [apply ext_emit|]. apply ext_same; reflexivity.
  Qed.

  Lemma step_ext st o st' : step st o = Ok st' -> ext st st'.
  Proof.
    intros Hs0; apply step_ok in Hs0; revert Hs0.
    unfold Writer.step0. destruct (closed st); [discriminate|]. destruct o.
    - intros H. binv H. destruct a as [r st1]. inversion Hk; subst. eapply alloc_ext; eassumption.
    - apply put_ext.
    - apply write_compressed_ext.
    - apply open_stream_ext.
    - apply write_stream_ext.
    - apply close_stream_ext.
    - apply close_ext.
  Qed.

  Lemma run_from_ext ops : forall st st', run_from st ops = Ok st' -> ext st st'.
  Proof.
    induction ops as [|o ops IH]; intros st st' H; cbn in H.
    - inversion H; subst; apply ext_refl.
    - binv H. eapply ext_trans; [eapply step_ext; eassumption|]. eapply IH; eassumption.
  Qed.

  Lemma init_pos_ok st : init c = Ok st -> pos_ok st.
  Proof.
    unfold init. destruct (negb _); [discriminate|]. destruct (_ && _); [discriminate|].
    destruct (_ && _); [discriminate|]. intros H; inversion H; subst. reflexivity.
  Qed.

  (* pos = length out, after every accepted history *)
  Lemma pos_inv_lemma ops st : run ops = Ok st -> pos st = N.of_nat (length (out st)).
  Proof.
    unfold Writer.run. intros H. binv H.
    eapply ext_pos_ok; [eapply run_from_ext; eassumption|]. eapply init_pos_ok; eassumption.
  Qed.
End Proofs.
