(* Proofs about the store-passing alias model of Alias.v. *)
From Coq Require Import List NArith Bool Lia PeanoNat.
From GoPdf.Base Require Import Bytes.
From GoPdf.C02 Require Import Alias.
Import ListNotations.
Local Open Scope nat_scope.

(* ------------------------------------------------------------------ *)
(* induction principle for the nested inductive gval                    *)

Definition gval_ind' (P : gval -> Prop)
  (HNull : P GNull)
  (HInt : forall z, P (GInt z))
  (HName : forall n, P (GName n))
  (HStr : forall s, P (GStr s))
  (HArr : forall l, Forall P l -> P (GArr l))
  (HDict : forall l, Forall (fun kv => P (snd kv)) l -> P (GDict l))
  : forall v, P v :=
  fix F (v : gval) : P v :=
    match v with
    | GNull => HNull
    | GInt z => HInt z
    | GName n => HName n
    | GStr s => HStr s
    | GArr l =>
        HArr l ((fix go (l : list gval) : Forall P l :=
                   match l with
                   | [] => Forall_nil P
                   | x :: t => Forall_cons x (F x) (go t)
                   end) l)
    | GDict l =>
        HDict l ((fix go (l : list (bytes * gval)) : Forall (fun kv => P (snd kv)) l :=
                    match l with
                    | [] => Forall_nil _
                    | kv :: t =>
                        Forall_cons kv
                          (match kv as p return P (snd p) with (_, x) => F x end)
                          (go t)
                    end) l)
    end.

(* ------------------------------------------------------------------ *)
(* generic heap lemmas                                                  *)

Lemma hlookup_lt_fresh {A} (h : heap A) a x :
  hlookup a h = Some x -> a < hfresh h.
Proof.
  unfold hfresh. induction h as [|[a' y] t IH]; cbn; intro H.
  - discriminate.
  - destruct (Nat.eqb a a') eqn:E.
    + apply Nat.eqb_eq in E. subst. lia.
    + specialize (IH H). lia.
Qed.

Lemma hlookup_fresh {A} (h : heap A) : hlookup (hfresh h) h = None.
Proof.
  destruct (hlookup (hfresh h) h) eqn:E; [|reflexivity].
  apply hlookup_lt_fresh in E. lia.
Qed.

Lemma hlookup_update {A} (h : heap A) a a' x :
  hlookup a (hupdate a' x h) = if Nat.eqb a a' then Some x else hlookup a h.
Proof. reflexivity. Qed.

Lemma hext_refl {A} (h : heap A) : hext h h.
Proof. intros a x H. exact H. Qed.

Lemma hext_trans {A} (h1 h2 h3 : heap A) : hext h1 h2 -> hext h2 h3 -> hext h1 h3.
Proof. intros H1 H2 a x H. apply H2, H1, H. Qed.

Lemma hext_alloc {A} (h : heap A) x : hext h (hupdate (hfresh h) x h).
Proof.
  intros a y H. rewrite hlookup_update.
  destruct (Nat.eqb a (hfresh h)) eqn:E; [|exact H].
  apply Nat.eqb_eq in E. subst. rewrite hlookup_fresh in H. discriminate.
Qed.

Lemma bext_hext h h' : bext h h' <-> hext h h'.
Proof. reflexivity. Qed.

Lemma firstn_app_exact {A} (l1 l2 : list A) n :
  length l1 = n -> firstn n (l1 ++ l2) = l1.
Proof.
  intro L. rewrite firstn_app, L, Nat.sub_diag. cbn.
  rewrite app_nil_r, <- L. apply firstn_all.
Qed.

Lemma firstn_snoc_exact {A} (l1 : list A) x r n :
  length l1 = n -> firstn (S n) (l1 ++ x :: r) = l1 ++ [x].
Proof.
  intro L. change (l1 ++ x :: r) with (l1 ++ [x] ++ r).
  rewrite app_assoc. apply firstn_app_exact.
  rewrite app_length, L. cbn. lia.
Qed.

(* ------------------------------------------------------------------ *)
(* xor_stream                                                           *)

Lemma xor_stream_length ks i s : length (xor_stream ks i s) = length s.
Proof. revert i; induction s as [|b t IH]; intro i; cbn; [reflexivity|]. now rewrite IH. Qed.

Lemma xor_stream_involutive ks i s : xor_stream ks i (xor_stream ks i s) = s.
Proof.
  revert i; induction s as [|b t IH]; intro i; cbn; [reflexivity|].
  rewrite IH. f_equal.
  rewrite N.lxor_assoc, N.lxor_nilpotent, N.lxor_0_r. reflexivity.
Qed.

(* ------------------------------------------------------------------ *)
(* (1) the copying EncryptBytes never changes a visible buffer          *)

Lemma encrypt_copy_ext ks h s h' s' :
  encrypt_bytes false ks h s = (h', s') -> bext h h'.
Proof.
  unfold encrypt_bytes. intro H. inversion H; subst. apply hext_alloc.
Qed.

Lemma fmt_seq_ext {A} (f : bheap -> A -> bheap * bytes) (l : list A) :
  Forall (fun x => forall h h' o, f h x = (h', o) -> bext h h') l ->
  forall h h' o, fmt_seq f l h = (h', o) -> bext h h'.
Proof.
  induction 1 as [|x t Hx Ht IH]; intros h h' o H; cbn in H.
  - inversion H; subst. apply hext_refl.
  - destruct (f h x) as [h1 o1] eqn:E1.
    destruct (fmt_seq f t h1) as [h2 o2] eqn:E2.
    inversion H; subst.
    eapply hext_trans; [eapply Hx; eauto | eapply IH; eauto].
Qed.

Lemma format_copy_ext ks v :
  forall h h' o, format_val false ks h v = (h', o) -> bext h h'.
Proof.
  induction v as [|z|n|s|l IH|l IH] using gval_ind'; intros h h' o H; cbn in H.
  - inversion H; subst; apply hext_refl.
  - inversion H; subst; apply hext_refl.
  - inversion H; subst; apply hext_refl.
  - inversion H; subst. apply (encrypt_copy_ext ks h s _ _ eq_refl).
  - match type of H with (let (_, _) := ?t in _) = _ =>
      destruct t as [h1 body] eqn:E end.
    inversion H; subst.
    eapply fmt_seq_ext; [|exact E].
    exact IH.
  - match type of H with (let (_, _) := ?t in _) = _ =>
      destruct t as [h1 body] eqn:E end.
    inversion H; subst.
    eapply fmt_seq_ext; [|exact E].
    eapply Forall_impl; [|exact IH].
    intros [k x] Hx h0 h0' o0 H0. cbn in Hx.
    destruct (format_val false ks h0 x) as [h2 o2] eqn:E2.
    inversion H0; subst. eapply Hx; eauto.
Qed.

Theorem no_alias_write :
  forall ks h v h' out,
    wf h v = true ->
    put false ks h v = (h', out) ->
    forall a bs, lookupb a h = Some bs -> lookupb a h' = Some bs.
Proof.
  intros ks h v h' out _ H. exact (format_copy_ext ks v h h' out H).
Qed.

(* ------------------------------------------------------------------ *)
(* the output only depends on the buffers visible in the original heap  *)

Lemma fmt_seq_out {A} (f : bheap -> A -> bheap * bytes) (l : list A) (h0 : bheap) :
  Forall (fun x =>
            (forall h h' o, f h x = (h', o) -> bext h h') /\
            (forall h1 h2, bext h0 h1 -> bext h0 h2 -> snd (f h1 x) = snd (f h2 x))) l ->
  forall h1 h2, bext h0 h1 -> bext h0 h2 ->
                snd (fmt_seq f l h1) = snd (fmt_seq f l h2).
Proof.
  induction 1 as [|x t [Hx1 Hx2] Ht IH]; intros h1 h2 B1 B2; cbn.
  - reflexivity.
  - specialize (Hx2 h1 h2 B1 B2).
    destruct (f h1 x) as [h1' o1] eqn:E1.
    destruct (f h2 x) as [h2' o2] eqn:E2.
    cbn in Hx2. subst o2.
    assert (B1' : bext h0 h1') by (eapply hext_trans; [exact B1 | eapply Hx1; eauto]).
    assert (B2' : bext h0 h2') by (eapply hext_trans; [exact B2 | eapply Hx1; eauto]).
    specialize (IH h1' h2' B1' B2').
    destruct (fmt_seq f t h1') as [h1'' p1].
    destruct (fmt_seq f t h2') as [h2'' p2].
    cbn in IH. subst p2. reflexivity.
Qed.

Lemma format_copy_out ks v :
  forall h0 h1 h2, wf h0 v = true -> bext h0 h1 -> bext h0 h2 ->
                   snd (format_val false ks h1 v) = snd (format_val false ks h2 v).
Proof.
  induction v as [|z|n|s|l IH|l IH] using gval_ind'; intros h0 h1 h2 W B1 B2; cbn.
  - reflexivity.
  - reflexivity.
  - reflexivity.
  - cbn in W. unfold wf_slice in W.
    destruct (lookupb (b_addr s) h0) as [bs|] eqn:E; [|discriminate].
    unfold bcontents at 1 3. cbn [b_addr b_len].
    unfold lookupb, updateb. rewrite !hlookup_update, !Nat.eqb_refl.
    unfold bcontents.
    rewrite (B1 _ _ E), (B2 _ _ E). reflexivity.
  - cbn in W.
    assert (E : snd (fmt_seq (fun h x => format_val false ks h x) l h1)
                = snd (fmt_seq (fun h x => format_val false ks h x) l h2)).
    { apply fmt_seq_out with (h0 := h0); [|exact B1|exact B2].
      rewrite forallb_forall in W. rewrite Forall_forall in IH |- *.
      intros x Hin. split.
      - intros h h' o. apply format_copy_ext.
      - intros h1' h2'. apply IH; [exact Hin | apply W, Hin]. }
    match goal with |- snd (let (_, _) := ?t in _) = snd (let (_, _) := ?u in _) =>
      destruct t as [h1' p1]; destruct u as [h2' p2] end.
    cbn in E. subst p2. reflexivity.
  - cbn in W.
    match goal with
    | |- snd (let (_, _) := fmt_seq ?f _ _ in _) = _ =>
        assert (E : snd (fmt_seq f l h1) = snd (fmt_seq f l h2))
    end.
    { apply fmt_seq_out with (h0 := h0); [|exact B1|exact B2].
      rewrite forallb_forall in W. rewrite Forall_forall in IH |- *.
      intros [k x] Hin. specialize (IH _ Hin). specialize (W _ Hin). cbn in IH, W.
      split.
      - intros h h' o H.
        destruct (format_val false ks h x) as [h3 o3] eqn:E3.
        inversion H; subst. eapply format_copy_ext; eauto.
      - intros h1' h2' B1' B2'.
        specialize (IH h0 h1' h2' W B1' B2').
        destruct (format_val false ks h1' x) as [h3 o3].
        destruct (format_val false ks h2' x) as [h4 o4].
        cbn in IH. subst o4. reflexivity. }
    match goal with |- snd (let (_, _) := ?t in _) = snd (let (_, _) := ?u in _) =>
      destruct t as [h1' p1]; destruct u as [h2' p2] end.
    cbn in E. subst p2. reflexivity.
Qed.

Theorem put_twice_same_output :
  forall ks h v h1 o1 h2 o2,
    wf h v = true ->
    put false ks h v = (h1, o1) ->
    put false ks h1 v = (h2, o2) ->
    o1 = o2.
Proof.
  intros ks h v h1 o1 h2 o2 W H1 H2. unfold put in *.
  pose proof (format_copy_out ks v h h h1 W (hext_refl h)
                (format_copy_ext ks v h h1 o1 H1)) as E.
  rewrite H1, H2 in E. exact E.
Qed.

(* well-formedness is preserved by a (copying) Put, so Put can be iterated *)
Lemma wf_ext v : forall h h', bext h h' -> wf h v = true -> wf h' v = true.
Proof.
  induction v as [|z|n|s|l IH|l IH] using gval_ind'; intros h h' B W; cbn in *;
    try reflexivity.
  - unfold wf_slice in *.
    destruct (lookupb (b_addr s) h) as [bs|] eqn:E; [|discriminate].
    rewrite (B _ _ E). exact W.
  - rewrite forallb_forall in *. rewrite Forall_forall in IH.
    intros x Hin. eapply IH; eauto.
  - rewrite forallb_forall in *. rewrite Forall_forall in IH.
    intros [k x] Hin. specialize (IH _ Hin). specialize (W _ Hin). cbn in *.
    eapply IH; eauto.
Qed.

Theorem put_preserves_wf :
  forall ks h v h' out,
    wf h v = true -> put false ks h v = (h', out) -> wf h' v = true.
Proof.
  intros ks h v h' out W H. eapply wf_ext; [|exact W].
  exact (format_copy_ext ks v h h' out H).
Qed.

(* ------------------------------------------------------------------ *)
(* the historical in-place variant (F1) refutes both properties         *)

Theorem no_alias_write_inplace_refuted :
  exists ks h v h' out a,
    put true ks h v = (h', out) /\ lookupb a h <> lookupb a h'.
Proof.
  exists ks_ff, h_hi, (GStr s_hi),
    [(0, [151; 150; 33]%N); (0, [104; 105; 33]%N)], [40; 151; 150; 41]%N, 0.
  split.
  - vm_compute. reflexivity.
  - vm_compute. discriminate.
Qed.

Theorem put_twice_inplace_refuted :
  exists ks h v h1 o1 h2 o2,
    put true ks h v = (h1, o1) /\ put true ks h1 v = (h2, o2) /\ o1 <> o2.
Proof.
  exists ks_ff, h_hi, (GStr s_hi),
    [(0, [151; 150; 33]%N); (0, [104; 105; 33]%N)], [40; 151; 150; 41]%N,
    [(0, [104; 105; 33]%N); (0, [151; 150; 33]%N); (0, [104; 105; 33]%N)],
    [40; 104; 105; 41]%N.
  split; [|split].
  - vm_compute. reflexivity.
  - vm_compute. reflexivity.
  - discriminate.
Qed.

(* A String occurring twice in one object is XOR-ed twice: the second
   occurrence is written in PLAINTEXT. *)
Theorem same_string_twice_inplace_plaintext :
  exists ks h s h' out,
    put true ks h (GArr [GStr s; GStr s]) = (h', out) /\
    exists c,
      out = ([91; 40] ++ c ++ [41; 32; 40] ++ bcontents h s ++ [41; 93])%N /\
      c = xor_stream ks 0 (bcontents h s) /\
      c <> bcontents h s /\
      bcontents h s = [104; 105]%N.
Proof.
  exists ks_ff, h_hi, s_hi,
    [(0, [104; 105; 33]%N); (0, [151; 150; 33]%N); (0, [104; 105; 33]%N)],
    [91; 40; 151; 150; 41; 32; 40; 104; 105; 41; 93]%N.
  split.
  - vm_compute. reflexivity.
  - exists [151; 150]%N. repeat split.
    vm_compute. discriminate.
Qed.

(* the same fact for every key stream, heap and well-formed slice *)
Theorem same_string_twice_inplace_plaintext_general :
  forall ks h s,
    wf_slice h s = true ->
    snd (put true ks h (GArr [GStr s; GStr s])) =
      ([91; 40] ++ xor_stream ks 0 (bcontents h s) ++
       [41; 32; 40] ++ bcontents h s ++ [41; 93])%N.
Proof.
  intros ks h s W. unfold wf_slice in W.
  destruct (lookupb (b_addr s) h) as [bs|] eqn:E; [|discriminate].
  apply Nat.leb_le in W.
  unfold put. cbn. rewrite E.
  unfold bcontents, lookupb, updateb. rewrite !hlookup_update, !Nat.eqb_refl.
  fold (lookupb (b_addr s) h). rewrite E.
  assert (L : length (xor_stream ks 0 (firstn (b_len s) bs)) = b_len s)
    by (rewrite xor_stream_length, firstn_length; lia).
  set (X := xor_stream ks 0 (firstn (b_len s) bs)) in *.
  rewrite !(firstn_app_exact X _ (b_len s) L).
  rewrite hlookup_update, Nat.eqb_refl.
  rewrite !(xor_stream_involutive ks 0 (firstn (b_len s) bs) : xor_stream ks 0 X = _).
  rewrite firstn_app_exact by (rewrite firstn_length; lia).
  cbn [snd app]. repeat (rewrite <- app_assoc; cbn [app]). reflexivity.
Qed.

(* ------------------------------------------------------------------ *)
(* wf is satisfiable by non-trivial values                              *)

Example wf_example : wf h_ex v_ex = true.
Proof. vm_compute. reflexivity. Qed.

Example wf_example_not_vacuous_len : wf h_ex (GStr (mkB 3 6)) = false.
Proof. vm_compute. reflexivity. Qed.

Example wf_example_not_vacuous_addr : wf h_ex (GArr [GStr (mkB 2 0)]) = false.
Proof. vm_compute. reflexivity. Qed.

Example put_example :
  snd (put false (fun i => N.of_nat i) h_ex v_ex) =
    [60; 60;
     47; 75; 32; 91; 40; 104; 104; 41; 32; 55; 32; 40; 104; 104; 41; 93; 32;
     47; 84; 32; 40; 80; 69; 68; 41; 32;
     47; 78; 32; 47; 88; 32;
     47; 90; 32; 110; 117; 108; 108;
     62; 62]%N.
Proof. vm_compute. reflexivity. Qed.

(* ------------------------------------------------------------------ *)
(* (2) OpenStream / appendFilter                                        *)

Theorem append_filter_no_alias :
  forall h s x h' s',
    wf_aslice h s = true ->
    open_stream_filter true h s x = (h', s') ->
    forall a l, lookupa a h = Some l -> lookupa a h' = Some l.
Proof.
  intros h s x h' s' _ H. unfold open_stream_filter, inline_copy in H.
  set (h1 := hupdate (hfresh h) (acontents h s) h) in *.
  assert (B1 : hext h h1) by apply hext_alloc.
  assert (B2 : hext h1 h').
  { unfold append_name in H. cbn [a_addr a_len] in H.
    unfold lookupa in H.
    assert (E : hlookup (hfresh h) h1 = Some (acontents h s))
      by (unfold h1; rewrite hlookup_update, Nat.eqb_refl; reflexivity).
    rewrite E in H.
    assert (L : Nat.ltb (a_len s) (length (acontents h s)) = false).
    { apply Nat.ltb_ge. unfold acontents.
      destruct (lookupa (a_addr s) h); cbn; [rewrite firstn_length|]; lia. }
    rewrite L in H. inversion H; subst. apply hext_alloc. }
  exact (hext_trans _ _ _ B1 B2).
Qed.

Theorem append_filter_direct_refuted :
  exists h s x h' s' a,
    open_stream_filter false h s x = (h', s') /\ lookupa a h <> lookupa a h'.
Proof.
  exists ah_ex, (mkA 0 1), [88]%N,
    [(0, [[65]; [88]; [67]]%N); (0, [[65]; [66]; [67]]%N)], (mkA 0 2), 0.
  split.
  - vm_compute. reflexivity.
  - vm_compute. discriminate.
Qed.

Lemma append_name_correct h s x h' s' :
  wf_aslice h s = true ->
  append_name h s x = (h', s') ->
  acontents h' s' = acontents h s ++ [x].
Proof.
  unfold wf_aslice, append_name, acontents. intros W H.
  destruct (lookupa (a_addr s) h) as [l|] eqn:E; [|discriminate].
  apply Nat.leb_le in W.
  assert (L : length (firstn (a_len s) l) = a_len s) by (rewrite firstn_length; lia).
  destruct (Nat.ltb (a_len s) (length l)) eqn:C; inversion H; subst; clear H;
    cbn [a_addr a_len]; unfold lookupa; rewrite hlookup_update, Nat.eqb_refl.
  - apply firstn_snoc_exact, L.
  - apply (firstn_snoc_exact _ x [] _ L).
Qed.

Theorem append_result_correct :
  forall copy h s x h' s',
    wf_aslice h s = true ->
    open_stream_filter copy h s x = (h', s') ->
    acontents h' s' = acontents h s ++ [x].
Proof.
  intros [|] h s x h' s' W H; unfold open_stream_filter in H.
  - unfold inline_copy in H.
    set (h1 := hupdate (hfresh h) (acontents h s) h) in *.
    set (s1 := mkA (hfresh h) (a_len s)) in *.
    assert (C : acontents h1 s1 = acontents h s).
    { unfold acontents at 1. unfold s1, h1, lookupa. cbn [a_addr a_len].
      rewrite hlookup_update, Nat.eqb_refl.
      unfold acontents. destruct (lookupa (a_addr s) h); [|destruct (a_len s); reflexivity].
      rewrite firstn_firstn, Nat.min_id. reflexivity. }
    rewrite <- C. apply append_name_correct; [|exact H].
    unfold wf_aslice, s1, h1, lookupa. cbn [a_addr a_len].
    rewrite hlookup_update, Nat.eqb_refl.
    apply Nat.leb_le. unfold wf_aslice in W. unfold acontents.
    destruct (lookupa (a_addr s) h); [|discriminate].
    apply Nat.leb_le in W. rewrite firstn_length. lia.
  - apply append_name_correct; assumption.
Qed.

Example wf_aslice_example : wf_aslice ah_ex (mkA 0 1) = true.
Proof. vm_compute. reflexivity. Qed.
