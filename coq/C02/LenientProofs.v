(* C02: histories in which calls are refused.

   A call of Put, WriteCompressed or OpenStream that returns an error has either been refused before it
   touched anything - the writer is as it was - or it has failed after part of an object was
   registered or written; the writer then keeps that error, and Put, OpenStream, WriteCompressed and
   Close return it from then on (Writer.fail).  [run_lenient] runs a history through both kinds of
   refusal; [dirty] says which kind a refusal is.  Proved here:
     lenient_is_run_of_kept : a lenient run that is not cut short is the plain run of the calls
                              that were accepted - the refused calls contribute nothing;
     failed_absorbing       : once the writer has failed, nothing but Alloc changes it and it never
                              gets closed;
     close_ok_not_failed    : a lenient run that ends closed has never failed - so every theorem about
                              [run] (layout, write_read, ...) holds of the file, for the accepted calls;
     clean refusals         : the refusals that are decided before any effect. *)
From Coq Require Import List NArith ZArith Bool Lia.
From GoPdf.Base Require Import Bytes Res.
From GoPdf.Gen Require Import Gen_Consts.
From GoPdf.C02 Require Import Obj Dec Syntax Writer WriterProofs.
Import ListNotations.
Open Scope N_scope.

Section Lenient.
  Variable fmt : obj -> bytes.
  Variable fmt_sd : dict -> lenrep -> bytes.
  Variable encS : N -> N -> bytes -> bytes.
  Variable encB : N -> N -> bytes -> bytes.
  Variable fenc : bytes -> dict -> bytes -> bytes.
  Variable deflate : bytes -> bytes.
  Variable c : cfg.

  Notation step := (step fmt fmt_sd encS encB fenc deflate c).
  Notation run_from := (run_from fmt fmt_sd encS encB fenc deflate c).
  Notation run_lenient := (run_lenient fmt fmt_sd encS encB fenc deflate c).
  Notation dirty := (dirty fmt fmt_sd encS encB fenc deflate c).

  (* the calls of a history that were accepted *)
  Fixpoint kept (st : state) (ops : list op) (failed : bool) : list op :=
    match ops with
    | [] => []
    | o :: r =>
      if failed then
        match o with
        | Alloc => match step st o with Ok st1 => o :: kept st1 r failed | Err _ => [] end
        | _ => if resumable o then kept st r failed else []
        end
      else
        match step st o with
        | Ok st1 => o :: kept st1 r failed
        | Err Other => if resumable o then kept st r (dirty st o) else []
        | Err _ => []
        end
    end.

  Theorem lenient_is_run_of_kept ops : forall st i rf fl st' rf' fl',
    run_lenient st ops i rf fl = (st', rf', fl', None) ->
    run_from st (kept st ops fl) = Ok st'.
  Proof.
    induction ops as [|o r IH]; intros st i rf fl st' rf' fl' H; cbn [Writer.run_lenient kept] in *.
    - injection H as <- _ _. reflexivity.
    - destruct fl.
      + destruct o; cbn [resumable] in *; try discriminate H;
          try (eapply IH; exact H).
        destruct (step st Alloc) as [st1|e] eqn:E; [|discriminate H].
        cbn [Writer.run_from]. rewrite E. cbn [bind]. eapply IH; exact H.
      + destruct (step st o) as [st1|e] eqn:E.
        * cbn [Writer.run_from]. rewrite E. cbn [bind]. eapply IH; exact H.
        * destruct e; try discriminate H.
          destruct (resumable o); [|discriminate H]. eapply IH; exact H.
  Qed.

  (* the parts of the state a reader of the file, or a later call, can see *)
  Definition same_file (a b : state) : Prop :=
    out a = out b /\ pos a = pos b /\ xref a = xref b /\ wr a = wr b /\ strm a = strm b /\
    after a = after b /\ closed a = closed b.

  Lemma same_file_refl a : same_file a a.
  Proof. unfold same_file; auto 10. Qed.

  Lemma same_file_trans a b d : same_file a b -> same_file b d -> same_file a d.
  Proof. unfold same_file. intuition congruence. Qed.

  Lemma alloc_step_same st st1 : step st Alloc = Ok st1 -> same_file st st1.
  Proof.
    intros H. apply step_ok in H. unfold step0 in H. destruct (closed st); [discriminate|].
    unfold alloc in H. destruct (_ >=? _)%Z; [discriminate|]. cbn [bind] in H. injection H as <-.
    unfold same_file; cbn; auto 10.
  Qed.

  Theorem failed_absorbing ops : forall st i rf st' rf' fl' stop,
    run_lenient st ops i rf true = (st', rf', fl', stop) ->
    fl' = true /\ same_file st st'.
  Proof.
    induction ops as [|o r IH]; intros st i rf st' rf' fl' stop H; cbn [Writer.run_lenient] in H.
    - injection H as <- _ <- _. split; [reflexivity | apply same_file_refl].
    - destruct o; cbn [resumable] in H;
        try (injection H as <- _ <- _; split; [reflexivity | apply same_file_refl]);
        try (eapply IH; exact H).
      destruct (step st Alloc) as [st1|e] eqn:E.
      + destruct (IH _ _ _ _ _ _ _ H) as [F S]. split; [exact F|].
        eapply same_file_trans; [eapply alloc_step_same; exact E | exact S].
      + injection H as <- _ <- _. split; [reflexivity | apply same_file_refl].
  Qed.

  Lemma step_closed_stuck st o : closed st = true -> step st o = Err Other.
  Proof.
    intros Hc. unfold Writer.step, step0. rewrite Hc. destruct (accepts _ _ _ _); reflexivity.
  Qed.

  Lemma dirty_closed st o : closed st = true -> dirty st o = false.
  Proof. intros Hc. unfold Writer.dirty. rewrite Hc. reflexivity. Qed.

  (* a closed writer stays as it is, and does not fail *)
  Lemma closed_stays ops : forall st i rf st' rf' fl' stop,
    closed st = true -> run_lenient st ops i rf false = (st', rf', fl', stop) ->
    fl' = false /\ st' = st.
  Proof.
    induction ops as [|o r IH]; intros st i rf st' rf' fl' stop Hc H; cbn [Writer.run_lenient] in H.
    - injection H as <- _ <- _. auto.
    - rewrite (step_closed_stuck st o Hc) in H.
      destruct (resumable o).
      + rewrite (dirty_closed st o Hc) in H. eapply IH; eassumption.
      + injection H as <- _ <- _. auto.
  Qed.

  Theorem close_ok_not_failed ops : forall st i rf st' rf' fl' stop,
    closed st = false -> run_lenient st ops i rf false = (st', rf', fl', stop) ->
    closed st' = true -> fl' = false.
  Proof.
    induction ops as [|o r IH]; intros st i rf st' rf' fl' stop Hc H Hc'; cbn [Writer.run_lenient] in H.
    - injection H as <- _ <- _. reflexivity.
    - destruct (step st o) as [st1|e] eqn:E.
      + destruct (closed st1) eqn:C1.
        * destruct (closed_stays _ _ _ _ _ _ _ _ C1 H) as [F _]. exact F.
        * eapply IH; eassumption.
      + destruct e; try (injection H as <- _ <- _; congruence).
        destruct (resumable o); [|injection H as <- _ <- _; congruence].
        destruct (dirty st o).
        * destruct (failed_absorbing _ _ _ _ _ _ _ _ H) as [_ S].
          destruct S as (_ & _ & _ & _ & _ & _ & S). congruence.
        * eapply IH; eassumption.
  Qed.

  (* ---- refusals that are decided before anything is touched ---- *)
  Lemma open_stream_never_dirty st n g d fs : dirty st (OpenStream n g d fs) = false.
  Proof. unfold Writer.dirty. destruct (closed st); reflexivity. Qed.

  Lemma stream_open_clean st s o :
    strm st = Some s -> dirty st o = false.
  Proof.
    intros Hs. unfold Writer.dirty. rewrite Hs. destruct (closed st); [reflexivity|]. cbn [negb andb].
    destruct o; reflexivity.
  Qed.

  Lemma check_compressed_clean st rs os bigs :
    check_compressed rs os = false -> dirty st (WriteCompressed rs os bigs) = false.
  Proof.
    intros H. unfold Writer.dirty. rewrite H. destruct (closed st); [reflexivity|]. cbn [negb andb].
    destruct (strm st); [reflexivity|]. destruct os; reflexivity.
  Qed.

  Lemma duplicate_put_clean st n g o big e :
    xlookup n (xref st) = Some e -> dirty st (Put n g (PObj o) big) = false.
  Proof.
    intros H. unfold Writer.dirty. destruct (closed st); [reflexivity|]. cbn [negb andb].
    destruct (strm st); [reflexivity|].
    unfold put_obj, set_xref. rewrite H. cbn [bind is_ok]. apply andb_false_r.
  Qed.

  Lemma duplicate_stream_put_clean st n g d data b big e :
    xlookup n (xref st) = Some e -> dirty st (Put n g (PStream d data b) big) = false.
  Proof.
    intros H. unfold Writer.dirty. destruct (closed st); [reflexivity|]. cbn [negb andb].
    destruct (strm st) eqn:Hs; [reflexivity|].
    unfold put_stream_now, open_stream, set_xref. rewrite Hs, H. reflexivity.
  Qed.
End Lenient.
