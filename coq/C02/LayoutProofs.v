(* C02: the layout invariant of the writer model: every in-use entry of the
   cross-reference map is the offset of the chunk "N G obj ..." that was written
   for it; a stream's /Length is the length of its body in all three strategies. *)
From Coq Require Import List NArith ZArith Bool Lia.
From GoPdf.Base Require Import Bytes Res.
From GoPdf.Gen Require Import Gen_Consts.
From GoPdf.C02 Require Import Obj Dec Syntax Writer WriterProofs.
Import ListNotations.
Open Scope N_scope.

Lemma xlookup_app n x y :
  xlookup n (x ++ y) = match xlookup n x with Some e => Some e | None => xlookup n y end.
Proof.
  induction x as [|[m e] x IH]; cbn; [reflexivity|]. destruct (n =? m); [reflexivity | exact IH].
Qed.

Lemma wlookup_app n x y :
  wlookup n (x ++ y) = match wlookup n x with Some e => Some e | None => wlookup n y end.
Proof.
  induction x as [|[[m g] v] x IH]; cbn; [reflexivity|]. destruct (n =? m); [reflexivity | exact IH].
Qed.

Lemma skipn_app_le {A} (n : nat) (l m : list A) : (n <= length l)%nat -> skipn n (l ++ m) = skipn n l ++ m.
Proof.
  intros H. rewrite skipn_app. replace (n - length l)%nat with 0%nat by lia. reflexivity.
Qed.

Lemma skipn_all_app {A} (l m : list A) : skipn (length l) (l ++ m) = m.
Proof.
  rewrite skipn_app, skipn_all, Nat.sub_diag. reflexivity.
Qed.

Lemma skipn_nonempty_lt {A} (n : nat) (l : list A) a r : skipn n l = a :: r -> (n < length l)%nat.
Proof.
  intros H. destruct (Nat.lt_ge_cases n (length l)) as [Hl|Hl]; [exact Hl|].
  rewrite skipn_all2 in H by exact Hl. discriminate.
Qed.

Section Layout.
  Variable fmt : obj -> bytes.
  Variable fmt_sd : dict -> lenrep -> bytes.
  Variable encS : N -> N -> bytes -> bytes.
  Variable encB : N -> N -> bytes -> bytes.
  Variable fenc : bytes -> dict -> bytes -> bytes.
  Variable deflate : bytes -> bytes.
  Variable c : cfg.

  Notation step := (step fmt fmt_sd encS encB fenc deflate c).
  Notation run_from := (run_from fmt fmt_sd encS encB fenc deflate c).
  Notation run := (run fmt fmt_sd encS encB fenc deflate c).
  Notation put_obj := (put_obj fmt encS c).
  Notation finish_stream := (finish_stream fmt_sd encS encB fenc c).
  Notation flush_after := (flush_after fmt fmt_sd encS encB fenc c).
  Notation flush_objs := (flush_objs fmt encS c).
  Notation close_stream := (close_stream fmt fmt_sd encS encB fenc c).
  Notation put := (put fmt fmt_sd encS encB fenc c).
  Notation put_all := (put_all fmt fmt_sd encS encB fenc c).
  Notation write_compressed := (write_compressed fmt fmt_sd encS encB fenc c).
  Notation write_xref_table := (write_xref_table fmt).
  Notation write_xref_stream := (write_xref_stream fmt_sd deflate c).
  Notation close := (close fmt fmt_sd encS deflate c).
  Notation start_stream := (start_stream c).
  Notation write_stream := (write_stream c).
  Notation pos_ok := WriterProofs.pos_ok.

  (* the integer object [r 0] holds [len] and has been written *)
  Definition written_int (st : state) (r len : N) : Prop :=
    exists off, xlookup r (xref st) = Some (EUse off 0) /\
                wlookup r (wr st) = Some (0, VObj (OInt (Z.of_N len))).

  (* the /Length of a stream dictionary denotes [len]; an indirect length object is
     either still among the deferred objects [pend] or written *)
  Definition len_ok (st : state) (pend : list (N * N * pobj)) (lr : lenrep) (len : N) : Prop :=
    match lr with
    | LDirect l | LPadded l => l = len
    | LRef r => In (r, 0, PObj (OInt (Z.of_N len))) pend \/ written_int st r len
    end.

  Definition enc_dict (n g : N) (d : dict) : dict :=
    map (fun kv => match kv with (k, v) => (k, map_str (sc encS c n g) v) end) d.

  (* the bytes written for (n, g, v) *)
  Definition chunk_of (st : state) (pend : list (N * N * pobj)) (n g : N) (v : wval) (ch : bytes) : Prop :=
    match v with
    | VObj o => ch = hdr_of n g ++ fmt (map_str (sc encS c n g) o) ++ k_endobj_nl ++ nl c
    | VStream d fs data =>
      let raw := stream_raw encB fenc c n g d fs data in
      exists lr, ch = stream_chunk fmt_sd c n g (enc_dict n g (stream_dict n g d fs)) lr raw /\
                 len_ok st pend lr (N.of_nat (length raw))
    end.

  Record Inv (st : state) (pend : list (N * N * pobj)) : Prop := {
    inv_pos : pos_ok st;
    inv_use : forall n off g, xlookup n (xref st) = Some (EUse off g) ->
      (exists s, strm st = Some s /\ s_num s = n) \/
      (closed st = true /\ xlookup n (xtab st) = None) \/
      (exists v ch rest, wlookup n (wr st) = Some (g, v) /\
                         skipn (N.to_nat off) (out st) = ch ++ rest /\ chunk_of st pend n g v ch);
    inv_wr : forall n x, wlookup n (wr st) = Some x -> xlookup n (xref st) <> None;
    inv_strm : forall s, strm st = Some s ->
      xlookup (s_num s) (xref st) = Some (EUse (pos st) (s_gen s)) /\ wlookup (s_num s) (wr st) = None
  }.

  Lemma hdr_nonempty n g : exists a r, hdr_of n g = a :: r.
  Proof.
    unfold hdr_of. destruct (dec n) as [|a r]; cbn; eauto.
  Qed.

  Lemma chunk_nonempty st pend n g v ch : chunk_of st pend n g v ch -> exists a r, ch = a :: r.
  Proof.
    destruct v; cbn.
    - intros ->. destruct (hdr_nonempty n g) as [a [r E]]. rewrite E. cbn. eauto.
    - intros [lr [-> _]]. unfold stream_chunk. destruct (hdr_nonempty n g) as [a [r E]]. rewrite E. cbn. eauto.
  Qed.

  (* the maps only grow *)
  Definition grows (st st' : state) : Prop :=
    (forall n e, xlookup n (xref st) = Some e -> xlookup n (xref st') = Some e) /\
    (forall n x, wlookup n (wr st) = Some x -> wlookup n (wr st') = Some x).

  Lemma grows_refl st : grows st st.
  Proof. split; auto. Qed.

  Lemma written_int_grows st st' r len : grows st st' -> written_int st r len -> written_int st' r len.
  Proof. intros [G1 G2] [off [A B]]. exists off. split; auto. Qed.

  Lemma chunk_of_mono st pend st' pend' n g v ch :
    grows st st' ->
    (forall r len, In (r, 0, PObj (OInt (Z.of_N len))) pend ->
                   In (r, 0, PObj (OInt (Z.of_N len))) pend' \/ written_int st' r len) ->
    chunk_of st pend n g v ch -> chunk_of st' pend' n g v ch.
  Proof.
    intros G P. destruct v; cbn; [auto|]. intros [lr [E L]]. exists lr. split; [exact E|].
    destruct lr; cbn in *; auto. destruct L as [L|L]; [apply P in L; exact L|].
    right. eapply written_int_grows; eassumption.
  Qed.

  (* an extension of the sink keeps every chunk where it is *)
  Lemma keep_chunk st st' off ch rest :
    ext st st' -> skipn (N.to_nat off) (out st) = ch ++ rest -> (exists a r, ch = a :: r) ->
    exists rest', skipn (N.to_nat off) (out st') = ch ++ rest'.
  Proof.
    intros [bs [Ho _]] H [a [r E]]. subst ch. rewrite Ho.
    rewrite skipn_app_le.
    - rewrite H. rewrite <- app_assoc. eauto.
    - cbn in H. apply skipn_nonempty_lt in H. lia.
  Qed.

  (* a state change that appends to the sink, keeps the maps growing and does not
     touch strm/closed/xtab keeps the invariant for the old entries *)
  Lemma use_kept st st' pend pend' n off g :
    Inv st pend -> ext st st' -> grows st st' ->
    (forall r len, In (r, 0, PObj (OInt (Z.of_N len))) pend ->
                   In (r, 0, PObj (OInt (Z.of_N len))) pend' \/ written_int st' r len) ->
    xlookup n (xref st) = Some (EUse off g) ->
    (exists s, strm st = Some s /\ s_num s = n) \/
    (closed st = true /\ xlookup n (xtab st) = None) \/
    (exists v ch rest, wlookup n (wr st') = Some (g, v) /\
                       skipn (N.to_nat off) (out st') = ch ++ rest /\ chunk_of st' pend' n g v ch).
  Proof.
    intros I E G P H. destruct (inv_use _ _ I _ _ _ H) as [A|[A|[v [ch [rest [W [S C]]]]]]]; auto.
    right; right. destruct (keep_chunk st st' off ch rest E S (chunk_nonempty _ _ _ _ _ _ C)) as [rest' S'].
    exists v, ch, rest'. split; [apply G; exact W|]. split; [exact S'|].
    eapply chunk_of_mono; eassumption.
  Qed.

  Lemma alloc_inv st pend r st' : Inv st pend -> alloc st = Ok (r, st') -> Inv st' pend.
  Proof.
    unfold alloc. destruct (_ >=? _)%Z; [discriminate|]. intros I H; inversion H; subst; clear H.
    destruct I as [P U W S]. constructor; cbn; auto.
  Qed.

  Lemma alloc_fields st r st' : alloc st = Ok (r, st') ->
    out st' = out st /\ pos st' = pos st /\ xref st' = xref st /\ strm st' = strm st /\ after st' = after st /\
    wr st' = wr st /\ closed st' = closed st /\ xtab st' = xtab st.
  Proof.
    unfold alloc. destruct (_ >=? _)%Z; [discriminate|]. intros H; inversion H; subst. cbn. repeat split.
  Qed.

  (* Put of a direct object, no stream open *)
  Lemma put_obj_inv st pend pend' n g o st' :
    Inv st pend -> strm st = None -> put_obj n g o st = Ok st' ->
    (forall x, In x pend -> In x pend' \/ x = (n, g, PObj o)) ->
    Inv st' pend' /\ strm st' = None /\ closed st' = closed st /\ xtab st' = xtab st /\ after st' = after st.
  Proof.
    intros I Hs H P. unfold Writer.put_obj in H. binv H. inversion Hk; subst; clear Hk.
    unfold set_xref in Hb. destruct (xlookup n (xref st)) eqn:Hx; [discriminate|]. inversion Hb; subst; clear Hb.
    assert (Wn : wlookup n (wr st) = None).
    { destruct (wlookup n (wr st)) eqn:E; [|reflexivity]. exfalso. eapply (inv_wr _ _ I); eassumption. }
    set (chunk := hdr_of n g ++ fmt (map_str (sc encS c n g) o) ++ k_endobj_nl ++ nl c).
    match goal with |- Inv ?s _ /\ _ => set (st' := s) end.
    assert (E : ext st st').
    { exists chunk. cbn. split; reflexivity. }
    assert (G : grows st st').
    { split; cbn; intros m e He.
      - rewrite xlookup_app, He. reflexivity.
      - rewrite wlookup_app, He. reflexivity. }
    assert (Wr : forall r len, In (r, 0, PObj (OInt (Z.of_N len))) pend ->
                               In (r, 0, PObj (OInt (Z.of_N len))) pend' \/ written_int st' r len).
    { intros r len Hin. destruct (P _ Hin) as [A|A]; [left; exact A|]. inversion A; subst. right.
      exists (pos st). cbn. rewrite xlookup_app, Hx, wlookup_app, Wn. cbn. rewrite N.eqb_refl. split; reflexivity. }
    split; [|cbn; auto].
    constructor.
    - eapply ext_pos_ok; [exact E | exact (inv_pos _ _ I)].
    - intros m off g' Hm. cbn in Hm. rewrite xlookup_app in Hm.
      destruct (xlookup m (xref st)) eqn:Em.
      + inversion Hm; subst. exact (use_kept st st' pend pend' m off g' I E G Wr Em).
      + cbn in Hm. destruct (m =? n) eqn:Emn; [|discriminate]. apply N.eqb_eq in Emn. subst m.
        inversion Hm; subst. right; right. exists (VObj o), chunk, []. cbn.
        rewrite wlookup_app, Wn. cbn. rewrite N.eqb_refl. split; [reflexivity|]. split; [|reflexivity].
        rewrite (inv_pos _ _ I), Nat2N.id, app_nil_r. apply skipn_all_app.
    - intros m x Hm. cbn in Hm |- *. rewrite wlookup_app in Hm. rewrite xlookup_app.
      destruct (wlookup m (wr st)) eqn:Em.
      + pose proof (inv_wr _ _ I _ _ Em) as Hn. destruct (xlookup m (xref st)); [discriminate | contradiction].
      + cbn in Hm. destruct (m =? n) eqn:Emn; [|discriminate]. apply N.eqb_eq in Emn. subst m.
        rewrite Hx. cbn. rewrite N.eqb_refl. discriminate.
    - cbn. rewrite Hs. discriminate.
  Qed.

  Definition good (st : state) (pend : list (N * N * pobj)) (n off g : N) : Prop :=
    (exists s, strm st = Some s /\ s_num s = n) \/
    (closed st = true /\ xlookup n (xtab st) = None) \/
    (exists v ch rest, wlookup n (wr st) = Some (g, v) /\
                       skipn (N.to_nat off) (out st) = ch ++ rest /\ chunk_of st pend n g v ch).

  Lemma good_kept st st' pend pend' n off g :
    Inv st pend -> ext st st' -> grows st st' ->
    (forall r len, In (r, 0, PObj (OInt (Z.of_N len))) pend ->
                   In (r, 0, PObj (OInt (Z.of_N len))) pend' \/ written_int st' r len) ->
    (forall s, strm st = Some s -> exists s', strm st' = Some s' /\ s_num s' = s_num s) ->
    (closed st = true -> closed st' = true /\ xtab st' = xtab st) ->
    xlookup n (xref st) = Some (EUse off g) -> good st' pend' n off g.
  Proof.
    intros I E G P Hs Hc H. destruct (use_kept st st' pend pend' n off g I E G P H) as [[s [A B]]|[[A B]|A]].
    - left. destruct (Hs _ A) as [s' [A' B']]. exists s'. split; [exact A' | congruence].
    - right; left. destruct (Hc A) as [C D]. rewrite C, D. auto.
    - right; right. exact A.
  Qed.

  Lemma same_pend_mono (pend : list (N * N * pobj)) (st' : state) :
    forall r len, In (r, 0, PObj (OInt (Z.of_N len))) pend ->
                  In (r, 0, PObj (OInt (Z.of_N len))) pend \/ written_int st' r len.
  Proof. intros; left; assumption. Qed.

  Lemma wr_fresh st pend n : Inv st pend -> xlookup n (xref st) = None -> wlookup n (wr st) = None.
  Proof.
    intros I Hx. destruct (wlookup n (wr st)) eqn:E; [|reflexivity]. exfalso. eapply (inv_wr _ _ I); eassumption.
  Qed.

  Lemma open_stream_inv st pend n g d fs st' :
    Inv st pend -> open_stream n g d fs st = Ok st' ->
    Inv st' pend /\ strm st = None /\
    strm st' = Some {| s_num := n; s_gen := g; s_dict := d; s_fs := fs; s_buf := [];
                       s_started := false; s_lenref := None |} /\
    after st' = after st /\ closed st' = closed st.
  Proof.
    intros I H. unfold open_stream in H. destruct (strm st) eqn:Hs; [discriminate|]. binv H.
    unfold set_xref in Hb. destruct (xlookup n (xref st)) eqn:Hx; [discriminate|]. inversion Hb; subst; clear Hb.
    pose proof (wr_fresh _ _ _ I Hx) as Wn.
    assert (Hst : st' = with_strm (Some {| s_num := n; s_gen := g; s_dict := d; s_fs := fs; s_buf := [];
                       s_started := false; s_lenref := None |})
              {| out := out st; pos := pos st; xref := xref st ++ [(n, EUse (pos st) g)];
                 nextRef := N.max (nextRef st) (n + 1); strm := strm st; after := after st; wr := wr st;
                 xtab := xtab st; xpos := xpos st; closed := closed st |}).
    { destruct (dict_get k_Length d) as [[]|]; try discriminate; inversion Hk; reflexivity. }
    clear Hk. subst st'. cbn. split; [|auto].
    match goal with |- Inv ?s _ => set (st' := s) end.
    assert (E : ext st st') by (apply ext_same; reflexivity).
    assert (G : grows st st').
    { split; cbn; intros m e He; [rewrite xlookup_app, He; reflexivity | exact He]. }
    constructor.
    - exact (inv_pos _ _ I).
    - intros m off g' Hm. cbn in Hm. rewrite xlookup_app in Hm. destruct (xlookup m (xref st)) eqn:Em.
      + inversion Hm; subst.
        apply (good_kept st st' pend pend m off g' I E G (same_pend_mono pend st')); auto.
        * intros s Hs'. congruence.
      + cbn in Hm. destruct (m =? n) eqn:Emn; [|discriminate]. apply N.eqb_eq in Emn. subst m.
        left. eexists. cbn. split; reflexivity.
    - intros m x Hm. cbn in Hm |- *. rewrite xlookup_app.
      pose proof (inv_wr _ _ I _ _ Hm) as Hn. destruct (xlookup m (xref st)); [discriminate | contradiction].
    - intros s Hs'. cbn in Hs'. inversion Hs'; subst; clear Hs'. cbn.
      rewrite xlookup_app, Hx. cbn. rewrite N.eqb_refl. split; [reflexivity | exact Wn].
  Qed.

  Lemma restrm_inv st pend s s' :
    Inv st pend -> strm st = Some s -> s_num s' = s_num s -> s_gen s' = s_gen s ->
    Inv (with_strm (Some s') st) pend.
  Proof.
    intros I Hs Hn Hg. set (st' := with_strm (Some s') st).
    assert (E : ext st st') by (apply ext_same; reflexivity).
    assert (G : grows st st') by (split; cbn; auto).
    constructor.
    - exact (inv_pos _ _ I).
    - intros m off g Hm. cbn in Hm.
      apply (good_kept st st' pend pend m off g I E G (same_pend_mono pend st')); auto.
      intros s0 Hs0. exists s'. cbn. split; [reflexivity | congruence].
    - exact (inv_wr _ _ I).
    - intros s0 Hs0. cbn in Hs0. inversion Hs0; subst; clear Hs0. cbn. rewrite Hn, Hg. exact (inv_strm _ _ I _ Hs).
  Qed.

  Lemma start_stream_inv st pend s s' st' :
    Inv st pend -> start_stream s st = Ok (s', st') ->
    Inv st' pend /\ s_num s' = s_num s /\ s_gen s' = s_gen s /\ s_dict s' = s_dict s /\ s_fs s' = s_fs s /\
    s_buf s' = s_buf s /\ strm st' = strm st /\ after st' = after st /\ closed st' = closed st /\
    out st' = out st /\ pos st' = pos st /\ xref st' = xref st /\ wr st' = wr st /\ xtab st' = xtab st.
  Proof.
    intros I. unfold Writer.start_stream.
    destruct (s_started s); [intros H; injection H as <- <-; split; [exact I|]; repeat split; auto|].
    destruct (dict_get k_Length (s_dict s)); [intros H; injection H as <- <-; cbn; split; [exact I|]; repeat split; auto|].
    destruct (cseek c); [intros H; injection H as <- <-; cbn; split; [exact I|]; repeat split; auto|].
    intros H. binv H. destruct a as [r st1]. injection Hk as <- <-. cbn.
    destruct (alloc_fields _ _ _ Hb) as [A1 [A2 [A3 [A4 [A5 [A6 [A7 A8]]]]]]].
    split; [eapply alloc_inv; eassumption|]. repeat split; auto.
  Qed.

  Lemma write_stream_inv st pend bs b st' :
    Inv st pend -> write_stream bs b st = Ok st' ->
    Inv st' pend /\ after st' = after st /\ closed st' = closed st /\
    (exists s', strm st' = Some s').
  Proof.
    intros I H. unfold Writer.write_stream in H. destruct (strm st) as [s|] eqn:Hs; [|discriminate].
    destruct (_ && _); [discriminate|].
    destruct (b || s_started s).
    - binv H. destruct a as [s2 st1]. injection Hk as <-.
      destruct (start_stream_inv _ _ _ _ _ I Hb) as [I1 [B1 [B2 [B3 [B4 [B5 [B6 [B7 [B8 _]]]]]]]]].
      cbn in B1, B2. split; [|cbn; eauto].
      eapply restrm_inv; [exact I1 | rewrite B6; exact Hs | exact B1 | exact B2].
    - injection H as <-. split; [|cbn; eauto].
      eapply restrm_inv; [exact I | exact Hs | reflexivity | reflexivity].
  Qed.

  (* closing the stream itself: its chunk goes out at the offset recorded at OpenStream *)
  Lemma finish_stream_gen st pend big st' :
    Inv st pend -> finish_stream big st = Ok st' ->
    exists extra,
      after st' = after st ++ extra /\ Inv st' (pend ++ extra) /\
      strm st' = None /\ closed st' = closed st /\ xtab st' = xtab st /\
      (exists s, strm st = Some s) /\
      (forall x, In x extra -> exists r len, x = (r, 0, PObj (OInt len))).
  Proof.
    intros I H. unfold Writer.finish_stream in H. destruct (strm st) as [s0|] eqn:Hs0; [|discriminate].
    cbv zeta in H. binv H. destruct a as [s st1].
    assert (S1 : Inv st1 pend /\ s_num s = s_num s0 /\ s_gen s = s_gen s0 /\ s_dict s = s_dict s0 /\
                 s_fs s = s_fs s0 /\ s_buf s = s_buf s0 /\ strm st1 = strm st /\ after st1 = after st /\
                 closed st1 = closed st /\ out st1 = out st /\ pos st1 = pos st /\ xref st1 = xref st /\
                 wr st1 = wr st /\ xtab st1 = xtab st).
    { destruct (if is_plain c s0 then _ else _).
      - eapply start_stream_inv; eassumption.
      - injection Hb as <- <-. split; [exact I|]. repeat split; auto. }
    clear Hb. destruct S1 as [I1 [B1 [B2 [B3 [B4 [B5 [B6 [B7 [B8 [B9 [B10 [B11 [B12 B13]]]]]]]]]]]]].
    destruct (Bool.eqb _ _); [|discriminate].
    rewrite ?B3, ?B4, ?B5 in Hk.
    destruct (inv_strm _ _ I1 s0 (eq_trans B6 Hs0)) as [Xs Ws].
    set (n := s_num s0) in *. set (g := s_gen s0) in *.
    set (raw := stream_raw encB fenc c n g (s_dict s0) (s_fs s0) (s_buf s0)) in *.
    set (sd := map (fun kv : bytes * obj => let (k0, v) := kv in (k0, map_str (sc encS c n g) v))
                   (stream_dict n g (s_dict s0) (s_fs s0))) in *.
    (* the common shape of the successful outcomes *)
    assert (Main : forall lr aft pend',
      (forall x, In x pend -> In x pend') ->
      len_ok st1 pend' lr (N.of_nat (length raw)) ->
      Inv (record n g (VStream (s_dict s0) (s_fs s0) (s_buf s0))
                   (with_after aft (with_strm None (emit (stream_chunk fmt_sd c n g sd lr raw) st1)))) pend').
    { intros lr aft pend' Hsub Hlen.
      match goal with |- Inv ?x _ => set (st2 := x) end.
      assert (E : ext st1 st2) by (eexists; cbn; split; reflexivity).
      assert (G : grows st1 st2).
      { split; cbn; intros m e He; [exact He | rewrite wlookup_app, He; reflexivity]. }
      assert (Pm : forall r len, In (r, 0, PObj (OInt (Z.of_N len))) pend ->
                       In (r, 0, PObj (OInt (Z.of_N len))) pend' \/ written_int st2 r len).
      { intros r len Hin. left. apply Hsub. exact Hin. }
      constructor.
      - eapply ext_pos_ok; [exact E | exact (inv_pos _ _ I1)].
      - intros m off g' Hm. cbn in Hm.
        destruct (N.eq_dec m n) as [->|Hne].
        + rewrite Xs in Hm. inversion Hm; subst off g'. right; right.
          exists (VStream (s_dict s0) (s_fs s0) (s_buf s0)), (stream_chunk fmt_sd c n g sd lr raw), [].
          cbn. rewrite wlookup_app, Ws. cbn. rewrite N.eqb_refl. split; [reflexivity|]. split.
          * rewrite (inv_pos _ _ I1), Nat2N.id, app_nil_r. apply skipn_all_app.
          * exists lr. split; [reflexivity|].
            destruct lr; cbn in *; auto. destruct Hlen as [Hl|Hl]; [left; exact Hl|].
            right. eapply written_int_grows; eassumption.
        + destruct (use_kept st1 st2 pend pend' m off g' I1 E G Pm Hm) as [[s1 [A1 A2]]|[[A1 A2]|A]].
          * exfalso. rewrite B6, Hs0 in A1. inversion A1; subst s1. apply Hne. symmetry. exact A2.
          * right; left. cbn. auto.
          * right; right. exact A.
      - intros m x Hm. cbn in Hm |- *. rewrite wlookup_app in Hm.
        destruct (wlookup m (wr st1)) eqn:Em.
        + eapply (inv_wr _ _ I1); eassumption.
        + cbn in Hm. destruct (m =? n) eqn:Emn; [|discriminate]. apply N.eqb_eq in Emn. subst m.
          rewrite Xs. discriminate.
      - cbn. discriminate. }
    assert (Fin : forall lr extra st2,
      len_ok st1 (pend ++ extra) lr (N.of_nat (length raw)) ->
      (forall x, In x extra -> exists r len, x = (r, 0, PObj (OInt len))) ->
      st2 = record n g (VStream (s_dict s0) (s_fs s0) (s_buf s0))
                   (with_after (after st ++ extra) (with_strm None (emit (stream_chunk fmt_sd c n g sd lr raw) st1))) ->
      exists extra,
        after st2 = after st ++ extra /\ Inv st2 (pend ++ extra) /\
        strm st2 = None /\ closed st2 = closed st /\ xtab st2 = xtab st /\
        (exists s1, Some s0 = Some s1) /\
        (forall x, In x extra -> exists r len, x = (r, 0, PObj (OInt len)))).
    { intros lr extra st2 Hlen Hex ->. exists extra. cbn. split; [reflexivity|].
      split; [apply Main; [intros x Hx; apply in_or_app; auto | exact Hlen]|].
      split; [reflexivity|]. split; [exact B8|]. split; [exact B13|]. split; [eauto | exact Hex]. }
    destruct (dict_get k_Length (s_dict s0)) as [[]|]; try discriminate.
    - destruct (_ =? _)%Z; [|discriminate]. injection Hk as <-.
      eapply (Fin (LDirect _) []); [reflexivity | intros x [] |].
      unfold with_after, with_strm, record, emit. cbn. rewrite B7, app_nil_r. reflexivity.
    - destruct (s_started s).
      + destruct (s_lenref s) as [r|].
        * injection Hk as <-.
          eapply (Fin (LRef r) [(r, 0, PObj (OInt (Z.of_N (N.of_nat (length raw)))))]).
          -- cbn. left. apply in_or_app. right. left. reflexivity.
          -- intros x [<-|[]]. eauto.
          -- rewrite B7. reflexivity.
        * destruct (cseek c); [|discriminate]. injection Hk as <-.
          eapply (Fin (LPadded _) []); [reflexivity | intros x [] |].
          unfold with_after, with_strm, record, emit. cbn. rewrite B7, app_nil_r. reflexivity.
      + injection Hk as <-.
        eapply (Fin (LDirect _) []); [reflexivity | intros x [] |].
        unfold with_after, with_strm, record, emit. cbn. rewrite B7, app_nil_r. reflexivity.
  Qed.

  Lemma finish_stream_inv st big st' :
    Inv st (after st) -> finish_stream big st = Ok st' ->
    Inv st' (after st') /\ strm st' = None /\ closed st' = closed st /\ xtab st' = xtab st /\
    (exists s, strm st = Some s).
  Proof.
    intros I H. destruct (finish_stream_gen _ _ _ _ I H) as [extra [A [I1 [S1 [C1 [T1 [E1 _]]]]]]].
    rewrite A. auto.
  Qed.

  Lemma inv_pend_weaken st pend pend' :
    Inv st pend ->
    (forall r len, In (r, 0, PObj (OInt (Z.of_N len))) pend -> In (r, 0, PObj (OInt (Z.of_N len))) pend') ->
    Inv st pend'.
  Proof.
    intros I Hsub.
    constructor.
    - exact (inv_pos _ _ I).
    - intros m off g Hm.
      apply (good_kept st st pend pend' m off g I (ext_refl st) (grows_refl st));
        [intros r len Hin; left; auto | intros s Hs; exists s; auto | auto | exact Hm].
    - exact (inv_wr _ _ I).
    - exact (inv_strm _ _ I).
  Qed.

  Lemma inv_pend_mono st pend pend' a :
    Inv st pend -> (forall x, In x pend -> In x pend') -> Inv (with_after a st) pend'.
  Proof.
    intros I Hsub. set (st' := with_after a st).
    assert (E : ext st st') by (apply ext_same; reflexivity).
    assert (G : grows st st') by (split; cbn; auto).
    constructor.
    - exact (inv_pos _ _ I).
    - intros m off g Hm. cbn in Hm.
      apply (good_kept st st' pend pend' m off g I E G);
        [intros r len Hin; left; auto | intros s Hs; exists s; auto | auto | exact Hm].
    - exact (inv_wr _ _ I).
    - exact (inv_strm _ _ I).
  Qed.

  Lemma put_stream_now_inv st pend n g d data st' :
    Inv st pend -> put_stream_now n g d data st = Ok st' ->
    Inv st' pend /\ strm st = None /\ after st' = after st /\ closed st' = closed st /\ xtab st' = xtab st.
  Proof.
    intros I H. unfold put_stream_now in H. binv H.
    destruct (open_stream_inv _ _ _ _ _ _ _ I Hb) as [I1 [S0 [S1 [A1 C1]]]].
    rewrite S1 in Hk. injection Hk as <-. cbn.
    split; [eapply restrm_inv; [exact I1 | exact S1 | reflexivity | reflexivity]|].
    repeat split; auto.
    unfold open_stream in Hb. rewrite S0 in Hb. binv Hb. unfold set_xref in Hb0.
    destruct (xlookup n (xref st)); [discriminate|]. injection Hb0 as <-.
    destruct (dict_get k_Length d) as [[]|]; try discriminate; injection Hk as <-; reflexivity.
  Qed.

  Lemma flush_objs_inv l : forall P st st',
    Inv st (P ++ l) -> strm st = None -> flush_objs l st = Ok st' ->
    Inv st' P /\ strm st' = None /\ closed st' = closed st /\ xtab st' = xtab st /\ after st' = [].
  Proof.
    induction l as [|[[n g] o] l IH]; intros P st st' I Hs H; cbn in H.
    - injection H as <-. cbn. rewrite app_nil_r in I. split; [|auto].
      eapply inv_pend_mono; [exact I | auto].
    - destruct o; [|discriminate]. binv H.
      destruct (put_obj_inv st (P ++ (n, g, PObj o) :: l) (P ++ l) n g o a I Hs Hb) as [I1 [S1 [C1 [T1 A1]]]].
      { intros x Hx. apply in_app_or in Hx. destruct Hx as [Hx|[<-|Hx]]; auto using in_or_app. }
      destruct (IH _ _ _ I1 S1 Hk) as [I2 [S2 [C2 [T2 A2]]]].
      split; [exact I2|]. repeat split; congruence.
  Qed.

  Lemma flush_after_inv l : forall st st',
    Inv st l -> strm st = None -> after st = [] -> flush_after l st = Ok st' ->
    Inv st' [] /\ strm st' = None /\ closed st' = closed st /\ xtab st' = xtab st /\ after st' = [].
  Proof.
    induction l as [|[[n g] o] l IH]; intros st st' I Hs Ha H; cbn in H.
    - injection H as <-. auto.
    - destruct o as [o|d data big].
      + binv H.
        destruct (put_obj_inv st ((n, g, PObj o) :: l) l n g o a I Hs Hb) as [I1 [S1 [C1 [T1 A1]]]].
        { intros x [<-|Hx]; auto. }
        destruct (IH _ _ I1 S1 (eq_trans A1 Ha) Hk) as [I2 [S2 [C2 [T2 A2]]]].
        split; [exact I2|]. repeat split; congruence.
      + binv H. binv Hk. binv Hk0.
        assert (I0 : Inv st l).
        { apply (inv_pend_weaken st ((n, g, PStream d data big) :: l)); [exact I|].
          intros r len [Heq|Hin]; [discriminate | exact Hin]. }
        destruct (put_stream_now_inv _ _ _ _ _ _ _ I0 Hb) as [I1 [_ [A1 [C1 T1]]]].
        destruct (finish_stream_gen _ _ _ _ I1 Hb0) as [extra [A2 [I2 [S2 [C2 [T2 [_ _]]]]]]].
        rewrite A1, Ha in A2. cbn in A2. rewrite A2 in Hb1.
        destruct (flush_objs_inv _ _ _ _ I2 S2 Hb1) as [I3 [S3 [C3 [T3 A3]]]].
        destruct (IH _ _ I3 S3 A3 Hk) as [I4 [S4 [C4 [T4 A4]]]].
        split; [exact I4|]. repeat split; congruence.
  Qed.

  Lemma close_stream_inv st big st' :
    Inv st (after st) -> close_stream big st = Ok st' ->
    Inv st' (after st') /\ strm st' = None /\ closed st' = closed st /\ xtab st' = xtab st /\ after st' = [].
  Proof.
    intros I H. unfold Writer.close_stream in H. binv H.
    destruct (finish_stream_inv _ _ _ I Hb) as [I1 [S1 [C1 [T1 _]]]].
    assert (I1' : Inv (with_after [] a) (after a)) by (eapply inv_pend_mono; [exact I1 | auto]).
    destruct (flush_after_inv _ _ _ I1' S1 eq_refl Hk) as [I2 [S2 [C2 [T2 A2]]]].
    rewrite A2. split; [exact I2|]. cbn in C2, T2. repeat split; congruence.
  Qed.

  (* the invariant between operations *)
  Definition SInv (st : state) : Prop :=
    Inv st (after st) /\ (strm st = None -> after st = []).

  Lemma put_inv st n g o big st' :
    SInv st -> put n g o big st = Ok st' -> SInv st' /\ closed st' = closed st /\ xtab st' = xtab st.
  Proof.
    intros [I A] H. unfold Writer.put in H. destruct (strm st) eqn:Hs.
    - injection H as <-. cbn. split; [|auto]. split.
      + apply (inv_pend_mono st (after st)); [exact I|]. intros x Hx. apply in_or_app. auto.
      + cbn. rewrite Hs. discriminate.
    - destruct o.
      + destruct (put_obj_inv st (after st) (after st) n g o st' I Hs H) as [I1 [S1 [C1 [T1 A1]]]]; [auto|].
        split; [|auto]. split; [rewrite A1; exact I1|]. intros _. rewrite A1. auto.
      + binv H. destruct (put_stream_now_inv _ _ _ _ _ _ _ I Hb) as [I1 [_ [A1 [C1 T1]]]].
        rewrite <- A1 in I1.
        destruct (close_stream_inv _ _ _ I1 Hk) as [I2 [S2 [C2 [T2 A2]]]].
        split; [split; auto|]. split; congruence.
  Qed.

  Lemma put_all_inv rs : forall os st st',
    SInv st -> put_all rs os st = Ok st' -> SInv st' /\ closed st' = closed st /\ xtab st' = xtab st.
  Proof.
    induction rs as [|[n g] rs IH]; intros os st st' I H; cbn in H.
    - injection H as <-. auto.
    - destruct os as [|o os]; [injection H as <-; auto|].
      binv H. destruct (put_inv _ _ _ _ _ _ I Hb) as [I1 [C1 T1]].
      destruct (IH _ _ _ I1 Hk) as [I2 [C2 T2]]. split; [exact I2|]. split; congruence.
  Qed.

  Lemma set_xref_comp_inv st pend n sr i st' :
    Inv st pend -> strm st = None -> set_xref n (EComp sr i) st = Ok st' ->
    Inv st' pend /\ strm st' = None /\ after st' = after st /\ closed st' = closed st /\ xtab st' = xtab st /\
    wr st' = wr st /\ xlookup n (xref st') <> None /\ grows st st'.
  Proof.
    intros I Hs H. unfold set_xref in H. destruct (xlookup n (xref st)) eqn:Hx; [discriminate|].
    injection H as <-. cbn.
    match goal with |- Inv ?x _ /\ _ => set (st' := x) end.
    assert (E : ext st st') by (apply ext_same; reflexivity).
    assert (G : grows st st').
    { split; cbn; intros m e He; [rewrite xlookup_app, He; reflexivity | exact He]. }
    assert (X : xlookup n (xref st') <> None).
    { cbn. rewrite xlookup_app, Hx. cbn. rewrite N.eqb_refl. discriminate. }
    split; [|split; [exact Hs|]; split; [reflexivity|]; split; [reflexivity|]; split; [reflexivity|];
             split; [reflexivity|]; split; [exact X | exact G]].
    constructor.
    - exact (inv_pos _ _ I).
    - intros m off g Hm. cbn in Hm. rewrite xlookup_app in Hm. destruct (xlookup m (xref st)) eqn:Em.
      + injection Hm as ->.
        apply (good_kept st st' pend pend m off g I E G (same_pend_mono pend st'));
          [intros s0 Hs0; congruence | auto | exact Em].
      + cbn in Hm. destruct (m =? n); discriminate.
    - intros m x Hm. cbn in Hm |- *. rewrite xlookup_app.
      pose proof (inv_wr _ _ I _ _ Hm) as Hn. destruct (xlookup m (xref st)); [discriminate | contradiction].
    - cbn. rewrite Hs. discriminate.
  Qed.

  Lemma set_comp_inv sr rs : forall i st st',
    Inv st [] -> strm st = None -> set_comp sr i rs st = Ok st' ->
    Inv st' [] /\ strm st' = None /\ after st' = after st /\ closed st' = closed st /\ xtab st' = xtab st /\
    wr st' = wr st /\ (forall n g, In (n, g) rs -> xlookup n (xref st') <> None) /\ grows st st'.
  Proof.
    induction rs as [|[n g] rs IH]; intros i st st' I Hs H; cbn in H.
    - injection H as <-. split; [exact I|]. split; [exact Hs|]. do 4 (split; [reflexivity|]).
      split; [intros n g []| apply grows_refl].
    - binv H.
      destruct (set_xref_comp_inv _ _ _ _ _ _ I Hs Hb) as [I1 [S1 [A1 [C1 [T1 [W1 [X1 G1]]]]]]].
      destruct (IH _ _ _ I1 S1 Hk) as [I2 [S2 [A2 [C2 [T2 [W2 [X2 G2]]]]]]].
      split; [exact I2|]. split; [exact S2|]. do 4 (split; [congruence|]). split.
      + intros m g' [Heq|Hin].
        * injection Heq as -> ->. destruct (xlookup m (xref a)) eqn:Em; [|contradiction].
          rewrite (proj1 G2 _ _ Em). discriminate.
        * eapply X2; eassumption.
      + split; intros m e He; apply G2; apply G1; exact He.
  Qed.

  Lemma record_all_inv rs : forall os st,
    Inv st [] -> strm st = None -> (forall n g, In (n, g) rs -> xlookup n (xref st) <> None) ->
    Inv (record_all rs os st) [] /\ strm (record_all rs os st) = None /\
    after (record_all rs os st) = after st /\ closed (record_all rs os st) = closed st /\
    xtab (record_all rs os st) = xtab st /\ xref (record_all rs os st) = xref st.
  Proof.
    induction rs as [|[n g] rs IH]; intros os st I Hs Hx; cbn.
    - auto 10.
    - destruct os as [|o os]; [auto 10|].
      set (st1 := record n g (VObj (pobj_obj o)) st).
      assert (I1 : Inv st1 []).
      { assert (E : ext st st1) by (apply ext_same; reflexivity).
        assert (G : grows st st1).
        { split; cbn; intros m e He; [exact He | rewrite wlookup_app, He; reflexivity]. }
        constructor.
        - exact (inv_pos _ _ I).
        - intros m off g' Hm. cbn in Hm.
          apply (good_kept st st1 [] [] m off g' I E G (same_pend_mono [] st1));
            [intros s0 Hs0; congruence | auto | exact Hm].
        - intros m x Hm. cbn in Hm |- *. rewrite wlookup_app in Hm. destruct (wlookup m (wr st)) eqn:Em.
          + eapply (inv_wr _ _ I); eassumption.
          + cbn in Hm. destruct (m =? n) eqn:Emn; [|discriminate]. apply N.eqb_eq in Emn. subst m.
            apply (Hx n g). left. reflexivity.
        - cbn. rewrite Hs. discriminate. }
      destruct (IH os st1 I1 Hs) as [I2 [S2 [A2 [C2 [T2 X2]]]]].
      { intros m g' Hin. cbn. apply (Hx m g'). right. exact Hin. }
      split; [exact I2|]. repeat split; auto.
  Qed.

  Lemma sinv_closed_fields st : SInv st -> strm st = None -> Inv st [].
  Proof. intros [I A] Hs. rewrite (A Hs) in I. exact I. Qed.

  Lemma wc_one_inv st rs os big st' :
    SInv st -> strm st = None -> wc_one fmt fmt_sd encS encB fenc c rs os big st = Ok st' ->
    SInv st' /\ strm st' = None /\ closed st' = closed st /\ xtab st' = xtab st.
  Proof.
    intros SI Hs H. unfold wc_one in H.
    binv H. destruct a as [sref st1]. binv Hk.
    destruct (objstm_parts _ _ _) as [head body]. binv Hk0.
    destruct (strm a0) eqn:Es; [|discriminate].
    pose proof (sinv_closed_fields _ SI Hs) as I0. destruct SI as [_ A0].
    destruct (alloc_fields _ _ _ Hb) as [F1 [F2 [F3 [F4 [F5 [F6 [F7 F8]]]]]]].
    pose proof (alloc_inv _ _ _ _ I0 Hb) as I1.
    destruct (set_comp_inv _ _ _ _ _ I1 (eq_trans F4 Hs) Hb0) as [I2 [S2 [A2 [C2 [T2 [W2 [X2 G2]]]]]]].
    destruct (record_all_inv rs os a I2 S2 X2) as [I3 [S3 [A3 [C3 [T3 X3]]]]].
    destruct (open_stream_inv _ _ _ _ _ _ _ I3 Hb1) as [I4 [_ [S4 [A4 C4]]]].
    rewrite S4 in Es. injection Es as <-. cbn in Hk.
    assert (Aa : after a0 = []).
    { rewrite A4, A3, A2, F5. apply A0. exact Hs. }
    match type of Hk with close_stream _ ?x = _ => set (st5 := x) in * end.
    assert (I5 : Inv st5 (after st5)).
    { unfold st5. cbn. rewrite Aa. eapply restrm_inv; [exact I4 | exact S4 | reflexivity | reflexivity]. }
    destruct (close_stream_inv _ _ _ I5 Hk) as [I6 [S6 [C6 [T6 A6]]]].
    split; [split; auto|]. split; [exact S6|].
    unfold st5 in C6, T6. cbn in C6, T6.
    assert (T4 : xtab a0 = xtab (record_all rs os a)).
    { unfold open_stream in Hb1. rewrite S3 in Hb1. binv Hb1. unfold set_xref in Hb2.
      destruct (xlookup sref (xref (record_all rs os a))); [discriminate|]. injection Hb2 as <-.
      destruct (dict_get k_Length _) as [[]|]; try discriminate; injection Hk0 as <-; reflexivity. }
    split; congruence.
  Qed.

  Lemma wc_chunks_inv fuel : forall st rs os bigs st',
    SInv st -> strm st = None -> wc_chunks fmt fmt_sd encS encB fenc c fuel rs os bigs st = Ok st' ->
    SInv st' /\ strm st' = None /\ closed st' = closed st /\ xtab st' = xtab st.
  Proof.
    induction fuel as [|f IH]; intros st rs os bigs st' SI Hs H; cbn [wc_chunks] in H; [discriminate|].
    destruct (Nat.ltb _ _).
    - binv H. destruct (wc_one_inv _ _ _ _ _ SI Hs Hb) as [S1 [N1 [C1 T1]]].
      destruct (IH _ _ _ _ _ S1 N1 Hk) as [S2 [N2 [C2 T2]]].
      split; [exact S2|]. split; [exact N2|]. split; congruence.
    - eapply wc_one_inv; eassumption.
  Qed.

  Lemma write_compressed_inv st rs os bigs st' :
    SInv st -> write_compressed rs os bigs st = Ok st' -> SInv st' /\ closed st' = closed st /\ xtab st' = xtab st.
  Proof.
    intros SI H. unfold Writer.write_compressed in H. destruct (strm st) eqn:Hs; [discriminate|].
    destruct (negb (check_compressed rs os)); [discriminate|].
    destruct os as [|o os]; [injection H as <-; auto|].
    destruct (negb (use_objstm c)); [eapply put_all_inv; eassumption|].
    destruct (wc_chunks_inv _ _ _ _ _ _ SI Hs H) as [S1 [_ [C1 T1]]]. auto.
  Qed.

  (* after Close: the serialised table [xtab] is part of the map, and every in-use entry of it
     points at its chunk; the cross-reference stream itself is the only entry outside [xtab] *)
  Definition Final (st : state) : Prop :=
    Inv st [] /\ strm st = None /\ after st = [] /\ closed st = true /\
    (forall n e, xlookup n (xtab st) = Some e -> xlookup n (xref st) = Some e) /\
    (forall n, xlookup n (xtab st) = None -> wlookup n (wr st) = None).

  Lemma close_inv st cat info st' :
    SInv st -> closed st = false -> close cat info st = Ok st' -> Final st'.
  Proof.
    intros SI Hc H. apply close_ok in H. unfold Writer.close0 in H. destruct (strm st) eqn:Hs; [discriminate|].
    pose proof (sinv_closed_fields _ SI Hs) as I0. destruct SI as [_ A0]. specialize (A0 Hs).
    binv H. destruct a as [croot st1]. binv Hk. binv Hk0. destruct a0 as [iref st5].
    cbv zeta in Hk. binv Hk. injection Hk0 as <-.
    destruct (alloc_fields _ _ _ Hb) as [F1 [F2 [F3 [F4 [F5 [F6 [F7 F8]]]]]]].
    pose proof (alloc_inv _ _ _ _ I0 Hb) as I1.
    destruct (put_obj_inv st1 [] [] croot 0 cat a I1 (eq_trans F4 Hs) Hb0) as [I2 [S2 [C2 [T2 A2]]]]; [intros x []|].
    assert (S5 : Inv st5 [] /\ strm st5 = None /\ closed st5 = false /\ after st5 = []).
    { destruct info.
      - binv Hb1. destruct a1 as [ri st3]. binv Hk.
        match goal with Hx : Ok _ = Ok (iref, st5) |- _ => injection Hx as <- <- end.
        match goal with Ha : alloc a = Ok (ri, st3), Hp : put_obj ri 0 o st3 = Ok ?z |- _ =>
          destruct (alloc_fields _ _ _ Ha) as [G1 [G2 [G3 [G4 [G5 [G6 [G7 G8]]]]]]];
          pose proof (alloc_inv _ _ _ _ I2 Ha) as I3;
          destruct (put_obj_inv st3 [] [] ri 0 o z I3 (eq_trans G4 S2) Hp) as [I4 [S4 [C4 [T4 A4]]]]; [intros x []|]
        end.
        split; [exact I4|]. split; [exact S4|]. split; congruence.
      - injection Hb1 as <- <-. split; [exact I2|]. split; [exact S2|]. split; congruence. }
    destruct S5 as [I5 [S5 [C5 A5]]].
    (* both branches: the result extends st5, with the old map (plus, possibly, one new entry) *)
    assert (X6 : ext st5 a0 /\ strm a0 = None /\ after a0 = [] /\ wr a0 = wr st5 /\
                 ((xref a0 = xref st5 /\ xtab a0 = xref st5) \/
                  (exists r p, xref a0 = xref st5 ++ [(r, EUse p 0)] /\ xtab a0 = xref st5 /\
                               xlookup r (xref st5) = None))).
    { destruct (use_xrefstm c).
      - unfold Writer.write_xref_stream in Hb2. binv Hb2. destruct a1 as [r sa]. cbv zeta in Hk.
        binv Hk.
        match goal with Hx : Ok _ = Ok a0 |- _ => injection Hx as <- end.
        match goal with Ha : alloc st5 = Ok (r, sa) |- _ =>
          destruct (alloc_fields _ _ _ Ha) as [G1 [G2 [G3 [G4 [G5 [G6 [G7 G8]]]]]]] end.
        match goal with Hs : set_xref r _ sa = Ok _ |- _ =>
          unfold set_xref in Hs; destruct (xlookup r (xref sa)) eqn:Hx; [discriminate|]; injection Hs as <- end.
        cbn.
        split.
        + eexists. cbn. rewrite G1, G2. split; reflexivity.
        + rewrite G4, G5, G6, G3. split; [exact S5|]. split; [exact A5|]. split; [reflexivity|].
          right. exists r, (pos sa). rewrite <- G3. auto.
      - binv Hb2.
        match goal with Hx : Ok _ = Ok a0 |- _ => injection Hx as <- end.
        match goal with Ht : write_xref_table _ st5 = Ok _ |- _ =>
          unfold Writer.write_xref_table in Ht; destruct (has_comp _); [discriminate|]; injection Ht as <- end.
        cbn. split; [eexists; cbn; split; reflexivity|]. auto 6. }
    destruct X6 as [E6 [S6 [A6 [W6 X6]]]].
    match goal with |- Final ?x => set (st' := x) end.
    assert (E : ext st5 st').
    { eapply ext_trans; [exact E6|]. eexists. cbn. split; reflexivity. }
    assert (G : grows st5 st').
    { split; cbn; intros m e He.
      - destruct X6 as [[X _]|[r [p [X _]]]]; rewrite X; [exact He | rewrite xlookup_app, He; reflexivity].
      - rewrite W6. exact He. }
    split; [|split; [exact S6|]; split; [exact A6|]; split; [reflexivity|]; split].
    - constructor.
      + eapply ext_pos_ok; [exact E | exact (inv_pos _ _ I5)].
      + intros m off g Hm. cbn in Hm.
        assert (Old : forall e, xlookup m (xref st5) = Some e -> e = EUse off g ->
                 good st' [] m off g).
        { intros e He ->.
          destruct (use_kept st5 st' [] [] m off g I5 E G (same_pend_mono [] st') He) as [[s1 [B1 _]]|[[B1 _]|B]].
          - congruence.
          - congruence.
          - right; right. exact B. }
        destruct X6 as [[X T]|[r [p [X [T Hr]]]]]; rewrite X in Hm.
        * eapply Old; [exact Hm | reflexivity].
        * rewrite xlookup_app in Hm. destruct (xlookup m (xref st5)) eqn:Em.
          -- eapply Old; [reflexivity | congruence].
          -- cbn in Hm. destruct (m =? r) eqn:Emr; [|discriminate]. apply N.eqb_eq in Emr. subst m.
             right; left. cbn. rewrite T. auto.
      + intros m x Hm. cbn in Hm |- *. rewrite W6 in Hm. pose proof (inv_wr _ _ I5 _ _ Hm) as Hn.
        destruct X6 as [[X _]|[r [p [X _]]]]; rewrite X; [exact Hn|].
        rewrite xlookup_app. destruct (xlookup m (xref st5)); [discriminate | contradiction].
      + cbn. rewrite S6. discriminate.
    - cbn. intros m e He. destruct X6 as [[X T]|[r [p [X [T _]]]]]; rewrite T in He; rewrite X; [exact He|].
      rewrite xlookup_app, He. reflexivity.
    - cbn. intros m Hm. rewrite W6. apply (wr_fresh _ _ _ I5).
      destruct X6 as [[_ T]|[r [p [_ [T _]]]]]; rewrite T in Hm; exact Hm.
  Qed.

  Lemma step_inv st o st' :
    SInv st -> step st o = Ok st' ->
    closed st = false /\ ((SInv st' /\ closed st' = false) \/ Final st').
  Proof.
    intros SI H. apply step_ok in H. unfold Writer.step0 in H. destruct (closed st) eqn:Hc; [discriminate|]. split; [reflexivity|].
    destruct o.
    - binv H. destruct a as [r st1]. injection Hk as <-. left.
      destruct (alloc_fields _ _ _ Hb) as [F1 [F2 [F3 [F4 [F5 [F6 [F7 F8]]]]]]]. destruct SI as [I A].
      split; [split|congruence].
      + rewrite F5. eapply alloc_inv; eassumption.
      + rewrite F4, F5. exact A.
    - destruct (put_inv _ _ _ _ _ _ SI H) as [S1 [C1 T1]]. left. split; [exact S1 | congruence].
    - destruct (write_compressed_inv _ _ _ _ _ SI H) as [S1 [C1 T1]]. left. split; [exact S1 | congruence].
    - destruct SI as [I A]. destruct (open_stream_inv _ _ _ _ _ _ _ I H) as [I1 [S0 [S1 [A1 C1]]]].
      left. split; [split|congruence].
      + rewrite A1. exact I1.
      + rewrite S1. discriminate.
    - destruct SI as [I A]. destruct (write_stream_inv _ _ _ _ _ I H) as [I1 [A1 [C1 [s' S1]]]].
      left. split; [split|congruence].
      + rewrite A1. exact I1.
      + rewrite S1. discriminate.
    - destruct SI as [I A]. destruct (close_stream_inv _ _ _ I H) as [I1 [S1 [C1 [T1 A1]]]].
      left. split; [split; auto | congruence].
    - right. eapply close_inv; eassumption.
  Qed.

  Lemma init_sinv st : init c = Ok st -> SInv st /\ closed st = false.
  Proof.
    unfold init. destruct (negb _); [discriminate|]. destruct (_ && _); [discriminate|].
    destruct (_ && _); [discriminate|]. intros H; injection H as <-. split; [|reflexivity]. split; [|reflexivity].
    constructor; cbn.
    - reflexivity.
    - intros n off g Hn. destruct (n =? 0); discriminate.
    - intros n x Hn. discriminate.
    - intros s Hs. discriminate.
  Qed.

  Lemma final_stuck st o : Final st -> step st o = Err Other.
  Proof.
    intros [_ [_ [_ [Hc _]]]]. unfold Writer.step, Writer.step0. rewrite Hc.
    destruct (accepts _ _ _ _); reflexivity.
  Qed.

  Lemma final_self st n : Final st -> xlookup n (xtab st) = None -> wlookup n (wr st) = None.
  Proof. intros [_ [_ [_ [_ [_ H]]]]]. apply H. Qed.

  Lemma run_from_inv ops : forall st st',
    SInv st -> closed st = false -> run_from st ops = Ok st' -> (SInv st' /\ closed st' = false) \/ Final st'.
  Proof.
    induction ops as [|o ops IH]; intros st st' SI Hc H; cbn in H.
    - injection H as <-. left. auto.
    - binv H. destruct (step_inv _ _ _ SI Hb) as [_ [[S1 C1]|F]].
      + eapply IH; eassumption.
      + destruct ops as [|o2 ops]; cbn in Hk.
        * injection Hk as <-. right. exact F.
        * rewrite (final_stuck _ o2 F) in Hk. discriminate.
  Qed.

  Lemma run_inv ops st : run ops = Ok st -> (SInv st /\ closed st = false) \/ Final st.
  Proof.
    unfold Writer.run. intros H. binv H. destruct (init_sinv _ Hb) as [S0 C0].
    eapply run_from_inv; eassumption.
  Qed.

  (* ---- the statements used by Prop_C02 ---- *)

  Lemma layout_lemma ops st :
    run ops = Ok st -> strm st = None ->
    forall n off g, xlookup n (xref st) = Some (EUse off g) ->
      (closed st = true /\ xlookup n (xtab st) = None) \/
      exists v ch rest, wlookup n (wr st) = Some (g, v) /\
                        skipn (N.to_nat off) (out st) = ch ++ rest /\ chunk_of st [] n g v ch.
  Proof.
    intros H Hs n off g Hn.
    assert (I : Inv st []).
    { destruct (run_inv _ _ H) as [[SI _]|[I _]]; [apply sinv_closed_fields; assumption | exact I]. }
    destruct (inv_use _ _ I _ _ _ Hn) as [[s [A _]]|[A|A]]; [congruence | left; exact A | right; exact A].
  Qed.

  Lemma layout_closed_lemma ops st :
    run ops = Ok st -> closed st = true ->
    forall n off g, xlookup n (xtab st) = Some (EUse off g) ->
      exists v ch rest, wlookup n (wr st) = Some (g, v) /\
                        skipn (N.to_nat off) (out st) = ch ++ rest /\ chunk_of st [] n g v ch.
  Proof.
    intros H Hc n off g Hn.
    destruct (run_inv _ _ H) as [[_ C]|[I [Hs [_ [_ [T _]]]]]]; [congruence|].
    destruct (inv_use _ _ I _ _ _ (T _ _ Hn)) as [[s [A _]]|[[_ A]|A]]; [congruence | congruence | exact A].
  Qed.

  (* an entry with a record points at its chunk (the cross-reference stream's own entry has no record) *)
  Lemma layout_recorded_lemma ops st :
    run ops = Ok st -> strm st = None ->
    forall n off g x, xlookup n (xref st) = Some (EUse off g) -> wlookup n (wr st) = Some x ->
      exists v ch rest, wlookup n (wr st) = Some (g, v) /\
                        skipn (N.to_nat off) (out st) = ch ++ rest /\ chunk_of st [] n g v ch.
  Proof.
    intros H Hs n off g x Hn Hw.
    destruct (run_inv _ _ H) as [[SI C]|F].
    - pose proof (sinv_closed_fields _ SI Hs) as I.
      destruct (inv_use _ _ I _ _ _ Hn) as [[s [A _]]|[[A _]|A]]; [congruence | congruence | exact A].
    - destruct F as [I [_ [_ [_ [_ Hself]]]]].
      destruct (inv_use _ _ I _ _ _ Hn) as [[s [A _]]|[[_ A]|A]]; [congruence | | exact A].
      rewrite (Hself _ A) in Hw. discriminate.
  Qed.
End Layout.

From GoPdf.Gen Require Import Gen_C02.

Lemma options_tie_lemma :
  forall v, (v <= 8)%N ->
    (5 <=? v)%N = negb (Z.land (defaultOutputOptions (Z.of_N v + V1_0)) optObjStm =? 0)%Z /\
    (5 <=? v)%N = negb (Z.land (defaultOutputOptions (Z.of_N v + V1_0)) optXRefStream =? 0)%Z.
Proof.
  intros v Hv.
  assert (H : (v = 0 \/ v = 1 \/ v = 2 \/ v = 3 \/ v = 4 \/ v = 5 \/ v = 6 \/ v = 7 \/ v = 8)%N) by lia.
  repeat (destruct H as [->|H]; [vm_compute; split; reflexivity|]). subst v. vm_compute; split; reflexivity.
Qed.
