(* C02: the filter chain of a stream survives the round trip.
   The writer builds /Filter and /DecodeParms with [append_filter] (one filter at a
   time, appendFilter of filter.go); the reader sees the dictionary after parsing,
   i.e. normalised ([norm]), reads the chain back with [filter_chain] and undoes
   the encoders in order.  Proved here, for a caller dictionary without /Filter and
   /DecodeParms:
     (C1) filter_chain_add_filters : the reader's chain is the writer's chain, with
          every parameter dictionary normalised;
     (C2) decode_encode_chain      : decoding that chain inverts [encode_chain];
     (C3) stream_data_roundtrip    : [stream_data] of the written dictionary and
          the written (possibly encrypted) data is the caller's data. *)
From Coq Require Import List NArith ZArith Bool Lia.
From GoPdf.Base Require Import Bytes Res.
From GoPdf.Gen Require Import Gen_Consts.
From GoPdf.C02 Require Import Obj Dec Syntax Writer Reader ReaderProofs.
Import ListNotations.
Open Scope N_scope.

(* ---- what the reader hands to a decoder for a writer-side parameter dictionary ---- *)
Definition nonnull (kv : bytes * obj) : bool := negb (is_null (snd kv)).
Definition normkv (kv : bytes * obj) : bytes * obj := match kv with (k, v) => (k, norm v) end.

(* the list inside [norm (ODict p)] *)
Definition norm_parms (p : dict) : dict := dict_sort (filter nonnull (map normkv p)).

Definition dict_of (o : obj) : dict := match o with ODict l => l | _ => [] end.

Lemma norm_dict p : norm (ODict p) = ODict (norm_parms p).
Proof. reflexivity. Qed.

Lemma dict_of_norm p : dict_of (norm (ODict p)) = norm_parms p.
Proof. reflexivity. Qed.

Lemma norm_parms_nil : norm_parms [] = [].
Proof. reflexivity. Qed.

Lemma is_null_norm o : is_null (norm o) = is_null o.
Proof. destruct o; reflexivity. Qed.

(* ---- keys ---- *)
Lemma bytes_eqb_neq a b : a <> b -> bytes_eqb a b = false.
Proof.
  intros H. destruct (bytes_eqb a b) eqn:E; [apply bytes_eqb_eq in E; contradiction | reflexivity].
Qed.

Lemma bytes_eqb_false_neq a b : bytes_eqb a b = false -> a <> b.
Proof. intros H E. subst. rewrite bytes_eqb_refl in H. discriminate. Qed.

(* ---- dict_get through dict_insert / dict_sort: the first entry of a key wins in both ---- *)
Lemma dict_get_insert k k' v l :
  dict_get k (dict_insert k' v l) = if bytes_eqb k k' then Some v else dict_get k l.
Proof.
  induction l as [|[k'' v'] l IH]; cbn [dict_insert dict_get]; [reflexivity|].
  destruct (bytes_ltb k' k''); [reflexivity|].
  destruct (bytes_eqb k' k'') eqn:E.
  - apply bytes_eqb_eq in E. subst k''. cbn [dict_get]. destruct (bytes_eqb k k'); reflexivity.
  - cbn [dict_get]. rewrite IH.
    destruct (bytes_eqb k k'') eqn:E2; [|reflexivity].
    destruct (bytes_eqb k k') eqn:E1; [|reflexivity].
    apply bytes_eqb_eq in E1. apply bytes_eqb_eq in E2. subst.
    rewrite bytes_eqb_refl in E. discriminate.
Qed.

Lemma dict_get_sort k l : dict_get k (dict_sort l) = dict_get k l.
Proof.
  induction l as [|[k' v] l IH]; cbn [dict_sort dict_get]; [reflexivity|].
  rewrite dict_get_insert, IH. reflexivity.
Qed.

Lemma dict_get_app k a b :
  dict_get k (a ++ b) = match dict_get k a with Some v => Some v | None => dict_get k b end.
Proof.
  induction a as [|[k' v] a IH]; cbn [app dict_get]; [reflexivity|].
  destruct (bytes_eqb k k'); [reflexivity | exact IH].
Qed.

(* dict_get of a key after normalising the values *)
Lemma dict_get_map_norm k l : dict_get k (map normkv l) = option_map norm (dict_get k l).
Proof.
  induction l as [|[k' v] l IH]; cbn [map normkv dict_get]; [reflexivity|].
  destruct (bytes_eqb k k'); [reflexivity | exact IH].
Qed.

(* dict_get after dropping entries: a key that does not occur does not appear *)
Lemma dict_get_filter_none (P : bytes * obj -> bool) k l :
  dict_get k l = None -> dict_get k (filter P l) = None.
Proof.
  induction l as [|[k' v] l IH]; cbn [filter dict_get]; [reflexivity|].
  destruct (bytes_eqb k k') eqn:E; [discriminate|]. intros H.
  destruct (P (k', v)); [cbn [dict_get]; rewrite E|]; apply IH, H.
Qed.

(* ... and the first entry of a key is found if it survives *)
Lemma dict_get_filter_some (P : bytes * obj -> bool) k l v :
  dict_get k l = Some v -> P (k, v) = true -> dict_get k (filter P l) = Some v.
Proof.
  induction l as [|[k' v'] l IH]; cbn [filter dict_get]; [discriminate|].
  destruct (bytes_eqb k k') eqn:E.
  - apply bytes_eqb_eq in E. subst k'. intros H. injection H as ->. intros HP. rewrite HP.
    cbn [dict_get]. rewrite bytes_eqb_refl. reflexivity.
  - intros H HP. destruct (P (k', v')); [cbn [dict_get]; rewrite E|]; apply IH; assumption.
Qed.

(* [nget k l]: what the reader finds under [k] in the normal form of [ODict l] *)
Definition nget (k : bytes) (l : dict) : option obj := dict_get k (filter nonnull (map normkv l)).

Lemma dict_get_norm_parms k l : dict_get k (norm_parms l) = nget k l.
Proof. unfold norm_parms, nget. apply dict_get_sort. Qed.

Lemma nget_none k l : dict_get k l = None -> nget k l = None.
Proof.
  intros H. unfold nget. apply dict_get_filter_none. rewrite dict_get_map_norm, H. reflexivity.
Qed.

Lemma nget_app k a b :
  nget k (a ++ b) = match nget k a with Some v => Some v | None => nget k b end.
Proof. unfold nget. rewrite map_app, filter_app. apply dict_get_app. Qed.

(* ---- dict_del / dict_set ---- *)
Lemma dict_get_del_same k l : dict_get k (dict_del k l) = None.
Proof.
  induction l as [|[k' v] l IH]; cbn [dict_del dict_get]; [reflexivity|].
  destruct (bytes_eqb k k') eqn:E; [exact IH|]. cbn [dict_get]. rewrite E. exact IH.
Qed.

Lemma dict_get_del_other k k' l : k <> k' -> dict_get k' (dict_del k l) = dict_get k' l.
Proof.
  intros Hne. induction l as [|[k'' v] l IH]; cbn [dict_del dict_get]; [reflexivity|].
  destruct (bytes_eqb k k'') eqn:E.
  - apply bytes_eqb_eq in E. subst k''.
    rewrite (bytes_eqb_neq k' k) by (intro; apply Hne; congruence). exact IH.
  - cbn [dict_get]. rewrite IH. reflexivity.
Qed.

Lemma nget_del_other k k' l : k <> k' -> nget k' (dict_del k l) = nget k' l.
Proof.
  intros Hne. unfold nget. induction l as [|[k'' v] l IH]; cbn [dict_del map normkv filter]; [reflexivity|].
  destruct (bytes_eqb k k'') eqn:E.
  - apply bytes_eqb_eq in E. subst k''.
    destruct (nonnull (k, norm v)); [|exact IH].
    cbn [dict_get]. rewrite (bytes_eqb_neq k' k) by (intro; apply Hne; congruence). exact IH.
  - cbn [map normkv filter]. destruct (nonnull (k'', norm v)); [|exact IH].
    cbn [dict_get]. rewrite IH. reflexivity.
Qed.

Lemma dict_get_set_same k v d : dict_get k (dict_set k v d) = Some v.
Proof.
  unfold dict_set. rewrite dict_get_app, dict_get_del_same. cbn [dict_get].
  rewrite bytes_eqb_refl. reflexivity.
Qed.

Lemma dict_get_set_other k k' v d : k <> k' -> dict_get k' (dict_set k v d) = dict_get k' d.
Proof.
  intros Hne. unfold dict_set. rewrite dict_get_app, dict_get_del_other by exact Hne.
  destruct (dict_get k' d); [reflexivity|]. cbn [dict_get].
  rewrite (bytes_eqb_neq k' k) by (intro; apply Hne; congruence). reflexivity.
Qed.

Lemma nget_set_same k v d : nget k (dict_set k v d) = if is_null v then None else Some (norm v).
Proof.
  unfold dict_set. rewrite nget_app, (nget_none k (dict_del k d)) by apply dict_get_del_same.
  unfold nget. cbn [map normkv filter]. unfold nonnull at 1. cbn [snd]. rewrite is_null_norm.
  destruct (is_null v); cbn [negb dict_get]; [reflexivity|]. rewrite bytes_eqb_refl. reflexivity.
Qed.

Lemma nget_set_other k k' v d : k <> k' -> nget k' (dict_set k v d) = nget k' d.
Proof.
  intros Hne. unfold dict_set. rewrite nget_app, nget_del_other by exact Hne.
  destruct (nget k' d); [reflexivity|].
  unfold nget. cbn [map normkv filter]. destruct (nonnull (k, norm v)); [|reflexivity].
  cbn [dict_get]. rewrite (bytes_eqb_neq k' k) by (intro; apply Hne; congruence). reflexivity.
Qed.

(* [single k sd]: the entry the writer-side lookup finds under [k] is the one the reader sees
   (no earlier null entry hides a later one).  True when [k] is absent; established by dict_set. *)
Definition single (k : bytes) (sd : dict) : Prop :=
  nget k sd = match dict_get k sd with
              | Some v => if is_null v then None else Some (norm v)
              | None => None
              end.

Lemma single_absent k sd : dict_get k sd = None -> single k sd.
Proof. intros H. unfold single. rewrite H. apply nget_none, H. Qed.

Lemma single_set k k' v sd : single k sd -> single k (dict_set k' v sd).
Proof.
  intros H. unfold single. destruct (bytes_eqb k' k) eqn:E.
  - apply bytes_eqb_eq in E. subst k'. rewrite nget_set_same, dict_get_set_same. reflexivity.
  - apply bytes_eqb_false_neq in E. rewrite nget_set_other, dict_get_set_other by exact E. exact H.
Qed.

(* ---- the concrete keys (compared once, here) ---- *)
Lemma single_del k k' sd : single k sd -> single k (dict_del k' sd).
Proof.
  intros H. unfold single. destruct (bytes_eqb k' k) eqn:E.
  - apply bytes_eqb_eq in E. subst k'. rewrite dict_get_del_same. apply nget_none, dict_get_del_same.
  - apply bytes_eqb_false_neq in E.
    rewrite (nget_del_other k' k sd E), (dict_get_del_other k' k sd E). exact H.
Qed.

Lemma Filter_ne_DecodeParms : k_Filter <> k_DecodeParms.
Proof. apply bytes_eqb_false_neq. vm_compute. reflexivity. Qed.
Lemma DecodeParms_ne_Filter : k_DecodeParms <> k_Filter.
Proof. apply bytes_eqb_false_neq. vm_compute. reflexivity. Qed.
Lemma Length_ne_Filter : k_Length <> k_Filter.
Proof. apply bytes_eqb_false_neq. vm_compute. reflexivity. Qed.
Lemma Length_ne_DecodeParms : k_Length <> k_DecodeParms.
Proof. apply bytes_eqb_false_neq. vm_compute. reflexivity. Qed.

Lemma gF_sF v d : dict_get k_Filter (dict_set k_Filter v d) = Some v.
Proof. apply dict_get_set_same. Qed.
Lemma gD_sD v d : dict_get k_DecodeParms (dict_set k_DecodeParms v d) = Some v.
Proof. apply dict_get_set_same. Qed.
Lemma gF_sD v d : dict_get k_Filter (dict_set k_DecodeParms v d) = dict_get k_Filter d.
Proof. apply dict_get_set_other, DecodeParms_ne_Filter. Qed.
Lemma gD_sF v d : dict_get k_DecodeParms (dict_set k_Filter v d) = dict_get k_DecodeParms d.
Proof. apply dict_get_set_other, Filter_ne_DecodeParms. Qed.

#[local] Opaque k_Filter k_DecodeParms k_Length k_Crypt.

Ltac dsimp := repeat (rewrite gF_sF || rewrite gD_sD || rewrite gF_sD || rewrite gD_sF).

(* ---- the shape of /Filter and /DecodeParms after appending the filters [fs] ---- *)
Definition nm (f : filt) : obj := OName (fst f).
Definition nedict (o : obj) : bool := match o with ODict (_ :: _) => true | _ => false end.

(* the i-th element of a /DecodeParms array stands for the parameters of the i-th filter *)
Definition prepr (f : filt) (o : obj) : Prop := o = ODict (snd f) \/ (snd f = [] /\ o = ONull).

(* two or more filters (the statement makes sense for any number): /Filter is the array of names;
   /DecodeParms is absent and every parameter dictionary is empty, or it is an array of the same
   length with at least one non-empty dictionary *)
Definition repr_many (fs : list filt) (sd : dict) : Prop :=
  dict_get k_Filter sd = Some (OArr (map nm fs)) /\
  ((Forall (fun f => snd f = []) fs /\ dict_get k_DecodeParms sd = None) \/
   (exists pp, dict_get k_DecodeParms sd = Some (OArr pp) /\ Forall2 prepr fs pp /\
               existsb nedict pp = true)).

Definition chain_repr (fs : list filt) (sd : dict) : Prop :=
  match fs with
  | [] => dict_get k_Filter sd = None /\ dict_get k_DecodeParms sd = None
  | [f] => dict_get k_Filter sd = Some (OName (fst f)) /\
           dict_get k_DecodeParms sd =
             (if Nat.eqb (length (snd f)) 0 then None else Some (ODict (snd f)))
  | _ :: _ :: _ => repr_many fs sd
  end.

Lemma append_filter_single k sd f : single k sd -> single k (append_filter sd f).
Proof.
  intros H. unfold append_filter. destruct f as [name parms].
  destruct (dict_get k_Filter sd) as [o|]; [destruct o|]; cbv zeta;
    repeat match goal with |- context [if ?b then _ else _] => destruct b end;
    repeat (apply single_set || apply single_del); exact H.
Qed.

Lemma Forall2_repeat_null fs :
  Forall (fun f : filt => snd f = []) fs -> Forall2 prepr fs (repeat ONull (length fs)).
Proof.
  induction 1 as [|f fs Hf _ IH]; cbn [length repeat]; constructor; [|exact IH].
  right. split; [exact Hf | reflexivity].
Qed.

Lemma Forall2_len {A B} (R : A -> B -> Prop) l m : Forall2 R l m -> length l = length m.
Proof. induction 1; cbn [length]; congruence. Qed.

Lemma repr_many_step fs sd f :
  repr_many fs sd -> repr_many (fs ++ [f]) (append_filter sd f).
Proof.
  intros [HF HD]. unfold append_filter. destruct f as [name parms]. rewrite HF. cbv zeta.
  change (fun p : obj => match p with ODict (_ :: _) => true | _ => false end) with nedict.
  assert (Hnm : map nm fs ++ [OName name] = map nm (fs ++ [(name, parms)])).
  { rewrite map_app. reflexivity. }
  destruct HD as [[Hall HD]|[pp [HD [H2 Hex]]]]; rewrite HD.
  - (* no /DecodeParms so far *)
    destruct parms as [|x parms]; cbn [length Nat.eqb negb orb existsb].
    + split; [dsimp; rewrite Hnm; reflexivity|]. left. split.
      * apply Forall_app. split; [exact Hall | constructor; [reflexivity | constructor]].
      * dsimp. exact HD.
    + split; [dsimp; rewrite Hnm; reflexivity|]. right.
      cbn [app length]. rewrite Nat.sub_0_r, map_length.
      replace (firstn (length fs) (repeat ONull (length fs))) with (repeat ONull (length fs))
        by (symmetry; rewrite <- (repeat_length ONull (length fs)) at 1; apply firstn_all).
      eexists. split; [dsimp; reflexivity|]. split.
      * apply Forall2_app; [apply Forall2_repeat_null, Hall|].
        constructor; [left; reflexivity | constructor].
      * rewrite existsb_app. cbn [existsb nedict]. apply orb_true_r.
  - (* an array already *)
    rewrite Hex, orb_true_r.
    split; [dsimp; rewrite Hnm; reflexivity|]. right.
    pose proof (Forall2_len _ _ _ H2) as Hlen.
    rewrite map_length, Hlen, Nat.sub_diag. cbn [repeat]. rewrite app_nil_r, firstn_all.
    eexists. split; [dsimp; reflexivity|]. split.
    + apply Forall2_app; [exact H2|]. constructor; [left; reflexivity | constructor].
    + rewrite existsb_app, Hex. reflexivity.
Qed.

Lemma append_filter_repr fs sd f :
  chain_repr fs sd -> chain_repr (fs ++ [f]) (append_filter sd f).
Proof.
  destruct fs as [|f0 [|f1 fs]].
  - (* the first filter *)
    intros [HF HD]. cbn [app]. unfold chain_repr, append_filter. destruct f as [name parms].
    rewrite HF. cbv zeta. cbn [fst snd].
    destruct parms as [|x parms]; cbn [length Nat.eqb negb].
    + split.
      * rewrite (dict_get_del_other k_DecodeParms k_Filter _ DecodeParms_ne_Filter). dsimp. reflexivity.
      * apply dict_get_del_same.
    + split; dsimp; reflexivity.
  - (* the second filter: a name becomes an array *)
    destruct f0 as [n0 p0]. intros [HF HD]. cbn [fst snd] in HF, HD.
    change ([(n0, p0)] ++ [f]) with [(n0, p0); f]. unfold chain_repr, repr_many, append_filter.
    destruct f as [name parms]. rewrite HF. cbv zeta.
    assert (Hp0 : as_dict (dict_get k_DecodeParms sd) = p0).
    { rewrite HD. destruct p0; reflexivity. }
    rewrite Hp0. cbn [map nm fst].
    destruct p0 as [|y p0]; [destruct parms as [|x parms]|]; cbn [length Nat.eqb negb orb].
    + split; [dsimp; reflexivity|]. left. split; [repeat constructor|]. dsimp. exact HD.
    + split; [dsimp; reflexivity|]. right. eexists. split; [dsimp; reflexivity|]. split.
      * constructor; [left; reflexivity|]. constructor; [left; reflexivity | constructor].
      * reflexivity.
    + split; [dsimp; reflexivity|]. right. eexists. split; [dsimp; reflexivity|]. split.
      * constructor; [left; reflexivity|]. constructor; [left; reflexivity | constructor].
      * reflexivity.
  - (* further filters *)
    intros H. change (repr_many (f0 :: f1 :: fs) sd) in H.
    apply (repr_many_step _ _ f) in H. exact H.
Qed.

Lemma add_filters_repr fs : forall done sd,
  chain_repr done sd -> single k_Filter sd -> single k_DecodeParms sd ->
  chain_repr (done ++ fs) (add_filters sd fs) /\
  single k_Filter (add_filters sd fs) /\ single k_DecodeParms (add_filters sd fs).
Proof.
  unfold add_filters. induction fs as [|f fs IH]; intros done sd H S1 S2; cbn [fold_left].
  - rewrite app_nil_r. auto.
  - replace (done ++ f :: fs) with ((done ++ [f]) ++ fs) by (rewrite <- app_assoc; reflexivity).
    apply IH; [apply append_filter_repr, H | apply append_filter_single, S1 | apply append_filter_single, S2].
Qed.

(* ---- reading the representation back ---- *)
Fixpoint fc_go (fl pp : list obj) : list (bytes * dict) :=
  match fl with
  | [] => []
  | OName f :: fl' => (f, match pp with ODict p :: _ => p | _ => [] end) :: fc_go fl' (tl pp)
  | _ :: fl' => fc_go fl' (tl pp)
  end.

Lemma filter_chain_unfold d :
  filter_chain d =
  match dict_get k_Filter d with
  | Some (OName f) => [(f, as_dict (dict_get k_DecodeParms d))]
  | Some (OArr fl) =>
    fc_go fl (match dict_get k_DecodeParms d with Some (OArr l) => l | _ => [] end)
  | _ => []
  end.
Proof. reflexivity. Qed.

Definition rchain (fs : list filt) : list (bytes * dict) :=
  map (fun f : filt => (fst f, norm_parms (snd f))) fs.

Lemma fc_go_repr fs : forall pp,
  Forall2 prepr fs pp -> fc_go (map nm fs) (map norm pp) = rchain fs.
Proof.
  induction fs as [|f fs IH]; intros pp H; inversion H as [|f' o fs' pp' Hf Hr]; subst; [reflexivity|].
  cbn [map nm fc_go tl rchain]. fold (rchain fs). rewrite (IH _ Hr). f_equal. f_equal.
  destruct Hf as [->|[Hp ->]]; [reflexivity|]. rewrite Hp. reflexivity.
Qed.

Lemma fc_go_nil fs :
  Forall (fun f : filt => snd f = []) fs -> fc_go (map nm fs) [] = rchain fs.
Proof.
  induction 1 as [|f fs Hf _ IH]; [reflexivity|].
  cbn [map nm fc_go tl rchain]. fold (rchain fs). rewrite IH, Hf. reflexivity.
Qed.

Lemma map_norm_nm fs : map norm (map nm fs) = map nm fs.
Proof. rewrite map_map. apply map_ext. reflexivity. Qed.

Lemma filter_chain_repr fs sd :
  chain_repr fs sd -> single k_Filter sd -> single k_DecodeParms sd ->
  filter_chain (norm_parms sd) = rchain fs.
Proof.
  intros H S1 S2. rewrite filter_chain_unfold, !dict_get_norm_parms, S1, S2.
  destruct fs as [|f0 [|f1 fs]].
  - destruct H as [H1 H2]. rewrite H1. reflexivity.
  - destruct H as [H1 H2]. rewrite H1. cbn [is_null norm rchain map]. rewrite H2.
    destruct (snd f0) as [|x p]; reflexivity.
  - change (repr_many (f0 :: f1 :: fs) sd) in H. destruct H as [-> HD].
    cbn [is_null norm]. rewrite map_norm_nm.
    destruct HD as [[Hall ->]|[pp [-> [H2 _]]]].
    + apply fc_go_nil, Hall.
    + cbn [is_null norm]. apply fc_go_repr, H2.
Qed.

Lemma has_crypt_first_repr fs sd :
  chain_repr fs sd -> single k_Filter sd ->
  (forall f, In f fs -> bytes_eqb (fst f) k_Crypt = false) ->
  has_crypt_first (norm_parms sd) = false.
Proof.
  intros H S1 Hc. unfold has_crypt_first. rewrite dict_get_norm_parms, S1.
  destruct fs as [|f0 [|f1 fs]].
  - destruct H as [-> _]. reflexivity.
  - destruct H as [-> _]. cbn [is_null norm]. apply Hc. left. reflexivity.
  - change (repr_many (f0 :: f1 :: fs) sd) in H. destruct H as [-> _].
    cbn [is_null norm map nm]. apply Hc. left. reflexivity.
Qed.

Lemma stream_dict_plain n g d fs :
  dict_get k_Filter d = None ->
  stream_dict n g d fs = add_filters (dict_del k_Length d) fs.
Proof.
  intros H. unfold stream_dict. cbv zeta.
  rewrite (dict_get_del_other k_Length k_Filter d Length_ne_Filter), H. reflexivity.
Qed.

(* ---- a chain the caller's dictionary declares already ----
   OpenStream with filters, on a dictionary that has /Filter: the caller has encoded the data and
   says so; the new filters are applied on top, so a reader has to undo them first.  The written
   dictionary lists the filters of OpenStream followed by the declared ones, the parameters index
   by index beside the names (whatever the shape of the declaration: a name with or without a
   parameter dictionary, an array with or without a parameter array, entries null or missing). *)
Lemma stream_dict_declared n g d f fs o :
  dict_get k_Filter d = Some o ->
  stream_dict n g d (f :: fs) =
  add_filters (add_filters (dict_del k_Filter (dict_del k_DecodeParms (dict_del k_Length d))) (f :: fs))
              (old_chain (dict_del k_Length d)).
Proof.
  intros H. unfold stream_dict. cbv zeta.
  rewrite (dict_get_del_other k_Length k_Filter d Length_ne_Filter), H. reflexivity.
Qed.

Lemma declared_base_clean d :
  let base := dict_del k_Filter (dict_del k_DecodeParms d) in
  dict_get k_Filter base = None /\ dict_get k_DecodeParms base = None.
Proof.
  cbv zeta. split; [apply dict_get_del_same|].
  rewrite (dict_get_del_other k_Filter k_DecodeParms _ Filter_ne_DecodeParms). apply dict_get_del_same.
Qed.

(* the shape of the written dictionary, both cases *)
Lemma stream_dict_repr_plain n g d fs :
  dict_get k_Filter d = None -> dict_get k_DecodeParms d = None ->
  chain_repr fs (stream_dict n g d fs) /\
  single k_Filter (stream_dict n g d fs) /\ single k_DecodeParms (stream_dict n g d fs).
Proof.
  intros HF HD. rewrite (stream_dict_plain n g d fs HF).
  set (d0 := dict_del k_Length d).
  assert (HF0 : dict_get k_Filter d0 = None)
    by (unfold d0; rewrite dict_get_del_other by exact Length_ne_Filter; exact HF).
  assert (HD0 : dict_get k_DecodeParms d0 = None)
    by (unfold d0; rewrite dict_get_del_other by exact Length_ne_DecodeParms; exact HD).
  apply (add_filters_repr fs [] d0); [split; assumption | apply single_absent, HF0 | apply single_absent, HD0].
Qed.

Lemma stream_dict_repr_declared n g d f fs o :
  dict_get k_Filter d = Some o ->
  let sd := stream_dict n g d (f :: fs) in
  chain_repr ((f :: fs) ++ old_chain (dict_del k_Length d)) sd /\
  single k_Filter sd /\ single k_DecodeParms sd.
Proof.
  intros H. cbv zeta. rewrite (stream_dict_declared n g d f fs o H).
  set (d0 := dict_del k_Length d).
  destruct (declared_base_clean d0) as [B1 B2]. cbv zeta in B1, B2.
  set (base := dict_del k_Filter (dict_del k_DecodeParms d0)) in *.
  destruct (add_filters_repr (f :: fs) [] base) as [R [S1 S2]];
    [split; assumption | apply single_absent, B1 | apply single_absent, B2 |].
  cbn [app] in R.
  exact (add_filters_repr (old_chain d0) (f :: fs) _ R S1 S2).
Qed.

(* the chain a reader finds in the caller's own dictionary is the chain [old_chain] takes from it,
   provided the declaration is well formed: /Filter a name or an array of names *)
Definition is_oname (o : obj) : bool := match o with OName _ => true | _ => false end.
Definition decl_wf (d : dict) : Prop :=
  single k_Filter d /\ single k_DecodeParms d /\
  match dict_get k_Filter d with
  | Some (OName _) => True
  | Some (OArr names) => forallb is_oname names = true
  | _ => False
  end.

Lemma norm_is_dict o q : norm o = ODict q -> exists p, o = ODict p /\ q = norm_parms p.
Proof. destruct o; cbn [norm]; intros H; try discriminate H. injection H as <-. eexists. split; reflexivity. Qed.

Lemma parms_head_norm pp :
  match map norm pp with ODict p :: _ => p | _ => [] end =
  norm_parms (match pp with ODict p :: _ => p | _ => [] end).
Proof.
  destruct pp as [|o pp]; [reflexivity|]. cbn [map].
  destruct o; try reflexivity.
Qed.

Lemma fc_go_zip names : forall pp,
  forallb is_oname names = true ->
  fc_go (map norm names) (map norm pp) = rchain (zip_chain names pp).
Proof.
  induction names as [|nm names IH]; intros pp H; [reflexivity|].
  cbn [forallb] in H. apply andb_true_iff in H as [H1 H2].
  destruct nm; try discriminate H1.
  cbn [map norm fc_go zip_chain rchain fst snd]. fold (rchain (zip_chain names (tl pp))).
  rewrite parms_head_norm. f_equal.
  rewrite <- (IH (tl pp) H2). f_equal. destruct pp; reflexivity.
Qed.

Lemma as_dict_norm o :
  as_dict (match o with Some v => if is_null v then None else Some (norm v) | None => None end) =
  norm_parms (as_dict o).
Proof.
  destruct o as [v|]; [|reflexivity]. destruct v; try reflexivity.
Qed.

Lemma old_chain_read_back d :
  decl_wf d -> filter_chain (norm_parms d) = rchain (old_chain d).
Proof.
  intros (S1 & S2 & W). rewrite filter_chain_unfold, !dict_get_norm_parms, S1, S2.
  unfold old_chain. destruct (dict_get k_Filter d) as [o|]; [|contradiction].
  destruct o; try contradiction.
  - (* a name *)
    cbn [is_null norm rchain map fst snd]. rewrite as_dict_norm. reflexivity.
  - (* an array of names *)
    cbn [is_null norm].
    destruct (dict_get k_DecodeParms d) as [v|].
    + destruct v; cbn [is_null norm];
        try (change (@nil obj) with (map norm (@nil obj))); apply fc_go_zip, W.
    + change (@nil obj) with (map norm (@nil obj)). apply fc_go_zip, W.
Qed.

Lemma single_set_same k v sd : single k (dict_set k v sd).
Proof. unfold single. rewrite nget_set_same, dict_get_set_same. reflexivity. Qed.

Lemma single_del_same k sd : single k (dict_del k sd).
Proof. unfold single. rewrite dict_get_del_same. apply nget_none, dict_get_del_same. Qed.

(* the first filter on a dictionary without /Filter: a /DecodeParms that may be there is replaced
   or removed *)
Lemma append_filter_first sd f :
  dict_get k_Filter sd = None ->
  chain_repr [f] (append_filter sd f) /\
  single k_Filter (append_filter sd f) /\ single k_DecodeParms (append_filter sd f).
Proof.
  intros HF. pose proof (single_absent _ _ HF) as S1.
  unfold chain_repr, append_filter. destruct f as [name parms]. rewrite HF. cbv zeta. cbn [fst snd].
  destruct parms as [|x parms]; cbn [length Nat.eqb negb].
  - split; [split|split].
    + rewrite (dict_get_del_other k_DecodeParms k_Filter _ DecodeParms_ne_Filter). dsimp. reflexivity.
    + apply dict_get_del_same.
    + apply single_del, single_set, S1.
    + apply single_del_same.
  - split; [split|split].
    + dsimp. reflexivity.
    + dsimp. reflexivity.
    + apply single_set, single_set, S1.
    + apply single_set_same.
Qed.

Lemma add_filters_repr_stale d f fs :
  dict_get k_Filter d = None ->
  chain_repr (f :: fs) (add_filters d (f :: fs)) /\
  single k_Filter (add_filters d (f :: fs)) /\ single k_DecodeParms (add_filters d (f :: fs)).
Proof.
  intros HF. destruct (append_filter_first d f HF) as [R [S1 S2]].
  change (add_filters d (f :: fs)) with (add_filters (append_filter d f) fs).
  exact (add_filters_repr fs [f] _ R S1 S2).
Qed.

Lemma chain_repr_first f l sd : chain_repr (f :: l) sd ->
  dict_get k_Filter sd = Some (OName (fst f)) \/
  exists rest, dict_get k_Filter sd = Some (OArr (OName (fst f) :: rest)).
Proof.
  destruct l as [|f1 l]; intros R.
  - left. apply R.
  - right. change (repr_many (f :: f1 :: l) sd) in R. destruct R as [R _].
    eexists. rewrite R. reflexivity.
Qed.

Section Chain.
  Variable fenc : bytes -> dict -> bytes -> bytes.
  Variable fdec : bytes -> dict -> bytes -> option bytes.

  (* every decoder, given the parameters as the reader sees them, inverts its encoder *)
  Hypothesis fdec_fenc : forall name p x, fdec name (norm_parms p) (fenc name p x) = Some x.

  (* (C1) the chain the reader finds in the written dictionary *)
  Theorem filter_chain_add_filters d fs :
    dict_get k_Filter d = None -> dict_get k_DecodeParms d = None ->
    filter_chain (dict_of (norm (ODict (add_filters d fs)))) =
    map (fun f => (fst f, norm_parms (snd f))) fs.
  Proof.
    intros HF HD. rewrite dict_of_norm.
    destruct (add_filters_repr fs [] d) as [R [S1 S2]];
      [split; assumption | apply single_absent, HF | apply single_absent, HD |].
    exact (filter_chain_repr _ _ R S1 S2).
  Qed.

  (* (C1') ... and when the caller's dictionary declares a chain: the filters of OpenStream first,
     then the declared chain as a reader of the caller's own dictionary would find it *)
  Theorem filter_chain_declared n g d f fs o :
    dict_get k_Filter d = Some o ->
    filter_chain (dict_of (norm (ODict (stream_dict n g d (f :: fs))))) =
    rchain (f :: fs) ++ rchain (old_chain (dict_del k_Length d)).
  Proof.
    intros H. rewrite dict_of_norm.
    destruct (stream_dict_repr_declared n g d f fs o H) as [R [S1 S2]].
    rewrite (filter_chain_repr _ _ R S1 S2). unfold rchain. apply map_app.
  Qed.

  Corollary filter_chain_declared_wf n g d f fs o :
    dict_get k_Filter d = Some o -> decl_wf (dict_del k_Length d) ->
    filter_chain (dict_of (norm (ODict (stream_dict n g d (f :: fs))))) =
    rchain (f :: fs) ++ filter_chain (norm_parms (dict_del k_Length d)).
  Proof.
    intros H W. rewrite (filter_chain_declared n g d f fs o H), (old_chain_read_back _ W). reflexivity.
  Qed.

  (* (C1'') a /DecodeParms entry of the caller without /Filter is dropped by the first filter *)
  Theorem filter_chain_stale_parms d f fs :
    dict_get k_Filter d = None ->
    filter_chain (dict_of (norm (ODict (add_filters d (f :: fs))))) = rchain (f :: fs).
  Proof.
    intros HF. rewrite dict_of_norm.
    destruct (add_filters_repr_stale d f fs HF) as [R [S1 S2]].
    exact (filter_chain_repr _ _ R S1 S2).
  Qed.

  (* (C2) decoding in the order of the chain inverts the encoders *)
  Theorem decode_encode_chain fs data :
    decode_chain fdec (map (fun f => (fst f, norm_parms (snd f))) fs) (encode_chain fenc fs data) = Some data.
  Proof.
    induction fs as [|f fs IH]; [reflexivity|].
    cbn [map encode_chain fold_right decode_chain]. fold (encode_chain fenc fs data).
    rewrite fdec_fenc. exact IH.
  Qed.

  (* (C3) the data of a written stream *)
  Theorem stream_data_roundtrip (encB decB : N -> N -> bytes -> bytes) (c : cfg) (encd : bool)
          (rs : rstate) n g d fs data :
    (forall n g s, decB n g (encB n g s) = s) ->
    encd = encrypted c ->
    dict_get k_Filter d = None -> dict_get k_DecodeParms d = None ->
    (forall f, In f fs -> bytes_eqb (fst f) k_Crypt = false) ->
    existsb (N.eqb n) (rplain rs) = false ->
    stream_data decB fdec encd rs n g
      (dict_of (norm (ODict (stream_dict n g d fs))))
      (stream_raw encB fenc c n g d fs data) = Some data.
  Proof.
    intros Hdec -> HF HD Hc Hplain.
    rewrite (stream_dict_plain n g d fs HF), dict_of_norm.
    set (d0 := dict_del k_Length d).
    assert (HF0 : dict_get k_Filter d0 = None)
      by (unfold d0; rewrite dict_get_del_other by exact Length_ne_Filter; exact HF).
    assert (HD0 : dict_get k_DecodeParms d0 = None)
      by (unfold d0; rewrite dict_get_del_other by exact Length_ne_DecodeParms; exact HD).
    destruct (add_filters_repr fs [] d0) as [R [S1 S2]];
      [split; assumption | apply single_absent, HF0 | apply single_absent, HD0 |].
    cbn [app] in R.
    unfold stream_data. rewrite Hplain, (has_crypt_first_repr _ _ R S1 Hc), (filter_chain_repr _ _ R S1 S2).
    unfold stream_raw, bc.
    assert (Hd : has_crypt_first d = false) by (unfold has_crypt_first; rewrite HF; reflexivity).
    rewrite Hd. cbn [negb andb]. rewrite andb_true_r.
    destruct (encrypted c); [rewrite Hdec|]; apply decode_encode_chain.
  Qed.
  (* (C3') the data of a stream written on a declared chain: undoing everything the written
     dictionary lists is undoing the declared chain on the bytes the caller handed to Write *)
  Lemma decode_chain_app a b x :
    decode_chain fdec (a ++ b) x =
    match decode_chain fdec a x with Some y => decode_chain fdec b y | None => None end.
  Proof.
    revert x. induction a as [|[f p] a IH]; intros x; [reflexivity|].
    cbn [app decode_chain]. destruct (fdec f p x); [apply IH | reflexivity].
  Qed.

  Theorem stream_data_declared (encB decB : N -> N -> bytes -> bytes) (c : cfg) (encd : bool)
          (rs : rstate) n g d (f : filt) (fs : list filt) o data :
    (forall n g s, decB n g (encB n g s) = s) ->
    encd = encrypted c ->
    dict_get k_Filter d = Some o -> has_crypt_first d = false ->
    bytes_eqb (fst f) k_Crypt = false ->
    existsb (N.eqb n) (rplain rs) = false ->
    stream_data decB fdec encd rs n g
      (dict_of (norm (ODict (stream_dict n g d (f :: fs)))))
      (stream_raw encB fenc c n g d (f :: fs) data) =
    decode_chain fdec (rchain (old_chain (dict_del k_Length d))) data.
  Proof.
    intros Hdec -> HF Hd Hc Hplain. rewrite dict_of_norm.
    destruct (stream_dict_repr_declared n g d f fs o HF) as [R [S1 S2]].
    assert (Hcf : has_crypt_first (norm_parms (stream_dict n g d (f :: fs))) = false).
    { unfold has_crypt_first. rewrite dict_get_norm_parms, S1.
      cbn [app] in R. destruct (chain_repr_first _ _ _ R) as [E|[rest E]]; rewrite E;
        cbn [is_null norm map]; exact Hc. }
    unfold stream_data. rewrite Hplain, Hcf. rewrite (filter_chain_repr _ _ R S1 S2).
    unfold stream_raw, bc. rewrite Hd. cbn [negb andb]. rewrite andb_true_r.
    assert (E : decode_chain fdec (rchain (f :: fs)) (encode_chain fenc (f :: fs) data) = Some data)
      by (exact (decode_encode_chain (f :: fs) data)).
    assert (A : rchain ((f :: fs) ++ old_chain (dict_del k_Length d)) =
                rchain (f :: fs) ++ rchain (old_chain (dict_del k_Length d)))
      by (unfold rchain; exact (map_app _ (f :: fs) _)).
    rewrite A, decode_chain_app.
    destruct (encrypted c); cbn [andb]; [rewrite Hdec|]; rewrite E; reflexivity.
  Qed.
End Chain.

(* ---- the statements are not vacuous: instances ---- *)
#[local] Transparent k_Filter k_DecodeParms k_Length k_Crypt.

(* a toy pair: the encoder tags the data with the length of the filter's name and the
   number of (written) parameters; the decoder checks the name tag, drops both *)
Definition toy_enc (name : bytes) (p : dict) (x : bytes) : bytes :=
  N.of_nat (length name) :: N.of_nat (length p) :: x.
Definition toy_dec (name : bytes) (p : dict) (x : bytes) : option bytes :=
  match x with
  | t :: _ :: r => if t =? N.of_nat (length name) then Some r else None
  | _ => None
  end.

Lemma toy_dec_enc name p x : toy_dec name (norm_parms p) (toy_enc name p x) = Some x.
Proof. unfold toy_dec, toy_enc. rewrite N.eqb_refl. reflexivity. Qed.

Definition ex_d : dict := [(k_Type, OInt 1)].
Definition ex_fs : list filt :=
  [(k_AHx, []); (k_FlateDecode, [(k_Columns, OInt 0)]); (k_AHx, [])].

(* what the writer builds: an array of names and a padded array of parameters *)
Example ex_written :
  add_filters ex_d ex_fs =
  [(k_Type, OInt 1);
   (k_Filter, OArr [OName k_AHx; OName k_FlateDecode; OName k_AHx]);
   (k_DecodeParms, OArr [ODict []; ODict [(k_Columns, OInt 0)]; ODict []])].
Proof. vm_compute. reflexivity. Qed.

(* (C1) on this instance, through the theorem and by computation *)
Example ex_chain :
  filter_chain (dict_of (norm (ODict (add_filters ex_d ex_fs)))) =
  [(k_AHx, []); (k_FlateDecode, [(k_Columns, OInt 0)]); (k_AHx, [])].
Proof.
  rewrite filter_chain_add_filters by (vm_compute; reflexivity). vm_compute. reflexivity.
Qed.

Example ex_chain_computed :
  filter_chain (dict_of (norm (ODict (add_filters ex_d ex_fs)))) =
  map (fun f : filt => (fst f, norm_parms (snd f))) ex_fs.
Proof. vm_compute. reflexivity. Qed.

(* (C3) with the toy pair, an encrypted configuration and an involutive "cipher" *)
Definition ex_cfg : cfg :=
  {| cv := 4; chuman := false; cseek := false; ccipher := CRC4_128; cid := None; cencrypt := None |}.
Definition ex_rs : rstate :=
  {| rfile := []; rxref := []; rtrailer := []; rversion := 4; rhdr := 0; rplain := [7] |}.
Definition toy_cipher (n g : N) (s : bytes) : bytes := n :: rev s.
Definition toy_uncipher (n g : N) (s : bytes) : bytes :=
  match s with _ :: r => rev r | [] => [] end.

Lemma toy_uncipher_cipher n g s : toy_uncipher n g (toy_cipher n g s) = s.
Proof. unfold toy_uncipher, toy_cipher. apply rev_involutive. Qed.

Example ex_stream :
  stream_data toy_uncipher toy_dec true ex_rs 3 0
    (dict_of (norm (ODict (stream_dict 3 0 ((k_Length, OInt 99) :: ex_d) ex_fs))))
    (stream_raw toy_cipher toy_enc ex_cfg 3 0 ((k_Length, OInt 99) :: ex_d) ex_fs [1; 2; 3]) = Some [1; 2; 3].
Proof.
  apply (stream_data_roundtrip toy_enc toy_dec toy_dec_enc toy_cipher toy_uncipher ex_cfg);
    try (vm_compute; reflexivity).
  - exact toy_uncipher_cipher.
  - intros f Hf. repeat (destruct Hf as [<-|Hf]; [vm_compute; reflexivity|]). destruct Hf.
Qed.

Example ex_stream_computed :
  stream_raw toy_cipher toy_enc ex_cfg 3 0 ((k_Length, OInt 99) :: ex_d) ex_fs [1; 2; 3] =
  [3; 3; 2; 1; 0; 14; 1; 11; 0; 14] /\
  stream_data toy_uncipher toy_dec true ex_rs 3 0
    (dict_of (norm (ODict (stream_dict 3 0 ((k_Length, OInt 99) :: ex_d) ex_fs))))
    [3; 3; 2; 1; 0; 14; 1; 11; 0; 14] = Some [1; 2; 3].
Proof. vm_compute. split; reflexivity. Qed.

(* a stale /DecodeParms of the caller (without /Filter) does not become the parameters of the first
   filter: appendFilter removes it when it installs that filter (stale_parms_dropped) *)
Example ex_stale_parms :
  let d := [(k_DecodeParms, ODict [(k_Columns, OInt 5)])] in
  let fs := [(k_AHx, [])] in
  dict_get k_Filter d = None /\
  filter_chain (dict_of (norm (ODict (add_filters d fs)))) = [(k_AHx, [])] /\
  map (fun f : filt => (fst f, norm_parms (snd f))) fs = [(k_AHx, [])].
Proof. vm_compute. repeat split; reflexivity. Qed.
