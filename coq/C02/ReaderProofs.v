(* C02: the model reader returns what the model writer wrote.  Proved for
   Reader.get over the table the writer serialised ([xtab]) and the bytes of the
   file, for direct objects and streams (all three /Length strategies).  Object
   syntax, ciphers and filters are abstract: the hypotheses of the Section. *)
From Coq Require Import List NArith ZArith Bool Lia Decimal DecimalN DecimalPos.
From GoPdf.Base Require Import Bytes Res.
From GoPdf.Gen Require Import Gen_Consts.
From GoPdf.C02 Require Import Obj Dec Syntax Writer Reader WriterProofs LayoutProofs.
Import ListNotations.
Open Scope N_scope.

(* ---- decimal text ---- *)
Lemma read_digits_uint u r :
  match r with [] => True | b :: _ => is_digit b = false end ->
  read_digits (uint_bytes u ++ r) = (u, r).
Proof.
  intros Hr. unfold bytes, byte in *. induction u; cbn [uint_bytes]; rewrite ?app_nil_l, <- ?app_comm_cons;
    try (cbn [read_digits]; match goal with |- context [is_digit ?k] => change (is_digit k) with true end;
         cbv iota; rewrite IHu; reflexivity).
  destruct r as [|b r]; [reflexivity|]. cbn [read_digits]. rewrite Hr. reflexivity.
Qed.

Lemma to_uint_nonnil n : N.to_uint n <> Nil.
Proof. destruct n; cbn; [discriminate | apply Unsigned.to_uint_nonnil]. Qed.

Lemma read_nat_dec n r :
  match r with [] => True | b :: _ => is_digit b = false end ->
  read_nat (dec n ++ r) = Some (n, r).
Proof.
  intros Hr. unfold read_nat, dec. rewrite read_digits_uint by exact Hr.
  pose proof (to_uint_nonnil n) as Hn. destruct (N.to_uint n) eqn:E; try contradiction;
    rewrite <- E, DecimalN.Unsigned.of_to; reflexivity.
Qed.

Lemma uint_bytes_head u : u <> Nil -> exists b t, uint_bytes u = b :: t /\ is_digit b = true.
Proof. destruct u; intros H; try contradiction; cbn; eexists; eexists; split; reflexivity. Qed.

Lemma dec_head n : exists b t, dec n = b :: t /\ is_digit b = true.
Proof. apply uint_bytes_head, to_uint_nonnil. Qed.

Lemma digit_not_ws b : is_digit b = true -> is_ws b = false.
Proof.
  unfold is_digit, is_ws. intros H. apply andb_true_iff in H as [H1 H2].
  apply N.leb_le in H1. apply N.leb_le in H2.
  repeat (apply orb_false_iff; split); apply N.eqb_neq; lia.
Qed.

Lemma skip_ws_dec n r : skip_ws (dec n ++ r) = dec n ++ r.
Proof.
  destruct (dec_head n) as [b [t [E Hd]]]. rewrite E. cbn. rewrite (digit_not_ws _ Hd). reflexivity.
Qed.

Lemma prefixb_app p r : prefixb p (p ++ r) = true.
Proof. induction p; cbn; [reflexivity|]. rewrite N.eqb_refl. exact IHp. Qed.

Lemma strip_prefix_app p r : strip_prefix p (p ++ r) = Some r.
Proof.
  unfold strip_prefix. rewrite prefixb_app. f_equal.
  rewrite skipn_app, skipn_all, Nat.sub_diag. reflexivity.
Qed.

Lemma hdr_app n g r : hdr_of n g ++ r = dec n ++ SP :: dec g ++ SP :: kw_obj ++ LF :: r.
Proof.
  unfold hdr_of. repeat (rewrite <- app_assoc || rewrite <- app_comm_cons). reflexivity.
Qed.

Lemma skip_ws_sp s : skip_ws (SP :: s) = skip_ws s.
Proof. reflexivity. Qed.

Lemma read_header_hdr n g r : read_header (hdr_of n g ++ r) = Some (n, g, LF :: r).
Proof.
  unfold read_header. rewrite hdr_app.
  rewrite skip_ws_dec, read_nat_dec by reflexivity.
  rewrite skip_ws_sp, skip_ws_dec, read_nat_dec by reflexivity.
  rewrite skip_ws_sp.
  replace (skip_ws (kw_obj ++ LF :: r)) with (kw_obj ++ LF :: r) by reflexivity.
  rewrite strip_prefix_app. reflexivity.
Qed.

(* ---- values ---- *)
Lemma map_map_str_id (f g : bytes -> bytes) :
  (forall s, g (f s) = s) -> forall o, map_str g (map_str f o) = o.
Proof.
  intros H. fix IH 1. intros o. destruct o; cbn; try reflexivity.
  - rewrite H. reflexivity.
  - f_equal. induction l as [|x l IHl]; cbn; [reflexivity|]. rewrite IH, IHl. reflexivity.
  - f_equal. induction l as [|[k v] l IHl]; cbn; [reflexivity|]. rewrite IH, IHl. reflexivity.
Qed.

Lemma is_null_map_str f o : is_null (map_str f o) = is_null o.
Proof. destruct o; reflexivity. Qed.

Fixpoint mapv (f : bytes -> bytes) (l : dict) : dict :=
  match l with
  | [] => []
  | (k, v) :: r => (k, map_str f v) :: mapv f r
  end.

Lemma mapv_map f l : map (fun kv : bytes * obj => let (k, v) := kv in (k, map_str f v)) l = mapv f l.
Proof. induction l as [|[k v] l IH]; cbn; [reflexivity|]. rewrite IH. reflexivity. Qed.

Lemma dict_insert_mapv f k v l : dict_insert k (map_str f v) (mapv f l) = mapv f (dict_insert k v l).
Proof.
  induction l as [|[k' v'] l IH]; cbn; [reflexivity|].
  destruct (bytes_ltb k k'); [reflexivity|]. destruct (bytes_eqb k k'); [reflexivity|].
  cbn. f_equal. exact IH.
Qed.

Lemma dict_sort_mapv f l : dict_sort (mapv f l) = mapv f (dict_sort l).
Proof.
  induction l as [|[k v] l IH]; cbn; [reflexivity|]. rewrite IH. apply dict_insert_mapv.
Qed.

Lemma filter_mapv f l :
  filter (fun kv => negb (is_null (snd kv))) (mapv f l) = mapv f (filter (fun kv => negb (is_null (snd kv))) l).
Proof.
  induction l as [|[k v] l IH]; cbn; [reflexivity|]. rewrite is_null_map_str.
  destruct (negb (is_null v)); cbn; rewrite IH; reflexivity.
Qed.

Lemma norm_map_str f : forall o, norm (map_str f o) = map_str f (norm o).
Proof.
  fix IH 1. intros o. destruct o; cbn [map_str norm]; try reflexivity.
  - f_equal. induction l as [|x l IHl]; cbn; [reflexivity|]. rewrite IH, IHl. reflexivity.
  - f_equal.
    rewrite !mapv_map.
    rewrite <- dict_sort_mapv, <- filter_mapv. f_equal. f_equal.
    induction l as [|[k v] l IHl]; cbn; [reflexivity|]. rewrite IH, IHl. reflexivity.
Qed.

Lemma firstn_app_all {A} (l m : list A) : firstn (length l) (l ++ m) = l.
Proof. rewrite firstn_app, Nat.sub_diag, firstn_all. cbn. apply app_nil_r. Qed.

Lemma dict_del_map (f : obj -> obj) key d :
  dict_del key (map (fun kv : bytes * obj => let (k, v) := kv in (k, f v)) d) =
  map (fun kv : bytes * obj => let (k, v) := kv in (k, f v)) (dict_del key d).
Proof.
  induction d as [|[k v] l IH]; [reflexivity|]. cbn [map dict_del].
  destruct (bytes_eqb key k); [exact IH|]. cbn [map]. rewrite IH. reflexivity.
Qed.

Section WriteRead.
  Variable fmt : obj -> bytes.
  Variable fmt_sd : dict -> lenrep -> bytes.
  Variable parse : bytes -> option (obj * bytes).
  Variables encS decS encB decB : N -> N -> bytes -> bytes.
  Variable fenc : bytes -> dict -> bytes -> bytes.
  Variable fdec : bytes -> dict -> bytes -> option bytes.
  Variable deflate : bytes -> bytes.
  Variable c : cfg.

  (* the values the object syntax can carry (bytes below 256, real tokens that are reals, distinct
     dictionary keys ...): a predicate of the abstract syntax *)
  Variable wfo : obj -> Prop.
  (* C01: a well-formed object, written after "obj" LF and followed by LF "endobj", reads back as
     its normal form.  (The context matters: "5" LF "0 R" is a reference, so no parser satisfies
     this for every continuation.) *)
  Hypothesis parse_fmt : forall o rest, wfo o ->
      parse (LF :: fmt o ++ LF :: kw_endobj ++ rest) = Some (norm o, LF :: kw_endobj ++ rest).
  (* a stream dictionary with its /Length (direct, padded or a reference), followed by LF "stream",
     reads back as a dictionary whose /Length is that value and whose other entries are the normal form *)
  Hypothesis parse_sd : forall sd lr rest, wfo (ODict sd) -> exists d',
      parse (LF :: fmt_sd sd lr ++ LF :: kw_stream ++ rest) = Some (ODict d', LF :: kw_stream ++ rest) /\
      dict_get k_Length d' = Some (lenval lr) /\
      ODict (dict_del k_Length d') = norm (ODict sd).
  Hypothesis decS_encS : forall n g s, decS n g (encS n g s) = s.

  Notation run := (run fmt fmt_sd encS encB fenc deflate c).
  Notation chunk_of := (chunk_of fmt fmt_sd encS encB fenc c).
  Notation read_at := (read_at parse decS (encrypted c)).
  Notation get := (get parse decS decB fdec (encrypted c)).

  (* the reader's view: the file and the writer's cross-reference map *)
  Definition rs_of (st : state) : rstate :=
    {| rfile := out st; rxref := xref st; rtrailer := []; rversion := cv c; rhdr := 0; rplain := [] |}.

  (* what Get must return for a record *)
  Definition rval_of (n g : N) (v : wval) : rval :=
    match v with
    | VObj o => RObj (norm o)
    | VStream d fs data =>
      RStream (match norm (ODict (stream_dict n g d fs)) with ODict l => l | _ => [] end)
              (stream_raw encB fenc c n g d fs data)
    end.

  (* what was written is well-formed as it was formatted (strings after encryption) *)
  Definition wf_record (n g : N) (v : wval) : Prop :=
    match v with
    | VObj o => wfo (map_str (sc encS c n g) o)
    | VStream d fs data => wfo (ODict (enc_dict encS c n g (stream_dict n g d fs)))
    end.
  Definition wr_wf (st : state) : Prop :=
    forall n g v, wlookup n (wr st) = Some (g, v) -> wf_record n g v.

  Lemma dec_enc_obj n g o :
    map_str (sd decS (encrypted c) false n g) (norm (map_str (sc encS c n g) o)) = norm o.
  Proof.
    rewrite norm_map_str. unfold sd, sc. destruct (encrypted c); cbn.
    - apply map_map_str_id. apply decS_encS.
    - apply map_map_str_id. reflexivity.
  Qed.

  Lemma read_at_obj getint st off n g o rest :
    wfo (map_str (sc encS c n g) o) ->
    skipn (N.to_nat off) (out st) =
      (hdr_of n g ++ fmt (map_str (sc encS c n g) o) ++ k_endobj_nl ++ nl c) ++ rest ->
    read_at getint (rs_of st) off n g = Ok (RObj (norm o)).
  Proof.
    intros Wf H. unfold Reader.read_at, drop. cbn [rs_of rfile rhdr rplain]. rewrite N.add_0_r, H.
    rewrite <- app_assoc, read_header_hdr.
    replace (LF :: (fmt (map_str (sc encS c n g) o) ++ k_endobj_nl ++ nl c) ++ rest)
      with (LF :: fmt (map_str (sc encS c n g) o) ++ LF :: (kw_endobj ++ [LF] ++ nl c ++ rest)).
    2:{ unfold k_endobj_nl. rewrite <- !app_assoc. reflexivity. }
    change (kw_endobj ++ [LF] ++ nl c ++ rest) with (kw_endobj ++ ([LF] ++ nl c ++ rest)).
    rewrite (parse_fmt _ _ Wf). cbn [existsb].
    replace (skip_ws (LF :: kw_endobj ++ [LF] ++ nl c ++ rest)) with (kw_endobj ++ [LF] ++ nl c ++ rest) by reflexivity.
    replace (prefixb kw_stream (kw_endobj ++ [LF] ++ nl c ++ rest)) with false by reflexivity.
    rewrite prefixb_app, !N.eqb_refl. cbn [andb]. rewrite dec_enc_obj. reflexivity.
  Qed.

  Lemma read_at_stream getint st off n g d fs data lr rest :
    let raw := stream_raw encB fenc c n g d fs data in
    wfo (ODict (enc_dict encS c n g (stream_dict n g d fs))) ->
    skipn (N.to_nat off) (out st) =
      stream_chunk fmt_sd c n g (enc_dict encS c n g (stream_dict n g d fs)) lr raw ++ rest ->
    (match lr with
     | LDirect l | LPadded l => l = N.of_nat (length raw)
     | LRef r => getint r 0 = Ok (Z.of_N (N.of_nat (length raw)))
     end) ->
    read_at getint (rs_of st) off n g = Ok (rval_of n g (VStream d fs data)).
  Proof.
    intros raw Wf H Hl. unfold Reader.read_at, drop. cbn [rs_of rfile rhdr rplain]. rewrite N.add_0_r, H.
    unfold stream_chunk. rewrite <- (app_assoc (hdr_of n g)), read_header_hdr.
    set (sdd := enc_dict encS c n g (stream_dict n g d fs)).
    replace (LF :: (fmt_sd sdd lr ++ k_stream_nl ++ raw ++ k_endstream_endobj ++ nl c) ++ rest)
      with (LF :: fmt_sd sdd lr ++ LF :: (kw_stream ++ LF :: raw ++ (LF :: kw_endstream ++ LF :: kw_endobj ++ [LF]) ++ nl c ++ rest)).
    2:{ unfold k_stream_nl, k_endstream_endobj. rewrite <- !app_assoc. reflexivity. }
    destruct (parse_sd sdd lr (LF :: raw ++ (LF :: kw_endstream ++ LF :: kw_endobj ++ [LF]) ++ nl c ++ rest) Wf)
      as [d' [P1 [P2 P3]]].
    rewrite P1. cbn [existsb].
    set (Y := (LF :: kw_endstream ++ LF :: kw_endobj ++ [LF]) ++ nl c ++ rest).
    replace (skip_ws (LF :: kw_stream ++ LF :: raw ++ Y)) with (kw_stream ++ LF :: raw ++ Y) by reflexivity.
    rewrite prefixb_app. cbv zeta.
    assert (Hsk : skipn (length kw_stream) (kw_stream ++ LF :: raw ++ Y) = LF :: raw ++ Y)
      by (rewrite skipn_app, skipn_all, Nat.sub_diag; reflexivity).
    unfold bytes, byte in *. rewrite Hsk.
    change (skip_stream_eol (LF :: raw ++ Y)) with (raw ++ Y). rewrite P2.
    assert (Hext : stream_extent (Some (N.of_nat (length raw))) (raw ++ Y) = Ok raw).
    { unfold stream_extent, drop, take. rewrite Nat2N.id.
      assert (Hle : (N.of_nat (length raw) <=? N.of_nat (length (raw ++ Y))) = true).
      { apply N.leb_le. rewrite app_length. lia. }
      unfold bytes, byte in *. rewrite Hle, skipn_app, skipn_all, Nat.sub_diag. cbn [skipn andb]. change ([] ++ Y) with Y.
      replace (skip_ws Y) with (kw_endstream ++ LF :: kw_endobj ++ [LF] ++ nl c ++ rest).
      2:{ unfold Y. reflexivity. }
      rewrite prefixb_app, firstn_app_all. reflexivity. }
    assert (Hres : Ok (RStream (dict_del k_Length
                (map (fun kv : bytes * obj => let (k, v) := kv in (k, map_str (sd decS (encrypted c) false n g) v)) d')) raw)
              = Ok (rval_of n g (VStream d fs data))).
    { f_equal. cbn [rval_of]. fold raw. f_equal.
      assert (E : ODict (dict_del k_Length
          (map (fun kv : bytes * obj => let (k, v) := kv in (k, map_str (sd decS (encrypted c) false n g) v)) d'))
          = norm (ODict (stream_dict n g d fs))).
      { transitivity (map_str (sd decS (encrypted c) false n g) (ODict (dict_del k_Length d'))).
        - cbn [map_str]. f_equal. apply dict_del_map.
        - rewrite P3. replace (ODict sdd) with (map_str (sc encS c n g) (ODict (stream_dict n g d fs))) by reflexivity.
          apply dec_enc_obj. }
      rewrite <- E. reflexivity. }
    destruct lr as [l|l|r]; cbn [lenval].
    - subst l. replace (0 <=? Z.of_N (N.of_nat (length raw)))%Z with true by (symmetry; apply Z.leb_le; lia).
      rewrite N2Z.id. cbn [bind]. unfold bytes, byte in *. rewrite Hext. cbn [bind]. rewrite !N.eqb_refl. cbn [andb]. exact Hres.
    - subst l. replace (0 <=? Z.of_N (N.of_nat (length raw)))%Z with true by (symmetry; apply Z.leb_le; lia).
      rewrite N2Z.id. cbn [bind]. unfold bytes, byte in *. rewrite Hext. cbn [bind]. rewrite !N.eqb_refl. cbn [andb]. exact Hres.
    - rewrite Hl. replace (0 <=? Z.of_N (N.of_nat (length raw)))%Z with true by (symmetry; apply Z.leb_le; lia).
      rewrite N2Z.id. cbn [bind]. unfold bytes, byte in *. rewrite Hext. cbn [bind]. rewrite !N.eqb_refl. cbn [andb]. exact Hres.
  Qed.

  Notation layout_recorded := (layout_recorded_lemma fmt fmt_sd encS encB fenc deflate c).

  Lemma get_use f rs n g off :
    xlookup n (rxref rs) = Some (EUse off g) ->
    get (S f) rs n g =
    read_at (fun ln lg => match get f rs ln lg with
                          | Ok (RObj (OInt z)) => Ok z
                          | Ok _ => Err Malformed
                          | Err e => Err e
                          end) rs off n g.
  Proof. intros H. cbn [Reader.get]. rewrite H, N.eqb_refl. reflexivity. Qed.

  (* Get of a reference the writer never used, freed, or used under another generation *)
  Lemma get_null_lemma st f n g :
    (match xlookup n (xref st) with
     | None | Some (EFree _) => True
     | Some (EUse _ g') => g' <> g
     | Some (EComp _ _) => g <> 0
     end) ->
    get (S f) (rs_of st) n g = Ok RNull.
  Proof.
    intros H. cbn [Reader.get rs_of rxref]. destruct (xlookup n (xref st)) as [[g'|off g'|sn i]|]; try reflexivity.
    - destruct (g' =? g) eqn:E; [apply N.eqb_eq in E; contradiction | reflexivity].
    - destruct (g =? 0) eqn:E; [apply N.eqb_eq in E; contradiction | reflexivity].
  Qed.

  Lemma get_int_written_f f ops st r len :
    run ops = Ok st -> strm st = None -> wr_wf st -> written_int st r len ->
    get (S f) (rs_of st) r 0 = Ok (RObj (OInt (Z.of_N len))).
  Proof.
    intros H Hs WF [off [Hx Hw]].
    destruct (layout_recorded ops st H Hs r off 0 _ Hx Hw) as [v [ch [rest [W [Sk C]]]]].
    rewrite Hw in W. injection W as <-. unfold LayoutProofs.chunk_of in C. subst ch.
    rewrite (get_use f (rs_of st) r 0 off Hx).
    rewrite (read_at_obj _ st off r 0 (OInt (Z.of_N len)) rest (WF _ _ _ Hw) Sk). reflexivity.
  Qed.

  (* Get of a reference with a record returns the record (any fuel from 2) *)
  Lemma get_written_f f ops st :
    run ops = Ok st -> strm st = None -> wr_wf st ->
    forall n off g v, xlookup n (xref st) = Some (EUse off g) -> wlookup n (wr st) = Some (g, v) ->
      get (S (S f)) (rs_of st) n g = Ok (rval_of n g v).
  Proof.
    intros H Hs WF n off g v Hx Hw.
    destruct (layout_recorded ops st H Hs n off g _ Hx Hw) as [v' [ch [rest [W [Sk C]]]]].
    rewrite Hw in W. injection W as <-. pose proof (WF _ _ _ Hw) as Wv.
    rewrite (get_use (S f) (rs_of st) n g off Hx).
    destruct v as [o|d fs data]; unfold LayoutProofs.chunk_of in C.
    - subst ch. rewrite (read_at_obj _ st off n g o rest Wv Sk). reflexivity.
    - cbv zeta in C. destruct C as [lr [-> L]]. eapply read_at_stream; [exact Wv | exact Sk|].
      destruct lr as [l|l|r]; unfold len_ok in L; auto.
      destruct L as [[]|L].
      rewrite (get_int_written_f f ops st r _ H Hs WF L). reflexivity.
  Qed.

  Lemma get_int_written ops st r len :
    run ops = Ok st -> strm st = None -> wr_wf st -> written_int st r len ->
    get 1 (rs_of st) r 0 = Ok (RObj (OInt (Z.of_N len))).
  Proof. apply (get_int_written_f 0). Qed.

  Lemma get_written_lemma ops st :
    run ops = Ok st -> strm st = None -> wr_wf st ->
    forall n off g v, xlookup n (xref st) = Some (EUse off g) -> wlookup n (wr st) = Some (g, v) ->
      get 2 (rs_of st) n g = Ok (rval_of n g v).
  Proof. apply (get_written_f 0). Qed.

  Lemma same_value_two_numbers_lemma ops st o n1 off1 g1 n2 off2 g2 :
    run ops = Ok st -> strm st = None -> wr_wf st ->
    xlookup n1 (xref st) = Some (EUse off1 g1) -> wlookup n1 (wr st) = Some (g1, VObj o) ->
    xlookup n2 (xref st) = Some (EUse off2 g2) -> wlookup n2 (wr st) = Some (g2, VObj o) ->
    get 2 (rs_of st) n1 g1 = Ok (RObj (norm o)) /\ get 2 (rs_of st) n2 g2 = Ok (RObj (norm o)).
  Proof.
    intros H Hs WF X1 W1 X2 W2. split.
    - exact (get_written_lemma ops st H Hs WF n1 off1 g1 (VObj o) X1 W1).
    - exact (get_written_lemma ops st H Hs WF n2 off2 g2 (VObj o) X2 W2).
  Qed.
End WriteRead.
