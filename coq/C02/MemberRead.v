(* C02: the model reader finds the members of object streams the model writer wrote. *)
From Coq Require Import List NArith ZArith Bool Lia.
From GoPdf.Base Require Import Bytes Res.
From GoPdf.Gen Require Import Gen_Consts.
From GoPdf.C02 Require Import Obj Dec Syntax Writer Reader WriterProofs LayoutProofs ReaderProofs
  MoreProofs ChainProofs ObjStmProofs.
Import ListNotations.
Open Scope N_scope.

(* ---- the "num offset" table ---- *)

Lemma skip_ws_lf s : skip_ws (LF :: s) = skip_ws s.
Proof. reflexivity. Qed.

(* members are separated by LF *)
Fixpoint join (ps : list bytes) : bytes :=
  match ps with
  | [] => []
  | p :: ps' => match ps' with [] => p | _ => p ++ LF :: join ps' end
  end.

Lemma parts_body rs : forall parts off head body,
  objstm_parts rs parts off = (head, body) -> length rs = length parts -> body = join parts.
Proof.
  induction rs as [|[n g] rs IH]; intros parts off head body H L.
  - destruct parts; [|discriminate]. cbn in H. injection H as <- <-. reflexivity.
  - destruct parts as [|p ps]; [discriminate|]. cbn in L. injection L as L. cbn [objstm_parts] in H.
    destruct (objstm_parts rs ps _) as [h b] eqn:E. injection H as <- <-.
    rewrite (IH _ _ _ _ E L). destruct ps; [cbn; apply app_nil_r|]. cbn [join]. rewrite <- app_assoc. reflexivity.
Qed.

(* the text produced by objstm_parts: what read_pairs makes of the table, and where member k starts *)
Lemma parts_spec rs : forall parts off head body,
  objstm_parts rs parts off = (head, body) -> length rs = length parts ->
  exists pairs pre,
    (forall rest, read_pairs (length rs) (head ++ rest) = Some (pairs, pre ++ rest)) /\
    (length pre <= 1)%nat /\ (length pre <= length head)%nat /\
    (forall k n, nth_error (map fst rs) k = Some n -> NoDup (map fst rs) ->
       exists offk p tail,
         find_pair n pairs = Some offk /\ nth_error parts k = Some p /\ off <= offk /\
         skipn (N.to_nat (offk - off)) body = p ++ tail /\
         tail = match skipn (S k) parts with [] => [] | ps' => LF :: join ps' end).
Proof.
  induction rs as [|[n g] rs IH]; intros parts off head body H L.
  - destruct parts; [|discriminate]. cbn in H. injection H as <- <-.
    exists [], []. split; [intros rest; reflexivity|]. split; [cbn; lia|]. split; [cbn; lia|].
    intros k m Hk. destruct k; discriminate.
  - destruct parts as [|p ps]; [discriminate|]. cbn in L. injection L as L.
    cbn [objstm_parts] in H.
    set (bodyp := match ps with [] => p | _ :: _ => p ++ [LF] end) in *.
    destruct (objstm_parts rs ps (off + N.of_nat (length bodyp))) as [h b] eqn:E.
    injection H as <- <-.
    destruct (IH _ _ _ _ E L) as [pairs [pre [RP [Lp [Lph M]]]]].
    exists ((n, off) :: pairs), (match rs with [] => [LF] | _ => pre end).
    split.
    { intros rest. cbn [length read_pairs].
      replace ((dec n ++ SP :: dec off ++ LF :: h) ++ rest) with (dec n ++ SP :: dec off ++ LF :: h ++ rest).
      2:{ rewrite <- !app_assoc. cbn. rewrite <- !app_assoc. reflexivity. }
      rewrite skip_ws_dec, read_nat_dec by reflexivity.
      rewrite skip_ws_sp, skip_ws_dec, read_nat_dec by reflexivity.
      destruct rs as [|r0 rs'].
      - cbn [length read_pairs]. destruct ps; [|discriminate]. cbn in E. injection E as <- <-.
        pose proof (RP []) as R0. cbn in R0. injection R0 as <- _. reflexivity.
      - specialize (RP rest).
        assert (RP' : read_pairs (length (r0 :: rs')) (LF :: h ++ rest) = Some (pairs, pre ++ rest)).
        { cbn [length read_pairs] in RP |- *. rewrite skip_ws_lf. exact RP. }
        rewrite RP'. reflexivity. }
    split; [destruct rs; cbn; lia|].
    split.
    { destruct rs; rewrite !app_length; cbn; rewrite ?app_length; cbn; lia. }
    intros k m Hk ND. inversion ND as [|? ? Hnin ND']; subst.
    destruct k as [|k]; cbn in Hk.
    + injection Hk as <-. exists off, p, (match ps with [] => [] | _ => LF :: b end).
      cbn [find_pair]. rewrite N.eqb_refl. split; [reflexivity|]. split; [reflexivity|]. split; [lia|].
      split.
      * rewrite N.sub_diag. cbn [N.to_nat skipn]. unfold bodyp. destruct ps.
        -- destruct rs; [|discriminate]. cbn in E. injection E as <- <-. reflexivity.
        -- rewrite <- app_assoc. reflexivity.
      * cbn [skipn]. destruct ps as [|p1 ps1]; [reflexivity|].
        rewrite (parts_body _ _ _ _ _ E L). reflexivity.
    + destruct (M k m Hk ND') as [offk [p' [tail [F1 [F2 [F3 [F4 F5]]]]]]].
      exists offk, p', tail. cbn [find_pair].
      destruct (n =? m) eqn:Enm.
      { apply N.eqb_eq in Enm. subst m. exfalso. apply Hnin. eapply nth_error_In; eassumption. }
      split; [exact F1|]. split; [exact F2|]. split; [lia|]. split; [|exact F5].
      replace (N.to_nat (offk - off)) with (length bodyp + N.to_nat (offk - (off + N.of_nat (length bodyp))))%nat by lia.
      rewrite skipn_app, skipn_all2 by lia. cbn [app].
      replace (length bodyp + N.to_nat (offk - (off + N.of_nat (length bodyp))) - length bodyp)%nat
        with (N.to_nat (offk - (off + N.of_nat (length bodyp)))) by lia.
      exact F4.
Qed.

Lemma objstm_sdict a b sn :
  let sd := dict_of (norm (ODict (stream_dict sn 0 (objstm_dict a b) [flate_filt]))) in
  dict_get k_N sd = Some (OInt (Z.of_nat a)) /\ dict_get k_First sd = Some (OInt (Z.of_nat b)).
Proof. split; reflexivity. Qed.

Section MemberRead.
  Variable fmt : obj -> bytes.
  Variable fmt_sd : dict -> lenrep -> bytes.
  Variable parse : bytes -> option (obj * bytes).
  Variables encS decS encB decB : N -> N -> bytes -> bytes.
  Variable fenc : bytes -> dict -> bytes -> bytes.
  Variable fdec : bytes -> dict -> bytes -> option bytes.
  Variable deflate : bytes -> bytes.
  Variable c : cfg.

  Variable wfo : obj -> Prop.
  Hypothesis parse_fmt : forall o rest, wfo o ->
      parse (LF :: fmt o ++ LF :: kw_endobj ++ rest) = Some (norm o, LF :: kw_endobj ++ rest).
  Hypothesis parse_sd : forall sd lr rest, wfo (ODict sd) -> exists d',
      parse (LF :: fmt_sd sd lr ++ LF :: kw_stream ++ rest) = Some (ODict d', LF :: kw_stream ++ rest) /\
      dict_get k_Length d' = Some (lenval lr) /\
      ODict (dict_del k_Length d') = norm (ODict sd).
  (* inside an object stream a value is followed by the end of the data or by LF and the next
     members (what follows matters: "5" LF "0" LF "R..." would be a reference, but no value starts with R) *)
  Hypothesis parse_member : forall o os,
      wfo o -> Forall wfo os ->
      exists r', parse (fmt o ++ match os with [] => [] | _ => LF :: join (map fmt os) end) = Some (norm o, r').
  Hypothesis decS_encS : forall n g s, decS n g (encS n g s) = s.
  Hypothesis decB_encB : forall n g s, decB n g (encB n g s) = s.
  Hypothesis fdec_fenc : forall name p x, fdec name (norm_parms p) (fenc name p x) = Some x.

  Notation run := (run fmt fmt_sd encS encB fenc deflate c).
  Notation get := (get parse decS decB fdec (encrypted c)).
  Notation rs_of := (rs_of c).

  Lemma get_comp f rs n sn i :
    xlookup n (rxref rs) = Some (EComp sn i) ->
    get (S f) rs n 0 =
    from_objstm parse decB fdec (encrypted c)
      (match xlookup sn (rxref rs) with
       | Some (EUse off 0) =>
         read_at parse decS (encrypted c)
           (fun ln lg => match get f rs ln lg with
                         | Ok (RObj (OInt z)) => Ok z
                         | Ok _ => Err Malformed
                         | Err e => Err e
                         end) rs off sn 0
       | _ => Err Malformed
       end) rs sn n.
  Proof. intros H. cbn [Reader.get]. rewrite H. reflexivity. Qed.

  (* the Reader accepts at most 10000 members per object stream *)
  Definition members_bound (st : state) : Prop :=
    forall s g d fs data nn, wlookup s (wr st) = Some (g, VStream d fs data) ->
      dict_get k_N d = Some (OInt nn) -> (nn <= 10000)%Z.

  (* the plain (unencrypted) form of every recorded object is well-formed: members of object streams
     are written without string encryption *)
  Definition plain_wf (st : state) : Prop :=
    forall n g o, wlookup n (wr st) = Some (g, VObj o) -> wfo o.

  Lemma get_member_lemma f ops st :
    run ops = Ok st -> strm st = None -> members_bound st ->
    wr_wf encS c wfo st -> plain_wf st ->
    forall n s i, xlookup n (xref st) = Some (EComp s i) ->
      exists o, wlookup n (wr st) = Some (0, VObj o) /\
                get (S (S (S f))) (rs_of st) n 0 = Ok (RObj (norm o)).
  Proof.
    intros H Hs MB WF PW n s i Hn.
    destruct (members_lemma fmt fmt_sd encS encB fenc deflate c ops st H n s i Hn)
      as [rs [os [head [body [off [A [B [C [D [E [F M0]]]]]]]]]]].
    destruct (M0 _ _ F) as [o [Ho Hw]].
    exists (pobj_obj o). split; [exact Hw|].
    rewrite (get_comp (S (S f)) (rs_of st) n s i Hn). cbn [rs_of rxref ReaderProofs.rs_of]. rewrite A.
    (* the container *)
    pose proof (get_written_f fmt fmt_sd parse encS decS encB decB fenc fdec deflate c
                  wfo parse_fmt parse_sd decS_encS (S f) ops st H Hs WF s off 0 _ A B) as G.
    rewrite (get_use parse decS decB fdec c (S (S f)) (rs_of st) s 0 off A) in G.
    change ({| rfile := out st; rxref := xref st; rtrailer := []; rversion := cv c; rhdr := 0; rplain := [] |})
      with (rs_of st).
    rewrite G. clear G.
    unfold from_objstm. cbn [bind rval_of].
    destruct (objstm_sdict (length os) (length head) s) as [GN GF]. cbv zeta in GN, GF.
    unfold dict_of in GN, GF.
    rewrite GN, GF.
    pose proof (stream_data_roundtrip fenc fdec fdec_fenc encB decB c (encrypted c) (rs_of st) s 0
               (objstm_dict (length os) (length head)) [flate_filt] (head ++ body) decB_encB eq_refl
               eq_refl eq_refl) as SD.
    unfold dict_of in SD. rewrite SD.
    2:{ intros x [<-|[]]. reflexivity. }
    2:{ reflexivity. }
    assert (Hb : (Z.of_nat (length os) <= 10000)%Z).
    { eapply MB; [exact B | reflexivity]. }
    replace (Z.of_nat (length os) <? 0)%Z with false by (symmetry; apply Z.ltb_ge; lia).
    replace (10000 <? Z.of_nat (length os))%Z with false by (symmetry; apply Z.ltb_ge; lia).
    cbn [orb]. rewrite Nat2Z.id, <- D.
    assert (Lp : length rs = length (map (fun o0 : pobj => fmt (pobj_obj o0)) os)) by (rewrite map_length; exact D).
    destruct (parts_spec rs _ 0 head body C Lp) as [pairs [pre [RP [L1 [L2 M]]]]].
    rewrite (RP body).
    assert (Hh : (Z.of_nat (length head) <? Z.of_N (N.of_nat (length (head ++ body) - length (pre ++ body))))%Z = false).
    { apply Z.ltb_ge. rewrite !app_length. lia. }
    rewrite Hh.
    destruct (M (N.to_nat i) n F E) as [offk [p [tail [F1 [F2 [F3 [F4 F5]]]]]]].
    rewrite F1.
    assert (Hp : p = fmt (pobj_obj o)).
    { rewrite nth_error_map, Ho in F2. cbn in F2. congruence. }
    assert (Hd : drop (Z.to_N (Z.of_nat (length head)) + offk) (head ++ body) = p ++ tail).
    { unfold drop. rewrite N.sub_0_r in F4. rewrite <- F4.
      replace (N.to_nat (Z.to_N (Z.of_nat (length head)) + offk)) with (length head + N.to_nat offk)%nat by lia.
      rewrite skipn_app, skipn_all2 by lia. cbn [app]. f_equal. lia. }
    (* the members that follow are well-formed values of the batch *)
    assert (Wall : Forall wfo (map pobj_obj os)).
    { apply Forall_forall. intros x Hx. apply in_map_iff in Hx as [po [<- Hin]].
      apply In_nth_error in Hin as [k Hk].
      assert (Hr : exists m, nth_error (map fst rs) k = Some m).
      { destruct (nth_error (map fst rs) k) eqn:E1; [eauto|]. apply nth_error_None in E1.
        rewrite map_length, D in E1. exfalso.
        assert (Hlt : (k < length os)%nat) by (apply nth_error_Some; congruence). lia. }
      destruct Hr as [m Hm]. destruct (M0 _ _ Hm) as [o' [Ho' Hw']]. rewrite Hk in Ho'. injection Ho' as <-.
      eapply PW. exact Hw'. }
    rewrite Hd, Hp.
    assert (Htail : tail = match skipn (S (N.to_nat i)) (map pobj_obj os) with
                           | [] => [] | _ => LF :: join (map fmt (skipn (S (N.to_nat i)) (map pobj_obj os))) end).
    { rewrite F5. rewrite <- (map_map pobj_obj fmt), skipn_map.
      destruct (skipn (S (N.to_nat i)) (map pobj_obj os)); reflexivity. }
    rewrite Htail.
    assert (Wo : wfo (pobj_obj o)) by (eapply PW; exact Hw).
    assert (Wrest : Forall wfo (skipn (S (N.to_nat i)) (map pobj_obj os))).
    { apply Forall_forall. intros x Hx. rewrite Forall_forall in Wall. apply Wall.
      rewrite <- (firstn_skipn (S (N.to_nat i)) (map pobj_obj os)). apply in_or_app. right. exact Hx. }
    destruct (parse_member (pobj_obj o) _ Wo Wrest) as [r' Hr]. rewrite Hr. reflexivity.
  Qed.
End MemberRead.
