(* Decimal text of natural numbers and integers, through the standard
   library's [Decimal.uint] so that the round trip is the library's. *)
From Coq Require Import List NArith ZArith Bool Decimal DecimalN.
From GoPdf.Base Require Import Bytes.
Import ListNotations.
Open Scope N_scope.

Fixpoint uint_bytes (u : Decimal.uint) : bytes :=
  match u with
  | Nil => []
  | D0 u => 48 :: uint_bytes u
  | D1 u => 49 :: uint_bytes u
  | D2 u => 50 :: uint_bytes u
  | D3 u => 51 :: uint_bytes u
  | D4 u => 52 :: uint_bytes u
  | D5 u => 53 :: uint_bytes u
  | D6 u => 54 :: uint_bytes u
  | D7 u => 55 :: uint_bytes u
  | D8 u => 56 :: uint_bytes u
  | D9 u => 57 :: uint_bytes u
  end.

(* strconv.Itoa / %d for a natural number *)
Definition dec (n : N) : bytes := uint_bytes (N.to_uint n).

Definition is_digit (b : byte) : bool := (48 <=? b) && (b <=? 57).

(* the longest prefix of digits, as a [uint], and what follows it *)
Fixpoint read_digits (s : bytes) : Decimal.uint * bytes :=
  match s with
  | [] => (Nil, [])
  | b :: r =>
    if is_digit b then
      let '(u, rest) := read_digits r in
      ((match b with
        | 48 => D0 | 49 => D1 | 50 => D2 | 51 => D3 | 52 => D4
        | 53 => D5 | 54 => D6 | 55 => D7 | 56 => D8 | _ => D9
        end) u, rest)
    else (Nil, s)
  end.

(* an unsigned decimal number at the start of [s]: at least one digit *)
Definition read_nat (s : bytes) : option (N * bytes) :=
  match read_digits s with
  | (Nil, _) => None
  | (u, rest) => Some (N.of_uint u, rest)
  end.

(* number of digits at the start of s *)
Fixpoint count_digits (s : bytes) : nat :=
  match s with
  | b :: r => if is_digit b then S (count_digits r) else O
  | [] => O
  end.

(* %0<w>d *)
Definition pad0 (w : nat) (s : bytes) : bytes := repeat 48 (w - length s) ++ s.

(* signed integers: strconv.FormatInt *)
Definition dec_z (z : Z) : bytes :=
  match z with
  | Z0 => [48]
  | Zpos p => dec (Npos p)
  | Zneg p => 45 :: dec (Npos p)
  end.
