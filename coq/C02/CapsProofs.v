(* C02: what the writer accepts is within the reader's limits.

   [accepts] (Writer.v) refuses, like the formatter of the code, strings of maxStringBytes or more,
   names of maxNameBytes or more, arrays of more than maxArrayLen elements, dictionaries of more
   than maxDictLen entries, containers nested maxScannerNestDepth deep, reals that are no numbers
   and references to object numbers from maxXRefSize on.  Proved here: every object and every
   stream dictionary an accepted history has written satisfies [caps_ok] - in the form it was
   written (strings encrypted) or, for the members of object streams, the catalog and the info
   dictionary, as given.  These are exactly the limits of the scanner (scanner.go), i.e. of any
   parser that can stand for it in the hypotheses of write_read: with one check dropped from
   [accepts] this theorem is no longer provable. *)
From Coq Require Import List NArith ZArith Bool Lia.
From GoPdf.Base Require Import Bytes Res.
From GoPdf.Gen Require Import Gen_Consts.
From GoPdf.C02 Require Import Obj Dec Syntax Writer WriterProofs.
Import ListNotations.
Open Scope N_scope.

Section Caps.
  Variable fmt : obj -> bytes.
  Variable fmt_sd : dict -> lenrep -> bytes.
  Variable encS : N -> N -> bytes -> bytes.
  Variable encB : N -> N -> bytes -> bytes.
  Variable fenc : bytes -> dict -> bytes -> bytes.
  Variable deflate : bytes -> bytes.
  Variable c : cfg.

  Notation step := (step fmt fmt_sd encS encB fenc deflate c).
  Notation step0 := (step0 fmt fmt_sd encS encB fenc deflate c).
  Notation run_from := (run_from fmt fmt_sd encS encB fenc deflate c).
  Notation run := (run fmt fmt_sd encS encB fenc deflate c).
  Notation put_obj := (put_obj fmt encS c).
  Notation put := (put fmt fmt_sd encS encB fenc c).
  Notation put_all := (put_all fmt fmt_sd encS encB fenc c).
  Notation finish_stream := (finish_stream fmt_sd encS encB fenc c).
  Notation close_stream := (close_stream fmt fmt_sd encS encB fenc c).
  Notation flush_after := (flush_after fmt fmt_sd encS encB fenc c).
  Notation flush_objs := (flush_objs fmt encS c).
  Notation accepts_pobj := (accepts_pobj encS c).
  Notation accepts_deferred := (accepts_deferred encS c).
  Notation accepts_members := (accepts_members encS c).
  Notation wsd := (written_stream_dict encS c).

  Definition caps_record (e : N * N * wval) : Prop :=
    match e with
    | (n, g, VObj o) => caps_ok 0 (map_str (sc encS c n g) o) = true \/ caps_ok 0 o = true
    | (n, g, VStream d fs _) => caps_ok 0 (wsd n g d fs) = true
    end.

  Definition W (st : state) : Prop := Forall caps_record (wr st).
  Definition A (st : state) : Prop := accepts_deferred (after st) = true.

  Lemma W_record n g v st : W st -> caps_record (n, g, v) -> W (record n g v st).
  Proof. intros H1 H2. unfold W. cbn. apply Forall_app. split; [exact H1 | repeat constructor; exact H2]. Qed.

  Lemma alloc_same st r st' : alloc st = Ok (r, st') ->
    wr st' = wr st /\ after st' = after st /\ strm st' = strm st.
  Proof.
    unfold alloc. destruct (_ >=? _)%Z; [discriminate|]. intros H; injection H as <- <-. cbn. auto.
  Qed.

  Lemma set_xref_same n e st st' : set_xref n e st = Ok st' ->
    wr st' = wr st /\ after st' = after st /\ strm st' = strm st.
  Proof.
    unfold set_xref. destruct (xlookup n (xref st)); [discriminate|]. intros H; injection H as <-. cbn. auto.
  Qed.

  Lemma put_obj_W n g o st st' :
    put_obj n g o st = Ok st' -> W st ->
    caps_ok 0 (map_str (sc encS c n g) o) = true \/ caps_ok 0 o = true ->
    W st' /\ after st' = after st /\ strm st' = strm st.
  Proof.
    unfold Writer.put_obj. intros H HW Hc. binv H. injection Hk as <-.
    destruct (set_xref_same _ _ _ _ Hb) as (E1 & E2 & E3).
    split; [|cbn; auto].
    apply W_record; [|exact Hc]. unfold W. cbn. rewrite E1. exact HW.
  Qed.

  Lemma open_stream_none n g d fs st st' : open_stream n g d fs st = Ok st' -> strm st = None.
  Proof. unfold open_stream. destruct (strm st); [discriminate | reflexivity]. Qed.

  Lemma open_stream_same n g d fs st st' : open_stream n g d fs st = Ok st' ->
    wr st' = wr st /\ after st' = after st /\
    exists s, strm st' = Some s /\ s_num s = n /\ s_gen s = g /\ s_dict s = d /\ s_fs s = fs.
  Proof.
    unfold open_stream. destruct (strm st); [discriminate|]. intros H. binv H.
    destruct (set_xref_same _ _ _ _ Hb) as (E1 & E2 & E3).
    destruct (dict_get k_Length d) as [[]|]; try discriminate; injection Hk as <-; cbn;
      (split; [exact E1|]; split; [exact E2|]; eexists; split; [reflexivity|]; cbn; auto).
  Qed.

  Lemma start_stream_same s st s' st' : start_stream c s st = Ok (s', st') ->
    wr st' = wr st /\ after st' = after st /\
    s_num s' = s_num s /\ s_gen s' = s_gen s /\ s_dict s' = s_dict s /\ s_fs s' = s_fs s.
  Proof.
    unfold start_stream. destruct (s_started s); [intros H; injection H as <- <-; auto 10|].
    destruct (dict_get k_Length (s_dict s)); [intros H; injection H as <- <-; cbn; auto 10|].
    destruct (cseek c); [intros H; injection H as <- <-; cbn; auto 10|].
    intros H. binv H. destruct a as [r st1]. injection Hk as <- <-.
    destruct (alloc_same _ _ _ Hb) as (E1 & E2 & _). cbn. auto 10.
  Qed.

  Lemma write_stream_same bs b st st' : write_stream c bs b st = Ok st' ->
    wr st' = wr st /\ after st' = after st /\
    exists s s', strm st = Some s /\ strm st' = Some s' /\
      s_num s' = s_num s /\ s_gen s' = s_gen s /\ s_dict s' = s_dict s /\ s_fs s' = s_fs s.
  Proof.
    unfold write_stream. destruct (strm st) as [s|] eqn:Es; [|discriminate]. cbv zeta.
    destruct (_ && _); [discriminate|].
    destruct (_ || _).
    - intros H. binv H. destruct a as [s2 st1]. injection Hk as <-.
      destruct (start_stream_same _ _ _ _ Hb) as (E1 & E2 & E3 & E4 & E5 & E6). cbn in *.
      split; [exact E1|]. split; [exact E2|]. exists s, s2. auto 10.
    - intros H. injection H as <-. cbn. split; [reflexivity|]. split; [reflexivity|].
      eexists s, _. split; [reflexivity|]. split; [reflexivity|]. cbn. auto.
  Qed.

  Definition int_entry (e : N * N * pobj) : Prop := exists r z, e = (r, 0, PObj (OInt z)).

  Lemma finish_stream_W big st st' s0 :
    finish_stream big st = Ok st' -> strm st = Some s0 -> W st ->
    caps_ok 0 (wsd (s_num s0) (s_gen s0) (s_dict s0) (s_fs s0)) = true ->
    W st' /\ strm st' = None /\
    (after st' = after st \/ exists e, int_entry e /\ after st' = after st ++ [e]).
  Proof.
    unfold Writer.finish_stream. intros H Hs HW Hc. rewrite Hs in H. cbv zeta in H.
    binv H. destruct a as [s st1].
    assert (E : wr st1 = wr st /\ after st1 = after st /\
                s_num s = s_num s0 /\ s_gen s = s_gen s0 /\ s_dict s = s_dict s0 /\ s_fs s = s_fs s0).
    { destruct (if is_plain c s0 then _ else _).
      - eapply start_stream_same; eassumption.
      - injection Hb as <- <-. auto 10. }
    destruct E as (E1 & E2 & E3 & E4 & E5 & E6).
    assert (HW1 : W st1) by (unfold W; rewrite E1; exact HW).
    assert (Hrec : caps_record (s_num s0, s_gen s0, VStream (s_dict s) (s_fs s) (s_buf s))).
    { cbn. rewrite E5, E6. exact Hc. }
    destruct (Bool.eqb _ _); [|discriminate].
    destruct (dict_get k_Length (s_dict s)) as [[]|]; try discriminate.
    - destruct (_ =? _)%Z; [|discriminate]. injection Hk as <-.
      split; [apply W_record; [exact HW1 | exact Hrec]|]. cbn. auto.
    - destruct (s_started s).
      + destruct (s_lenref s) as [r|].
        * injection Hk as <-. split; [apply W_record; [exact HW1 | exact Hrec]|]. cbn.
          split; [reflexivity|]. right. eexists. split; [eexists _, _; reflexivity|]. rewrite E2. reflexivity.
        * destruct (cseek c); [|discriminate]. injection Hk as <-.
          split; [apply W_record; [exact HW1 | exact Hrec]|]. cbn. auto.
      + injection Hk as <-. split; [apply W_record; [exact HW1 | exact Hrec]|]. cbn. auto.
  Qed.

  Lemma accepts_deferred_app l m :
    accepts_deferred (l ++ m) = accepts_deferred l && accepts_deferred m.
  Proof. unfold Writer.accepts_deferred. apply forallb_app. Qed.

  Lemma int_entry_accepted e : int_entry e -> accepts_deferred [e] = true.
  Proof. intros (r & z & ->). reflexivity. Qed.

  Lemma flush_objs_W l : forall st st',
    flush_objs l st = Ok st' -> W st -> accepts_deferred l = true ->
    W st' /\ after st' = [] /\ strm st' = strm st.
  Proof.
    induction l as [|[[n g] o] l IH]; intros st st' H HW Ha; cbn [Writer.flush_objs] in H.
    - injection H as <-. cbn. auto.
    - destruct o as [o|]; [|discriminate]. binv H.
      cbn [Writer.accepts_deferred forallb] in Ha. apply andb_true_iff in Ha as [Ha1 Ha2].
      destruct (put_obj_W _ _ _ _ _ Hb HW (or_introl Ha1)) as (W1 & _ & S1).
      destruct (IH _ _ Hk W1 Ha2) as (W2 & A2 & S2). rewrite S1 in S2. auto.
  Qed.

  Lemma put_stream_now_same n g d data st st' : put_stream_now n g d data st = Ok st' ->
    wr st' = wr st /\ after st' = after st /\
    exists s, strm st' = Some s /\ s_num s = n /\ s_gen s = g /\ s_dict s = d /\ s_fs s = [].
  Proof.
    unfold put_stream_now. intros H. binv H.
    destruct (open_stream_same _ _ _ _ _ _ Hb) as (E1 & E2 & s & Es & F1 & F2 & F3 & F4).
    rewrite Es in Hk. injection Hk as <-. cbn. split; [exact E1|]. split; [exact E2|].
    eexists. split; [reflexivity|]. cbn. auto.
  Qed.

  Lemma flush_after_W l : forall st st',
    flush_after l st = Ok st' -> W st -> A st -> accepts_deferred l = true ->
    W st' /\ A st'.
  Proof.
    induction l as [|[[n g] o] l IH]; intros st st' H HW HA Ha; cbn [Writer.flush_after] in H.
    - injection H as <-. auto.
    - cbn [Writer.accepts_deferred forallb] in Ha. apply andb_true_iff in Ha as [Ha1 Ha2].
      destruct o as [o|d data big].
      + binv H. destruct (put_obj_W _ _ _ _ _ Hb HW (or_introl Ha1)) as (W1 & A1 & _).
        apply (IH _ _ Hk W1); [unfold A; rewrite A1; exact HA | exact Ha2].
      + binv H. binv Hk. binv Hk0.
        destruct (put_stream_now_same _ _ _ _ _ _ Hb) as (E1 & E2 & s & Es & F1 & F2 & F3 & F4).
        assert (W1 : W a) by (unfold W; rewrite E1; exact HW).
        assert (Hc : caps_ok 0 (wsd (s_num s) (s_gen s) (s_dict s) (s_fs s)) = true)
          by (rewrite F1, F2, F3, F4; exact Ha1).
        destruct (finish_stream_W _ _ _ _ Hb0 Es W1 Hc) as (W2 & S2 & Aft).
        assert (A2 : accepts_deferred (after a0) = true).
        { destruct Aft as [->|(e & Ie & ->)].
          - rewrite E2. exact HA.
          - rewrite accepts_deferred_app, E2. unfold A in HA. rewrite HA. apply int_entry_accepted, Ie. }
        destruct (flush_objs_W _ _ _ Hb1 W2 A2) as (W3 & A3 & _).
        apply (IH _ _ Hk W3); [unfold A; rewrite A3; reflexivity | exact Ha2].
  Qed.

  Lemma close_stream_W big st st' s0 :
    close_stream big st = Ok st' -> strm st = Some s0 -> W st ->
    caps_ok 0 (wsd (s_num s0) (s_gen s0) (s_dict s0) (s_fs s0)) = true ->
    accepts_deferred (after st) = true ->
    W st' /\ A st'.
  Proof.
    unfold Writer.close_stream. intros H Hs HW Hc Ha. binv H.
    destruct (finish_stream_W _ _ _ _ Hb Hs HW Hc) as (W1 & S1 & Aft).
    assert (A1 : accepts_deferred (after a) = true).
    { destruct Aft as [->|(e & Ie & ->)]; [exact Ha|].
      rewrite accepts_deferred_app, Ha. apply int_entry_accepted, Ie. }
    apply (flush_after_W _ _ _ Hk); [exact W1 | reflexivity | exact A1].
  Qed.

  (* the invariant of a history: everything recorded is within the limits, and so is what waits
     behind a stream that has been closed *)
  Definition G (st : state) : Prop := W st /\ (strm st = None -> A st).

  Lemma put_G n g o big st st' :
    put n g o big st = Ok st' -> G st ->
    (strm st = None -> accepts_pobj n g o = true) -> G st'.
  Proof.
    unfold Writer.put. intros H [HW HA] Hacc. destruct (strm st) as [s|] eqn:Es.
    - injection H as <-. split; [exact HW|]. cbn. rewrite Es. discriminate.
    - specialize (HA eq_refl). specialize (Hacc eq_refl). destruct o as [o|d data b].
      + destruct (put_obj_W _ _ _ _ _ H HW (or_introl Hacc)) as (W1 & A1 & S1).
        split; [exact W1|]. intros _. unfold A. rewrite A1. exact HA.
      + binv H.
        destruct (put_stream_now_same _ _ _ _ _ _ Hb) as (E1 & E2 & s & Es' & F1 & F2 & F3 & F4).
        assert (W1 : W a) by (unfold W; rewrite E1; exact HW).
        assert (Hc : caps_ok 0 (wsd (s_num s) (s_gen s) (s_dict s) (s_fs s)) = true)
          by (rewrite F1, F2, F3, F4; exact Hacc).
        assert (A1 : accepts_deferred (after a) = true) by (rewrite E2; exact HA).
        destruct (close_stream_W _ _ _ _ Hk Es' W1 Hc A1) as (W2 & A2). split; [exact W2 | intros _; exact A2].
  Qed.

  Lemma put_all_G rs : forall os st st',
    put_all rs os st = Ok st' -> G st ->
    (forall n g o, In ((n, g), o) (combine rs os) -> accepts_pobj n g o = true) -> G st'.
  Proof.
    induction rs as [|[n g] rs IH]; intros os st st' H HG Hacc; cbn [Writer.put_all] in H.
    - injection H as <-. exact HG.
    - destruct os as [|o os]; [injection H as <-; exact HG|]. binv H.
      apply (IH _ _ _ Hk).
      + eapply put_G; [exact Hb | exact HG|]. intros _. apply Hacc. left. reflexivity.
      + intros n' g' o' Hin. apply Hacc. right. exact Hin.
  Qed.

  Lemma accepts_members_spec rs : forall os,
    accepts_members rs os = true ->
    forall n g o, In ((n, g), o) (combine rs os) ->
      if use_objstm c then caps_ok 0 (pobj_obj o) = true else accepts_pobj n g o = true.
  Proof.
    induction rs as [|[n0 g0] rs IH]; intros os H n g o Hin; [destruct Hin|].
    destruct os as [|o0 os]; [destruct Hin|].
    cbn [Writer.accepts_members] in H. apply andb_true_iff in H as [H1 H2].
    destruct Hin as [E|Hin]; [injection E as <- <- <-; destruct (use_objstm c); exact H1|].
    exact (IH _ H2 _ _ _ Hin).
  Qed.

  Lemma set_comp_same sref rs : forall i st st', set_comp sref i rs st = Ok st' ->
    wr st' = wr st /\ after st' = after st /\ strm st' = strm st.
  Proof.
    induction rs as [|[n g] rs IH]; intros i st st' H; cbn [set_comp] in H.
    - injection H as <-. auto.
    - binv H. destruct (set_xref_same _ _ _ _ Hb) as (E1 & E2 & E3).
      destruct (IH _ _ _ Hk) as (F1 & F2 & F3). repeat split; congruence.
  Qed.

  Lemma record_all_W rs : forall os st,
    W st -> (forall n g o, In ((n, g), o) (combine rs os) -> caps_ok 0 (pobj_obj o) = true) ->
    W (record_all rs os st) /\ after (record_all rs os st) = after st /\
    strm (record_all rs os st) = strm st.
  Proof.
    induction rs as [|[n g] rs IH]; intros os st HW Hc; cbn [record_all]; [auto|].
    destruct os as [|o os]; [auto|].
    destruct (IH os (record n g (VObj (pobj_obj o)) st)) as (W1 & A1 & S1).
    - apply W_record; [exact HW|]. cbn. right. apply (Hc n g o). left. reflexivity.
    - intros n' g' o' Hin. apply (Hc n' g' o'). right. exact Hin.
    - auto.
  Qed.

  Lemma objstm_dict_caps sref a b :
    caps_ok 0 (wsd sref 0 [(k_Type, OName k_ObjStm); (k_N, OInt a); (k_First, OInt b)] [flate_filt]) = true.
  Proof. reflexivity. Qed.

  Lemma wc_one_G rs os big st st' :
    wc_one fmt fmt_sd encS encB fenc c rs os big st = Ok st' -> G st ->
    (forall n g o, In ((n, g), o) (combine rs os) -> caps_ok 0 (pobj_obj o) = true) ->
    G st' .
  Proof.
    unfold wc_one. intros H [HW HA] Hc.
    binv H. destruct a as [sref st1]. binv Hk.
    destruct (objstm_parts _ _ _) as [head body]. binv Hk0.
    destruct (alloc_same _ _ _ Hb) as (E1 & E2 & E3).
    destruct (set_comp_same _ _ _ _ _ Hb0) as (F1 & F2 & F3).
    assert (W2 : W a) by (unfold W; rewrite F1, E1; exact HW).
    destruct (record_all_W rs os a W2 Hc) as (W3 & A3 & S3).
    assert (Hs : strm st = None).
    { pose proof (open_stream_none _ _ _ _ _ _ Hb1) as N1. congruence. }
    specialize (HA Hs).
    destruct (open_stream_same _ _ _ _ _ _ Hb1) as (O1 & O2 & s & Es & G1 & G2 & G3 & G4).
    rewrite Es in Hk.
    assert (W4 : W a0) by (unfold W; rewrite O1; exact W3).
    match type of Hk with close_stream _ ?st0 = _ =>
      destruct (close_stream_W big st0 st' _ Hk eq_refl) as (W5 & A5) end.
    - exact W4.
    - cbn [s_num s_gen s_dict s_fs]. rewrite G1, G2, G3, G4. exact (objstm_dict_caps _ _ _).
    - cbn. rewrite O2, A3, F2, E2. exact HA.
    - split; [exact W5 | intros _; exact A5].
  Qed.

  Lemma combine_firstn {X Y} (n : nat) (l : list X) (m : list Y) e :
    In e (combine (firstn n l) (firstn n m)) -> In e (combine l m).
  Proof.
    revert l m. induction n as [|n IH]; intros l m H; [destruct H|].
    destruct l as [|x l]; [destruct H|]. destruct m as [|y m]; [destruct H|].
    cbn in *. destruct H as [H|H]; [auto | right; apply IH, H].
  Qed.

  Lemma combine_skipn {X Y} (n : nat) (l : list X) (m : list Y) e :
    In e (combine (skipn n l) (skipn n m)) -> In e (combine l m).
  Proof.
    revert l m. induction n as [|n IH]; intros l m H; [exact H|].
    destruct l as [|x l]; [destruct H|]. destruct m as [|y m]; [cbn in H; destruct (skipn n l); destruct H|].
    cbn in *. right. apply IH, H.
  Qed.

  Lemma wc_chunks_G fuel : forall rs os bigs st st',
    wc_chunks fmt fmt_sd encS encB fenc c fuel rs os bigs st = Ok st' -> G st ->
    (forall n g o, In ((n, g), o) (combine rs os) -> caps_ok 0 (pobj_obj o) = true) ->
    G st'.
  Proof.
    induction fuel as [|f IH]; intros rs os bigs st st' H HG Hc; cbn [wc_chunks] in H; [discriminate|].
    destruct (Nat.ltb _ _).
    - binv H. apply (IH _ _ _ _ _ Hk).
      + eapply wc_one_G; [exact Hb | exact HG|]. intros n g o Hin. apply (Hc n g o), combine_firstn with (n := max_members), Hin.
      + intros n g o Hin. apply (Hc n g o), combine_skipn with (n := max_members), Hin.
    - eapply wc_one_G; eassumption.
  Qed.

  Lemma write_compressed_G rs os bigs st st' :
    write_compressed fmt fmt_sd encS encB fenc c rs os bigs st = Ok st' -> G st ->
    accepts_members rs os = true -> G st'.
  Proof.
    unfold Writer.write_compressed. intros H HG Hacc. destruct (strm st); [discriminate|].
    destruct (negb (check_compressed rs os)); [discriminate|].
    destruct os as [|o os]; [injection H as <-; exact HG|].
    pose proof (accepts_members_spec _ _ Hacc) as Sp.
    destruct (use_objstm c); cbn [negb] in H.
    - eapply wc_chunks_G; eassumption.
    - eapply put_all_G; eassumption.
  Qed.

  Lemma write_xref_same (tr : dict) st st' :
    (if use_xrefstm c then write_xref_stream fmt_sd deflate c tr st
     else bind (write_xref_table fmt tr st) (fun s =>
          Ok {| out := out s; pos := pos s; xref := xref s; nextRef := nextRef s;
                strm := strm s; after := after s; wr := wr s; xtab := xref s;
                xpos := xpos s; closed := closed s |})) = Ok st' ->
    wr st' = wr st /\ after st' = after st /\ strm st' = strm st.
  Proof.
    destruct (use_xrefstm c).
    - unfold write_xref_stream. intros H. binv H. destruct a as [r st1]. cbv zeta in Hk. binv Hk.
      injection Hk0 as <-. destruct (alloc_same _ _ _ Hb) as (E1 & E2 & E3).
      destruct (set_xref_same _ _ _ _ Hb0) as (F1 & F2 & F3). cbn. repeat split; congruence.
    - intros H. binv H. injection Hk as <-. unfold write_xref_table in Hb.
      destruct (has_comp _); [discriminate|]. injection Hb as <-. cbn. auto.
  Qed.

  Lemma close0_G cat info st st' :
    close0 fmt fmt_sd encS deflate c cat info st = Ok st' -> G st ->
    caps_ok 0 cat = true -> match info with Some i => caps_ok 0 i = true | None => True end ->
    G st'.
  Proof.
    unfold close0. intros H [HW HA] Hcat Hinfo. destruct (strm st) eqn:Es; [discriminate|].
    specialize (HA eq_refl).
    binv H. destruct a as [croot st1]. binv Hk. binv Hk0. destruct a0 as [iref st5].
    cbv zeta in Hk. binv Hk. injection Hk0 as <-.
    destruct (alloc_same _ _ _ Hb) as (E1 & E2 & E3).
    assert (W1 : W st1) by (unfold W; rewrite E1; exact HW).
    destruct (put_obj_W _ _ _ _ _ Hb0 W1 (or_intror Hcat)) as (W2 & A2 & S2).
    assert (X : W st5 /\ after st5 = after a /\ strm st5 = strm a).
    { destruct info as [i|].
      - destruct (bind_ok _ _ _ Hb1) as [[ri st3] [Ha3 Hk3]].
        destruct (bind_ok _ _ _ Hk3) as [st4 [Hp4 Hk4]]. injection Hk4 as <- <-.
        destruct (alloc_same _ _ _ Ha3) as (I1 & I2 & I3).
        assert (W3 : W st3) by (unfold W; rewrite I1; exact W2).
        destruct (put_obj_W _ _ _ _ _ Hp4 W3 (or_intror Hinfo)) as (W4 & A4 & S4).
        repeat split; congruence.
      - injection Hb1 as <- <-. auto. }
    destruct X as (W5 & A5 & S5).
    destruct (write_xref_same _ _ _ Hb2) as (X1 & X2 & X3).
    split.
    - unfold W. cbn. rewrite X1. exact W5.
    - intros _. unfold A. cbn. rewrite X2, A5, A2, E2. exact HA.
  Qed.

  Lemma step_G st o st' : step st o = Ok st' -> G st -> G st'.
  Proof.
    intros H HG. pose proof (step_accepts _ _ _ _ _ _ _ _ _ _ H) as Hacc. apply step_ok in H.
    unfold Writer.step0 in H. destruct (closed st); [discriminate|].
    destruct o; cbn [accepts] in Hacc.
    - binv H. destruct a as [r st1]. injection Hk as <-.
      destruct (alloc_same _ _ _ Hb) as (E1 & E2 & E3). destruct HG as [HW HA].
      split; [unfold W; rewrite E1; exact HW|]. intros Hs. unfold A. rewrite E2. apply HA. congruence.
    - eapply put_G; [exact H | exact HG|]. intros Hs. rewrite Hs in Hacc. exact Hacc.
    - eapply write_compressed_G; eassumption.
    - destruct (open_stream_same _ _ _ _ _ _ H) as (E1 & E2 & s & Es & _). destruct HG as [HW HA].
      split; [unfold W; rewrite E1; exact HW|]. rewrite Es. discriminate.
    - destruct (write_stream_same _ _ _ _ H) as (E1 & E2 & s & s' & Es & Es' & _). destruct HG as [HW HA].
      split; [unfold W; rewrite E1; exact HW|]. rewrite Es'. discriminate.
    - destruct HG as [HW HA]. destruct (strm st) as [s|] eqn:Es.
      + apply andb_true_iff in Hacc as [Hc Ha].
        destruct (close_stream_W _ _ _ _ H Es HW Hc Ha) as (W1 & A1). split; [exact W1 | intros _; exact A1].
      + unfold Writer.close_stream, Writer.finish_stream in H. rewrite Es in H. discriminate.
    - apply close_ok in H. apply andb_true_iff in Hacc as [Hc Hi].
      eapply close0_G; [exact H | exact HG | exact Hc|]. destruct info; [exact Hi | exact I].
  Qed.

  Lemma run_from_G ops : forall st st', run_from st ops = Ok st' -> G st -> G st'.
  Proof.
    induction ops as [|o ops IH]; intros st st' H HG; cbn [Writer.run_from] in H.
    - injection H as <-. exact HG.
    - binv H. eapply IH; [exact Hk|]. eapply step_G; eassumption.
  Qed.

  Theorem accepted_within_caps ops st :
    run ops = Ok st -> forall e, In e (wr st) -> caps_record e.
  Proof.
    unfold Writer.run. intros H. binv H.
    assert (G0 : G a).
    { unfold init in Hb. destruct (negb _); [discriminate|]. destruct (_ && _); [discriminate|].
      destruct (_ && _); [discriminate|]. injection Hb as <-. split; [constructor | reflexivity]. }
    destruct (run_from_G _ _ _ Hk G0) as [HW _]. intros e. apply Forall_forall. exact HW.
  Qed.
End Caps.

(* ---- the reader's side of the same limits ----
   The scanner refuses what is beyond the limits.  In the theorems of write_read the parser is a
   Section variable with the hypothesis that it reads back what the formatter wrote for every value
   that is well formed ([wfo]).  For a parser that refuses like the scanner - [cap_parse p] for any
   [p] - that hypothesis can hold only if [wfo] itself implies the limits: the write_read theorems
   then speak about exactly the histories whose values are within them, which by
   [accepted_within_caps] are the histories the writer accepts. *)
Definition cap_parse (p : bytes -> option (obj * bytes)) (s : bytes) : option (obj * bytes) :=
  match p s with
  | Some (o, r) => if caps_ok 0 o then Some (o, r) else None
  | None => None
  end.

Lemma cap_parse_refuses p s o r : p s = Some (o, r) -> caps_ok 0 o = false -> cap_parse p s = None.
Proof. intros H Hc. unfold cap_parse. rewrite H, Hc. reflexivity. Qed.

Theorem capped_parser_forces_caps (p : bytes -> option (obj * bytes)) (fmt : obj -> bytes) (wfo : obj -> Prop) :
  (forall o rest, wfo o ->
     cap_parse p (LF :: fmt o ++ LF :: kw_endobj ++ rest) = Some (norm o, LF :: kw_endobj ++ rest)) ->
  forall o, wfo o -> caps_ok 0 (norm o) = true.
Proof.
  intros H o Hw. specialize (H o [] Hw). unfold cap_parse in H.
  destruct (p _) as [[o' r]|]; [|discriminate].
  destruct (caps_ok 0 o') eqn:E; [|discriminate]. injection H as <- _. exact E.
Qed.

