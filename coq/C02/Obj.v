(* C02/C03: abstract PDF values.  Only the datatype and the value-level
   functions [norm] (what a value reads back as) and [map_str] (string
   encryption acts on every string of a value); no syntax here. *)
From Coq Require Import List NArith ZArith Bool.
From GoPdf.Base Require Import Bytes.
Import ListNotations.
Open Scope N_scope.

Inductive obj :=
| ONull
| OBool (b : bool)
| OInt (z : Z)
| OReal (tok : bytes)            (* the decimal token, as strconv.FormatFloat(x,'f',-1,64) prints it *)
| OName (n : bytes)
| OStr (s : bytes)
| OArr (l : list obj)
| ODict (l : list (bytes * obj))
| ORef (n g : N).

Definition dict := list (bytes * obj).

Definition is_null (o : obj) : bool := match o with ONull => true | _ => false end.

(* insertion of a dictionary entry into a list sorted by key (byte-wise);
   an entry with an equal key replaces the old one (a Go map has one value per key) *)
Fixpoint dict_insert (k : bytes) (v : obj) (l : dict) : dict :=
  match l with
  | [] => [(k, v)]
  | (k', v') :: r =>
    if bytes_ltb k k' then (k, v) :: l
    else if bytes_eqb k k' then (k, v) :: r
    else (k', v') :: dict_insert k v r
  end.

Fixpoint dict_sort (l : dict) : dict :=
  match l with
  | [] => []
  | (k, v) :: r => dict_insert k v (dict_sort r)
  end.

(* [norm]: the value a written object denotes: dictionary entries whose value
   is null are absent, dictionaries are finite maps (sorted by key). *)
Fixpoint norm (o : obj) : obj :=
  match o with
  | OArr l => OArr (map norm l)
  | ODict l =>
    ODict (dict_sort
      (filter (fun kv => negb (is_null (snd kv)))
         (map (fun kv => match kv with (k, v) => (k, norm v) end) l)))
  | _ => o
  end.

(* apply [f] to every string of a value (string encryption / decryption) *)
Fixpoint map_str (f : bytes -> bytes) (o : obj) : obj :=
  match o with
  | OStr s => OStr (f s)
  | OArr l => OArr (map (map_str f) l)
  | ODict l => ODict (map (fun kv => match kv with (k, v) => (k, map_str f v) end) l)
  | _ => o
  end.

Fixpoint dict_get (k : bytes) (l : dict) : option obj :=
  match l with
  | [] => None
  | (k', v) :: r => if bytes_eqb k k' then Some v else dict_get k r
  end.

Fixpoint dict_del (k : bytes) (l : dict) : dict :=
  match l with
  | [] => []
  | (k', v) :: r => if bytes_eqb k k' then dict_del k r else (k', v) :: dict_del k r
  end.

(* decidable equality of values (used by the executable checks) *)
Fixpoint obj_eqb (a b : obj) : bool :=
  match a, b with
  | ONull, ONull => true
  | OBool x, OBool y => Bool.eqb x y
  | OInt x, OInt y => Z.eqb x y
  | OReal x, OReal y => bytes_eqb x y
  | OName x, OName y => bytes_eqb x y
  | OStr x, OStr y => bytes_eqb x y
  | OArr x, OArr y =>
    (fix go (x y : list obj) : bool :=
       match x, y with
       | [], [] => true
       | a :: x', b :: y' => obj_eqb a b && go x' y'
       | _, _ => false
       end) x y
  | ODict x, ODict y =>
    (fix go (x y : dict) : bool :=
       match x, y with
       | [], [] => true
       | (k, a) :: x', (k', b) :: y' => bytes_eqb k k' && obj_eqb a b && go x' y'
       | _, _ => false
       end) x y
  | ORef n g, ORef n' g' => (n =? n') && (g =? g')
  | _, _ => false
  end.
