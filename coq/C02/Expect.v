(* C02: what a reader must return for a reference, read off the ghost record
   [wr] of accepted writes (the specification side of write_read), and the
   comparison of the model reader's answer with it. *)
From Coq Require Import List NArith ZArith Bool.
From GoPdf.Base Require Import Bytes Res.
From GoPdf.C02 Require Import Obj Dec Syntax Writer Reader.
Import ListNotations.
Open Scope N_scope.

Inductive eobs :=
| ENull
| EVal (o : obj)
| EStrm (d : obj) (data : bytes).

Definition strip_stream_keys (d : dict) : dict :=
  dict_del k_Length (dict_del k_Filter (dict_del k_DecodeParms d)).

Definition expected (w : list (N * N * wval)) (n g : N) : eobs :=
  match wlookup n w with
  | Some (g', VObj o) => if g =? g' then EVal (norm o) else ENull
  | Some (g', VStream d fs data) =>
    if g =? g' then EStrm (norm (ODict (strip_stream_keys d))) data else ENull
  | None => ENull
  end.

(* /Filter and /DecodeParms a reader must find in the dictionary of a written stream (null: absent):
   the filters passed to OpenStream in front of the chain the caller's dictionary declares,
   the parameters index by index beside the names *)
Definition expected_chain (w : list (N * N * wval)) (n g : N) : obj * obj :=
  match wlookup n w with
  | Some (g', VStream d fs data) =>
    match norm (ODict (stream_dict n g d fs)) with
    | ODict l =>
      (match dict_get k_Filter l with Some o => o | None => ONull end,
       match dict_get k_DecodeParms l with Some o => o | None => ONull end)
    | _ => (ONull, ONull)
    end
  | _ => (ONull, ONull)
  end.

Definition eobs_eqb (a b : eobs) : bool :=
  match a, b with
  | ENull, ENull => true
  | EVal x, EVal y => obj_eqb x y
  | EStrm d x, EStrm e y => obj_eqb d e && bytes_eqb x y
  | _, _ => false
  end.

(* the answer of a reader, in the same vocabulary *)
Definition observe (data_of : dict -> bytes -> option bytes) (r : res rval) : option eobs :=
  match r with
  | Ok RNull => Some ENull
  | Ok (RObj o) => Some (EVal (norm o))
  | Ok (RStream d raw) =>
    match data_of d raw with
    | Some x => Some (EStrm (norm (ODict (strip_stream_keys d))) x)
    | None => None
    end
  | Err _ => None
  end.
