(* C02: duplicates are refused; objects Put during an open stream land after it. *)
From Coq Require Import List NArith ZArith Bool Lia.
From GoPdf.Base Require Import Bytes Res.
From GoPdf.Gen Require Import Gen_Consts.
From GoPdf.C02 Require Import Obj Dec Syntax Writer WriterProofs LayoutProofs.
Import ListNotations.
Open Scope N_scope.

Section More.
  Variable fmt : obj -> bytes.
  Variable fmt_sd : dict -> lenrep -> bytes.
  Variable encS : N -> N -> bytes -> bytes.
  Variable encB : N -> N -> bytes -> bytes.
  Variable fenc : bytes -> dict -> bytes -> bytes.
  Variable deflate : bytes -> bytes.
  Variable c : cfg.

  Notation step := (step fmt fmt_sd encS encB fenc deflate c).
  Notation put_obj := (put_obj fmt encS c).
  Notation finish_stream := (finish_stream fmt_sd encS encB fenc c).
  Notation flush_after := (flush_after fmt fmt_sd encS encB fenc c).
  Notation flush_objs := (flush_objs fmt encS c).
  Notation close_stream := (close_stream fmt fmt_sd encS encB fenc c).
  Notation start_stream := (start_stream c).

  (* a number that has an entry (written, reserved by an open stream, compressed) is refused *)
  Lemma dup_rejected_lemma st n g o big :
    closed st = false -> strm st = None -> xlookup n (xref st) <> None ->
    step st (Put n g o big) = Err Other.
  Proof.
    intros Hc Hs Hx. unfold Writer.step. destruct (accepts _ _ _ _); [|reflexivity].
    unfold Writer.step0, Writer.put. rewrite Hc, Hs.
    destruct (xlookup n (xref st)) eqn:E; [|contradiction].
    destruct o.
    - unfold Writer.put_obj, set_xref. rewrite E. reflexivity.
    - unfold put_stream_now, open_stream, set_xref. rewrite Hs, E. reflexivity.
  Qed.

  Lemma put_obj_xref n g o st st' :
    put_obj n g o st = Ok st' ->
    xlookup n (xref st) = None /\
    xref st' = xref st ++ [(n, EUse (pos st) g)] /\ pos st <= pos st' /\
    strm st' = strm st /\ closed st' = closed st.
  Proof.
    unfold Writer.put_obj. intros H. binv H. injection Hk as <-.
    unfold set_xref in Hb. destruct (xlookup n (xref st)) eqn:E; [discriminate|]. injection Hb as <-.
    cbn. repeat split; auto. lia.
  Qed.

  (* the second Put of one number is refused, whatever the value *)
  Lemma put_twice_lemma st n g o big st' :
    strm st = None -> step st (Put n g (PObj o) big) = Ok st' ->
    forall g' o' big', step st' (Put n g' o' big') = Err Other.
  Proof.
    intros Hs H g' o' big'. apply step_ok in H. unfold Writer.step0 in H. destruct (closed st) eqn:Hc; [discriminate|].
    unfold Writer.put in H. rewrite Hs in H.
    destruct (put_obj_xref _ _ _ _ _ H) as [Hx [Ex [_ [Es Ec]]]].
    apply dup_rejected_lemma; [congruence | congruence|].
    rewrite Ex, xlookup_app, Hx. cbn. rewrite N.eqb_refl. discriminate.
  Qed.

  Lemma start_stream_same s st s' st' :
    start_stream s st = Ok (s', st') ->
    pos st' = pos st /\ after st' = after st /\ xref st' = xref st.
  Proof.
    unfold Writer.start_stream.
    destruct (s_started s); [intros H; injection H as <- <-; auto|].
    destruct (dict_get k_Length (s_dict s)); [intros H; injection H as <- <-; auto|].
    destruct (cseek c); [intros H; injection H as <- <-; auto|].
    intros H. binv H. destruct a as [r st1]. injection Hk as <- <-.
    unfold alloc in Hb. destruct (_ >=? _)%Z; [discriminate|]. injection Hb as <- <-. cbn. auto.
  Qed.

  (* closing the stream: its chunk is not empty, the deferred objects are kept, the map is kept *)
  Lemma finish_stream_pos big st st' :
    finish_stream big st = Ok st' ->
    pos st < pos st' /\ (forall x, In x (after st) -> In x (after st')) /\ xref st' = xref st.
  Proof.
    unfold Writer.finish_stream. destruct (strm st) as [s0|]; [|discriminate].
    cbv zeta. intros H. binv H. destruct a as [s st1].
    assert (S1 : pos st1 = pos st /\ after st1 = after st /\ xref st1 = xref st).
    { destruct (if is_plain c s0 then _ else _).
      - eapply start_stream_same; eassumption.
      - injection Hb as <- <-. auto. }
    destruct S1 as [P1 [A1 X1]].
    destruct (Bool.eqb _ _); [|discriminate].
    assert (Hlen : forall n g sd lr raw, 0 < N.of_nat (length (stream_chunk fmt_sd c n g sd lr raw))).
    { intros. unfold stream_chunk. destruct (hdr_nonempty n g) as [a [r E]]. rewrite E. cbn. lia. }
    destruct (dict_get k_Length (s_dict s)) as [[]|]; try discriminate.
    - destruct (_ =? _)%Z; [|discriminate]. injection Hk as <-. cbn. rewrite P1, A1, X1.
      split; [|auto]. match goal with |- _ < _ + N.of_nat (length ?ch) => pose proof (Hlen (s_num s0) (s_gen s0) _ _ _ : 0 < N.of_nat (length ch)) end. lia.
    - destruct (s_started s).
      + destruct (s_lenref s).
        * injection Hk as <-. cbn. rewrite P1, A1, X1. split; [|split; [|reflexivity]].
          -- match goal with |- _ < _ + N.of_nat (length ?ch) => pose proof (Hlen (s_num s0) (s_gen s0) _ _ _ : 0 < N.of_nat (length ch)) end. lia.
          -- intros x Hx. apply in_or_app. auto.
        * destruct (cseek c); [|discriminate]. injection Hk as <-. cbn. rewrite P1, A1, X1.
          split; [|auto]. match goal with |- _ < _ + N.of_nat (length ?ch) => pose proof (Hlen (s_num s0) (s_gen s0) _ _ _ : 0 < N.of_nat (length ch)) end. lia.
      + injection Hk as <-. cbn. rewrite P1, A1, X1.
        split; [|auto]. match goal with |- _ < _ + N.of_nat (length ?ch) => pose proof (Hlen (s_num s0) (s_gen s0) _ _ _ : 0 < N.of_nat (length ch)) end. lia.
  Qed.

  Lemma ext_pos_le st st' : ext st st' -> pos st <= pos st'.
  Proof. intros [bs [_ P]]. rewrite P. lia. Qed.

  Definition xgrows (st st' : state) : Prop :=
    forall m e, xlookup m (xref st) = Some e -> xlookup m (xref st') = Some e.

  Lemma flush_objs_xgrows l : forall st st', flush_objs l st = Ok st' -> xgrows st st'.
  Proof.
    induction l as [|[[n g] o] l IH]; intros st st' H; cbn in H.
    - injection H as <-. intros m e He. exact He.
    - destruct o; [|discriminate]. binv H.
      destruct (put_obj_xref _ _ _ _ _ Hb) as [Hx [Ex _]].
      intros m e He. apply (IH _ _ Hk). rewrite Ex, xlookup_app, He. reflexivity.
  Qed.

  Lemma put_stream_now_xgrows n g d data st st' :
    put_stream_now n g d data st = Ok st' -> xgrows st st'.
  Proof.
    unfold put_stream_now, open_stream. destruct (strm st); [discriminate|]. intros H. binv H. binv Hb.
    unfold set_xref in Hb0. destruct (xlookup n (xref st)) eqn:E; [discriminate|]. injection Hb0 as <-.
    assert (X : xref a = xref st ++ [(n, EUse (pos st) g)]).
    { destruct (dict_get k_Length d) as [[]|]; try discriminate; injection Hk0 as <-; reflexivity. }
    destruct (strm a); [|discriminate]. injection Hk as <-. unfold xgrows. cbn.
    intros m e He. rewrite X, xlookup_app, He. reflexivity.
  Qed.

  Lemma flush_after_offsets l : forall st st',
    flush_after l st = Ok st' ->
    xgrows st st' /\
    (forall n g o, In (n, g, PObj o) l ->
       exists off, xlookup n (xref st') = Some (EUse off g) /\ pos st <= off).
  Proof.
    induction l as [|[[n0 g0] o0] l IH]; intros st st' H; cbn in H.
    - injection H as <-. split; [intros m e He; exact He | intros n g o []].
    - destruct o0 as [o0|d data big].
      + binv H. destruct (put_obj_xref _ _ _ _ _ Hb) as [Hx [Ex [Hp _]]].
        destruct (IH _ _ Hk) as [G R]. split.
        * intros m e He. apply G. rewrite Ex, xlookup_app, He. reflexivity.
        * intros n g o [Heq|Hin].
          -- injection Heq as -> -> ->. exists (pos st). split; [|lia].
             apply G. rewrite Ex, xlookup_app, Hx. cbn. rewrite N.eqb_refl. reflexivity.
          -- destruct (R _ _ _ Hin) as [off [A B]]. exists off. split; [exact A | lia].
      + binv H. binv Hk. binv Hk0.
        destruct (IH _ _ Hk) as [G R].
        pose proof (put_stream_now_xgrows _ _ _ _ _ _ Hb) as G1.
        destruct (finish_stream_pos _ _ _ Hb0) as [P2 [_ X2]].
        pose proof (flush_objs_xgrows _ _ _ Hb1) as G3.
        pose proof (ext_pos_le _ _ (put_stream_now_ext _ _ _ _ _ _ Hb)) as P1.
        pose proof (ext_pos_le _ _ (flush_objs_ext fmt encS c _ _ _ Hb1)) as P3.
        split.
        * intros m e He. apply G, G3. rewrite X2. apply G1. exact He.
        * intros n g o [Heq|Hin]; [discriminate|].
          destruct (R _ _ _ Hin) as [off [A B]]. exists off. split; [exact A | lia].
  Qed.

  (* objects Put while a stream was open are written after that stream *)
  Lemma deferred_after_lemma big st st' s :
    strm st = Some s -> close_stream big st = Ok st' ->
    forall n g o, In (n, g, PObj o) (after st) ->
      exists off, xlookup n (xref st') = Some (EUse off g) /\ pos st < off.
  Proof.
    intros Hs H n g o Hin. unfold Writer.close_stream in H. binv H.
    destruct (finish_stream_pos _ _ _ Hb) as [P [A X]].
    destruct (flush_after_offsets _ _ _ Hk) as [_ R].
    destruct (R n g o (A _ Hin)) as [off [B C]]. exists off. split; [exact B | cbn in C; lia].
  Qed.
End More.
