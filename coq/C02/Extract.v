Require Extraction.
Require Import ExtrOcamlBasic.
From GoPdf.Base Require Import WireAnchor.
From GoPdf.C02 Require Import Obj Dec Syntax Writer Stored Reader Expect Inst.
Separate Extraction wire_anchor trace_concrete run_lenient run_concrete expected expected_chain self_check norm
  open_concrete get_concrete data_concrete observe eobs_eqb dict_sort strip_stream_keys.
