(* C02: executable model of pdf.Reader (reader.go, xref.go, the stream part of
   scanner.go).  Definitions only.  Object syntax, ciphers, filter decoders and
   inflate are Section variables. *)
From Coq Require Import List NArith ZArith Bool.
From GoPdf.Base Require Import Bytes Res.
From GoPdf.Gen Require Import Gen_Consts Gen_Limits.
From GoPdf.C02 Require Import Obj Dec Syntax Writer.
Import ListNotations.
Open Scope N_scope.

Inductive rval :=
| RNull
| RObj (o : obj)
| RStream (d : dict) (raw : bytes).     (* dictionary without /Length, raw (encoded, encrypted) data *)

Record rstate := {
  rfile : bytes;
  rxref : list (N * entry);
  rtrailer : dict;
  rversion : N;
  rhdr : N;                             (* offset of "%PDF-" *)
  rplain : list N                       (* objects exempt from decryption (the xref streams) *)
}.

Fixpoint find_first (pat s : bytes) (i : N) (fuel : nat) : option N :=
  match fuel with
  | O => None
  | S f =>
    if prefixb pat s then Some i
    else match s with
         | [] => None
         | _ :: r => find_first pat r (i + 1) f
         end
  end.

Fixpoint find_last (pat s : bytes) (i : N) (best : option N) : option N :=
  match s with
  | [] => best
  | _ :: r => find_last pat r (i + 1) (if prefixb pat s then Some i else best)
  end.

Definition drop (n : N) (s : bytes) : bytes := skipn (N.to_nat n) s.
Definition take (n : N) (s : bytes) : bytes := firstn (N.to_nat n) s.

Definition version_of (s : bytes) : option N :=
  match s with
  | 49 :: 46 :: d :: _ => if (48 <=? d) && (d <=? 55) then Some (d - 48) else None
  | 50 :: 46 :: 48 :: _ => Some 8
  | _ => None
  end.

(* one end-of-line after the keyword "stream": LF or CR LF (a lone CR is tolerated) *)
Definition skip_stream_eol (s : bytes) : bytes :=
  match s with
  | 13 :: 10 :: r => r
  | 10 :: r => r
  | 13 :: r => r
  | _ => s
  end.

Definition strip_eol (s : bytes) : bytes :=
  match s with
  | 13 :: 10 :: r => r
  | 10 :: r => r
  | 13 :: r => r
  | _ => s
  end.

Section Reader.
  Variable parse : bytes -> option (obj * bytes).
  Variable decS : N -> N -> bytes -> bytes.
  Variable decB : N -> N -> bytes -> bytes.
  Variable fdec : bytes -> dict -> bytes -> option bytes.
  Variable encd : bool.                 (* the trailer has /Encrypt and the password was accepted *)

  Definition sd (plain : bool) (n g : N) : bytes -> bytes :=
    if encd && negb plain then decS n g else fun s => s.

  (* "N G obj" *)
  Definition read_header (s : bytes) : option (N * N * bytes) :=
    match read_nat (skip_ws s) with
    | Some (n, s1) =>
      match read_nat (skip_ws s1) with
      | Some (g, s2) =>
        match strip_prefix kw_obj (skip_ws s2) with
        | Some s3 => Some (n, g, s3)
        | None => None
        end
      | None => None
      end
    | None => None
    end.

  (* the extent of stream data: the declared length if "endstream" follows it,
     otherwise up to the first EOL "endstream" *)
  Definition stream_extent (len : option N) (s : bytes) : res bytes :=
    let declared :=
      match len with
      | Some l =>
        if (l <=? N.of_nat (length s)) &&
           prefixb kw_endstream (skip_ws (drop l s)) then Some (take l s) else None
      | None => None
      end in
    match declared with
    | Some raw => Ok raw
    | None =>
      match find_first kw_endstream s 0 (S (length s)) with
      | Some i =>
        let raw := take i s in
        (* drop one EOL before the keyword *)
        let n := length raw in
        Ok (match rev_append raw [] with
            | 10 :: 13 :: _ => firstn (n - 2) raw
            | 10 :: _ | 13 :: _ => firstn (n - 1) raw
            | _ => raw
            end)
      | None => Err Malformed
      end
    end.

  (* an indirect object at [off]; [getint] resolves an indirect /Length *)
  Definition read_at (getint : N -> N -> res Z) (rs : rstate) (off n g : N) : res rval :=
    match read_header (drop (off + rhdr rs) (rfile rs)) with
    | None => Err Malformed
    | Some (n', g', s1) =>
      match parse s1 with
      | None => Err Malformed
      | Some (o, s2) =>
        let plain := existsb (N.eqb n) (rplain rs) in
        let s3 := skip_ws s2 in
        if prefixb kw_stream s3 then
          match o with
          | ODict d =>
            let body := skip_stream_eol (skipn (length kw_stream) s3) in
            bind (match dict_get k_Length d with
                  | Some (OInt l) => Ok (if (0 <=? l)%Z then Some (Z.to_N l) else None)
                  | Some (ORef ln lg) =>
                    match getint ln lg with
                    | Ok l => Ok (if (0 <=? l)%Z then Some (Z.to_N l) else None)
                    | Err Malformed => Ok None
                    | Err e => Err e
                    end
                  | _ => Ok None
                  end) (fun len =>
            bind (stream_extent len body) (fun raw =>
            if (n' =? n) && (g' =? g)
            then Ok (RStream (dict_del k_Length
                        (map (fun kv => match kv with (k, v) => (k, map_str (sd plain n g) v) end) d)) raw)
            else Err Malformed))
          | _ => Err Malformed
          end
        else if prefixb kw_endobj s3 then
          if (n' =? n) && (g' =? g) then Ok (RObj (map_str (sd plain n g) o)) else Err Malformed
        else Err Malformed
      end
    end.

  Definition filter_chain (d : dict) : list (bytes * dict) :=
    match dict_get k_Filter d with
    | Some (OName f) => [(f, as_dict (dict_get k_DecodeParms d))]
    | Some (OArr fl) =>
      let pp := match dict_get k_DecodeParms d with Some (OArr l) => l | _ => [] end in
      (fix go (fl pp : list obj) : list (bytes * dict) :=
         match fl with
         | [] => []
         | OName f :: fl' =>
           (f, match pp with ODict p :: _ => p | _ => [] end) :: go fl' (tl pp)
         | _ :: fl' => go fl' (tl pp)
         end) fl pp
    | _ => []
    end.

  Fixpoint decode_chain (fs : list (bytes * dict)) (s : bytes) : option bytes :=
    match fs with
    | [] => Some s
    | (f, p) :: r =>
      match fdec f p s with
      | Some s' => decode_chain r s'
      | None => None
      end
    end.

  (* pdf.DecodeStream *)
  Definition stream_data (rs : rstate) (n g : N) (d : dict) (raw : bytes) : option bytes :=
    let plain := existsb (N.eqb n) (rplain rs) in
    let crypt_first := has_crypt_first d in
    decode_chain (filter_chain d)
      (if encd && negb plain && negb crypt_first then decB n g raw else raw).

  (* the N "num offset" pairs at the start of an object stream *)
  Fixpoint read_pairs (k : nat) (s : bytes) : option (list (N * N) * bytes) :=
    match k with
    | O => Some ([], s)
    | S k' =>
      match read_nat (skip_ws s) with
      | Some (a, s1) =>
        match read_nat (skip_ws s1) with
        | Some (b, s2) =>
          match read_pairs k' s2 with
          | Some (l, r) => Some ((a, b) :: l, r)
          | None => None
          end
        | None => None
        end
      | None => None
      end
    end.

  Fixpoint find_pair (n : N) (l : list (N * N)) : option N :=
    match l with
    | [] => None
    | (a, b) :: r => if a =? n then Some b else find_pair n r
    end.

  Definition from_objstm (container : res rval) (rs : rstate) (sn n : N) : res rval :=
    bind container (fun cv =>
    match cv with
    | RStream d raw =>
      match dict_get k_N d, dict_get k_First d, stream_data rs sn 0 d raw with
      | Some (OInt nn), Some (OInt first), Some data =>
        if (nn <? 0)%Z || (10000 <? nn)%Z then Err Malformed
        else
          match read_pairs (Z.to_nat nn) data with
          | Some (pairs, rest) =>
            let hpos := N.of_nat (length data - length rest) in
            if (first <? Z.of_N hpos)%Z then Err Malformed
            else match find_pair n pairs with
                 | Some off =>
                   (* objects in an object stream are not encrypted on their own *)
                   match parse (drop (Z.to_N first + off) data) with
                   | Some (o, _) => Ok (RObj o)
                   | None => Err Malformed
                   end
                 | None => Err Malformed
                 end
          | None => Err Malformed
          end
      | _, _, _ => Err Malformed
      end
    | _ => Err Malformed
    end).

  (* Reader.Get; fuel bounds the chain length-object -> object-stream -> ... (depth 3 suffices) *)
  Fixpoint get (fuel : nat) (rs : rstate) (n g : N) : res rval :=
    match fuel with
    | O => Err OutOfFuel
    | S f =>
      let getint := fun ln lg =>
        match get f rs ln lg with
        | Ok (RObj (OInt z)) => Ok z
        | Ok _ => Err Malformed
        | Err e => Err e
        end in
      match xlookup n (rxref rs) with
      | None | Some (EFree _) => Ok RNull
      | Some (EUse off g') => if g' =? g then read_at getint rs off n g else Ok RNull
      | Some (EComp sn _) =>
        if g =? 0 then
          from_objstm
            (match xlookup sn (rxref rs) with
             | Some (EUse off 0) => read_at getint rs off sn 0
             | _ => Err Malformed
             end) rs sn n
        else Ok RNull
      end
    end.

  (* ---- opening: header, startxref, the chain of cross-reference sections ---- *)

  Definition merge_entry (x : list (N * entry)) (n : N) (e : entry) : list (N * entry) :=
    match xlookup n x with Some _ => x | None => x ++ [(n, e)] end.

  (* decodeXRefSection: 20-byte lines *)
  Fixpoint table_lines (k : nat) (i : N) (s : bytes) (x : list (N * entry))
    : option (list (N * entry) * bytes) :=
    match k with
    | O => Some (x, s)
    | S k' =>
      let line := firstn 20 s in
      if negb (Nat.eqb (length line) 20) then None
      else
        let a := firstn 10 line in
        let b := firstn 5 (skipn 11 line) in
        if all_digits a && all_digits b then
          let off := N.of_uint (fst (read_digits a)) in
          let gen := N.of_uint (fst (read_digits b)) in
          let adv := match nth 19 line 0 with 10 | 13 => 20%nat | _ => 19%nat end in
          match nth 17 line 0 with
          | 102 => if gen <=? 65535 then table_lines k' (i + 1) (skipn adv s) (merge_entry x i (EFree gen)) else None
          | 110 => if gen <=? 65535 then table_lines k' (i + 1) (skipn adv s) (merge_entry x i (EUse off gen)) else None
          | _ => None
          end
        else None
    end.

  Fixpoint table_sections (fuel : nat) (s : bytes) (x : list (N * entry))
    : option (list (N * entry) * bytes) :=
    match fuel with
    | O => None
    | S f =>
      match s with
      | b :: _ =>
        if is_digit b then
          match read_nat s with
          | Some (start, s1) =>
            match read_nat (skip_ws s1) with
            | Some (cnt, s2) =>
              if (Z.of_N (start + cnt) <=? maxXRefSize)%Z then
                match table_lines (N.to_nat cnt) start (skip_ws s2) x with
                | Some (x', s3) => table_sections f (skip_ws s3) x'
                | None => None
                end
              else None
            | None => None
            end
          | None => None
          end
        else Some (x, s)
      | [] => Some (x, s)
      end
    end.

  Fixpoint be_val (s : bytes) (acc : N) : N :=
    match s with [] => acc | b :: r => be_val r (acc * 256 + b) end.

  (* decodeXRefStream *)
  Fixpoint stream_rows (k : nat) (i : N) (w0 w1 w2 : nat) (s : bytes) (x : list (N * entry))
    : option (list (N * entry) * bytes) :=
    match k with
    | O => Some (x, s)
    | S k' =>
      let row := firstn (w0 + w1 + w2) s in
      if negb (Nat.eqb (length row) (w0 + w1 + w2)) then None
      else
        let tp := if Nat.eqb w0 0 then 1 else be_val (firstn w0 row) 0 in
        let a := be_val (firstn w1 (skipn w0 row)) 0 in
        let b := be_val (skipn (w0 + w1) row) 0 in
        let x' :=
          match tp with
          | 0 => if b <=? 65535 then merge_entry x i (EFree b) else x
          | 1 => if b <=? 65535 then merge_entry x i (EUse a b) else x
          | 2 => if (Z.of_N a <? maxXRefSize)%Z then merge_entry x i (EComp a b) else x
          | _ => x
          end in
        stream_rows k' (i + 1) w0 w1 w2 (skipn (w0 + w1 + w2) s) x'
    end.

  Fixpoint stream_sections (ss : list (N * N)) (w0 w1 w2 : nat) (s : bytes) (x : list (N * entry))
    : option (list (N * entry)) :=
    match ss with
    | [] => Some x
    | (start, cnt) :: r =>
      match stream_rows (N.to_nat cnt) start w0 w1 w2 s x with
      | Some (x', s') => stream_sections r w0 w1 w2 s' x'
      | None => None
      end
    end.

  Fixpoint index_pairs (l : list obj) (size : Z) : option (list (N * N)) :=
    match l with
    | [] => Some []
    | OInt a :: OInt b :: r =>
      if (a <? 0)%Z || (b <=? 0)%Z || (size <? a)%Z || (size - a <? b)%Z then None
      else match index_pairs r size with
           | Some t => Some ((Z.to_N a, Z.to_N b) :: t)
           | None => None
           end
    | _ => None
    end.

  (* checkXRefStreamDict, including the bound on the number of entries *)
  Definition check_xref_dict (d : dict) (rawlen : N) : option (nat * nat * nat * list (N * N)) :=
    match dict_get k_Size d, dict_get k_W d with
    | Some (OInt size), Some (OArr [OInt a; OInt b; OInt c']) =>
      if (size <? 0)%Z || (maxXRefSize <? size)%Z then None
      else if (a <? 0)%Z || (8 <? a)%Z || (b <? 0)%Z || (8 <? b)%Z || (c' <? 0)%Z || (8 <? c')%Z then None
      else if (a + b + c' =? 0)%Z then None
      else
        let ss := match dict_get (B_Index) d with
                  | None => Some [(0, Z.to_N size)]
                  | Some (OArr l) => index_pairs l size
                  | Some _ => None
                  end in
        match ss with
        | None => None
        | Some ss =>
          let total := fold_left (fun t p => t + Z.of_N (snd p))%Z ss 0%Z in
          if (Z.min maxXRefSize (MaxXRefEntries (Z.of_N rawlen)) <? total)%Z then None
          else Some (Z.to_nat a, Z.to_nat b, Z.to_nat c', ss)
        end
    | _, _ => None
    end.

  Definition is_first_class (k : bytes) : bool :=
    bytes_eqb k k_Root || bytes_eqb k k_Encrypt || bytes_eqb k k_Info || bytes_eqb k k_ID.

  (* one cross-reference section at [start]: entries merged (first seen wins), its dictionary,
     and the number of the xref stream object if it is one *)
  Definition read_section (rs0 : rstate) (start : N) (x : list (N * entry))
    : res (list (N * entry) * dict * option N) :=
    let s := drop start (rfile rs0) in
    if prefixb kw_xref s then
      match table_sections (S (length s)) (skip_ws (skipn 4 s)) x with
      | Some (x', s1) =>
        match strip_prefix kw_trailer (skip_ws s1) with
        | Some s2 =>
          match parse s2 with
          | Some (ODict d, _) => Ok (x', d, None)
          | _ => Err Malformed
          end
        | None => Err Malformed
        end
      | None => Err Malformed
      end
    else
      match read_header s with
      | Some (n, g, _) =>
        let rs1 := {| rfile := rfile rs0; rxref := [(n, EUse (start - rhdr rs0) g)]; rtrailer := [];
                      rversion := 0; rhdr := rhdr rs0; rplain := [n] |} in
        match read_at (fun _ _ => Err Malformed) rs1 (start - rhdr rs0) n g with
        | Ok (RStream d raw) =>
          match check_xref_dict d (N.of_nat (length raw)) with
          | Some (w0, w1, w2, ss) =>
            match decode_chain (filter_chain d) raw with
            | Some data =>
              match stream_sections ss w0 w1 w2 data x with
              | Some x' => Ok (x', d, Some n)
              | None => Err Malformed
              end
            | None => Err Malformed
            end
          | None => Err Malformed
          end
        | Ok _ => Err Malformed
        | Err e => Err e
        end
      | None => Err Malformed
      end.

  Fixpoint read_chain (fuel : nat) (rs0 : rstate) (start : N) (seen : list N)
           (x : list (N * entry)) (tr : option dict) (plain : list N)
    : res (list (N * entry) * dict * list N) :=
    match fuel with
    | O => Err OutOfFuel
    | S f =>
      if existsb (N.eqb start) seen then Ok (x, match tr with Some t => t | None => [] end, plain)
      else
        bind (read_section rs0 start x) (fun '(x', d, sn) =>
        let tr' := match tr with
                   | Some t => t
                   | None => filter (fun kv => is_first_class (fst kv)) d
                   end in
        let plain' := match sn with Some n => n :: plain | None => plain end in
        match dict_get (B_Prev) d with
        | None => Ok (x', tr', plain')
        | Some (OInt p) =>
          if (p <=? 0)%Z || (Z.of_nat (length (rfile rs0)) - Z.of_N (rhdr rs0) <=? p)%Z then Err Malformed
          else read_chain f rs0 (Z.to_N p + rhdr rs0) (start :: seen) x' (Some tr') plain'
        | Some _ => Err Malformed
        end)
    end.

  Definition open (file : bytes) : res rstate :=
    match find_first kw_pdf (firstn 1024 file) 0 1025 with
    | None => Err Malformed
    | Some h =>
      match version_of (drop (h + 5) file) with
      | None => Err Malformed
      | Some v =>
        match find_last kw_startxref file 0 None with
        | None => Err Malformed
        | Some p =>
          match read_nat (skip_ws (drop (p + 9) file)) with
          | None => Err Malformed
          | Some (xp, _) =>
            if (xp =? 0) || (N.of_nat (length file) - h <=? xp) then Err Malformed
            else
              let rs0 := {| rfile := file; rxref := []; rtrailer := []; rversion := v; rhdr := h; rplain := [] |} in
              bind (read_chain (S (length file)) rs0 (xp + h) [] [] None []) (fun '(x, tr, plain) =>
              Ok {| rfile := file; rxref := x; rtrailer := tr; rversion := v; rhdr := h; rplain := plain |})
          end
        end
      end
    end.
End Reader.
