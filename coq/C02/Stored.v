(* C02: the concrete instance of the Section variables of Writer.v that is run:
   zlib with stored (uncompressed) deflate blocks - a valid encoder whose output
   every inflater reads -, ASCIIHex as a second filter, identity ciphers, and the
   stream dictionary formatter of the canonical syntax. *)
From Coq Require Import List NArith ZArith Bool.
From GoPdf.Base Require Import Bytes Res.
From GoPdf.C02 Require Import Obj Dec Syntax Writer.
Import ListNotations.
Open Scope N_scope.

Fixpoint adler (a b : N) (s : bytes) : N :=
  match s with
  | [] => b * 65536 + a
  | x :: r => let a' := (a + x) mod 65521 in adler a' ((b + a') mod 65521) r
  end.

(* stored blocks of 4000 bytes; [fuel] > number of blocks *)
Fixpoint stored_blocks (fuel : nat) (s : bytes) : bytes :=
  match fuel with
  | O => []
  | S f =>
    let blk := firstn 4000 s in
    let rest := skipn 4000 s in
    let n := N.of_nat (length blk) in
    let final := match rest with [] => 1 | _ => 0 end in
    final :: (n mod 256) :: (n / 256) :: ((65535 - n) mod 256) :: ((65535 - n) / 256) :: blk ++
    match rest with [] => [] | _ => stored_blocks f rest end
  end.

Definition deflate_stored (s : bytes) : bytes :=
  let ck := adler 1 0 s in
  120 :: 1 :: stored_blocks (S (length s / 4000)) s ++
  [(ck / 16777216) mod 256; (ck / 65536) mod 256; (ck / 256) mod 256; ck mod 256].

Definition ahx_encode (s : bytes) : bytes := hex_bytes s ++ [62].

Definition fenc_concrete (name : bytes) (parms : dict) (s : bytes) : bytes :=
  if bytes_eqb name k_FlateDecode then deflate_stored s
  else if bytes_eqb name k_AHx then ahx_encode s
  else s.

Definition len_text (l : lenrep) : bytes :=
  match l with
  | LDirect n => dec n
  | LPadded n => dec n ++ repeat SP (12 - length (dec n))
  | LRef r => dec r ++ [SP; 48; SP; 82]
  end.

(* the canonical dictionary with "/Length <text> " in front *)
Definition fmt_sd_concrete (d : dict) (l : lenrep) : bytes :=
  60 :: 60 :: fmt_name k_Length ++ SP :: len_text l ++ SP ::
  skipn 2 (fmt_obj (ODict d)).

Definition id_cipher (n g : N) (s : bytes) : bytes := s.

Definition run_concrete (c : cfg) (ops : list op) : res state :=
  run fmt_obj fmt_sd_concrete id_cipher id_cipher fenc_concrete deflate_stored c ops.

Definition trace_concrete (c : cfg) (ops : list op) : res (state * option (N * cls)) :=
  match init c with
  | Ok st => Ok (run_trace fmt_obj fmt_sd_concrete id_cipher id_cipher fenc_concrete deflate_stored c st ops 0)
  | Err e => Err e
  end.
