(* C02: the small token layer of the model writer / model reader.  The proofs
   of C02 treat object formatting abstractly (Section variables with the
   round-trip hypothesis, which is C01's theorem for the real formatter); this
   file is the concrete instance used to *run* the model: a canonical formatter
   (hex strings, #-escaped names, one space after every element) and a parser
   for it. *)
From Coq Require Import List NArith ZArith Bool String Ascii.
From GoPdf.Base Require Import Bytes.
From GoPdf.C02 Require Import Obj Dec.
Import ListNotations.
Open Scope N_scope.

Definition B (s : string) : bytes := map N_of_ascii (list_ascii_of_string s).

Definition LF : byte := 10.
Definition CR : byte := 13.
Definition SP : byte := 32.

Definition kw_null := Eval compute in B "null"%string.
Definition kw_true := Eval compute in B "true"%string.
Definition kw_false := Eval compute in B "false"%string.
Definition kw_obj := Eval compute in B "obj"%string.
Definition kw_endobj := Eval compute in B "endobj"%string.
Definition kw_stream := Eval compute in B "stream"%string.
Definition kw_endstream := Eval compute in B "endstream"%string.
Definition kw_xref := Eval compute in B "xref"%string.
Definition kw_trailer := Eval compute in B "trailer"%string.
Definition kw_startxref := Eval compute in B "startxref"%string.
Definition kw_eof := Eval compute in B "%%EOF"%string.
Definition kw_pdf := Eval compute in B "%PDF-"%string.

Definition k_Length := Eval compute in B "Length"%string.
Definition k_Filter := Eval compute in B "Filter"%string.
Definition k_DecodeParms := Eval compute in B "DecodeParms"%string.
Definition k_Type := Eval compute in B "Type"%string.
Definition k_ObjStm := Eval compute in B "ObjStm"%string.
Definition k_N := Eval compute in B "N"%string.
Definition k_First := Eval compute in B "First"%string.
Definition k_XRef := Eval compute in B "XRef"%string.
Definition k_Size := Eval compute in B "Size"%string.
Definition k_W := Eval compute in B "W"%string.
Definition k_Root := Eval compute in B "Root"%string.
Definition k_Info := Eval compute in B "Info"%string.
Definition k_ID := Eval compute in B "ID"%string.
Definition k_Encrypt := Eval compute in B "Encrypt"%string.
Definition k_FlateDecode := Eval compute in B "FlateDecode"%string.
Definition k_Columns := Eval compute in B "Columns"%string.
Definition k_Predictor := Eval compute in B "Predictor"%string.
Definition k_Crypt := Eval compute in B "Crypt"%string.
Definition k_AHx := Eval compute in B "ASCIIHexDecode"%string.
Definition B_Index := Eval compute in B "Index"%string.
Definition B_Prev := Eval compute in B "Prev"%string.

Definition is_ws (b : byte) : bool :=
  (b =? 0) || (b =? 9) || (b =? 10) || (b =? 12) || (b =? 13) || (b =? 32).
Definition is_delim (b : byte) : bool :=
  (b =? 40) || (b =? 41) || (b =? 60) || (b =? 62) || (b =? 91) || (b =? 93) ||
  (b =? 123) || (b =? 125) || (b =? 47) || (b =? 37).
Definition is_regular (b : byte) : bool := negb (is_ws b) && negb (is_delim b).
Definition is_alnum (b : byte) : bool :=
  ((48 <=? b) && (b <=? 57)) || ((65 <=? b) && (b <=? 90)) || ((97 <=? b) && (b <=? 122)).

Definition hexd (n : N) : byte := if n <? 10 then 48 + n else 87 + n.
Definition hex_bytes (s : bytes) : bytes :=
  flat_map (fun b => [hexd (b / 16); hexd (b mod 16)]) s.
Definition unhex (b : byte) : option N :=
  if (48 <=? b) && (b <=? 57) then Some (b - 48)
  else if (97 <=? b) && (b <=? 102) then Some (b - 87)
  else if (65 <=? b) && (b <=? 70) then Some (b - 55)
  else None.

Definition fmt_name (n : bytes) : bytes :=
  47 :: flat_map (fun b => if is_alnum b then [b] else [35; hexd (b / 16); hexd (b mod 16)]) n.

Fixpoint fmt_obj (o : obj) : bytes :=
  match o with
  | ONull => kw_null
  | OBool true => kw_true
  | OBool false => kw_false
  | OInt z => dec_z z
  | OReal t => t
  | OName n => fmt_name n
  | OStr s => 60 :: hex_bytes s ++ [62]
  | OArr l => 91 :: flat_map (fun x => fmt_obj x ++ [SP]) l ++ [93]
  | ODict l =>
    60 :: 60 ::
    flat_map (fun kv => match kv with
                        | (k, v) => if is_null v then [] else fmt_name k ++ SP :: fmt_obj v ++ [SP]
                        end) l ++ [62; 62]
  | ORef n g => dec n ++ SP :: dec g ++ [SP; 82]
  end.

(* ---- parser ---- *)

Fixpoint skip_ws (s : bytes) : bytes :=
  match s with
  | b :: r => if is_ws b then skip_ws r else s
  | [] => []
  end.

Fixpoint prefixb (p s : bytes) : bool :=
  match p, s with
  | [], _ => true
  | x :: p', y :: s' => (x =? y) && prefixb p' s'
  | _ :: _, [] => false
  end.

Definition strip_prefix (p s : bytes) : option bytes :=
  if prefixb p s then Some (skipn (List.length p) s) else None.

(* the bytes of a name after the slash *)
Fixpoint read_name (s : bytes) : bytes * bytes :=
  match s with
  | b :: r =>
    if is_regular b then
      match b, r with
      | 35, h1 :: h2 :: r' =>
        match unhex h1, unhex h2 with
        | Some a, Some c => let '(n, rest) := read_name r' in ((16 * a + c) :: n, rest)
        | _, _ => let '(n, rest) := read_name r in (b :: n, rest)
        end
      | _, _ => let '(n, rest) := read_name r in (b :: n, rest)
      end
    else ([], s)
  | [] => ([], [])
  end.

(* hex string body after '<' : white space ignored, odd digit padded with 0 *)
Fixpoint read_hex (s : bytes) (pend : option N) : option (bytes * bytes) :=
  match s with
  | [] => None
  | b :: r =>
    if b =? 62 then
      Some (match pend with Some a => [16 * a] | None => [] end, r)
    else if is_ws b then read_hex r pend
    else match unhex b with
         | None => None
         | Some v =>
           match pend with
           | None => read_hex r (Some v)
           | Some a =>
             match read_hex r None with
             | Some (t, rest) => Some ((16 * a + v) :: t, rest)
             | None => None
             end
           end
         end
  end.

(* the characters of a number token *)
Definition is_numch (b : byte) : bool := is_digit b || (b =? 43) || (b =? 45) || (b =? 46).
Fixpoint read_numtok (s : bytes) : bytes * bytes :=
  match s with
  | b :: r => if is_numch b then let '(t, rest) := read_numtok r in (b :: t, rest) else ([], s)
  | [] => ([], [])
  end.

Definition all_digits (t : bytes) : bool := negb (Nat.eqb (List.length t) 0) && forallb is_digit t.

Definition int_of_tok (t : bytes) : option Z :=
  match t with
  | 45 :: d => if all_digits d then Some (- Z.of_N (N.of_uint (fst (read_digits d))))%Z else None
  | 43 :: d => if all_digits d then Some (Z.of_N (N.of_uint (fst (read_digits d)))) else None
  | d => if all_digits d then Some (Z.of_N (N.of_uint (fst (read_digits d)))) else None
  end.

Definition ends_token (s : bytes) : bool :=
  match s with [] => true | b :: _ => negb (is_regular b) end.

(* after a non-negative integer [a]: "<ws> g <ws> R" ? *)
Definition try_ref (a : Z) (s : bytes) : option (obj * bytes) :=
  match a with
  | Zneg _ => None
  | _ =>
    match s with
    | b :: _ =>
      if is_ws b then
        match read_nat (skip_ws s) with
        | Some (g, s1) =>
          match s1 with
          | b1 :: _ =>
            if is_ws b1 then
              match skip_ws s1 with
              | 82 :: s2 => if ends_token s2 then Some (ORef (Z.to_N a) g, s2) else None
              | _ => None
              end
            else None
          | [] => None
          end
        | None => None
        end
      else None
    | [] => None
    end
  end.

Fixpoint parse_seq (p : bytes -> option (obj * bytes)) (fuel : nat) (s : bytes)
  : option (list obj * bytes) :=
  match fuel with
  | O => None
  | S f =>
    match skip_ws s with
    | 93 :: r => Some ([], r)
    | s' =>
      match p s' with
      | Some (o, r) =>
        match parse_seq p f r with
        | Some (l, r') => Some (o :: l, r')
        | None => None
        end
      | None => None
      end
    end
  end.

Fixpoint parse_entries (p : bytes -> option (obj * bytes)) (fuel : nat) (s : bytes)
  : option (dict * bytes) :=
  match fuel with
  | O => None
  | S f =>
    match skip_ws s with
    | 62 :: 62 :: r => Some ([], r)
    | 47 :: r =>
      let '(k, r1) := read_name r in
      match p r1 with
      | Some (v, r2) =>
        match parse_entries p f r2 with
        | Some (l, r3) => Some ((k, v) :: l, r3)
        | None => None
        end
      | None => None
      end
    | _ => None
    end
  end.

Definition norm_entries (l : dict) : dict :=
  dict_sort (filter (fun kv => negb (is_null (snd kv))) l).

Fixpoint parse_obj (fuel : nat) (s : bytes) : option (obj * bytes) :=
  match fuel with
  | O => None
  | S f =>
    match skip_ws s with
    | [] => None
    | 47 :: r => let '(n, rest) := read_name r in Some (OName n, rest)
    | 60 :: 60 :: r =>
      match parse_entries (parse_obj f) f r with
      | Some (l, rest) => Some (ODict (norm_entries l), rest)
      | None => None
      end
    | 60 :: r =>
      match read_hex r None with
      | Some (x, rest) => Some (OStr x, rest)
      | None => None
      end
    | 91 :: r =>
      match parse_seq (parse_obj f) f r with
      | Some (l, rest) => Some (OArr l, rest)
      | None => None
      end
    | b :: r =>
      if is_numch b then
        let '(t, rest) := read_numtok (b :: r) in
        match int_of_tok t with
        | Some z =>
          match try_ref z rest with
          | Some x => Some x
          | None => Some (OInt z, rest)
          end
        | None => Some (OReal t, rest)
        end
      else if prefixb kw_null (b :: r) then Some (ONull, skipn 4 (b :: r))
      else if prefixb kw_true (b :: r) then Some (OBool true, skipn 4 (b :: r))
      else if prefixb kw_false (b :: r) then Some (OBool false, skipn 5 (b :: r))
      else None
    end
  end.

(* fuel that always suffices: one unit per byte and per nesting level *)
Definition parse_value (s : bytes) : option (obj * bytes) := parse_obj (S (List.length s)) s.
