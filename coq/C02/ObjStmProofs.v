(* C02: object streams.  Every compressed entry (n -> container, index) of the writer's map is
   backed by a record of the container whose data is the "num offset" table followed by the
   formatted members, with n at that index; and the model reader finds the member. *)
From Coq Require Import List NArith ZArith Bool Lia.
From GoPdf.Base Require Import Bytes Res.
From GoPdf.Gen Require Import Gen_Consts.
From GoPdf.C02 Require Import Obj Dec Syntax Writer WriterProofs LayoutProofs.
Import ListNotations.
Open Scope N_scope.

Definition is_comp (e : entry) : bool := match e with EComp _ _ => true | _ => false end.

Definition objstm_dict (n first : nat) : dict :=
  [(k_Type, OName k_ObjStm); (k_N, OInt (Z.of_nat n)); (k_First, OInt (Z.of_nat first))].

Section ObjStm.
  Variable fmt : obj -> bytes.
  Variable fmt_sd : dict -> lenrep -> bytes.
  Variable encS : N -> N -> bytes -> bytes.
  Variable encB : N -> N -> bytes -> bytes.
  Variable fenc : bytes -> dict -> bytes -> bytes.
  Variable deflate : bytes -> bytes.
  Variable c : cfg.

  Notation step := (step fmt fmt_sd encS encB fenc deflate c).
  Notation run_from := (run_from fmt fmt_sd encS encB fenc deflate c).
  Notation run := (run fmt fmt_sd encS encB fenc deflate c).
  Notation put_obj := (put_obj fmt encS c).
  Notation finish_stream := (finish_stream fmt_sd encS encB fenc c).
  Notation flush_after := (flush_after fmt fmt_sd encS encB fenc c).
  Notation flush_objs := (flush_objs fmt encS c).
  Notation close_stream := (close_stream fmt fmt_sd encS encB fenc c).
  Notation put := (put fmt fmt_sd encS encB fenc c).
  Notation put_all := (put_all fmt fmt_sd encS encB fenc c).
  Notation write_compressed := (write_compressed fmt fmt_sd encS encB fenc c).
  Notation write_xref_table := (write_xref_table fmt).
  Notation write_xref_stream := (write_xref_stream fmt_sd deflate c).
  Notation close := (close fmt fmt_sd encS deflate c).
  Notation start_stream := (start_stream c).
  Notation write_stream := (write_stream c).
  Notation Inv := (Inv fmt fmt_sd encS encB fenc c).
  Notation SInv := (SInv fmt fmt_sd encS encB fenc c).

  (* member [n] is entry [i] of the object stream [sref] *)
  Definition member_ok (st : state) (n sref i : N) : Prop :=
    exists rs os head body off,
      xlookup sref (xref st) = Some (EUse off 0) /\
      wlookup sref (wr st) =
        Some (0, VStream (objstm_dict (length os) (length head)) [flate_filt] (head ++ body)) /\
      objstm_parts rs (map (fun o => fmt (pobj_obj o)) os) 0 = (head, body) /\
      length rs = length os /\ NoDup (map fst rs) /\
      nth_error (map fst rs) (N.to_nat i) = Some n /\
      (* every member of the batch has its record *)
      forall k m, nth_error (map fst rs) k = Some m ->
        exists o, nth_error os k = Some o /\ wlookup m (wr st) = Some (0, VObj (pobj_obj o)).

  Lemma member_ok_grows st st' n s i : grows st st' -> member_ok st n s i -> member_ok st' n s i.
  Proof.
    intros [G1 G2] [rs [os [head [body [off [A [B [C [D [E [F M]]]]]]]]]]].
    exists rs, os, head, body, off. repeat split; auto.
    intros k m Hk. destruct (M k m Hk) as [o [P Q]]. exists o. auto.
  Qed.

  (* one step of the writer: the maps grow, and a new compressed entry is a member *)
  Definition R (st st' : state) : Prop :=
    grows st st' /\
    forall n s i, xlookup n (xref st') = Some (EComp s i) ->
      xlookup n (xref st) = Some (EComp s i) \/ member_ok st' n s i.

  Lemma grows_trans a b d : grows a b -> grows b d -> grows a d.
  Proof. intros [A1 A2] [B1 B2]. split; intros; auto. Qed.

  Lemma R_refl st : R st st.
  Proof. split; [apply grows_refl | auto]. Qed.

  Lemma R_trans a b d : R a b -> R b d -> R a d.
  Proof.
    intros [G1 N1] [G2 N2]. split; [eapply grows_trans; eassumption|].
    intros n s i H. destruct (N2 _ _ _ H) as [H1|H1]; [|right; exact H1].
    destruct (N1 _ _ _ H1) as [H2|H2]; [left; exact H2|]. right. eapply member_ok_grows; eassumption.
  Qed.

  (* appending entries that are not compressed entries, and records *)
  Lemma R_app a b lx lw :
    xref b = xref a ++ lx -> wr b = wr a ++ lw -> forallb (fun ke => negb (is_comp (snd ke))) lx = true ->
    R a b.
  Proof.
    intros X W F. split.
    - split; intros m e He; [rewrite X, xlookup_app, He | rewrite W, wlookup_app, He]; reflexivity.
    - intros n s i H. left. rewrite X, xlookup_app in H. destruct (xlookup n (xref a)) eqn:E; [exact H|].
      exfalso. clear E X. induction lx as [|[k e] lx IH]; cbn in *; [discriminate|].
      apply andb_true_iff in F as [F1 F2]. destruct (n =? k).
      + injection H as ->. discriminate.
      + apply IH; assumption.
  Qed.

  Lemma R_same a b : xref b = xref a -> wr b = wr a -> R a b.
  Proof. intros X W. apply (R_app a b [] []); rewrite ?app_nil_r; auto. Qed.

  Ltac rfin := first [ apply R_same; reflexivity
                     | eapply R_app with (lx := []); [ cbn; rewrite ?app_nil_r; reflexivity | reflexivity | reflexivity ] ].

  Lemma alloc_R st r st' : alloc st = Ok (r, st') -> R st st'.
  Proof. unfold alloc. destruct (_ >=? _)%Z; [discriminate|]. intros H; injection H as <- <-. rfin. Qed.

  Lemma set_xref_use_R n off g st st' : set_xref n (EUse off g) st = Ok st' -> R st st'.
  Proof.
    unfold set_xref. destruct (xlookup n (xref st)); [discriminate|]. intros H; injection H as <-.
    eapply R_app with (lw := []); [reflexivity | cbn; rewrite app_nil_r; reflexivity | reflexivity].
  Qed.

  Lemma put_obj_R n g o st st' : put_obj n g o st = Ok st' -> R st st'.
  Proof.
    unfold Writer.put_obj. intros H. binv H. injection Hk as <-.
    eapply R_trans; [eapply set_xref_use_R; eassumption|]. rfin.
  Qed.

  Lemma open_stream_R n g d fs st st' : open_stream n g d fs st = Ok st' -> R st st'.
  Proof.
    unfold open_stream. destruct (strm st); [discriminate|]. intros H. binv H.
    eapply R_trans; [eapply set_xref_use_R; eassumption|].
    destruct (dict_get k_Length d) as [[]|]; try discriminate; injection Hk as <-; rfin.
  Qed.

  Lemma start_stream_R s st s' st' : start_stream s st = Ok (s', st') -> R st st'.
  Proof.
    unfold Writer.start_stream. destruct (s_started s); [intros H; injection H as <- <-; apply R_refl|].
    destruct (dict_get k_Length (s_dict s)); [intros H; injection H as <- <-; apply R_refl|].
    destruct (cseek c); [intros H; injection H as <- <-; apply R_refl|].
    intros H. binv H. destruct a as [r st1]. injection Hk as <- <-. eapply alloc_R; eassumption.
  Qed.

  Lemma write_stream_R bs b st st' : write_stream bs b st = Ok st' -> R st st'.
  Proof.
    unfold Writer.write_stream. destruct (strm st) as [s|]; [|discriminate].
    destruct (_ && _); [discriminate|].
    destruct (b || s_started s).
    - intros H. binv H. destruct a as [s2 st1]. injection Hk as <-.
      eapply R_trans; [eapply start_stream_R; eassumption|]. rfin.
    - intros H; injection H as <-. rfin.
  Qed.

  Lemma finish_stream_R big st st' : finish_stream big st = Ok st' -> R st st'.
  Proof.
    unfold Writer.finish_stream. destruct (strm st) as [s0|]; [|discriminate].
    cbv zeta. intros H. binv H. destruct a as [s st1].
    assert (E1 : R st st1).
    { destruct (if is_plain c s0 then _ else _).
      - eapply start_stream_R; eassumption.
      - injection Hb as <- <-; apply R_refl. }
    destruct (Bool.eqb _ _); [|discriminate].
    destruct (dict_get k_Length (s_dict s)) as [[]|]; try discriminate.
    - destruct (_ =? _)%Z; [|discriminate]. injection Hk as <-. eapply R_trans; [exact E1|]. rfin.
    - destruct (s_started s).
      + destruct (s_lenref s).
        * injection Hk as <-. eapply R_trans; [exact E1|]. rfin.
        * destruct (cseek c); [|discriminate]. injection Hk as <-. eapply R_trans; [exact E1|]. rfin.
      + injection Hk as <-. eapply R_trans; [exact E1|]. rfin.
  Qed.

  Lemma flush_objs_R l : forall st st', flush_objs l st = Ok st' -> R st st'.
  Proof.
    induction l as [|[[n g] o] l IH]; intros st st' H; cbn in H.
    - injection H as <-. rfin.
    - destruct o; [|discriminate]. binv H. eapply R_trans; [eapply put_obj_R; eassumption|]. eapply IH; eassumption.
  Qed.

  Lemma put_stream_now_R n g d data st st' : put_stream_now n g d data st = Ok st' -> R st st'.
  Proof.
    unfold put_stream_now. intros H. binv H. eapply R_trans; [eapply open_stream_R; eassumption|].
    destruct (strm a); [|discriminate]. injection Hk as <-. rfin.
  Qed.

  Lemma flush_after_R l : forall st st', flush_after l st = Ok st' -> R st st'.
  Proof.
    induction l as [|[[n g] o] l IH]; intros st st' H; cbn in H.
    - injection H as <-. apply R_refl.
    - destruct o.
      + binv H. eapply R_trans; [eapply put_obj_R; eassumption|]. eapply IH; eassumption.
      + binv H. binv Hk. binv Hk0.
        eapply R_trans; [eapply put_stream_now_R; eassumption|].
        eapply R_trans; [eapply finish_stream_R; eassumption|].
        eapply R_trans; [eapply flush_objs_R; eassumption|]. eapply IH; eassumption.
  Qed.

  Lemma close_stream_R big st st' : close_stream big st = Ok st' -> R st st'.
  Proof.
    unfold Writer.close_stream. intros H. binv H.
    eapply R_trans; [eapply finish_stream_R; eassumption|].
    eapply R_trans; [|eapply flush_after_R; eassumption]. rfin.
  Qed.

  Lemma put_R n g o big st st' : put n g o big st = Ok st' -> R st st'.
  Proof.
    unfold Writer.put. destruct (strm st).
    - intros H; injection H as <-. rfin.
    - destruct o.
      + apply put_obj_R.
      + intros H. binv H. eapply R_trans; [eapply put_stream_now_R; eassumption|]. eapply close_stream_R; eassumption.
  Qed.

  Lemma put_all_R rs : forall os st st', put_all rs os st = Ok st' -> R st st'.
  Proof.
    induction rs as [|[n g] rs IH]; intros os st st' H; cbn in H.
    - injection H as <-; apply R_refl.
    - destruct os as [|o os]; [injection H as <-; apply R_refl|].
      binv H. eapply R_trans; [eapply put_R; eassumption|]. eapply IH; eassumption.
  Qed.

  (* ---- WriteCompressed with object streams ---- *)

  Fixpoint comp_entries (sref i : N) (rs : list (N * N)) : list (N * entry) :=
    match rs with
    | [] => []
    | (n, _) :: r => (n, EComp sref i) :: comp_entries sref (i + 1) r
    end.

  Fixpoint rec_entries (rs : list (N * N)) (os : list pobj) : list (N * N * wval) :=
    match rs, os with
    | (n, g) :: rs', o :: os' => (n, g, VObj (pobj_obj o)) :: rec_entries rs' os'
    | _, _ => []
    end.

  Lemma set_comp_facts sref rs : forall i st st',
    set_comp sref i rs st = Ok st' ->
    xref st' = xref st ++ comp_entries sref i rs /\ wr st' = wr st /\
    NoDup (map fst rs) /\ (forall n, In n (map fst rs) -> xlookup n (xref st) = None).
  Proof.
    induction rs as [|[n g] rs IH]; intros i st st' H; cbn in H.
    - injection H as <-. cbn. rewrite app_nil_r. repeat split; auto. constructor. intros n [].
    - binv H. unfold set_xref in Hb. destruct (xlookup n (xref st)) eqn:E; [discriminate|]. injection Hb as <-.
      destruct (IH _ _ _ Hk) as [X [W [ND F]]]. cbn in X, W, F.
      split; [rewrite X, <- app_assoc; reflexivity|]. split; [exact W|]. split.
      + cbn. constructor; [|exact ND]. intros Hin. specialize (F _ Hin).
        rewrite xlookup_app, E in F. cbn in F. rewrite N.eqb_refl in F. discriminate.
      + intros m [<-|Hin]; [exact E|]. specialize (F _ Hin). rewrite xlookup_app in F.
        destruct (xlookup m (xref st)); [discriminate | reflexivity].
  Qed.

  Lemma record_all_fields rs : forall os st,
    xref (record_all rs os st) = xref st /\ wr (record_all rs os st) = wr st ++ rec_entries rs os.
  Proof.
    induction rs as [|[n g] rs IH]; intros os st; cbn; [rewrite app_nil_r; auto|].
    destruct os as [|o os]; [rewrite app_nil_r; auto|].
    destruct (IH os (record n g (VObj (pobj_obj o)) st)) as [X W]. rewrite X, W. cbn.
    rewrite <- app_assoc. auto.
  Qed.

  Lemma check_compressed_facts rs : forall os,
    check_compressed rs os = true -> length rs = length os /\ forall n g, In (n, g) rs -> g = 0.
  Proof.
    induction rs as [|[n g] rs IH]; intros [|o os] H; cbn in H; try discriminate.
    - split; [reflexivity | intros n g []].
    - destruct o as [x|]; [|discriminate]. destruct x; try discriminate;
        apply andb_true_iff in H as [H1 H2]; apply N.eqb_eq in H1; subst g;
        destruct (IH _ H2) as [L Z]; (split; [cbn; congruence | intros m g' [Heq|Hin]; [injection Heq as <- <-; reflexivity | eauto]]).
  Qed.

  Lemma comp_entries_lookup sref rs : forall i n e,
    xlookup n (comp_entries sref i rs) = Some e ->
    exists k, nth_error (map fst rs) k = Some n /\ e = EComp sref (i + N.of_nat k).
  Proof.
    induction rs as [|[m g] rs IH]; intros i n e H; cbn in H; [discriminate|].
    destruct (n =? m) eqn:E.
    - apply N.eqb_eq in E. subst m. injection H as <-. exists 0%nat. cbn. split; [reflexivity | f_equal; lia].
    - destruct (IH _ _ _ H) as [k [A B]]. exists (S k). cbn. split; [exact A | subst e; f_equal; lia].
  Qed.

  Lemma rec_entries_lookup rs : forall os k n,
    length rs = length os -> NoDup (map fst rs) -> (forall m g, In (m, g) rs -> g = 0) ->
    nth_error (map fst rs) k = Some n ->
    exists o, nth_error os k = Some o /\ wlookup n (rec_entries rs os) = Some (0, VObj (pobj_obj o)).
  Proof.
    induction rs as [|[m g] rs IH]; intros [|o os] k n L ND Z H; cbn in L; try discriminate.
    - destruct k; discriminate.
    - inversion ND as [|? ? Hnin ND']; subst. destruct k as [|k]; cbn in H.
      + injection H as <-. exists o. cbn. rewrite N.eqb_refl. rewrite (Z m g (or_introl eq_refl)). auto.
      + destruct (IH os k n) as [o' [A B]]; auto.
        { intros m' g' Hin. apply (Z m' g'). right. exact Hin. }
        exists o'. cbn. split; [exact A|].
        destruct (n =? m) eqn:E; [|exact B]. apply N.eqb_eq in E. subst m.
        exfalso. apply Hnin. eapply nth_error_In. exact H.
  Qed.

  (* closing a stream records it *)
  Lemma finish_stream_records big st st' s :
    strm st = Some s -> finish_stream big st = Ok st' ->
    exists lw, wr st' = wr st ++ lw /\ wlookup (s_num s) lw = Some (s_gen s, VStream (s_dict s) (s_fs s) (s_buf s)).
  Proof.
    intros Hs H. unfold Writer.finish_stream in H. rewrite Hs in H. cbv zeta in H. binv H. destruct a as [s1 st1].
    assert (S1 : wr st1 = wr st /\ s_num s1 = s_num s /\ s_gen s1 = s_gen s /\ s_dict s1 = s_dict s /\
                 s_fs s1 = s_fs s /\ s_buf s1 = s_buf s).
    { destruct (if is_plain c s then _ else _).
      - unfold Writer.start_stream in Hb. destruct (s_started s); [injection Hb as <- <-; auto 10|].
        destruct (dict_get k_Length (s_dict s)); [injection Hb as <- <-; cbn; auto 10|].
        destruct (cseek c); [injection Hb as <- <-; cbn; auto 10|].
        binv Hb. destruct a as [r st2]. injection Hk0 as <- <-. cbn.
        unfold alloc in Hb0. destruct (_ >=? _)%Z; [discriminate|]. injection Hb0 as <- <-. cbn. auto 10.
      - injection Hb as <- <-. auto 10. }
    destruct S1 as [W1 [B1 [B2 [B3 [B4 B5]]]]].
    destruct (Bool.eqb _ _); [|discriminate].
    assert (Fin : forall st2, wr st2 = wr st1 ++ [(s_num s, s_gen s, VStream (s_dict s1) (s_fs s1) (s_buf s1))] ->
              exists lw, wr st2 = wr st ++ lw /\
                wlookup (s_num s) lw = Some (s_gen s, VStream (s_dict s) (s_fs s) (s_buf s))).
    { intros st2 E. eexists. rewrite E, W1. split; [reflexivity|]. cbn. rewrite N.eqb_refl, B3, B4, B5. reflexivity. }
    destruct (dict_get k_Length (s_dict s1)) as [[]|]; try discriminate.
    - destruct (_ =? _)%Z; [|discriminate]. injection Hk as <-. apply Fin. reflexivity.
    - destruct (s_started s1).
      + destruct (s_lenref s1).
        * injection Hk as <-. apply Fin. reflexivity.
        * destruct (cseek c); [|discriminate]. injection Hk as <-. apply Fin. reflexivity.
      + injection Hk as <-. apply Fin. reflexivity.
  Qed.

  Lemma wc_one_R rs os big st st' :
    SInv st -> strm st = None -> length rs = length os -> (forall n g, In (n, g) rs -> g = 0) ->
    wc_one fmt fmt_sd encS encB fenc c rs os big st = Ok st' -> R st st'.
  Proof.
    intros SI Hs Len Zg H. unfold wc_one in H.
    binv H. destruct a as [sref st1]. binv Hk.
    destruct (objstm_parts rs (map (fun o => fmt (pobj_obj o)) os) 0) as [head body] eqn:OP.
    binv Hk0.
    destruct (strm a0) as [s3|] eqn:Es; [|discriminate].
    (* the invariants along the way *)
    pose proof (sinv_closed_fields _ _ _ _ _ _ _ SI Hs) as I0.
    pose proof (alloc_inv _ _ _ _ _ _ _ _ _ _ I0 Hb) as I1.
    destruct (alloc_fields _ _ _ Hb) as [F1 [F2 [F3 [F4 [F5 [F6 [F7 F8]]]]]]].
    destruct (set_comp_inv _ _ _ _ _ _ _ _ _ _ _ I1 (eq_trans F4 Hs) Hb0) as [I2 [S2 [A2 [C2 [T2 [W2 [X2 G2]]]]]]].
    destruct (record_all_inv _ _ _ _ _ _ rs os a I2 S2 X2) as [I3 [S3 [A3 [C3 [T3 X3]]]]].
    destruct (open_stream_inv _ _ _ _ _ _ _ _ _ _ _ _ _ I3 Hb1) as [I4 [_ [S4 [A4 C4]]]].
    rewrite S4 in Es. injection Es as <-. cbn in Hk.
    destruct (set_comp_facts _ _ _ _ _ Hb0) as [Xc [Wc [ND Fr]]].
    destruct (record_all_fields rs os a) as [Xr Wr].
    (* the container's entry *)
    assert (Xo : xlookup sref (xref (record_all rs os a)) = None /\ xref a0 = xref (record_all rs os a) ++ [(sref, EUse (pos (record_all rs os a)) 0)] /\ wr a0 = wr (record_all rs os a)).
    { unfold open_stream in Hb1. rewrite S3 in Hb1. binv Hb1. unfold set_xref in Hb2.
      destruct (xlookup sref (xref (record_all rs os a))) eqn:E; [discriminate|]. injection Hb2 as <-.
      split; [reflexivity|]. cbn in Hk0. injection Hk0 as <-. cbn. auto. }
    destruct Xo as [Xn [Xo Wo]].
    match type of Hk with Writer.close_stream _ _ _ _ _ _ _ ?x = _ => set (st5 := x) in * end.
    pose proof (close_stream_R _ _ _ Hk) as [G5 N5].
    assert (G : grows st st').
    { eapply grows_trans; [|exact G5]. split; cbn; intros m e He.
      - rewrite Xo, Xr, Xc, F3, !xlookup_app, He. reflexivity.
      - rewrite Wo, Wr, Wc, F6, wlookup_app, He. reflexivity. }
    split; [exact G|].
    intros n s i Hn. destruct (N5 _ _ _ Hn) as [Hold|Hm]; [|right; exact Hm].
    cbn in Hold. rewrite Xo, Xr, Xc, F3, !xlookup_app in Hold.
    destruct (xlookup n (xref st)) eqn:En; [left; exact Hold|].
    destruct (xlookup n (comp_entries sref 0 rs)) eqn:Ec.
    2:{ cbn in Hold. destruct (n =? sref); discriminate. }
    injection Hold as ->. right.
    destruct (comp_entries_lookup _ _ _ _ _ Ec) as [k [Hk1 Hk2]]. injection Hk2 as -> ->.
    (* the container's record *)
    unfold Writer.close_stream in Hk. binv Hk.
    edestruct (finish_stream_records big st5 a1) as [lw [Wf Lf]]; [unfold st5; cbn; reflexivity | exact Hb2 |]. cbn in Wf, Lf.
    pose proof (flush_after_R _ _ _ Hk0) as [[_ Gw] _].
    assert (Wsref : wlookup sref (wr (record_all rs os a)) = None).
    { eapply wr_fresh; [exact I3 | exact Xn]. }
    exists rs, os, head, body, (pos (record_all rs os a)).
    split.
    { apply G5. cbn. rewrite Xo, xlookup_app, Xn. cbn. rewrite N.eqb_refl. reflexivity. }
    split.
    { apply Gw. cbn. rewrite Wf, Wo, wlookup_app, Wsref. exact Lf. }
    split; [exact OP|]. split; [exact Len|]. split; [exact ND|]. split.
    { rewrite ?N.add_0_l, Nat2N.id. exact Hk1. }
    intros k' m Hk'.
    destruct (rec_entries_lookup rs os k' m Len ND Zg Hk') as [o [Ho Hw]].
    exists o. split; [exact Ho|].
    apply Gw. cbn. rewrite Wf, Wo, Wr, Wc, F6, !wlookup_app.
    assert (Wn : wlookup m (wr st) = None).
    { eapply wr_fresh; [exact I0|]. rewrite <- F3. apply Fr. eapply nth_error_In; eassumption. }
    rewrite Wn, Hw. reflexivity.
  Qed.


  Lemma wc_chunks_R fuel : forall rs os bigs st st',
    SInv st -> strm st = None -> length rs = length os -> (forall n g, In (n, g) rs -> g = 0) ->
    wc_chunks fmt fmt_sd encS encB fenc c fuel rs os bigs st = Ok st' -> R st st'.
  Proof.
    induction fuel as [|f IH]; intros rs os bigs st st' SI Hs Len Zg H; cbn [wc_chunks] in H; [discriminate|].
    destruct (Nat.ltb _ _).
    - binv H.
      assert (L1 : length (firstn max_members rs) = length (firstn max_members os)) by (rewrite !firstn_length; lia).
      assert (Z1 : forall n g, In (n, g) (firstn max_members rs) -> g = 0).
      { intros n g Hin. apply (Zg n g). rewrite <- (firstn_skipn max_members rs). apply in_or_app. auto. }
      assert (L2 : length (skipn max_members rs) = length (skipn max_members os)) by (rewrite !skipn_length; lia).
      assert (Z2 : forall n g, In (n, g) (skipn max_members rs) -> g = 0).
      { intros n g Hin. apply (Zg n g). rewrite <- (firstn_skipn max_members rs). apply in_or_app. auto. }
      destruct (wc_one_inv _ _ _ _ _ _ _ _ _ _ _ SI Hs Hb) as [S1 [N1 _]].
      eapply R_trans; [exact (wc_one_R _ _ _ _ _ SI Hs L1 Z1 Hb) | exact (IH _ _ _ _ _ S1 N1 L2 Z2 Hk)].
    - exact (wc_one_R _ _ _ _ _ SI Hs Len Zg H).
  Qed.

  Lemma write_compressed_R rs os bigs st st' :
    SInv st -> write_compressed rs os bigs st = Ok st' -> R st st'.
  Proof.
    intros SI H. unfold Writer.write_compressed in H. destruct (strm st) eqn:Hs; [discriminate|].
    destruct (check_compressed rs os) eqn:CC; [|discriminate]. cbn [negb] in H.
    destruct (check_compressed_facts _ _ CC) as [Len Zg].
    destruct os as [|o0 os0]; [injection H as <-; apply R_refl|].
    destruct (negb (use_objstm c)); [eapply put_all_R; exact H|].
    eapply wc_chunks_R; eassumption.
  Qed.

  Lemma write_xref_stream_R tr st st' : write_xref_stream tr st = Ok st' -> R st st'.
  Proof.
    unfold Writer.write_xref_stream. intros H. binv H. destruct a as [r st1]. cbv zeta in Hk.
    binv Hk. injection Hk0 as <-.
    eapply R_trans; [eapply alloc_R; eassumption|].
    eapply R_trans; [eapply set_xref_use_R; eassumption|]. rfin.
  Qed.

  Lemma close_R cat info st st' : close cat info st = Ok st' -> R st st'.
  Proof.
    intros Hc0; apply close_ok in Hc0; revert Hc0.
    unfold Writer.close0. destruct (strm st); [discriminate|].
    intros H. binv H. destruct a as [croot st1]. binv Hk. binv Hk0. destruct a0 as [iref st5].
    cbv zeta in Hk. binv Hk. injection Hk0 as <-.
    eapply R_trans; [eapply alloc_R; eassumption|].
    eapply R_trans; [eapply put_obj_R; eassumption|].
    assert (E : R a st5).
    { destruct info.
      - binv Hb1. destruct a1 as [ri st3]. binv Hk.
        match goal with Hx : Ok _ = Ok (iref, st5) |- _ => injection Hx as <- <- end.
        eapply R_trans; [eapply alloc_R; eassumption|]. eapply put_obj_R; eassumption.
      - injection Hb1 as <- <-. apply R_refl. }
    eapply R_trans; [exact E|].
    assert (E2 : R st5 a0).
    { destruct (use_xrefstm c).
      - eapply write_xref_stream_R; eassumption.
      - binv Hb2.
        match goal with Hx : Ok _ = Ok a0 |- _ => injection Hx as <- end.
        match goal with Ht : Writer.write_xref_table _ _ st5 = Ok _ |- _ =>
          unfold Writer.write_xref_table in Ht; destruct (has_comp _); [discriminate|]; injection Ht as <- end.
        rfin. }
    eapply R_trans; [exact E2|]. rfin.
  Qed.

  Lemma step_R st o st' : SInv st -> step st o = Ok st' -> R st st'.
  Proof.
    intros SI Hs0; apply step_ok in Hs0; revert Hs0.
    unfold Writer.step0. destruct (closed st); [discriminate|]. destruct o.
    - intros H. binv H. destruct a as [r st1]. injection Hk as <-. eapply alloc_R; eassumption.
    - apply put_R.
    - apply write_compressed_R; exact SI.
    - apply open_stream_R.
    - apply write_stream_R.
    - apply close_stream_R.
    - apply close_R.
  Qed.

  Definition OInv (st : state) : Prop :=
    forall n s i, xlookup n (xref st) = Some (EComp s i) -> member_ok st n s i.

  Lemma R_OInv st st' : OInv st -> R st st' -> OInv st'.
  Proof.
    intros O [G Nw] n s i H. destruct (Nw _ _ _ H) as [Hold|Hm]; [|exact Hm].
    eapply member_ok_grows; [exact G | apply O; exact Hold].
  Qed.

  Lemma run_from_OInv ops : forall st st',
    SInv st -> closed st = false -> OInv st -> run_from st ops = Ok st' -> OInv st'.
  Proof.
    induction ops as [|o ops IH]; intros st st' SI Hc O H; cbn in H.
    - injection H as <-. exact O.
    - binv H. pose proof (R_OInv _ _ O (step_R _ _ _ SI Hb)) as O1.
      destruct (step_inv _ _ _ _ _ _ _ _ _ _ SI Hb) as [_ [[S1 C1]|F]].
      + eapply IH; eassumption.
      + destruct ops as [|o2 ops]; cbn in Hk.
        * injection Hk as <-. exact O1.
        * rewrite (final_stuck _ _ _ _ _ _ _ _ o2 F) in Hk. discriminate.
  Qed.

  (* every compressed entry is backed by the record of its container and of the member *)
  Lemma members_lemma ops st :
    run ops = Ok st -> forall n s i, xlookup n (xref st) = Some (EComp s i) -> member_ok st n s i.
  Proof.
    unfold Writer.run. intros H. binv H. destruct (init_sinv fmt fmt_sd encS encB fenc c _ Hb) as [S0 C0].
    eapply run_from_OInv; [exact S0 | exact C0 | | exact Hk].
    intros n s i Hn. unfold init in Hb.
    destruct (negb _); [discriminate|]. destruct (_ && _); [discriminate|].
    destruct (_ && _); [discriminate|]. injection Hb as <-. cbn in Hn. destruct (n =? 0); discriminate.
  Qed.
End ObjStm.
