(* C02: sample values and programs used by the Examples of Prop_C02.v (definitions only). *)
From Coq Require Import List NArith ZArith Bool String.
From GoPdf.Base Require Import Bytes Res.
From GoPdf.C02 Require Import Obj Dec Syntax Writer.
Import ListNotations.
Open Scope N_scope.
Open Scope string_scope.

Definition b_endobj : bytes := Eval compute in B "endobj".
Definition b_stream : bytes := Eval compute in B "stream".
Definition b_K : bytes := Eval compute in B "K".

Definition sample_value : obj :=
  ODict [(B "Z", OArr [OInt (-5); OReal (B "1.5"); ONull; ORef 1 0; OInt 3; OInt 4; OStr [0; 40; 41; 255]]);
         (B "A b", OName (B "n#/"));
         (B "N", ONull);
         (B "D", ODict [(B "K", OBool true)])].

Definition sample_cfg : cfg :=
  {| cv := 7; chuman := false; cseek := false; ccipher := CNone; cid := None; cencrypt := None |}.

Definition sample_ops : list op :=
  [Alloc; Put 1 0 (PObj (ODict [(B "Type", OName (B "Pages")); (B "Kids", OArr []); (B "Count", OInt 0)])) false;
   Alloc; Alloc; Alloc; Alloc;
   OpenStream 2 0 [(B "X", OStr [1; 2; 255])] []; Write [104; 105] false;
   Put 3 0 (PObj (OArr [OInt (-5); ONull; ORef 1 0])) false; CloseStream false;
   WriteCompressed [(4, 0); (5, 0)] [PObj (OInt 7); PObj (OName (B "a b"))] [false];
   Close (ODict [(B "Type", OName (B "Catalog")); (B "Pages", ORef 1 0)]) None].

Definition sample_refs : list (N * N) :=
  [(0, 0); (1, 0); (2, 0); (3, 0); (4, 0); (5, 0); (6, 0); (7, 0); (8, 0); (9, 0); (1, 1)].
