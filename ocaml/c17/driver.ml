(* C17 model driver.  Input lines (keys: hex byte strings for name trees, decimal for number trees):
     <id> W <N|Z> <n> <k1>..<kn> <m> <p1>..<pm>    write the entries (ki, i-1), then look the probes up
     <id> R <N|Z> <tree> <m> <p1>..<pm>            run the readers and the validator on a raw tree
                                                   (r: without the in-memory reader)
   tree ::= L <lim> <n> (<k> <v>)^n | I <lim> <n> <tree>^n      lim ::= n | l <lo> <hi>
   Output: <id> <status> size= valid= enum= look= [mem= memlook=]      (no model logic here: I/O only) *)
open Wire

let hash_str h s =
  let h = ref h in
  Stdlib.String.iter (fun c -> h := ((!h * 31) + Char.code c) land 0xFFFFFFFFFF) s;
  !h

let enum_hash tok l =
  Stdlib.List.fold_left (fun h (k, v) -> hash_str (hash_str (hash_str (hash_str h (tok k)) ":") (string_of_z v)) ";") 7 l

let show_res r = match r with
  | Res.Ok None -> "-"
  | Res.Ok (Some v) -> string_of_z v
  | Res.Err _ -> "E"

let show_opt r = match r with None -> "-" | Some v -> string_of_z v

type 'k ops = {
  key : string -> 'k;
  tok : 'k -> string;
  write : ('k * BinNums.coq_Z) list -> ('k, BinNums.coq_Z) KeyTree.node option Res.res;
  lookup : ('k, BinNums.coq_Z) KeyTree.node -> 'k -> BinNums.coq_Z option Res.res;
  all : ('k, BinNums.coq_Z) KeyTree.node -> ('k * BinNums.coq_Z) list;
  extract : ('k, BinNums.coq_Z) KeyTree.node -> ('k * BinNums.coq_Z) list;
  mem_lookup : ('k * BinNums.coq_Z) list -> 'k -> BinNums.coq_Z option;
  mem_all : ('k * BinNums.coq_Z) list -> ('k * BinNums.coq_Z) list;
  tree_ok : ('k, BinNums.coq_Z) KeyTree.node -> bool;
  g_lookup : ('k, BinNums.coq_Z) KeyGraph.gnode option list -> Datatypes.nat -> 'k -> BinNums.coq_Z option Res.res * Datatypes.nat;
  g_all : ('k, BinNums.coq_Z) KeyGraph.gnode option list -> Datatypes.nat -> ('k * BinNums.coq_Z) list * Datatypes.nat;
  g_extract : ('k, BinNums.coq_Z) KeyGraph.gnode option list -> Datatypes.nat -> ('k * BinNums.coq_Z) list;
  g_size : ('k, BinNums.coq_Z) KeyGraph.gnode option list -> Datatypes.nat;
}

let name_ops = {
  key = bytes_of_hex; tok = hex_of_bytes;
  write = KeyTreeInst.name_write; lookup = KeyTreeInst.name_lookup; all = KeyTreeInst.name_all;
  extract = KeyTreeInst.name_extract; mem_lookup = KeyTreeInst.name_mem_lookup;
  mem_all = KeyTreeInst.name_mem_all; tree_ok = KeyTreeInst.name_tree_ok;
  g_lookup = KeyGraphInst.name_g_lookup; g_all = KeyGraphInst.name_g_all; g_extract = KeyGraphInst.name_g_extract;
  g_size = KeyGraphInst.name_heap_size }

let num_ops = {
  key = z_of_string; tok = string_of_z;
  write = KeyTreeInst.num_write; lookup = KeyTreeInst.num_lookup; all = KeyTreeInst.num_all;
  extract = KeyTreeInst.num_extract; mem_lookup = KeyTreeInst.num_mem_lookup;
  mem_all = KeyTreeInst.num_mem_all; tree_ok = KeyTreeInst.num_tree_ok;
  g_lookup = KeyGraphInst.num_g_lookup; g_all = KeyGraphInst.num_g_all; g_extract = KeyGraphInst.num_g_extract;
  g_size = KeyGraphInst.num_heap_size }

(* token cursor *)
let toks = ref [||]
let pos = ref 0
let next () = let t = !toks.(!pos) in incr pos; t

let rec parse_tree ops =
  let kind = next () in
  let lim = match next () with
    | "n" -> None
    | "l" -> let lo = ops.key (next ()) in let hi = ops.key (next ()) in Some (lo, hi)
    | _ -> failwith "bad lim" in
  let n = int_of_string (next ()) in
  match kind with
  | "L" ->
    let rec go i acc = if i = 0 then Stdlib.List.rev acc else
        let k = ops.key (next ()) in let v = z_of_string (next ()) in go (i - 1) ((k, v) :: acc) in
    KeyTree.Leaf (lim, go n [])
  | "I" ->
    let rec go i acc = if i = 0 then Stdlib.List.rev acc else let c = parse_tree ops in go (i - 1) (c :: acc) in
    KeyTree.Inner (lim, go n [])
  | _ -> failwith "bad node"

let probes ops =
  let m = int_of_string (next ()) in
  let rec go i acc = if i = 0 then Stdlib.List.rev acc else let k = ops.key (next ()) in go (i - 1) (k :: acc) in
  go m []

let report ops id status t ps with_mem =
  let al = ops.all t in
  let look = Stdlib.String.concat "," (Stdlib.List.map (fun k -> show_res (ops.lookup t k)) ps) in
  Printf.printf "%s %s size=%d valid=%s enum=%d look=%s" id status (Stdlib.List.length al)
    (string_of_bool (ops.tree_ok t)) (enum_hash ops.tok al) look;
  if with_mem then begin
    let d = ops.extract t in
    let ml = Stdlib.String.concat "," (Stdlib.List.map (fun k -> show_opt (ops.mem_lookup d k)) ps) in
    Printf.printf " mem=%d memlook=%s" (enum_hash ops.tok (ops.mem_all d)) ml
  end;
  print_newline ()

let run ops id op =
  match op with
  | "W" ->
    let n = int_of_string (next ()) in
    let rec go i acc = if i = n then Stdlib.List.rev acc else
        let k = ops.key (next ()) in go (i + 1) ((k, z_of_int i) :: acc) in
    let es = go 0 [] in
    let ps = probes ops in
    (match ops.write es with
     | Res.Err Res.OutOfFuel -> Printf.printf "%s fuel\n" id
     | Res.Err _ -> Printf.printf "%s err\n" id
     | Res.Ok None -> Printf.printf "%s none\n" id
     | Res.Ok (Some t) -> report ops id "ok" t ps false)
  | "R" | "r" ->
    let t = parse_tree ops in
    let ps = probes ops in
    report ops id "raw" t ps (op = "R")
  | "G" ->
    (* <nn> (X | L <lim> <n> (<k> <v>)^n | I <lim> <n> <ref>^n)^nn <root> <m> <probes> *)
    let nn = int_of_string (next ()) in
    let read_lim () = match next () with
      | "n" -> None
      | "l" -> let lo = ops.key (next ()) in let hi = ops.key (next ()) in Some (lo, hi)
      | _ -> failwith "bad lim" in
    let rec nodes i acc = if i = 0 then Stdlib.List.rev acc else
        let nd = (match next () with
          | "X" -> None
          | "L" -> let lim = read_lim () in let n = int_of_string (next ()) in
            let rec go i acc = if i = 0 then Stdlib.List.rev acc else
                let k = ops.key (next ()) in let v = z_of_string (next ()) in go (i - 1) ((k, v) :: acc) in
            Some (KeyGraph.GLeaf (lim, go n []))
          | "I" -> let lim = read_lim () in let n = int_of_string (next ()) in
            let rec go i acc = if i = 0 then Stdlib.List.rev acc else
                let r = nat_of_int (int_of_string (next ())) in go (i - 1) (r :: acc) in
            Some (KeyGraph.GInner (lim, go n []))
          | _ -> failwith "bad gnode") in
        nodes (i - 1) (nd :: acc) in
    let h = nodes nn [] in
    let root = nat_of_int (int_of_string (next ())) in
    let ps = probes ops in
    let (al, wa) = ops.g_all h root in
    let works = ref (int_of_nat wa) in
    let look = Stdlib.String.concat "," (Stdlib.List.map (fun k ->
        let (r, w) = ops.g_lookup h root k in works := max !works (int_of_nat w); show_res r) ps) in
    let d = ops.g_extract h root in
    let ml = Stdlib.String.concat "," (Stdlib.List.map (fun k -> show_opt (ops.mem_lookup d k)) ps) in
    (* the bound of Prop_C17.graph_work_bound, evaluated on this very graph *)
    let bounded = !works <= 2 * int_of_nat (ops.g_size h) in
    Printf.printf "%s graph size=%d enum=%d look=%s mem=%d memlook=%s bounded=%s\n" id (Stdlib.List.length al)
      (enum_hash ops.tok al) look (enum_hash ops.tok (ops.mem_all d)) ml (string_of_bool bounded)
  | _ -> Printf.printf "%s badcase\n" id

let () =
  iter_lines (fun line ->
    match words line with
    | id :: op :: kt :: rest ->
      toks := Array.of_list rest; pos := 0;
      (match kt with
       | "N" -> run name_ops id op
       | "Z" -> run num_ops id op
       | _ -> Printf.printf "%s badcase\n" id)
    | _ -> ())
