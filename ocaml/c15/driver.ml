(* C15 model driver.  Input lines:
     <id> CS <hex>                                 cscan: all operators of the content stream
     <id> CF <n> { <hexname> <k> <value>*k }*n     cformat -> hex of the text
     <id> NS <pre2> <hexname>*                     nesting model: run, then ClosingOperators
     <id> NT <hexname>                             operator table: Allowed mask and Transition
     <id> BA <v2> <n> <call>*n                     BuilderModel.build_ops: the operators n Builder calls append,
                                                   given the values of their arguments; a call is
                                                   I <dictvalue> <hexdata> | T <hex> | Q <hex> | K <arrayvalue> |
                                                   M <hextag> | B <hextag> | P <hexname>; printed like CS
   Values use the prefix code of DESIGN.md Appendix B and are printed in canonical form.
   I/O and conversion only - no model logic. *)
open Wire

(* ---- decoding values ---- *)
let bytes_of_string (s : string) : BinNums.coq_N list =
  Stdlib.List.init (Stdlib.String.length s) (fun i -> byte_table.(Char.code s.[i]))

let rec parse_value (fs : string list) : Obj.obj * string list =
  match fs with
  | [] -> failwith "value expected"
  | w :: rest ->
    let body = Stdlib.String.sub w 1 (Stdlib.String.length w - 1) in
    (match w.[0] with
     | 'n' -> (Obj.ONull, rest)
     | 't' -> (Obj.OBool true, rest)
     | 'f' -> (Obj.OBool false, rest)
     | 'i' -> (Obj.OInt (z_of_string body), rest)
     | 'r' -> (Obj.OReal (bytes_of_string body), rest)
     | 'N' -> (Obj.OName (bytes_of_hex body), rest)
     | 'S' -> (Obj.OStr (bytes_of_hex body), rest)
     | 'a' -> (Obj.ONilArr, rest)
     | 'd' -> (Obj.ONilDict, rest)
     | 'R' ->
       (match Stdlib.String.split_on_char '.' body with
        | [a; b] -> (Obj.ORef (z_of_string a, z_of_string b), rest)
        | _ -> failwith "bad ref")
     | 'A' ->
       let k = int_of_string body in
       let (vs, rest) = parse_values k rest in
       (Obj.OArr vs, rest)
     | 'D' ->
       let k = int_of_string body in
       let rec go k fs acc =
         if k = 0 then (Stdlib.List.rev acc, fs)
         else match fs with
           | key :: fs' ->
             let (v, fs'') = parse_value fs' in
             go (k - 1) fs'' ((bytes_of_hex key, v) :: acc)
           | [] -> failwith "bad dict"
       in
       let (es, rest) = go k rest [] in
       (Obj.ODict es, rest)
     | _ -> failwith ("bad value " ^ w))

and parse_values k fs =
  if k = 0 then ([], fs)
  else
    let (v, fs') = parse_value fs in
    let (vs, fs'') = parse_values (k - 1) fs' in
    (v :: vs, fs'')

(* ---- printing values ---- *)
let string_of_bytes (l : BinNums.coq_N list) : string =
  let b = Buffer.create 16 in
  Stdlib.List.iter (fun x -> Buffer.add_char b (Char.chr (int_of_n x land 255))) l;
  Buffer.contents b

(* A real is its token; an operator met inside an array or dictionary is represented by its
   token too (Content.v).  The token is a number exactly when it has the syntax the scanner's
   parseNumber accepts: sign, digits, at most one dot, at least one digit, finite value. *)
let is_num_token (s : string) : bool =
  let n = Stdlib.String.length s in
  let digits = ref 0 and dots = ref 0 and ok = ref true in
  Stdlib.String.iteri (fun i c ->
    if c >= '0' && c <= '9' then incr digits
    else if c = '.' then incr dots
    else if i = 0 && (c = '+' || c = '-') then ()
    else ok := false) s;
  n > 0 && !ok && !digits > 0 && !dots <= 1

let real_bits (tok : BinNums.coq_N list) : string =
  let s = string_of_bytes tok in
  let op () = "O" ^ hex_of_bytes tok in
  if not (is_num_token s) then op ()
  else
    match float_of_string_opt s with
    | None -> op ()
    | Some x ->
      if Float.is_integer x || true then
        if x = infinity || x = neg_infinity then op ()
        else
          let x = if x = 0.0 then 0.0 else x in
          Printf.sprintf "r%016Lx" (Int64.bits_of_float x)
      else op ()

let rec print_value (b : Buffer.t) (o : Obj.obj) : unit =
  match o with
  | Obj.ONull -> Buffer.add_string b " n"
  | Obj.OBool true -> Buffer.add_string b " t"
  | Obj.OBool false -> Buffer.add_string b " f"
  | Obj.OInt z -> Buffer.add_string b (" i" ^ string_of_z z)
  | Obj.OReal t -> Buffer.add_string b (" " ^ real_bits t)
  | Obj.OName n -> Buffer.add_string b (" N" ^ hex_of_bytes n)
  | Obj.OStr s -> Buffer.add_string b (" S" ^ hex_of_bytes s)
  | Obj.ONilArr -> Buffer.add_string b " a"
  | Obj.ONilDict -> Buffer.add_string b " d"
  | Obj.ORef (n, g) -> Buffer.add_string b (" R" ^ string_of_z n ^ "." ^ string_of_z g)
  | Obj.OArr l ->
    Buffer.add_string b (Printf.sprintf " A%d" (Stdlib.List.length l));
    Stdlib.List.iter (print_value b) l
  | Obj.ODict l ->
    Buffer.add_string b (Printf.sprintf " D%d" (Stdlib.List.length l));
    Stdlib.List.iter (fun (k, v) -> Buffer.add_string b (" " ^ hex_of_bytes k); print_value b v) l


let limits = Content.cstd_limits

let print_op (b : Buffer.t) (op : Content.cop) : unit =
  Buffer.add_string b (" ; P" ^ hex_of_bytes op.Content.op_name);
  Buffer.add_string b (Printf.sprintf " %d" (Stdlib.List.length op.Content.op_args));
  Stdlib.List.iter (fun v -> print_value b (Content.ccanon v)) op.Content.op_args

let rec parse_ops n fs =
  if n = 0 then []
  else match fs with
    | name :: k :: rest ->
      let (vs, rest') = parse_values (int_of_string k) rest in
      { Content.op_name = bytes_of_hex name; Content.op_args = vs } :: parse_ops (n - 1) rest'
    | _ -> failwith "bad op list"

let cobj_name (c : State.cobj) : string =
  match c with
  | State.CPage -> "page" | State.CPath -> "path" | State.CText -> "text"
  | State.CClip -> "clip" | State.CT3Start -> "t3start"

let pair_char (p : State.pair) : string =
  match p with State.PQ -> "q" | State.PBT -> "T" | State.PBMC -> "M" | State.PBX -> "X"

let () =
  iter_lines (fun line ->
    match words line with
    | [id; "CS"; h] ->
      (match Content.cscan limits (bytes_of_hex h) with
       | Some ops ->
         let b = Buffer.create 64 in
         Stdlib.List.iter (print_op b) ops;
         Printf.printf "%s ok %d%s\n" id (Stdlib.List.length ops) (Buffer.contents b)
       | None -> Printf.printf "%s outoffuel\n" id)
    | id :: "CF" :: n :: rest ->
      let ops = parse_ops (int_of_string n) rest in
      Printf.printf "%s %s\n" id (hex_of_bytes (Content.cformat ops))
    | id :: "NS" :: pre2 :: names ->
      let s0 = { State.cur = State.CPage; State.nesting = []; State.pre2 = (pre2 = "1") } in
      (* run until the first rejected operator *)
      let rec go s i = function
        | [] -> (s, -1)
        | n :: r ->
          (match State.apply_op s (State.sop_of_name (bytes_of_hex n)) with
           | Some s' -> go s' (i + 1) r
           | None -> (s, i))
      in
      let (s, rej) = go s0 0 names in
      let closed =
        match State.run_ops s (State.closing_ops s) with
        | Some s' -> State.can_close s'
        | None -> false in
      let ok_others = Stdlib.List.for_all (fun n -> State.other_ok (State.sop_of_name (bytes_of_hex n))) names in
      Printf.printf "%s rej=%d cur=%s nest=%s closers=%d closed=%s otherok=%s\n" id rej (cobj_name s.State.cur)
        (Stdlib.String.concat "" (Stdlib.List.rev_map pair_char s.State.nesting))
        (Stdlib.List.length (State.closing_ops s)) (string_of_bool closed) (string_of_bool ok_others)
    | id :: "BA" :: v2 :: n :: rest ->
      let rec calls n fs =
        if n = 0 then []
        else match fs with
          | "I" :: fs' ->
            let (d, fs'') = parse_value fs' in
            (match d, fs'' with
             | Obj.ODict es, h :: fs3 -> BuilderModel.BImage (es, bytes_of_hex h) :: calls (n - 1) fs3
             | Obj.ONilDict, h :: fs3 -> BuilderModel.BImage ([], bytes_of_hex h) :: calls (n - 1) fs3
             | _ -> failwith "bad image call")
          | "T" :: h :: fs' -> BuilderModel.BShow (bytes_of_hex h) :: calls (n - 1) fs'
          | "Q" :: h :: fs' -> BuilderModel.BShowNext (bytes_of_hex h) :: calls (n - 1) fs'
          | "K" :: fs' ->
            let (a, fs'') = parse_value fs' in
            (match a with
             | Obj.OArr l -> BuilderModel.BShowKerned l :: calls (n - 1) fs''
             | _ -> BuilderModel.BShowKerned [] :: calls (n - 1) fs'')
          | "M" :: h :: fs' -> BuilderModel.BPoint (bytes_of_hex h) :: calls (n - 1) fs'
          | "B" :: h :: fs' -> BuilderModel.BMarkStart (bytes_of_hex h) :: calls (n - 1) fs'
          | "P" :: h :: fs' -> BuilderModel.BPlain (bytes_of_hex h) :: calls (n - 1) fs'
          | _ -> failwith "bad call list" in
      let ops = BuilderModel.build_ops (v2 = "1") (calls (int_of_string n) rest) in
      let b = Buffer.create 64 in
      Stdlib.List.iter (print_op b) ops;
      Printf.printf "%s ok %d%s\n" id (Stdlib.List.length ops) (Buffer.contents b)
    | [id; "NT"; n] ->
      let o = State.sop_of_name (bytes_of_hex n) in
      let trans = match o with
        | State.SOther (_, Some c) -> cobj_name c
        | State.SBT -> "text" | State.SET -> "page"
        | _ -> "-" in
      Printf.printf "%s mask=%s trans=%s\n" id (string_of_n (State.op_mask o)) trans
    | [] -> ()
    | id :: _ -> Printf.printf "%s badcase\n" id)
