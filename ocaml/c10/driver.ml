(* C10 model driver (the C09 driver plus the operations F and W).  Input lines (fields separated by blanks, byte strings in hex, "-" = empty):
     <id> A <R> <keybytes> <P> <plainmeta> <id0> <O> <U> <OE> <UE> <Perms> <supplied> <pw> <aes> <n> (<num> <gen> <s|t|r:early:sizes:sizes> <raw>)*n
          open the handler as parseEncryptDict does, then decrypt the n strings/streams
     <id> C <V> <perm> <keybits> <plainmeta> <id0> <user> <owner> [<filekey> <usalt> <osalt> <fill>]
          createStdSecHandler (randomness supplied for R6)
     <id> E <aes> <R> <keybytes> <filekey> <num> <gen> <iv> <s|t> <k> <chunk>*k      encrypt a string / a stream
     <id> D <aes> <bits> <version> <R> <plainmeta>                                  entries of AsDict
     <id> H <md5|sha256|sha384|sha512> <data>      <id> X <key> <data>  (RC4)
     <id> B <e|d> <key> <block>   (AES block)      <id> P <R> <perm>    (permission algebra)
     <id> U <data>  (unpadPKCS7)
     <id> G <supplied> <pw> <id0> <n> (<entry> <i|n|s|b|c> <value>)*n   parseEncryptDict + authentication on an abstract /Encrypt
     <id> F <V> <perm> <keybits> <plainmeta> <id0> <user> <owner> <filekey|-> <usalt|-> <osalt|-> <fill|-> <aes> <n>
            (<num> <gen> <s|t> <iv> <k> <chunk>*k)*n
          createStdSecHandler, then encrypt n strings/streams with the handler's file key
     <id> W <kind> <plainmeta> <s|t>   whether the strings / the stream data of an object of that kind the Writer encrypts (WriterModel.encrypts)
   Output: <id> <observation> *)
open Wire
open StdSec

let b = bytes_of_hex
let hx = hex_of_bytes
let zi s = z_of_string s
let flag s = s = "1"

let ekey_name = function
  | KFilter -> "Filter" | KV -> "V" | KR -> "R" | KO -> "O" | KU -> "U" | KP -> "P"
  | KLength -> "Length" | KCF -> "CF" | KStmF -> "StmF" | KStrF -> "StrF"
  | KEncryptMetadata -> "EncryptMetadata" | KOE -> "OE" | KUE -> "UE" | KPerms -> "Perms"

let cls_name = function
  | Res.Auth -> "auth" | Res.OutOfFuel -> "outoffuel" | Res.EOF -> "err" | _ -> "err"

let show_handler (h : handler) key =
  Printf.sprintf "R=%s P=%s O=%s U=%s OE=%s UE=%s Perms=%s key=%s" (string_of_z h.hR) (string_of_z h.hP)
    (hx h.hO) (hx h.hU) (hx h.hOE) (hx h.hUE) (hx h.hPerms) (hx key)

let rec items id i n fs f =
  if i < n then
    match fs with
    | num :: gen :: kind :: raw :: rest ->
      Printf.printf "%s.%d %s\n" id i (f (n_of_string num) (n_of_string gen) kind (b raw));
      items id (i + 1) n rest f
    | _ -> Printf.printf "%s.%d badcase\n" id i

let () =
  iter_lines (fun line ->
    match words line with
    | id :: "A" :: r :: kb :: p :: plain :: id0 :: o :: u :: oe :: ue :: perms :: supplied :: pw :: aes :: n :: rest ->
      let h = { hR = zi r; hID = b id0; hO = b o; hU = b u; hOE = b oe; hUE = b ue; hPerms = b perms;
                hP = zi p; hKeyBytes = nat_of_int (int_of_string kb); hPlainMeta = flag plain } in
      let n = int_of_string n in
      (* a password field "!" stands for a candidate the preparation is not defined on *)
      (match open_handler_prep h (flag supplied) (if pw = "!" then None else Some (b pw)) with
       | Res.Ok (perm, key) ->
         Printf.printf "%s ok %s %s\n" id (string_of_z perm) (hx key);
         items id 0 n rest (fun num gen kind raw ->
           let okey = key_for_ref h.hR h.hKeyBytes key (flag aes) num gen in
           let r =
             if kind = "s" then decrypt_bytes (flag aes) okey raw
             else if Stdlib.String.length kind > 1 && kind.[0] = 'r' then begin
               (* r:<early>:<source sizes minus one, comma separated or ->:<consumer sizes minus one or -> *)
               match Stdlib.String.split_on_char ':' kind with
               | [_; early; ss; cs] ->
                 let nats s = if s = "-" then [] else Stdlib.List.map (fun x -> nat_of_int (int_of_string x)) (Stdlib.String.split_on_char ',' s) in
                 read_stream (flag aes) okey raw (nats ss) (flag early) (nats cs)
               | _ -> Res.Err Res.Other
             end
             else if flag aes then
               (* C10: the independent reading of ISO 32000 7.6.3.1 - an AES stream is an IV followed by at least one
                  block, the last one carrying the padding (the library's own reader also accepts a bare IV) *)
               decrypt_bytes true okey raw
             else decrypt_stream (flag aes) okey raw in
           match r with Res.Ok d -> hx d | Res.Err _ -> "ERR")
       | Res.Err c ->
         Printf.printf "%s %s\n" id (cls_name c);
         items id 0 n rest (fun _ _ _ _ -> "locked"))
    | id :: "C" :: v :: perm :: bits :: plain :: id0 :: user :: owner :: rest ->
      let v = zi v and perm = zi perm in
      (match choose_R v perm with
       | None -> Printf.printf "%s reject\n" id
       | Some r ->
         if int_of_z r <= 4 then begin
           let (h, key) = create_legacy r (b id0) (b user) (b owner) perm (nat_of_int (int_of_string bits / 8)) (flag plain) in
           Printf.printf "%s %s\n" id (show_handler h key)
         end else begin
           match rest with
           | [fkey; usalt; osalt; fill] ->
             (match create6 (b id0) (b user) (b owner) perm (flag plain) (b fkey) (b usalt) (b osalt) (b fill) with
              | Res.Ok (h, key) -> Printf.printf "%s %s\n" id (show_handler h key)
              | Res.Err c -> Printf.printf "%s %s\n" id (cls_name c))
           | _ -> Printf.printf "%s badcase\n" id
         end)
    | id :: "E" :: aes :: r :: kb :: fkey :: num :: gen :: iv :: kind :: _k :: chunks ->
      let okey = key_for_ref (zi r) (nat_of_int (int_of_string kb)) (b fkey) (flag aes) (n_of_string num) (n_of_string gen) in
      let chunks = Stdlib.List.map b chunks in
      let out =
        if kind = "s" then encrypt_bytes (flag aes) okey (b iv) (Stdlib.List.concat chunks)
        else encrypt_stream (flag aes) okey (b iv) chunks in
      Printf.printf "%s %s\n" id (hx out)
    | [id; "D"; aes; bits; version; r; plain] ->
      (match as_dict_V (flag aes) (zi bits) (zi version), as_dict_keys (flag aes) (zi bits) (zi version) (zi r) (flag plain) with
       | Some v, Some ks ->
         let names = Stdlib.List.sort compare (Stdlib.List.map ekey_name ks) in
         Printf.printf "%s V=%s keys=%s\n" id (string_of_z v) (Stdlib.String.concat "," names)
       | _ -> Printf.printf "%s none\n" id)
    | id :: "F" :: v :: perm :: bits :: plain :: id0 :: user :: owner :: fkey :: usalt :: osalt :: fill :: aes :: n :: rest ->
      let v = zi v and perm = zi perm in
      let created =
        match choose_R v perm with
        | None -> None
        | Some r ->
          if int_of_z r <= 4 then
            Some (create_legacy r (b id0) (b user) (b owner) perm (nat_of_int (int_of_string bits / 8)) (flag plain))
          else if bits = "255" then  (* revision 5: AES-256 with the single SHA-256 hash *)
            Some (create5 (b id0) (b user) (b owner) perm (flag plain) (b fkey) (b usalt) (b osalt) (b fill))
          else
            (match create6 (b id0) (b user) (b owner) perm (flag plain) (b fkey) (b usalt) (b osalt) (b fill) with
             | Res.Ok hk -> Some hk
             | Res.Err _ -> None) in
      (match created with
       | None -> Printf.printf "%s reject\n" id
       | Some (h, key) ->
         Printf.printf "%s %s\n" id (show_handler h key);
         let rec go i n fs =
           if i < n then
             match fs with
             | num :: gen :: kind :: iv :: k :: rest ->
               let k = int_of_string k in
               let chunks = Stdlib.List.filteri (fun j _ -> j < k) rest in
               let rest = Stdlib.List.filteri (fun j _ -> j >= k) rest in
               let okey = key_for_ref h.hR h.hKeyBytes key (flag aes) (n_of_string num) (n_of_string gen) in
               let chunks = Stdlib.List.map b chunks in
               let out =
                 if kind = "s" then encrypt_bytes (flag aes) okey (b iv) (Stdlib.List.concat chunks)
                 else encrypt_stream (flag aes) okey (b iv) chunks in
               Printf.printf "%s.%d %s\n" id i (hx out);
               go (i + 1) n rest
             | _ -> Printf.printf "%s.%d badcase\n" id i in
         go 0 (int_of_string n) rest)
    | [id; "W"; kind; plain; part] ->
      let k = match kind with
        | "direct" -> WriterModel.KDirect | "member" -> WriterModel.KMember | "container" -> WriterModel.KContainer
        | "identity" -> WriterModel.KCryptIdentity | "xref" -> WriterModel.KXRefStream | "encrypt" -> WriterModel.KEncryptDict | "id" -> WriterModel.KTrailerID
        | _ -> WriterModel.KMetadata in
      let (s, t) = WriterModel.encrypts k (flag plain) in
      Printf.printf "%s %s\n" id (string_of_bool (if part = "s" then s else t))
    | id :: "G" :: supplied :: pw :: id0 :: n :: rest ->
      (* parseEncryptDict on an abstract dictionary, then the eager authentication *)
      let key_of = function
        | "Filter" -> Some KFilter | "V" -> Some KV | "R" -> Some KR | "O" -> Some KO | "U" -> Some KU | "P" -> Some KP
        | "Length" -> Some KLength | "CF" -> Some KCF | "StmF" -> Some KStmF | "StrF" -> Some KStrF
        | "EncryptMetadata" -> Some KEncryptMetadata | "OE" -> Some KOE | "UE" -> Some KUE | "Perms" -> Some KPerms
        | _ -> None in
      let name_of = function
        | "Standard" -> ParseModel.NStandard | "StdCF" -> ParseModel.NStdCF | "Identity" -> ParseModel.NIdentity
        | "V2" -> ParseModel.NV2 | "AESV2" -> ParseModel.NAESV2 | "AESV3" -> ParseModel.NAESV3 | _ -> ParseModel.NOther in
      let rec entries k fs acc =
        if k = 0 then Stdlib.List.rev acc else
        match fs with
        | key :: ty :: v :: rest ->
          let value = match ty with
            | "i" -> ParseModel.VInt (zi v) | "n" -> ParseModel.VName (name_of v) | "s" -> ParseModel.VStr (b v)
            | "b" -> ParseModel.VBool (flag v)
            | _ -> ParseModel.VCF (match v with "nostd" -> None | "nocfm" -> Some None | x -> Some (Some (name_of x))) in
          (match key_of key with
           | Some kk -> entries (k - 1) rest ((kk, value) :: acc)
           | None -> entries (k - 1) rest acc)
        | _ -> Stdlib.List.rev acc in
      let d = entries (int_of_string n) rest [] in
      let cfs = function None -> "none" | Some (aes, bits) -> (if aes then "AES-" else "RC4-") ^ string_of_z bits in
      (match ParseModel.parse_and_open d (b id0) (flag supplied) (b pw) with
       | Res.Ok (p, (perm, key)) ->
         Printf.printf "%s ok R=%s kb=%s P=%s plain=%s stm=%s str=%s key=%s perm=%s\n" id (string_of_z p.ParseModel.pR)
           (string_of_z p.ParseModel.pKeyBytes) (string_of_z p.ParseModel.pP) (if p.ParseModel.pPlain then "true" else "false")
           (cfs p.ParseModel.pStm) (cfs p.ParseModel.pStr) (if key = [] then "" else hex_of_bytes key) (string_of_z perm)
       | Res.Err Res.Malformed -> Printf.printf "%s malformed\n" id
       | Res.Err Res.Auth -> Printf.printf "%s auth\n" id
       | Res.Err Res.OutOfFuel -> Printf.printf "%s outoffuel\n" id
       | Res.Err _ -> Printf.printf "%s err\n" id)
    | [id; "H"; alg; data] ->
      let f = match alg with
        | "md5" -> MD5.md5 | "sha256" -> SHA2.sha256 | "sha384" -> SHA2.sha384 | _ -> SHA2.sha512 in
      Printf.printf "%s %s\n" id (hx (f (b data)))
    | [id; "X"; key; data] -> Printf.printf "%s %s\n" id (hx (RC4.rc4 (b key) (b data)))
    | [id; "B"; dir; key; blk] ->
      let f = if dir = "e" then AES.aes_encrypt_block else AES.aes_decrypt_block in
      Printf.printf "%s %s\n" id (hx (f (b key) (b blk)))
    | [id; "P"; r; perm] ->
      let can = Gen_Perm.canR2 (zi perm) in
      if int_of_z (zi r) = 2 && not can then Printf.printf "%s -\n" id
      else begin
        let p = Gen_Perm.stdSecPermToP (zi perm) in
        Printf.printf "%s back=%s canR2=%s\n" id
          (string_of_z (Gen_Perm.stdSecPToPerm (zi r) p)) (string_of_bool can)
      end
    | [id; "U"; data] ->
      (match Pkcs7.unpad (b data) with
       | Res.Ok d -> Printf.printf "%s ok %s\n" id (hx d)
       | Res.Err _ -> Printf.printf "%s ERR\n" id)
    | id :: _ -> Printf.printf "%s badcase\n" id
    | [] -> ())
