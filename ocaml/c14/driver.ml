(* C14 model driver.  Reads cases on stdin, prints `<id> <observation>` lines.
   Encoder instances live across lines (keyed by <inst>).  Widths travel as the
   decimal value of math.Float64bits (the model only compares widths for equality).

   simple fonts (SimpleEnc.v)
     <id> SN <inst> <notdefw>                           new encoder
     <id> SE <inst> <gid> <text> <w> <choice>           Encode; choice = the code the implementation chose (0 if it failed)
     <id> SG <inst> <gid> <text>                        GetCode
     <id> SI <inst>                                     all 256 entries, error flag, DefaultWidth
     <id> SC <inst> <string>                            Codes
     <id> TX <inst> <W|B> <n> <gid> <implied> ...       reader-side text for every used code
   composite, UTF-8 (CidEnc.v)
     <id> UN <inst> <cid0w> ; UE <inst> <cid> <text> <w> <code|ovf> ; UG <inst> <cid> <text> ; UI <inst> ; UC <inst> <string>
   composite, identity (CidEnc.v, Section Fixed with id_all/id_rev)
     <id> FN <inst> <cid0w> ; FE <inst> <cid> <text> <w> ; FG <inst> <cid> <text> ; FC <inst> <string>
   composite, NewFromCMap with an arbitrary CMap (CidEnc.v, Section Fixed with tbl_all/tbl_rev)
     <id> GT <tbl> <n> code1 cid1 ...   the pairs of cmap.All, in order ; GN <inst> <tbl> <cid0w> ;
     GE <inst> <cid> <text> <w> ; GG <inst> <cid> <text> ; GC <inst> code1 code2 ...
   /Encoding (Encoding.v)
     <id> EB <win|mac|expert|std> n0:v0 ... n255:v255   a base table, v = names.IsValid
     <id> EW <bis> <k> c1 name1 v1 ...             AsPDFSimple of the encoding {c -> name}, v = names.IsValid(name); then ExtractSimple
     <id> ER <nse> <obj> <k> c1..ck                ExtractSimple of obj = nil | named <b> | dict <b|-> <m> item... (item = I<int> | N<hex>:<v>)
     <id> E3W <k> c1 name1 ... ; E3R <m> item... <k> c1..ck     the same for Type 3
   width round trips (Widths.v, RoundTripProofs.v), vertical metrics (VMetrics.v), UTF-16 (Utf16.v)
     <id> WM <dw> <n> c1 w1 ... <k> q1..qk     /W of the map (entries in any order), width read for the CIDs q
     <id> SW <inst> <dw> <W|B>                  /FirstChar /Widths of the encoder state with MissingWidth dw, read for every used code
     <id> VE <n> c dy ox oy ...                 encodeVMetrics, then decodeVMetrics
     <id> VD <items>                            decodeVMetrics: L c0 n (dy ox oy)* | R c0 c1 dy ox oy
     <id> VX <oy> <dy> ; VW <k> v1..vk          /DW2: encode then decode; decode
     <id> XE r1 ... ; XD u1 ...                 utf16.Encode of code points; utf16.Decode of units
   width tables (Widths.v)
     <id> WD <items...>          decode a /W array: R c0 c1 w | L c0 n w1..wn
     <id> WE <n> c1 w1 ...       encode, then decode
     <id> PR <dw> <first> <n> w1..wn <k> c1..ck     read_simple for the listed codes
     <id> PE <dw> <k> c1 w1 ... ck wk               setSimpleWidths over the used codes (others unused, width 0) *)
open Wire

let simple : (string, SimpleEnc.st) Hashtbl.t = Hashtbl.create 64
let tables : (string, (BinNums.coq_N list * BinNums.coq_N) list) Hashtbl.t = Hashtbl.create 16
let fromcmap : (string, (string * CidEnc.fst_)) Hashtbl.t = Hashtbl.create 64
let base_tables : (string, BinNums.coq_N list array) Hashtbl.t = Hashtbl.create 4
let base_valid : (string, bool) Hashtbl.t = Hashtbl.create 1024   (* names.IsValid of the names in the base tables *)
let utf8 : (string, CidEnc.ust) Hashtbl.t = Hashtbl.create 64
let fixed : (string, CidEnc.fst_) Hashtbl.t = Hashtbl.create 64

let sz = string_of_z
let sn = string_of_n
let hex = hex_of_bytes
let join = Stdlib.String.concat ","

let byte_list = Stdlib.List.init 256 (fun i -> n_of_int i)

let rec take k l = if k = 0 then ([], l) else match l with
  | x :: r -> let (a, b) = take (k - 1) r in (x :: a, b)
  | [] -> failwith "short line"

let rec parse_items toks =
  match toks with
  | [] -> []
  | "R" :: c0 :: c1 :: w :: r -> Widths.WRange (n_of_string c0, n_of_string c1, z_of_string w) :: parse_items r
  | "L" :: c0 :: n :: r ->
    let (ws, r') = take (int_of_string n) r in
    Widths.WList (n_of_string c0, Stdlib.List.map z_of_string ws) :: parse_items r'
  | _ -> failwith "bad W item"

let show_items its =
  Stdlib.String.concat " " (Stdlib.List.map (function
    | Widths.WRange (c0, c1, w) -> Printf.sprintf "R %s %s %s" (sn c0) (sn c1) (sz w)
    | Widths.WList (c0, ws) ->
      Printf.sprintf "L %s %d%s" (sn c0) (Stdlib.List.length ws)
        (Stdlib.String.concat "" (Stdlib.List.map (fun w -> " " ^ sz w) ws))) its)

(* the final Go map of a decoded /W array (the assignments replayed in order, as
   Widths.last_assign specifies), sorted by CID *)
let show_assign l =
  let tbl = Hashtbl.create 1024 in
  Stdlib.List.iter (fun (c, w) -> Hashtbl.replace tbl (int_of_n c) w) l;
  let cids = Stdlib.List.sort compare (Hashtbl.fold (fun c _ acc -> c :: acc) tbl []) in
  match cids with
  | [] -> "-"
  | _ -> join (Stdlib.List.map (fun c -> Printf.sprintf "%d:%s" c (sz (Hashtbl.find tbl c))) cids)

let svm ((a, b), c) = Printf.sprintf "%s/%s/%s" (sz a) (sz b) (sz c)

let show_vassign l =
  let tbl = Hashtbl.create 1024 in
  Stdlib.List.iter (fun (c, v) -> Hashtbl.replace tbl (int_of_n c) v) l;
  let cids = Stdlib.List.sort compare (Hashtbl.fold (fun c _ acc -> c :: acc) tbl []) in
  match cids with
  | [] -> "-"
  | _ -> join (Stdlib.List.map (fun c -> Printf.sprintf "%d:%s" c (svm (Hashtbl.find tbl c))) cids)

let rec triples = function
  | a :: b :: c :: r -> ((z_of_string a, z_of_string b), z_of_string c) :: triples r
  | [] -> []
  | _ -> failwith "bad triples"

let rec parse_vitems toks =
  match toks with
  | [] -> []
  | "R" :: c0 :: c1 :: a :: b :: c :: r ->
    VMetrics.VRange (n_of_string c0, n_of_string c1, ((z_of_string a, z_of_string b), z_of_string c)) :: parse_vitems r
  | "L" :: c0 :: n :: r ->
    let (vs, r') = take (3 * int_of_string n) r in
    VMetrics.VList (n_of_string c0, triples vs) :: parse_vitems r'
  | _ -> failwith "bad W2 item"

let show_vitems its =
  Stdlib.String.concat " " (Stdlib.List.map (function
    | VMetrics.VRange (c0, c1, ((a, b), c)) -> Printf.sprintf "R %s %s %s %s %s" (sn c0) (sn c1) (sz a) (sz b) (sz c)
    | VMetrics.VList (c0, vs) ->
      Printf.sprintf "L %s %d%s" (sn c0) (Stdlib.List.length vs)
        (Stdlib.String.concat "" (Stdlib.List.map (fun ((a, b), c) -> Printf.sprintf " %s %s %s" (sz a) (sz b) (sz c)) vs))) its)

let rec pairs f = function
  | a :: b :: r -> f a b :: pairs f r
  | [] -> []
  | _ -> failwith "odd pair list"

let base which (c : BinNums.coq_N) =
  match Hashtbl.find_opt base_tables which with
  | Some a -> let i = int_of_n c in if i < 256 then a.(i) else []
  | None -> []

let basename_of = function "win" -> Encoding.BWin | "mac" -> Encoding.BMac | _ -> Encoding.BExpert
let basename_str = function Encoding.BWin -> "win" | BMac -> "mac" | BExpert -> "expert"

let show_ditems (valid : BinNums.coq_N list -> bool) its =
  Stdlib.String.concat " " (Stdlib.List.map (function
    | Encoding.DCode c -> "I" ^ sz c
    | Encoding.DName n -> "N" ^ hex n ^ ":" ^ string_of_bool (valid n)) its)

let show_encobj valid = function
  | Encoding.ONil -> "nil"
  | ONamed b -> "named " ^ basename_str b
  | ODict (b, its) -> Printf.sprintf "dict %s %d %s" (match b with Some b -> basename_str b | None -> "-")
                        (Stdlib.List.length its) (show_ditems valid its)
  | OError -> "error"

(* items: I<int> | N<hex>:<valid>; returns the items and the validity of the names they mention *)
let parse_ditems toks (vt : (string, bool) Hashtbl.t) =
  Stdlib.List.map (fun t ->
    if t.[0] = 'I' then Encoding.DCode (z_of_string (Stdlib.String.sub t 1 (Stdlib.String.length t - 1)))
    else begin
      let body = Stdlib.String.sub t 1 (Stdlib.String.length t - 1) in
      match Stdlib.String.split_on_char ':' body with
      | [h; v] -> Hashtbl.replace vt h (v = "1"); Encoding.DName (bytes_of_hex h)
      | _ -> failwith "bad item"
    end) toks

(* The CID -> code table of NewFromCMap.  Since fix F50 (054c244) NewFromCMap stores
   all[cid] = code only for pairs of cmap.All whose code the CMap really maps to the CID
   (CidEnc.tbl_all_sound, theorem fromcmap_sound_first_wins).  Before the fix it kept the
   last pair for every CID, also when a later pair re-mapped its code (CidEnc.tbl_all,
   theorem fromcmap_inverse_refuted); regress/revert-F50.diff re-introduces that. *)
let cid_to_code = CidEnc.tbl_all_sound

(* the tables of a predefined CMap have tens of thousands of pairs and the model's lookups are
   linear: results of the (pure) model functions are memoised per table *)
let memo_all : (string * int, BinNums.coq_N list option) Hashtbl.t = Hashtbl.create 4096
let memo_rev : (string * string, BinNums.coq_N) Hashtbl.t = Hashtbl.create 4096

let m_all tbl l c =
  let k = (tbl, int_of_n c) in
  match Hashtbl.find_opt memo_all k with
  | Some r -> r
  | None -> let r = cid_to_code l c in Hashtbl.add memo_all k r; r

let m_rev tbl l code =
  let k = (tbl, hex_of_bytes code) in
  match Hashtbl.find_opt memo_rev k with
  | Some r -> r
  | None -> let r = CidEnc.tbl_rev l code in Hashtbl.add memo_rev k r; r

let uinfo_str (i : CidEnc.uinfo) = Printf.sprintf "%s:%s:%s" (sn i.ui_cid) (sz i.ui_w) (hex i.ui_text)

let () =
  iter_lines (fun line ->
    match words line with
    | id :: "SN" :: inst :: [w] ->
      Hashtbl.replace simple inst (SimpleEnc.init (z_of_string w)); Printf.printf "%s new\n" id
    | id :: "SE" :: inst :: g :: t :: w :: [ch] ->
      let s = Hashtbl.find simple inst in
      let (s', r) = SimpleEnc.encode s (n_of_string g) (bytes_of_hex t) (z_of_string w) (n_of_string ch) in
      Hashtbl.replace simple inst s';
      Printf.printf "%s %s\n" id (match r with
        | SimpleEnc.EOk c -> "ok " ^ sn c | EDup -> "dup" | EOverflow -> "overflow" | EReject -> "reject")
    | id :: "SG" :: inst :: g :: [t] ->
      let s = Hashtbl.find simple inst in
      Printf.printf "%s %s\n" id (match SimpleEnc.get_code s (n_of_string g) (bytes_of_hex t) with
        | Some c -> sn c | None -> "none")
    | id :: "SI" :: [inst] ->
      let s = Hashtbl.find simple inst in
      let ents = Stdlib.List.map (fun c ->
        let i = SimpleEnc.get s c in
        Printf.sprintf "%s:%s:%s" (sn i.ci_gid) (sz i.ci_w) (hex i.ci_text)) byte_list in
      Printf.printf "%s used=%s err=%s %s\n" id (sn (SimpleEnc.nused s)) (string_of_bool (SimpleEnc.s_err s)) (join ents);
      (* which value DefaultWidth() picks is incidental: the width table is lossless for every MissingWidth *)
      Printf.printf "%s.soft dw=%s\n" id (sz (SimpleEnc.default_width s))
    | id :: "SC" :: inst :: [str] ->
      let s = Hashtbl.find simple inst in
      let bs = bytes_of_hex str in
      let cs = SimpleEnc.codes s bs in
      Printf.printf "%s %d %s\n" id (Stdlib.List.length cs)
        (join (Stdlib.List.map2 (fun b (i : SimpleEnc.cinfo) ->
           Printf.sprintf "%s:%s" (sn (SimpleEnc.cid_of b i)) (hex i.ci_text)) bs cs))
    | id :: "TX" :: inst :: shape :: _n :: rest ->
      let s = Hashtbl.find simple inst in
      let tbl = Hashtbl.create 64 in
      ignore (pairs (fun g t -> Hashtbl.replace tbl (int_of_string g) (bytes_of_hex t)) rest);
      (* glyph names are represented by the glyph ID; name_text is the table *)
      let name_text (g : BinNums.coq_N) = match Hashtbl.find_opt tbl (int_of_n g) with Some t -> t | None -> [] in
      let glyph_name (g : BinNums.coq_N) = g in
      let sh = if shape = "B" then SimpleEnc.BuiltinEnc else SimpleEnc.WithEncoding in
      let tu = SimpleEnc.writer_tu name_text glyph_name sh s in
      let used = Stdlib.List.sort compare (Stdlib.List.map (fun (c, _) -> int_of_n c) s.s_info) in
      Printf.printf "%s %s\n" id (match used with [] -> "-" | _ -> join (Stdlib.List.map (fun c ->
        Printf.sprintf "%d:%s" c (hex (SimpleEnc.reader_text name_text glyph_name sh tu s (n_of_int c)))) used));
      (* entries with empty text are ignored by readers; list the others *)
      let codes = Stdlib.List.sort compare (Stdlib.List.map (fun (c, _) -> int_of_n c) (Stdlib.List.filter (fun (_, t) -> t <> []) tu)) in
      Printf.printf "%s.soft tu=%s\n" id (match codes with [] -> "-" | _ -> join (Stdlib.List.map string_of_int codes))
    | id :: "UN" :: inst :: [w] ->
      Hashtbl.replace utf8 inst (CidEnc.uinit (z_of_string w)); Printf.printf "%s new\n" id
    | id :: "UE" :: inst :: c :: t :: w :: [ch] ->
      let s = Hashtbl.find utf8 inst in
      let choice = if ch = "ovf" then None else Some (bytes_of_hex ch) in
      let (s', r) = CidEnc.uencode s (n_of_string c) (bytes_of_hex t) (z_of_string w) choice in
      Hashtbl.replace utf8 inst s';
      Printf.printf "%s %s\n" id (match r with
        | CidEnc.UOk code -> "ok " ^ hex code | UDup -> "dup" | UOverflow -> "overflow" | UReject -> "reject")
    | id :: "UG" :: inst :: c :: [t] ->
      let s = Hashtbl.find utf8 inst in
      Printf.printf "%s %s\n" id (match CidEnc.uget_code s (n_of_string c) (bytes_of_hex t) with
        | Some code -> hex code | None -> "none")
    | id :: "UI" :: [inst] ->
      let s = Hashtbl.find utf8 inst in
      let ents = Stdlib.List.sort compare (Stdlib.List.map (fun (code, i) -> hex code ^ ":" ^ uinfo_str i) (CidEnc.u_info s)) in
      Printf.printf "%s %d %s\n" id (Stdlib.List.length ents) (join ents)
    | id :: "UC" :: inst :: [str] ->
      let s = Hashtbl.find utf8 inst in
      let bs = bytes_of_hex str in
      Printf.printf "%s %s\n" id (match CidEnc.ucodes (nat_of_int (Stdlib.List.length bs)) s bs with
        | None -> "outside"
        | Some l -> Printf.sprintf "%d %s" (Stdlib.List.length l) (join (Stdlib.List.map uinfo_str l)))
    | id :: "FN" :: inst :: [w] ->
      Hashtbl.replace fixed inst (CidEnc.finit (z_of_string w)); Printf.printf "%s new\n" id
    | id :: "FE" :: inst :: c :: t :: [w] ->
      let s = Hashtbl.find fixed inst in
      let (s', r) = CidEnc.fencode CidEnc.id_all s (n_of_string c) (bytes_of_hex t) (z_of_string w) in
      Hashtbl.replace fixed inst s';
      Printf.printf "%s %s\n" id (match r with
        | CidEnc.FOk code -> "ok " ^ hex code | FNotFound -> "err"
        | FWidthConflict -> "err" | FTextConflict -> "err")
    | id :: "FG" :: inst :: c :: [t] ->
      let s = Hashtbl.find fixed inst in
      Printf.printf "%s %s\n" id (match CidEnc.fget_code CidEnc.id_all s (n_of_string c) (bytes_of_hex t) with
        | Some code -> hex code | None -> "none")
    | id :: "FC" :: inst :: [str] ->
      let s = Hashtbl.find fixed inst in
      Printf.printf "%s %s\n" id (match CidEnc.id_split (bytes_of_hex str) with
        | None -> "outside"
        | Some l -> Printf.sprintf "%d %s" (Stdlib.List.length l)
                      (join (Stdlib.List.map (fun code -> uinfo_str (CidEnc.fget CidEnc.id_rev s code)) l)))
    | id :: "GT" :: tbl :: _n :: rest ->
      Hashtbl.replace tables tbl (pairs (fun code c -> (bytes_of_hex code, n_of_string c)) rest);
      Printf.printf "%s table\n" id
    | id :: "GN" :: inst :: tbl :: [w] ->
      Hashtbl.replace fromcmap inst (tbl, CidEnc.finit (z_of_string w)); Printf.printf "%s new\n" id
    | id :: "GE" :: inst :: c :: t :: [w] ->
      let (tbl, s) = Hashtbl.find fromcmap inst in
      let l = Hashtbl.find tables tbl in
      let (s', r) = CidEnc.fencode (m_all tbl l) s (n_of_string c) (bytes_of_hex t) (z_of_string w) in
      Hashtbl.replace fromcmap inst (tbl, s');
      Printf.printf "%s %s\n" id (match r with CidEnc.FOk code -> "ok " ^ hex code | _ -> "err")
    | id :: "GG" :: inst :: c :: [t] ->
      let (tbl, s) = Hashtbl.find fromcmap inst in
      let l = Hashtbl.find tables tbl in
      Printf.printf "%s %s\n" id (match CidEnc.fget_code (m_all tbl l) s (n_of_string c) (bytes_of_hex t) with
        | Some [] -> "zero" | Some code -> hex code | None -> "none")
    | id :: "GC" :: inst :: codes ->
      let (tbl, s) = Hashtbl.find fromcmap inst in
      let l = Hashtbl.find tables tbl in
      Printf.printf "%s %d %s\n" id (Stdlib.List.length codes)
        (join (Stdlib.List.map (fun code -> uinfo_str (CidEnc.fget (m_rev tbl l) s (bytes_of_hex code))) codes))
    | id :: "EB" :: which :: names ->
      let split t = match Stdlib.String.split_on_char ':' t with
        | [h; v] -> Hashtbl.replace base_valid h (v = "1"); h | _ -> failwith "bad EB" in
      Hashtbl.replace base_tables which (Array.of_list (Stdlib.List.map (fun t -> bytes_of_hex (split t)) names));
      Printf.printf "%s table\n" id
    | id :: "EW" :: bis :: _k :: rest ->
      let tbl = Hashtbl.create 64 and vt = Hashtbl.create 64 in
      let rec go = function
        | c :: n :: v :: r -> Hashtbl.replace tbl (int_of_string c) (bytes_of_hex n); Hashtbl.replace vt n (v = "1"); go r
        | [] -> () | _ -> failwith "bad EW" in
      go rest;
      let e c = match Hashtbl.find_opt tbl (int_of_n c) with Some n -> n | None -> [] in
      let valid n = match Hashtbl.find_opt vt (hex n) with Some v -> v | None ->
        (match Hashtbl.find_opt base_valid (hex n) with Some v -> v | None -> false) in
      let bis = bis = "1" in
      let o = Encoding.as_pdf_simple (base "win") (base "mac") (base "expert") (base "std") e bis in
      let cs = Stdlib.List.sort compare (Hashtbl.fold (fun c _ acc -> c :: acc) tbl []) in
      (match o with
       | Encoding.OError -> Printf.printf "%s error\n" id
       | _ ->
         let f = Encoding.extract_simple (base "win") (base "mac") (base "expert") (base "std") valid o bis in
         Printf.printf "%s %s\n" id (match cs with [] -> "-" | _ ->
           join (Stdlib.List.map (fun c -> Printf.sprintf "%d:%s" c (hex (f (n_of_int c)))) cs)));
      Printf.printf "%s.soft %s\n" id (show_encobj valid o)
    | id :: "ER" :: nse :: kind :: rest ->
      let vt = Hashtbl.create 64 in
      let (o, rest) = match kind, rest with
        | "nil", r -> (Encoding.ONil, r)
        | "named", b :: r -> (Encoding.ONamed (basename_of b), r)
        | "dict", b :: m :: r ->
          let (its, r') = take (int_of_string m) r in
          (Encoding.ODict ((if b = "-" then None else Some (basename_of b)), parse_ditems its vt), r')
        | _ -> failwith "bad ER" in
      let valid n = match Hashtbl.find_opt vt (hex n) with Some v -> v | None ->
        (match Hashtbl.find_opt base_valid (hex n) with Some v -> v | None -> false) in
      let cs = match rest with _k :: cs -> cs | [] -> [] in
      let f = Encoding.extract_simple (base "win") (base "mac") (base "expert") (base "std") valid o (nse = "1") in
      Printf.printf "%s %s\n" id (match cs with [] -> "-" | _ -> join (Stdlib.List.map (fun c -> c ^ ":" ^ hex (f (n_of_string c))) cs))
    | id :: "E3W" :: _k :: rest ->
      let tbl = Hashtbl.create 64 in
      ignore (pairs (fun c n -> Hashtbl.replace tbl (int_of_string c) (bytes_of_hex n)) rest);
      let e c = match Hashtbl.find_opt tbl (int_of_n c) with Some n -> n | None -> [] in
      let its = Encoding.as_pdf_type3 e in
      Printf.printf "%s %s\n" id (match Encoding.extract_type3 its with
        | None -> "missing"
        | Some f -> join (Stdlib.List.map (fun c -> Printf.sprintf "%d:%s" c (hex (f (n_of_int c)))) (Stdlib.List.init 256 (fun i -> i))));
      Printf.printf "%s.soft %d %s\n" id (Stdlib.List.length its) (show_ditems (fun _ -> true) its)
    | id :: "E3R" :: m :: rest ->
      let vt = Hashtbl.create 64 in
      let (its, _) = take (int_of_string m) rest in
      Printf.printf "%s %s\n" id (match Encoding.extract_type3 (parse_ditems its vt) with
        | None -> "missing"
        | Some f -> join (Stdlib.List.map (fun c -> Printf.sprintf "%d:%s" c (hex (f (n_of_int c)))) (Stdlib.List.init 256 (fun i -> i))))
    | id :: "WM" :: dw :: n :: rest ->
      let (ps, rest) = take (2 * int_of_string n) rest in
      let m = pairs (fun c w -> (n_of_string c, z_of_string w)) ps in
      let qs = match rest with _k :: qs -> qs | [] -> [] in
      let its = Widths.w_of_map m in
      Printf.printf "%s %s\n" id (match qs with [] -> "-" | _ -> join (Stdlib.List.map (fun q ->
        q ^ ":" ^ (match Widths.read_cid_width its (z_of_string dw) (n_of_string q) with Some w -> sz w | None -> "err")) qs))
    | id :: "SW" :: inst :: dw :: [shape] ->
      let s = Hashtbl.find simple inst in
      let dw = z_of_string dw in
      (* shape B: the dictionary uses the built-in encoding, enc(code) is "@" (not "") for every code *)
      let ww = Widths.dict_width s and used = if shape = "B" then (fun _ -> true) else Widths.code_used s in
      let (first, last) = Widths.simple_first_last ww used dw in
      let ws = Widths.simple_widths ww used dw in
      let cs = Stdlib.List.sort compare (Stdlib.List.map (fun (c, _) -> int_of_n c) s.s_info) in
      Printf.printf "%s %s\n" id (match cs with [] -> "-" | _ -> join (Stdlib.List.map (fun c ->
        Printf.sprintf "%d:%s" c (sz (Widths.read_simple first ws dw (n_of_int c)))) cs));
      (* N: a standard font whose dictionary is written without /Widths *)
      if shape = "N" then Printf.printf "%s.soft absent\n" id
      else Printf.printf "%s.soft %s %s %d\n" id (sn first) (sn last) (Stdlib.List.length ws)
    | id :: "VE" :: _n :: rest ->
      let rec go = function
        | c :: a :: b :: d :: r -> (n_of_string c, ((z_of_string a, z_of_string b), z_of_string d)) :: go r
        | [] -> [] | _ -> failwith "bad VE" in
      let l = go rest in
      (match VMetrics.encode_v l with
       | None -> Printf.printf "%s fuel\n" id
       | Some its ->
         Printf.printf "%s %s\n" id (match VMetrics.decode_v its with None -> "err" | Some l' -> show_vassign l');
         Printf.printf "%s.soft %s\n" id (match its with [] -> "-" | _ -> show_vitems its))
    | id :: "VD" :: rest ->
      Printf.printf "%s %s\n" id (match VMetrics.decode_v (parse_vitems rest) with None -> "err" | Some l -> show_vassign l)
    | id :: "VX" :: oy :: [dy] ->
      let (a, b) = VMetrics.decode_dw2 (VMetrics.encode_dw2 (z_of_string oy, z_of_string dy)) in
      Printf.printf "%s %s %s\n" id (sz a) (sz b);
      Printf.printf "%s.soft %s\n" id (match VMetrics.encode_dw2 (z_of_string oy, z_of_string dy) with
        | None -> "-" | Some l -> Stdlib.String.concat " " (Stdlib.List.map sz l))
    | id :: "VW" :: _k :: vs ->
      let (a, b) = VMetrics.decode_dw2 (match vs with [] -> None | _ -> Some (Stdlib.List.map z_of_string vs)) in
      Printf.printf "%s %s %s\n" id (sz a) (sz b)
    | id :: "XE" :: rs ->
      Printf.printf "%s %s\n" id (match Utf16.encode16 (Stdlib.List.map n_of_string rs) with
        | [] -> "-" | us -> Stdlib.String.concat " " (Stdlib.List.map sn us))
    | id :: "XD" :: us ->
      Printf.printf "%s %s\n" id (match Utf16.decode16 (Stdlib.List.map n_of_string us) with
        | [] -> "-" | rs -> Stdlib.String.concat " " (Stdlib.List.map sn rs))
    | id :: "WD" :: rest ->
      let its = parse_items rest in
      Printf.printf "%s %s\n" id (match Widths.decode_w its with None -> "err" | Some l -> show_assign l)
    | id :: "WE" :: _n :: rest ->
      let l = pairs (fun c w -> (n_of_string c, z_of_string w)) rest in
      let its = Widths.encode_w l in
      Printf.printf "%s %s\n" id (match Widths.decode_w its with None -> "err" | Some l' -> show_assign l');
      Printf.printf "%s.soft %s\n" id (match its with [] -> "-" | _ -> show_items its)
    | id :: "PR" :: dw :: first :: n :: rest ->
      let (ws, rest) = take (int_of_string n) rest in
      let ws = Stdlib.List.map z_of_string ws in
      let cs = match rest with _k :: cs -> cs | [] -> [] in
      Printf.printf "%s %s\n" id (match cs with [] -> "-" | _ -> join (Stdlib.List.map (fun c ->
        c ^ ":" ^ sz (Widths.read_simple (n_of_string first) ws (z_of_string dw) (n_of_string c))) cs))
    | id :: "PE" :: dw :: _k :: rest ->
      let tbl = Hashtbl.create 64 in
      ignore (pairs (fun c w -> Hashtbl.replace tbl (int_of_string c) (z_of_string w)) rest);
      let ww c = match Hashtbl.find_opt tbl (int_of_n c) with Some w -> w | None -> BinNums.Z0 in
      let used c = Hashtbl.mem tbl (int_of_n c) in
      let dw = z_of_string dw in
      let (first, last) = Widths.simple_first_last ww used dw in
      let ws = Widths.simple_widths ww used dw in
      let cs = Stdlib.List.sort compare (Hashtbl.fold (fun c _ acc -> c :: acc) tbl []) in
      Printf.printf "%s %s\n" id (match cs with [] -> "-" | _ -> join (Stdlib.List.map (fun c ->
        Printf.sprintf "%d:%s" c (sz (Widths.read_simple first ws dw (n_of_int c)))) cs));
      Printf.printf "%s.soft %s %s %d\n" id (sn first) (sn last) (Stdlib.List.length ws)
    | [] -> ()
    | id :: _ -> Printf.printf "%s badcase\n" id)
