(* C12 model driver.  Input lines:
     <id> D <k> <lo1> <hi1> ... <lok> <hik> <s>      decode s with the codec of the k ranges
     <id> A <k> <lo1> <hi1> ... <code>               append_code
     <id> W <k> <lo1> <hi1> ...                      walk_ranges (reported code space, before merging)
     <id> M <k> <lo1> <hi1> ... <s>                  match_len of code_space_range (walk + merge) on s
     <id> L <k> <lo1> <hi1> ... <nodes>              certified validator lin_ok on a node array of the
                                                     implementation (3 bytes per node: bound, child hi, child lo)
                                                     and on the model's own linearisation
   Output: <id> <observation> *)
open Wire

let parse_ranges k fs =
  let rec go k fs acc =
    if k = 0 then (Stdlib.List.rev acc, fs)
    else match fs with
      | lo :: hi :: rest -> go (k - 1) rest ((bytes_of_hex lo, bytes_of_hex hi) :: acc)
      | _ -> failwith "bad ranges"
  in go k fs []

type built = {
  tree : (BinNums.coq_N * Codec.tnode) list option;        (* None: NewCodec returns an error *)
  nodes : Codec.lnode list option;                 (* None with a tree: panic in the lineariser *)
}

let cache : (string, built) Hashtbl.t = Hashtbl.create 1024

let build key rs =
  match Hashtbl.find_opt cache key with
  | Some c -> c
  | None ->
    let tree = Codec.new_codec_tree rs in
    let (tree, nodes) =
      match tree with
      | None -> (None, None)
      | Some t ->
        (match Codec.linearize t with
         | Codec.LOk nodes -> (Some t, Some nodes)
         | Codec.LOverflow -> (None, None)            (* NewCodec returns errTooManyNodes: rejected *)
         | Codec.LPanic -> (Some t, None)) in
    let c = { tree; nodes } in
    if Hashtbl.length cache > 200000 then Hashtbl.reset cache;
    Hashtbl.add cache key c; c

let nodes_of_hex (h : string) : Codec.lnode list =
  let bs = Stdlib.List.map int_of_n (bytes_of_hex h) in
  let rec go = function
    | b :: hi :: lo :: rest -> { Codec.bound = n_of_int b; Codec.child = n_of_int ((hi * 256) + lo) } :: go rest
    | _ -> []
  in go bs

let () =
  iter_lines (fun line ->
    match words line with
    | id :: op :: k :: rest ->
      let k = int_of_string k in
      let (rs, rest) = parse_ranges k rest in
      let key = Stdlib.String.concat " " (Stdlib.List.filteri (fun i _ -> i < 2 * k) (Stdlib.List.tl (Stdlib.List.tl (Stdlib.List.tl (words line))))) in
      let c = build key rs in
      (match c.tree with
       | None -> Printf.printf "%s reject\n" id
       | Some t ->
         (match op, rest, c.nodes with
          | "L", [h], _ ->
            let real = nodes_of_hex h in
            Printf.printf "%s %s\n" id (string_of_bool (Codec.lin_ok real t));
            Printf.printf "%s.model %s\n" id
              (match c.nodes with None -> "panic" | Some nodes -> string_of_bool (Codec.lin_ok nodes t))
          | _, _, None -> Printf.printf "%s panic\n" id
          | "D", [s], Some nodes ->
            let s = bytes_of_hex s in
            (match Codec.decode nodes s with
             | None -> Printf.printf "%s panic\n" id
             | Some ((code, consumed), valid) ->
               let (sc, sv) = Codec.spec_decode rs s in
               Printf.printf "%s %s %d %s\n%s.spec %d %s\n" id (string_of_n code) (int_of_nat consumed)
                 (string_of_bool valid) id (int_of_nat sc) (string_of_bool sv))
          | "A", [code], Some nodes ->
            (match Codec.append_code nodes (n_of_string code) with
             | None -> Printf.printf "%s panic\n" id
             | Some bs -> Printf.printf "%s %s\n" id (hex_of_bytes bs))
          | "M", [x], Some nodes ->
            (match Codec.code_space_range nodes with
             | None -> Printf.printf "%s panic\n" id
             | Some rep -> Printf.printf "%s %d\n" id (int_of_nat (Codec.match_len rep (bytes_of_hex x))))
          | "W", [], Some nodes ->
            (match Codec.walk_ranges nodes with
             | None -> Printf.printf "%s panic\n" id
             | Some rs ->
               Printf.printf "%s %s\n" id
                 (Stdlib.String.concat "," (Stdlib.List.map (fun (lo, hi) -> hex_of_bytes lo ^ ":" ^ hex_of_bytes hi) rs)))
          | _ -> Printf.printf "%s badcase\n" id))
    | _ -> ())
