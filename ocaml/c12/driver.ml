(* C12 model driver.  Input lines:
     <id> D <k> <lo1> <hi1> ... <lok> <hik> <s>      decode s with the codec of the k ranges
     <id> A <k> <lo1> <hi1> ... <code>               append_code
   Output: <id> <observation> *)
open Wire

let parse_ranges k fs =
  let rec go k fs acc =
    if k = 0 then (Stdlib.List.rev acc, fs)
    else match fs with
      | lo :: hi :: rest -> go (k - 1) rest ((bytes_of_hex lo, bytes_of_hex hi) :: acc)
      | _ -> failwith "bad ranges"
  in go k fs []

let cache : (string, Codec.lnode list option) Hashtbl.t = Hashtbl.create 1024

let codec_of key rs =
  match Hashtbl.find_opt cache key with
  | Some c -> c
  | None ->
    let c = Codec.codec rs in
    if Hashtbl.length cache > 200000 then Hashtbl.reset cache;
    Hashtbl.add cache key c; c

let () =
  iter_lines (fun line ->
    match words line with
    | id :: op :: k :: rest ->
      let k = int_of_string k in
      let (rs, rest) = parse_ranges k rest in
      let key = Stdlib.String.concat " " (Stdlib.List.filteri (fun i _ -> i < 2 * k) (Stdlib.List.tl (Stdlib.List.tl (Stdlib.List.tl (words line))))) in
      (match codec_of key rs with
       | None -> Printf.printf "%s reject\n" id
       | Some nodes ->
         (match op, rest with
          | "D", [s] ->
            let s = bytes_of_hex s in
            (match Codec.decode nodes s with
             | None -> Printf.printf "%s panic\n" id
             | Some ((code, consumed), valid) ->
               let (sc, sv) = Codec.spec_decode rs s in
               Printf.printf "%s %s %d %s\n%s.spec %d %s\n" id (string_of_n code) (int_of_nat consumed)
                 (string_of_bool valid) id (int_of_nat sc) (string_of_bool sv))
          | "A", [code] ->
            (match Codec.append_code nodes (n_of_string code) with
             | None -> Printf.printf "%s panic\n" id
             | Some bs -> Printf.printf "%s %s\n" id (hex_of_bytes bs))
          | "W", [] ->
            (match Codec.walk_ranges nodes with
             | None -> Printf.printf "%s panic\n" id
             | Some rs ->
               Printf.printf "%s %s\n" id
                 (Stdlib.String.concat "," (Stdlib.List.map (fun (lo, hi) -> hex_of_bytes lo ^ ":" ^ hex_of_bytes hi) rs)))
          | _ -> Printf.printf "%s badcase\n" id))
    | _ -> ())
