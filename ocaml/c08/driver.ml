(* C08 model driver.  Input lines (fields separated by blanks; hex = lower-case hex or "-"):
     <id> D ahx|a85|rl <hex>                       one decoder on the bytes, clean end below
     <id> D lzw <early 0|1> <hex>
     <id> D pred <avail> <pred> <colors> <bpc> <cols> <hex>
     <id> M <n> <stage>*n <hex>                    DecodeStream over n modelled stages
                                                   stage = ahx | a85 | rl | id | lzw:<dict>
     <id> P flate|lzw|ccitt <dict>                 parameter parsing
     <id> C <ffield> <pfield>                      GetFilters
     <id> KR <call>;<call>;...                     io.ReadAll through the classification wrappers
     <id> KC <evs> <err>                           construction-time error
     <id> B <rawLen>                               StreamBudget / MaxXRefEntries
   dict   = "-" | key=val,key=val,...   val = i<decimal> | b0 | b1 | o
   Output: <id> <observation>.  I/O and parsing only - no model logic. *)
open Wire
open Res

let cls_name = function
  | Malformed -> "malformed" | EOF -> "eof" | IO _ -> "io" | Auth -> "auth"
  | Panic -> "panic" | OutOfFuel -> "fuel" | Other -> "other"

let string_of_bytes (l : BinNums.coq_N list) : string =
  let b = Buffer.create 256 in
  Stdlib.List.iter (fun x -> Buffer.add_char b (Char.chr (int_of_n x land 255))) l;
  Buffer.contents b

let show_dres ((o, t) : Stream.dres) : string =
  match t with
  | None -> let s = string_of_bytes o in
    Printf.sprintf "ok %d %s" (Stdlib.String.length s) (Digest.to_hex (Digest.string s))
  | Some c -> cls_name c

let key_of = function
  | "Predictor" -> Params.KPredictor | "Colors" -> Params.KColors
  | "BitsPerComponent" -> Params.KBitsPerComponent | "Columns" -> Params.KColumns
  | "EarlyChange" -> Params.KEarlyChange | "K" -> Params.KK | "EndOfLine" -> Params.KEndOfLine
  | "EncodedByteAlign" -> Params.KEncodedByteAlign | "Rows" -> Params.KRows
  | "EndOfBlock" -> Params.KEndOfBlock | "BlackIs1" -> Params.KBlackIs1
  | "DamagedRowsBeforeError" -> Params.KDamagedRowsBeforeError
  | s -> failwith ("bad key " ^ s)

let parse_dict (s : string) : Params.pdict =
  if s = "-" then Params.dict_of_list []
  else
    Params.dict_of_list
      (Stdlib.List.filter_map
         (fun kv ->
           match Stdlib.String.index_opt kv '=' with
           | None -> None
           | Some i ->
             let k = Stdlib.String.sub kv 0 i and v = Stdlib.String.sub kv (i + 1) (Stdlib.String.length kv - i - 1) in
             (match (try Some (key_of k) with Failure _ -> None) with
              | None -> None      (* keys the model does not look at *)
              | Some k ->
                let o =
                  if v = "b0" then Params.PBool false
                  else if v = "b1" then Params.PBool true
                  else if v <> "" && v.[0] = 'i' then Params.PInt (z_of_string (Stdlib.String.sub v 1 (Stdlib.String.length v - 1)))
                  else Params.POther in
                Some (k, o)))
         (Stdlib.String.split_on_char ',' s))

let parse_stage (s : string) : Run.stage =
  match s with
  | "ahx" -> Run.SAHx | "a85" -> Run.SA85 | "rl" -> Run.SRL | "id" -> Run.SIdent
  | _ when Stdlib.String.length s >= 4 && Stdlib.String.sub s 0 4 = "lzw:" ->
    Run.SLZW (parse_dict (Stdlib.String.sub s 4 (Stdlib.String.length s - 4)))
  | _ -> failwith ("bad stage " ^ s)

let fname_of = function
  | "A85" -> Chain.FA85 | "AHx" -> Chain.FAHx | "RL" -> Chain.FRL | "Fl" -> Chain.FFlate
  | "LZW" -> Chain.FLZW | "CCF" -> Chain.FCCITT | "DCT" -> Chain.FDCT | "JBIG2" -> Chain.FJBIG2
  | "JPX" -> Chain.FJPX | "Crypt" -> Chain.FCrypt | _ -> Chain.FUnknown
let fname_str = function
  | Chain.FA85 -> "A85" | Chain.FAHx -> "AHx" | Chain.FRL -> "RL" | Chain.FFlate -> "Fl"
  | Chain.FLZW -> "LZW" | Chain.FCCITT -> "CCF" | Chain.FDCT -> "DCT" | Chain.FJBIG2 -> "JBIG2"
  | Chain.FJPX -> "JPX" | Chain.FCrypt -> "Crypt" | Chain.FUnknown -> "Unk"

let split_list s = if s = "-" || s = "" then [] else Stdlib.String.split_on_char ',' s
let after_colon s = match Stdlib.String.index_opt s ':' with
  | Some i -> Stdlib.String.sub s (i + 1) (Stdlib.String.length s - i - 1) | None -> ""

let parse_ffield s =
  if s = "none" then Chain.FNone else if s = "bad" then Chain.FBad
  else if Stdlib.String.length s > 4 && Stdlib.String.sub s 0 4 = "one:" then Chain.FOne (fname_of (after_colon s))
  else Chain.FArr (Stdlib.List.map (fun e -> if e = "x" then Chain.ENotName else Chain.EName (fname_of e)) (split_list (after_colon s)))

let parse_pent = function
  | "n" -> Chain.PNull | "d0" -> Chain.PDict false | "d1" -> Chain.PDict true | _ -> Chain.PNotDict
let parse_pfield s =
  if s = "none" then Chain.PfNone else if s = "bad" then Chain.PfBad
  else if s = "dict:0" then Chain.PfDict false else if s = "dict:1" then Chain.PfDict true
  else Chain.PfArr (Stdlib.List.map parse_pent (split_list (after_colon s)))

(* error token: nil | e<is_eof><ident><is_mal>.<id> *)
let parse_err (s : string) : Classify.gerr option =
  if s = "nil" then None
  else Some { Classify.is_eof = s.[1] = '1'; eof_ident = s.[2] = '1'; is_mal = s.[3] = '1';
              gid = n_of_string (Stdlib.String.sub s 5 (Stdlib.String.length s - 5)) }
let show_err = function
  | None -> "nil"
  | Some e -> Printf.sprintf "e%s%s%s.%s" (string_of_bool e.Classify.is_eof) (string_of_bool e.Classify.eof_ident)
                (string_of_bool e.Classify.is_mal) (string_of_n e.Classify.gid)
let parse_evs s = Stdlib.List.map parse_err (split_list s)
let parse_call s =
  match Stdlib.String.split_on_char '/' s with
  | [evs; inner] -> (parse_evs evs, parse_err inner)
  | _ -> failwith "bad call"

let zs z = string_of_z z
let bs b = string_of_bool b

let () =
  iter_lines (fun line ->
    match words line with
    | id :: "D" :: "ahx" :: [h] -> Printf.printf "%s %s\n" id (show_dres (Simple.ahx_dec (bytes_of_hex h) None))
    | id :: "D" :: "a85" :: [h] -> Printf.printf "%s %s\n" id (show_dres (Simple.a85_dec (bytes_of_hex h) None))
    | id :: "D" :: "rl" :: [h] -> Printf.printf "%s %s\n" id (show_dres (Simple.rl_dec (bytes_of_hex h) None))
    | id :: "D" :: "lzw" :: e :: [h] ->
      Printf.printf "%s %s\n" id (show_dres (LZW.lzw_dec (e = "1") (bytes_of_hex h) None))
    | id :: "D" :: "pred" :: av :: p :: c :: b :: w :: [h] ->
      let pp = { Predict.p_pred = z_of_string p; p_colors = z_of_string c; p_bpc = z_of_string b; p_cols = z_of_string w } in
      Printf.printf "%s %s\n" id (show_dres (Predict.unpredict (z_of_string av) pp (bytes_of_hex h) None))
    | id :: "M" :: n :: rest ->
      let n = int_of_string n in
      let stages = Stdlib.List.filteri (fun i _ -> i < n) rest in
      let h = Stdlib.List.nth rest n in
      Printf.printf "%s %s\n" id (show_dres (Run.decode_stream (Stdlib.List.map parse_stage stages) (bytes_of_hex h)))
    | id :: "P" :: "flate" :: [d] ->
      let f = Params.parse_flate (parse_dict d) in
      Printf.printf "%s %s %s %s %s\n" id (zs f.Params.f_pred) (zs f.Params.f_colors) (zs f.Params.f_bpc) (zs f.Params.f_cols)
    | id :: "P" :: "lzw" :: [d] ->
      let (f, e) = Params.parse_lzw (parse_dict d) in
      Printf.printf "%s %s %s %s %s %s\n" id (zs f.Params.f_pred) (zs f.Params.f_colors) (zs f.Params.f_bpc) (zs f.Params.f_cols) (bs e)
    | id :: "P" :: "ccitt" :: [d] ->
      let c = Params.parse_ccitt (parse_dict d) in
      Printf.printf "%s %s %s %s %s %s %s %s %s\n" id (zs c.Params.c_k) (bs c.Params.c_eol) (bs c.Params.c_eba)
        (zs c.Params.c_cols) (zs c.Params.c_rows) (bs c.Params.c_ignore_eob) (bs c.Params.c_black1) (zs c.Params.c_damaged)
    | id :: "G" :: [d] ->
      (* row cap handed to the CCITT reader, as a bound on decoded bytes: rows * ceil(cols/8) *)
      let (cols, rows) = Params.ccitt_geometry (Params.parse_ccitt (parse_dict d)) in
      let c = int_of_z cols and r = int_of_z rows in
      Printf.printf "%s %d\n" id (r * ((c + 7) / 8))
    | id :: "C" :: f :: [p] ->
      (match Chain.get_filters (parse_ffield f) (parse_pfield p) with
       | Ok l -> Printf.printf "%s ok %s\n" id (if l = [] then "-" else Stdlib.String.concat "," (Stdlib.List.map fname_str l))
       | Err c -> Printf.printf "%s %s\n" id (cls_name c))
    | id :: "KR" :: [cs] ->
      let calls = Stdlib.List.map parse_call (Stdlib.String.split_on_char ';' cs) in
      Printf.printf "%s %s\n" id (show_err (Classify.read_all None calls))
    | id :: "KC" :: evs :: [e] ->
      Printf.printf "%s %s\n" id (show_err (Classify.construct (parse_evs evs) (parse_err e)))
    | id :: "B" :: [n] ->
      let z = z_of_string n in
      Printf.printf "%s %s %s\n" id (zs (Gen_Limits.coq_StreamBudget z)) (zs (Gen_Limits.coq_MaxXRefEntries z))
    | id :: "A" :: "dct" :: n :: h0 :: v0 :: h1 :: v1 :: h3 :: v3 :: w :: mxx :: [smyy] ->
      let z = z_of_string in
      let g = { Charge.g_n = z n; g_h0 = z h0; g_v0 = z v0; g_h1 = z h1; g_v1 = z v1; g_h3 = z h3; g_v3 = z v3; g_width = z w } in
      Printf.printf "%s %s %s\n" id (zs (Charge.plane_charge g (z mxx) (z smyy))) (zs (Charge.plane_alloc g (z mxx) (z smyy)))
    | id :: "A" :: "prog" :: [] ->
      let s = Charge.prog_site (z_of_int 1) (z_of_int 1) (z_of_int 1) (z_of_int 1) in
      Printf.printf "%s %s %s\n" id (zs s.Charge.s_charge) (zs s.Charge.s_alloc)
    | id :: "A" :: "pred" :: p :: c :: b :: [w] ->
      let pp = { Predict.p_pred = z_of_string p; p_colors = z_of_string c; p_bpc = z_of_string b; p_cols = z_of_string w } in
      let s = Charge.predict_site pp in
      Printf.printf "%s %s %s\n" id (zs s.Charge.s_charge) (zs s.Charge.s_alloc)
    | id :: "A" :: "ccitt" :: cols :: [k] ->
      let s = Charge.ccitt_site (z_of_string cols) (z_of_string k) in
      Printf.printf "%s %s %s\n" id (zs s.Charge.s_charge) (zs s.Charge.s_alloc)
    | id :: "A" :: "pool" :: limit :: [ops] ->
      let ops = Stdlib.List.map z_of_string (split_list ops) in
      let (p, don) = Charge.pool_run { Charge.p_live = z_of_int 0; p_peak = z_of_int 0; p_avail = z_of_string limit } ops (z_of_int 0) in
      let taken = if int_of_z p.Charge.p_avail <= 32 then "-1" else zs p.Charge.p_peak in
      Printf.printf "%s %s %s %s %s\n" id (zs p.Charge.p_live) (zs p.Charge.p_peak) taken (zs don)
    | id :: "A" :: "lzw" :: [sz] ->
      let t = int_of_z Charge.lzw_table_bytes and n = int_of_string sz in
      Printf.printf "%s %s\n" id (string_of_bool (t <= n && n <= t + 512))
    | id :: "F" :: k :: h :: [sc] ->
      let kind = match k with "0" -> DCTFrames.FBaseline | "1" -> DCTFrames.FExtended | "2" -> DCTFrames.FProgressive | _ -> DCTFrames.FUnsupported in
      let scans = if sc = "-" then [] else Stdlib.List.map (fun c -> c = 'a') (Stdlib.List.init (Stdlib.String.length sc) (Stdlib.String.get sc)) in
      let (rows, ok) = DCTFrames.decode_frame kind (z_of_string h) scans in
      (* rows written before a refusal may still sit in the output buffer: only the verdict is compared then *)
      if ok then Printf.printf "%s %s 1\n" id (zs rows) else Printf.printf "%s - 0\n" id
    | id :: "B2" :: [n] ->
      Printf.printf "%s %s\n" id (zs (Gen_C08dct.jbig2_workLimit (z_of_string n)))
    | id :: "W" :: [sc] ->
      let scans = Stdlib.List.map (fun e -> match Stdlib.String.split_on_char ':' e with
        | [a; b] -> (z_of_string a, z_of_string b) | _ -> failwith "bad scan") (split_list sc) in
      let (st, _) = Charge.run_scans scans { Charge.w_visits = z_of_int 0; w_total = z_of_int 0 } in
      Printf.printf "%s %s %s\n" id (zs st.Charge.w_visits) (zs st.Charge.w_total)
    | id :: "X" :: "main" :: [t] ->
      let es = Stdlib.List.map (fun e -> match Stdlib.List.map z_of_string (Stdlib.String.split_on_char ',' e) with
        | [a; b; c] -> ((a, b), c) | _ -> failwith "bad entry") (Stdlib.String.split_on_char ';' t) in
      Printf.printf "%s %s\n" id (string_of_bool (CCITT.main_table_ok es))
    | id :: "X" :: "run" :: [t] ->
      let es = Stdlib.List.map (fun e -> match Stdlib.List.map z_of_string (Stdlib.String.split_on_char ',' e) with
        | [a; b] -> (a, b) | _ -> failwith "bad entry") (Stdlib.String.split_on_char ';' t) in
      Printf.printf "%s %s\n" id (string_of_bool (CCITT.run_table_ok es))
    | id :: "E" :: cols :: [evs] ->
      let ev s =
        let args = Stdlib.List.map z_of_string (Stdlib.String.split_on_char ',' (Stdlib.String.sub s 1 (Stdlib.String.length s - 1))) in
        match s.[0], args with
        | 'p', [b] -> CCITT.EPass b
        | 'h', [a; b] -> CCITT.EHoriz (a, b)
        | 'v', [a; b] -> CCITT.EVert (a, b)
        | _ -> CCITT.EStop in
      let evs = Stdlib.List.map ev (Stdlib.String.split_on_char ';' evs) in
      Printf.printf "%s %s\n" id (zs (CCITT.row_len (z_of_string cols) (CCITT.Row2 (evs, false))))
    | id :: _ -> Printf.printf "%s badcase\n" id
    | [] -> ())
