(* C02 model driver.  I/O and conversion only.

   Input, one program per line:
     <id> P <v> <hr> <seek> <cipher 0..4> <id0|-> <id1|-> <nops> <op>... Q <k> (<n> <g> <v|k>)*k
   ops:  A | U n g <pobj> <big> | C k (n g)*k m <pobj>*m nb <big>*nb | O n g <dict> nf (<namehex> <dict>)*nf
         | W <hex> <0|1> | S <big> | Z <cat> <0 | 1 <info>>
   pobj: o <value> | s <dict> <hex> <big>
   values (prefix code): n t f i<dec> r<text> N<hex> S<hex> A<k> v*k D<k> (<hexkey> v)*k R<n>.<g>

   Output:  <id> result ok | <id> result err <opindex|init> <class>
            <id>.<n>.<g> null | V <value> | T <dict> <hexdata> | K <kind>      (expected values)
            <id> meta <version> <size>
            <id> selfcheck <0|1>       (model reader on model writer output = expected)
   With argument -files <path>: also "<id> <hexfile>" of the model writer's output
   for programs without encryption. *)
open Wire
open BinNums
open Obj
open Writer

exception Bad of string

let rec parse_value (ts : string list) : obj * string list =
  match ts with
  | [] -> raise (Bad "value expected")
  | t :: rest ->
    let body = Stdlib.String.sub t 1 (Stdlib.String.length t - 1) in
    (match t.[0] with
     | 'n' -> (ONull, rest)
     | 't' -> (OBool true, rest)
     | 'f' -> (OBool false, rest)
     | 'i' -> (OInt (z_of_string body), rest)
     | 'r' -> (OReal (Stdlib.List.map (fun c -> n_of_int (Char.code c)) (Stdlib.List.of_seq (Stdlib.String.to_seq body))), rest)
     | 'N' -> (OName (bytes_of_hex body), rest)
     | 'S' -> (OStr (bytes_of_hex body), rest)
     | 'R' ->
       (match Stdlib.String.split_on_char '.' body with
        | [a; b] -> (ORef (n_of_string a, n_of_string b), rest)
        | _ -> raise (Bad "ref"))
     | 'A' ->
       let k = int_of_string body in
       let rec go k ts acc = if k = 0 then (Stdlib.List.rev acc, ts) else
           let (v, ts') = parse_value ts in go (k - 1) ts' (v :: acc) in
       let (l, rest') = go k rest [] in (OArr l, rest')
     | 'D' ->
       let (d, rest') = parse_entries (int_of_string body) rest in (ODict d, rest')
     | _ -> raise (Bad ("value " ^ t)))

and parse_entries k ts =
  let rec go k ts acc = if k = 0 then (Stdlib.List.rev acc, ts) else
      match ts with
      | key :: ts' -> let (v, ts'') = parse_value ts' in go (k - 1) ts'' ((bytes_of_hex key, v) :: acc)
      | [] -> raise (Bad "dict") in
  go k ts []

let parse_dict ts = match parse_value ts with
  | (ODict d, r) -> (d, r)
  | _ -> raise (Bad "dict expected")

let parse_pobj ts = match ts with
  | "o" :: r -> let (v, r') = parse_value r in (PObj v, r')
  | "s" :: r -> let (d, r') = parse_dict r in
    (match r' with h :: b :: r'' -> (PStream (d, bytes_of_hex h, b = "1"), r'') | _ -> raise (Bad "pobj"))
  | _ -> raise (Bad "pobj")

let hexs l = match l with [] -> "-" | _ -> hex_of_bytes l

let rec show (o : obj) : string =
  match o with
  | ONull -> "n"
  | OBool true -> "t"
  | OBool false -> "f"
  | OInt z -> "i" ^ string_of_z z
  | OReal t -> "r" ^ Stdlib.String.of_seq (Stdlib.List.to_seq (Stdlib.List.map (fun b -> Char.chr (int_of_n b land 255)) t))
  | OName n -> "N" ^ hexs n
  | OStr s -> "S" ^ hexs s
  | OArr l -> Stdlib.String.concat " " (("A" ^ string_of_int (Stdlib.List.length l)) :: Stdlib.List.map show l)
  | ODict l ->
    Stdlib.String.concat " " (("D" ^ string_of_int (Stdlib.List.length l)) ::
                              Stdlib.List.map (fun (k, v) -> hexs k ^ " " ^ show v) l)
  | ORef (n, g) -> "R" ^ string_of_n n ^ "." ^ string_of_n g

(* filter encoders as a table: (filter name, parameters, input) -> output, from the harness *)
let enc_table : (string * string, coq_N list) Hashtbl.t = Hashtbl.create 64
let dec_table : (string * string, coq_N list) Hashtbl.t = Hashtbl.create 64
let prefilter = ref false
let has_key (k : string) (d : (coq_N list * obj) list) =
  Stdlib.List.exists (fun (key, _) ->
      Stdlib.String.of_seq (Stdlib.List.to_seq (Stdlib.List.map (fun b -> Char.chr (int_of_n b)) key)) = k) d

let fkey name parms = hex_of_bytes name ^ " " ^ show (ODict parms)

let fenc_table (name : coq_N list) (parms : (coq_N list * obj) list) (data : coq_N list) : coq_N list =
  match Hashtbl.find_opt enc_table (fkey name parms, hex_of_bytes data) with
  | Some o -> o
  | None -> Stored.fenc_concrete name [] data

let fdec_table (name : coq_N list) (parms : (coq_N list * obj) list) (data : coq_N list) : coq_N list option =
  match Hashtbl.find_opt dec_table (fkey name parms, hex_of_bytes data) with
  | Some o -> Some o
  | None -> Inst.fdec_concrete name parms data

let rec parse_ops n ts acc =
  if n = 0 then (Stdlib.List.rev acc, ts) else
    match ts with
    | "A" :: r -> parse_ops (n - 1) r (Alloc :: acc)
    | "U" :: a :: b :: r ->
      let (p, r') = parse_pobj r in
      (match r' with
       | big :: r'' -> parse_ops (n - 1) r'' (Put (n_of_string a, n_of_string b, p, big = "1") :: acc)
       | [] -> raise (Bad "U"))
    | "C" :: k :: r ->
      let k = int_of_string k in
      let rec refs k ts acc = if k = 0 then (Stdlib.List.rev acc, ts) else
          match ts with a :: b :: r -> refs (k - 1) r ((n_of_string a, n_of_string b) :: acc) | _ -> raise (Bad "C") in
      let (rs, r1) = refs k r [] in
      (match r1 with
       | m :: r2 ->
         let rec objs m ts acc = if m = 0 then (Stdlib.List.rev acc, ts) else
             let (p, ts') = parse_pobj ts in objs (m - 1) ts' (p :: acc) in
         let (os, r3) = objs (int_of_string m) r2 [] in
         (match r3 with
          | nb :: r4 ->
            let rec flags k ts acc = if k = 0 then (Stdlib.List.rev acc, ts) else
                match ts with b :: ts' -> flags (k - 1) ts' ((b = "1") :: acc) | [] -> raise (Bad "C flags") in
            let (bigs, r5) = flags (int_of_string nb) r4 [] in
            parse_ops (n - 1) r5 (WriteCompressed (rs, os, bigs) :: acc)
          | [] -> raise (Bad "C"))
       | [] -> raise (Bad "C"))
    | "O" :: a :: b :: r ->
      let (d, r1) = parse_dict r in
      (match r1 with
       | nf :: r2 ->
         let rec fs k ts acc = if k = 0 then (Stdlib.List.rev acc, ts) else
             match ts with
             | name :: ts' -> let (p, ts'') = parse_dict ts' in fs (k - 1) ts'' ((bytes_of_hex name, p) :: acc)
             | [] -> raise (Bad "O") in
         let (fl, r3) = fs (int_of_string nf) r2 [] in
         (match r3 with
          | "E" :: k :: r4 ->
            let rec encs k ts = if k = 0 then ts else
                match ts with
                | name :: ts0 ->
                  let (p, ts1) = parse_dict ts0 in
                  (match ts1 with
                   | i :: o :: ts' ->
                     (* the writer hands the parameters as given, the reader as read (normalised) *)
                     let key = fkey (bytes_of_hex name) p in
                     let rkey = (match norm (ODict p) with ODict q -> fkey (bytes_of_hex name) q | _ -> key) in
                     Hashtbl.replace enc_table (key, i) (bytes_of_hex o);
                     Hashtbl.replace dec_table (rkey, o) (bytes_of_hex i);
                     encs (k - 1) ts'
                   | _ -> raise (Bad "E"))
                | _ -> raise (Bad "E") in
            let r5 = encs (int_of_string k) r4 in
            if has_key "Filter" d then prefilter := true;
            parse_ops (n - 1) r5 (OpenStream (n_of_string a, n_of_string b, d, fl) :: acc)
          | _ -> raise (Bad "O"))
       | [] -> raise (Bad "O"))
    | "W" :: h :: s :: r -> parse_ops (n - 1) r (Write (bytes_of_hex h, s = "1") :: acc)
    | "S" :: big :: r -> parse_ops (n - 1) r (CloseStream (big = "1") :: acc)
    | "Z" :: r ->
      let (cat, r1) = parse_value r in
      (match r1 with
       | "0" :: r2 -> parse_ops (n - 1) r2 (Close (cat, None) :: acc)
       | "1" :: r2 -> let (i, r3) = parse_value r2 in parse_ops (n - 1) r3 (Close (cat, Some i) :: acc)
       | _ -> raise (Bad "Z"))
    | t :: _ -> raise (Bad ("op " ^ t))
    | [] -> raise (Bad "ops")

let cls_name (c : Res.cls) = match c with
  | Res.Panic -> "panic" | Res.Malformed -> "malformed" | Res.OutOfFuel -> "fuel" | _ -> "other"

let cipher_of = function
  | "0" -> CNone | "1" -> CRC4_40 | "2" -> CRC4_128 | "3" -> CAES_128 | _ -> CAES_256

let () =
  let files = if Array.length Sys.argv > 2 && Sys.argv.(1) = "-files" then Some (open_out Sys.argv.(2)) else None in
  iter_lines (fun line ->
    match words line with
    | id :: "P" :: v :: hr :: seek :: ci :: id0 :: id1 :: nops :: rest ->
      (try
        Hashtbl.reset enc_table; Hashtbl.reset dec_table; prefilter := false;
        let (ops, rest) = parse_ops (int_of_string nops) rest [] in
        let ciph = cipher_of ci in
        let cfg = { cv = n_of_string v; chuman = (hr = "1"); cseek = (seek = "1"); ccipher = ciph;
                    cid = (if id0 = "-" && id1 = "-" then None else Some (bytes_of_hex id0, bytes_of_hex id1));
                    cencrypt = (match ciph with CNone -> None | _ -> Some (ODict [])) } in
        let trace =
          match Writer.init cfg with
          | Res.Ok st0 ->
            let (((st, refused), _failed), stop) =
              Writer.run_lenient Syntax.fmt_obj Stored.fmt_sd_concrete Stored.id_cipher Stored.id_cipher
                fenc_table Stored.deflate_stored cfg st0 ops N0 [] false in
            Res.Ok (st, refused, stop)
          | Res.Err e -> Res.Err e in
        let refused_line refused =
          if refused <> [] then
            Printf.printf "%s refused %s\n" id (Stdlib.String.concat " " (Stdlib.List.map string_of_n refused)) in
        (match trace with
         | Res.Err c -> Printf.printf "%s result err init %s\n" id (cls_name c)
         | Res.Ok (st, refused, Some (i, c)) ->
           Printf.printf "%s result err %s %s\n" id (string_of_n i) (cls_name c);
           refused_line refused
         | Res.Ok (st, refused, None) ->
           refused_line refused;
           Printf.printf "%s result ok\n" id;
           Printf.printf "%s meta %s\n" id (string_of_n cfg.cv);
           let qrefs = ref [] in
           (match rest with
            | "Q" :: k :: qs ->
              let rec go k qs = if k > 0 then
                  match qs with
                  | n :: g :: mode :: qs' ->
                    let e = Expect.expected st.wr (n_of_string n) (n_of_string g) in
                    qrefs := (n_of_string n, n_of_string g) :: !qrefs;
                    let s = match e, mode with
                      | Expect.ENull, _ -> "null"
                      | Expect.EVal ONull, "v" -> "null"
                      | Expect.EVal _, "k" -> "K obj"
                      | Expect.EStrm _, "k" -> "K stream"
                      | Expect.EVal o, _ -> "V " ^ show o
                      | Expect.EStrm (d, data), _ ->
                        let (f, p) = Expect.expected_chain st.wr (n_of_string n) (n_of_string g) in
                        "T " ^ show d ^ " F " ^ show f ^ " P " ^ show p ^ " " ^ hexs data in
                    Printf.printf "%s.%s.%s %s\n" id n g s;
                    go (k - 1) qs'
                  | _ -> raise (Bad "Q") in
              go (int_of_string k) qs
            | _ -> ());
           if st.closed then begin
             Printf.printf "%s selfcheck %s\n" id
               (if !prefilter || int_of_n st.nextRef > 5000 || int_of_string nops > 5000 || !qrefs = [] then "skipped" else if Inst.self_check fdec_table cfg st !qrefs then "1" else "0");
             (match files, ciph with
              | Some oc, CNone -> Printf.fprintf oc "%s %s\n" id (hex_of_bytes st.out)
              | _ -> ())
           end)
      with Bad m -> Printf.printf "%s badcase %s\n" id m)
    | _ -> ());
  (match files with Some oc -> close_out oc | None -> ())
