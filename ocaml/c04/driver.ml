(* C04 model driver.  I/O and conversion only; all logic is in the extracted modules.

   Input lines (cases.txt):
     <id> H <nrev> { <kind t|s|h> <xnum> <onum> <size> <nextra> {<hexkey> <value>}  <nacts> {act} }
            <nprobe> {<num> <gen>} <nchoices> {<c>}
        act:   d <num> <gen> <value> | s <num> <gen> <value(dict)> <hexdata> | c <num> <value> | f <num> <gen> <next>
        value: n | t | f | i<dec> | N<hex> | S<hex> | A<k> v1..vk | D<k> hexkey1 v1 .. | R<num>.<gen>
     <id> L <hex of the input after "stream"> <declared or ->
     <id> T <hex text of an xref table up to the trailer dictionary> <nknown> {<num>}   (table decoder)
     <id> X <w0> <w1> <w2> <hex data> <nsub> {<start> <size>} <nknown> {<num>}          (xref stream decoder)
   Output lines:
     F <id> <hdr> <hex file>            the rendered file (H cases)
     Y <id> wf=<0|1> guard=<0|1> trip=<list>   do the theorem's hypotheses hold of this file
     O <id> <observation>               reader model (faithful)      -> model.obs
     O <id>.spec <observation>          specification                -> model.obs *)
open Wire
open XRef

let rec parse_value (fs : string list) : value * string list =
  match fs with
  | [] -> failwith "value expected"
  | tok :: rest ->
    let body () = Stdlib.String.sub tok 1 (Stdlib.String.length tok - 1) in
    (match tok.[0] with
     | 'n' -> (VNull, rest)
     | 't' -> (VBool true, rest)
     | 'f' -> (VBool false, rest)
     | 'i' -> (VInt (z_of_string (body ())), rest)
     | 'N' -> (VName (bytes_of_hex (body ())), rest)
     | 'S' -> (VStr (bytes_of_hex (body ())), rest)
     | 'R' ->
       (match Stdlib.String.split_on_char '.' (body ()) with
        | [a; b] -> (VRef (n_of_string a, n_of_string b), rest)
        | _ -> failwith "bad ref")
     | 'A' ->
       let k = int_of_string (body ()) in
       let rec go k fs acc =
         if k = 0 then (Stdlib.List.rev acc, fs)
         else let (v, fs') = parse_value fs in go (k - 1) fs' (v :: acc) in
       let (l, rest') = go k rest [] in
       (VArr l, rest')
     | 'D' ->
       let k = int_of_string (body ()) in
       let rec go k fs acc =
         if k = 0 then (Stdlib.List.rev acc, fs)
         else match fs with
           | key :: fs' -> let (v, fs'') = parse_value fs' in go (k - 1) fs'' ((bytes_of_hex key, v) :: acc)
           | [] -> failwith "dict key expected" in
       let (l, rest') = go k rest [] in
       (VDict l, rest')
     | _ -> failwith ("bad value token " ^ tok))

let rec canon (v : value) : string =
  match v with
  | VNull -> "n"
  | VBool true -> "t"
  | VBool false -> "f"
  | VInt z -> "i" ^ string_of_z z
  | VName s -> "N" ^ hex_of_bytes s
  | VStr s -> "S" ^ hex_of_bytes s
  | VRef (n, g) -> "R" ^ string_of_n n ^ "." ^ string_of_n g
  | VArr l -> "A[" ^ Stdlib.String.concat "," (Stdlib.List.map canon l) ^ "]"
  | VDict l -> canon_dict l
and canon_dict l =
  (* Go dictionaries are maps: a later duplicate key replaces an earlier one; null values are kept as n *)
  let tbl = Hashtbl.create 8 in
  Stdlib.List.iter (fun (k, v) -> Hashtbl.replace tbl (hex_of_bytes k) v) l;
  let keys = Stdlib.List.sort compare (Hashtbl.fold (fun k _ acc -> k :: acc) tbl []) in
  "D{" ^ Stdlib.String.concat "," (Stdlib.List.map (fun k -> k ^ ":" ^ canon (Hashtbl.find tbl k)) keys) ^ "}"

let canon_gotten (g : Seq.gotten) : string =
  match g with
  | Seq.GNull -> "null"
  | Seq.GErr -> "err"
  | Seq.GVal VNull -> "null"
  | Seq.GVal v -> canon v
  | Seq.GStream (d, data) -> "stream" ^ canon_dict d ^ hex_of_bytes data

let take_int fs = match fs with x :: r -> (int_of_string x, r) | [] -> failwith "int expected"
let take_n fs = match fs with x :: r -> (n_of_string x, r) | [] -> failwith "N expected"

let parse_act fs : Seq.action * string list =
  match fs with
  | "d" :: num :: gen :: rest ->
    let (v, rest') = parse_value rest in
    (Seq.ADefine (n_of_string num, n_of_string gen, Seq.OVal v), rest')
  | "s" :: num :: gen :: rest ->
    let (v, rest') = parse_value rest in
    (match v, rest' with
     | VDict d, data :: rest'' -> (Seq.ADefine (n_of_string num, n_of_string gen, Seq.OStream (d, bytes_of_hex data)), rest'')
     | _ -> failwith "bad stream action")
  | "c" :: num :: rest ->
    let (v, rest') = parse_value rest in
    (Seq.ADefineC (n_of_string num, v), rest')
  | "f" :: num :: gen :: next :: rest -> (Seq.AFree (n_of_string num, n_of_string gen, n_of_string next), rest)
  | _ -> failwith "bad action"

let parse_rev fs : Seq.drev * string list =
  match fs with
  | kind :: xnum :: onum :: size :: rest ->
    let (nextra, rest) = take_int rest in
    let rec extras k fs acc =
      if k = 0 then (Stdlib.List.rev acc, fs)
      else match fs with
        | key :: fs' -> let (v, fs'') = parse_value fs' in extras (k - 1) fs'' ((bytes_of_hex key, v) :: acc)
        | [] -> failwith "extra key expected" in
    let (extra, rest) = extras nextra rest [] in
    let (nacts, rest) = take_int rest in
    let rec acts k fs acc =
      if k = 0 then (Stdlib.List.rev acc, fs)
      else let (a, fs') = parse_act fs in acts (k - 1) fs' (a :: acc) in
    let (al, rest) = acts nacts rest [] in
    ({ Seq.d_acts = al;
       Seq.d_kind = (match kind with "t" -> Seq.KTable | "s" -> Seq.KStream | _ -> Seq.KHybrid);
       Seq.d_xnum = n_of_string xnum; Seq.d_onum = n_of_string onum; Seq.d_size = n_of_string size;
       Seq.d_extra = extra }, rest)
  | _ -> failwith "bad revision"

let cls_name (c : Res.cls) = match c with
  | Res.Malformed -> "malformed" | Res.EOF -> "eof" | Res.IO _ -> "io" | Res.Auth -> "auth"
  | Res.Panic -> "panic" | Res.OutOfFuel -> "fuel" | Res.Other -> "other"

let canon_trailer (t : trailer) = canon_dict t

let entry_str (e : entry option) = match e with
  | None -> "-"
  | Some (Free g) -> "f" ^ string_of_n g
  | Some (InUse (g, off)) ->
    (* Go keeps a free entry as Pos = -1: a negative position is how it tells free from in use *)
    if (match off with BinNums.Zneg _ -> true | _ -> false) then "f" ^ string_of_n g else "u" ^ string_of_n g ^ "@" ^ string_of_z off
  | Some (InStm (s, i)) -> "c" ^ string_of_n s ^ "#" ^ string_of_n i

let handle_h id fs =
  let (nrev, fs) = take_int fs in
  let rec revs k fs acc =
    if k = 0 then (Stdlib.List.rev acc, fs)
    else let (r, fs') = parse_rev fs in revs (k - 1) fs' (r :: acc) in
  let (h, fs) = revs nrev fs [] in
  let (nprobe, fs) = take_int fs in
  let rec probes k fs acc =
    if k = 0 then (Stdlib.List.rev acc, fs)
    else match fs with
      | a :: b :: r -> probes (k - 1) r ((n_of_string a, n_of_string b) :: acc)
      | _ -> failwith "probe expected" in
  let (pl, fs) = probes nprobe fs [] in
  (* choices: "C <n> <seed>" = n pseudo-random numbers below 65536 (splitmix-style, 62-bit) *)
  let c =
    match fs with
    | ["C"; n; seed] ->
      let n = int_of_string n in
      let st = ref (int_of_string seed) in
      let next () =
        st := (!st + 0x1E3779B97F4A7C15) land 0x3FFFFFFFFFFFFFFF;
        let z = !st in
        let z = ((z lxor (z lsr 30)) * 0x3F58476D1CE4E5B9) land 0x3FFFFFFFFFFFFFFF in
        let z = ((z lxor (z lsr 27)) * 0x14D049BB133111EB) land 0x3FFFFFFFFFFFFFFF in
        (z lxor (z lsr 31)) land 0xFFFF in
      Stdlib.List.init n (fun _ -> n_of_int (next ()))
    | _ -> failwith "choices expected" in
  let b = Seq.build h c in
  Printf.printf "F %s %d %s\n" id (int_of_n b.Seq.b_hdr) (hex_of_bytes b.Seq.b_bytes);
  let trips = Stdlib.String.concat ","
      (Stdlib.List.mapi (fun i r -> if rsec_trips r then string_of_int i else "") b.Seq.b_chain
       |> Stdlib.List.filter (fun s -> s <> "")) in
  (* the faithful reader model, evaluated once per file *)
  let size = Seq.file_size b in
  let hist = history_of b.Seq.b_chain in
  let sans = spec_answer hist in
  let spec_parts = Stdlib.List.map (fun (n, g) -> canon_gotten (Seq.fetch b.Seq.b_placed sans n g)) pl in
  let spec_tr = canon_trailer (spec_trailer hist) in
  let (model, mdiff) =
    match impl_read (layout_of b.Seq.b_chain) size (start_of b.Seq.b_chain) with
    | Res.Ok (m, t) when not (Seq.catalog_ok b.Seq.b_placed m t) -> ("open-malformed", "all")
    | Res.Ok (m, t) ->
      let ans = get_entry m in
      let parts = Stdlib.List.map (fun (n, g) -> canon_gotten (Seq.fetch b.Seq.b_placed ans n g)) pl in
      let diffs = Stdlib.List.filteri (fun _ x -> x >= 0)
          (Stdlib.List.mapi (fun i (a, b) -> if a <> b then i else -1) (Stdlib.List.combine parts spec_parts)) in
      let tr = canon_trailer t in
      let d = Stdlib.List.map string_of_int diffs @ (if tr <> spec_tr then ["T"] else []) in
      (Stdlib.String.concat ";" parts ^ "|T=" ^ tr, if d = [] then "-" else Stdlib.String.concat "," d)
    | Res.Err c -> ("open-" ^ cls_name c, "all") in
  (* mdiff: the probes at which the faithful model itself deviates from the specification *)
  (* rr: do the hypotheses of Prop_C04.read_render hold of this history and file? *)
  let rr = ReadRender.read_render_hyp h b in
  Printf.printf "Y %s wf=%s guard=%s nsec=%d trip=%s hidden=%s mdiff=%s rr=%s\n" id
    (string_of_bool (Seq.hyp_wf b)) (string_of_bool (Seq.hyp_guard b)) (Stdlib.List.length b.Seq.b_chain)
    (if trips = "" then "-" else trips) (string_of_bool (not (Seq.hyp_no_hidden b))) mdiff (string_of_bool rr);
  Printf.printf "O %s %s\n" id model;
  Printf.printf "O %s.spec %s\n" id (Stdlib.String.concat ";" spec_parts ^ "|T=" ^ spec_tr)

let handle_l id fs =
  match fs with
  | [s; d] ->
    let declared = if d = "-" then None else Some (z_of_string d) in
    (match Extent.stream_obj (bytes_of_hex s) declared with
     | Res.Ok (k, l) ->
       (* the data: l bytes starting k bytes into the input *)
       let rec drop n l = if n = 0 then l else match l with [] -> [] | _ :: t -> drop (n - 1) t in
       let rec take n l = if n = 0 then [] else match l with [] -> [] | x :: t -> x :: take (n - 1) t in
       Printf.printf "O %s %s\n" id (hex_of_bytes (take (int_of_nat l) (drop (int_of_nat k) (bytes_of_hex s))))
     | Res.Err c -> Printf.printf "O %s err-%s\n" id (cls_name c))
  | _ -> failwith "bad L case"

let dump_map (m : xmap) (nums : int list) =
  Stdlib.String.concat "," (Stdlib.List.map (fun n -> string_of_int n ^ "=" ^ entry_str (xlookup m (n_of_int n))) nums)

let handle_t id fs =
  match fs with
  | text :: allow :: rest ->
    let (nk, rest) = take_int rest in
    let rec ks k fs acc = if k = 0 then (Stdlib.List.rev acc, fs) else
        match fs with x :: r -> ks (k - 1) r (int_of_string x :: acc) | [] -> failwith "known expected" in
    let (known, rest) = ks nk rest [] in
    let (nq, rest) = take_int rest in
    let (query, _) = ks nq rest [] in
    let m0 = Stdlib.List.map (fun n -> (n_of_int n, InUse (n_of_int 7, z_of_int 7))) known in
    (match XRefText.read_xref_table m0 (allow = "1") (bytes_of_hex text) with
     | Res.Ok (m, _) -> Printf.printf "O %s ok[%s]\n" id (dump_map m query)
     | Res.Err c -> Printf.printf "O %s err-%s\n" id (cls_name c))
  | _ -> failwith "bad T case"

let handle_x id fs =
  match fs with
  | w0 :: w1 :: w2 :: data :: rest ->
    let (ns, rest) = take_int rest in
    let rec subs k fs acc = if k = 0 then (Stdlib.List.rev acc, fs) else
        match fs with a :: b :: r -> subs (k - 1) r ((n_of_string a, n_of_string b) :: acc) | _ -> failwith "sub expected" in
    let (ss, rest) = subs ns rest [] in
    let (nk, rest) = take_int rest in
    let rec ks k fs acc = if k = 0 then (Stdlib.List.rev acc, fs) else
        match fs with x :: r -> ks (k - 1) r (int_of_string x :: acc) | [] -> failwith "known expected" in
    let (known, rest) = ks nk rest [] in
    let (nq, rest) = take_int rest in
    let (query, _) = ks nq rest [] in
    let m0 = Stdlib.List.map (fun n -> (n_of_int n, InUse (n_of_int 7, z_of_int 7))) known in
    (match XRefText.decode_xref_stream m0 (bytes_of_hex data)
             (nat_of_int (int_of_string w0)) (nat_of_int (int_of_string w1)) (nat_of_int (int_of_string w2)) ss with
     | Res.Ok m -> Printf.printf "O %s ok[%s]\n" id (dump_map m query)
     | Res.Err c -> Printf.printf "O %s err-%s\n" id (cls_name c))
  | _ -> failwith "bad X case"

(* <id> P <size> <start> <nsec> {<off> <prev|-> <nsub> {<start> <cnt> {<a> <b> <n|f>}}} <nq> {<num>}
   a layout of classic sections given explicitly (it may contain /Prev cycles) *)
let handle_p id fs =
  match fs with
  | size :: start :: rest ->
    let (nsec, rest) = take_int rest in
    let rec secs k fs acc =
      if k = 0 then (Stdlib.List.rev acc, fs) else
      match fs with
      | off :: prev :: fs ->
        let (nsub, fs) = take_int fs in
        let rec subs k fs acc =
          if k = 0 then (Stdlib.List.rev acc, fs) else
          match fs with
          | st :: cnt :: fs ->
            let cnt = int_of_string cnt in
            let rec ents k fs acc =
              if k = 0 then (Stdlib.List.rev acc, fs) else
              match fs with
              | a :: b :: n :: fs -> ents (k - 1) fs ({ re_a = z_of_string a; re_b = n_of_string b; re_n = (n = "n") } :: acc)
              | _ -> failwith "entry expected" in
            let (es, fs) = ents cnt fs [] in
            subs (k - 1) fs ((n_of_string st, es) :: acc)
          | _ -> failwith "subsection expected" in
        let (sl, fs) = subs nsub fs [] in
        let sec = STable { t_subs = sl; t_trailer = []; t_prev = (if prev = "-" then None else Some (z_of_string prev)); t_xrefstm = None } in
        secs (k - 1) fs ((z_of_string off, sec) :: acc)
      | _ -> failwith "section expected" in
    let (lay, rest) = secs nsec rest [] in
    let (nq, rest) = take_int rest in
    let rec qs k fs acc = if k = 0 then Stdlib.List.rev acc else
        match fs with x :: r -> qs (k - 1) r (int_of_string x :: acc) | [] -> failwith "query expected" in
    let query = qs nq rest [] in
    (match impl_read lay (z_of_string size) (z_of_string start) with
     | Res.Ok (m, _) ->
       Printf.printf "O %s opened %s\n" id
         (Stdlib.String.concat "" (Stdlib.List.map (fun n ->
              match get_entry m (n_of_int n) (n_of_int 0) with AAt _ -> "1" | _ -> "0") query))
     | Res.Err c -> Printf.printf "O %s open-%s\n" id (cls_name c))
  | _ -> failwith "bad P case"

let () =
  iter_lines (fun line ->
    match words line with
    | id :: "H" :: rest -> handle_h id rest
    | id :: "L" :: rest -> handle_l id rest
    | id :: "T" :: rest -> handle_t id rest
    | id :: "X" :: rest -> handle_x id rest
    | id :: "P" :: rest -> handle_p id rest
    | _ -> ())
