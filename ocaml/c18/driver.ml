(* C18 model driver.  One case per line:
     <id> next=<a>:<b>,.. body=<e>.<t>:<op>;<op>/.. fails=<e>.<t>,.. nil=<e>.<t>,.. md=<n> progs=<op>;<op>|.. sched=<tid>,..
   ("-" = empty).  Operations: D<np>.<r>.<t>  X<np>.<r>.<t>  P.<r>.<ta>.<tb>.
   Output: <id> ok=<0|1> st=<statuses before every step and at the end> log=<events, value identities
   renamed in order of first appearance>.  I/O and conversion only. *)
open Wire

let split c s = if s = "-" || s = "" then [] else Stdlib.String.split_on_char c s
let nat s = nat_of_int (int_of_string s)

let parse_op s =
  match Stdlib.String.split_on_char '.' s with
  | [ "D0"; r; t ] -> Cache.ODecode (false, nat r, nat t)
  | [ "D1"; r; t ] -> Cache.ODecode (true, nat r, nat t)
  | [ "X0"; r; t ] -> Cache.OExcl (false, nat r, nat t)
  | [ "X1"; r; t ] -> Cache.OExcl (true, nat r, nat t)
  | [ "P"; r; ta; tb ] -> Cache.OPair (nat r, nat ta, nat tb)
  | _ -> failwith ("bad op " ^ s)

let parse_ops s = Stdlib.List.map parse_op (split ';' s)

let field fs name =
  let p = name ^ "=" in
  let n = Stdlib.String.length p in
  match Stdlib.List.find_opt (fun f -> Stdlib.String.length f >= n && Stdlib.String.sub f 0 n = p) fs with
  | Some f -> Stdlib.String.sub f n (Stdlib.String.length f - n)
  | None -> "-"

let pair_of s =
  match Stdlib.String.split_on_char '.' s with
  | [ a; b ] -> (int_of_string a, int_of_string b)
  | _ -> failwith ("bad pair " ^ s)

let errs = function Cache.ECycle -> "eC" | Cache.EDepth -> "eD" | Cache.EDecode -> "eX"

let () =
  iter_lines (fun line ->
      match words line with
      | [] -> ()
      | id :: fs ->
        let nextl =
          Stdlib.List.map
            (fun s ->
              match Stdlib.String.split_on_char ':' s with
              | [ a; b ] -> (int_of_string a, nat b)
              | _ -> failwith "bad next")
            (split ',' (field fs "next"))
        in
        let bodyl =
          Stdlib.List.map
            (fun s ->
              match Stdlib.String.split_on_char ':' s with
              | [ k; ops ] -> (pair_of k, parse_ops ops)
              | _ -> failwith "bad body")
            (split '/' (field fs "body"))
        in
        let failsl = Stdlib.List.map pair_of (split ',' (field fs "fails")) in
        let nill = Stdlib.List.map pair_of (split ',' (field fs "nil")) in
        let md = nat (field fs "md") in
        let progs = Stdlib.List.map parse_ops (Stdlib.String.split_on_char '|' (field fs "progs")) in
        let sched = Stdlib.List.map nat (split ',' (field fs "sched")) in
        let next r = Stdlib.List.assoc_opt (int_of_nat r) nextl in
        let body e t = match Stdlib.List.assoc_opt (int_of_nat e, int_of_nat t) bodyl with Some l -> l | None -> [] in
        let fails e t = Stdlib.List.mem (int_of_nat e, int_of_nat t) failsl in
        let isnil e t = Stdlib.List.mem (int_of_nat e, int_of_nat t) nill in
        let (tr, st), ok = Cache.run_trace next body fails isnil md (Cache.init progs) sched in
        let names = Hashtbl.create 16 in
        let vname v =
          let v = int_of_nat v in
          if v = 0 then "v0"
          else
            match Hashtbl.find_opt names v with
            | Some n -> n
            | None ->
              let n = Printf.sprintf "v%d" (Hashtbl.length names + 1) in
              Hashtbl.add names v n;
              n
        in
        let outc = function Cache.Ok v -> vname v | Cache.Err x -> errs x in
        let i = int_of_nat in
        let ev = function
          | Cache.EDec (tid, c, o) -> Some (Printf.sprintf "D%d:%d:%d:%s" (i tid) (i c.Cache.cref) (i c.Cache.cty) (outc o))
          | Cache.EExc (tid, r, t, o) -> Some (Printf.sprintf "X%d:%d:%d:%s" (i tid) (i r) (i t) (outc o))
          | Cache.EPair (tid, r, ta, tb, a, b) ->
            let a = vname a in
            let b = vname b in
            Some (Printf.sprintf "P%d:%d:%d:%d:%s:%s" (i tid) (i r) (i ta) (i tb) a b)
          | Cache.ERun (tid, c, e) ->
            Some
              (Printf.sprintf "R%d:%d:%d:%d:%d" (i tid) (i c.Cache.cref) (i e) (i c.Cache.cty)
                 (match c.Cache.cex with Some _ -> 1 | None -> 0))
          | Cache.EPub _ -> None
        in
        let evs = Stdlib.List.filter_map ev (Stdlib.List.rev st.Cache.sh.Cache.log) in
        let sts =
          Stdlib.List.map (fun l -> Stdlib.String.concat "" (Stdlib.List.map (fun n -> string_of_int (i n)) l)) tr
        in
        Printf.printf "%s ok=%s st=%s log=%s\n" id (string_of_bool ok) (Stdlib.String.concat "|" sts)
          (match evs with [] -> "-" | _ -> Stdlib.String.concat "," evs))
