(* C11 model driver.  I/O and parsing only; all logic is extracted Coq.

   Objects (prefix form):  n | s <kind> <hex> | a <len> obj* | d <len> (<hexkey> obj)* |
                           r <ref> | t <len> (<hexkey> obj)* <dataid>
   Input lines:
     <id> M|N <next0> <nsrc> (<ref> g obj | <ref> b)* <nops> (R <ref> | C obj | V obj | X <ref> obj | P <i>)*
          (V: Copy of a value whose result is kept; P <i>: Put(Alloc(), result of operation i))
          run the model copier (N: without the number of Puts); prints
            <id> ok <nputs> | <canon of the model's target from the call results>
          or <id> err <class>
     <id> K <srcenc> <tgtenc> <n> (refs exempt by identity in the source)* <n> (... in the target)* <nsrc> src* <ntgt> (<ref> obj)* <ntr> (<s> <t>)* <nroots> (obj obj)* <nobs> (<t> <flag>)*
          certified checker on graphs read back from real files; prints
            <id> iso <0|1>
            <id>.cs <canon of the source from the source roots>
            <id>.ct <canon of the target from the target roots>
            <id>.y  <t>:<0|1|2> per observed target stream: data in the file is ciphertext (model's prediction) *)
open Wire
open Copier

let rec take_n n f toks =
  if n = 0 then ([], toks)
  else
    let (x, r) = f toks in
    let (xs, r') = take_n (n - 1) f r in
    (x :: xs, r')

let rec parse_obj toks =
  match toks with
  | "n" :: r -> (ONull, r)
  | "s" :: k :: h :: r -> (OScalar (n_of_string k, bytes_of_hex h), r)
  | "a" :: n :: r ->
    let (l, r') = take_n (int_of_string n) parse_obj r in
    (OArr l, r')
  | "d" :: n :: r ->
    let (d, r') = take_n (int_of_string n) parse_entry r in
    (ODict d, r')
  | "r" :: x :: r -> (ORef (n_of_string x), r)
  | "t" :: n :: r ->
    (match take_n (int_of_string n) parse_entry r with
     | (d, id :: r') -> (OStream (d, n_of_string id), r')
     | _ -> failwith "bad stream")
  | _ -> failwith "bad object"

and parse_entry toks =
  match toks with
  | k :: r ->
    let (v, r') = parse_obj r in
    ((bytes_of_hex k, v), r')
  | [] -> failwith "bad entry"

let parse_src_entry toks =
  match toks with
  | x :: "g" :: r ->
    let (o, r') = parse_obj r in
    ((n_of_string x, Good o), r')
  | x :: "b" :: r -> ((n_of_string x, Broken), r)
  | _ -> failwith "bad source entry"

let parse_tgt_entry toks =
  match toks with
  | x :: r ->
    let (o, r') = parse_obj r in
    ((n_of_string x, o), r')
  | [] -> failwith "bad target entry"

(* an operation of a history, with the kind of root its result is *)
type root_kind = Root | NoRoot | PutRoot

let parse_op toks =
  match toks with
  | "R" :: x :: r -> ((History.HCall (CCopyRef (n_of_string x)), Root), r)
  | "C" :: r ->
    let (o, r') = parse_obj r in
    ((History.HCall (CCopy o), Root), r')
  | "V" :: r ->
    (* Copier.Copy of a value that is written later (or never) *)
    let (o, r') = parse_obj r in
    ((History.HCall (CCopy o), NoRoot), r')
  | "X" :: x :: r ->
    let (o, r') = parse_obj r in
    ((History.HCall (CRedirect (n_of_string x, o)), NoRoot), r')
  | "P" :: i :: r -> ((History.HPut (nat_of_int (int_of_string i)), PutRoot), r)
  | _ -> failwith "bad operation"

let parse_pair toks =
  match toks with
  | s :: t :: r -> ((n_of_string s, n_of_string t), r)
  | _ -> failwith "bad pair"

let parse_root toks =
  let (a, r) = parse_obj toks in
  let (b, r') = parse_obj r in
  ((a, b), r')

let counted f toks =
  match toks with
  | n :: r -> take_n (int_of_string n) f r
  | [] -> failwith "missing count"

let string_of_tok (t : Checker.tok) =
  match t with
  | Checker.TNull -> "n"
  | Checker.TScal (k, v) -> "s" ^ string_of_n k ^ ":" ^ hex_of_bytes v
  | Checker.TArr n -> "a" ^ string_of_int (int_of_nat n)
  | Checker.TDict n -> "d" ^ string_of_int (int_of_nat n)
  | Checker.TKey k -> "k" ^ hex_of_bytes k
  | Checker.TDef n -> "D" ^ string_of_int (int_of_nat n)
  | Checker.TUse n -> "U" ^ string_of_int (int_of_nat n)
  | Checker.TStream n -> "t" ^ string_of_n n
  | Checker.TFuel -> "FUEL"

let string_of_canon l = Stdlib.String.concat " " (Stdlib.List.map string_of_tok l)

let string_of_cls (c : Res.cls) =
  match c with
  | Res.Malformed -> "malformed"
  | Res.EOF -> "eof"
  | Res.IO _ -> "io"
  | Res.Auth -> "auth"
  | Res.Panic -> "panic"
  | Res.OutOfFuel -> "outoffuel"
  | Res.Other -> "other"

let () =
  iter_lines (fun line ->
    match words line with
    | id :: (("M" | "N") as op) :: next0 :: rest ->
      let (src, rest) = counted parse_src_entry rest in
      let (ops, _) = counted parse_op rest in
      let hops = Stdlib.List.map fst ops in
      let fuel = History.hist_fuel src hops in
      (match History.run_hist src fuel hops (History.hinit (n_of_string next0)) with
       | Res.Err c -> Printf.printf "%s err %s\n" id (string_of_cls c)
       | Res.Ok h ->
         let written = Stdlib.List.append h.History.hputs h.History.hst.puts in
         let roots =
           Stdlib.List.concat
             (Stdlib.List.map2
                (fun (_, k) r ->
                  match k, r with
                  | Root, _ -> [r]
                  | NoRoot, _ -> []
                  | PutRoot, ORef t ->
                    (* the value that was written, as a direct object *)
                    (match Stdlib.List.find_opt (fun (t', _) -> t' = t) h.History.hputs with
                     | Some (_, v) -> [v]
                     | None -> [])
                  | PutRoot, _ -> [])
                ops h.History.hres)
         in
         let g = Checker.target_graph written in
         Printf.printf "%s ok %s | %s\n" id
           (if op = "M" then string_of_int (Stdlib.List.length written) else "-")
           (string_of_canon (Checker.canon g roots)))
    | id :: "K" :: srcenc :: tgtenc :: rest ->
      let (splain, rest) = counted (fun t -> match t with x :: r -> (n_of_string x, r) | [] -> failwith "bad ref") rest in
      let (tplain, rest) = counted (fun t -> match t with x :: r -> (n_of_string x, r) | [] -> failwith "bad ref") rest in
      let (src, rest) = counted parse_src_entry rest in
      let (tgt, rest) = counted parse_tgt_entry rest in
      let (tr, rest) = counted parse_pair rest in
      let (roots, rest) = counted parse_root rest in
      let (obs, _) = counted parse_pair rest in
      let ok = Checker.iso_ok src tgt tr roots in
      Printf.printf "%s iso %s\n" id (string_of_bool ok);
      Printf.printf "%s.cs %s\n" id (string_of_canon (Checker.canon src (Stdlib.List.map fst roots)));
      Printf.printf "%s.ct %s\n" id
        (string_of_canon (Checker.canon (Checker.target_graph tgt) (Stdlib.List.map snd roots)));
      (* per copied stream: is the data in the target file ciphertext?  (2: not observable) *)
      Printf.printf "%s.y %s\n" id
        (Stdlib.String.concat " "
           (Stdlib.List.map
              (fun (t, flag) ->
                let p =
                  if int_of_n flag = 2 then 2
                  else int_of_n (StreamCrypt.predict_cipher src tr (srcenc = "1") (tgtenc = "1") splain tplain t)
                in
                string_of_n t ^ ":" ^ string_of_int p)
              obs))
    | _ -> ())
