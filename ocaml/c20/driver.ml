(* C20 model driver.  I/O and conversion only.
   Input:
     <id> F <hex file>                                        the bytes of the following cases
     <id> f <hex file>                                        the same, not counted in the tameness statistics
     <id> I <hex>                                             IntObjects.parse_int on these bytes
     <id>.<cut> C <cut> <x|-> <k> {<off>:<class>:<val>}       scan the first <cut> bytes; the outcome of the
                                                              real object parser at the k located candidates;
                                                              x = also print the rebuilt xref table
   Output: <id>.<cut> <observation>   (faithful model: scanner.Find with its buffer windows,
           run as scan_windows_fast, proved equal to scan_windows)
   Side file ideal.txt: the cases on which the search without windows gives a different result. *)
open Wire
open SeqScan

let file : BinNums.coq_N list ref = ref []
let file_arr : BinNums.coq_N array ref = ref [||]

let prefix (n : int) : BinNums.coq_N list =
  let a = !file_arr in
  let rec go i acc = if i < 0 then acc else go (i - 1) (a.(i) :: acc) in
  go (min n (Array.length a) - 1) []

(* offsets are unary numbers; one and the same number object reaches the parse outcome table,
   the listing and the xref table, so its conversion is remembered (by physical identity)
   for the duration of one case *)
let memo : (Datatypes.nat * int) list ref = ref []
let int_of_nat (n : Datatypes.nat) : int =
  match Stdlib.List.find_opt (fun (k, _) -> k == n) !memo with
  | Some (_, v) -> v
  | None -> let v = Wire.int_of_nat n in memo := (n, v) :: !memo; v

let cls_of s : string pres =
  match Stdlib.String.split_on_char ':' s with
  | [_; "ok"; v] -> POk v
  | [_; "malformed"; _] -> PMalformed
  | [_; "eof"; _] -> PEOF
  | _ -> POther

let tout_of cls (v : 'a) : 'a tout = match cls with "ok" -> TOk v | "source" -> TSource | _ -> TBad

let show (objs : string cobj list) (with_xref : bool) : string =
  let parts = Stdlib.List.map (fun o ->
      Printf.sprintf "%s.%s@%d:%s" (string_of_n o.co_obj.fo_num) (string_of_n o.co_obj.fo_gen) (int_of_nat o.co_obj.fo_start)
        (if o.co_broken then "B" else match o.co_val with Some v -> "v" ^ v | None -> "?")) objs in
  let base = "objs[" ^ Stdlib.String.concat " " parts ^ "]" in
  if not with_xref then base
  else begin
    let nums = Stdlib.List.sort_uniq compare (Stdlib.List.map (fun o -> int_of_n o.co_obj.fo_num) objs) in
    let xs = Stdlib.List.filter_map (fun n ->
        match xref_lookup objs (n_of_int n) None with
        | Some (off, g) -> Some (Printf.sprintf "%d=%d.%s" n (int_of_nat off) (string_of_n g))
        | None -> None) nums in
    base ^ " xref[" ^ Stdlib.String.concat " " xs ^ "]"
  end

let result (ms : (Datatypes.nat * marker) list option) pc with_xref px pt : string =
  match seq_scan ms pc with
  | Res.Ok objs ->
    (* getTrailer on the located sections *)
    let secs = match ms with Some l -> locate l | None -> [] in
    let tr = match scan_trailer px pt secs with
      | Res.Ok d -> d
      | Res.Err (Res.IO _) -> "source"
      | Res.Err _ -> "none" in
    show objs with_xref ^ " trailer[" ^ tr ^ "]"
  | Res.Err Res.Malformed -> "fail-malformed"
  | Res.Err Res.EOF -> "fail-eof"
  | Res.Err _ -> "fail-other"

(* the same list of markers: the observation is then the same and need not be computed twice *)
let same_markers a b = match a, b with
  | Some x, Some y ->
    (try Stdlib.List.for_all2 (fun (p, m) (q, n) -> int_of_nat p = int_of_nat q && m = n) x y
     with Invalid_argument _ -> false)
  | None, None -> true
  | _ -> false

let ideal_diff = ref 0
let nfiles = ref 0
let ntame = ref 0
let ideal_out = lazy (open_out "ideal.txt")

let () =
  iter_lines (fun line ->
    match words line with
    | [_; ("F" | "f" as tag); hex] ->
      file := bytes_of_hex hex;
      file_arr := Array.of_list !file;
      (* does the hypothesis of the theorems hold of this file?  (f: the file is also given
         to another process, which answers this) *)
      if tag = "F" then begin
        incr nfiles;
        if WindowTheorems.tameb !file then incr ntame
      end
    | id :: "I" :: hexs ->
      (* H-parse instance: the reader of integer objects on these bytes (none: the empty input) *)
      let hex = match hexs with h :: _ -> h | [] -> "" in
      (match IntObjects.parse_int (bytes_of_hex hex) with
       | POk v ->
         let n = Stdlib.List.fold_left (fun a d -> a * 10 + (int_of_n d - 48)) 0 v in
         Printf.printf "%s ok:%d\n" id n
       | _ -> Printf.printf "%s fail\n" id)
    | id :: "C" :: cut :: x :: k :: rest ->
      memo := [];
      let data = prefix (int_of_string cut) in
      let table = Hashtbl.create 16 in
      let rec take n l acc = if n = 0 then (Stdlib.List.rev acc, l) else
          match l with y :: r -> take (n - 1) r (y :: acc) | [] -> (Stdlib.List.rev acc, []) in
      let (pcs, rest) = take (int_of_string k) rest [] in
      Stdlib.List.iter (fun s ->
          match Stdlib.String.split_on_char ':' s with
          | off :: _ -> Hashtbl.replace table (int_of_string off) (cls_of s)
          | [] -> ()) pcs;
      (* X <k> off:cls:root:dig   T <k> pos:cls:dig *)
      let xt = Hashtbl.create 4 and tt = Hashtbl.create 4 in
      (match rest with
       | "X" :: nx :: rest ->
         let (xl, rest) = take (int_of_string nx) rest [] in
         Stdlib.List.iter (fun s ->
             match Stdlib.String.split_on_char ':' s with
             | [off; cls; root; dig] ->
               Hashtbl.replace xt (int_of_string off) (tout_of cls (if root = "1" then Some dig else None))
             | _ -> ()) xl;
         (match rest with
          | "T" :: nt :: rest ->
            let (tl, _) = take (int_of_string nt) rest [] in
            Stdlib.List.iter (fun s ->
                match Stdlib.String.split_on_char ':' s with
                | [pos; cls; dig] -> Hashtbl.replace tt (int_of_string pos) (tout_of cls dig)
                | _ -> ()) tl
          | _ -> ())
       | _ -> ());
      let px (off : Datatypes.nat) = Hashtbl.find_opt xt (int_of_nat off) in
      let pt (pos : Datatypes.nat) = match Hashtbl.find_opt tt (int_of_nat pos) with Some r -> r | None -> TBad in
      (* a candidate the implementation did not locate has no recorded outcome *)
      let pc (off : Datatypes.nat) : string pres =
        match Hashtbl.find_opt table (int_of_nat off) with Some r -> r | None -> POk "unlocated-by-impl" in
      let with_xref = (x = "x") in
      (* scan_windows_fast = scan_windows (Prop_C20.scan_windows_fast_is_scan_windows) *)
      let ms_w = FastScan.scan_windows_fast data in
      let w = result ms_w pc with_xref px pt in
      Printf.printf "%s %s\n" id w;
      let ms_i = scan_ideal data in
      let i = if same_markers ms_i ms_w then w else result ms_i pc with_xref px pt in
      if i <> w then begin
        incr ideal_diff;
        if !ideal_diff <= 50 then Printf.fprintf (Lazy.force ideal_out) "%s\n  windows: %s\n  ideal  : %s\n" id w i
      end
    | _ -> ());
  Printf.fprintf (Lazy.force ideal_out) "windowed and ideal search differ on %d cases; %d of %d files are tame\n" !ideal_diff !ntame !nfiles;
  close_out (Lazy.force ideal_out)
