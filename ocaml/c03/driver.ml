(* C03 driver: the extracted strict validator on files.  I/O and conversion only.

   Input (a case is a group of lines with the same id, closed by E):
     <id> F <enc 0|1> <hexfile>
     <id> O <hexraw> <hexdecoded>          oracle entries (zlib / cipher, from the harness)
     <id> Q <n> <g>                        references to report
     <id> E
   or one line
     <id> P ...                            a C02 program: the model writer produces the file,
                                           which is appended to the file named by -files
   Output:
     <id> verdict ok | <id> verdict err <name>
     <id> meta <version> root=<n>.<g> info=<n>.<g>|- id=<hex>,<hex>|-
     <id>.<n>.<g> null | V <value> | T <dict> <hexdata|!oracle>
   Notes (xref stream's own entry, generation of object 0) go to the file named by -notes. *)
open Wire
open BinNums
open Obj
open Validate

exception Bad of string

let err_name (c : coq_N) = match int_of_n c with
  | 1 -> "header" | 2 -> "tail" | 3 -> "xrefpos" | 4 -> "subsection" | 5 -> "xref-line"
  | 6 -> "object0" | 7 -> "trailer" | 8 -> "size" | 9 -> "prev" | 10 -> "xref-stream-dict"
  | 11 -> "xref-stream-data" | 12 -> "index" | 13 -> "oracle-miss" | 14 -> "predictor"
  | 15 -> "entry-type" | 16 -> "offset" | 17 -> "object-header" | 18 -> "object-number"
  | 19 -> "object-syntax" | 20 -> "object-end" | 21 -> "stream-eol" | 22 -> "length"
  | 23 -> "endstream" | 24 -> "objstm-entry" | 25 -> "objstm-dict" | 26 -> "objstm-pairs"
  | 27 -> "objstm-order" | 28 -> "objstm-index" | 29 -> "objstm-object" | 30 -> "objstm-stream"
  | 31 -> "root" | 32 -> "after-xref" | 33 -> "objstm-first" | 34 -> "boundary" | 35 -> "filter-decodeparms"
  | n -> "code" ^ string_of_int n

let hexs l = match l with [] -> "-" | _ -> hex_of_bytes l
let str_of (l : coq_N list) = Stdlib.String.of_seq (Stdlib.List.to_seq (Stdlib.List.map (fun b -> Char.chr (int_of_n b land 255)) l))

let rec show (mask : bool) (o : obj) : string =
  match o with
  | ONull -> "n"
  | OBool true -> "t"
  | OBool false -> "f"
  | OInt z -> "i" ^ string_of_z z
  | OReal t -> "r" ^ str_of t
  | OName n -> "N" ^ hexs n
  | OStr s -> if mask then "S*" else "S" ^ hexs s
  | OArr l -> Stdlib.String.concat " " (("A" ^ string_of_int (Stdlib.List.length l)) :: Stdlib.List.map (show mask) l)
  | ODict l ->
    Stdlib.String.concat " " (("D" ^ string_of_int (Stdlib.List.length l)) ::
                              Stdlib.List.map (fun (k, v) -> hexs k ^ " " ^ show mask v) l)
  | ORef (n, g) -> "R" ^ string_of_n n ^ "." ^ string_of_n g

let key s = Stdlib.List.map (fun c -> n_of_int (Char.code c)) (Stdlib.List.of_seq (Stdlib.String.to_seq s))
let strip d =
  Stdlib.List.filter (fun (k, _) -> let k = str_of k in k <> "Length" && k <> "Filter" && k <> "DecodeParms") d

let notes_oc = ref None
let files_oc = ref None

let report id (f : coq_N list) (orc : (coq_N list * coq_N list) list) (qs : (string * string) list) =
  match validate_strict orc f with
  | VErr c -> Printf.printf "%s verdict err %s\n" id (err_name c)
  | VOk d ->
    Printf.printf "%s verdict ok\n" id;
    let tr = d.d_trailer in
    let refs k = match dict_get (key k) tr with
      | Some (ORef (n, g)) -> string_of_n n ^ "." ^ string_of_n g | _ -> "-" in
    let ids = match dict_get (key "ID") tr with
      | Some (OArr [OStr a; OStr b]) -> hexs a ^ "," ^ hexs b | _ -> "-" in
    Printf.printf "%s meta %s root=%s info=%s id=%s\n" id (string_of_n d.d_version) (refs "Root") (refs "Info") ids;
    let mask = d.d_encrypted in
    Stdlib.List.iter (fun (n, g) ->
        let nn = n_of_string n and gg = n_of_string g in
        let obs =
          match Stdlib.List.find_opt (fun o -> o.o_num = nn && o.o_gen = gg) d.d_objects with
          | Some o ->
            (match o.o_body with
             | BObj ONull -> "null"
             | BObj v -> "V " ^ show mask v
             | BStream (sd, off, len) ->
               (match stream_payload orc f d sd off len with
                | Some data -> "T " ^ show mask (ODict (strip sd)) ^ " " ^ hexs data
                | None -> "T " ^ show mask (ODict (strip sd)) ^ " !oracle"))
          | None ->
            (match Stdlib.List.find_opt (fun (((m, _), _), _) -> m = nn) d.d_members with
             | Some (_, ONull) when gg = N0 -> "null"
             | Some (_, v) when gg = N0 -> "V " ^ show mask v
             | _ -> "null") in
        Printf.printf "%s.%s.%s %s\n" id n g obs) qs;
    (match !notes_oc with
     | Some oc ->
       let self = match d.d_xstream with
         | Some n ->
           (match Stdlib.List.nth_opt d.d_entries (int_of_n n) with
            | Some (XFree _) -> "free" | Some _ -> "listed" | None -> "beyond-size")
         | None -> "table" in
       let g0 = match d.d_entries with XFree (_, g) :: _ -> string_of_n g | _ -> "?" in
       Printf.fprintf oc "%s xref-stream-own-entry=%s object0-generation=%s\n" id self g0
     | None -> ())

(* ---- C02 program lines, for the model writer (same format as ocaml/c02/driver.ml) ---- *)
open Writer

let rec parse_value (ts : string list) : obj * string list =
  match ts with
  | [] -> raise (Bad "value expected")
  | t :: rest ->
    let body = Stdlib.String.sub t 1 (Stdlib.String.length t - 1) in
    (match t.[0] with
     | 'n' -> (ONull, rest)
     | 't' -> (OBool true, rest)
     | 'f' -> (OBool false, rest)
     | 'i' -> (OInt (z_of_string body), rest)
     | 'r' -> (OReal (key body), rest)
     | 'N' -> (OName (bytes_of_hex body), rest)
     | 'S' -> (OStr (bytes_of_hex body), rest)
     | 'R' ->
       (match Stdlib.String.split_on_char '.' body with
        | [a; b] -> (ORef (n_of_string a, n_of_string b), rest)
        | _ -> raise (Bad "ref"))
     | 'A' ->
       let k = int_of_string body in
       let rec go k ts acc = if k = 0 then (Stdlib.List.rev acc, ts) else
           let (v, ts') = parse_value ts in go (k - 1) ts' (v :: acc) in
       let (l, rest') = go k rest [] in (OArr l, rest')
     | 'D' ->
       let rec go k ts acc = if k = 0 then (Stdlib.List.rev acc, ts) else
           match ts with
           | kk :: ts' -> let (v, ts'') = parse_value ts' in go (k - 1) ts'' ((bytes_of_hex kk, v) :: acc)
           | [] -> raise (Bad "dict") in
       let (d, rest') = go (int_of_string body) rest [] in (ODict d, rest')
     | _ -> raise (Bad ("value " ^ t)))

let parse_dict ts = match parse_value ts with (ODict d, r) -> (d, r) | _ -> raise (Bad "dict expected")
let parse_pobj ts = match ts with
  | "o" :: r -> let (v, r') = parse_value r in (PObj v, r')
  | "s" :: r -> let (d, r') = parse_dict r in
    (match r' with h :: b :: r'' -> (PStream (d, bytes_of_hex h, b = "1"), r'') | _ -> raise (Bad "pobj"))
  | _ -> raise (Bad "pobj")

let enc_table : (string * string, coq_N list) Hashtbl.t = Hashtbl.create 64
let fkey name parms = hex_of_bytes name ^ " " ^ show false (ODict parms)
let fenc_table name parms data =
  match Hashtbl.find_opt enc_table (fkey name parms, hex_of_bytes data) with
  | Some o -> o
  | None -> Stored.fenc_concrete name [] data

let rec parse_ops n ts acc =
  if n = 0 then (Stdlib.List.rev acc, ts) else
    match ts with
    | "A" :: r -> parse_ops (n - 1) r (Alloc :: acc)
    | "U" :: a :: b :: r ->
      let (p, r') = parse_pobj r in
      (match r' with
       | big :: r'' -> parse_ops (n - 1) r'' (Put (n_of_string a, n_of_string b, p, big = "1") :: acc)
       | [] -> raise (Bad "U"))
    | "C" :: k :: r ->
      let rec refs k ts acc = if k = 0 then (Stdlib.List.rev acc, ts) else
          match ts with a :: b :: r -> refs (k - 1) r ((n_of_string a, n_of_string b) :: acc) | _ -> raise (Bad "C") in
      let (rs, r1) = refs (int_of_string k) r [] in
      (match r1 with
       | m :: r2 ->
         let rec objs m ts acc = if m = 0 then (Stdlib.List.rev acc, ts) else
             let (p, ts') = parse_pobj ts in objs (m - 1) ts' (p :: acc) in
         let (os, r3) = objs (int_of_string m) r2 [] in
         (match r3 with
          | nb :: r4 ->
            let rec flags k ts acc = if k = 0 then (Stdlib.List.rev acc, ts) else
                match ts with b :: ts' -> flags (k - 1) ts' ((b = "1") :: acc) | [] -> raise (Bad "C flags") in
            let (bigs, r5) = flags (int_of_string nb) r4 [] in
            parse_ops (n - 1) r5 (WriteCompressed (rs, os, bigs) :: acc)
          | [] -> raise (Bad "C"))
       | [] -> raise (Bad "C"))
    | "O" :: a :: b :: r ->
      let (d, r1) = parse_dict r in
      (match r1 with
       | nf :: r2 ->
         let rec fs k ts acc = if k = 0 then (Stdlib.List.rev acc, ts) else
             match ts with
             | name :: ts' -> let (p, ts'') = parse_dict ts' in fs (k - 1) ts'' ((bytes_of_hex name, p) :: acc)
             | [] -> raise (Bad "O") in
         let (fl, r3) = fs (int_of_string nf) r2 [] in
         (match r3 with
          | "E" :: k :: r4 ->
            let rec encs k ts = if k = 0 then ts else
                match ts with
                | name :: ts0 ->
                  let (p, ts1) = parse_dict ts0 in
                  (match ts1 with
                   | i :: o :: ts' -> Hashtbl.replace enc_table (fkey (bytes_of_hex name) p, i) (bytes_of_hex o); encs (k - 1) ts'
                   | _ -> raise (Bad "E"))
                | _ -> raise (Bad "E") in
            let r5 = encs (int_of_string k) r4 in
            parse_ops (n - 1) r5 (OpenStream (n_of_string a, n_of_string b, d, fl) :: acc)
          | _ -> raise (Bad "O"))
       | [] -> raise (Bad "O"))
    | "W" :: h :: s :: r -> parse_ops (n - 1) r (Write (bytes_of_hex h, s = "1") :: acc)
    | "S" :: big :: r -> parse_ops (n - 1) r (CloseStream (big = "1") :: acc)
    | "Z" :: r ->
      let (cat, r1) = parse_value r in
      (match r1 with
       | "0" :: r2 -> parse_ops (n - 1) r2 (Close (cat, None) :: acc)
       | "1" :: r2 -> let (i, r3) = parse_value r2 in parse_ops (n - 1) r3 (Close (cat, Some i) :: acc)
       | _ -> raise (Bad "Z"))
    | t :: _ -> raise (Bad ("op " ^ t))
    | [] -> raise (Bad "ops")

let model_file id v hr seek id0 id1 nops rest =
  Hashtbl.reset enc_table;
  let (ops, _) = parse_ops (int_of_string nops) rest [] in
  let cfg = { cv = n_of_string v; chuman = (hr = "1"); cseek = (seek = "1"); ccipher = CNone;
              cid = (if id0 = "-" && id1 = "-" then None else Some (bytes_of_hex id0, bytes_of_hex id1));
              cencrypt = None } in
  match Writer.init cfg with
  | Res.Ok st0 ->
    (match Writer.run_lenient Syntax.fmt_obj Stored.fmt_sd_concrete Stored.id_cipher Stored.id_cipher
             fenc_table Stored.deflate_stored cfg st0 ops N0 [] false with
     | (((st, _), _), None) when st.closed ->
       (match !files_oc with Some oc -> Printf.fprintf oc "%s %s\n" id (hex_of_bytes st.out) | None -> ())
     | _ -> ())
  | Res.Err _ -> ()

let () =
  let args = Array.to_list Sys.argv in
  let rec opts = function
    | "-notes" :: p :: r -> notes_oc := Some (open_out p); opts r
    | "-files" :: p :: r -> files_oc := Some (open_out p); opts r
    | _ :: r -> opts r
    | [] -> () in
  opts (Stdlib.List.tl args);
  let file = ref [] and orc = ref [] and qs = ref [] in
  iter_lines (fun line ->
    match words line with
    | id :: "F" :: _ :: h :: [] -> file := bytes_of_hex h; orc := []; qs := []
    | id :: "O" :: a :: b :: [] -> orc := (bytes_of_hex a, bytes_of_hex b) :: !orc
    | id :: "Q" :: n :: g :: [] -> qs := (n, g) :: !qs
    | id :: "E" :: [] -> report id !file (Stdlib.List.rev !orc) (Stdlib.List.rev !qs)
    | id :: "P" :: v :: hr :: seek :: "0" :: id0 :: id1 :: nops :: rest ->
      (try model_file id v hr seek id0 id1 nops rest with Bad m -> Printf.printf "%s badcase %s\n" id m)
    | _ -> ());
  (match !notes_oc with Some oc -> close_out oc | None -> ());
  (match !files_oc with Some oc -> close_out oc | None -> ())
