(* C13 model driver.  Input lines (see harness/c13/main.go), [x]+ meaning a counted repetition
   "n x1 .. xn":
     id C csr all [ [code cid]+ [first last cid]+ [code cid]+ [first last cid]+ ]+ [ map [code cid]+ [first last cid]+ ]+ [probe]+
                          hand-made parents root first (singles, ranges, notdef singles, notdef ranges), then the levels
                          SetMapping builds, root first: map, notdef singles, notdef ranges
     id T csr [ map ]+ [probe]+
     id F csr all [code cid]+ [first last cid]+ [probe]+              hand-made CID file
     id U csr all [code text]+ [first last [text]+ ]+ [probe]+        hand-made ToUnicode file
   csr = [lo hi]+, map = "-" or code:value,... , text = "-" or hex runes joined by '.'
     id WC name wmode ros parent csr singles ranges notdef-singles notdef-ranges   -> write_tokens_cid, token wire
     id WT name parent csr singles ranges                                         -> write_tokens_tu
     id RC tokens / id RT tokens                                                  -> read_tokens_*, structural wire
   Output: id L=lookup results A=collected enumeration G=GetMapping
   I/O and parsing only; every result comes from the extracted functions. *)
open Wire
open CMapRanges
open CMapText

let split c s = Stdlib.List.filter (fun x -> x <> "") (Stdlib.String.split_on_char c s)

let text_of s = if s = "-" then [] else Stdlib.List.map (fun h -> n_of_int (int_of_string ("0x" ^ h))) (split '.' s)
let string_of_text t =
  match t with
  | [] -> "-"
  | _ -> Stdlib.String.concat "." (Stdlib.List.map (fun r -> Printf.sprintf "%x" (int_of_n r)) t)

let pair_of tok =
  match Stdlib.String.index_opt tok ':' with
  | Some i -> (Stdlib.String.sub tok 0 i, Stdlib.String.sub tok (i + 1) (Stdlib.String.length tok - i - 1))
  | None -> failwith "bad pair"

let cid_map tok = if tok = "-" then [] else Stdlib.List.map (fun t -> let (a, b) = pair_of t in (n_of_string a, n_of_string b)) (split ',' tok)
let tu_map tok = if tok = "-" then [] else Stdlib.List.map (fun t -> let (a, b) = pair_of t in (n_of_string a, text_of b)) (split ',' tok)

let cid_map_out l =
  match l with
  | [] -> "-"
  | _ -> Stdlib.String.concat "," (Stdlib.List.map (fun (k, v) -> string_of_n k ^ ":" ^ string_of_n v) l)
let tu_map_out l =
  match l with
  | [] -> "-"
  | _ -> Stdlib.String.concat "," (Stdlib.List.map (fun (k, v) -> string_of_n k ^ ":" ^ string_of_text v) l)

(* take n items with a reader that consumes tokens *)
let rec take_n n f toks acc =
  if n = 0 then (Stdlib.List.rev acc, toks)
  else let (x, rest) = f toks in take_n (n - 1) f rest (x :: acc)

let counted f toks =
  match toks with
  | n :: rest -> take_n (int_of_string n) f rest []
  | [] -> failwith "missing count"

let rd_csr toks = counted (function lo :: hi :: r -> ((bytes_of_hex lo, bytes_of_hex hi), r) | _ -> failwith "csr") toks
let rd_probes toks = counted (function p :: r -> (bytes_of_hex p, r) | _ -> failwith "probe") toks
let rd_csingle = function c :: v :: r -> ((bytes_of_hex c, n_of_string v), r) | _ -> failwith "single"
let rd_crange = function a :: b :: v :: r -> (((bytes_of_hex a, bytes_of_hex b), n_of_string v), r) | _ -> failwith "range"
let rd_tsingle = function c :: v :: r -> ((bytes_of_hex c, text_of v), r) | _ -> failwith "single"
let rd_trange = function
  | a :: b :: rest ->
    let (vals, r) = counted (function v :: r -> (text_of v, r) | _ -> failwith "val") rest in
    (((bytes_of_hex a, bytes_of_hex b), vals), r)
  | _ -> failwith "range"

(* ---- text level: wire formats ---- *)
let hex_or_dash l = hex_of_bytes l
let colon s = Stdlib.String.split_on_char ':' s
let semis s = if s = "-" then [] else Stdlib.String.split_on_char ';' s

let tok_wire ts =
  match ts with
  | [] -> "-"
  | _ ->
    Stdlib.String.concat "," (Stdlib.List.map (fun t ->
      match t with
      | TInt z -> "i" ^ string_of_z z
      | TStr s -> "s" ^ hex_or_dash s
      | TLit n -> "l" ^ hex_or_dash n
      | TExec n -> "x" ^ hex_or_dash n
      | TArr vs -> "a" ^ Stdlib.String.concat "." (Stdlib.List.map hex_or_dash vs)) ts)

let tok_of_wire s =
  if s = "-" then []
  else Stdlib.List.map (fun p ->
    let body = Stdlib.String.sub p 1 (Stdlib.String.length p - 1) in
    match p.[0] with
    | 'i' -> TInt (z_of_string body)
    | 's' -> TStr (bytes_of_hex body)
    | 'l' -> TLit (bytes_of_hex body)
    | 'x' -> TExec (bytes_of_hex body)
    | 'a' -> TArr (if body = "" then [] else Stdlib.List.map bytes_of_hex (Stdlib.String.split_on_char '.' body))
    | _ -> failwith "bad token") (Stdlib.String.split_on_char ',' s)

let opt_name s = if s = "-" then None else Some (bytes_of_hex (Stdlib.String.sub s 1 (Stdlib.String.length s - 1)))
let csr_in s = Stdlib.List.map (fun e -> match colon e with [a; b] -> (bytes_of_hex a, bytes_of_hex b) | _ -> failwith "csr") (semis s)
let csingles_in s = Stdlib.List.map (fun e -> match colon e with [a; v] -> (bytes_of_hex a, n_of_string v) | _ -> failwith "single") (semis s)
let cranges_in s = Stdlib.List.map (fun e -> match colon e with [a; b; v] -> ((bytes_of_hex a, bytes_of_hex b), n_of_string v) | _ -> failwith "range") (semis s)
let ros_in s = if s = "-" then None else match colon s with [a; b; c] -> Some ((bytes_of_hex a, bytes_of_hex b), z_of_string c) | _ -> failwith "ros"
let tsingles_in s = Stdlib.List.map (fun e -> match colon e with [a; v] -> (bytes_of_hex a, text_of v) | _ -> failwith "tsingle") (semis s)
let tranges_in s = Stdlib.List.map (fun e -> match colon e with
    | [a; b; n; vs] ->
      let n = int_of_string n in
      let vals = if n = 0 then [] else Stdlib.List.map text_of (Stdlib.String.split_on_char '|' vs) in
      ((bytes_of_hex a, bytes_of_hex b), vals)
    | _ -> failwith "trange") (semis s)

let list_out f l = match l with [] -> "-" | _ -> Stdlib.String.concat ";" (Stdlib.List.map f l)
let csr_out l = list_out (fun (a, b) -> hex_or_dash a ^ ":" ^ hex_or_dash b) l
let csingles_out l = list_out (fun (a, v) -> hex_or_dash a ^ ":" ^ string_of_n v) l
let cranges_out l = list_out (fun ((a, b), v) -> hex_or_dash a ^ ":" ^ hex_or_dash b ^ ":" ^ string_of_n v) l
let par_out p = match p with None -> "-" | Some n -> "=" ^ hex_or_dash n
let ros_out r = match r with None -> "-" | Some ((a, b), c) -> hex_or_dash a ^ ":" ^ hex_or_dash b ^ ":" ^ string_of_z c
let tsingles_out l = list_out (fun (a, v) -> hex_or_dash a ^ ":" ^ string_of_text v) l
let tranges_out l = list_out (fun ((a, b), vs) ->
    hex_or_dash a ^ ":" ^ hex_or_dash b ^ ":" ^ string_of_int (Stdlib.List.length vs) ^ ":" ^
    Stdlib.String.concat "|" (Stdlib.List.map string_of_text vs)) l

let lookups_cid f probes = Stdlib.String.concat "," (Stdlib.List.map (fun p -> string_of_n (lookup_cid f p)) probes)
let lookups_tu f probes =
  Stdlib.String.concat "," (Stdlib.List.map (fun p -> match lookup_tu f p with Some t -> string_of_text t | None -> "~") probes)

let () =
  iter_lines (fun line ->
    match words line with
    | id :: "C" :: rest ->
      let (csr, rest) = rd_csr rest in
      (match rest with
       | all :: rest ->
         (* hand-made parent files, root first: singles, ranges, notdef singles, notdef ranges *)
         let rd_base toks =
           let (ss, r) = counted rd_csingle toks in
           let (rr, r) = counted rd_crange r in
           let (nds, r) = counted rd_csingle r in
           let (ndr, r) = counted rd_crange r in
           ((ss, rr, nds, ndr), r) in
         let (bases, rest) = counted rd_base rest in
         let rd_level toks =
           match toks with
           | m :: r ->
             let (nds, r) = counted rd_csingle r in
             let (ndr, r) = counted rd_crange r in
             ((cid_map m, nds, ndr), r)
           | [] -> failwith "level" in
         let (levels, rest) = counted rd_level rest in
         let (probes, _) = rd_probes rest in
         let base = Stdlib.List.fold_left (fun par (ss, rr, nds, ndr) -> Some (CFile (csr, ss, rr, nds, ndr, par))) None bases in
         let f = Stdlib.List.fold_left (fun par (m, nds, ndr) ->
             Some (set_mapping csr (CFile ([], [], [], nds, ndr, par)) m)) base levels in
         (match f with
          | None -> Printf.printf "%s nolevels\n" id
          | Some f ->
            if all = "1" then begin
              (* projection: an entry whose CID is the notdef result of its code may or may not be listed *)
              let listed = Stdlib.List.filter (fun (k, v) -> lookup_notdef f (append_code csr k) <> v) (collect (all_cid csr f)) in
              Printf.printf "%s L=%s A=%s\n" id (lookups_cid f probes) (cid_map_out listed) end
            else Printf.printf "%s L=%s A=skipped\n" id (lookups_cid f probes))
       | [] -> Printf.printf "%s badcase\n" id)
    | id :: "T" :: rest ->
      let (csr, rest) = rd_csr rest in
      let (levels, rest) = counted (function m :: r -> (tu_map m, r) | [] -> failwith "level") rest in
      let (probes, _) = rd_probes rest in
      let f = Stdlib.List.fold_left (fun par m -> Some (with_parent (new_tounicode csr m) par)) None levels in
      (match f with
       | None -> Printf.printf "%s nolevels\n" id
       | Some f ->
         Printf.printf "%s L=%s A=%s G=%s\n" id (lookups_tu f probes) (tu_map_out (collect (all_tu csr f)))
           (tu_map_out (get_mapping f)))
    | id :: "F" :: rest ->
      let (csr, rest) = rd_csr rest in
      (match rest with
       | all :: rest ->
         let (ss, rest) = counted rd_csingle rest in
         let (rs, rest) = counted rd_crange rest in
         let (probes, _) = rd_probes rest in
         let f = CFile (csr, ss, rs, [], [], None) in
         if all = "2" then begin
           let l = all_cid csr f in
           let top = Stdlib.List.fold_left (fun m (k, _) -> max m (int_of_n k)) 0 l in
           Printf.printf "%s L=%s N=%d K=%d\n" id (lookups_cid f probes) (Stdlib.List.length l) top end
         else if all = "1" then Printf.printf "%s L=%s A=%s\n" id (lookups_cid f probes) (cid_map_out (collect (all_cid csr f)))
         else Printf.printf "%s L=%s\n" id (lookups_cid f probes)
       | [] -> Printf.printf "%s badcase\n" id)
    | id :: "U" :: rest ->
      let (csr, rest) = rd_csr rest in
      (match rest with
       | all :: rest ->
         let (ss, rest) = counted rd_tsingle rest in
         let (rs, rest) = counted rd_trange rest in
         let (probes, _) = rd_probes rest in
         let f = TFile (csr, ss, rs, None) in
         if all = "2" then begin
           let l = all_tu csr f in
           let top = Stdlib.List.fold_left (fun m (k, _) -> max m (int_of_n k)) 0 l in
           Printf.printf "%s L=%s N=%d K=%d\n" id (lookups_tu f probes) (Stdlib.List.length l) top end
         else if all = "1" then Printf.printf "%s L=%s A=%s\n" id (lookups_tu f probes) (tu_map_out (collect (all_tu csr f)))
         else Printf.printf "%s L=%s\n" id (lookups_tu f probes)
       | [] -> Printf.printf "%s badcase\n" id)
    | id :: "WC" :: [name; wmode; ros; par; csr; ss; rr; nds; ndr] ->
      let t = { ct_name = bytes_of_hex name; ct_wmode = n_of_string wmode; ct_ros = ros_in ros; ct_parent = opt_name par;
                ct_csr = csr_in csr; ct_singles = csingles_in ss; ct_ranges = cranges_in rr;
                ct_nd_singles = csingles_in nds; ct_nd_ranges = cranges_in ndr } in
      Printf.printf "%s %s\n" id (tok_wire (write_tokens_cid t))
    | id :: "WT" :: [name; par; csr; ss; rr] ->
      let t = { tt_name = bytes_of_hex name; tt_parent = opt_name par; tt_csr = csr_in csr;
                tt_singles = tsingles_in ss; tt_ranges = tranges_in rr } in
      Printf.printf "%s %s\n" id (tok_wire (write_tokens_tu t))
    | id :: "RC" :: [toks] ->
      (match read_tokens_cid (tok_of_wire toks) with
       | None -> Printf.printf "%s none\n" id
       | Some t ->
         Printf.printf "%s %s %s %s %s %s %s %s %s %s\n" id (hex_or_dash t.ct_name) (string_of_n t.ct_wmode) (ros_out t.ct_ros)
           (par_out t.ct_parent) (csr_out t.ct_csr) (csingles_out t.ct_singles) (cranges_out t.ct_ranges)
           (csingles_out t.ct_nd_singles) (cranges_out t.ct_nd_ranges))
    | id :: "RT" :: [toks] ->
      (match read_tokens_tu (tok_of_wire toks) with
       | None -> Printf.printf "%s none\n" id
       | Some t ->
         Printf.printf "%s %s %s %s %s %s\n" id (hex_or_dash t.tt_name) (par_out t.tt_parent) (csr_out t.tt_csr)
           (tsingles_out t.tt_singles) (tranges_out t.tt_ranges))
    | id :: _ -> Printf.printf "%s badcase\n" id
    | [] -> ())
