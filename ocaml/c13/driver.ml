(* C13 model driver.  Input lines (see harness/c13/main.go), [x]+ meaning a counted repetition
   "n x1 .. xn":
     id C csr [ map [code cid]+ [first last cid]+ ]+ [probe]+       levels root first: map, notdef singles, notdef ranges
     id T csr [ map ]+ [probe]+
     id F csr all [code cid]+ [first last cid]+ [probe]+              hand-made CID file
     id U csr all [code text]+ [first last [text]+ ]+ [probe]+        hand-made ToUnicode file
   csr = [lo hi]+, map = "-" or code:value,... , text = "-" or hex runes joined by '.'
   Output: id L=lookup results A=collected enumeration G=GetMapping
   I/O and parsing only; every result comes from the extracted functions. *)
open Wire
open CMapRanges

let split c s = Stdlib.List.filter (fun x -> x <> "") (Stdlib.String.split_on_char c s)

let text_of s = if s = "-" then [] else Stdlib.List.map (fun h -> n_of_int (int_of_string ("0x" ^ h))) (split '.' s)
let string_of_text t =
  match t with
  | [] -> "-"
  | _ -> Stdlib.String.concat "." (Stdlib.List.map (fun r -> Printf.sprintf "%x" (int_of_n r)) t)

let pair_of tok =
  match Stdlib.String.index_opt tok ':' with
  | Some i -> (Stdlib.String.sub tok 0 i, Stdlib.String.sub tok (i + 1) (Stdlib.String.length tok - i - 1))
  | None -> failwith "bad pair"

let cid_map tok = if tok = "-" then [] else Stdlib.List.map (fun t -> let (a, b) = pair_of t in (n_of_string a, n_of_string b)) (split ',' tok)
let tu_map tok = if tok = "-" then [] else Stdlib.List.map (fun t -> let (a, b) = pair_of t in (n_of_string a, text_of b)) (split ',' tok)

let cid_map_out l =
  match l with
  | [] -> "-"
  | _ -> Stdlib.String.concat "," (Stdlib.List.map (fun (k, v) -> string_of_n k ^ ":" ^ string_of_n v) l)
let tu_map_out l =
  match l with
  | [] -> "-"
  | _ -> Stdlib.String.concat "," (Stdlib.List.map (fun (k, v) -> string_of_n k ^ ":" ^ string_of_text v) l)

(* take n items with a reader that consumes tokens *)
let rec take_n n f toks acc =
  if n = 0 then (Stdlib.List.rev acc, toks)
  else let (x, rest) = f toks in take_n (n - 1) f rest (x :: acc)

let counted f toks =
  match toks with
  | n :: rest -> take_n (int_of_string n) f rest []
  | [] -> failwith "missing count"

let rd_csr toks = counted (function lo :: hi :: r -> ((bytes_of_hex lo, bytes_of_hex hi), r) | _ -> failwith "csr") toks
let rd_probes toks = counted (function p :: r -> (bytes_of_hex p, r) | _ -> failwith "probe") toks
let rd_csingle = function c :: v :: r -> ((bytes_of_hex c, n_of_string v), r) | _ -> failwith "single"
let rd_crange = function a :: b :: v :: r -> (((bytes_of_hex a, bytes_of_hex b), n_of_string v), r) | _ -> failwith "range"
let rd_tsingle = function c :: v :: r -> ((bytes_of_hex c, text_of v), r) | _ -> failwith "single"
let rd_trange = function
  | a :: b :: rest ->
    let (vals, r) = counted (function v :: r -> (text_of v, r) | _ -> failwith "val") rest in
    (((bytes_of_hex a, bytes_of_hex b), vals), r)
  | _ -> failwith "range"

let lookups_cid f probes = Stdlib.String.concat "," (Stdlib.List.map (fun p -> string_of_n (lookup_cid f p)) probes)
let lookups_tu f probes =
  Stdlib.String.concat "," (Stdlib.List.map (fun p -> match lookup_tu f p with Some t -> string_of_text t | None -> "~") probes)

let () =
  iter_lines (fun line ->
    match words line with
    | id :: "C" :: rest ->
      let (csr, rest) = rd_csr rest in
      let rd_level toks =
        match toks with
        | m :: r ->
          let (nds, r) = counted rd_csingle r in
          let (ndr, r) = counted rd_crange r in
          ((cid_map m, nds, ndr), r)
        | [] -> failwith "level" in
      let (levels, rest) = counted rd_level rest in
      let (probes, _) = rd_probes rest in
      let f = Stdlib.List.fold_left (fun par (m, nds, ndr) ->
          Some (set_mapping csr (CFile ([], [], [], nds, ndr, par)) m)) None levels in
      (match f with
       | None -> Printf.printf "%s nolevels\n" id
       | Some f ->
         (* projection: an entry whose CID is the notdef result of its code may or may not be listed *)
         let listed = Stdlib.List.filter (fun (k, v) -> lookup_notdef f (append_code csr k) <> v) (collect (all_cid csr f)) in
         Printf.printf "%s L=%s A=%s\n" id (lookups_cid f probes) (cid_map_out listed))
    | id :: "T" :: rest ->
      let (csr, rest) = rd_csr rest in
      let (levels, rest) = counted (function m :: r -> (tu_map m, r) | [] -> failwith "level") rest in
      let (probes, _) = rd_probes rest in
      let f = Stdlib.List.fold_left (fun par m -> Some (with_parent (new_tounicode csr m) par)) None levels in
      (match f with
       | None -> Printf.printf "%s nolevels\n" id
       | Some f ->
         Printf.printf "%s L=%s A=%s G=%s\n" id (lookups_tu f probes) (tu_map_out (collect (all_tu csr f)))
           (tu_map_out (get_mapping f)))
    | id :: "F" :: rest ->
      let (csr, rest) = rd_csr rest in
      (match rest with
       | all :: rest ->
         let (ss, rest) = counted rd_csingle rest in
         let (rs, rest) = counted rd_crange rest in
         let (probes, _) = rd_probes rest in
         let f = CFile (csr, ss, rs, [], [], None) in
         if all = "2" then begin
           let l = all_cid csr f in
           let top = Stdlib.List.fold_left (fun m (k, _) -> max m (int_of_n k)) 0 l in
           Printf.printf "%s L=%s N=%d K=%d\n" id (lookups_cid f probes) (Stdlib.List.length l) top end
         else if all = "1" then Printf.printf "%s L=%s A=%s\n" id (lookups_cid f probes) (cid_map_out (collect (all_cid csr f)))
         else Printf.printf "%s L=%s\n" id (lookups_cid f probes)
       | [] -> Printf.printf "%s badcase\n" id)
    | id :: "U" :: rest ->
      let (csr, rest) = rd_csr rest in
      (match rest with
       | all :: rest ->
         let (ss, rest) = counted rd_tsingle rest in
         let (rs, rest) = counted rd_trange rest in
         let (probes, _) = rd_probes rest in
         let f = TFile (csr, ss, rs, None) in
         if all = "2" then begin
           let l = all_tu csr f in
           let top = Stdlib.List.fold_left (fun m (k, _) -> max m (int_of_n k)) 0 l in
           Printf.printf "%s L=%s N=%d K=%d\n" id (lookups_tu f probes) (Stdlib.List.length l) top end
         else if all = "1" then Printf.printf "%s L=%s A=%s\n" id (lookups_tu f probes) (tu_map_out (collect (all_tu csr f)))
         else Printf.printf "%s L=%s\n" id (lookups_tu f probes)
       | [] -> Printf.printf "%s badcase\n" id)
    | id :: _ -> Printf.printf "%s badcase\n" id
    | [] -> ())
