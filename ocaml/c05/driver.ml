(* C05 model driver: reads cases on stdin, prints `<id> <observation>`.
   Conversion and printing only; all logic is in the extracted modules.

   S <fixed> <datahex> <E|X<n>> <nops> <op>...          scanner program (Refill.run_ops)
   P <size> <hdr> <start0> <nsec> {<off> <T|S> <tv> <tv>}   /Prev loop (PrevChain.read_xref)
   R <start> <n> {<ref> <v|n|r<t>|e|m>}                  resolve (Resolve.resolve_in)
   W <frames> <root> <n> {<ref> <p|P|o|f> <inh> <k> <kid>...}   page walkers
   T <root> <n> {<ref> <leaf> <k> <kid>...}              name tree walker
   O <root> <first|-> <n> {<ref> <first|-> <next|-> <fail>}   outline walker
   X <obj> <obj> <obj> <rawLen> <datahex>                xref stream check + decode
   G <ref> <nx> {<num> <F|S<s>|D<sobj>>} <nm> {<num> <sobj>}   object stream get (ObjStmGet.get_in)
   J <N> <First> <number> <len> <k> {<int> <endpos>} <m> {<okoffset>}   object stream index (ObjStmIndex.objstm_find)
   D <start> <n> {<ref> <n|r<t>|e|m|k[:<kid>]*>}          typed decode through references (DecodePath.decode_in)
   N <tokens: a i R n [ ] < >>                               object nesting (Nest.read_object)
     sobj: v | r<n> | s<id>[:<dep>]* ; a member may also be m<len>: stream-shaped with /Length len 0 R *)
open Wire
open Datatypes

let cls_str (c : Res.cls) =
  match c with
  | Res.Malformed -> "mal"
  | Res.EOF -> "eof"
  | Res.IO n -> "io" ^ string_of_n n
  | Res.Auth -> "auth"
  | Res.Panic -> "panic"
  | Res.OutOfFuel -> "fuel"
  | Res.Other -> "other"

let err_str = function None -> "nil" | Some c -> cls_str c

let nlist l = match l with [] -> "-" | _ -> Stdlib.String.concat "," (Stdlib.List.map string_of_n l)

let rec take k l = if k = 0 then ([], l) else match l with x :: r -> let (a, b) = take (k - 1) r in (x :: a, b) | [] -> failwith "short case"

let parse_op s =
  match s.[0] with
  | 'W' -> Refill.OpWS
  | 'I' -> Refill.OpInt
  | 'B' -> Refill.OpByte
  | 'P' -> Refill.OpPeek (nat_of_int (int_of_string (Stdlib.String.sub s 1 (Stdlib.String.length s - 1))))
  | 'K' -> Refill.OpSkip (nat_of_int (int_of_string (Stdlib.String.sub s 1 (Stdlib.String.length s - 1))))
  | _ -> failwith "bad op"

let tail1 s = Stdlib.String.sub s 1 (Stdlib.String.length s - 1)

let parse_tval s =
  match s.[0] with
  | '-' -> PrevChain.TAbsent
  | 'x' -> PrevChain.TNotInt
  | 'i' -> PrevChain.TInt (z_of_string (tail1 s))
  | _ -> failwith "bad tval"

let opt_n s = if s = "-" then None else Some (n_of_string s)

let rec parse_obj s : XRefCount.obj =
  match s.[0] with
  | 'i' -> XRefCount.OInt (z_of_string (tail1 s))
  | 'n' -> XRefCount.ONull
  | 'o' -> XRefCount.OOther
  | 'a' ->
    let parts = Stdlib.List.filter (fun x -> x <> "") (Stdlib.String.split_on_char ':' (tail1 s)) in
    XRefCount.OArr (Stdlib.List.map parse_obj parts)
  | _ -> failwith "bad obj"

let run id kind fs =
  match kind, fs with
  | "S", fixed :: data :: term :: nops :: rest ->
    let (ops, _) = take (int_of_string nops) rest in
    let term = if term = "E" then Refill.TEOF else Refill.TErr (n_of_string (tail1 term)) in
    let s = Refill.new_scanner { Refill.sdata = bytes_of_hex data; Refill.sterm = term } in
    let obs = Refill.run_ops (fixed = "1") (Stdlib.List.map parse_op ops) s in
    let show = function
      | Refill.Obs (e, p, d) -> Printf.sprintf "%s:%d:%s" (err_str e) (int_of_nat p) (hex_of_bytes d)
      | Refill.ObsPanic -> "panic"
      | Refill.ObsFuel -> "fuel" in
    Printf.printf "%s %s\n" id (Stdlib.String.concat "," (Stdlib.List.map show obs))
  | "P", size :: hdr :: start0 :: nsec :: rest ->
    let tbl = Hashtbl.create 16 in
    let rec go k fs =
      if k = 0 then () else
        match fs with
        | off :: knd :: xs :: pv :: r ->
          Hashtbl.replace tbl off { PrevChain.is_table = (knd = "T"); PrevChain.xrefstm = parse_tval xs; PrevChain.prev = parse_tval pv };
          go (k - 1) r
        | _ -> failwith "bad P case" in
    go (int_of_string nsec) rest;
    let read_section z =
      match Hashtbl.find_opt tbl (string_of_z z) with
      | Some s -> Res.Ok s
      | None -> Res.Err Res.Malformed in
    let read_stm z =
      match Hashtbl.find_opt tbl (string_of_z z) with
      | Some s when not s.PrevChain.is_table -> Res.Ok ()
      | _ -> Res.Err Res.Malformed in
    let size = z_of_string size and hdr = z_of_string hdr in
    (match PrevChain.read_xref read_section read_stm size hdr (PrevChain.prev_fuel size hdr) (z_of_string start0) with
     | Res.Ok t ->
       (* the implementation's observable is the offset of each decode, in order *)
       let ev = function PrevChain.EvSection o -> string_of_z o | PrevChain.EvXRefStm o -> string_of_z o in
       Printf.printf "%s ok %s\n" id (match t with [] -> "-" | _ -> Stdlib.String.concat "," (Stdlib.List.map ev t))
     | Res.Err Res.OutOfFuel -> Printf.printf "%s fuel\n" id
     | Res.Err Res.Panic -> Printf.printf "%s panic\n" id
     | Res.Err _ -> Printf.printf "%s err\n" id)
  | "R", start :: n :: rest ->
    let rec go k fs acc =
      if k = 0 then Stdlib.List.rev acc else
        match fs with
        | r :: g :: tl ->
          let g' = match g.[0] with
            | 'v' -> Resolve.GVal (n_of_int 1)
            | 'n' -> Resolve.GNull
            | 'r' -> Resolve.GRef (n_of_string (tail1 g))
            | 'e' -> Resolve.GErr (Res.IO (n_of_int 1))
            | 'm' -> Resolve.GErr Res.Malformed
            | _ -> failwith "bad got" in
          go (k - 1) tl ((n_of_string r, g') :: acc)
        | _ -> failwith "bad R case" in
    let g = go (int_of_string n) rest [] in
    (match Resolve.resolve_in g (n_of_string start) with
     | Resolve.OVal (Some _, _, k) -> Printf.printf "%s val %d\n" id (int_of_nat k)
     | Resolve.OVal (None, _, k) -> Printf.printf "%s null %d\n" id (int_of_nat k)
     | Resolve.OCycle k -> Printf.printf "%s cycle %d\n" id (int_of_nat k)
     | Resolve.ODepth k -> Printf.printf "%s depth %d\n" id (int_of_nat k)
     | Resolve.OGetErr (c, k) -> Printf.printf "%s %s %d\n" id (cls_str c) (int_of_nat k)
     | Resolve.OFuel -> Printf.printf "%s fuel\n" id)
  | "W", frames :: root :: n :: rest ->
    let rec go k fs acc =
      if k = 0 then Stdlib.List.rev acc else
        match fs with
        | r :: knd :: inh :: nk :: tl ->
          let (kids, tl) = take (int_of_string nk) tl in
          let kind = match knd with
            | "p" -> Walk.KPage | "P" -> Walk.KPages | "o" -> Walk.KOther
            | "f" -> Walk.KFail (Res.IO (n_of_int 1)) | _ -> failwith "bad kind" in
          go (k - 1) tl ((n_of_string r, { Walk.pkind_of = kind; Walk.pkids = Stdlib.List.map n_of_string kids; Walk.pinh = (inh = "1") }) :: acc)
        | _ -> failwith "bad W case" in
    let g = go (int_of_string n) rest [] in
    let r = if frames = "1" then Walk.iter_pages g (n_of_string root) else Walk.find_pages g (n_of_string root) in
    (match r with
     | Res.Ok l -> Printf.printf "%s ok %s\n" id (nlist l)
     | Res.Err Res.OutOfFuel -> Printf.printf "%s fuel\n" id
     | Res.Err Res.Panic -> Printf.printf "%s panic\n" id
     | Res.Err _ -> Printf.printf "%s err\n" id)
  | "T", root :: n :: rest ->
    let rec go k fs acc =
      if k = 0 then Stdlib.List.rev acc else
        match fs with
        | r :: leaf :: nk :: tl ->
          let (kids, tl) = take (int_of_string nk) tl in
          go (k - 1) tl ((n_of_string r, { Walk.tleaf = (leaf = "1"); Walk.tkids = Stdlib.List.map n_of_string kids }) :: acc)
        | _ -> failwith "bad T case" in
    let g = go (int_of_string n) rest [] in
    Printf.printf "%s %s\n" id (nlist (Walk.tree_all g (n_of_string root)))
  | "O", root :: first :: n :: rest ->
    let rec go k fs acc =
      if k = 0 then Stdlib.List.rev acc else
        match fs with
        | r :: f :: nx :: fail :: tl ->
          go (k - 1) tl ((n_of_string r, { Walk.ofirst = opt_n f; Walk.onext = opt_n nx;
                                           Walk.ofail = (if fail = "1" then Some Res.Malformed else None) }) :: acc)
        | _ -> failwith "bad O case" in
    let g = go (int_of_string n) rest [] in
    (match Walk.outline_items g (n_of_string root) (opt_n first) with
     | Res.Ok l -> Printf.printf "%s ok %s\n" id (nlist l)
     | Res.Err Res.OutOfFuel -> Printf.printf "%s fuel\n" id
     | Res.Err Res.Panic -> Printf.printf "%s panic\n" id
     | Res.Err _ -> Printf.printf "%s err\n" id)
  | "X", so :: wo :: io :: rawlen :: data :: _ ->
    (match XRefCount.read_xref_stream (parse_obj so) (parse_obj wo) (parse_obj io) (z_of_string rawlen) (bytes_of_hex data) [] with
     | Res.Err Res.Malformed -> Printf.printf "%s malformed\n" id
     | Res.Err c -> Printf.printf "%s %s\n" id (cls_str c)
     | Res.Ok ((x, _), e) ->
       let ent (num, en) =
         let (a, b, c) = match en with
           | XRefCount.XFree g -> ("0", "-1", string_of_z g)
           | XRefCount.XUsed (p, g) -> ("0", string_of_z p, string_of_z g)
           | XRefCount.XInStm (s, i) -> (string_of_z s, string_of_z i, "0") in
         (int_of_z num, Printf.sprintf "%s/%s/%s/%s" (string_of_z num) a b c) in
       let l = Stdlib.List.sort compare (Stdlib.List.map ent x) in
       Printf.printf "%s ok %s %s\n" id (match e with None -> "-" | Some _ -> "e")
         (match l with [] -> "-" | _ -> Stdlib.String.concat "," (Stdlib.List.map snd l)))
  | "G", r :: nx :: rest ->
    let sobj t =
      match t.[0] with
      | 'v' -> ObjStmGet.SVal
      | 'r' -> ObjStmGet.SRef (n_of_string (tail1 t))
      | 's' ->
        (match Stdlib.List.filter (fun x -> x <> "") (Stdlib.String.split_on_char ':' (tail1 t)) with
         | id :: parts -> ObjStmGet.SStm (n_of_string id, Stdlib.List.map n_of_string parts)
         | [] -> failwith "bad stream")
      | _ -> failwith "bad sobj" in
    let rec gox k fs acc =
      if k = 0 then (Stdlib.List.rev acc, fs) else
        match fs with
        | n :: e :: tl ->
          let e' = match e.[0] with
            | 'F' -> ObjStmGet.EFree
            | 'S' -> ObjStmGet.EInStm (n_of_string (tail1 e))
            | 'D' -> ObjStmGet.EDirect (sobj (tail1 e))
            | _ -> failwith "bad entry" in
          gox (k - 1) tl ((n_of_string n, e') :: acc)
        | _ -> failwith "bad G case" in
    let (xr, rest) = gox (int_of_string nx) rest [] in
    (match rest with
     | nm :: rest ->
       let rec gom k fs acc =
         if k = 0 then Stdlib.List.rev acc else
           match fs with
           | n :: o :: tl ->
             let m = if o.[0] = 'm' then ObjStmGet.MStreamShaped (n_of_string (tail1 o)) else ObjStmGet.MObj (sobj o) in
             gom (k - 1) tl ((n_of_string n, m) :: acc)
           | _ -> failwith "bad G members" in
       let mem = gom (int_of_string nm) rest [] in
       (match ObjStmGet.get_in xr mem (n_of_string r) with
        | Res.Ok _ -> Printf.printf "%s ok\n" id
        | Res.Err c -> Printf.printf "%s %s\n" id (cls_str c))
     | _ -> failwith "bad G case")
  | "J", no :: fo :: number :: len :: nints :: rest ->
    let dval t = if t.[0] = 'i' then ObjStmIndex.DInt (z_of_string (tail1 t)) else ObjStmIndex.DOther in
    let rec goi k fs acc =
      if k = 0 then (Stdlib.List.rev acc, fs) else
        match fs with
        | v :: p :: tl -> goi (k - 1) tl ((z_of_string v, z_of_string p) :: acc)
        | _ -> failwith "bad J ints" in
    let (ints, rest) = goi (int_of_string nints) rest [] in
    let oks = match rest with
      | nok :: tl -> let (l, _) = take (int_of_string nok) tl in Stdlib.List.map int_of_string l
      | [] -> [] in
    let len = int_of_string len in
    (match ObjStmIndex.objstm_find (dval no) (dval fo) ints Res.Malformed (z_of_string number) with
     | Res.Err c -> Printf.printf "%s %s\n" id (cls_str c)
     | Res.Ok ObjStmIndex.FNull -> Printf.printf "%s null\n" id
     | Res.Ok (ObjStmIndex.FReadAt off) ->
       (* what ReadObject finds at that offset of the data is decided by the
          data (the harness lists the offsets where an object starts) *)
       let s = string_of_z off in
       let big = Stdlib.String.length s > 9 in
       let o = if big then max_int else int_of_string s in
       if o > len then Printf.printf "%s other\n" id
       else if Stdlib.List.mem o oks then Printf.printf "%s ok\n" id
       else Printf.printf "%s mal\n" id)
  | "D", start :: n :: rest ->
    let rec go k fs acc =
      if k = 0 then Stdlib.List.rev acc else
        match fs with
        | r :: g :: tl ->
          let g' = match g.[0] with
            | 'n' -> DecodePath.DNull
            | 'r' -> DecodePath.DRef (n_of_string (tail1 g))
            | 'e' -> DecodePath.DErr (Res.IO (n_of_int 1))
            | 'm' -> DecodePath.DErr Res.Malformed
            | 'k' ->
              let parts = Stdlib.List.filter (fun x -> x <> "") (Stdlib.String.split_on_char ':' (tail1 g)) in
              DecodePath.DNode (Stdlib.List.map n_of_string parts)
            | _ -> failwith "bad dnode" in
          go (k - 1) tl ((n_of_string r, g') :: acc)
        | _ -> failwith "bad D case" in
    let g = go (int_of_string n) rest [] in
    (match DecodePath.decode_in g (n_of_string start) with
     | DecodePath.DOk s -> Printf.printf "%s ok %d\n" id (int_of_nat s.DecodePath.gets)
     | DecodePath.DCycle s -> Printf.printf "%s cycle %d\n" id (int_of_nat s.DecodePath.gets)
     | DecodePath.DDepth s -> Printf.printf "%s depth %d\n" id (int_of_nat s.DecodePath.gets)
     | DecodePath.DGetErr (c, s) -> Printf.printf "%s %s %d\n" id (cls_str c) (int_of_nat s.DecodePath.gets)
     | DecodePath.DFuel -> Printf.printf "%s fuel\n" id)
  | "N", ts :: _ ->
    let ts = if ts = "-" then "" else ts in
    (* a leading ! : only "does not panic" is compared (the array sits in a
       trailer or cross-reference stream dictionary) *)
    let only_panic = Stdlib.String.length ts > 0 && ts.[0] = '!' in
    let ts = if only_panic then tail1 ts else ts in
    let toks = Stdlib.List.init (Stdlib.String.length ts) (fun i ->
      match ts.[i] with
      | 'a' -> Nest.TA | 'n' -> Nest.TN | 'i' -> Nest.TI | 'R' -> Nest.TR
      | '[' -> Nest.TAO | ']' -> Nest.TAC
      | '<' -> Nest.TDO | '>' -> Nest.TDC | _ -> failwith "bad token") in
    (match Nest.read_indirect true toks with
     | Res.Err Res.Panic -> Printf.printf "%s panic\n" id
     | _ when only_panic -> Printf.printf "%s nopanic\n" id
     | Res.Ok true -> Printf.printf "%s ok\n" id
     | Res.Ok false -> Printf.printf "%s mal\n" id      (* endobj expected *)
     | Res.Err c -> Printf.printf "%s %s\n" id (cls_str c))
  | _ -> Printf.printf "%s badcase\n" id

let () =
  iter_lines (fun line ->
    match words line with
    | id :: kind :: fs -> (try run id kind fs with Failure m -> Printf.printf "%s badcase:%s\n" id m)
    | _ -> ())
