(* C01 model driver.  Input lines (fields separated by blanks):
     L <str> <name> <arr> <dict> <depth>     set the scanner limits for the following cases
     <id> S <hex>                            scan_objects: parse the bytes as a sequence of objects
     <id> F <p> <k> <value>*k                format (p = 1: OptPretty) -> hex of the text
     <id> SO <hex>                           scan_objects, then Scan.text_ordered on the values in the order
                                             of the text: "sorted" when every dictionary's keys appear in
                                             the model's SortedKeys order, else "unsorted" and the values
     <id> FA <k> <value>*k                   format_checked under the current limits: "accept" / "refuse"
     <id> FO <mask> <k> <value>*k            format_opt (mask = OutputOptions bits) -> hex of the text
     <id> PS <hex> / <id> PN <hex>           parse_string / parse_name
     <id> FS <p> <hex> / <id> FN <hex>       fmt_string / fmt_name -> hex
     <id> B <buf> <n1,n2,...> <hex>          read_atoms_buffered: a flat sequence of atoms read through the
                                             buffered source (buf = 0: scannerBufSize) whose reader delivers
                                             chunks of n1, n2, ... bytes (cyclically); printed like S
   Values use the prefix code of DESIGN.md Appendix B.  Observations of values are printed in
   canonical form (Obj.canon): reals as the bits of the float their token denotes.
   I/O and conversion only - no model logic. *)
open Wire

let limits = ref Lex.std_limits

(* ---- decoding values ---- *)
let bytes_of_string (s : string) : BinNums.coq_N list =
  Stdlib.List.init (Stdlib.String.length s) (fun i -> byte_table.(Char.code s.[i]))

let rec parse_value (fs : string list) : Obj.obj * string list =
  match fs with
  | [] -> failwith "value expected"
  | w :: rest ->
    let body = Stdlib.String.sub w 1 (Stdlib.String.length w - 1) in
    (match w.[0] with
     | 'n' -> (Obj.ONull, rest)
     | 't' -> (Obj.OBool true, rest)
     | 'f' -> (Obj.OBool false, rest)
     | 'i' -> (Obj.OInt (z_of_string body), rest)
     | 'r' -> (Obj.OReal (bytes_of_string body), rest)
     | 'N' -> (Obj.OName (bytes_of_hex body), rest)
     | 'S' -> (Obj.OStr (bytes_of_hex body), rest)
     | 'a' -> (Obj.ONilArr, rest)
     | 'd' -> (Obj.ONilDict, rest)
     | 'R' ->
       (match Stdlib.String.split_on_char '.' body with
        | [a; b] -> (Obj.ORef (z_of_string a, z_of_string b), rest)
        | _ -> failwith "bad ref")
     | 'A' ->
       let k = int_of_string body in
       let (vs, rest) = parse_values k rest in
       (Obj.OArr vs, rest)
     | 'D' ->
       let k = int_of_string body in
       let rec go k fs acc =
         if k = 0 then (Stdlib.List.rev acc, fs)
         else match fs with
           | key :: fs' ->
             let (v, fs'') = parse_value fs' in
             go (k - 1) fs'' ((bytes_of_hex key, v) :: acc)
           | [] -> failwith "bad dict"
       in
       let (es, rest) = go k rest [] in
       (Obj.ODict es, rest)
     | _ -> failwith ("bad value " ^ w))

and parse_values k fs =
  if k = 0 then ([], fs)
  else
    let (v, fs') = parse_value fs in
    let (vs, fs'') = parse_values (k - 1) fs' in
    (v :: vs, fs'')

(* ---- printing values ---- *)
let string_of_bytes (l : BinNums.coq_N list) : string =
  let b = Buffer.create 16 in
  Stdlib.List.iter (fun x -> Buffer.add_char b (Char.chr (int_of_n x land 255))) l;
  Buffer.contents b

let real_bits (tok : BinNums.coq_N list) : string =
  let s = string_of_bytes tok in
  match float_of_string_opt s with
  | None -> "r?" ^ s
  | Some x ->
    let x = if x = 0.0 then 0.0 else x in
    Printf.sprintf "r%016Lx" (Int64.bits_of_float x)

let rec print_value (b : Buffer.t) (o : Obj.obj) : unit =
  match o with
  | Obj.ONull -> Buffer.add_string b " n"
  | Obj.OBool true -> Buffer.add_string b " t"
  | Obj.OBool false -> Buffer.add_string b " f"
  | Obj.OInt z -> Buffer.add_string b (" i" ^ string_of_z z)
  | Obj.OReal t -> Buffer.add_string b (" " ^ real_bits t)
  | Obj.OName n -> Buffer.add_string b (" N" ^ hex_of_bytes n)
  | Obj.OStr s -> Buffer.add_string b (" S" ^ hex_of_bytes s)
  | Obj.ONilArr -> Buffer.add_string b " a"
  | Obj.ONilDict -> Buffer.add_string b " d"
  | Obj.ORef (n, g) -> Buffer.add_string b (" R" ^ string_of_z n ^ "." ^ string_of_z g)
  | Obj.OArr l ->
    Buffer.add_string b (Printf.sprintf " A%d" (Stdlib.List.length l));
    Stdlib.List.iter (print_value b) l
  | Obj.ODict l ->
    Buffer.add_string b (Printf.sprintf " D%d" (Stdlib.List.length l));
    Stdlib.List.iter (fun (k, v) -> Buffer.add_string b (" " ^ hex_of_bytes k); print_value b v) l

let cls_name (c : Res.cls) : string =
  match c with
  | Res.Malformed -> "malformed"
  | Res.EOF -> "eof"
  | Res.Panic -> "panic"
  | Res.OutOfFuel -> "outoffuel"
  | _ -> "other"

let () =
  iter_lines (fun line ->
    match words line with
    | ["L"; a; b; c; d; e] ->
      limits := { Lex.max_str = n_of_string a; Lex.max_name = n_of_string b; Lex.max_arr = n_of_string c;
                  Lex.max_dict = n_of_string d; Lex.max_depth = n_of_string e }
    | [id; "S"; h] ->
      (match Scan.scan_objects !limits (bytes_of_hex h) with
       | Res.Ok (vs, rest) ->
         let b = Buffer.create 64 in
         Stdlib.List.iter (fun v -> print_value b (Obj.canon v)) vs;
         Printf.printf "%s ok %d%s\n" id (Stdlib.List.length rest) (Buffer.contents b)
       | Res.Err c -> Printf.printf "%s err:%s\n" id (cls_name c))
    | [id; "SO"; h] ->
      (match Scan.scan_objects !limits (bytes_of_hex h) with
       | Res.Ok (vs, _) ->
         if Stdlib.List.for_all Scan.text_ordered vs then Printf.printf "%s sorted\n" id
         else begin
           let b = Buffer.create 64 in
           Stdlib.List.iter (print_value b) vs;
           Printf.printf "%s unsorted%s\n" id (Buffer.contents b)
         end
       | Res.Err c -> Printf.printf "%s err:%s\n" id (cls_name c))
    | id :: "F" :: p :: k :: rest ->
      let (vs, _) = parse_values (int_of_string k) rest in
      Printf.printf "%s %s\n" id (hex_of_bytes (Format.format (p = "1") vs))
    | id :: "FA" :: k :: rest ->
      let (vs, _) = parse_values (int_of_string k) rest in
      (match Wf.format_checked !limits false vs with
       | Res.Ok _ -> Printf.printf "%s accept\n" id
       | Res.Err _ -> Printf.printf "%s refuse\n" id)
    | id :: "FO" :: mask :: k :: rest ->
      let (vs, _) = parse_values (int_of_string k) rest in
      Printf.printf "%s %s\n" id (hex_of_bytes (Format.format_opt (z_of_string mask) vs))
    | [id; "B"; buf; sizes; h] ->
      let data = Array.of_list (bytes_of_hex h) in
      let sz = Stdlib.List.map (fun x -> max 1 (int_of_string x)) (Stdlib.String.split_on_char ',' sizes) in
      let sz = Array.of_list sz in
      let n = Array.length data in
      let rec split i j acc =
        if i >= n then Stdlib.List.rev acc
        else
          let k = min sz.(j mod Array.length sz) (n - i) in
          split (i + k) (j + 1) (Array.to_list (Array.sub data i k) :: acc) in
      let chunks = split 0 0 [] in
      let b = int_of_string buf in
      let bufn = if b = 0 then Readers.scanner_buf else nat_of_int b in
      (match Readers.read_atoms_buffered !limits bufn chunks with
       | Res.Ok vs ->
         let b = Buffer.create 64 in
         Stdlib.List.iter (fun v -> print_value b (Obj.canon v)) vs;
         Printf.printf "%s ok 0%s\n" id (Buffer.contents b)
       | Res.Err c -> Printf.printf "%s err:%s\n" id (cls_name c))
    | [id; "PS"; h] ->
      (match Strings.parse_string !limits (bytes_of_hex h) with
       | Res.Ok v -> Printf.printf "%s ok S%s\n" id (hex_of_bytes v)
       | Res.Err c -> Printf.printf "%s err:%s\n" id (cls_name c))
    | [id; "PN"; h] ->
      (match Names.parse_name !limits (bytes_of_hex h) with
       | Res.Ok v -> Printf.printf "%s ok N%s\n" id (hex_of_bytes v)
       | Res.Err c -> Printf.printf "%s err:%s\n" id (cls_name c))
    | [id; "FS"; p; h] ->
      Printf.printf "%s %s\n" id (hex_of_bytes (Strings.fmt_string (p = "1") (bytes_of_hex h)))
    | [id; "FN"; h] ->
      Printf.printf "%s %s\n" id (hex_of_bytes (Names.fmt_name (bytes_of_hex h)))
    | [] -> ()
    | id :: _ -> Printf.printf "%s badcase\n" id)
