(* C19 model driver.  Input lines (see harness/c19):
     <id> O <mode> <from|only> <bad-phase|-> <phase:kinds> ...     NewReader
     <id> Q <mode> <from|only> <bad-phase|-> <phase:kinds> ...         SequentialScan+MakeReader
     <id> G|D|T <from|only> <cleanbad> <kinds|->                    Get / DecodeStream drain / typed decode
     <id> C <ncalls> <source items> | <layer table>                 table-driven layer stack over a scripted source
     <id> P <reads> <source items>                                  DecodeStream failing while the chain is built
     <id> X <mode> <nil|malformed|other>                            decision of the shouldExit closure
     <id> S <ops...>                                                sink calls of a Writer program
     <id> K <from|only> <ops...>                                    verdict for every failing sink call
     <id> L <from|only> <ops...|close ops...>                       does Writer.Close return the error of each call it makes
   Output: <id> <observation> *)
open Wire

let kind_of_char c =
  match c with
  | 'r' -> ErrFlow.KRefill
  | 'p' -> ErrFlow.KProbe
  | 'c' -> ErrFlow.KDiscard
  | 'b' -> ErrFlow.KBody
  | 'l' -> ErrFlow.KLength
  | _ -> ErrFlow.KUnknown

let kinds_of_string s =
  if s = "-" then [] else Stdlib.List.init (Stdlib.String.length s) (fun i -> kind_of_char s.[i])

let fmode_of s = if s = "only" then ErrFlow.OnlyK else ErrFlow.FromK

let letter o =
  match o with
  | ErrFlow.OSame -> 's'
  | ErrFlow.OIO -> 'i'
  | ErrFlow.OMalformed -> 'm'
  | ErrFlow.ODifferent -> 'd'
  | ErrFlow.OOtherErr -> 'o'

(* fm is the harness's name of the fault mode: from, only (failing calls return
   (0, err)), half, one (part of the data with the error), full (all of it) *)
let letters p fm =
  let b = Buffer.create 64 in
  (match fm with
   | "from" | "only" ->
     let os = ErrFlow.outcomes p (if fm = "only" then ErrFlow.OnlyK else ErrFlow.FromK) in
     Stdlib.List.iter (fun o -> Buffer.add_char b (letter o)) os
   | _ ->
     let kd = if fm = "full" then ErrFlow.FKFull else ErrFlow.FKPartial in
     Stdlib.List.iter (fun pr -> Buffer.add_char b (match pr with ErrFlow.PExact o -> letter o | ErrFlow.PSameOrIO -> '*'))
       (ErrFlow.predictions_partial p kd));
  if Buffer.length b = 0 then "-" else Buffer.contents b

(* groups "phase:kinds" must follow the given phase order, each at most once *)
let split_groups order gs =
  let tbl = Hashtbl.create 8 in
  let rec go order gs =
    match gs with
    | [] -> true
    | g :: rest ->
      (match Stdlib.String.index_opt g ':' with
       | None -> g = "-" && go order rest
       | Some i ->
         let ph = Stdlib.String.sub g 0 i in
         let ks = Stdlib.String.sub g (i + 1) (Stdlib.String.length g - i - 1) in
         let rec drop o = match o with [] -> None | x :: o' -> if x = ph then Some o' else drop o' in
         (match drop order with
          | None -> false
          | Some order' -> Hashtbl.replace tbl ph ks; go order' rest))
  in
  if go order gs then Some (fun ph -> match Hashtbl.find_opt tbl ph with Some ks -> kinds_of_string ks | None -> []) else None

let clean_string p =
  match ErrFlow.clean_class p with
  | ErrFlow.CleanOk -> Printf.sprintf "clean=ok rec=%d" (int_of_nat (ErrFlow.clean_recorded p))
  | ErrFlow.CleanMalformed -> "clean=malformed rec=-"
  | ErrFlow.CleanOther -> "clean=other rec=-"

(* scripted source items: d<k> data, e EOF, x / y errors, b<k> data+X, g<k> data+EOF *)
let rres_of_item idx it =
  let k () = int_of_string (Stdlib.String.sub it 1 (Stdlib.String.length it - 1)) in
  let data n = Stdlib.List.init n (fun _ -> n_of_int idx) in
  match it.[0] with
  | 'd' -> (data (k ()), None)
  | 'b' -> (data (k ()), Some (Res.IO (n_of_int 77)))
  | 'g' -> (data (k ()), Some Res.EOF)
  | 'e' -> ([], Some Res.EOF)
  | 'x' -> ([], Some (Res.IO (n_of_int 77)))
  | 'y' -> ([], Some (Res.IO (n_of_int 78)))
  | _ -> failwith "bad source item"

let lmode_of c =
  match c with
  | 'P' -> Chain.LPass | 'N' -> Chain.LNil | 'E' -> Chain.LEof | 'M' -> Chain.LMal | 'D' -> Chain.LDelay
  | _ -> failwith "bad layer mode"

let err_letter e =
  match e with
  | None -> "-"
  | Some Res.EOF -> "E"
  | Some Res.Malformed -> "M"
  | Some (Res.IO n) -> if int_of_n n = 77 then "X" else if int_of_n n = 78 then "Y" else "O"
  | Some _ -> "O"

let rec split_bar acc l =
  match l with
  | [] -> (Stdlib.List.rev acc, [])
  | "|" :: rest -> (Stdlib.List.rev acc, rest)
  | x :: rest -> split_bar (x :: acc) rest

let sop_of_string s =
  let n () = n_of_string (Stdlib.String.sub s 1 (Stdlib.String.length s - 1)) in
  match s.[0] with
  | 'w' -> Sink.BWrite (n ())
  | 'f' -> Sink.FlushIgnored
  | 's' -> Sink.RawSeek
  | 'r' -> Sink.RawWrite (n ())
  | 'F' -> Sink.FinalFlush
  | 'G' -> Sink.FlushReturned
  | 'd' -> Sink.RawRead (n ())
  | 'a' -> Sink.RawReadAt (n ())
  | 'c' -> Sink.SinkClose
  | _ -> failwith "bad sink op"

let () =
  iter_lines (fun line ->
    match words line with
    | id :: "O" :: mode :: fm :: bad :: groups ->
      (match split_groups ["hdr"; "xref"; "enc"; "id"; "catd"; "cat"; "info"] groups with
       | None -> Printf.printf "%s badtrace\n" id
       | Some g ->
         let t = { ErrFlow.t_hdr = g "hdr"; t_xref = g "xref"; t_enc = g "enc"; t_id = g "id";
                   t_catd = g "catd"; t_cat = g "cat"; t_info = g "info";
                   bad_id = (bad = "id"); bad_idlen = (bad = "idlen"); bad_catd = (bad = "catd");
                   bad_cat = (bad = "cat"); bad_info = (bad = "info") } in
         let p = ErrFlow.open_prog (z_of_int (int_of_string mode)) t in
         Printf.printf "%s %s %s\n" id (letters p fm) (clean_string p))
    | id :: "Q" :: mode :: fm :: bad :: groups ->
      (match split_groups ["scan"; "xref"; "enc"; "catd"; "cat"; "info"] groups with
       | None -> Printf.printf "%s badtrace\n" id
       | Some g ->
         let t = { ErrFlow.q_scan = g "scan"; q_trailer = g "xref"; q_enc = g "enc"; q_catd = g "catd";
                   q_cat = g "cat"; q_info = g "info";
                   q_bad_catd = (bad = "catd"); q_bad_cat = (bad = "cat"); q_bad_info = (bad = "info") } in
         let p = ErrFlow.seq_prog (z_of_int (int_of_string mode)) t in
         Printf.printf "%s %s\n" id (letters p fm))
    | id :: (("G" | "D" | "T") as kind) :: fm :: cb :: [ks] ->
      let ks' = kinds_of_string ks in
      let bad = (cb = "1") in
      let p = match kind with
        | "G" -> ErrFlow.get_prog ks' bad
        | "D" -> ErrFlow.drain_prog ks' bad
        | _ -> ErrFlow.decode_prog ks' bad in
      let ls = letters p fm in
      let all_body = ks <> "-" && Stdlib.String.for_all (fun c -> c = 'b') ks in
      let ok =
        if kind = "D" && all_body && not bad && (fm = "from" || fm = "only") then begin
          let n = Stdlib.String.length ks in
          let cs = Chain.chain_outcomes (nat_of_int n) (fmode_of fm) in
          let b = Buffer.create 64 in
          Stdlib.List.iter (fun o -> Buffer.add_char b (letter o)) cs;
          Buffer.contents b = ls
        end else true in
      if ok then Printf.printf "%s %s\n" id ls else Printf.printf "%s chain-model-disagrees\n" id
    | id :: "C" :: ncalls :: rest ->
      let (items, tbl) = split_bar [] rest in
      let src = Stdlib.List.mapi rres_of_item items in
      let tbl' = Stdlib.List.map (fun t -> (nat_of_int (Char.code t.[0] - 48), lmode_of t.[1])) tbl in
      let outs = Chain.table_run src tbl' (nat_of_int (int_of_string ncalls)) in
      let strs = Stdlib.List.map (fun (d, e) -> Printf.sprintf "%d:%s" (Stdlib.List.length d) (err_letter e)) outs in
      Printf.printf "%s %s\n" id (Stdlib.String.concat " " strs)
    | id :: "P" :: reads :: items ->
      let src = Stdlib.List.mapi rres_of_item items in
      let c = Chain.promote_run src (nat_of_int (int_of_string reads)) Res.Malformed in
      Printf.printf "%s %s\n" id (err_letter (Some c))
    | id :: "L" :: fm :: ops ->
      (* Writer.Close: the operations after the marker; the last is the Flush, or the
         Flush and the sink's Close *)
      let (before, rest) = split_bar [] ops in
      let rest' = Stdlib.List.rev rest in
      let (owns, rest') = (match rest' with "c" :: r -> (true, r) | r -> (false, r)) in
      (match rest' with
       | "F" :: body_rev ->
         let vs = Sink.close_verdicts (Stdlib.List.map sop_of_string before)
             (Stdlib.List.map sop_of_string (Stdlib.List.rev body_rev)) owns (fmode_of fm) in
         let b = Buffer.create 64 in
         Stdlib.List.iter (fun v -> Buffer.add_char b (if v then 'y' else 'n')) vs;
         Printf.printf "%s %s\n" id (if Buffer.length b = 0 then "-" else Buffer.contents b)
       | _ -> Printf.printf "%s close-does-not-end-with-flush\n" id)
    | id :: "X" :: mode :: [cls] ->
      (* the decision of shouldExit as read from the source vs ErrFlow.should_exit *)
      let d = if cls = "nil" then "go-on" else
          (match ErrFlow.should_exit (z_of_int (int_of_string mode)) (cls = "malformed") with
           | ErrFlow.Exit -> "exit" | ErrFlow.Record -> "record" | ErrFlow.Ignore -> "ignore") in
      Printf.printf "%s %s\n" id d
    | id :: "S" :: ops ->
      let ops = Stdlib.List.filter (fun o -> o <> "|") ops in
      let calls = Sink.sink_calls (Stdlib.List.map sop_of_string ops) in
      let strs = Stdlib.List.map (fun c -> match c with
        | Sink.CWrite n -> "W" ^ string_of_n n | Sink.CSeek -> "S"
        | Sink.CRead n -> "R" ^ string_of_n n | Sink.CReadAt n -> "A" ^ string_of_n n
        | Sink.CClose -> "C") calls in
      Printf.printf "%s %s\n" id (if strs = [] then "-" else Stdlib.String.concat " " strs)
    | id :: "K" :: fm :: ops ->
      let ops = Stdlib.List.filter (fun o -> o <> "|") ops in
      let vs = Sink.surface_verdicts (Stdlib.List.map sop_of_string ops) (fmode_of fm) in
      let b = Buffer.create 64 in
      Stdlib.List.iter (fun v -> Buffer.add_char b (if v then 'y' else 'n')) vs;
      Printf.printf "%s %s\n" id (if Buffer.length b = 0 then "-" else Buffer.contents b)
    | _ -> ())
