(* C16 model driver.  Input lines:
     <id> W <old> <nops> <op>...        run the writer model on a program, then its readers and validator
        op ::= A <w> <page> <mb> <cb> <rot> <aa> <res> | N <w> | C <w> | Q <w> <k>     (attribute: integer or n)
     <id> R <old> <tree> <npages> (<page> <mb> <cb> <rot> <aa> <res>)^npages <nprobes> <i>...
        run the validator and the reader model on a raw tree
        tree ::= P <ref> <parent> <5 attrs> | G <ref> <parent> <5 attrs> <count> <nkids> <tree>^nkids
        ref ::= p<id> | n<num>     parent ::= ref | n
   Output: <id> <observation>      (I/O only, no model logic) *)
open Wire
open PageTree

(* shared unary numbers: nat_of_int n reuses the chain built for smaller arguments *)
let nat_memo : (int, Datatypes.nat) Hashtbl.t = Hashtbl.create 4096
let nat_top = ref 0
let () = Hashtbl.replace nat_memo 0 Datatypes.O
let nat_of_int (n : int) : Datatypes.nat =
  if n <= 0 then Datatypes.O else begin
    while !nat_top < n do
      let prev = Hashtbl.find nat_memo !nat_top in
      incr nat_top;
      Hashtbl.replace nat_memo !nat_top (Datatypes.S prev)
    done;
    Hashtbl.find nat_memo n
  end

let toks = ref [||]
let pos = ref 0
let next () = let t = !toks.(!pos) in incr pos; t

let opt_z s = if s = "n" then None else Some (z_of_string s)
let keys = [KMediaBox; KCropBox; KRotate; KAA; KResources]

let read_attrs () : attrs =
  let vs = Stdlib.List.map (fun k -> let v = opt_z (next ()) in (k, v)) keys in
  Stdlib.List.fold_left (fun a (k, v) -> match v with None -> a | Some _ -> a_set k v a) a_empty vs

let read_ref s : PageTree.ref =
  let n = nat_of_int (int_of_string (Stdlib.String.sub s 1 (Stdlib.String.length s - 1))) in
  if s.[0] = 'p' then RP n else RN n

let show_ref r = match r with RP n -> "p" ^ string_of_int (int_of_nat n) | RN n -> "n" ^ string_of_int (int_of_nat n)
let show_opt o = match o with None -> "n" | Some v -> string_of_z v

let hash_str h s =
  let h = ref h in
  Stdlib.String.iter (fun c -> h := ((!h * 31) + Char.code c) land 0xFFFFFFFFFF) s;
  !h

(* norm: /Rotate with its default made explicit (the hoisting choice may differ from the implementation's) *)
let page_str norm (r, (a : attrs)) =
  let rot = match a KRotate with None when norm -> "0" | o -> show_opt o in
  Printf.sprintf "%s:%s,%s,%s,%s,%s;" (show_ref r) (show_opt (a KMediaBox)) (show_opt (a KCropBox)) rot
    (show_opt (a KAA)) (show_opt (a KResources))

let pages_hash norm l = Stdlib.List.fold_left (fun h p -> hash_str h (page_str norm p)) 7 l

let rec read_tree () : node =
  let kind = next () in
  let r = read_ref (next ()) in
  let p = (match next () with "n" -> None | s -> Some (read_ref s)) in
  let a = read_attrs () in
  match kind with
  | "P" -> Page (r, p, a)
  | "G" ->
    let c = nat_of_int (int_of_string (next ())) in
    let n = int_of_string (next ()) in
    let rec go i acc = if i = 0 then Stdlib.List.rev acc else let k = read_tree () in go (i - 1) (k :: acc) in
    Pages (r, p, a, c, go n [])
  | _ -> failwith "bad tree"

let read_op () : op =
  match next () with
  | "A" ->
    let w = nat_of_int (int_of_string (next ())) in
    let pg = nat_of_int (int_of_string (next ())) in
    let a = read_attrs () in
    OAppend (w, pg, a)
  | "N" -> ONewRange (nat_of_int (int_of_string (next ())))
  | "C" -> OClose (nat_of_int (int_of_string (next ())))
  | "Q" ->
    let w = nat_of_int (int_of_string (next ())) in
    let k = nat_of_int (int_of_string (next ())) in
    ONextPN (w, k)
  | _ -> failwith "bad op"

let bools l = Stdlib.String.concat "" (Stdlib.List.map (fun b -> if b then "1" else "0") l)

let show_log l =
  let l = Stdlib.List.map (fun (k, v) -> (int_of_nat k, string_of_z v)) l in
  let l = Stdlib.List.sort compare l in
  Stdlib.String.concat "," (Stdlib.List.map (fun (k, v) -> Printf.sprintf "%d:%s" k v) l)

let given_of_prog prog =
  Stdlib.List.filter_map (fun o -> match o with OAppend (_, pg, a) -> Some (int_of_nat pg, a) | _ -> None) prog

let run_w id old =
  let n = int_of_string (next ()) in
  let rec go i acc = if i = 0 then Stdlib.List.rev acc else let o = read_op () in go (i - 1) (o :: acc) in
  let prog = go n [] in
  let (spages, sacc) = spec_run prog in
  let given = Hashtbl.create 1024 in
  Stdlib.List.iter (fun (p, a) -> Hashtbl.replace given p a) (given_of_prog prog);
  let expected = Stdlib.List.map (fun p -> (RP p, Hashtbl.find given (int_of_nat p))) spages in
  let slog = show_log (spec_log_of spages prog) in
  match PageTreeInst.run_model old prog with
  | Res.Err Res.Panic -> Printf.printf "%s panic\n" id
  | Res.Err Res.OutOfFuel -> Printf.printf "%s fuel\n" id
  | Res.Err _ -> Printf.printf "%s err\n" id
  | Res.Ok out ->
    (match out.o_root with
     | None -> Printf.printf "%s nopages acc=%s log=%s\n%s.spec nopages acc=%s log=%s\n" id (bools out.o_accepted) (show_log out.o_log)
                 id (bools sacc) slog
     | Some root ->
       let it = PageTreeInst.iterate_model old root in
       Printf.printf "%s ok acc=%s n=%d pages=%d eff=%d log=%s valid=%s\n" id (bools out.o_accepted)
         (int_of_nat (num_pages root)) (Stdlib.List.length it) (pages_hash true it) (show_log out.o_log)
         (string_of_bool (PageTreeInst.ptree_ok_model old expected root));
       (* the specification's answer for the same program *)
       Printf.printf "%s.spec ok acc=%s n=%d pages=%d eff=%d log=%s valid=1\n" id (bools sacc)
         (Stdlib.List.length spages) (Stdlib.List.length spages) (pages_hash true expected) slog)

let run_r id old =
  let root = read_tree () in
  let np = int_of_string (next ()) in
  let rec go i acc = if i = 0 then Stdlib.List.rev acc else
      let pg = nat_of_int (int_of_string (next ())) in
      let a = read_attrs () in go (i - 1) ((RP pg, a) :: acc) in
  let expected = go np [] in
  let nprobe = int_of_string (next ()) in
  let rec gp i acc = if i = 0 then Stdlib.List.rev acc else let x = int_of_string (next ()) in gp (i - 1) (x :: acc) in
  let probes = gp nprobe [] in
  let it = PageTreeInst.iterate_model old root in
  let gets = Stdlib.List.map (fun i ->
      match PageTreeInst.get_page_model old root (nat_of_int i) with
      | None -> "-"
      | Some p -> page_str false p) probes in
  Printf.printf "%s raw valid=%s n=%d pages=%d iter=%d get=%d\n" id
    (string_of_bool (PageTreeInst.ptree_ok_model old expected root))
    (int_of_nat (num_pages root)) (Stdlib.List.length it) (pages_hash false it)
    (Stdlib.List.fold_left hash_str 7 gets)

let () =
  iter_lines (fun line ->
    match words line with
    | id :: op :: old :: rest ->
      toks := Array.of_list rest; pos := 0;
      let old = (old = "1") in
      (match op with
       | "W" -> run_w id old
       | "R" -> run_r id old
       | _ -> Printf.printf "%s badcase\n" id)
    | _ -> ())
