(* NOTE: extracted Coq modules List/String shadow the OCaml ones: always write Stdlib.List, Stdlib.String *)
(* Wire helpers shared by all model drivers: conversion between the text
   protocol (decimal integers, lower-case hex byte strings, "-" for empty)
   and the extracted inductive number types (ExtrOcamlBasic only: positive,
   N, Z and nat stay inductive).  I/O and conversion only - no model logic. *)
open BinNums
open Datatypes

let rec pos_of_int (n : int) : positive =
  if n <= 1 then Coq_xH
  else if n land 1 = 0 then Coq_xO (pos_of_int (n lsr 1))
  else Coq_xI (pos_of_int (n lsr 1))

let rec int_of_pos (p : positive) : int =
  match p with
  | Coq_xH -> 1
  | Coq_xO q -> 2 * int_of_pos q
  | Coq_xI q -> 2 * int_of_pos q + 1

let n_of_int (n : int) : coq_N = if n <= 0 then N0 else Npos (pos_of_int n)
let int_of_n (n : coq_N) : int = match n with N0 -> 0 | Npos p -> int_of_pos p

let z_of_int (n : int) : coq_Z =
  if n = 0 then Z0 else if n > 0 then Zpos (pos_of_int n) else Zneg (pos_of_int (-n))

let int_of_z (z : coq_Z) : int =
  match z with Z0 -> 0 | Zpos p -> int_of_pos p | Zneg p -> - (int_of_pos p)

let rec nat_of_int (n : int) : nat = if n <= 0 then O else S (nat_of_int (n - 1))
let int_of_nat (n : nat) : int =
  let rec go acc = function O -> acc | S m -> go (acc + 1) m in
  go 0 n

(* arbitrary-size decimal <-> positive (for values beyond OCaml's 63-bit int) *)
let pos_of_decimal (s : string) : positive option =
  (* repeated division of the decimal string by 2 *)
  let digits = Array.init (Stdlib.String.length s) (fun i -> Char.code s.[i] - 48) in
  let is_zero () = Array.for_all (fun d -> d = 0) digits in
  let divmod2 () =
    let carry = ref 0 in
    for i = 0 to Array.length digits - 1 do
      let v = (!carry * 10) + digits.(i) in
      digits.(i) <- v / 2;
      carry := v mod 2
    done;
    !carry
  in
  let bits = ref [] in
  while not (is_zero ()) do
    bits := divmod2 () :: !bits
  done;
  (* bits: most significant first *)
  match !bits with
  | [] -> None
  | _ :: rest -> Some (Stdlib.List.fold_left (fun p b -> if b = 1 then Coq_xI p else Coq_xO p) Coq_xH rest)

let z_of_string (s : string) : coq_Z =
  let neg = Stdlib.String.length s > 0 && s.[0] = '-' in
  let body = if neg then Stdlib.String.sub s 1 (Stdlib.String.length s - 1) else s in
  match pos_of_decimal body with
  | None -> Z0
  | Some p -> if neg then Zneg p else Zpos p

let n_of_string (s : string) : coq_N =
  match pos_of_decimal s with None -> N0 | Some p -> Npos p

let string_of_pos (p : positive) : string =
  (* decimal digits, little-endian array; value = 2*value + bit *)
  let digits = ref [| 0 |] in
  let double_add bit =
    let carry = ref bit in
    let d = !digits in
    for i = 0 to Array.length d - 1 do
      let v = (d.(i) * 2) + !carry in
      d.(i) <- v mod 10;
      carry := v / 10
    done;
    if !carry > 0 then digits := Array.append d [| !carry |]
  in
  let rec bits acc = function
    | Coq_xH -> 1 :: acc
    | Coq_xO q -> bits (0 :: acc) q
    | Coq_xI q -> bits (1 :: acc) q
  in
  Stdlib.List.iter double_add (bits [] p);
  let d = !digits in
  Stdlib.String.init (Array.length d) (fun i -> Char.chr (48 + d.(Array.length d - 1 - i)))

let string_of_z (z : coq_Z) : string =
  match z with Z0 -> "0" | Zpos p -> string_of_pos p | Zneg p -> "-" ^ string_of_pos p

let string_of_n (n : coq_N) : string = match n with N0 -> "0" | Npos p -> string_of_pos p

(* byte strings *)
let byte_table : coq_N array = Array.init 256 n_of_int

let hexval c =
  match c with
  | '0' .. '9' -> Char.code c - 48
  | 'a' .. 'f' -> Char.code c - 87
  | 'A' .. 'F' -> Char.code c - 55
  | _ -> failwith "bad hex"

let bytes_of_hex (s : string) : coq_N list =
  if s = "-" then []
  else begin
    let n = Stdlib.String.length s / 2 in
    let rec go i acc =
      if i < 0 then acc
      else go (i - 1) (byte_table.((hexval s.[2 * i] * 16) + hexval s.[(2 * i) + 1]) :: acc)
    in
    go (n - 1) []
  end

let hex_of_bytes (l : coq_N list) : string =
  match l with
  | [] -> "-"
  | _ ->
    let b = Buffer.create 64 in
    Stdlib.List.iter (fun x -> Buffer.add_string b (Printf.sprintf "%02x" (int_of_n x land 255))) l;
    Buffer.contents b

let words (line : string) : string list =
  Stdlib.List.filter (fun s -> s <> "") (Stdlib.String.split_on_char ' ' line)

let iter_lines (f : string -> unit) : unit =
  try
    while true do
      f (input_line stdin)
    done
  with End_of_file -> ()

let string_of_bool b = if b then "1" else "0"
