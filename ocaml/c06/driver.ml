(* C06/C07 model driver.  Input lines (see harness/c06/main.go):
     <id> D <codec> <hex>            decode          -> <id> ok <hex> | <id> err | <id> any
     <id> DH <lzw0|lzw1> <hex>       decode          -> <id> okh <length> <fnv1a-64> | <id> err
     <id> S <lzw0|lzw1> <hex>        decode with the reader's staging buffer alongside
                                     -> <id> stage <ok> okh <length> <digest> | <id> stage <ok> err ; <id>.hw <high-water mark>
     <id> E <codec> <hex> [<tags>]   encode          -> <id> enc <hex>
       codec: ahx | a85 | rl | lzw0 | lzw1 | png:<colors>:<bpc>:<columns> | tiff:<colors>:<bpc>:<columns>
              | g3:<cols>:<eol>:<align>:<blackis1>:<ignore_eob>:<maxrows>   (CCITTFax, K = 0)
     <id> PF <v> <p> <c> <b> <n>      FilterFlate{..}: validate, toDict, parse(toDict)
     <id> PL <v> <p> <c> <b> <n> <o>  FilterLZW{..}
     <id> PC <k> <eol> <al> <cols> <rows> <ieob> <bi1> <dmg>   FilterCCITTFax{..}
     <id> QF|QL|QC <dict>             parse an arbitrary dictionary
     <id> CH <k> (<name> <dict>)*     appendFilter^k, then GetFilters
   I/O and conversion only. *)
open Wire

let key_names = [
  (FilterParams.KPredictor, "Predictor"); (FilterParams.KColors, "Colors");
  (FilterParams.KBitsPerComponent, "BitsPerComponent"); (FilterParams.KColumns, "Columns");
  (FilterParams.KEarlyChange, "EarlyChange"); (FilterParams.KK, "K");
  (FilterParams.KEndOfLine, "EndOfLine"); (FilterParams.KEncodedByteAlign, "EncodedByteAlign");
  (FilterParams.KRows, "Rows"); (FilterParams.KEndOfBlock, "EndOfBlock");
  (FilterParams.KBlackIs1, "BlackIs1"); (FilterParams.KDamagedRowsBeforeError, "DamagedRowsBeforeError") ]

let key_of_name s = fst (Stdlib.List.find (fun (_, n) -> n = s) key_names)
let name_of_key k = Stdlib.List.assoc k key_names
let key_rank k =
  let rec go i = function [] -> i | (k', _) :: r -> if k' = k then i else go (i + 1) r in
  go 0 key_names

let parse_val (s : string) : FilterParams.pval =
  if s = "x" then FilterParams.VOther
  else if s = "b1" then FilterParams.VBool true
  else if s = "b0" then FilterParams.VBool false
  else if Stdlib.String.length s > 1 && s.[0] = 'i' then
    FilterParams.VInt (z_of_string (Stdlib.String.sub s 1 (Stdlib.String.length s - 1)))
  else failwith ("bad value " ^ s)

let parse_dict (s : string) : FilterParams.pdict =
  if s = "-" then []
  else
    Stdlib.List.map
      (fun kv ->
        match Stdlib.String.index_opt kv '=' with
        | Some i ->
          (key_of_name (Stdlib.String.sub kv 0 i),
           parse_val (Stdlib.String.sub kv (i + 1) (Stdlib.String.length kv - i - 1)))
        | None -> failwith ("bad dict entry " ^ kv))
      (Stdlib.String.split_on_char ';' s)

let show_val = function
  | FilterParams.VInt z -> "i" ^ string_of_z z
  | FilterParams.VBool b -> if b then "b1" else "b0"
  | FilterParams.VOther -> "x"

let show_dict (d : FilterParams.pdict) : string =
  match d with
  | [] -> "-"
  | _ ->
    let d = Stdlib.List.stable_sort (fun (a, _) (b, _) -> compare (key_rank a) (key_rank b)) d in
    Stdlib.String.concat ";" (Stdlib.List.map (fun (k, v) -> name_of_key k ^ "=" ^ show_val v) d)

let sb b = if b then "1" else "0"
let pb s = s = "1"

let show_flate (f : FilterParams.flate) =
  Printf.sprintf "%s,%s,%s,%s" (string_of_z f.FilterParams.f_pred) (string_of_z f.FilterParams.f_colors)
    (string_of_z f.FilterParams.f_bpc) (string_of_z f.FilterParams.f_columns)
let show_lzw (l : FilterParams.lzwp) = show_flate l.FilterParams.l_flate ^ "," ^ sb l.FilterParams.l_offbyone
let show_ccitt (c : FilterParams.ccitt) =
  Printf.sprintf "%s,%s,%s,%s,%s,%s,%s,%s" (string_of_z c.FilterParams.c_k) (sb c.FilterParams.c_eol)
    (sb c.FilterParams.c_align) (string_of_z c.FilterParams.c_columns) (string_of_z c.FilterParams.c_rows)
    (sb c.FilterParams.c_ignore_eob) (sb c.FilterParams.c_blackis1) (string_of_z c.FilterParams.c_damaged)

(* the dictionary a filter rebuilt from (name, dict) reports through Info *)
let renorm (name : int) (d : FilterParams.pdict) : FilterParams.pdict =
  match name with
  | 4 -> FilterParams.flate_to_dict (FilterParams.parse_flate d)
  | 5 -> FilterParams.lzw_to_dict (FilterParams.parse_lzw d)
  | 6 -> FilterParams.ccitt_to_dict (FilterParams.parse_ccitt d)
  | _ -> []

let show_res id (r : Bytes.bytes Res.res) =
  match r with
  | Res.Ok out -> Printf.printf "%s ok %s\n" id (hex_of_bytes out)
  | Res.Err _ -> Printf.printf "%s err\n" id

let geometry spec =
  match Stdlib.String.split_on_char ':' spec with
  | [_; c; b; n] ->
    let c = int_of_string c and b = int_of_string b and n = int_of_string n in
    let bpp = int_of_n (Predict.bytes_per_pixel (n_of_int c) (n_of_int b)) in
    let rowlen = int_of_n (Predict.bytes_per_row (n_of_int c) (n_of_int b) (n_of_int n)) in
    (c, b, n, bpp, rowlen)
  | _ -> failwith "bad geometry"

(* the row limit FilterCCITTFax.toParams derives from /Columns and /Rows *)
let max_rows cols rows = nat_of_int (int_of_z (CCITTParams.ccitt_max_rows (z_of_string cols) (z_of_string rows)))

(* g3:<cols>:<eol>:<align>:<blackis1>:<ignore_eob>:<Rows> *)
let g3_params spec =
  match Stdlib.String.split_on_char ':' spec with
  | [_; cols; eol; al; bi1; ieob; mr] ->
    { CCITT.g_cols = n_of_int (int_of_string cols); g_eol = (eol = "1"); g_align = (al = "1");
      g_blackis1 = (bi1 = "1"); g_ignore_eob = (ieob = "1"); g_maxrows = max_rows cols mr }
  | _ -> failwith "bad g3 parameters"

(* g4:<cols>:<align>:<blackis1>:<ignore_eob>:<Rows>   (CCITTFax, K < 0) *)
let g4_params spec =
  match Stdlib.String.split_on_char ':' spec with
  | [_; cols; al; bi1; ieob; mr] ->
    { CCITT.g_cols = n_of_int (int_of_string cols); g_eol = false; g_align = (al = "1");
      g_blackis1 = (bi1 = "1"); g_ignore_eob = (ieob = "1"); g_maxrows = max_rows cols mr }
  | _ -> failwith "bad g4 parameters"

let starts_with p s =
  Stdlib.String.length s >= Stdlib.String.length p && Stdlib.String.sub s 0 (Stdlib.String.length p) = p

let decode id codec data =
  match codec with
  | "ahx" -> show_res id (AHx.ahx_dec data)
  | "a85" -> show_res id (A85.a85_dec data)
  | "rl" ->
    (match RunLen.rl_dec data with
     | Res.Ok out -> Printf.printf "%s ok %s\n" id (hex_of_bytes out)
     | Res.Err Res.EOF -> Printf.printf "%s any\n" id   (* cut inside a literal block: depends on Read sizes *)
     | Res.Err _ -> Printf.printf "%s err\n" id)
  | "lzw0" -> show_res id (LZW.lzw_dec false data)
  | "lzw1" -> show_res id (LZW.lzw_dec true data)
  | s when starts_with "png:" s ->
    let (_, _, _, bpp, rowlen) = geometry s in
    show_res id (Predict.png_dec (nat_of_int bpp) (nat_of_int rowlen) data)
  | s when starts_with "tiff:" s ->
    let (c, b, n, _, rowlen) = geometry s in
    show_res id (Predict.tiff_dec (nat_of_int c) (n_of_int b) (nat_of_int n) (nat_of_int rowlen) data)
  | s when starts_with "g3:" s -> show_res id (CCITT.g3_dec (g3_params s) data)
  | s when starts_with "g4:" s -> show_res id (CCITT2D.g4_dec (g4_params s) data)
  | _ -> Printf.printf "%s badcodec\n" id

(* length and FNV-1a (64 bit) digest of a decoded result: for megabyte outputs *)
let digest (r : Bytes.bytes Res.res) : string =
  match r with
  | Res.Ok out ->
    let h = ref 0xcbf29ce484222325L and n = ref 0 in
    Stdlib.List.iter (fun x ->
      h := Int64.mul (Int64.logxor !h (Int64.of_int (int_of_n x land 255))) 0x100000001b3L; incr n) out;
    Printf.sprintf "okh %d %016Lx" !n !h
  | Res.Err _ -> "err"

let lzw_decode codec data =
  match codec with
  | "lzw0" -> LZW.lzw_dec false data
  | "lzw1" -> LZW.lzw_dec true data
  | _ -> failwith "bad codec"

let encode id codec data tags =
  let out =
    match codec with
    | "ahx" -> AHx.ahx_enc data
    | "a85" -> A85.a85_enc data
    | "rl" -> RunLen.rl_enc data
    | "lzw0" -> LZW.lzw_enc false data
    | "lzw1" -> LZW.lzw_enc true data
    | s when starts_with "png:" s ->
      let (_, _, _, bpp, rowlen) = geometry s in
      Predict.png_enc (nat_of_int bpp) (nat_of_int rowlen) tags data
    | s when starts_with "tiff:" s ->
      let (c, b, n, _, rowlen) = geometry s in
      Predict.tiff_enc (nat_of_int c) (n_of_int b) (nat_of_int n) (nat_of_int rowlen) data
    | s when starts_with "g3:" s -> CCITT.g3_enc (g3_params s) data
    | s when starts_with "g4:" s -> CCITT2D.g4_enc (g4_params s) data
    | _ -> failwith "bad codec"
  in
  Printf.printf "%s enc %s\n" id (hex_of_bytes out)

let mk_flate p c b n =
  { FilterParams.f_pred = z_of_string p; f_colors = z_of_string c; f_bpc = z_of_string b; f_columns = z_of_string n }

let () =
  iter_lines (fun line ->
    try
      match words line with
      | [id; "D"; codec; data] -> decode id codec (bytes_of_hex data)
      | [id; "DH"; codec; data] -> Printf.printf "%s %s\n" id (digest (lzw_decode codec (bytes_of_hex data)))
      | [id; "S"; codec; data] ->
        (* LZW reader: the output staging buffer alongside the decoder (LZWStage.v) *)
        let (sg, r) = LZWStage.lzw_stage_dec (codec = "lzw1") (bytes_of_hex data) in
        Printf.printf "%s stage %s %s\n" id (sb sg.LZWStage.sg_ok) (digest r);
        Printf.printf "%s.hw %d\n" id (int_of_n sg.LZWStage.sg_hw)
      | [id; "E"; codec; data] -> encode id codec (bytes_of_hex data) []
      | [id; "E"; codec; data; tags] -> encode id codec (bytes_of_hex data) (bytes_of_hex tags)
      | [id; "PF"; v; p; c; b; n] ->
        let f = mk_flate p c b n in
        if FilterParams.validate_flate (z_of_string v) f then
          let d = FilterParams.flate_to_dict f in
          Printf.printf "%s valid=1 dict=%s eff=%s\n" id (show_dict d) (show_flate (FilterParams.parse_flate d))
        else Printf.printf "%s valid=0\n" id
      | [id; "PL"; v; p; c; b; n; o] ->
        let l = { FilterParams.l_flate = mk_flate p c b n; l_offbyone = pb o } in
        if FilterParams.validate_flate_lzw (z_of_string v) l.FilterParams.l_flate then
          let d = FilterParams.lzw_to_dict l in
          Printf.printf "%s valid=1 dict=%s eff=%s\n" id (show_dict d) (show_lzw (FilterParams.parse_lzw d))
        else Printf.printf "%s valid=0\n" id
      | [id; "PC"; k; eol; al; cols; rows; ieob; bi1; dmg] ->
        let c = { FilterParams.c_k = z_of_string k; c_eol = pb eol; c_align = pb al; c_columns = z_of_string cols;
                  c_rows = z_of_string rows; c_ignore_eob = pb ieob; c_blackis1 = pb bi1; c_damaged = z_of_string dmg } in
        if FilterParams.validate_ccitt c then
          let d = FilterParams.ccitt_to_dict c in
          Printf.printf "%s valid=1 dict=%s eff=%s\n" id (show_dict d) (show_ccitt (FilterParams.parse_ccitt d))
        else Printf.printf "%s valid=0\n" id
      | [id; "R"; cols; rows; n] ->
        (* does the CCITT writer accept n rows for /Columns cols, /Rows rows? *)
        let p = { CCITT.g_cols = n_of_int (int_of_string cols); g_eol = false; g_align = false; g_blackis1 = false;
                  g_ignore_eob = false; g_maxrows = max_rows cols rows } in
        Printf.printf "%s %s\n" id (if CCITTParams.rows_accepted p (nat_of_int (int_of_string n)) then "accept" else "refuse")
      | [id; "QF"; d] -> Printf.printf "%s %s\n" id (show_flate (FilterParams.parse_flate (parse_dict d)))
      | [id; "QL"; d] -> Printf.printf "%s %s\n" id (show_lzw (FilterParams.parse_lzw (parse_dict d)))
      | [id; "QC"; d] -> Printf.printf "%s %s\n" id (show_ccitt (FilterParams.parse_ccitt (parse_dict d)))
      | id :: "CH" :: _ :: rest ->
        let rec stages = function
          | n :: d :: r -> (n_of_int (int_of_string n), parse_dict d) :: stages r
          | [] -> []
          | _ -> failwith "bad chain"
        in
        (match ChainInst.c06_roundtrip (stages rest) with
         | Res.Ok l ->
           Printf.printf "%s ok%s\n" id
             (Stdlib.String.concat ""
                (Stdlib.List.map (fun (n, d) -> Printf.sprintf " %d:%s" (int_of_n n) (show_dict (renorm (int_of_n n) d))) l))
         | Res.Err _ -> Printf.printf "%s err\n" id)
      | id :: _ -> Printf.printf "%s badcase\n" id
      | [] -> ()
    with e ->
      (match words line with
       | id :: _ -> Printf.printf "%s exception %s\n" id (Printexc.to_string e)
       | [] -> ()))
