#!/usr/bin/env python3
"""Assemble MANIFEST.json from checks/*.manifest.json fragments (one per property)."""
import json, os, glob
here = os.path.dirname(os.path.dirname(os.path.abspath(__file__)))
checks, na = [], []
for f in sorted(glob.glob(os.path.join(here, "checks", "c*.manifest.json"))):
    d = json.load(open(f))
    if "not_applicable" in d:
        na.append({"property_id": d["property_id"], "reason": d["not_applicable"]})
        continue
    pid = d["property_id"]
    d.setdefault("quick_cmd", "./check %s --tier quick" % pid)
    d.setdefault("thorough_cmd", "./check %s --tier thorough" % pid)
    d.setdefault("evidence_file", "/verif/evidence/%s.json" % pid)
    d.setdefault("replay_cmd_template", "./check %s --replay {path}" % pid)
    d.setdefault("engine", "rocq-proof+correspondence")
    checks.append(d)
claimed = {c["property_id"] for c in checks} | {n["property_id"] for n in na}
for ln in open(os.path.join(here, "properties.jsonl")):
    p = json.loads(ln)
    if p["id"] not in claimed:
        na.append({"property_id": p["id"], "reason": "check not built yet (work in progress; see DESIGN.md)"})
# known_findings.json = the per-property files findings/Cxx.json merged (the checks read the latter)
entries = []
for f in sorted(glob.glob(os.path.join(here, "findings", "C*.json"))):
    entries += json.load(open(f))["entries"]
json.dump({"comment": "Merged from findings/Cxx.json by tools/mkmanifest.py. kind=finding: the check prints KNOWN-FINDING for failing cases with this signature and exits 0; kind=fixed: suppresses nothing (DESIGN.md 2.6).",
           "entries": entries}, open(os.path.join(here, "known_findings.json"), "w"), indent=1)
hooks = json.load(open(os.path.join(here, "checks", "hooks.json")))
m = {
    "version": 1,
    "setup_cmd": "python3 tools/setup.py",
    "hooks": hooks,
    "engines": [
        {
            "name": "rocq-proof+correspondence",
            "path": "/verif/check",
            "serves_properties": sorted(c["property_id"] for c in checks),
            "kind_free_text": "Coq 8.16.1 theorems about executable Gallina models (coq/), models extracted to OCaml "
            "and run against the Go implementation by a differential harness (harness/), constants and "
            "pure functions regenerated from the Go source by a translator (translate/)",
        }
    ],
    "checks": checks,
    "not_applicable": sorted(na, key=lambda x: x["property_id"]),
    "notes": "See DESIGN.md. Known findings: known_findings.json. Seeded changes used to test the checks: seeded/.",
}
json.dump(m, open(os.path.join(here, "MANIFEST.json"), "w"), indent=1)
print("MANIFEST.json: %d checks, %d not applicable" % (len(checks), len(na)))
