#!/bin/bash
# run every check once (quick tier) into a scratch out dir, 4 at a time; summary to stdout
out=${1:-/tmp/out-sweep}
mkdir -p $out/logs
run() { i=$1; VERIF_OUT=$out/C$i timeout 1200 /verif/check C$i > $out/logs/C$i.log 2>&1; echo "C$i rc=$? $(grep -c '^KNOWN-FINDING' $out/logs/C$i.log) known; $(tail -1 $out/logs/C$i.log)"; }
export -f run; export out
printf "%s\n" 01 02 03 04 05 06 07 08 09 10 11 12 13 14 15 16 17 18 19 20 | xargs -P 4 -I{} bash -c 'run {}'
