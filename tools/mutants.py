#!/usr/bin/env python3
"""Run checks against seeded / reverted changes in scratch worktrees and tabulate detection.

usage: tools/mutants.py [--tier quick] [--only C12,C13] [--jobs 4] [--kind regress|seeded|all]

Patches: regress/revert-Fn.diff (mapping in regress/MAP.json: {"F4": ["C12"], ...}) and
seeded/<id>/patch.diff (meta.json: {"property": "C12", ...}).  Each patch is applied to a
fresh worktree of /repo under /tmp/mut-<id>, the checks run with VERIF_REPO/VERIF_OUT pointing
there, and the worktree is removed again.  Result: build/mutants.json and a markdown table on stdout.
"""
import argparse, json, os, subprocess, sys, shutil, glob
from concurrent.futures import ThreadPoolExecutor

here = os.path.dirname(os.path.dirname(os.path.abspath(__file__)))


def run_one(mid, patch, props, tier, pre=()):
    wt = "/tmp/mut-" + mid
    out = "/tmp/mutout-" + mid
    subprocess.run(["git", "-C", "/repo", "worktree", "remove", "--force", wt], capture_output=True)
    shutil.rmtree(out, ignore_errors=True)
    r = subprocess.run(["git", "-C", "/repo", "worktree", "add", "-q", wt, "HEAD"], capture_output=True, text=True)
    res = {}
    try:
        for extra in pre:  # patches the change presupposes (a later fix neutralised it)
            subprocess.run(["git", "-C", wt, "apply", os.path.join(here, extra)], capture_output=True, text=True)
        a = subprocess.run(["git", "-C", wt, "apply", patch], capture_output=True, text=True)
        if a.returncode != 0:
            return {p: "patch-does-not-apply: " + a.stderr.strip()[:200] for p in props}
        for p in props:
            env = dict(os.environ, VERIF_REPO=wt, VERIF_OUT=out, VERIF_TIER=tier)
            try:
                c = subprocess.run([os.path.join(here, "check"), p, "--tier", tier], capture_output=True, text=True, env=env, timeout=3600)
                lines = [l for l in c.stdout.split("\n") if l.startswith("VIOLATION")]
                if c.returncode == 1 and lines:
                    res[p] = "caught" + (" (no-failing-input-found)" if all("no-failing-input-found" in l for l in lines) else "")
                elif c.returncode == 0:
                    res[p] = "MISSED"
                else:
                    res[p] = "check-error rc=%d: %s" % (c.returncode, (c.stdout + c.stderr)[-300:])
            except subprocess.TimeoutExpired:
                res[p] = "timeout"
    finally:
        subprocess.run(["git", "-C", "/repo", "worktree", "remove", "--force", wt], capture_output=True)
        shutil.rmtree(out, ignore_errors=True)
    return res


def main():
    ap = argparse.ArgumentParser()
    ap.add_argument("--tier", default="quick")
    ap.add_argument("--only", default="")
    ap.add_argument("--jobs", type=int, default=4)
    ap.add_argument("--kind", default="all")
    ap.add_argument("--ids", default="", help="regular expression on the change id")
    a = ap.parse_args()
    only = set(x for x in a.only.split(",") if x)
    todo = []
    if a.kind in ("all", "regress"):
        mp = json.load(open(os.path.join(here, "regress", "MAP.json")))
        for f, props in sorted(mp.items()):
            props = [p for p in props if not only or p in only]
            if props:
                todo.append(("revert-" + f, os.path.join(here, "regress", "revert-%s.diff" % f), props, ()))
    if a.kind in ("all", "seeded"):
        for d in sorted(glob.glob(os.path.join(here, "seeded", "*"))):
            mj = os.path.join(d, "meta.json")
            if not os.path.exists(mj):
                continue
            m = json.load(open(mj))
            props = [m["property"]] + m.get("also", [])
            props = [p for p in props if not only or p in only]
            props = [p for p in props if os.path.exists(os.path.join(here, "checks", p.lower() + ".py"))]
            if props:
                todo.append((os.path.basename(d), os.path.join(d, "patch.diff"), props, tuple(m.get("also_apply", []))))
    if a.ids:
        import re
        todo = [t for t in todo if re.search(a.ids, t[0])]
    results = {}
    with ThreadPoolExecutor(max_workers=a.jobs) as ex:
        futs = {mid: ex.submit(run_one, mid, patch, props, a.tier, pre) for mid, patch, props, pre in todo}
        for mid, f in futs.items():
            results[mid] = f.result()
            print("%-28s %s" % (mid, results[mid]), flush=True)
    os.makedirs(os.path.join(here, "build"), exist_ok=True)
    json.dump(results, open(os.path.join(here, "build", "mutants.json"), "w"), indent=1)
    print("\n| change | property | result |\n|---|---|---|")
    for mid in sorted(results):
        for p, r in sorted(results[mid].items()):
            print("| %s | %s | %s |" % (mid, p, r))


if __name__ == "__main__":
    main()
