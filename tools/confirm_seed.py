#!/usr/bin/env python3
"""Confirm seeded changes produced by an isolated sub-agent, then keep them under seeded/.

usage: tools/confirm_seed.py C12 [C04 ...]

For every entry of /tmp/seed-out/<id>/meta.json, in the scratch worktree /tmp/seed/<id>:
  1. demo on the clean worktree            -> must pass
  2. git apply patch ; demo                -> must fail
  3. go build ./... and the full test suite with the patch -> must pass (the two viewer-tests
     packages fail at setup without movie.mp4, before and after: not counted)
  4. git checkout -- . ; git clean
Confirmed changes are stored as seeded/<id>-<n>/{patch.diff, demo/, meta.json}.

Note for whoever briefs the seeders: `git stash` is shared by all worktrees of one repository;
concurrent seeders that stash swap changes (seen in wave 8).  Tell them to use `git apply` /
`git apply -R` on their saved patch, and check that every patch touches only its own files.
"""
import json, os, re, shutil, subprocess, sys

here = os.path.dirname(os.path.dirname(os.path.abspath(__file__)))
ENV = dict(os.environ, GOFLAGS="-mod=mod", GOPROXY="off", GOSUMDB="off", GOTOOLCHAIN="local")


def sh(cmd, cwd=None, timeout=1800):
    p = subprocess.run(cmd, shell=True, cwd=cwd, env=ENV, capture_output=True, text=True, timeout=timeout)
    return p.returncode, p.stdout + p.stderr


def demo_passes(cmd):
    rc, out = sh(cmd)
    failed = bool(re.search(r"^(--- FAIL|FAIL|panic:)", out, re.M)) or "exit status" in out
    ok = bool(re.search(r"^ok\s", out, re.M)) or "PASS" in out
    return (ok and not failed), out


def main():
    args = sys.argv[1:]
    srcroot, offset = "/tmp/seed-out", 0
    while args and args[0].startswith("--"):
        if args[0] == "--src":
            srcroot = args[1]
        elif args[0] == "--offset":
            offset = int(args[1])
        args = args[2:]
    for pid in args:
        src = os.path.join(srcroot, pid)
        wt = "/tmp/seed/" + pid
        metas = json.load(open(os.path.join(src, "meta.json")))
        for n, m in enumerate(metas, 1):
            sh("git checkout -- . && git clean -fdq", cwd=wt)
            cmd = m["how_to_run_demo"].split("   (")[0].strip()
            m["demo"] = m["demo"].split(" ")[0]
            patch = os.path.join(src, m["patch"])
            res = {"demo_passes_clean": None, "demo_fails_patched": None, "suite_passes_with_patch": None}
            ok, out1 = demo_passes(cmd)
            res["demo_passes_clean"] = ok
            sh("git clean -fdq", cwd=wt)
            rc, out = sh("git apply " + patch, cwd=wt)
            if rc != 0:
                print(pid, n, "patch does not apply", out)
                continue
            ok2, out2 = demo_passes(cmd)
            res["demo_fails_patched"] = not ok2
            sh("git clean -fdq", cwd=wt)  # a demo file left in the tree must not take part in the suite
            rc, outb = sh("go1.26 build ./... 2>&1 | grep -v 'viewer-tests\\|movie.mp4'", cwd=wt)
            rc, outs = sh("go1.26 test -vet=off -count=1 ./... 2>&1 | grep -v '^ok\\|no test files'", cwd=wt, timeout=3000)
            bad = [l for l in outs.split("\n") if (re.match(r"(FAIL\s+\S+|--- FAIL|panic:)", l) or "[build failed]" in l)
                   and "viewer-tests" not in l and "movie.mp4" not in l]
            res["suite_passes_with_patch"] = not bad and not outb.strip()
            sh("git checkout -- . && git clean -fdq", cwd=wt)
            good = all(res.values())
            print(pid, n, "CONFIRMED" if good else "REJECTED", res, flush=True)
            if not good:
                print("  clean demo tail:", out1[-400:].replace("\n", " | "))
                print("  patched demo tail:", out2[-400:].replace("\n", " | "))
                print("  suite:", bad[:5], outb[-300:])
                continue
            dst = os.path.join(here, "seeded", "%s-%d" % (pid, n + offset))
            shutil.rmtree(dst, ignore_errors=True)
            os.makedirs(dst)
            shutil.copy(patch, os.path.join(dst, "patch.diff"))
            ddir = os.path.join(src, os.path.dirname(m["demo"]) or ".")
            shutil.copytree(ddir, os.path.join(dst, "demo"))
            meta = {
                "property": pid,
                "breaks": m.get("breaks"),
                "needs": m.get("needs"),
                "files_changed": m.get("files_changed"),
                "demo": m.get("demo"),
                "how_to_run_demo": m.get("how_to_run_demo"),
                "confirmed": {
                    "what_was_run": "tools/confirm_seed.py: demo on clean worktree (pass), git apply patch, demo (fail), "
                    "go1.26 build ./... and go1.26 test -vet=off -count=1 ./... with the patch (pass apart from the two "
                    "viewer-tests packages that lack movie.mp4)",
                    **res,
                },
                "origin": "isolated sub-agent given only the property text and a scratch worktree",
            }
            json.dump(meta, open(os.path.join(dst, "meta.json"), "w"), indent=1)


if __name__ == "__main__":
    main()
