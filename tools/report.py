#!/usr/bin/env python3
"""Collate evidence/*.json into a markdown summary (used for DESIGN.md §9)."""
import json, glob, os
here = os.path.dirname(os.path.dirname(os.path.abspath(__file__)))
print("| Prop | tier | theorems (discharged/obligations) | axioms | partial / refuted | evaluations | non-trivial | known findings seen | wall s |")
print("|---|---|---|---|---|---|---|---|---|")
for f in sorted(glob.glob(os.path.join(here, "evidence", "C*.json"))):
    e = json.load(open(f)); c = e["coverage"]
    ax = c.get("axioms_per_theorem", {})
    axs = sorted({a for v in ax.values() if isinstance(v, list) for a in v})
    print("| %s | %s | %s/%s | %s | %s | %s | %s | %s | %s |" % (
        e["property_id"], e["tier"], c.get("discharged"), c.get("obligations"),
        ", ".join(axs) if axs else "closed", "; ".join(str(p)[:60] for p in c.get("partial", [])) or "-",
        c.get("evaluations"), c.get("distinct_nontrivial"), ", ".join(c.get("known_findings_seen", [])) or "-", e.get("wall_s")))
