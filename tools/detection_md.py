#!/usr/bin/env python3
"""seeded/DETECTION.md from build/mutants.json (written by tools/mutants.py) and the seeds' meta.json.

The "first run" column is history (what the quick tier did the first time it met the change,
before any strengthening); it is kept in seeded/FIRST_RUN.json and never recomputed.
"""
import json, os, glob, re

here = os.path.dirname(os.path.dirname(os.path.abspath(__file__)))
res = json.load(open(os.path.join(here, "build", "mutants.json")))
first = json.load(open(os.path.join(here, "seeded", "FIRST_RUN.json")))
mp = json.load(open(os.path.join(here, "regress", "MAP.json")))
fixed = {}
for f in glob.glob(os.path.join(here, "findings", "C*.json")):
    for e in json.load(open(f))["entries"]:
        if e.get("kind") == "fixed":
            fixed[e["id"]] = e

out = ["# Which checks catch which changes\n",
       "Produced by `tools/mutants.py --tier quick` (every change applied to a scratch worktree of /repo,",
       "the quick check of its property run with `VERIF_REPO` pointing there) and `tools/detection_md.py`.",
       "`caught` = exit 1 with a VIOLATION line and a replay containing a concrete failing input;",
       "`caught (no-failing-input-found)` = a proof obligation or the correspondence broke but the search",
       "found no failing input; `MISSED` = exit 0.\n"]


def short(s, n=230):
    s = " ".join(s.split())
    return s if len(s) <= n else s[:n - 1] + "…"


out.append("## Reverts of the `fix:` commits\n")
out.append("| change | property | what the fix repaired | result |")
out.append("|---|---|---|---|")
def fkey(k):
    return int(re.sub(r"\D", "", k) or 0)
for f in sorted(mp, key=fkey):
    r = res.get("revert-" + f, {})
    for p in mp[f]:
        what = fixed.get(f, {}).get("what", "")
        out.append("| revert-%s | %s | %s | %s |" % (f, p, short(what), r.get(p, "not run")))
out.append("")
out.append("## Seeded changes (isolated sub-agents; waves 1–7 = suffixes 1-2, 3-4, …, 13-14; wave 8 = suffix 15)\n")
out.append("| change | property | what it breaks | first run | now |")
out.append("|---|---|---|---|---|")
tot = {"caught": 0, "tie": 0, "missed": 0, "other": 0}
for d in sorted(glob.glob(os.path.join(here, "seeded", "C*-*"))):
    mid = os.path.basename(d)
    m = json.load(open(os.path.join(d, "meta.json")))
    r = res.get(mid, {})
    for p in [m["property"]] + m.get("also", []):
        now = r.get(p, "not run")
        if now == "caught":
            tot["caught"] += 1
        elif now.startswith("caught"):
            tot["tie"] += 1
        elif now == "MISSED":
            tot["missed"] += 1
        else:
            tot["other"] += 1
        out.append("| %s | %s | %s | %s | %s |" % (mid, p, short(m.get("breaks", "")), first.get(mid, "caught"), now))
out.append("")
out.append("Totals now: %d caught with a failing input, %d caught as a broken tie only, %d missed, %d other." % (
    tot["caught"], tot["tie"], tot["missed"], tot["other"]))
open(os.path.join(here, "seeded", "DETECTION.md"), "w").write("\n".join(out) + "\n")
print("seeded/DETECTION.md written:", tot)
