#!/bin/bash
# run every check once in the thorough tier into a scratch out dir, 3 at a time; summary to stdout
out=${1:-/root/scratch/out-thorough}; shift
list=${@:-01 02 03 04 05 06 07 08 09 10 11 12 13 14 15 16 17 18 19 20}
mkdir -p $out/logs
run() { i=$1; s=$(date +%s); VERIF_OUT=$out/C$i timeout 3000 /verif/check C$i --tier thorough > $out/logs/C$i.log 2>&1; rc=$?; e=$(date +%s); rm -rf $out/C$i/build $out/C$i/ocaml $out/C$i/coq 2>/dev/null; echo "C$i rc=$rc $(grep -c '^KNOWN-FINDING' $out/logs/C$i.log) known; $((e-s))s; $(tail -1 $out/logs/C$i.log)"; }
export -f run; export out
printf "%s\n" $list | xargs -P 3 -I{} bash -c 'run {}'
