#!/usr/bin/env python3
"""Build everything the checks need, offline, from files on disk (MANIFEST.setup_cmd)."""
import os, sys, time
here = os.path.dirname(os.path.dirname(os.path.abspath(__file__)))
sys.path.insert(0, os.path.join(here, "lib"))
import vcommon as v

import json, re
t0 = time.time()
registered = {x["property_id"] for x in json.load(open(os.path.join(here, "MANIFEST.json")))["checks"]}
def counts(name):
    """A failing component counts only if it belongs to a registered property (others are work in progress)."""
    m = re.match(r"[Cc](\d\d)", name)
    return (not m) or ("C" + m.group(1)) in registered
c = v.Check("SETUP", [])
ok = c.translate()
print("translate:", "ok" if ok else c.ties)
projs = sorted(d for d in os.listdir(v.COQ) if os.path.exists(os.path.join(v.COQ, d, "_CoqProject")))
order = []
for pj in projs:
    try:
        for q in v.project_closure([pj]):
            if q not in order:
                order.append(q)
    except Exception as ex:  # a project under construction with a missing dependency
        print("coq %-8s skipped: %s" % (pj, ex))
bad = 0
for p in order:
    t = time.time()
    with v.Lock('coq-' + p):
        rc, out = v.coq_make(p)
    print("coq %-8s rc=%d %.1fs" % (p, rc, time.time() - t), flush=True)
    if rc != 0:
        bad += 1 if counts(p) else 0
        print(out[-3000:])
for p in order:
    if os.path.exists(os.path.join(v.COQ, p, "Extract.v")) and os.path.isdir(os.path.join(here, "ocaml", p.lower())):
        t = time.time()
        exe = c.model(p)
        print("model %-8s %s %.1fs" % (p, "ok" if exe else "FAILED", time.time() - t), flush=True)
        if not exe:
            bad += 1 if counts(p) else 0
hd = os.path.join(here, "harness")
for pkg in sorted(os.listdir(hd)):
    if os.path.exists(os.path.join(hd, pkg, "main.go")):
        t = time.time()
        exe = c.harness(pkg)
        print("harness %-8s %s %.1fs" % (pkg, "ok" if exe else "FAILED", time.time() - t), flush=True)
        if not exe:
            bad += 1 if counts(pkg) else 0
# the race-detector build used by C18 (cgo)
if os.path.exists(os.path.join(hd, "c18", "main.go")):
    t = time.time()
    exe = c.harness("c18", race=True)
    print("harness c18-race %s %.1fs" % ("ok" if exe else "FAILED", time.time() - t), flush=True)
    if not exe:
        bad += 1 if counts("c18") else 0
for t in c.ties:
    print("PROBLEM:", t["name"], "\n", str(t["detail"])[-1500:])
print("setup done in %.1fs, %d problem(s)" % (time.time() - t0, bad))
sys.exit(1 if bad else 0)
