// C15 harness: content streams (graphics/content writer.go, stream.go, state.go, builder).
//
// Phase 1 generates the cases and, for every case,
//
//	(oracle) runs the property on the implementation: scanning what Operator.Format wrote
//	    gives the same operator names and equal operands, also when the operators are split
//	    over two content streams (page.SegmentsReader), and Builder output re-reads as a
//	    valid sequence that is balanced after ClosingOperators; failures go to fails.jsonl;
//	(a) hands the implementation's text to the model scanner (cases.txt, op CS);
//	(b) hands the operators to the model writer (cases_b.txt, op CF);
//	(c) hands arbitrary and mutated byte strings to both scanners (op CS);
//	(s) compares the nesting model with content.State on operator-name sequences (op NS)
//	    and the model's operator table with CheckOperatorAllowed/ApplyStateChanges (op NT).
//
// Phase 2 (VERIF_PHASE=2) scans the model writer's texts (model_b.obs) with the real scanner.
// Only values, names and accept/reject decisions are compared, never formatted bytes.
package main

import (
	"bytes"
	"encoding/hex"
	"fmt"
	"io"
	"math"
	"os"
	"path/filepath"
	"sort"
	"strconv"
	"strings"

	"seehuhn.de/go/geom/matrix"
	"seehuhn.de/go/pdf"
	"seehuhn.de/go/pdf/graphics"
	"seehuhn.de/go/pdf/graphics/color"
	"seehuhn.de/go/pdf/graphics/content"
	"seehuhn.de/go/pdf/graphics/content/builder"
	"seehuhn.de/go/pdf/page"
	"seehuhn.de/go/pdf/verifharness/common"
)

type harness struct {
	e    *common.Env
	n    int
	pfx  string
	nsig map[string]int
}

func (h *harness) id(kind string) string {
	h.n++
	return fmt.Sprintf("%s%d.%s", h.pfx, h.n, kind)
}

// ---------------------------------------------------------------------------
// values: wire encodings (as in the C01 harness)

func hx(b []byte) string { return common.Hex(b) }

func keyRank(k pdf.Name) int {
	switch k {
	case "Type":
		return 0
	case "Subtype":
		return 1
	}
	return 2
}

func keyLess(a, b pdf.Name) bool {
	ra, rb := keyRank(a), keyRank(b)
	if ra != rb {
		return ra < rb
	}
	return a < b
}

func realBits(x float64) string {
	if x == 0 {
		x = 0
	}
	return fmt.Sprintf("r%016x", math.Float64bits(x))
}

// canon is the canonical encoding of a value as the property reads it: a nil
// entry is absent, a nil array is null, a nil dictionary is the empty one.
func canon(o pdf.Object) string {
	if _, isNative := o.(pdf.Native); o != nil && !isNative {
		o = o.AsPDF(pdf.OptContentStream)
	}
	switch x := o.(type) {
	case nil:
		return "n"
	case pdf.Boolean:
		if x {
			return "t"
		}
		return "f"
	case pdf.Integer:
		return "i" + strconv.FormatInt(int64(x), 10)
	case pdf.Real:
		return realBits(float64(x))
	case pdf.Name:
		return "N" + hx([]byte(x))
	case pdf.String:
		return "S" + hx([]byte(x))
	case pdf.Reference:
		return fmt.Sprintf("R%d.%d", x.Number(), x.Generation())
	case pdf.Operator:
		return "O" + hx([]byte(x))
	case pdf.Array:
		if x == nil {
			return "n"
		}
		var sb strings.Builder
		fmt.Fprintf(&sb, "A%d", len(x))
		for _, e := range x {
			sb.WriteByte(' ')
			sb.WriteString(canon(e))
		}
		return sb.String()
	case pdf.Dict:
		keys := make([]pdf.Name, 0, len(x))
		vals := map[pdf.Name]string{}
		for k, v := range x {
			c := canon(v)
			if c == "n" {
				continue
			}
			keys = append(keys, k)
			vals[k] = c
		}
		sort.Slice(keys, func(i, j int) bool { return keyLess(keys[i], keys[j]) })
		var sb strings.Builder
		fmt.Fprintf(&sb, "D%d", len(keys))
		for _, k := range keys {
			sb.WriteByte(' ')
			sb.WriteString(hx([]byte(k)))
			sb.WriteByte(' ')
			sb.WriteString(vals[k])
		}
		return sb.String()
	}
	return fmt.Sprintf("?%T", o)
}

func canonList(xs []pdf.Object) string {
	var sb strings.Builder
	for _, x := range xs {
		sb.WriteByte(' ')
		sb.WriteString(canon(x))
	}
	return sb.String()
}

// raw is the encoding of a value handed to the model formatter; a real is
// handed over as the text strconv.FormatFloat prints (H-float).
func raw(o pdf.Object) string {
	if _, isNative := o.(pdf.Native); o != nil && !isNative {
		o = o.AsPDF(pdf.OptContentStream)
	}
	switch x := o.(type) {
	case pdf.Real:
		return "r" + strconv.FormatFloat(float64(x), 'f', -1, 64)
	case pdf.Array:
		if x == nil {
			return "a"
		}
		var sb strings.Builder
		fmt.Fprintf(&sb, "A%d", len(x))
		for _, e := range x {
			sb.WriteByte(' ')
			sb.WriteString(raw(e))
		}
		return sb.String()
	case pdf.Dict:
		if x == nil {
			return "d"
		}
		keys := make([]pdf.Name, 0, len(x))
		for k := range x {
			keys = append(keys, k)
		}
		// an arbitrary but reproducible order: reverse byte order
		sort.Slice(keys, func(i, j int) bool { return keys[i] > keys[j] })
		var sb strings.Builder
		fmt.Fprintf(&sb, "D%d", len(keys))
		for _, k := range keys {
			sb.WriteByte(' ')
			sb.WriteString(hx([]byte(k)))
			sb.WriteByte(' ')
			sb.WriteString(raw(x[k]))
		}
		return sb.String()
	}
	return canon(o)
}

func rawList(xs []pdf.Object) string {
	var sb strings.Builder
	fmt.Fprintf(&sb, "%d", len(xs))
	for _, x := range xs {
		sb.WriteByte(' ')
		sb.WriteString(raw(x))
	}
	return sb.String()
}

// ---------------------------------------------------------------------------
// operators

func opCanon(name content.OpName, args []pdf.Object) string {
	var sb strings.Builder
	fmt.Fprintf(&sb, " ; P%s %d", hx([]byte(name)), len(args))
	for _, a := range args {
		sb.WriteByte(' ')
		sb.WriteString(canon(a))
	}
	return sb.String()
}

func opsCanon(ops []content.Operator) string {
	var sb strings.Builder
	fmt.Fprintf(&sb, "ok %d", len(ops))
	for _, op := range ops {
		sb.WriteString(opCanon(op.Name, op.Args))
	}
	return sb.String()
}

func opsRaw(ops []content.Operator) string {
	var sb strings.Builder
	fmt.Fprintf(&sb, "%d", len(ops))
	for _, op := range ops {
		fmt.Fprintf(&sb, " %s %d", hx([]byte(op.Name)), len(op.Args))
		for _, a := range op.Args {
			sb.WriteByte(' ')
			sb.WriteString(raw(a))
		}
	}
	return sb.String()
}

// realScan: all operators the real content scanner yields, in canonical form.
func realScan(data []byte) (obs string) {
	defer func() {
		if r := recover(); r != nil {
			obs = "panic"
		}
	}()
	s := content.NewScanner(func() (io.ReadCloser, error) { return io.NopCloser(bytes.NewReader(data)), nil })
	it := s.NewIter()
	var sb strings.Builder
	n := 0
	for name, args := range it.All() {
		n++
		sb.WriteString(opCanon(name, args))
	}
	if it.Err() != nil {
		return "err:other"
	}
	return fmt.Sprintf("ok %d%s", n, sb.String())
}

// chunkReader delivers the data in reads of the given sizes (cyclically): the scanner's
// result must not depend on where the reads of its source end.
type chunkReader struct {
	data  []byte
	pos   int
	sizes []int
	i     int
}

func (c *chunkReader) Read(p []byte) (int, error) {
	if c.pos >= len(c.data) {
		return 0, io.EOF
	}
	n := c.sizes[c.i%len(c.sizes)]
	c.i++
	n = min(n, len(p), len(c.data)-c.pos)
	copy(p, c.data[c.pos:c.pos+n])
	c.pos += n
	return n, nil
}

func realScanChunked(data []byte, sizes []int) (obs string) {
	defer func() {
		if r := recover(); r != nil {
			obs = "panic"
		}
	}()
	s := content.NewScanner(func() (io.ReadCloser, error) {
		return io.NopCloser(&chunkReader{data: data, sizes: sizes}), nil
	})
	it := s.NewIter()
	var sb strings.Builder
	n := 0
	for name, args := range it.All() {
		n++
		sb.WriteString(opCanon(name, args))
	}
	if it.Err() != nil {
		return "err:other"
	}
	return fmt.Sprintf("ok %d%s", n, sb.String())
}

var chunkings = [][]int{{1}, {2}, {3, 1}, {5, 7, 1}, {511}, {513, 2}, {64}}

func realFormat(ops []content.Operator) []byte {
	text, _ := realFormatErr(ops)
	return text
}

func realFormatErr(ops []content.Operator) ([]byte, error) {
	var buf bytes.Buffer
	for _, op := range ops {
		if err := op.Format(&buf); err != nil {
			return nil, err
		}
	}
	return buf.Bytes(), nil
}

// ---------------------------------------------------------------------------
// the domain of the property (mirror of the model's wf_op)

var class [256]byte // 0 regular, 1 space, 2 delimiter

func init() {
	for _, b := range []byte{0, 9, 10, 12, 13, 32} {
		class[b] = 1
	}
	for _, b := range []byte("()<>[]{}/%") {
		class[b] = 2
	}
}

func isNumberToken(t string) bool {
	if t == "" {
		return false
	}
	c := t[0]
	if !(c >= '0' && c <= '9' || c == '.' || c == '-' || c == '+') {
		return false
	}
	for i := 0; i < len(t); i++ {
		c := t[i]
		if i == 0 && (c == '+' || c == '-') {
			continue
		}
		if c == '.' || c >= '0' && c <= '9' {
			continue
		}
		return false
	}
	if _, err := strconv.ParseInt(t, 10, 64); err == nil && !strings.Contains(t, ".") {
		return true
	}
	y, err := strconv.ParseFloat(t, 64)
	return err == nil && !math.IsInf(y, 0) && !math.IsNaN(y)
}

// wfName: an operator name the scanner reads back as that operator.
func wfName(n content.OpName) bool {
	t := string(n)
	if t == "" || len(t) > 4096 {
		return false
	}
	for i := 0; i < len(t); i++ {
		if class[t[i]] != 0 {
			return false
		}
	}
	switch t {
	case "true", "false", "null", "BI":
		return false
	}
	return !isNumberToken(t)
}

// wfVal: an operand of the native types within the scanner's limits (no references, no
// operators, nesting below the scanner's stack limit).
func wfVal(o pdf.Object, depth int) bool {
	if _, isNative := o.(pdf.Native); o != nil && !isNative {
		o = o.AsPDF(pdf.OptContentStream)
	}
	switch x := o.(type) {
	case nil, pdf.Boolean, pdf.Integer, pdf.Name, pdf.String:
		return true
	case pdf.Real:
		f := float64(x)
		return !math.IsInf(f, 0) && !math.IsNaN(f)
	case pdf.Array:
		if x == nil {
			return true
		}
		if depth >= 256 {
			return false
		}
		for _, e := range x {
			if !wfVal(e, depth+1) {
				return false
			}
		}
		return true
	case pdf.Dict:
		if depth >= 256 {
			return false
		}
		for _, v := range x {
			if !wfVal(v, depth+1) {
				return false
			}
		}
		return true
	}
	return false
}

func hasEmptyArray(o pdf.Object) bool {
	switch x := o.(type) {
	case pdf.Array:
		if x != nil && len(x) == 0 {
			return true
		}
		for _, e := range x {
			if hasEmptyArray(e) {
				return true
			}
		}
	case pdf.Dict:
		for _, v := range x {
			if hasEmptyArray(v) {
				return true
			}
		}
	}
	return false
}

func valDepth(o pdf.Object) int {
	d := 0
	switch x := o.(type) {
	case pdf.Array:
		for _, e := range x {
			d = max(d, valDepth(e))
		}
		return d + 1
	case pdf.Dict:
		for _, v := range x {
			d = max(d, valDepth(v))
		}
		return d + 1
	}
	return 0
}

// eolEI: data contains EOL "EI" followed by a non-regular byte or the end of the data
// followed by the writer's own "\nEI".
func eolEI(data []byte) bool {
	for i := 0; i+2 < len(data); i++ {
		if (data[i] == '\n' || data[i] == '\r') && data[i+1] == 'E' && data[i+2] == 'I' {
			if i+3 == len(data) || class[data[i+3]] != 0 {
				return true
			}
		}
	}
	return false
}

func imgInt(d pdf.Dict, a, f pdf.Name) (int, bool) {
	v, ok := d[a]
	if !ok {
		v, ok = d[f]
	}
	if !ok || v == nil {
		return -1, false
	}
	switch x := v.(type) {
	case pdf.Integer:
		return int(x), true
	case pdf.Real:
		return int(x), true
	}
	return -1, true
}

func imgFilterASCII(d pdf.Dict) bool {
	v, ok := d["F"]
	if !ok {
		v = d["Filter"]
	}
	var n pdf.Name
	switch x := v.(type) {
	case pdf.Name:
		n = x
	case pdf.Array:
		if len(x) > 0 {
			n, _ = x[len(x)-1].(pdf.Name)
		}
	}
	switch n {
	case "ASCIIHexDecode", "AHx", "ASCII85Decode", "A85":
		return true
	}
	return false
}

// imageClass classifies an inline image operator: "ok" (inside the guard of inline_rt),
// one of the finding signatures, or "outside" (not in the domain at all).
func imageClass(op content.Operator) string {
	if len(op.Args) != 2 {
		return "outside"
	}
	d, ok1 := op.Args[0].(pdf.Dict)
	data, ok2 := op.Args[1].(pdf.String)
	if !ok1 || !ok2 || d == nil {
		return "outside"
	}
	for k, v := range d {
		if v == nil || !wfVal(v, 0) || valDepth(v) > 10 || len(k) > 4096 {
			return "outside"
		}
		for i := 0; i < len(k); i++ {
			if class[k[i]] != 0 || k[i] == '#' {
				return "outside"
			}
		}
		if strings.HasPrefix(string(k), "ID") {
			return "outside"
		}
	}
	w, _ := imgInt(d, "W", "Width")
	hh, _ := imgInt(d, "H", "Height")
	if w <= 0 || hh <= 0 || w > 65536 || hh > 65536 || w*hh > 256*1024 {
		return "outside"
	}
	l, hasL := imgInt(d, "L", "Length")
	if hasL && l != len(data) {
		return "outside"
	}
	if len(data) > 4094 {
		return "outside"
	}
	// ISO 32000 8.9.7: for the ASCII filters white space after ID is not image data; data
	// that itself starts with white space is read back without it (outside the domain)
	if imgFilterASCII(d) && len(data) > 0 && class[data[0]] == 1 {
		return "outside"
	}
	if (!hasL || l <= 0) && eolEI(data) {
		return "inline-image-no-length-data-contains-eol-EI"
	}
	return "ok"
}

// opClass: "ok", a finding signature, or "outside".
func opClass(op content.Operator) string {
	switch op.Name {
	case content.OpInlineImage:
		return imageClass(op)
	case content.OpRawContent:
		// only comment lines are read back as %raw%
		if len(op.Args) != 1 {
			return "outside"
		}
		s, ok := op.Args[0].(pdf.String)
		if !ok || len(s) == 0 || s[0] != '%' || len(s) > 4096 || bytes.ContainsAny(s, "\r\n") {
			return "outside"
		}
		return "ok"
	}
	if !wfName(op.Name) || len(op.Args) >= 64 {
		return "outside"
	}
	for _, a := range op.Args {
		if !wfVal(a, 0) {
			return "outside"
		}
	}
	return "ok"
}

func opsClass(ops []content.Operator) string {
	res := "ok"
	for _, op := range ops {
		c := opClass(op)
		if c == "outside" {
			return c
		}
		if c != "ok" {
			res = c
		}
	}
	return res
}

// ---------------------------------------------------------------------------
// cases

// operators: oracle, (a), (b), split.
func (h *harness) operators(ops []content.Operator, class string) {
	cl := opsClass(ops)
	h.e.Count(true, class+opsRaw(ops), class+":"+cl)
	want := opsCanon(ops)
	text, ferr := realFormatErr(ops)
	if ferr != nil {
		// the writer refuses the value (types.go refuses what the scanners' limits would
		// reject): fine outside the domain, a failing input inside it
		if cl == "ok" {
			h.nsig["format-error"]++
			if h.nsig["format-error"] <= 5 {
				h.e.Fail("format-error", fmt.Sprintf("Operator.Format refuses operators of the domain: %v", ferr), map[string]any{"ops": opsRaw(ops)})
			}
		}
		h.e.Dist["writer-refuses:"+cl]++
		return
	}
	got := realScan(text)
	if cl != "outside" && got != want {
		sig := "roundtrip"
		if cl != "ok" {
			sig = cl
		}
		// common.Env keeps at most 200 failing cases: a few per finding class are enough
		h.nsig[sig]++
		if sig == "roundtrip" || h.nsig[sig] <= 5 {
			h.e.Fail(sig, fmt.Sprintf("scan(Format(ops)) != ops: text %q scans to %s, want %s", text, got, want),
				map[string]any{"ops": opsRaw(ops), "text": hx(text), "got": got, "want": want})
		}
	}
	// the result does not depend on how the source delivers the bytes
	if cl == "ok" && got == want {
		for _, sizes := range chunkings {
			h.e.Evaluations++
			if g := realScanChunked(text, sizes); g != want {
				h.nsig["chunking"]++
				if h.nsig["chunking"] <= 5 {
					h.e.Fail("chunking", fmt.Sprintf("scan(Format(ops)) depends on the read sizes %v of the source: text %q scans to %s, want %s", sizes, text, g, want),
						map[string]any{"ops": opsRaw(ops), "text": hx(text), "sizes": sizes, "got": g, "want": want})
				}
				break
			}
		}
	}
	// (a) real writer -> model scanner
	id := h.id("a")
	h.e.Line("cases.txt", "%s CS %s", id, hx(text))
	if cl == "ok" {
		h.e.Line("impl.obs", "%s %s", id, want)
	} else {
		h.e.Line("impl.obs", "%s %s", id, got)
	}
	// (b) model writer -> real scanner
	id = h.id("b")
	h.e.Line("cases_b.txt", "%s CF %s", id, opsRaw(ops))
	if cl == "ok" {
		h.e.Line("want_b.obs", "%s %s", id, want)
	} else {
		// outside the guard the two writers must still produce text that scans alike
		h.e.Line("want_b.obs", "%s %s", id, got)
	}
	h.e.Sample(4, map[string]any{"kind": class, "ops": opsRaw(ops)})
	// split at every operator boundary: two content streams joined by SegmentsReader
	if cl == "ok" && len(ops) >= 2 {
		k := 1 + h.e.Rand.IntN(len(ops)-1)
		rc := page.SegmentsReader([]page.Segment{&content.Operators{Ops: ops[:k]}, &content.Operators{Ops: ops[k:]}})
		joined, err := io.ReadAll(rc)
		rc.Close()
		if err != nil {
			h.e.Fail("split", "SegmentsReader fails: "+err.Error(), map[string]any{"ops": opsRaw(ops)})
			return
		}
		if got := realScan(joined); got != want {
			h.e.Fail("split", fmt.Sprintf("operators split over two streams at %d: %q scans to %s, want %s", k, joined, got, want),
				map[string]any{"ops": opsRaw(ops), "split": k, "text": hx(joined)})
		}
		id := h.id("a")
		h.e.Line("cases.txt", "%s CS %s", id, hx(joined))
		h.e.Line("impl.obs", "%s %s", id, want)
		// three segments, possibly empty ones at the ends
		k2 := k + h.e.Rand.IntN(len(ops)-k+1)
		k1 := h.e.Rand.IntN(k + 1)
		segs := []page.Segment{&content.Operators{Ops: ops[:k1]}, &content.Operators{Ops: ops[k1:k2]}, &content.Operators{Ops: ops[k2:]}, &content.Operators{}}
		rc = page.SegmentsReader(segs)
		joined, err = io.ReadAll(rc)
		rc.Close()
		if err == nil {
			if got := realScan(joined); got != want {
				h.nsig["split"]++
				if h.nsig["split"] <= 5 {
					h.e.Fail("split", fmt.Sprintf("operators split over streams at %d,%d: %q scans to %s, want %s", k1, k2, joined, got, want),
						map[string]any{"ops": opsRaw(ops), "split": []int{k1, k2}, "text": hx(joined)})
				}
			}
		}
	}
}

// text: arbitrary bytes through both scanners, (c).
func (h *harness) text(data []byte, class string) {
	id := h.id("c")
	obs := realScan(data)
	h.e.Line("cases.txt", "%s CS %s", id, hx(data))
	h.e.Line("impl.obs", "%s %s", id, obs)
	h.e.Count(true, "c"+string(data), class)
	if obs == "panic" {
		h.e.Fail("scanner-panic", fmt.Sprintf("the content scanner panics on %q", data), map[string]any{"text": hx(data)})
	}
}

// ---------------------------------------------------------------------------
// generators

var alpha = []byte{'(', ')', '\\', '\r', '\n', '#', '/', '%', '<', '>', '[', ']', ' ', 0, 'a', '0', 0x7f, 0x80, 0xff, '{', '}', 'E', 'I'}

func (h *harness) rbytes(max int) []byte {
	r := h.e.Rand
	n := r.IntN(max + 1)
	if r.IntN(4) == 0 {
		n = r.IntN(4)
	}
	b := make([]byte, n)
	mode := r.IntN(4)
	for i := range b {
		switch mode {
		case 0:
			b[i] = alpha[r.IntN(len(alpha))]
		case 1:
			b[i] = byte(r.IntN(256))
		case 2:
			b[i] = byte(0x21 + r.IntN(0x5e))
		default:
			if r.IntN(3) == 0 {
				b[i] = alpha[r.IntN(len(alpha))]
			} else {
				b[i] = byte('a' + r.IntN(26))
			}
		}
	}
	return b
}

var specialInts = []int64{0, 1, -1, 7, 9, 10, -10, 65535, 65536, 1<<24 - 1, 1 << 24, math.MaxInt32, math.MinInt32, math.MaxInt64, math.MinInt64, math.MaxInt64 - 1, math.MinInt64 + 1, 1e18, -1e18}

var specialReals = []float64{0, math.Copysign(0, -1), 0.5, -0.5, 1, -1, 2, 1e15, 1e21, 1e22, 123456789.125, 1.0 / 3, -2.0 / 3, 5e-324, 2.2250738585072014e-308,
	math.MaxFloat64, -math.MaxFloat64, math.MaxFloat32, math.SmallestNonzeroFloat32, 9007199254740993, 0.1, 0.30000000000000004, 1e-7, 123456.7, 1e300, 4.35, 17.000000000000004}

func (h *harness) rint() pdf.Integer {
	r := h.e.Rand
	switch r.IntN(4) {
	case 0:
		return pdf.Integer(specialInts[r.IntN(len(specialInts))])
	case 1:
		return pdf.Integer(r.IntN(2000) - 1000)
	case 2:
		return pdf.Integer(int64(r.Uint64()))
	}
	return pdf.Integer(int64(r.Uint64()) >> uint(r.IntN(64)))
}

func (h *harness) rreal() pdf.Real {
	r := h.e.Rand
	switch r.IntN(6) {
	case 0:
		return pdf.Real(specialReals[r.IntN(len(specialReals))])
	case 4:
		// full 53-bit mantissas of moderate magnitude: 15 to 17 significant digits, short text
		x := r.Float64() * math.Pow10(r.IntN(9)-4)
		if r.IntN(2) == 0 {
			x = -x
		}
		return pdf.Real(x)
	case 5:
		x := math.Pow10(14+r.IntN(7)) * (1 + float64(r.IntN(9000))/1000)
		if r.IntN(2) == 0 {
			x = -x
		}
		return pdf.Real(math.Trunc(x))
	case 1:
		return pdf.Real(float64(r.IntN(200000)-100000) / 100)
	case 2:
		return pdf.Real(float64(r.IntN(2000) - 1000))
	}
	for {
		f := math.Float64frombits(r.Uint64())
		if !math.IsNaN(f) && !math.IsInf(f, 0) {
			return pdf.Real(f)
		}
	}
}

func (h *harness) robj(depth int) pdf.Object {
	r := h.e.Rand
	k := r.IntN(13)
	if depth <= 0 && k >= 9 {
		k = r.IntN(9)
	}
	switch k {
	case 0:
		return nil
	case 1:
		return pdf.Boolean(r.IntN(2) == 0)
	case 2, 3:
		return h.rint()
	case 4:
		return h.rreal()
	case 5:
		return pdf.Name(h.rbytes(8))
	case 6, 7:
		return pdf.String(h.rbytes(12))
	case 8:
		if r.IntN(2) == 0 {
			return pdf.Array(nil)
		}
		return pdf.Dict(nil)
	case 9, 10:
		n := r.IntN(5)
		a := pdf.Array{}
		for i := 0; i < n; i++ {
			a = append(a, h.robj(depth-1))
		}
		return a
	default:
		n := r.IntN(4)
		d := pdf.Dict{}
		for i := 0; i < n; i++ {
			if r.IntN(2) == 0 {
				d[pdf.Name(h.rbytes(5))] = h.robj(depth - 1)
			} else {
				d[[]pdf.Name{"Type", "Subtype", "A", "MCID", "K#", ""}[r.IntN(6)]] = h.robj(depth - 1)
			}
		}
		return d
	}
}

var knownOps = []content.OpName{"q", "Q", "cm", "w", "J", "j", "M", "d", "ri", "i", "gs", "m", "l", "c", "v", "y", "h", "re",
	"S", "s", "f", "F", "f*", "B", "B*", "b", "b*", "n", "W", "W*", "BT", "ET", "Tc", "Tw", "Tz", "TL", "Tf", "Tr", "Ts",
	"Td", "TD", "Tm", "T*", "Tj", "TJ", "'", "\"", "d0", "d1", "CS", "cs", "SC", "SCN", "sc", "scn", "G", "g", "RG", "rg", "K", "k",
	"sh", "Do", "MP", "DP", "BMC", "BDC", "EMC", "BX", "EX"}

var oddOps = []content.OpName{"xyz", "foo*", "a.b", "EIx", "BIx", "nullx", "truefalse", "R", "obj", "W*n", "EI", "ID", "T", "#", "a#20b", "\x80\xff", "-", "+", ".", "1a", "--1", "1.2.3", "e5", "*", "!", "~>"}

func (h *harness) rname() content.OpName {
	r := h.e.Rand
	switch r.IntN(10) {
	case 0:
		return oddOps[r.IntN(len(oddOps))]
	case 1:
		b := h.rbytes(5)
		return content.OpName(b)
	}
	return knownOps[r.IntN(len(knownOps))]
}

func (h *harness) rop() content.Operator {
	r := h.e.Rand
	op := content.Operator{Name: h.rname()}
	n := r.IntN(5)
	if r.IntN(40) == 0 {
		n = 61 + r.IntN(5)
	}
	for i := 0; i < n; i++ {
		op.Args = append(op.Args, h.robj(3))
	}
	return op
}

var imgData = []string{"", "x", "EI", "EI ", " EI", "\nEI", "\nEI ", "a\nEI b", "a\rEI\nb", "a\nEIb", "a\n EI ", "\n", "\r\n", " x", "%abc~>", "abc~>", "a\nEI/", "a\nEI\x00", "ab\nE", "ab\nEI", "EI\nEI\n", "\x00\xff"}

func (h *harness) rimage() content.Operator {
	r := h.e.Rand
	d := pdf.Dict{}
	wk, hk := pdf.Name("W"), pdf.Name("H")
	if r.IntN(4) == 0 {
		wk = "Width"
	}
	if r.IntN(4) == 0 {
		hk = "Height"
	}
	switch r.IntN(8) {
	case 0:
		d[wk], d[hk] = pdf.Integer(512), pdf.Integer(512)
	case 1:
		d[wk], d[hk] = pdf.Integer(65536), pdf.Integer(4)
	case 2:
		d[wk], d[hk] = pdf.Real(2.5), pdf.Integer(3)
	case 3:
		d[wk], d[hk] = pdf.Integer(r.IntN(3)), pdf.Integer(r.IntN(3)) // may be invalid
	default:
		d[wk], d[hk] = pdf.Integer(1+r.IntN(16)), pdf.Integer(1+r.IntN(16))
	}
	if r.IntN(2) == 0 {
		d["BPC"] = pdf.Integer(8)
	}
	if r.IntN(2) == 0 {
		d["CS"] = []pdf.Object{pdf.Name("G"), pdf.Name("RGB"), pdf.Array{pdf.Name("I"), pdf.Name("RGB"), pdf.Integer(1), pdf.String("\x00\xff")}}[r.IntN(3)]
	}
	switch r.IntN(6) {
	case 0:
		d["F"] = pdf.Name("A85")
	case 1:
		d["F"] = pdf.Array{pdf.Name("Fl"), pdf.Name("AHx")}
	case 2:
		d["Filter"] = pdf.Name("DCT")
	case 3:
		d["F"] = pdf.Array{pdf.Name("A85"), pdf.Name("Fl")}
	}
	switch r.IntN(8) {
	case 0:
		d["D"] = pdf.Array{}
	case 1:
		d["D"] = pdf.Array{pdf.Integer(0), pdf.Real(1)}
	case 2:
		d["DP"] = pdf.Dict{"K": pdf.Integer(-1), "A": pdf.Array{pdf.Array{}}}
	case 3:
		d["IM"] = pdf.Boolean(true)
	case 4:
		d[pdf.Name(h.rbytes(3))] = h.robj(2)
	}
	var data []byte
	switch r.IntN(4) {
	case 0:
		data = []byte(imgData[r.IntN(len(imgData))])
	case 1:
		data = h.rbytes(24)
	case 2:
		data = append(append(h.rbytes(6), imgData[r.IntN(len(imgData))]...), h.rbytes(6)...)
	default:
		n := r.IntN(40)
		if r.IntN(30) == 0 {
			n = 4090 + r.IntN(10)
		}
		data = make([]byte, n)
		for i := range data {
			data[i] = byte(r.IntN(256))
		}
	}
	switch r.IntN(4) {
	case 0:
		d["L"] = pdf.Integer(len(data))
	case 1:
		if r.IntN(4) == 0 {
			d["Length"] = pdf.Integer(len(data) + r.IntN(3) - 1)
		} else {
			d["Length"] = pdf.Integer(len(data))
		}
	}
	return content.Operator{Name: content.OpInlineImage, Args: []pdf.Object{d, pdf.String(data)}}
}

func (h *harness) rops() []content.Operator {
	r := h.e.Rand
	var ops []content.Operator
	for i := 1 + r.IntN(4); i > 0; i-- {
		switch r.IntN(12) {
		case 0:
			ops = append(ops, h.rimage())
		case 1:
			ops = append(ops, content.Operator{Name: content.OpRawContent, Args: []pdf.Object{pdf.String("%" + string(h.rbytes(6)))}})
		default:
			ops = append(ops, h.rop())
		}
	}
	return ops
}

var corpusTexts = []string{
	"q 1 0 0 1 0 0 cm Q", "BT /F1 12 Tf (a) Tj ET", "[(a) -200 (b)] TJ", "<</A 1>> BDC EMC", "/P <</MCID 0>> BDC",
	"BI /W 1 /H 1 ID x\nEI ", "BI /W 1 /H 1 ID x EI", "BI /W 1 /H 1 /L 3 ID a\nE\nEI\n", "BI /W 1 /H 1 ID\nab\nEI cd\nEI\n", "BI /W 0 /H 1 ID x\nEI\n", "BI /W 1 /H 1 /F /A85 ID\n %x\nabc~>\nEI\n",
	"BI /W 1 /H 1 /D [] ID x\nEI\n", "BI /W 1 /H 1 /D [[] [1]] ID x\nEI\n", "BI /W 1 /H 1 /D << /A [] >> ID x\nEI\n", "BI /W 1 ID", "BI", "BI /W", "BI 1 2 ID", "BI /W 1 /H 1 ID x\nEIx\nEI\n", "BI /W 1 /H 1 ID x\nEI", "BI /W 1 /H 1 ID x\nE",
	"BI /W 1 /H 1 /L 5000 ID x\nEI\n", "BI /W 1 /H 1 /L 2999999999999999999999 ID\nab\nEI\n", "BI /W 1 /H 1 /L 9223372036854775807. ID\nab\nEI\n", "BI /W 1 /H 1 /L 9223372036854775295. ID\nab\nEI\n",
	"BI /W 1 /H 1 /L -2999999999999999999999 ID\nab\nEI\n", "BI /W 99999999999999999999 /H 1 ID\nab\nEI\n", "BI /W 1 /H 1 /L 2.9 ID\nab\nEI\n", "BI /W 1 /H 1 /L 2.999999999999999999999 ID\nab\nEI\n", "BI /W 1 /H 1 /L 2.9999999999999996 ID\nab\nEI\n",
	"BI /W 0.99999999999999999999 /H .9999999999999999999999 ID\nab\nEI\n", "BI /W 1 /H 1 /L 9223372036854775295.5 ID\nab\nEI\n", "BI /W 1.0000000000000000000001 /H 1 /L 2.0000000000000004440892098500626 ID\nab\nEI\n", "BI /W 1 /H 1 /L 2 ID x", "BI /W 600 /H 600 ID x\nEI\n", "BI /W 1.9 /H 1 ID x\nEI\n", "BI /W 1 /H 1 /X [[[[[[[[[[[[1]]]]]]]]]]]] ID x\nEI\n", "BI /W 1 /H 1 /X [q Q] ID x\nEI\n",
	"% comment\nq", "q % comment\nQ", "%a\r%b\nq", "1 % c\n2 m", "(a) % c", "[1 % c\n2] TJ",
	"[1 2", "[1 2 q", "<</A 1", "<< /A >> x", "<< 1 2 >> x", "<< /A 1 /A 2 >> x", "<< /A null >> x", "] x", ">> x", "[ >> ] x", "<< ] >> x", "[[1] [2 [3]]] x", "[ q ] x", "[ BI ] x",
	"1 2 3", "q", "", " ", "\n", "null x", "true false x", "nullx", "truefalse", "1x", "x1", "1.5.5 x", "+ x", "- x", ". x", "-.5 x", "+5 x", "1e5 x", "0x10 x", "--1 x", "1..2 x", "99999999999999999999 x", "1.0 x", "1. x", ".5 x",
	"(a\\)b) x", "(a(b)c) x", "(a\\053) x", "(a\r\nb) x", "(a\\\r\nb) x", "(unterminated", "<41 42> x", "<4> x", "<4x> x", "<4", "< 4 1 > x", "<41>> x", "/A#41 x", "/A#4 x", "/# x", "/ x", "/A/B x", "//x", "/A(b)Tj",
	"{ x } y", "a{b}c", ") x", "> x", "< x", "'", "\"", "(a)'", "1 2 (a)\"", "T* Tj", "f* B* b*", "W* n", "d0 d1",
	"\x00q\x00", "q\tQ\fq\rQ", "q\x80", "\xffq",
}

func (h *harness) mutate(t []byte, pool [][]byte) []byte {
	r := h.e.Rand
	out := append([]byte(nil), t...)
	inserts := []string{" q", " Q", "BI", " ID ", "\nEI ", "EI", "<<", ">>", "]", "[", "%c\n", "%", "#", "\\", "+.", "-", "1.2.3", "99999999999999999999", "null", "true", "false", "(", ")", "<", ">", "/", " ", "\r", "\n", ".", "#4", "#41", "\\r", "\\\r\n", "\\053", "\x00", "/W 1", "/H 1", "/L 2", "/F/A85", "{", "}", "*", "'", "\""}
	for k := r.IntN(3) + 1; k > 0; k-- {
		switch r.IntN(7) {
		case 0: // delete a byte
			if len(out) > 0 {
				i := r.IntN(len(out))
				out = append(out[:i], out[i+1:]...)
			}
		case 1: // insert a byte
			i := r.IntN(len(out) + 1)
			b := alpha[r.IntN(len(alpha))]
			if r.IntN(3) == 0 {
				b = byte(r.IntN(256))
			}
			out = append(out[:i], append([]byte{b}, out[i:]...)...)
		case 2: // replace a byte
			if len(out) > 0 {
				out[r.IntN(len(out))] = alpha[r.IntN(len(alpha))]
			}
		case 3: // truncate
			if len(out) > 0 {
				out = out[:r.IntN(len(out))]
			}
		case 4: // insert a token
			i := r.IntN(len(out) + 1)
			tok := inserts[r.IntN(len(inserts))]
			out = append(out[:i], append([]byte(tok), out[i:]...)...)
		case 5: // splice with another text
			if len(pool) > 0 {
				o := pool[r.IntN(len(pool))]
				i := r.IntN(len(out) + 1)
				j := r.IntN(len(o) + 1)
				out = append(append([]byte(nil), out[:i]...), o[j:]...)
			}
		default: // duplicate a segment
			if len(out) > 1 {
				i := r.IntN(len(out))
				j := i + r.IntN(len(out)-i)
				seg := append([]byte(nil), out[i:j]...)
				out = append(out[:j], append(seg, out[j:]...)...)
			}
		}
	}
	return out
}

// ---------------------------------------------------------------------------
// nesting state and Builder

var ctxs = []content.Object{content.ObjPage, content.ObjPath, content.ObjText, content.ObjClippingPath, content.ObjType3Start}

func ctxName(c content.Object) string {
	switch c {
	case content.ObjPage:
		return "page"
	case content.ObjPath:
		return "path"
	case content.ObjText:
		return "text"
	case content.ObjClippingPath:
		return "clip"
	case content.ObjType3Start:
		return "t3start"
	}
	return "?"
}

// step applies one operator to the real state without the graphics-state requirements.
func step(s *content.State, name content.OpName) (err error) {
	defer func() {
		if r := recover(); r != nil {
			err = fmt.Errorf("panic: %v", r)
		}
	}()
	if err := s.CheckOperatorAllowed(name); err != nil {
		return err
	}
	return s.ApplyStateChanges(name, nil)
}

func nestOf(s *content.State) (string, int) {
	cl := s.ClosingOperators()
	var sb []byte
	for _, c := range cl {
		switch c {
		case content.OpPopGraphicsState:
			sb = append(sb, 'q')
		case content.OpTextEnd:
			sb = append(sb, 'T')
		case content.OpEndMarkedContent:
			sb = append(sb, 'M')
		case content.OpEndCompatibility:
			sb = append(sb, 'X')
		}
	}
	// outermost first
	for i, j := 0, len(sb)-1; i < j; i, j = i+1, j-1 {
		sb[i], sb[j] = sb[j], sb[i]
	}
	return string(sb), len(cl)
}

// ---------------------------------------------------------------------------
// The allowed-context table of the SPECIFICATION (ISO 32000 Figure 9 "Graphics objects" and the
// operator tables), written by hand: Allowed mask (page 1, path 2, text 4, clipping path 8,
// Type 3 start 16) and the object the operator moves to (0: none).  It is the same table as
// State.v's op_table (every nesting case is also run through the Coq model and compared, so the
// two copies cannot drift apart), and it is NOT read from the implementation: the oracle "what
// the Builder accepted is a valid sequence" judges with this table.
var specTable = map[string][2]int{
	"q": {5, 0},
	"Q": {5, 0},
	"cm": {1, 0},
	"w": {5, 0},
	"J": {5, 0},
	"j": {5, 0},
	"M": {5, 0},
	"d": {5, 0},
	"ri": {5, 0},
	"i": {5, 0},
	"gs": {5, 0},
	"m": {3, 2},
	"l": {2, 0},
	"c": {2, 0},
	"v": {2, 0},
	"y": {2, 0},
	"h": {2, 0},
	"re": {3, 2},
	"S": {10, 1},
	"s": {10, 1},
	"f": {10, 1},
	"F": {10, 1},
	"f*": {10, 1},
	"B": {10, 1},
	"B*": {10, 1},
	"b": {10, 1},
	"b*": {10, 1},
	"n": {10, 1},
	"W": {2, 8},
	"W*": {2, 8},
	"BT": {1, 4},
	"ET": {4, 1},
	"Tc": {31, 0},
	"Tw": {31, 0},
	"Tz": {31, 0},
	"TL": {31, 0},
	"Tf": {31, 0},
	"Tr": {31, 0},
	"Ts": {31, 0},
	"Td": {4, 0},
	"TD": {4, 0},
	"Tm": {4, 0},
	"T*": {4, 0},
	"Tj": {4, 0},
	"TJ": {4, 0},
	"'": {4, 0},
	"\"": {4, 0},
	"d0": {16, 1},
	"d1": {16, 1},
	"CS": {5, 0},
	"cs": {5, 0},
	"SC": {5, 0},
	"SCN": {5, 0},
	"sc": {5, 0},
	"scn": {5, 0},
	"G": {5, 0},
	"g": {5, 0},
	"RG": {5, 0},
	"rg": {5, 0},
	"K": {5, 0},
	"k": {5, 0},
	"sh": {1, 0},
	"BI": {1, 0},
	"ID": {1, 0},
	"EI": {1, 0},
	"Do": {1, 0},
	"MP": {5, 0},
	"DP": {5, 0},
	"BMC": {5, 0},
	"BDC": {5, 0},
	"EMC": {5, 0},
	"BX": {31, 0},
	"EX": {31, 0},
	"%raw%": {31, 0},
	"%image%": {1, 0},
}

type specState struct {
	cur  int    // 1 page, 2 path, 4 text, 8 clipping path, 16 Type 3 start
	nest []byte // innermost last: 'q', 'T', 'M', 'X'
	pre2 bool
}

func (s *specState) pop(k byte) bool {
	for i := len(s.nest) - 1; i >= 0; i-- {
		if s.nest[i] == k {
			s.nest = append(s.nest[:i], s.nest[i+1:]...)
			return true
		}
	}
	return false
}

// apply: State.v apply_op.
func (s *specState) apply(name string) bool {
	mask, trans := 31, 0
	switch name {
	case "q", "Q", "BMC", "BDC", "EMC":
		mask = 5
	case "BT":
		mask = 1
	case "ET":
		mask = 4
	case "BX", "EX":
		mask = 31
	default:
		if e, ok := specTable[name]; ok {
			mask, trans = e[0], e[1]
		}
	}
	if mask&s.cur == 0 {
		return false
	}
	switch name {
	case "q":
		nq := 0
		for _, c := range s.nest {
			if c == 'q' {
				nq++
			}
		}
		if s.pre2 && (s.cur == 4 || nq >= 28) {
			return false
		}
		s.nest = append(s.nest, 'q')
	case "Q":
		if s.pre2 && s.cur == 4 {
			return false
		}
		return s.pop('q')
	case "BT":
		s.cur = 4
		s.nest = append(s.nest, 'T')
	case "ET":
		if !s.pop('T') {
			return false
		}
		s.cur = 1
	case "BMC", "BDC":
		s.nest = append(s.nest, 'M')
	case "EMC":
		return s.pop('M')
	case "BX":
		s.nest = append(s.nest, 'X')
	case "EX":
		return s.pop('X')
	default:
		if trans != 0 {
			s.cur = trans
		}
	}
	return true
}

// specRun: the index of the first operator the specification's table rejects (-1: none), and
// the observation line of the model for the sequence (as the driver prints it for NS).
func specRun(names []content.OpName, pre2 bool) (int, string) {
	s := &specState{cur: 1, pre2: pre2}
	rej := -1
	for i, n := range names {
		if !s.apply(string(n)) {
			rej = i
			break
		}
	}
	cur := map[int]string{1: "page", 2: "path", 4: "text", 8: "clip", 16: "t3start"}[s.cur]
	nest := string(s.nest)
	// ClosingOperators: "n" for an open path, then one closer per frame, innermost first
	nclose := len(s.nest)
	closed := true
	if s.cur == 2 || s.cur == 8 {
		nclose++
		closed = s.apply("n")
	}
	for closed && len(s.nest) > 0 {
		c := map[byte]string{'q': "Q", 'T': "ET", 'M': "EMC", 'X': "EX"}[s.nest[len(s.nest)-1]]
		closed = s.apply(c)
	}
	closed = closed && len(s.nest) == 0 && s.cur == 1
	b2s := map[bool]string{true: "1", false: "0"}
	return rej, fmt.Sprintf("rej=%d cur=%s nest=%s closers=%d closed=%s otherok=1", rej, cur, nest, nclose, b2s[closed])
}

// builderValid: the operators of a stream the Builder accepted (Err == nil) form a valid
// sequence by the specification's table.
func (h *harness) builderValid(ops []content.Operator, v pdf.Version, calls []string) bool {
	names := make([]content.OpName, len(ops))
	for i, op := range ops {
		names[i] = op.Name
	}
	h.e.Evaluations++
	rej, _ := specRun(names, v < pdf.V2_0)
	if rej < 0 {
		return true
	}
	h.nsig["builder-accepts-invalid"]++
	if h.nsig["builder-accepts-invalid"] <= 5 {
		ctx := names[:rej]
		h.e.Fail("builder-accepts-invalid", fmt.Sprintf("the Builder (version %v) accepts calls %v without error, but the stream is not a valid operator sequence: operator %d (%s) is not allowed after %v (allowed-context table of the specification)", v, calls, rej, names[rej], ctx),
			map[string]any{"calls": calls, "version": v.String(), "ops": opsRaw(ops), "rejected": rej})
	}
	return false
}

// builderContexts: every Builder call in every object context.
func (h *harness) builderContexts() {
	setups := [][]int{{}, {4}, {8}, {8, 15}, {6}, {0}, {4, 6}, {6, 4}, {0, 4}, {10}, {10, 29}}
	for _, v := range []pdf.Version{pdf.V1_3, pdf.V1_7, pdf.V2_0} {
		for _, setup := range setups {
			for k := 0; k <= 38; k++ {
				b := builder.New(content.Page, nil, v)
				var calls []string
				for _, c := range setup {
					h.bcall(b, c)
					calls = append(calls, strconv.Itoa(c))
				}
				if b.Err != nil {
					continue
				}
				h.bcall(b, k)
				calls = append(calls, strconv.Itoa(k))
				h.e.Count(true, fmt.Sprintf("ctx%v%v", v, calls), "builder-contexts")
				if b.Err != nil {
					h.e.Dist["builder-contexts:rejected"]++
					continue
				}
				h.builderValid(append([]content.Operator(nil), b.Stream...), v, calls)
			}
		}
	}
}

// nesting: one operator-name sequence through the real State and the model.
func (h *harness) nesting(names []content.OpName, pre2 bool, class string) {
	s := content.NewState(content.Page, nil)
	s.Usable = graphics.AllBits
	if pre2 {
		s.Version = pdf.V1_7
	} else {
		s.Version = pdf.V2_0
	}
	rej := -1
	for i, n := range names {
		if err := step(s, n); err != nil {
			rej = i
			break
		}
	}
	cur := ctxName(s.CurrentObject)
	nest, nclose := nestOf(s)
	closed := true
	for _, c := range s.ClosingOperators() {
		if err := step(s, c); err != nil {
			closed = false
			break
		}
	}
	if closed && s.CanClose() != nil {
		closed = false
	}
	var hs []string
	for _, n := range names {
		hs = append(hs, hx([]byte(n)))
	}
	// oracle: a sequence the State accepted is balanced after ClosingOperators
	if !closed && cur != "t3start" {
		h.e.Fail("unbalanced", fmt.Sprintf("after %v (accepted up to %d) the closing operators do not lead to a closable state", names, rej),
			map[string]any{"names": hs, "pre2": pre2})
	}
	id := h.id("s")
	p := 0
	if pre2 {
		p = 1
	}
	h.e.Line("cases.txt", "%s NS %d %s", id, p, strings.Join(hs, " "))
	b2s := func(b bool) string {
		if b {
			return "1"
		}
		return "0"
	}
	h.e.Line("impl.obs", "%s rej=%d cur=%s nest=%s closers=%d closed=%s otherok=1", id, rej, cur, nest, nclose, b2s(closed))
	// the hand-written table of the specification against the model
	_, sobs := specRun(names, pre2)
	id = h.id("S")
	h.e.Line("cases.txt", "%s NS %d %s", id, p, strings.Join(hs, " "))
	h.e.Line("impl.obs", "%s %s", id, sobs)
	h.e.Count(true, fmt.Sprintf("ns%v%v", pre2, names), class)
}

// table: the Allowed mask and the Transition of one operator, probed on the real State.
func (h *harness) table(name content.OpName) {
	mask := 0
	first := content.Object(0)
	for _, c := range ctxs {
		s := content.NewState(content.Page, nil)
		s.CurrentObject = c
		if s.CheckOperatorAllowed(name) == nil {
			mask |= int(c)
			if first == 0 {
				first = c
			}
		}
	}
	trans := "-"
	if first != 0 {
		s := content.NewState(content.Page, nil)
		s.Usable = graphics.AllBits
		// frames for the closing operators
		s.Push()
		s.TextBegin()
		s.MarkedContentBegin()
		s.CompatibilityBegin()
		s.CurrentObject = first
		func() {
			defer func() { recover() }()
			if err := s.ApplyStateChanges(name, nil); err == nil && s.CurrentObject != first {
				trans = ctxName(s.CurrentObject)
			}
		}()
	}
	id := h.id("t")
	h.e.Line("cases.txt", "%s NT %s", id, hx([]byte(name)))
	h.e.Line("impl.obs", "%s mask=%d trans=%s", id, mask, trans)
	h.e.Count(true, "nt"+string(name), "operator-table")
}

var nestNames = []content.OpName{"q", "Q", "BT", "ET", "BMC", "BDC", "EMC", "BX", "EX", "q", "Q", "BT", "ET", "m", "l", "re", "h", "S", "f", "n", "W", "W*", "Tj", "Td", "Tf", "cm", "w", "MP", "Do", "sh", "xyz", "d0", "BI", "gs", "%raw%"}

func (h *harness) rnames(n int) []content.OpName {
	var res []content.OpName
	for i := 0; i < n; i++ {
		res = append(res, nestNames[h.e.Rand.IntN(len(nestNames))])
	}
	return res
}

// bcall performs one Builder call (a panic is recorded as the Builder's error).
func (h *harness) bcall(b *builder.Builder, k int) {
	r := h.e.Rand
	defer func() {
		if rec := recover(); rec != nil && b.Err == nil {
			b.Err = fmt.Errorf("panic: %v", rec)
		}
	}()
	switch k {
	case 0, 1:
		b.PushGraphicsState()
	case 2, 3:
		b.PopGraphicsState()
	case 4:
		b.TextBegin()
	case 5:
		b.TextEnd()
	case 6:
		b.MarkedContentStart(&graphics.MarkedContent{Tag: pdf.Name("Span")})
	case 7:
		b.MarkedContentEnd()
	case 8:
		b.MoveTo(float64(r.IntN(100)), float64(r.IntN(100))/4)
	case 9:
		b.LineTo(float64(r.IntN(100)), float64(r.IntN(100))/3)
	case 10:
		b.Rectangle(1, 2, 30.5, 40)
	case 11:
		b.ClosePath()
	case 12:
		b.Stroke()
	case 13:
		b.Fill()
	case 14:
		b.EndPath()
	case 15:
		b.ClipNonZero()
	case 16:
		b.SetLineWidth(float64(r.IntN(50)) / 7)
	case 17:
		b.TextFirstLine(float64(r.IntN(100)), -12.5)
	case 18:
		b.MarkedContentPoint(&graphics.MarkedContent{Tag: pdf.Name("P#1")})
	case 19:
		b.TextShowRaw(pdf.String(h.rbytes(6)))
	case 20:
		b.SetLineCap(graphics.LineCapStyle(r.IntN(3)))
	case 21:
		b.SetLineJoin(graphics.LineJoinStyle(r.IntN(3)))
	case 22:
		b.SetMiterLimit(1 + float64(r.IntN(90))/9)
	case 23:
		b.SetLineDash([]float64{float64(r.IntN(5)), 1.5}, float64(r.IntN(3)))
	case 24:
		b.Transform(matrix.Translate(float64(r.IntN(100))/3, -7.25))
	case 25:
		b.SetFillColor(color.DeviceGray(float64(r.IntN(11)) / 10))
	case 26:
		b.CurveTo(1, 2.5, 3.25, 4, float64(r.IntN(50))/7, 6)
	case 27:
		b.CloseAndStroke()
	case 28:
		b.FillAndStroke()
	case 29:
		b.ClipEvenOdd()
	case 30:
		b.SetStrokeColor(color.DeviceRGB{0.1, float64(r.IntN(11)) / 10, 1})
	case 31:
		b.Circle(10, 20.5, float64(1+r.IntN(30))/3)
	case 32:
		b.FillAndStrokeEvenOdd()
	case 33:
		b.TextSecondLine(float64(r.IntN(20)), -14.4)
	case 37:
		for i := 0; i < 29; i++ {
			b.PushGraphicsState()
		}
	case 38:
		for i := 0; i < 28; i++ {
			b.PushGraphicsState()
		}
	case 34:
		data := []byte(imgData[r.IntN(len(imgData))])
		if r.IntN(2) == 0 {
			data = h.rbytes(20)
		}
		b.DrawInlineImageRaw(pdf.Dict{"W": pdf.Integer(1 + r.IntN(4)), "H": pdf.Integer(2), "BPC": pdf.Integer(8)}, data)
	}
}

// closeAll issues the Builder calls that close what is open (for Build, whose function must
// leave a closable state).
func (h *harness) closeAll(b *builder.Builder) {
	for _, c := range b.State.ClosingOperators() {
		switch c {
		case content.OpEndPath:
			b.EndPath()
		case content.OpPopGraphicsState:
			b.PopGraphicsState()
		case content.OpTextEnd:
			b.TextEnd()
		case content.OpEndMarkedContent:
			b.MarkedContentEnd()
		}
	}
}

// pickCall chooses a Builder call: mostly one the current state accepts; in probing mode
// often one that the rules of the PDF version forbid (q inside a text object, deep q nesting).
func (h *harness) pickCall(b *builder.Builder, v pdf.Version, probing bool) int {
	r := h.e.Rand
	k := r.IntN(35)
	if probing && r.IntN(3) == 0 {
		return []int{0, 0, 2, 37, 38, 4}[r.IntN(6)]
	}
	if r.IntN(8) > 0 {
		hasQ, hasM := false, false
		for _, c := range b.State.ClosingOperators() {
			hasQ = hasQ || c == content.OpPopGraphicsState
			hasM = hasM || c == content.OpEndMarkedContent
		}
		var opts []int
		switch b.State.CurrentObject {
		case content.ObjPage:
			opts = []int{0, 1, 4, 6, 8, 10, 16, 18, 20, 21, 22, 23, 24, 25, 30, 31, 34, 34}
			if hasQ {
				opts = append(opts, 2, 3)
			}
			if hasM {
				opts = append(opts, 7)
			}
		case content.ObjPath:
			opts = []int{8, 9, 9, 10, 11, 12, 13, 14, 15, 26, 27, 28, 29, 32}
		case content.ObjClippingPath:
			opts = []int{12, 13, 14}
		case content.ObjText:
			opts = []int{5, 5, 6, 17, 17, 18, 20, 25, 33, 30}
			if hasM {
				opts = append(opts, 7)
			}
			if v >= pdf.V2_0 {
				opts = append(opts, 0)
				if hasQ {
					opts = append(opts, 2)
				}
			}
		}
		if len(opts) > 0 {
			k = opts[r.IntN(len(opts))]
		}
	}
	return k
}

// checkBuilderStream: a stream the Builder produced without error is, for a fresh State of the
// Builder's version, a valid operator sequence which is balanced after ClosingOperators
// (closed already when it comes from Build).
func (h *harness) checkBuilderStream(ops []content.Operator, v pdf.Version, calls []string, mustBeClosed bool) bool {
	s := content.NewState(content.Page, nil)
	s.Version = v
	for i, op := range ops {
		if err := s.ApplyOperator(op.Name, op.Args); err != nil {
			h.nsig["builder-output-invalid"]++
			if h.nsig["builder-output-invalid"] <= 5 {
				h.e.Fail("builder-output-invalid", fmt.Sprintf("Builder (version %v) output is rejected by a fresh State of that version at operator %d (%s): %v; calls %v", v, i, op.Name, err, calls),
					map[string]any{"calls": calls, "version": v.String(), "ops": opsRaw(ops)})
			}
			return false
		}
	}
	if mustBeClosed {
		if err := s.CanClose(); err != nil {
			h.e.Fail("unbalanced", fmt.Sprintf("Build (version %v) returned a stream that is not closed: %v; calls %v", v, err, calls), map[string]any{"calls": calls})
			return false
		}
		return true
	}
	for _, c := range s.ClosingOperators() {
		if err := s.ApplyOperator(c, nil); err != nil {
			h.e.Fail("unbalanced", fmt.Sprintf("closing operator %s is rejected after Builder calls %v (version %v): %v", c, calls, v, err), map[string]any{"calls": calls})
			return false
		}
	}
	if err := s.CanClose(); err != nil {
		h.e.Fail("unbalanced", fmt.Sprintf("Builder calls %v (version %v): not closable after ClosingOperators: %v", calls, v, err), map[string]any{"calls": calls})
		return false
	}
	return true
}

// builderCase: a random sequence of Builder calls, with Reset / Build / MustBuild in the
// middle and further use of the Builder afterwards.
func (h *harness) builderCase() {
	r := h.e.Rand
	v := []pdf.Version{pdf.V1_3, pdf.V1_7, pdf.V1_7, pdf.V2_0, pdf.V2_0}[r.IntN(5)]
	b := builder.New(content.Page, nil, v)
	n := 1 + r.IntN(16)
	var calls []string
	probing := r.IntN(6) == 0
	for i := 0; i < n && b.Err == nil; i++ {
		if i > 0 && r.IntN(7) == 0 {
			// Reset, Build or MustBuild in the middle; the Builder is used on afterwards
			switch kind := r.IntN(3); kind {
			case 0:
				calls = append(calls, "Reset")
				b.Reset()
			default:
				name := "Build"
				if kind == 2 {
					name = "MustBuild"
				}
				var inner []string
				fn := func(bb *builder.Builder) error {
					for j := r.IntN(8); j > 0 && bb.Err == nil; j-- {
						k := h.pickCall(bb, v, true)
						inner = append(inner, strconv.Itoa(k))
						h.bcall(bb, k)
					}
					h.closeAll(bb)
					return nil
				}
				var built *content.Operators
				func() {
					defer func() { recover() }() // MustBuild panics on an error
					if kind == 2 {
						built = b.MustBuild(fn)
					} else {
						built = b.Build(fn)
					}
				}()
				calls = append(calls, name+"("+strings.Join(inner, ",")+")")
				if built != nil && b.Err == nil {
					h.checkBuilderStream(built.Ops, v, calls, true)
				}
			}
			probing = true
			continue
		}
		k := h.pickCall(b, v, probing)
		calls = append(calls, strconv.Itoa(k))
		h.bcall(b, k)
	}
	h.e.Count(true, "builder"+strings.Join(calls, ","), "builder")
	if b.Err != nil {
		h.e.Dist["builder:rejected"]++
		return
	}
	ops := append([]content.Operator(nil), b.Stream...)
	// for PDF 2.0 the Builder makes every inline image readable (it adds /L)
	if v >= pdf.V2_0 {
		for _, op := range ops {
			if op.Name != content.OpInlineImage || imageClass(op) == "outside" {
				continue
			}
			one := []content.Operator{op}
			if got, want := realScan(realFormat(one)), opsCanon(one); got != want {
				h.nsig["builder-inline-image"]++
				if h.nsig["builder-inline-image"] <= 5 {
					h.e.Fail("builder-inline-image", fmt.Sprintf("an inline image drawn by the Builder for PDF 2.0 is not read back: %q scans to %s, want %s", realFormat(one), got, want),
						map[string]any{"calls": calls, "ops": opsRaw(one)})
				}
			}
		}
	}
	// what the Builder accepted is a valid sequence by the specification's table
	if !h.builderValid(ops, v, calls) {
		return
	}
	// the stream re-reads as the operators written
	h.operators(ops, "builder-output")
	// it is a valid sequence for a fresh State of the Builder's version, balanced after ClosingOperators
	if !h.checkBuilderStream(ops, v, calls, false) {
		return
	}
	var names []content.OpName
	for _, op := range ops {
		names = append(names, op.Name)
	}
	h.nesting(names, v < pdf.V2_0, "builder-names")
}

// cloneObj: a deep copy of a native value (fresh maps, arrays and strings).
func cloneObj(o pdf.Object) pdf.Object {
	switch x := o.(type) {
	case pdf.String:
		return pdf.String(append([]byte(nil), x...))
	case pdf.Array:
		if x == nil {
			return x
		}
		y := make(pdf.Array, len(x))
		for i, v := range x {
			y[i] = cloneObj(v)
		}
		return y
	case pdf.Dict:
		if x == nil {
			return x
		}
		y := make(pdf.Dict, len(x))
		for k, v := range x {
			y[k] = cloneObj(v)
		}
		return y
	}
	return o
}

// builderAliasing: aliasing between Builder calls.  The caller keeps a few Go values (image
// dictionaries with nested arrays and strings, data slices with spare capacity, strings, kerning
// arrays, dash patterns, MarkedContent structs), passes the SAME values to several calls, and
// changes them between the calls and after the last one.  Checked:
//   (a) the stream is what BuilderModel.build_ops gives for the values each call saw (case BA,
//       model vs implementation), equals the stream of a Builder that was given private copies,
//       and re-reads as that operator sequence;
//   (b) no call changes a caller-owned argument (deep comparison before/after every call).
func (h *harness) builderAliasing() {
	r := h.e.Rand
	v := []pdf.Version{pdf.V1_3, pdf.V1_7, pdf.V2_0, pdf.V2_0}[r.IntN(4)]
	b := builder.New(content.Page, nil, v)
	ref := builder.New(content.Page, nil, v) // the same calls with private copies
	dicts := []pdf.Dict{
		{"W": pdf.Integer(1 + r.IntN(4)), "H": pdf.Integer(2), "BPC": pdf.Integer(8)},
		{"W": pdf.Integer(3), "H": pdf.Integer(1), "CS": pdf.Array{pdf.Name("I"), pdf.Name("G"), pdf.Integer(1), pdf.String("ab")}},
		{"Width": pdf.Integer(2), "Height": pdf.Integer(2), "D": pdf.Array{pdf.Integer(0), pdf.Integer(1)}},
	}
	datas := make([][]byte, 3)
	for i := range datas {
		buf := make([]byte, 0, 64)
		if r.IntN(2) == 0 {
			buf = append(buf, imgData[r.IntN(len(imgData))]...)
		} else {
			buf = append(buf, h.rbytes(20)...)
		}
		datas[i] = buf
	}
	strs := []pdf.String{pdf.String("abc"), pdf.String(h.rbytes(6)), pdf.String("(x)")}
	arrs := []pdf.Array{{pdf.String("AV"), pdf.Integer(-120), pdf.String("A")}, {pdf.String(h.rbytes(4)), pdf.Integer(r.IntN(50))}}
	dashes := [][]float64{{3, 1.5}, {float64(r.IntN(5)), 2, 1}}
	mcs := []*graphics.MarkedContent{{Tag: "Span"}, {Tag: "P"}}

	snapshot := func() string {
		var sb strings.Builder
		for _, d := range dicts {
			sb.WriteString(raw(d) + "|")
		}
		for _, d := range datas {
			sb.WriteString(hx(d) + "|")
		}
		for _, s := range strs {
			sb.WriteString(hx(s) + "|")
		}
		for _, a := range arrs {
			sb.WriteString(raw(a) + "|")
		}
		fmt.Fprintf(&sb, "%v|%v %v", dashes, *mcs[0], *mcs[1])
		return sb.String()
	}
	mutate := func() {
		switch r.IntN(9) {
		case 0: // the data slice: other length, other bytes, same backing array
			j := r.IntN(len(datas))
			n := r.IntN(40)
			datas[j] = datas[j][:n]
			for i := range datas[j] {
				datas[j][i] = byte('a' + r.IntN(26))
			}
		case 1:
			j := r.IntN(len(datas))
			if len(datas[j]) > 0 {
				datas[j][r.IntN(len(datas[j]))] ^= 0x55
			}
		case 2:
			dicts[r.IntN(len(dicts))]["BPC"] = pdf.Integer(1 << r.IntN(4))
		case 3:
			delete(dicts[0], "BPC")
			dicts[1]["CS"].(pdf.Array)[2] = pdf.Integer(r.IntN(200))
		case 4:
			if s, ok := dicts[1]["CS"].(pdf.Array)[3].(pdf.String); ok && len(s) > 0 {
				s[0] ^= 1
			}
		case 5:
			j := r.IntN(len(strs))
			if len(strs[j]) > 0 {
				strs[j][0] = byte('A' + r.IntN(26))
			}
		case 6:
			a := arrs[r.IntN(len(arrs))]
			a[1] = pdf.Integer(r.IntN(300) - 150)
			if s, ok := a[0].(pdf.String); ok && len(s) > 0 {
				s[len(s)-1] = byte('a' + r.IntN(26))
			}
		case 7:
			dashes[r.IntN(len(dashes))][0] = float64(1 + r.IntN(9))
		case 8:
			mcs[r.IntN(2)].Tag = []pdf.Name{"Span", "P", "Artifact", "Figure"}[r.IntN(4)]
		}
	}

	var calls, names []string
	ncalls := 0
	add := func(enc, name string) {
		calls = append(calls, enc)
		names = append(names, name)
		ncalls++
	}
	inText, depth := false, 0
	n := 2 + r.IntN(10)
	for i := 0; i < n && b.Err == nil && ref.Err == nil; i++ {
		before := snapshot()
		k := r.IntN(10)
		func() {
			defer func() {
				if rec := recover(); rec != nil && b.Err == nil {
					b.Err = fmt.Errorf("panic: %v", rec)
				}
			}()
			switch {
			case k <= 3 && !inText:
				di, dj := r.IntN(len(dicts)), r.IntN(len(datas))
				if i%3 == 2 { // the classic: the same dictionary again, other data
					di = 0
				}
				add("I "+raw(dicts[di])+" "+hx(datas[dj]), fmt.Sprintf("Image(d%d,b%d)", di, dj))
				ref.DrawInlineImageRaw(cloneObj(dicts[di]).(pdf.Dict), append([]byte(nil), datas[dj]...))
				b.DrawInlineImageRaw(dicts[di], datas[dj])
			case k <= 3 || k == 4:
				if !inText {
					add("P 4254", "BT")
					ref.TextBegin()
					b.TextBegin()
					inText = true
					return
				}
				j := r.IntN(len(strs))
				switch r.IntN(3) {
				case 0:
					add("T "+hx(strs[j]), fmt.Sprintf("Tj(s%d)", j))
					ref.TextShowRaw(cloneObj(strs[j]).(pdf.String))
					b.TextShowRaw(strs[j])
				case 1:
					add("Q "+hx(strs[j]), fmt.Sprintf("'(s%d)", j))
					ref.TextShowNextLineRaw(cloneObj(strs[j]).(pdf.String))
					b.TextShowNextLineRaw(strs[j])
				default:
					a := arrs[r.IntN(len(arrs))]
					add("K "+raw(a), "TJ")
					ref.TextShowKernedRaw(cloneObj(a).(pdf.Array)...)
					b.TextShowKernedRaw(a...)
				}
			case k == 5:
				if inText {
					add("P 4554", "ET")
					ref.TextEnd()
					b.TextEnd()
					inText = false
				} else if depth > 0 && r.IntN(2) == 0 {
					add("P 51", "Q")
					ref.PopGraphicsState()
					b.PopGraphicsState()
					depth--
				} else {
					add("P 71", "q")
					ref.PushGraphicsState()
					b.PushGraphicsState()
					depth++
				}
			case k == 6:
				mc := mcs[r.IntN(2)]
				add("M "+hx([]byte(mc.Tag)), "MP")
				cp := *mc
				ref.MarkedContentPoint(&cp)
				b.MarkedContentPoint(mc)
			default:
				// the dash pattern is outside the model (floats): compared with the reference only
				p := dashes[r.IntN(len(dashes))]
				ph := float64(r.IntN(3))
				names = append(names, "d")
				ref.SetLineDash(append([]float64(nil), p...), ph)
				b.SetLineDash(p, ph)
			}
		}()
		h.e.Evaluations++
		if after := snapshot(); after != before {
			h.nsig["builder-changes-argument"]++
			if h.nsig["builder-changes-argument"] <= 5 {
				h.e.Fail("builder-changes-argument", fmt.Sprintf("Builder call %s (version %v) changes a value owned by the caller: before %s, after %s; calls %v", names[len(names)-1], v, before, after, names),
					map[string]any{"calls": names, "version": v.String(), "before": before, "after": after})
			}
			return
		}
		for m := r.IntN(3); m > 0; m-- {
			mutate()
			names = append(names, "mutate")
		}
	}
	h.e.Count(true, "alias"+strings.Join(names, ","), "builder-aliasing")
	if b.Err != nil || ref.Err != nil {
		if (b.Err == nil) != (ref.Err == nil) {
			h.e.Fail("builder-aliasing", fmt.Sprintf("Builder (version %v) accepts a call sequence with shared arguments but not with private copies, or vice versa: %v / %v; calls %v", v, b.Err, ref.Err, names), map[string]any{"calls": names})
		}
		h.e.Dist["builder-aliasing:rejected"]++
		return
	}
	// the caller goes on using its values after the last call
	for m := 0; m < 12; m++ {
		mutate()
	}
	if !h.builderValid(append([]content.Operator(nil), b.Stream...), v, names) {
		return
	}
	got := opsCanon(b.Stream)
	if want := opsCanon(ref.Stream); got != want {
		// the finding inline-image-arguments-aliased has its own signature: only %image%
		// operators differ
		sig := "builder-aliasing"
		if len(b.Stream) == len(ref.Stream) {
			onlyImages := true
			for i := range b.Stream {
				if opCanon(b.Stream[i].Name, b.Stream[i].Args) != opCanon(ref.Stream[i].Name, ref.Stream[i].Args) && b.Stream[i].Name != content.OpInlineImage {
					onlyImages = false
				}
			}
			if onlyImages {
				sig = "inline-image-arguments-aliased"
			}
		}
		h.nsig[sig]++
		if h.nsig[sig] <= 5 {
			h.e.Fail(sig, fmt.Sprintf("Builder (version %v): the stream depends on what the caller does with its own values: with shared, later modified arguments %s, with private copies %s; calls %v", v, got, want, names),
				map[string]any{"calls": names, "version": v.String(), "got": got, "want": want})
		}
		return
	}
	// model vs implementation: the operators as a function of the per-call values (without d)
	var modelled []content.Operator
	for _, op := range b.Stream {
		if op.Name != content.OpSetLineDash {
			modelled = append(modelled, op)
		}
	}
	id := h.id("A")
	v2 := 0
	if v >= pdf.V2_0 {
		v2 = 1
	}
	h.e.Line("cases.txt", "%s BA %d %d %s", id, v2, ncalls, strings.Join(calls, " "))
	h.e.Line("impl.obs", "%s %s", id, opsCanon(modelled))
	// and the stream re-reads as the operators written
	h.operators(append([]content.Operator(nil), b.Stream...), "builder-aliasing-output")
}

// builderScenarios: for every version class and every way of resetting the Builder, the rules
// of the version are still enforced afterwards: q/Q inside a text object and q nesting deeper
// than 28 are errors before PDF 2.0, and whatever the Builder accepts is valid for a fresh State.
func (h *harness) builderScenarios() {
	simple := func(bb *builder.Builder) error {
		bb.MoveTo(1, 2)
		bb.LineTo(3, 4)
		bb.Stroke()
		return nil
	}
	for _, v := range []pdf.Version{pdf.V1_0, pdf.V1_3, pdf.V1_4, pdf.V1_7, pdf.V2_0} {
		for reset := 0; reset < 5; reset++ {
			for probe := 0; probe < 7; probe++ {
				b := builder.New(content.Page, nil, v)
				calls := []string{fmt.Sprintf("reset%d", reset), fmt.Sprintf("probe%d", probe)}
				b.PushGraphicsState()
				b.TextBegin()
				b.TextEnd()
				func() {
					defer func() { recover() }()
					switch reset {
					case 1:
						b.Reset()
					case 2:
						b.Build(simple)
					case 3:
						b.MustBuild(simple)
					case 4:
						b.PopGraphicsState()
						b.Harvest()
						b.Reset()
						b.Build(simple)
					}
				}()
				rep := func(n int, f func()) {
					for i := 0; i < n; i++ {
						f()
					}
				}
				switch probe {
				case 0: // q inside a text object
					b.TextBegin()
					b.PushGraphicsState()
					b.PopGraphicsState()
					b.TextEnd()
				case 1: // 29 nested q
					rep(29, b.PushGraphicsState)
					rep(29, b.PopGraphicsState)
				case 2: // 28 nested q (allowed when nothing else is open)
					rep(27, b.PushGraphicsState)
					rep(27, b.PopGraphicsState)
				case 3: // Q inside a text object
					b.PushGraphicsState()
					b.TextBegin()
					b.PopGraphicsState()
					b.TextEnd()
				case 4: // nested text objects
					b.TextBegin()
					b.TextBegin()
					b.TextEnd()
				case 5: // left open: closed by ClosingOperators
					b.PushGraphicsState()
					b.MarkedContentStart(&graphics.MarkedContent{Tag: "P"})
					b.TextBegin()
				default:
					b.PushGraphicsState()
					simple(b)
					b.PopGraphicsState()
				}
				h.e.Count(true, fmt.Sprintf("bscen%v/%d/%d", v, reset, probe), "builder-scenario")
				if b.Err != nil {
					h.e.Dist["builder-scenario:rejected"]++
					continue
				}
				h.checkBuilderStream(append([]content.Operator(nil), b.Stream...), v, calls, false)
			}
		}
	}
}

// ---------------------------------------------------------------------------

func phase1() {
	e := common.New(15)
	h := &harness{e: e, pfx: "k", nsig: map[string]int{}}

	// 0. corpus of hand-written texts
	for _, t := range corpusTexts {
		h.text([]byte(t), "corpus")
	}

	// 1. the operator table
	h.pfx = "t"
	for _, n := range knownOps {
		h.table(n)
	}
	for _, n := range []content.OpName{"%raw%", "%image%", "BI", "ID", "EI", "xyz", "foo*"} {
		h.table(n)
	}

	// 2. every known operator with a few operand lists
	h.pfx = "o"
	for _, n := range append(append([]content.OpName{}, knownOps...), oddOps...) {
		if n == "BI" {
			continue
		}
		h.operators([]content.Operator{{Name: n}, {Name: n, Args: []pdf.Object{pdf.Integer(1), pdf.Real(0.5), pdf.Name("N"), pdf.String("(s")}}, {Name: "q"}}, "each-operator")
		h.operators([]content.Operator{{Name: n, Args: []pdf.Object{pdf.Name("N")}}, {Name: n, Args: []pdf.Object{pdf.Array{pdf.Integer(1)}, pdf.Dict{"K": pdf.Name("V")}}}, {Name: n, Args: []pdf.Object{nil, pdf.Boolean(true)}}}, "each-operator")
	}
	for _, k := range []int{0, 1, 31, 32, 62, 63, 64, 65, 100} {
		var args []pdf.Object
		for i := 0; i < k; i++ {
			args = append(args, pdf.Integer(i))
		}
		h.operators([]content.Operator{{Name: "scn", Args: args}, {Name: "f"}}, "operand-count")
	}
	for _, d := range []int{1, 10, 100, 254, 255, 256, 257} {
		var o pdf.Object = pdf.Integer(1)
		for i := 0; i < d; i++ {
			if i%3 == 2 {
				o = pdf.Dict{"K": o}
			} else {
				o = pdf.Array{o}
			}
		}
		h.operators([]content.Operator{{Name: "x", Args: []pdf.Object{o}}}, "nesting-depth")
	}

	// 2b. string and name operands with a byte that needs escaping at every position
	specials := []byte{'(', ')', '\\', '\r', '\n', '#', '/', 0x00, 0xff, ' ', '%'}
	for L := 1; L <= 18; L++ {
		for pos := 0; pos < L; pos++ {
			for _, sp := range specials {
				b := bytes.Repeat([]byte{'a'}, L)
				b[pos] = sp
				h.operators([]content.Operator{{Name: "Tj", Args: []pdf.Object{pdf.String(b)}}, {Name: "gs", Args: []pdf.Object{pdf.Name(b), pdf.Array{pdf.String(b), pdf.Name(b)}}}}, "escape-position")
			}
		}
	}
	for b := 0; b < 256; b++ {
		h.operators([]content.Operator{{Name: "TJ", Args: []pdf.Object{pdf.Array{pdf.String([]byte{byte(b)}), pdf.Name([]byte{byte(b)}), pdf.Integer(b)}}}}, "single-byte")
	}
	for k := -20; k <= 20; k++ {
		x := math.Pow10(k)
		h.operators([]content.Operator{{Name: "cm", Args: []pdf.Object{pdf.Real(x), pdf.Real(-x), pdf.Real(x * 1.2345678901234567), pdf.Real(math.Nextafter(x, 0)), pdf.Real(x * 9.999999999999999), pdf.Integer(int64(k))}}}, "power-of-ten")
	}

	// 3. inline images: every data string of the list, with and without /L, several filters
	for n := 0; n <= 24; n++ {
		data := make([]byte, n)
		for i := range data {
			data[i] = byte(37*i + 11*n)
		}
		h.operators([]content.Operator{{Name: content.OpInlineImage, Args: []pdf.Object{pdf.Dict{"W": pdf.Integer(1), "H": pdf.Integer(1), "L": pdf.Integer(n)}, pdf.String(data)}}, {Name: "Q"}}, "inline-image-length")
		h.operators([]content.Operator{{Name: content.OpInlineImage, Args: []pdf.Object{pdf.Dict{"W": pdf.Integer(1), "H": pdf.Integer(1)}, pdf.String(bytes.Repeat([]byte{'E', 'I'}, n))}}, {Name: "Q"}}, "inline-image-length")
	}
	for b := 0; b < 256; b++ {
		h.operators([]content.Operator{{Name: content.OpInlineImage, Args: []pdf.Object{pdf.Dict{"W": pdf.Integer(1), "H": pdf.Integer(1)}, pdf.String([]byte{'x', byte(b), 'E', 'I', byte(b), 'y'})}}}, "inline-image-byte")
	}
	h.pfx = "i"
	for _, data := range imgData {
		for mode := 0; mode < 6; mode++ {
			d := pdf.Dict{"W": pdf.Integer(2), "H": pdf.Integer(2)}
			switch mode {
			case 1:
				d["L"] = pdf.Integer(len(data))
			case 2:
				d["F"] = pdf.Name("A85")
			case 3:
				d["F"] = pdf.Name("AHx")
				d["L"] = pdf.Integer(len(data))
			case 4:
				d["D"] = pdf.Array{}
			case 5:
				d["Length"] = pdf.Integer(len(data))
				d["F"] = pdf.Name("Fl")
			}
			h.operators([]content.Operator{{Name: "q"}, {Name: content.OpInlineImage, Args: []pdf.Object{d, pdf.String(data)}}, {Name: "Q"}}, "inline-image-list")
		}
	}
	for i := 0; i < e.Pick(1500, 60000); i++ {
		h.operators([]content.Operator{h.rimage(), h.rop()}, "inline-image-random")
	}

	// 4. random operator sequences
	h.pfx = "r"
	var pool [][]byte
	for i := 0; i < e.Pick(4000, 200000); i++ {
		ops := h.rops()
		h.operators(ops, "random-ops")
		if len(pool) < 3000 {
			pool = append(pool, realFormat(ops))
		}
	}

	// 4b. long operator sequences: several scanner buffers (512 bytes) of text
	h.pfx = "g"
	for i := 0; i < e.Pick(200, 4000); i++ {
		var ops []content.Operator
		for j := 15 + e.Rand.IntN(50); j > 0; j-- {
			if e.Rand.IntN(15) == 0 {
				ops = append(ops, h.rimage())
			} else {
				ops = append(ops, h.rop())
			}
		}
		h.operators(ops, "long-ops")
	}

	// 5. mutated texts
	h.pfx = "m"
	for _, t := range corpusTexts {
		pool = append(pool, []byte(t))
	}
	for i := 0; i < e.Pick(8000, 400000); i++ {
		t := pool[e.Rand.IntN(len(pool))]
		h.text(h.mutate(t, pool), "mutant")
	}

	// 6. nesting state: all short sequences over the structural operators, random longer ones
	h.pfx = "n"
	structural := []content.OpName{"q", "Q", "BT", "ET", "BMC", "EMC", "BX", "EX", "m", "n", "W"}
	var rec func(prefix []content.OpName)
	maxLen := e.Pick(3, 4)
	rec = func(prefix []content.OpName) {
		h.nesting(prefix, len(prefix)%2 == 0, "structural-exhaustive")
		if len(prefix) == maxLen {
			return
		}
		for _, n := range structural {
			rec(append(append([]content.OpName{}, prefix...), n))
		}
	}
	rec(nil)
	for i := 0; i < e.Pick(3000, 100000); i++ {
		h.nesting(h.rnames(1+e.Rand.IntN(12)), e.Rand.IntN(2) == 0, "random-names")
	}
	// the q depth limit of PDF 1.x
	for _, k := range []int{27, 28, 29} {
		var names []content.OpName
		for i := 0; i < k; i++ {
			names = append(names, "q")
		}
		h.nesting(names, true, "q-depth")
		h.nesting(names, false, "q-depth")
	}

	// 7. Builder call sequences
	h.pfx = "b"
	h.builderScenarios()
	h.builderContexts()
	h.pfx = "A"
	for i := 0; i < e.Pick(1500, 40000); i++ {
		h.builderAliasing()
	}
	for i := 0; i < e.Pick(3000, 100000); i++ {
		h.builderCase()
	}

	e.Finish("a case is non-trivial when it reaches the writer, a scanner or the nesting state with a value of its own; distinct by operator list / text / name sequence", nil)
}

func phase2() {
	dir := "."
	if len(os.Args) > 2 && os.Args[1] == "-dir" {
		dir = os.Args[2]
	}
	out, err := os.Create(filepath.Join(dir, "impl_b.obs"))
	if err != nil {
		panic(err)
	}
	defer out.Close()
	w := &bytes.Buffer{}
	for _, fs := range common.ReadLines(filepath.Join(dir, "model_b.obs")) {
		if len(fs) != 2 {
			fmt.Fprintf(w, "%s badline\n", fs[0])
			continue
		}
		var data []byte
		if fs[1] != "-" {
			data, err = hex.DecodeString(fs[1])
			if err != nil {
				fmt.Fprintf(w, "%s badhex\n", fs[0])
				continue
			}
		}
		fmt.Fprintf(w, "%s %s\n", fs[0], realScan(data))
		if w.Len() > 1<<20 {
			out.Write(w.Bytes())
			w.Reset()
		}
	}
	out.Write(w.Bytes())
}

func main() {
	if os.Getenv("VERIF_PHASE") == "2" {
		phase2()
		return
	}
	phase1()
}

var _ = sort.Strings
