// C01 harness: object syntax round trip (types.go Format* / scanner.go Read*).
//
// Phase 1 (default) generates the cases from the single seeded PRNG and, for
// every case,
//
//	(oracle) runs the property directly on the implementation: for all 32
//	    OutputOptions combinations parse(Format(opt, xs...)) must equal xs (as
//	    values), and Format must be deterministic; failures go to fails.jsonl;
//	(a) hands the implementation's text to the model scanner (cases.txt, op S /
//	    PS / PN) and records the value that must come back (impl.obs);
//	(b) hands the values to the model formatter (cases_b.txt, op F / FS / FN);
//	(c) hands arbitrary and mutated byte strings to both scanners (op S,
//	    impl.obs = what the real scanner returns: value or error class).
//
// Phase 2 (VERIF_PHASE=2) reads the model's formatted texts (model_b.obs),
// parses them with the real scanner and writes impl_b.obs; want_b.obs (phase 1)
// holds the values that must come back.
//
// Only values and error classes are compared, never formatted bytes.
package main

import (
	"bytes"
	"encoding/hex"
	"fmt"
	"io"
	"math"
	"os"
	"path/filepath"
	"sort"
	"strconv"
	"strings"

	"seehuhn.de/go/pdf"
	"seehuhn.de/go/pdf/verifharness/common"
)

// ---------------------------------------------------------------------------
// limits

type lim struct{ str, name, arr, dict, depth int }

var stdLim = lim{16 << 20, 4096, 1 << 20, 64 << 10, pdf.VerifNestDepth}

const (
	maxXRef = 1 << 24
	maxGen  = 65535
)

func setLimits(l lim) {
	pdf.VerifSetLimits(pdf.VerifLimits{StringBytes: l.str, NameBytes: l.name, ArrayLen: l.arr, DictLen: l.dict})
}

// ---------------------------------------------------------------------------
// values: wire encodings

func hx(b []byte) string { return common.Hex(b) }

func keyRank(k pdf.Name) int {
	switch k {
	case "Type":
		return 0
	case "Subtype":
		return 1
	}
	return 2
}

func keyLess(a, b pdf.Name) bool {
	ra, rb := keyRank(a), keyRank(b)
	if ra != rb {
		return ra < rb
	}
	return a < b
}

func realBits(x float64) string {
	if x == 0 {
		x = 0
	}
	return fmt.Sprintf("r%016x", math.Float64bits(x))
}

// canon is the canonical encoding of a value as the property reads it: a nil
// entry is absent, a nil array is null, a nil dictionary is the empty one.
func canon(o pdf.Object) string {
	switch x := o.(type) {
	case nil:
		return "n"
	case pdf.Boolean:
		if x {
			return "t"
		}
		return "f"
	case pdf.Integer:
		return "i" + strconv.FormatInt(int64(x), 10)
	case pdf.Real:
		return realBits(float64(x))
	case pdf.Name:
		return "N" + hx([]byte(x))
	case pdf.String:
		return "S" + hx([]byte(x))
	case pdf.Reference:
		return fmt.Sprintf("R%d.%d", x.Number(), x.Generation())
	case pdf.Array:
		if x == nil {
			return "n"
		}
		var sb strings.Builder
		fmt.Fprintf(&sb, "A%d", len(x))
		for _, e := range x {
			sb.WriteByte(' ')
			sb.WriteString(canon(e))
		}
		return sb.String()
	case pdf.Dict:
		keys := make([]pdf.Name, 0, len(x))
		vals := map[pdf.Name]string{}
		for k, v := range x {
			c := canon(v)
			if c == "n" {
				continue
			}
			keys = append(keys, k)
			vals[k] = c
		}
		sort.Slice(keys, func(i, j int) bool { return keyLess(keys[i], keys[j]) })
		var sb strings.Builder
		fmt.Fprintf(&sb, "D%d", len(keys))
		for _, k := range keys {
			sb.WriteByte(' ')
			sb.WriteString(hx([]byte(k)))
			sb.WriteByte(' ')
			sb.WriteString(vals[k])
		}
		return sb.String()
	}
	return fmt.Sprintf("?%T", o)
}

func canonList(xs []pdf.Object) string {
	var sb strings.Builder
	for _, x := range xs {
		sb.WriteByte(' ')
		sb.WriteString(canon(x))
	}
	return sb.String()
}

// raw is the encoding of a value handed to the model formatter; a real is
// handed over as the text strconv.FormatFloat prints (H-float).
func raw(o pdf.Object) string {
	switch x := o.(type) {
	case pdf.Real:
		return "r" + strconv.FormatFloat(float64(x), 'f', -1, 64)
	case pdf.Array:
		if x == nil {
			return "a"
		}
		var sb strings.Builder
		fmt.Fprintf(&sb, "A%d", len(x))
		for _, e := range x {
			sb.WriteByte(' ')
			sb.WriteString(raw(e))
		}
		return sb.String()
	case pdf.Dict:
		if x == nil {
			return "d"
		}
		keys := make([]pdf.Name, 0, len(x))
		for k := range x {
			keys = append(keys, k)
		}
		// an arbitrary but reproducible order: reverse byte order
		sort.Slice(keys, func(i, j int) bool { return keys[i] > keys[j] })
		var sb strings.Builder
		fmt.Fprintf(&sb, "D%d", len(keys))
		for _, k := range keys {
			sb.WriteByte(' ')
			sb.WriteString(hx([]byte(k)))
			sb.WriteByte(' ')
			sb.WriteString(raw(x[k]))
		}
		return sb.String()
	}
	return canon(o)
}

func rawList(xs []pdf.Object) string {
	var sb strings.Builder
	fmt.Fprintf(&sb, "%d", len(xs))
	for _, x := range xs {
		sb.WriteByte(' ')
		sb.WriteString(raw(x))
	}
	return sb.String()
}

// wf mirrors the model's wf_obj: the documented limits of the scanner, as they
// apply to a value parsed at nesting depth d.
func wf(o pdf.Object, L lim, d int) bool {
	switch x := o.(type) {
	case nil, pdf.Boolean:
		return true
	case pdf.Integer:
		return len(strconv.FormatInt(int64(x), 10)) <= L.name
	case pdf.Real:
		f := float64(x)
		if math.IsInf(f, 0) || math.IsNaN(f) {
			return false
		}
		t := strconv.FormatFloat(f, 'f', -1, 64)
		if !strings.Contains(t, ".") {
			t += "."
		}
		return len(t) <= L.name
	case pdf.Name:
		return len(x) < L.name
	case pdf.String:
		return len(x) < L.str
	case pdf.Reference:
		// a reference whose number is not below maxXRefSize is read back as null (the writer
		// refuses it); the two numbers are tokens, subject to the token length limit
		return x.Number() < maxXRef && len(strconv.FormatUint(uint64(x.Number()), 10)) <= L.name && len(strconv.FormatUint(uint64(x.Generation()), 10)) <= L.name
	case pdf.Array:
		if x == nil {
			return true
		}
		if d >= L.depth || len(x) > L.arr {
			return false
		}
		for _, e := range x {
			if !wf(e, L, d+1) {
				return false
			}
		}
		return true
	case pdf.Dict:
		if d >= L.depth {
			return false
		}
		n := 0
		for k, v := range x {
			if v == nil {
				continue // a nil entry is not written
			}
			n++
			if len(k) >= L.name || !wf(v, L, d+1) {
				return false
			}
		}
		return n <= L.dict
	}
	return false
}

// numsFit: the number tokens of the value fit ReadNumber's buffer (maxNameBytes); always so
// under the standard limits.
func numsFit(o pdf.Object, L lim) bool {
	switch x := o.(type) {
	case pdf.Integer:
		return wf(x, L, 0)
	case pdf.Real:
		if f := float64(x); math.IsNaN(f) || math.IsInf(f, 0) {
			return true // no number token at all
		}
		return wf(x, L, 0)
	case pdf.Reference:
		return len(strconv.FormatUint(uint64(x.Number()), 10)) <= L.name && len(strconv.FormatUint(uint64(x.Generation()), 10)) <= L.name
	case pdf.Array:
		for _, e := range x {
			if !numsFit(e, L) {
				return false
			}
		}
	case pdf.Dict:
		for _, v := range x {
			if !numsFit(v, L) {
				return false
			}
		}
	}
	return true
}

func nonFinite(xs []pdf.Object) bool {
	for _, o := range xs {
		switch x := o.(type) {
		case pdf.Real:
			if f := float64(x); math.IsNaN(f) || math.IsInf(f, 0) {
				return true
			}
		case pdf.Array:
			if nonFinite(x) {
				return true
			}
		case pdf.Dict:
			for _, v := range x {
				if nonFinite([]pdf.Object{v}) {
					return true
				}
			}
		}
	}
	return false
}

// arrayEdge reports whether o contains an array with exactly L.arr elements
// whose last element is a reference (the known boundary finding).
func arrayEdge(o pdf.Object, L lim) bool {
	switch x := o.(type) {
	case pdf.Array:
		if len(x) == L.arr && len(x) > 0 {
			if _, ok := x[len(x)-1].(pdf.Reference); ok {
				return true
			}
		}
		for _, e := range x {
			if arrayEdge(e, L) {
				return true
			}
		}
	case pdf.Dict:
		for _, v := range x {
			if arrayEdge(v, L) {
				return true
			}
		}
	}
	return false
}

// ---------------------------------------------------------------------------
// the real implementation

func errClass(err error) string {
	switch {
	case pdf.IsMalformed(err):
		return "err:malformed"
	case err == io.EOF || err == io.ErrUnexpectedEOF:
		return "err:eof"
	}
	return "err:other"
}

func realScan(data []byte) (obs string) {
	defer func() {
		if r := recover(); r != nil {
			obs = "err:panic"
		}
	}()
	objs, pos, err := pdf.VerifParseObjectsPos(data)
	if err != nil {
		return errClass(err)
	}
	return fmt.Sprintf("ok %d%s", int64(len(data))+1-pos, canonList(objs))
}

func realParseString(data []byte) (obs string) {
	defer func() {
		if r := recover(); r != nil {
			obs = "err:panic"
		}
	}()
	s, err := pdf.ParseString(data)
	if err != nil {
		return errClass(err)
	}
	return "ok S" + hx([]byte(s))
}

func realParseName(data []byte) (obs string) {
	defer func() {
		if r := recover(); r != nil {
			obs = "err:panic"
		}
	}()
	s, err := pdf.ParseName(data)
	if err != nil {
		return errClass(err)
	}
	return "ok N" + hx([]byte(s))
}

func realFormat(opt pdf.OutputOptions, xs []pdf.Object) ([]byte, error) {
	var buf bytes.Buffer
	err := pdf.Format(&buf, opt, xs...)
	return buf.Bytes(), err
}

// the five public output options
var optBits = []pdf.OutputOptions{pdf.OptDictTypes, pdf.OptTrimStandardFonts, pdf.OptPretty, pdf.OptTextStringUtf8, pdf.OptContentStream}

func optOf(mask int) pdf.OutputOptions {
	var o pdf.OutputOptions
	for i, b := range optBits {
		if mask&(1<<i) != 0 {
			o |= b
		}
	}
	return o
}

// ---------------------------------------------------------------------------

type harness struct {
	e       *common.Env
	L       lim
	n       int
	pfx     string
	nlayout int
	layoutN int
	nbuf    int
	nfa     int
	nwide   int
	nsig    map[string]int
}

func (h *harness) id(kind string) string {
	h.n++
	return fmt.Sprintf("%s%d.%s", h.pfx, h.n, kind)
}

func (h *harness) useLimits(l lim) {
	h.L = l
	setLimits(l)
	h.e.Line("cases.txt", "L %d %d %d %d %d", l.str, l.name, l.arr, l.dict, l.depth)
}

// hasDict2: the value contains a dictionary with two or more non-nil entries.
func hasDict2(o pdf.Object) bool {
	switch x := o.(type) {
	case pdf.Array:
		for _, y := range x {
			if hasDict2(y) {
				return true
			}
		}
	case pdf.Dict:
		n := 0
		for _, v := range x {
			if v != nil {
				n++
			}
			if hasDict2(v) {
				return true
			}
		}
		return n >= 2
	}
	return false
}

// reinsert: an equal value whose maps are fresh and were filled in a random order.
func (h *harness) reinsert(o pdf.Object) pdf.Object {
	switch x := o.(type) {
	case pdf.Array:
		if x == nil {
			return x
		}
		y := make(pdf.Array, len(x))
		for i, v := range x {
			y[i] = h.reinsert(v)
		}
		return y
	case pdf.Dict:
		if x == nil {
			return x
		}
		keys := make([]pdf.Name, 0, len(x))
		for k := range x {
			keys = append(keys, k)
		}
		sort.Slice(keys, func(i, j int) bool { return keys[i] < keys[j] })
		h.e.Rand.Shuffle(len(keys), func(i, j int) { keys[i], keys[j] = keys[j], keys[i] })
		y := make(pdf.Dict)
		for _, k := range keys {
			y[k] = h.reinsert(x[k])
		}
		return y
	}
	return o
}

// deterministic: "formatting is deterministic" - the same value, formatted again and again
// (the same maps, and equal maps filled in another order; Go randomises map iteration per
// loop), gives the same bytes every time.
func (h *harness) deterministic(xs []pdf.Object, reps int, class string) {
	for _, opt := range []pdf.OutputOptions{0, pdf.OptPretty} {
		first, err := realFormat(opt, xs)
		if err != nil {
			return
		}
		for r := 0; r < reps; r++ {
			ys := xs
			if r%2 == 1 {
				ys = make([]pdf.Object, len(xs))
				for i, x := range xs {
					ys[i] = h.reinsert(x)
				}
			}
			t, _ := realFormat(opt, ys)
			h.e.Evaluations++
			if !bytes.Equal(t, first) {
				h.e.Fail("nondeterministic-format", fmt.Sprintf("%s: Format(opt=%d) gives different bytes for the same value (call %d): %q vs %q", class, opt, r+2, first, t),
					map[string]any{"values": rawList(xs), "opt": int(opt), "first": hx(first), "other": hx(t)})
				return
			}
		}
	}
}

// oracle: the property itself, on the implementation.
func (h *harness) oracle(xs []pdf.Object, class string) {
	want := "ok 0" + canonList(xs)
	ok := len(xs) <= h.L.arr // the hook's wrapper array
	for _, x := range xs {
		if !wf(x, h.L, 1) {
			ok = false
		}
	}
	if !ok {
		return
	}
	known := false
	for _, x := range xs {
		if arrayEdge(x, h.L) {
			known = true
		}
	}
	for mask := 0; mask < 32; mask++ {
		if strings.HasPrefix(class, "wide") && mask%5 != 0 {
			continue // wide values: 7 of the 32 option masks (each option on and off)
		}
		opt := optOf(mask)
		t1, err := realFormat(opt, xs)
		if err != nil {
			h.e.Fail("format-error", fmt.Sprintf("Format(opt=%d) returns %v", opt, err), map[string]any{"values": rawList(xs), "opt": int(opt)})
			return
		}
		t2, _ := realFormat(opt, xs)
		if !bytes.Equal(t1, t2) {
			h.e.Fail("nondeterministic-format", fmt.Sprintf("Format(opt=%d) gives different bytes on a repeated call", opt), map[string]any{"values": rawList(xs), "opt": int(opt), "first": hx(t1), "second": hx(t2)})
			return
		}
		got := realScan(t1)
		if got != want {
			sig := "roundtrip"
			if known {
				// the former finding array-at-limit-ending-in-reference (fixed): kept as a
				// separate signature so that its return is named in the report
				sig = "roundtrip-array-at-limit-ending-in-reference"
			}
			h.e.Fail(sig, fmt.Sprintf("parse(Format(opt=%d, xs)) != xs: text %q parses to %s, want %s", opt, t1, got, want),
				map[string]any{"values": rawList(xs), "opt": int(opt), "text": hx(t1), "got": got, "want": want,
					"limits": []int{h.L.str, h.L.name, h.L.arr, h.L.dict, h.L.depth}})
			return
		}
	}
}

// layout: the parse of a text does not depend on where it lies relative to the scanner's
// buffer boundaries (1024 bytes): the text is preceded by k blanks for every k that puts one
// of its bytes on a boundary.  Failing inputs are failing inputs of the property ("several
// values formatted one after another remain separately parseable").
func (h *harness) layout(text []byte, want string, what string) {
	const buf = 1024
	n := len(text)
	if n == 0 || n > 600 {
		return
	}
	for _, b := range []int{buf, 2 * buf} {
		lo := b - n - 2
		if lo < 0 {
			lo = 0
		}
		for k := lo; k <= b+2; k++ {
			padded := append(bytes.Repeat([]byte{' '}, k), text...)
			got := realScan(padded)
			h.e.Evaluations++
			if got != want {
				h.nlayout++
				if h.nlayout <= 5 {
					h.e.Fail("layout", fmt.Sprintf("%s: the same text parses differently after %d blanks: %s, want %s; text %q", what, k, got, want, text),
						map[string]any{"text": hx(text), "blanks": k, "got": got, "want": want})
				}
				return
			}
		}
	}
}

// isAtoms: a flat sequence of non-composite values without references.
func isAtoms(xs []pdf.Object) bool {
	for _, x := range xs {
		switch x.(type) {
		case nil, pdf.Boolean, pdf.Integer, pdf.Real, pdf.Name, pdf.String:
		default:
			return false
		}
	}
	return true
}

// buffered: the model's readers over the model of the buffered source (BufSrc.v, Readers.v:
// PeekN/advance/ScanBytes over buf, pos, used with refill and compaction, scannerBufSize bytes)
// must give what the real scanner gives on the same bytes.  The text (a flat sequence of
// atoms) is placed so that byte j of it is the first byte after a buffer boundary; the model's
// reader receives the bytes in chunks of the given sizes.
func (h *harness) buffered(text []byte, sizes string) {
	const buf = 1024
	n := len(text)
	if n == 0 || n > 600 {
		return
	}
	for j := 0; j <= n; j++ {
		if h.nbuf >= h.e.Pick(700, 6000) {
			return
		}
		b := buf
		if j%5 == 4 {
			b = 2 * buf
		}
		padded := append(bytes.Repeat([]byte{' '}, b-j), text...)
		id := h.id("B")
		h.nbuf++
		h.e.Evaluations++
		h.e.Line("cases.txt", "%s B 0 %s %s", id, sizes, hx(padded))
		h.e.Line("impl.obs", "%s %s", id, realScan(padded))
	}
}

// objects: one case of object values: oracle, (a) and (b).
func (h *harness) objects(xs []pdf.Object, class string, nontrivial bool) {
	h.oracle(xs, class)
	inLimits := len(xs) <= h.L.arr // the hook's wrapper array
	for _, x := range xs {
		if !wf(x, h.L, 1) {
			inLimits = false
		}
	}
	want := "ok 0" + canonList(xs)
	h.e.Count(nontrivial, class+rawList(xs), class)
	dict2 := false
	for _, x := range xs {
		if hasDict2(x) {
			dict2 = true
		}
	}
	// what the writer accepts: Format takes the values as the elements of an array exactly when
	// they are within the limits the reader applies to the elements of an array (F60-F62), so
	// that no accepted value fails to read back
	{
		elems := append(pdf.Array{}, xs...)
		_, aerr := realFormat(0, []pdf.Object{elems})
		fit := true
		for _, x := range xs {
			if !numsFit(x, h.L) {
				fit = false
			}
		}
		h.e.Evaluations++
		if fit && (aerr == nil) != inLimits {
			h.nsig["accept-vs-limits"]++
			if h.nsig["accept-vs-limits"] <= 5 {
				t, _ := realFormat(0, xs)
				if len(t) > 200 {
					t = append(t[:200:200], "..."...)
				}
				back := "-"
				if aerr == nil {
					full, _ := realFormat(0, xs)
					back = realScan(full)
					if len(back) > 200 {
						back = back[:200] + "..."
					}
				}
				h.e.Fail("accept-vs-limits", fmt.Sprintf("%s: Format([values]) returns %v but the values are within the reader's limits: %v; text %q reads back as %s (limits %v)", class, aerr, inLimits, t, back, h.L),
					map[string]any{"values": rawList(xs), "limits": []int{h.L.str, h.L.name, h.L.arr, h.L.dict, h.L.depth}})
			}
		}
		if aerr == nil && fit && !inLimits {
			return
		}
		// model vs implementation: format_checked (top level, nothing encloses the values)
		h.nfa++
		if nonFinite(xs) {
			// NaN and the infinities are not values of the model (OReal is a finite real's token)
		} else if !inLimits || strings.HasPrefix(class, "limit") || strings.HasPrefix(class, "nest") || h.nfa%16 == 0 {
			_, terr := realFormat(0, xs)
			id := h.id("f")
			obs := "accept"
			if terr != nil {
				obs = "refuse"
			}
			h.e.Line("cases.txt", "%s FA %s", id, rawList(xs))
			h.e.Line("impl.obs", "%s %s", id, obs)
		}
	}
	if dict2 && inLimits {
		reps := 6
		if class == "key-family" {
			reps = 24
		}
		h.deterministic(xs, reps, class)
	}
	h.nwide++
	for p := 0; p < 2; p++ {
		if strings.HasPrefix(class, "wide") && p != h.nwide%2 {
			continue // wide cases: the model sees one of the two styles, alternating (the oracle sees both)
		}
		opt := pdf.OutputOptions(0)
		if p == 1 {
			opt = pdf.OptPretty
		}
		text, err := realFormat(opt, xs)
		if err != nil {
			continue
		}
		// (a) real formatter -> model scanner
		id := h.id("a")
		h.e.Line("cases.txt", "%s S %s", id, hx(text))
		if inLimits {
			h.e.Line("impl.obs", "%s %s", id, want)
		} else {
			// beyond the limits: the two scanners must still agree
			h.e.Line("impl.obs", "%s %s", id, realScan(text))
		}
		if inLimits && dict2 && (p == 0 || class == "key-family") {
			// the key sequence the formatter emitted, as the model scanner reads it from the
			// text, against the model's SortedKeys order (Scan.text_ordered)
			id := h.id("k")
			h.e.Line("cases.txt", "%s SO %s", id, hx(text))
			h.e.Line("impl.obs", "%s sorted", id)
		}
		if inLimits && h.L == stdLim {
			h.layoutN++
			if h.layoutN%h.e.Pick(6, 3) == 0 {
				h.layout(text, want, class)
				if isAtoms(xs) && len(text) <= 40 && h.layoutN%5 == 0 {
					h.buffered(text, []string{"1024", "1", "7,300,1", "1000,1000", "3"}[h.layoutN%4])
				}
			}
		}
		// (b) model formatter -> real scanner; standard limits only
		if inLimits && h.L == stdLim {
			id := h.id("b")
			h.e.Line("cases_b.txt", "%s F %d %s", id, p, rawList(xs))
			h.e.Line("want_b.obs", "%s %s", id, want)
			if len(text)%3 == 0 {
				// the model formatter under a full option mask (Format.format_opt)
				id := h.id("b")
				h.e.Line("cases_b.txt", "%s FO %d %s", id, (h.n*7)%32, rawList(xs))
				h.e.Line("want_b.obs", "%s %s", id, want)
			}
		}
	}
	h.e.Sample(4, map[string]any{"kind": class, "values": rawList(xs)})
}

// text: one case of arbitrary bytes, (c).
func (h *harness) text(data []byte, class string) {
	id := h.id("c")
	obs := realScan(data)
	h.e.Line("cases.txt", "%s S %s", id, hx(data))
	h.e.Line("impl.obs", "%s %s", id, obs)
	cl := class + ":ok"
	if strings.HasPrefix(obs, "err") {
		cl = class + ":" + obs
	}
	h.e.Count(true, "c"+string(data), cl)
	if obs == "err:panic" {
		h.e.Fail("scanner-panic", fmt.Sprintf("the scanner panics on %q", data), map[string]any{"text": hx(data)})
	}
}

// stringsAndNames: ParseString / ParseName round trips of one byte string.
func (h *harness) stringAndName(s []byte) {
	h.e.Count(true, "sn"+string(s), "string+name")
	for p := 0; p < 2; p++ {
		opt := pdf.OutputOptions(0)
		if p == 1 {
			opt = pdf.OptPretty
		}
		text, _ := realFormat(opt, []pdf.Object{pdf.String(s)})
		want := "ok S" + hx(s)
		if got := realParseString(text); got != want {
			h.e.Fail("roundtrip", fmt.Sprintf("ParseString(Format(%q)) = %s; text %q", s, got, text), map[string]any{"string": hx(s), "opt": int(opt)})
		}
		id := h.id("a")
		h.e.Line("cases.txt", "%s PS %s", id, hx(text))
		h.e.Line("impl.obs", "%s %s", id, want)
		id = h.id("bs")
		h.e.Line("cases_b.txt", "%s FS %d %s", id, p, hx(s))
		h.e.Line("want_b.obs", "%s %s", id, want)
	}
	text, _ := realFormat(0, []pdf.Object{pdf.Name(s)})
	want := "ok N" + hx(s)
	if got := realParseName(text); got != want {
		h.e.Fail("roundtrip", fmt.Sprintf("ParseName(Format(/%q)) = %s; text %q", s, got, text), map[string]any{"name": hx(s)})
	}
	id := h.id("a")
	h.e.Line("cases.txt", "%s PN %s", id, hx(text))
	h.e.Line("impl.obs", "%s %s", id, want)
	id = h.id("bn")
	h.e.Line("cases_b.txt", "%s FN %s", id, hx(s))
	h.e.Line("want_b.obs", "%s %s", id, want)
}

// parseBytes: ParseString / ParseName on arbitrary bytes, (c).
func (h *harness) parseBytes(data []byte) {
	id := h.id("c")
	h.e.Line("cases.txt", "%s PS %s", id, hx(data))
	h.e.Line("impl.obs", "%s %s", id, realParseString(data))
	id = h.id("c")
	h.e.Line("cases.txt", "%s PN %s", id, hx(data))
	h.e.Line("impl.obs", "%s %s", id, realParseName(data))
	h.e.Count(true, "pb"+string(data), "parse-bytes")
}

// ---------------------------------------------------------------------------
// generators

var alpha = []byte{'(', ')', '\\', '\r', '\n', '#', '/', '%', '<', '>', '[', ']', ' ', 0, 'a', '0', 0x7f, 0x80, 0xff}

func (h *harness) rbytes(max int) []byte {
	r := h.e.Rand
	n := r.IntN(max + 1)
	if r.IntN(4) == 0 {
		n = r.IntN(4)
	}
	b := make([]byte, n)
	mode := r.IntN(4)
	for i := range b {
		switch mode {
		case 0:
			b[i] = alpha[r.IntN(len(alpha))]
		case 1:
			b[i] = byte(r.IntN(256))
		case 2:
			b[i] = byte(0x21 + r.IntN(0x5e))
		default:
			if r.IntN(3) == 0 {
				b[i] = alpha[r.IntN(len(alpha))]
			} else {
				b[i] = byte('a' + r.IntN(26))
			}
		}
	}
	return b
}

var specialInts = []int64{0, 1, -1, 7, 9, 10, -10, 65535, 65536, 1<<24 - 1, 1 << 24, math.MaxInt32, math.MinInt32, math.MaxInt64, math.MinInt64, math.MaxInt64 - 1, math.MinInt64 + 1, 1e18, -1e18}

var specialReals = []float64{0, math.Copysign(0, -1), 0.5, -0.5, 1, -1, 2, 1e15, 1e21, 1e22, 123456789.125, 1.0 / 3, -2.0 / 3, 5e-324, 2.2250738585072014e-308,
	math.MaxFloat64, -math.MaxFloat64, math.MaxFloat32, math.SmallestNonzeroFloat32, 9007199254740993, 0.1, 0.30000000000000004, 1e-7, 123456.7, 1e300, 4.35, 17.000000000000004}

func (h *harness) rint() pdf.Integer {
	r := h.e.Rand
	switch r.IntN(4) {
	case 0:
		return pdf.Integer(specialInts[r.IntN(len(specialInts))])
	case 1:
		return pdf.Integer(r.IntN(2000) - 1000)
	case 2:
		return pdf.Integer(int64(r.Uint64()))
	}
	return pdf.Integer(int64(r.Uint64()) >> uint(r.IntN(64)))
}

func (h *harness) rreal() pdf.Real {
	r := h.e.Rand
	switch r.IntN(6) {
	case 0:
		return pdf.Real(specialReals[r.IntN(len(specialReals))])
	case 4:
		// full 53-bit mantissas of moderate magnitude: 15 to 17 significant digits, short text
		x := r.Float64() * math.Pow10(r.IntN(9)-4)
		if r.IntN(2) == 0 {
			x = -x
		}
		return pdf.Real(x)
	case 5:
		// integral reals around the int64 range and around 1e15..1e19 (digit-count boundaries)
		x := math.Pow10(14+r.IntN(7)) * (1 + float64(r.IntN(9000))/1000)
		if r.IntN(2) == 0 {
			x = -x
		}
		return pdf.Real(math.Trunc(x))
	case 1:
		return pdf.Real(float64(r.IntN(200000)-100000) / 100)
	case 2:
		return pdf.Real(float64(r.IntN(2000) - 1000))
	}
	for {
		f := math.Float64frombits(r.Uint64())
		if !math.IsNaN(f) && !math.IsInf(f, 0) {
			return pdf.Real(f)
		}
	}
}

func (h *harness) rref() pdf.Reference {
	r := h.e.Rand
	switch r.IntN(4) {
	case 0:
		return pdf.NewReference(0, 0)
	case 1:
		return pdf.NewReference(maxXRef-1, maxGen)
	case 2:
		return pdf.NewReference(uint32(r.IntN(100)), uint16(r.IntN(3)))
	}
	return pdf.NewReference(uint32(r.IntN(maxXRef)), uint16(r.IntN(maxGen+1)))
}

var someKeys = []pdf.Name{"Type", "Subtype", "A", "B", "Length", "", "K#", "a b", "Typ", "Types", "S", "\xff", "(", "R", "null",
	"F1", "F01", "F10", "F2", "a7b", "a007b", "ab", "AB", "Ab", "\x80", "A#42", "AA", "1", "01"}

func (h *harness) rkey() pdf.Name {
	r := h.e.Rand
	if r.IntN(3) > 0 {
		return someKeys[r.IntN(len(someKeys))]
	}
	return pdf.Name(h.rbytes(6))
}

func (h *harness) robj(depth int) pdf.Object {
	r := h.e.Rand
	k := r.IntN(14)
	if depth <= 0 && k >= 10 {
		k = r.IntN(10)
	}
	switch k {
	case 0:
		return nil
	case 1:
		return pdf.Boolean(r.IntN(2) == 0)
	case 2, 3:
		return h.rint()
	case 4:
		return h.rreal()
	case 5:
		return pdf.Name(h.rbytes(8))
	case 6:
		return pdf.String(h.rbytes(12))
	case 7:
		return h.rref()
	case 8:
		if r.IntN(2) == 0 {
			return pdf.Array(nil)
		}
		return pdf.Dict(nil)
	case 9:
		return pdf.String(h.rbytes(3))
	case 10, 11:
		n := r.IntN(5)
		a := pdf.Array{}
		for i := 0; i < n; i++ {
			a = append(a, h.robj(depth-1))
		}
		return a
	default:
		n := r.IntN(5)
		d := pdf.Dict{}
		for i := 0; i < n; i++ {
			d[h.rkey()] = h.robj(depth - 1)
		}
		return d
	}
}

// representatives of every token kind, three each
func reps() [][]pdf.Object {
	return [][]pdf.Object{
		{nil, nil, nil},
		{pdf.Boolean(true), pdf.Boolean(false), pdf.Boolean(true)},
		{pdf.Integer(0), pdf.Integer(-5), pdf.Integer(math.MaxInt64)},
		{pdf.Real(0.5), pdf.Real(-2), pdf.Real(1e15)},
		{pdf.Name(""), pdf.Name("A"), pdf.Name("1#R")},
		{pdf.Name("R"), pdf.Name("null"), pdf.Name("obj")},
		{pdf.String("R"), pdf.String("0 0 R"), pdf.String("<<")},
		{pdf.String(""), pdf.String("a"), pdf.String("(\r\n")},
		{pdf.String("\x00"), pdf.String("\xff\xfe"), pdf.String("\x80>")},
		{pdf.Array{}, pdf.Array{pdf.Integer(1)}, pdf.Array{pdf.Name("N")}},
		{pdf.Dict{}, pdf.Dict{"K": pdf.Integer(1)}, pdf.Dict{"K": nil, "L": pdf.Name("V")}},
		{pdf.NewReference(1, 0), pdf.NewReference(maxXRef-1, maxGen), pdf.NewReference(0, 0)},
		{pdf.Array(nil), pdf.Array(nil), pdf.Array(nil)},
		{pdf.Dict(nil), pdf.Dict(nil), pdf.Dict(nil)},
	}
}

var corpusTexts = []string{
	"<</A 1 2 R>>", "<</A 1 2>>", "<</A 1 2 R", "<</A 1 >", "<</A 1>", "<</A 1 2.5 R>>", "<</A 1 +2 R>>", "<</A -1 2 R>>", "<</A 1 65536 R>>",
	"<</A 16777216 0 R>>", "<</A 16777215 65535 R>>", "<</A 1 2 R/B 3>>", "<</A 1/A 2>>", "<</A null>>", "<</A>>", "<</A /B /C>>", "<< /A 1 % c\n /B 2 >>",
	"[1 2 R R]", "[R]", "[1 R]", "[1 2 R]", "[1 2 3 R]", "[1 2 R 3 R]", "[1 2. R]", "[-1 2 R]", "[1 65536 R]", "[16777216 0 R]", "[1 2R]", "[1 2 Rx]", "[1 2 R3]",
	"(a\\\r\nb)", "(a\\\rb)", "(a\\\nb)", "(a\rb)", "(a\r\nb)", "(a\n\rb)", "(\\778)", "(\\7)", "(\\78)", "(\\400)", "(\\0053)", "(\\x)", "(\\", "(", "(()", "(()))", "())",
	"<4>", "<4 1\n>", "<zz41>", "<", "<41", "<>", "<4G>", "<<>>", "<<>", "<< >>", "<<\n>>",
	"/A#4", "/A#41", "/#", "/A#4g", "/#23", "/#00", "/", "//", "/ /", "/A/B", "/A(b)", "/A<41>", "/A[1]", "/A%c", "/A\x00B", "/A\x80",
	"<</Length 5>>stream\nabcde\nendstream", "<<>>stream", "<<>> stream", "<<>>%c\nstream\n", "<</Length 1 0 R>>stream\r\n", "<<>>strea",
	"nulltrue", "truefalse[]", "nul", "tru", "fals", "falsetrue", "null1", "1null", "nullnull", "true/A",
	"1.", ".", "+", "-", "-.", "+.", "1..2", "--1", "1e5", "1.5.5", "+5", "-0", "00012", "-.5", "+.5", "5.", ".5.", "1-2", "1+2",
	"99999999999999999999", "9223372036854775807", "9223372036854775808", "-9223372036854775808", "-9223372036854775809",
	"179769313486231570814527423731704356798070567525844996598917476803157260780028538760589558632766878171540458953514382464234321326889464182768467546703537516986049910576551282076245490090389328944075868508455133942304583236903222948165808559332123348274797826204144723168738177180919299881250404026184124858368",
	"179769313486231580793728971405303415079934132710037826936173778980444968292764750946649017977587207096330286416692887910946555547851940402630657488671505820681908902000708383676273854845817711531764475730270069855571366959622842914819860834936475292719074168444365510704342711559699508093042880177904174497791",
	"179769313486231580793728971405303415079934132710037826936173778980444968292764750946649017977587207096330286416692887910946555547851940402630657488671505820681908902000708383676273854845817711531764475730270069855571366959622842914819860834936475292719074168444365510704342711559699508093042880177904174497792",
	"<</A", "<<", "[", "[[", "[[]", "]", "]]", "[]]", "%c\n1", "1%c", "1%c\n2", "1%c\r2", "/A%c\n", "<</A%x\n1>>", "<</ 1>>", "<< / / >>", "<</A 1 /B>>", "<</A<</B<</C 1>>>>>>",
	"/#4F", "/A#fF", "/#4f#4F#Ff", "/#4G", "<4F>", "<aF>", "<AbCdEf>", "<4f4F>", "(\\b\\f\\t\\n\\r)", "(\\(\\)\\\\)", "(\\a\\B)", "(\t\b\f)",
	"[1 0 R%c\n2 0 R]", "<</A 1 0 R/B 2 0 R>>", "<</A 1%c\n0 R>>", "[ 1  0\tR\f]", "[\x00]", "<</A\x00 1>>",
	"{", "}", "x", "R", "obj", "endobj", "\x00", "\xff", "1 0 obj", "[1 0 obj]", "[<</A 1>>]", "[<</A 1 0 R>>]", "[/A 1 0 R]", "[(a)(b)]", "[<41><42>]", "[<41>>",
}

func (h *harness) mutate(t []byte, pool [][]byte) []byte {
	r := h.e.Rand
	out := append([]byte(nil), t...)
	inserts := []string{" R", "R", "stream", "<<", ">>", "]", "[", "%c\n", "%", "#", "\\", "+.", "-", "1.2.3", "99999999999999999999", " 0 0 R", " 16777216 0 R", " 1 65536 R", " -1 0 R", "null", "true", "false", "(", ")", "<", ">", "/", " ", "\r", "\n", ".", "#4", "#41", "\\r", "\\\r\n", "\\053", "\x00", "#4F", "#fF", "<4F5f>", "\\t", "\\b", "\\f", "F", "A"}
	for k := r.IntN(3) + 1; k > 0; k-- {
		switch r.IntN(7) {
		case 0: // delete a byte
			if len(out) > 0 {
				i := r.IntN(len(out))
				out = append(out[:i], out[i+1:]...)
			}
		case 1: // insert a byte
			i := r.IntN(len(out) + 1)
			b := alpha[r.IntN(len(alpha))]
			if r.IntN(3) == 0 {
				b = byte(r.IntN(256))
			}
			out = append(out[:i], append([]byte{b}, out[i:]...)...)
		case 2: // replace a byte
			if len(out) > 0 {
				out[r.IntN(len(out))] = alpha[r.IntN(len(alpha))]
			}
		case 3: // truncate
			if len(out) > 0 {
				out = out[:r.IntN(len(out))]
			}
		case 4: // insert a token
			i := r.IntN(len(out) + 1)
			tok := inserts[r.IntN(len(inserts))]
			out = append(out[:i], append([]byte(tok), out[i:]...)...)
		case 5: // splice with another text
			if len(pool) > 0 {
				o := pool[r.IntN(len(pool))]
				i := r.IntN(len(out) + 1)
				j := r.IntN(len(o) + 1)
				out = append(append([]byte(nil), out[:i]...), o[j:]...)
			}
		default: // duplicate a segment
			if len(out) > 1 {
				i := r.IntN(len(out))
				j := i + r.IntN(len(out)-i)
				seg := append([]byte(nil), out[i:j]...)
				out = append(out[:j], append(seg, out[j:]...)...)
			}
		}
	}
	return out
}

func nested(depth int, leaf pdf.Object, useDict bool) pdf.Object {
	o := leaf
	for i := 0; i < depth; i++ {
		if useDict && i%2 == 1 {
			o = pdf.Dict{"K": o}
		} else {
			o = pdf.Array{o}
		}
	}
	return o
}

// ---------------------------------------------------------------------------

func phase1() {
	e := common.New(1)
	h := &harness{e: e, pfx: "o", nsig: map[string]int{}}
	h.useLimits(stdLim)

	// 0. corpus of hand-written texts, (c), and as string/name buffers
	for _, t := range corpusTexts {
		h.text([]byte(t), "corpus")
		h.parseBytes([]byte(t))
	}

	// 0b. tokens whose look-ahead windows (PeekN(3) of tryHex, PeekN(1) of the octal escapes,
	// PeekN(5) of ReadObject, the ScanBytes loops) straddle the end of the scanner's buffer:
	// real scanner vs the model's readers over the model of the buffered source
	h.pfx = "B"
	for i, t := range []string{
		"/A#42C/D#4 /#/#4G#",
		"/Name#20with#2Fescapes#",
		"(a\\101\\7b\\\r\nc\\(\\)) (x\ry\r\nz\\)",
		"(oct\\1\\12\\123\\1234\\8\\400)(\\n\\r\\t\\b\\f\\\n\\z)",
		"<48 65 6C6c6f7> <> <4>",
		"-12.50 +7 .5 123456789012 1. 99999999999999999999 -.0",
		"% comment\r/N %c\n 12%x\r\n(s)",
		"true false null/T(()) 5 truefalse nullnull",
		"/A#4",
		"(a\\1",
		"12.",
	} {
		h.buffered([]byte(t), []string{"1024", "1", "7,300,1", "1000,1000", "3"}[i%5])
	}

	// 1. all strings and names of length <= 3 (thorough: 4) over the delimiter alphabet
	maxLen := e.Pick(3, 4)
	var all [][]byte
	var rec func(prefix []byte)
	rec = func(prefix []byte) {
		all = append(all, append([]byte(nil), prefix...))
		if len(prefix) == maxLen {
			return
		}
		for _, a := range alpha {
			rec(append(prefix, a))
		}
	}
	rec(nil)
	h.pfx = "s"
	for i, s := range all {
		h.stringAndName(s)
		// every string and name also as an element of an object sequence, next to other tokens
		if len(s) <= 2 || i%7 == 0 {
			h.objects([]pdf.Object{pdf.Name(s), pdf.String(s), pdf.Name(s), pdf.Integer(1), pdf.Name(s)}, "alphabet-sequence", true)
		}
	}

	// 1b. one or two bytes that need escaping at every position of strings and names of every
	// length up to 20 (formatString writes through an 8-byte buffer), and long tokens whose
	// escapes lie around the scanner's buffer boundaries
	h.pfx = "e"
	specials := []byte{'(', ')', '\\', '\r', '\n', '#', '/', 0x00, 0xff, ' '}
	for L := 1; L <= 20; L++ {
		for pos := 0; pos < L; pos++ {
			for _, sp := range specials {
				b := bytes.Repeat([]byte{'a'}, L)
				b[pos] = sp
				h.objects([]pdf.Object{pdf.String(b), pdf.Name(b)}, "escape-position", true)
				if pos+1 < L && (L%3 == 0 || e.Thorough) {
					for _, sp2 := range []byte{'(', ')', '\r', '\n', '\\'} {
						c := append([]byte(nil), b...)
						c[pos+1] = sp2
						h.objects([]pdf.Object{pdf.String(c)}, "escape-position", true)
					}
				}
			}
		}
	}
	bases := []int{127, 255, 1016, 1024, 2040}
	if e.Thorough {
		bases = append(bases, 3064, 4090)
	}
	for _, base := range bases {
		for d := 0; d < e.Pick(8, 16); d++ {
			n := base + d
			for _, sp := range []byte{'#', '(', '\r', 0x80} {
				b := bytes.Repeat([]byte{'a'}, n)
				b[n-1] = sp
				b[n/2] = sp
				if n < 4095 {
					h.objects([]pdf.Object{pdf.Name(b), pdf.Integer(1)}, "long-token", true)
				}
				h.objects([]pdf.Object{pdf.String(b), pdf.Name("N#")}, "long-token", true)
			}
		}
	}
	// dictionaries and arrays of every size up to 40
	for n := 0; n <= 40; n++ {
		d := pdf.Dict{}
		var a pdf.Array = pdf.Array{}
		for i := 0; i < n; i++ {
			d[pdf.Name(fmt.Sprintf("K%d#", i*7%41))] = pdf.Integer(i)
			a = append(a, pdf.Name(fmt.Sprintf("N%d", i)), pdf.NewReference(uint32(i), 0))
		}
		d["Type"] = pdf.Name("T")
		h.objects([]pdf.Object{d, a}, "sizes", true)
	}

	// 1b. names and strings with a literal '#' followed by hex digits of either case (what the
	// reader would take for an escape if the writer did not escape the '#')
	h.pfx = "h"
	{
		const hexd = "0123456789abcdefABCDEFgG"
		for i := 0; i < len(hexd); i++ {
			for j := 0; j < len(hexd); j++ {
				n := "#" + string(hexd[i]) + string(hexd[j])
				h.objects([]pdf.Object{pdf.Name(n), pdf.Name("C" + n + "x"), pdf.Dict{pdf.Name(n): pdf.Name(n + n)}}, "hash-hex-name", (i+j)%8 == 0)
			}
			h.objects([]pdf.Object{pdf.Name("#" + string(hexd[i])), pdf.Name("##" + string(hexd[i]) + "#")}, "hash-hex-name", false)
		}
	}

	// 1c. dictionary key families that are adversarial for a comparator: common prefixes, keys
	// that are prefixes of each other, digit runs with leading zeros, case variants, bytes >= 0x80
	// (signed/unsigned, UTF-8 composed/decomposed), keys that coincide after #-escaping or
	// unescaping, length-first vs byte-first, the special keys and their neighbours.  Every
	// family as a whole, every pair and triple within a family, and random mixtures.
	h.pfx = "k"
	{
		families := [][]pdf.Name{
			{"A", "AB", "ABC", "AB0", "ABD", "AC", "B"},
			{"", "T", "Ty", "Typ", "Type", "Types", "Type0", "S", "Sub", "Subtype", "Subtypes", "Subtyp", "U", "R"},
			{"F1", "F01", "F001", "F10", "F2", "F02", "F9", "F010", "F1x", "F01x", "F"},
			{"1", "01", "001", "10", "2", "9", "0", "00", "1.0", "+1", "-1"},
			{"a7b", "a007b", "a07b", "a7", "a70b", "a8b", "a10b", "a9b"},
			{"abc", "ABC", "Abc", "aBc", "abC", "aBC", "ab", "AB"},
			{"\x7f", "\x80", "\xff", "A\x7f", "A\x80", "A", "\x00", "\x01", "~"},
			{"\xc3\xa9", "e\xcc\x81", "e", "f", "\xc3", "\xc3\xa8", "E", "z"},
			{"AB", "A#42", "#41B", "A#4", "A#", "#", "##", "#23", "A B", "A#20B", "A#2"},
			{"B", "AA", "AAA", "BA", "C", "a", "_", "-", "+", ".", "Z"},
			{"a b", "a\tb", "a\nb", "a(b", "a)b", "a/b", "a%b", "a<b", "a[b", "ab"},
		}
		val := func(i int) pdf.Object { return pdf.Integer(i) }
		mk := func(keys []pdf.Name) pdf.Dict {
			d := pdf.Dict{}
			for i, k := range keys {
				d[k] = val(i)
			}
			return d
		}
		for _, fam := range families {
			h.objects([]pdf.Object{mk(fam)}, "key-family", true)
			h.objects([]pdf.Object{pdf.Array{mk(fam), pdf.Dict{"K": mk(fam)}}}, "key-family", false)
			for i := 0; i < len(fam); i++ {
				for j := i + 1; j < len(fam); j++ {
					h.objects([]pdf.Object{mk([]pdf.Name{fam[i], fam[j]})}, "key-family", false)
					for l := j + 1; l < len(fam); l++ {
						if (i+j+l)%e.Pick(3, 1) == 0 {
							h.objects([]pdf.Object{mk([]pdf.Name{fam[l], fam[i], fam[j]})}, "key-family", false)
						}
					}
				}
			}
		}
		var allKeys []pdf.Name
		for _, fam := range families {
			allKeys = append(allKeys, fam...)
		}
		for i := 0; i < e.Pick(300, 6000); i++ {
			n := 2 + e.Rand.IntN(12)
			keys := make([]pdf.Name, n)
			for j := range keys {
				keys[j] = allKeys[e.Rand.IntN(len(allKeys))]
			}
			h.objects([]pdf.Object{mk(keys)}, "key-family", i%10 == 0)
		}
	}

	// 2. all ordered pairs of token kinds x 3 representatives, in four contexts
	h.pfx = "p"
	rs := reps()
	for _, ka := range rs {
		for _, a := range ka {
			for _, kb := range rs {
				for _, b := range kb {
					h.objects([]pdf.Object{a, b}, "pair-toplevel", true)
					h.objects([]pdf.Object{pdf.Array{a, b}}, "pair-array", true)
					h.objects([]pdf.Object{pdf.Dict{"X": a, "Y": b}}, "pair-dict", true)
					h.objects([]pdf.Object{pdf.Array{pdf.Integer(7), a, pdf.Integer(8), pdf.Integer(9), b}, pdf.Dict{"Type": b, "A": a}}, "pair-after-integers", true)
				}
			}
		}
	}

	// 2b. every single byte as a string and as a name, alone and next to each special byte;
	// strings around the printable/binary threshold of the hex form
	h.pfx = "y"
	for b := 0; b < 256; b++ {
		h.objects([]pdf.Object{pdf.String([]byte{byte(b)}), pdf.Name([]byte{byte(b)}), pdf.Integer(b)}, "single-byte", true)
		if b%8 == 0 || e.Thorough {
			for _, sp := range []byte{'(', ')', '\\', '\r', '\n', '#'} {
				h.objects([]pdf.Object{pdf.String([]byte{sp, byte(b)}), pdf.Name([]byte{byte(b), sp}), pdf.String([]byte{byte(b), sp, byte(b)})}, "single-byte", true)
			}
		}
	}
	for bad := 0; bad <= 4; bad++ {
		for good := max(0, 9*bad-2); good <= 9*bad+2; good++ {
			b := append(bytes.Repeat([]byte{0x01}, bad), bytes.Repeat([]byte{'x'}, good)...)
			h.objects([]pdf.Object{pdf.String(b), pdf.Array{pdf.String(b), pdf.String(append([]byte{'('}, b...))}}, "hex-threshold", true)
		}
	}

	// 2c. mostly printable strings (so that OptPretty keeps the literal form: printable >= 9 x
	// other) with one to three control / non-printable / high bytes, each placed before every
	// kind of following byte and at the start, in the middle and at the end of the string
	h.pfx = "z"
	ctrl := []byte{0x00, 0x01, 0x07, 0x08, 0x0b, 0x0c, 0x0e, 0x1b, 0x1f, 0x7f, 0x80, 0x9f, 0xff, '\t'}
	follow := []string{"0", "1", "7", "8", "9", "a", "Z", "(", ")", "\\", "\r", "\n", " ", "/", "#", "%", "<", ""}
	text := []byte("The quick brown fox jumps over the lazy dog 0123456789 times")
	for _, c := range ctrl {
		for _, f := range follow {
			for _, L := range []int{10, 12, 25, 60} {
				for _, pos := range []int{0, L / 2, L - 1 - len(f)} {
					if pos < 0 {
						continue
					}
					b := append([]byte(nil), text[:L]...)
					b[pos] = c
					copy(b[pos+1:], f)
					h.objects([]pdf.Object{pdf.String(b)}, "control-in-printable", true)
				}
			}
			// two and three such bytes (20+ and 30+ printable bytes keep the literal form)
			for _, c2 := range []byte{0x00, 0x02, 0x1f, 0x80} {
				b := append([]byte(nil), text[:24]...)
				b[3] = c
				copy(b[4:], f)
				b[12] = c2
				b[13] = c
				h.objects([]pdf.Object{pdf.String(b), pdf.Array{pdf.String(b[:22])}}, "control-in-printable", true)
				b3 := append([]byte(nil), text[:40]...)
				b3[0], b3[20], b3[38] = c, c2, c
				copy(b3[21:], f)
				copy(b3[39:], f)
				h.objects([]pdf.Object{pdf.Dict{"K": pdf.String(b3)}}, "control-in-printable", true)
			}
		}
	}
	for i := 0; i < e.Pick(1500, 60000); i++ {
		L := 10 + e.Rand.IntN(51)
		b := make([]byte, L)
		for j := range b {
			const printable = "abcXYZ 0123456789.,-()\\/#"
			b[j] = printable[e.Rand.IntN(len(printable))]
		}
		for k := 1 + e.Rand.IntN(min(3, L/10)); k > 0; k-- {
			c := byte(e.Rand.IntN(32))
			if e.Rand.IntN(3) == 0 {
				c = byte(0x7f + e.Rand.IntN(129))
			}
			b[e.Rand.IntN(L)] = c
		}
		h.objects([]pdf.Object{pdf.String(b)}, "control-in-printable-random", true)
	}

	// 3. numbers
	h.pfx = "n"
	for k := 0; k <= 63; k++ {
		p2 := int64(1) << uint(k)
		h.objects([]pdf.Object{pdf.Integer(p2), pdf.Integer(-p2), pdf.Integer(p2 - 1), pdf.Real(float64(p2)), pdf.Real(-float64(p2) - 1), pdf.Real(float64(p2) * 1.5)}, "power-of-two", true)
	}
	for k := -22; k <= 22; k++ {
		x := math.Pow10(k)
		xs := []pdf.Object{pdf.Real(x), pdf.Real(-x), pdf.Real(math.Nextafter(x, 0)), pdf.Real(math.Nextafter(x, math.Inf(1))), pdf.Real(x * 9.999999999999999), pdf.Real(x * 1.2345678901234567)}
		if k >= 0 && k <= 18 {
			i := int64(x)
			xs = append(xs, pdf.Integer(i), pdf.Integer(-i), pdf.Integer(i-1), pdf.Integer(1-i), pdf.Real(float64(i-1)), pdf.Real(float64(i+1)))
		}
		h.objects(xs, "power-of-ten", true)
	}
	for _, x := range specialInts {
		h.objects([]pdf.Object{pdf.Integer(x), pdf.Integer(x), pdf.Real(float64(x))}, "special-int", true)
	}
	for _, x := range specialReals {
		h.objects([]pdf.Object{pdf.Real(x), pdf.Real(x), pdf.Integer(1), pdf.Real(x)}, "special-real", true)
	}
	for i := 0; i < e.Pick(2000, 100000); i++ {
		h.objects([]pdf.Object{h.rreal(), h.rint(), h.rreal()}, "random-numbers", true)
	}

	// 3b. values of the Go types that have no text the reader would read back: reals that are
	// not finite, references whose number is not below maxXRefSize.  The writer must refuse
	// them (or the round trip fails for a value it accepted).
	h.pfx = "u"
	{
		var bad []pdf.Object
		for _, f := range []float64{math.NaN(), math.Inf(1), math.Inf(-1)} {
			bad = append(bad, pdf.Real(f))
		}
		for _, n := range []uint64{maxXRef, maxXRef + 1, 1 << 31, 1<<32 - 1} {
			bad = append(bad, pdf.Reference(n), pdf.Reference(n|uint64(maxGen)<<32))
		}
		bad = append(bad, pdf.NewReference(maxXRef-1, 0), pdf.NewReference(maxXRef-1, maxGen))
		for _, v := range bad {
			h.objects([]pdf.Object{v}, "unwritable", true)
			h.objects([]pdf.Object{pdf.Integer(1), v, pdf.Name("N")}, "unwritable", false)
			h.objects([]pdf.Object{pdf.Array{pdf.Integer(7), v}}, "unwritable", false)
			h.objects([]pdf.Object{pdf.Dict{"K": v, "L": pdf.Array{v}}}, "unwritable", false)
		}
	}

	// 4. nesting up to and beyond the depth limit
	h.pfx = "d"
	for _, d := range []int{1, 2, 10, 100, 253, 254, 255, 256, 257, 300} {
		h.objects([]pdf.Object{nested(d, pdf.Integer(1), false)}, "nesting", true)
		h.objects([]pdf.Object{nested(d, pdf.NewReference(1, 0), true)}, "nesting", true)
	}

	// 5. random trees
	h.pfx = "t"
	var pool [][]byte
	for i := 0; i < e.Pick(3000, 150000); i++ {
		n := 1 + e.Rand.IntN(3)
		var xs []pdf.Object
		for j := 0; j < n; j++ {
			xs = append(xs, h.robj(3))
		}
		h.objects(xs, "random-tree", true)
		if len(pool) < 4000 {
			t, _ := realFormat(optOf(e.Rand.IntN(32)), xs)
			pool = append(pool, t)
		}
	}

	// 5b. long sequences: several scanner buffers of text
	h.pfx = "g"
	for i := 0; i < e.Pick(150, 3000); i++ {
		n := 30 + e.Rand.IntN(90)
		var xs []pdf.Object
		for j := 0; j < n; j++ {
			xs = append(xs, h.robj(2))
		}
		h.objects(xs, "long-sequence", true)
	}

	// 5c. many small values in one scanner: width far beyond the depth limit.  Whatever state the
	// scanner keeps between values (nesting counter, flags, buffer bookkeeping) must be the same
	// after value k as before it: hundreds to thousands of empty arrays, empty dictionaries, empty
	// strings and names, nulls and nested-then-closed containers, as a flat sequence, as the
	// elements of one array, as the values of one dictionary and scattered through a tree; under
	// the standard limits and with short strings/names but wide containers.
	h.pfx = "w"
	{
		smallItems := []func() pdf.Object{
			func() pdf.Object { return pdf.Array{} },
			func() pdf.Object { return pdf.Dict{} },
			func() pdf.Object { return pdf.String("") },
			func() pdf.Object { return pdf.Name("") },
			func() pdf.Object { return nil },
			func() pdf.Object { return pdf.Array(nil) },
			func() pdf.Object { return pdf.Dict(nil) },
			func() pdf.Object { return pdf.Array{pdf.Array{}} },
			func() pdf.Object { return pdf.Array{pdf.Array{pdf.Array{}}} },
			func() pdf.Object { return pdf.Dict{"K": pdf.Array{}} },
			func() pdf.Object { return pdf.Dict{"A": pdf.Dict{}, "B": pdf.Array{}} },
			func() pdf.Object { return pdf.Array{pdf.Dict{}, pdf.Array{}, nil} },
			func() pdf.Object { return pdf.Integer(0) },
			func() pdf.Object { return pdf.Boolean(true) },
			func() pdf.Object { return pdf.NewReference(1, 0) },
			func() pdf.Object { return pdf.Real(0.5) },
			func() pdf.Object { return pdf.String("a\r") },
			func() pdf.Object { return pdf.Array{pdf.String("("), pdf.Name("#")} },
		}
		forms := func(items []pdf.Object, class string) {
			h.objects(items, class, true) // a flat sequence
			h.objects([]pdf.Object{append(pdf.Array{}, items...)}, class, true)
			d := pdf.Dict{}
			for i, it := range items {
				d[pdf.Name("K"+strconv.Itoa(i))] = it
			}
			h.objects([]pdf.Object{d, pdf.Array{}}, class, true)
			var tree pdf.Array
			for i := 0; i < len(items); i += 16 {
				j := i + 16
				if j > len(items) {
					j = len(items)
				}
				tree = append(tree, pdf.Dict{"C": append(pdf.Array{}, items[i:j]...), "E": pdf.Array{}})
			}
			h.objects([]pdf.Object{tree, pdf.Array{}, pdf.Dict{}}, class, true)
		}
		for round := 0; round < 2; round++ {
			if round == 1 {
				h.useLimits(lim{8, 6, 5000, 3000, stdLim.depth})
			}
			for k, mk := range smallItems {
				for _, n := range []int{256, 300 + 37*k} {
					if (n == 256) != (k%2 == 0) || (round == 1 && k%3 != 0) {
						continue
					}
					items := make([]pdf.Object, n)
					for i := range items {
						items[i] = mk()
					}
					forms(items, "wide-same")
				}
			}
			for _, n := range []int{255, 257, 1000, e.Pick(2000, 6000)} {
				if round == 1 && n != 257 && n != 1000 {
					continue
				}
				items := make([]pdf.Object, n)
				for i := range items {
					items[i] = smallItems[e.Rand.IntN(len(smallItems))]()
				}
				forms(items, "wide-mixed")
			}
		}
		h.useLimits(stdLim)
		// the same as raw texts, with and without white space inside and between the values
		for _, unit := range []string{"[]", "[ ]", "[]\n", "[\n]", "<<>>", "<< >>", "[[]]", "()", "<>", "/ ", "[<<>>]", "<</K[]>>", "<</K<<>>>>",
			"null ", "[]<<>>()", "[()]", "[/]", "1 0 R ", "[1 0 R]", "(\\\r)\n", "%c\n[]"} {
			for _, n := range []int{254, 255, 256, 257, 700} {
				t := strings.Repeat(unit, n)
				h.text([]byte(t), "wide-text")
				h.text([]byte("["+t+"]"), "wide-text")
				if n <= 256 {
					h.text([]byte("<</A["+t+"]/B "+t+">>"), "wide-text")
				}
			}
		}
	}

	// 6. mutated texts, (c)
	h.pfx = "m"
	for _, t := range corpusTexts {
		pool = append(pool, []byte(t))
	}
	for i := 0; i < e.Pick(6000, 400000); i++ {
		t := pool[e.Rand.IntN(len(pool))]
		m := h.mutate(t, pool)
		h.text(m, "mutant")
		if i%10 == 0 {
			h.parseBytes(m)
		}
	}

	// 7. the size limits, shrunk so that their edges are cheap to reach
	h.pfx = "l"
	small := lim{8, 6, 4, 3, stdLim.depth}
	h.useLimits(small)
	// a key that reaches maxNameBytes: ReadName gives up inside the loop and ReadDict goes on
	// from there, taking the error for the end of the dictionary
	for _, t := range []string{"<</F10x86>>", "<</F10x867>>", "<</F10x8>>", "<</A 1/F10x86>>", "<</F10x86 1>>",
		"<</F#310x86>>", "<</F10x8#36>>", "<</F10x86>", "<</F10x86", "[<</ABCDEF>>/ABCDEF/ABCDE]", "<</ABCDEF>>>>"} {
		h.text([]byte(t), "limit-key")
	}
	// nil entries are not written: neither their keys nor their number count
	h.objects([]pdf.Object{pdf.Dict{"ABCDEFGH": nil, "A": pdf.Integer(1)}}, "limit-nil-entry", true)
	h.objects([]pdf.Object{pdf.Dict{"A": pdf.Integer(1), "B": pdf.Integer(2), "C": pdf.Integer(3), "D": nil, "E": nil}}, "limit-nil-entry", true)
	h.objects([]pdf.Object{pdf.Dict{"A": pdf.Integer(1), "B": pdf.Integer(2), "C": pdf.Integer(3), "D": pdf.Array(nil)}}, "limit-nil-entry", true)
	h.objects([]pdf.Object{pdf.Array{pdf.Dict{"K": pdf.String("1234567")}, pdf.Dict{"K": pdf.String("12345678")}}}, "limit-nested", true)
	h.objects([]pdf.Object{pdf.Array{pdf.Array{pdf.Name("ABCDE")}, pdf.Array{pdf.Name("ABCDEF")}}}, "limit-nested", true)
	h.objects([]pdf.Object{pdf.Integer(1), pdf.Integer(2), pdf.Integer(3), pdf.Integer(4), pdf.Integer(5)}, "limit-toplevel", true)
	h.objects([]pdf.Object{pdf.Integer(1234567)}, "limit-number", true)
	for n := 0; n <= 12; n++ {
		s := bytes.Repeat([]byte{'a'}, n)
		b := bytes.Repeat([]byte{0xfe}, n)
		h.objects([]pdf.Object{pdf.String(s)}, "limit-string", true)
		h.objects([]pdf.Object{pdf.String(b)}, "limit-string", true)
		h.objects([]pdf.Object{pdf.Name(s)}, "limit-name", true)
		h.objects([]pdf.Object{pdf.Name(b)}, "limit-name", true)
		h.objects([]pdf.Object{pdf.Dict{pdf.Name(s): pdf.Integer(1)}}, "limit-name", true)
		var a pdf.Array
		d := pdf.Dict{}
		for i := 0; i < n; i++ {
			a = append(a, pdf.Integer(i))
			d[pdf.Name(fmt.Sprintf("K%d", i))] = pdf.Integer(i)
		}
		if a == nil {
			a = pdf.Array{}
		}
		h.objects([]pdf.Object{a}, "limit-array", true)
		h.objects([]pdf.Object{d}, "limit-dict", true)
		if n > 0 {
			ar := append(pdf.Array{}, a...)
			ar[n-1] = pdf.NewReference(5, 0)
			h.objects([]pdf.Object{ar}, "limit-array-ref", true)
			if n > 1 {
				ar2 := append(pdf.Array{}, a...)
				ar2[n-2] = pdf.NewReference(5, 0)
				h.objects([]pdf.Object{ar2}, "limit-array-ref", true)
			}
			dn := pdf.Dict{}
			for k, v := range d {
				dn[k] = v
			}
			dn["K0"] = nil
			h.objects([]pdf.Object{dn}, "limit-dict", true)
		}
		h.objects([]pdf.Object{pdf.Integer(int64(math.Pow10(n)) - 1), pdf.Real(float64(int64(math.Pow10(n))) + 0.5)}, "limit-number", true)
	}
	for i := 0; i < e.Pick(1500, 40000); i++ {
		t := pool[e.Rand.IntN(len(pool))]
		h.text(h.mutate(t, pool), "mutant-small-limits")
	}
	for i := 0; i < e.Pick(500, 20000); i++ {
		h.objects([]pdf.Object{h.robj(2), h.robj(2)}, "random-tree-small-limits", true)
	}
	h.useLimits(stdLim)

	e.Finish("a case is non-trivial when it reaches the formatter or a scanner with a value or text of its own; distinct by value list / text",
		map[string]any{"limits_small": []int{small.str, small.name, small.arr, small.dict, small.depth}})
}

// phase2: the model's formatted texts through the real parsers.
func phase2() {
	dir := "."
	if len(os.Args) > 2 && os.Args[1] == "-dir" {
		dir = os.Args[2]
	}
	setLimits(stdLim)
	out, err := os.Create(filepath.Join(dir, "impl_b.obs"))
	if err != nil {
		panic(err)
	}
	defer out.Close()
	w := &bytes.Buffer{}
	for _, fs := range common.ReadLines(filepath.Join(dir, "model_b.obs")) {
		if len(fs) != 2 {
			fmt.Fprintf(w, "%s badline\n", fs[0])
			continue
		}
		id := fs[0]
		var data []byte
		if fs[1] != "-" {
			data, err = hex.DecodeString(fs[1])
			if err != nil {
				fmt.Fprintf(w, "%s badhex\n", id)
				continue
			}
		}
		switch {
		case strings.HasSuffix(id, ".bs"):
			fmt.Fprintf(w, "%s %s\n", id, realParseString(data))
		case strings.HasSuffix(id, ".bn"):
			fmt.Fprintf(w, "%s %s\n", id, realParseName(data))
		default:
			fmt.Fprintf(w, "%s %s\n", id, realScan(data))
		}
		if w.Len() > 1<<20 {
			out.Write(w.Bytes())
			w.Reset()
		}
	}
	out.Write(w.Bytes())
}

func main() {
	if os.Getenv("VERIF_PHASE") == "2" {
		phase2()
		return
	}
	phase1()
}
