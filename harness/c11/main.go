// C11 harness: Copier reproduces the source object graph in the target file.
//
// Every case generates a random source graph (shared nodes, cycles, alias
// chains A -> B -> object, self-aliases, dangling and free references, empty
// arrays and dictionaries, null entries, broken objects, streams with filters
// and - in hand-written files - indirect /Length, /Filter, /DecodeParms),
// writes it to a real source file (pdf.Writer with or without encryption, or a
// hand-written classic-xref file), opens it with the real Reader, runs a
// sequence of Copier.Copy / CopyReference / Redirect calls into a real Writer
// (with its own version and encryption), closes and reopens the target, and
//
//  1. runs the property oracle directly on the implementation: graph
//     isomorphism after canonical first-visit renumbering with alias references
//     contracted, stream data equal, number of objects written = number of
//     distinct source objects reached, second copy of a reference returns the
//     same target, shape of directly returned objects (fails.jsonl);
//  2. writes cases.txt / impl.obs for the extracted Coq model: the model copier
//     predicts the target graph and the number of Puts from the same source
//     graph (as the Reader presents it) and call sequence, and the certified
//     checker iso_ok is run on the graphs read back from the two real files
//     with the real translation map.
//
// The harness proper runs in a child process (see supervise).
package main

import (
	"bytes"
	"fmt"
	"io"
	"os"
	"os/exec"
	"path/filepath"
	"runtime/debug"
	"sort"
	"strconv"
	"strings"

	"seehuhn.de/go/pdf"
	"seehuhn.de/go/pdf/internal/debug/memfile"
	"seehuhn.de/go/pdf/internal/limits"
	"seehuhn.de/go/pdf/verifharness/common"
)

// ---------------------------------------------------------------------------
// stream data table: equal decoded bytes <=> equal id

type dataTab struct{ ids map[string]int }

func (t *dataTab) id(b []byte) int {
	if id, ok := t.ids[string(b)]; ok {
		return id
	}
	id := len(t.ids) + 1
	t.ids[string(b)] = id
	return id
}

// ---------------------------------------------------------------------------
// a read-only view of an object graph

type view struct {
	get   func(pdf.Reference) (pdf.Native, bool) // false: the object is malformed
	data  func(*pdf.Stream) int
	cache map[pdf.Reference]cached
	// redir: references the caller has redirected, with the object the caller
	// put in their place.  Such a reference stands for that object wherever
	// it is met itself or as the end of an alias chain; a chain that merely
	// passes through it is not affected.
	redir map[pdf.Reference]pdf.Native
	// tolerant: a read error that is not a malformed-file error is recorded
	// (the file under test was written by the library) instead of being fatal
	tolerant bool
	readErr  string
}

type cached struct {
	o  pdf.Native
	ok bool
}

func newView(g pdf.Getter, tab *dataTab, override map[pdf.Reference]pdf.Native) *view {
	v := &view{cache: map[pdf.Reference]cached{}}
	v.get = func(r pdf.Reference) (pdf.Native, bool) {
		if o, ok := override[r]; ok {
			return o, true
		}
		if c, ok := v.cache[r]; ok {
			return c.o, c.ok
		}
		o, err := g.Get(r, true)
		if err != nil {
			if !pdf.IsMalformed(err) {
				if v.tolerant {
					// e.g. "corrupted ciphertext": the object cannot be read
					if v.readErr == "" {
						v.readErr = fmt.Sprintf("object %v: %v", r, err)
					}
				} else {
					panic(fmt.Sprintf("harness: unexpected read error: %v", err))
				}
			}
			v.cache[r] = cached{nil, false}
			return nil, false
		}
		v.cache[r] = cached{o, true}
		return o, true
	}
	v.data = func(s *pdf.Stream) int {
		rd, err := pdf.DecodeStream(g, nil, s)
		if err != nil {
			return tab.id([]byte("ERR:" + err.Error()))
		}
		b, err := io.ReadAll(rd)
		if err != nil {
			return tab.id([]byte("ERR:" + err.Error()))
		}
		return tab.id(b)
	}
	return v
}

// chain follows an alias chain the way ISO 32000 and the library's documented
// limits say: a loop, a chain of more than MaxExtractDepth references and a
// malformed object do not resolve.
func (v *view) chain(r pdf.Reference) (val pdf.Native, path []pdf.Reference, ok bool) {
	seen := map[pdf.Reference]bool{}
	cur := r
	for {
		if seen[cur] || len(path) >= limits.MaxExtractDepth {
			return nil, nil, false
		}
		seen[cur] = true
		path = append(path, cur)
		o, ok := v.get(cur)
		if !ok {
			return nil, nil, false
		}
		if next, isRef := o.(pdf.Reference); isRef {
			cur = next
			continue
		}
		return o, path, true
	}
}

func (v *view) resolve(o pdf.Object) (pdf.Object, bool) {
	if r, isRef := o.(pdf.Reference); isRef {
		val, _, ok := v.chain(r)
		if !ok {
			return nil, false
		}
		if val == nil {
			return nil, true
		}
		return val, true
	}
	return o, true
}

// inline: /Filter and /DecodeParms with references resolved at the top level
// and, for arrays, at the element level.
func (v *view) inline(o pdf.Object) (pdf.Object, bool) {
	r, ok := v.resolve(o)
	if !ok {
		return nil, false
	}
	if _, isStream := r.(*pdf.Stream); isStream {
		return nil, false // a stream is not a filter name or parameter dictionary
	}
	arr, isArr := r.(pdf.Array)
	if !isArr {
		return r, true
	}
	out := make(pdf.Array, len(arr))
	for i, x := range arr {
		y, ok := v.resolve(x)
		if !ok {
			return nil, false
		}
		if _, isStream := y.(*pdf.Stream); isStream {
			return nil, false
		}
		out[i] = y
	}
	return out, true
}

func (v *view) inlineDict(d pdf.Dict) (pdf.Dict, bool) {
	res := pdf.Dict{}
	for k, x := range d {
		res[k] = x
	}
	allOK := true
	for _, k := range []pdf.Name{"Filter", "DecodeParms"} {
		x, ok := d[k]
		if !ok {
			continue
		}
		y, ok := v.inline(x)
		if !ok {
			allOK = false
			continue
		}
		res[k] = y
	}
	return res, allOK
}

func isNil(o pdf.Object) bool {
	if o == nil {
		return true
	}
	if a, ok := o.(pdf.Array); ok && a == nil {
		return true
	}
	return false
}

func sortedKeys(d pdf.Dict) []pdf.Name {
	keys := make([]pdf.Name, 0, len(d))
	for k := range d {
		keys = append(keys, k)
	}
	sort.Slice(keys, func(i, j int) bool { return string(keys[i]) < string(keys[j]) })
	return keys
}

func scalar(o pdf.Object) (int, []byte, bool) {
	switch x := o.(type) {
	case pdf.Boolean:
		if x {
			return 0, []byte{1}, true
		}
		return 0, []byte{0}, true
	case pdf.Integer:
		return 1, []byte(strconv.FormatInt(int64(x), 10)), true
	case pdf.Real:
		return 2, []byte(strconv.FormatFloat(float64(x), 'f', -1, 64)), true
	case pdf.Name:
		return 3, []byte(x), true
	case pdf.String:
		return 4, []byte(x), true
	}
	return 0, nil, false
}

// canonical first-visit serialisation, alias references contracted

type canonSt struct {
	ids map[pdf.Reference]int
	out []string
}

func (v *view) canon(c *canonSt, o pdf.Object) {
	if isNil(o) {
		c.out = append(c.out, "n")
		return
	}
	switch x := o.(type) {
	case pdf.Array:
		c.out = append(c.out, "a"+strconv.Itoa(len(x)))
		for _, y := range x {
			v.canon(c, y)
		}
	case pdf.Dict:
		v.canonDict(c, x)
	case *pdf.Stream:
		c.out = append(c.out, "t"+strconv.Itoa(v.data(x)))
		d, _ := v.inlineDict(x.Dict)
		v.canonDict(c, d)
	case pdf.Reference:
		var val pdf.Native
		end := x
		if m, red := v.redir[x]; red {
			val = m
		} else {
			var path []pdf.Reference
			var ok bool
			val, path, ok = v.chain(x)
			if ok {
				end = path[len(path)-1]
				if m, red := v.redir[end]; red {
					val = m
				}
			}
			if !ok || val == nil {
				c.out = append(c.out, "n")
				return
			}
		}
		if id, seen := c.ids[end]; seen {
			c.out = append(c.out, "U"+strconv.Itoa(id))
			return
		}
		id := len(c.ids)
		c.ids[end] = id
		c.out = append(c.out, "D"+strconv.Itoa(id))
		v.canon(c, val)
	default:
		k, b, ok := scalar(o)
		if !ok {
			panic(fmt.Sprintf("harness: unexpected object type %T", o))
		}
		c.out = append(c.out, "s"+strconv.Itoa(k)+":"+common.Hex(b))
	}
}

func (v *view) canonDict(c *canonSt, d pdf.Dict) {
	n := 0
	for _, y := range d {
		if !isNil(y) {
			n++
		}
	}
	c.out = append(c.out, "d"+strconv.Itoa(n))
	for _, k := range sortedKeys(d) {
		if isNil(d[k]) {
			continue
		}
		c.out = append(c.out, "k"+common.Hex([]byte(k)))
		v.canon(c, d[k])
	}
}

func (v *view) canonRoots(roots []pdf.Object) string {
	c := &canonSt{ids: map[pdf.Reference]int{}}
	for _, r := range roots {
		v.canon(c, r)
	}
	return strings.Join(c.out, " ")
}

// reach computes what a copy of the roots must touch: the references that get
// a translation, the distinct source objects (chain ends) behind them, and
// whether a stream with an unresolvable /Filter or /DecodeParms is met.
type reachSt struct {
	mapped     map[pdf.Reference]bool
	keys       map[pdf.Reference]bool
	order      []pdf.Reference
	redirected map[pdf.Reference]bool
	badFilter  bool
}

func (st *reachSt) inOrder(r pdf.Reference) bool {
	for _, x := range st.order {
		if x == r {
			return true
		}
	}
	return false
}

func (v *view) reach(st *reachSt, o pdf.Object) {
	switch x := o.(type) {
	case pdf.Array:
		for _, y := range x {
			v.reach(st, y)
		}
	case pdf.Dict:
		for _, k := range sortedKeys(x) {
			v.reach(st, x[k])
		}
	case *pdf.Stream:
		v.reach(st, x.Dict)
		for _, k := range []pdf.Name{"Filter", "DecodeParms"} {
			y, ok := x.Dict[k]
			if !ok {
				continue
			}
			z, ok := v.inline(y)
			if !ok {
				st.badFilter = true
				continue
			}
			v.reach(st, z)
		}
	case pdf.Reference:
		if st.mapped[x] || st.redirected[x] {
			return
		}
		val, path, ok := v.chain(x)
		key := x
		if ok {
			key = path[len(path)-1]
			for _, p := range path {
				if !st.mapped[p] {
					st.mapped[p] = true
					st.order = append(st.order, p)
				}
			}
		} else {
			st.mapped[x] = true
			st.order = append(st.order, x)
		}
		if st.keys[key] {
			return
		}
		st.keys[key] = true
		if st.redirected[key] {
			return
		}
		if ok {
			v.reach(st, val)
		}
	}
}

// ---------------------------------------------------------------------------
// wire format for the model driver

func wireObj(sb *strings.Builder, o pdf.Object, data func(*pdf.Stream) int) {
	if isNil(o) {
		sb.WriteString(" n")
		return
	}
	switch x := o.(type) {
	case pdf.Array:
		fmt.Fprintf(sb, " a %d", len(x))
		for _, y := range x {
			wireObj(sb, y, data)
		}
	case pdf.Dict:
		fmt.Fprintf(sb, " d %d", len(x))
		for _, k := range sortedKeys(x) {
			sb.WriteString(" " + common.Hex([]byte(k)))
			wireObj(sb, x[k], data)
		}
	case *pdf.Stream:
		fmt.Fprintf(sb, " t %d", len(x.Dict))
		for _, k := range sortedKeys(x.Dict) {
			sb.WriteString(" " + common.Hex([]byte(k)))
			wireObj(sb, x.Dict[k], data)
		}
		fmt.Fprintf(sb, " %d", data(x))
	case pdf.Reference:
		fmt.Fprintf(sb, " r %d", uint64(x))
	default:
		k, b, ok := scalar(o)
		if !ok {
			panic(fmt.Sprintf("harness: unexpected object type %T", o))
		}
		fmt.Fprintf(sb, " s %d %s", k, common.Hex(b))
	}
}

// ---------------------------------------------------------------------------
// source graphs

const (
	nDangling = iota
	nAlias
	nStream
	nValue
	nBroken
	nNullObj
)

type node struct {
	kind    int
	obj     pdf.Object // nValue, nAlias
	dict    pdf.Dict   // nStream: extra entries
	filters []pdf.Filter
	data    []byte
	// hand-written files only
	indLength, indFilter, indFilterElems, indParms, indParmsElems bool
}

type gen struct {
	e    *common.Env
	refs []pdf.Reference
}

func (g *gen) intn(n int) int { return g.e.Rand.IntN(n) }

func (g *gen) randBytes(max int) []byte {
	n := g.intn(max + 1)
	b := make([]byte, n)
	for i := range b {
		switch g.intn(4) {
		case 0:
			const special = "()\\<>[]{}/%# \r\n\t\x00"
			b[i] = special[g.intn(len(special))]
		case 1:
			b[i] = byte(g.intn(256))
		default:
			b[i] = byte('a' + g.intn(26))
		}
	}
	return b
}

func (g *gen) scalarObj() pdf.Object {
	switch g.intn(7) {
	case 0:
		return pdf.Boolean(g.intn(2) == 0)
	case 1:
		return pdf.Integer(g.intn(2000) - 1000)
	case 2:
		return pdf.Integer(int64(g.e.Rand.Uint64() >> uint(1+g.intn(62))))
	case 3:
		return pdf.Real(float64(g.intn(4001)-2000)/8 + 0.0625)
	case 4:
		nm := g.randBytes(6)
		for i := range nm {
			if nm[i] == 0 {
				nm[i] = '#'
			}
		}
		return pdf.Name(nm)
	default:
		return pdf.String(g.randBytes(12))
	}
}

var keyPool = []pdf.Name{"A", "B", "C", "Kids", "Parent", "Type", "Filter", "DecodeParms", "Length", "K#1", "Z z"}

var staleGens = []uint16{0, 1, 65535}

// otherGen sometimes replaces a reference by one to the same object number
// with a different generation: that is a different, undefined object (null).
func (g *gen) otherGen(r pdf.Reference) pdf.Reference {
	if g.intn(8) == 0 {
		ng := staleGens[g.intn(len(staleGens))]
		if ng != r.Generation() {
			return pdf.NewReference(r.Number(), ng)
		}
	}
	return r
}

func (g *gen) ref() pdf.Object {
	return g.otherGen(g.refs[g.intn(len(g.refs))])
}

// obj generates a direct object; nulls only below the top level
func (g *gen) obj(depth int, nullOK bool) pdf.Object {
	k := g.intn(16)
	switch {
	case k <= 3:
		return g.scalarObj()
	case k == 4:
		return pdf.Array{}
	case k == 5:
		return pdf.Dict{}
	case (k == 6 || k == 7) && depth < 3:
		a := pdf.Array{}
		for i := g.intn(5); i > 0; i-- {
			a = append(a, g.obj(depth+1, true))
		}
		return a
	case (k == 8 || k == 9) && depth < 3:
		d := pdf.Dict{}
		for i := g.intn(4); i > 0; i-- {
			key := keyPool[g.intn(len(keyPool))]
			if depth == 0 && (key == "Filter" || key == "DecodeParms" || key == "Length") {
				// keep these for stream dictionaries; inside plain dictionaries below the top they are ordinary keys
				key = "A"
			}
			d[key] = g.obj(depth+1, true)
		}
		return d
	case k == 10 && nullOK:
		return nil
	case k >= 11 && k <= 14 && depth > 0:
		return g.ref()
	default:
		return g.scalarObj()
	}
}

func (g *gen) filters() []pdf.Filter {
	var fl []pdf.Filter
	for i := g.intn(3); i > 0; i-- {
		switch g.intn(6) {
		case 0:
			fl = append(fl, pdf.FilterFlate{})
		case 1:
			fl = append(fl, pdf.FilterFlate{Predictor: 12, Colors: 1, BitsPerComponent: 8, Columns: 1 + g.intn(7)})
		case 2:
			fl = append(fl, pdf.FilterASCIIHex{})
		case 3:
			fl = append(fl, pdf.FilterASCII85{})
		case 4:
			fl = append(fl, pdf.FilterLZW{})
		default:
			fl = append(fl, pdf.FilterRunLength{})
		}
	}
	return fl
}

func (g *gen) node(hand bool) *node {
	k := g.intn(24)
	switch {
	case k == 0:
		return &node{kind: nDangling}
	case k <= 3:
		return &node{kind: nAlias, obj: g.ref()}
	case k <= 7:
		nd := &node{kind: nStream, dict: pdf.Dict{}, filters: g.filters()}
		for i := g.intn(3); i > 0; i-- {
			key := keyPool[g.intn(5)]
			nd.dict[key] = g.obj(1, false)
		}
		// string values in the stream dictionary, direct and nested: they are
		// encrypted with the key of the stream object
		if g.intn(3) == 0 {
			nd.dict["LastModified"] = pdf.String(g.randBytes(14))
		}
		if g.intn(3) == 0 {
			nd.dict["Params"] = pdf.Dict{"ModDate": pdf.String(g.randBytes(10)), "L": pdf.Array{pdf.String(g.randBytes(6)), pdf.Integer(g.intn(9))}}
		}
		// dictionaries that look like those of streams exempt from encryption
		// (the exemptions go by identity, not by looks)
		switch g.intn(12) {
		case 0, 1:
			nd.dict["Type"] = pdf.Name("Metadata")
			nd.dict["Subtype"] = pdf.Name("XML")
		case 2:
			nd.dict["Type"] = pdf.Name("XRef")
		case 3:
			nd.dict["Type"] = pdf.Name("ObjStm")
		case 4:
			nd.dict["Type"] = pdf.Name("Crypt")
			nd.dict["Name"] = pdf.Name("Identity")
		}
		n := g.intn(40)
		if g.intn(4) == 0 {
			n = 900 + g.intn(1500) // beyond the stream writer's 1024-byte buffer
		}
		nd.data = make([]byte, n)
		for i := range nd.data {
			nd.data[i] = byte(g.intn(7) * 37)
		}
		if g.intn(6) == 0 {
			nd.data = append(nd.data, []byte("\nendstream\nendobj\n")...)
		}
		if hand {
			nd.indLength = g.intn(3) == 0
			nd.indFilter = g.intn(3) == 0
			nd.indFilterElems = g.intn(3) == 0
			nd.indParms = g.intn(3) == 0
			nd.indParmsElems = g.intn(3) == 0
		}
		return nd
	case k == 8 && hand:
		return &node{kind: nBroken}
	case k == 9 && hand:
		return &node{kind: nNullObj}
	default:
		return &node{kind: nValue, obj: g.obj(0, false)}
	}
}

// ---------------------------------------------------------------------------
// writing a source file with the real Writer

type srcSpec struct {
	version pdf.Version
	pw      string
	human   bool
	hand    bool
	// meta: 0 no document metadata stream, 1 an encrypted one, 2 a plaintext one
	// (/EncryptMetadata false; only the catalog's metadata stream is exempt)
	meta int
}

func (sp srcSpec) options() *pdf.WriterOptions {
	opt := &pdf.WriterOptions{UserPassword: sp.pw, HumanReadable: sp.human}
	if sp.meta > 0 {
		md, err := pdf.VerifNewMetadata("document metadata", sp.meta == 2)
		must(err)
		opt.DocumentMetadata = md
	}
	return opt
}

// chooseMeta: document metadata needs PDF 1.4, plaintext metadata in an encrypted file 1.6
func (g *gen) chooseMeta(sp *srcSpec) {
	if sp.version < pdf.V1_6 {
		return
	}
	switch g.intn(4) {
	case 0:
		sp.meta = 1
	case 1, 2:
		sp.meta = 2
	}
}

// metaRef returns the reference of the catalog's metadata stream.
func metaRef(r *pdf.Reader) (pdf.Reference, bool) {
	root, _ := r.GetMeta().Trailer["Root"].(pdf.Reference)
	if root == 0 {
		return 0, false
	}
	cat, err := r.Get(root, true)
	if err != nil {
		return 0, false
	}
	d, _ := cat.(pdf.Dict)
	m, ok := d["Metadata"].(pdf.Reference)
	return m, ok
}

func addPages(w *pdf.Writer) {
	pages := w.Alloc()
	if err := w.Put(pages, pdf.Dict{"Type": pdf.Name("Pages"), "Kids": pdf.Array{}, "Count": pdf.Integer(0)}); err != nil {
		panic(err)
	}
	w.GetMeta().Catalog.Pages = pages
}

// With an encrypted source of version 1.5 or later some streams opt out of
// encryption with an /Identity crypt filter; in half of those files the /Crypt
// name at the head of the /Filter array is then turned into an indirect
// reference (a same-length patch of the written bytes: "/Crypt" -> "NN 0 R").
func writeWithWriter(g *gen, spec srcSpec, nodes []*node) ([]byte, []pdf.Reference) {
	buf := &bytes.Buffer{}
	w, err := pdf.NewWriter(buf, spec.version, spec.options())
	if err != nil {
		panic(err)
	}
	for i := range nodes {
		g.refs[i] = w.Alloc()
	}
	// node contents refer to g.refs, so they are generated after allocation
	for i := range nodes {
		nodes[i] = g.node(false)
	}
	var cRefs []pdf.Reference
	var cObjs []pdf.Object
	cryptOK := spec.version >= pdf.V1_5
	anyCrypt := false
	for i, nd := range nodes {
		ref := g.refs[i]
		switch nd.kind {
		case nDangling:
		case nAlias:
			must(w.Put(ref, nd.obj))
		case nStream:
			if cryptOK && g.intn(3) == 0 {
				fl := []pdf.Filter{pdf.FilterCryptIdentity{}}
				fl = append(fl, nd.filters...)
				if len(fl) == 1 {
					fl = append(fl, pdf.FilterFlate{})
				}
				nd.filters = fl
				anyCrypt = true
			}
			ws, err := w.OpenStream(ref, nd.dict, nd.filters...)
			must(err)
			_, err = ws.Write(nd.data)
			must(err)
			must(ws.Close())
		default:
			if spec.version >= pdf.V1_5 && !spec.human && g.intn(3) == 0 {
				cRefs = append(cRefs, ref)
				cObjs = append(cObjs, nd.obj)
			} else {
				must(w.Put(ref, nd.obj))
			}
		}
	}
	if len(cRefs) > 0 {
		must(w.WriteCompressed(cRefs, cObjs...))
	}
	var extra []pdf.Reference
	patch := ""
	if anyCrypt && g.intn(2) == 0 {
		h := w.Alloc()
		for h.Number() < 10 {
			h = w.Alloc()
		}
		if h.Number() < 100 {
			must(w.Put(h, pdf.Name("Crypt")))
			extra = append(extra, h)
			patch = fmt.Sprintf("[%d 0 R", h.Number())
		}
	}
	addPages(w)
	must(w.Close())
	data := buf.Bytes()
	if patch != "" {
		data = bytes.ReplaceAll(data, []byte("[/Crypt"), []byte(patch))
	}
	return data, extra
}

func b2i(b bool) int {
	if b {
		return 1
	}
	return 0
}

func must(err error) {
	if err != nil {
		panic(err)
	}
}

// ---------------------------------------------------------------------------
// writing a source file by hand (classic xref table, no encryption)

func ser(o pdf.Object) string {
	if isNil(o) {
		return "null"
	}
	switch x := o.(type) {
	case pdf.Array:
		parts := make([]string, len(x))
		for i, y := range x {
			parts[i] = ser(y)
		}
		return "[" + strings.Join(parts, " ") + "]"
	case pdf.Dict:
		var sb strings.Builder
		sb.WriteString("<<")
		for _, k := range sortedKeys(x) {
			sb.WriteString(ser(k) + " " + ser(x[k]) + " ")
		}
		sb.WriteString(">>")
		return sb.String()
	default:
		var b bytes.Buffer
		must(pdf.Format(&b, 0, o))
		return b.String()
	}
}

type nopWC struct{ io.Writer }

func (nopWC) Close() error { return nil }

func encode(filters []pdf.Filter, data []byte) []byte {
	var buf bytes.Buffer
	var body io.WriteCloser = nopWC{&buf}
	for _, f := range filters {
		var err error
		body, err = f.Encode(pdf.V1_7, body)
		must(err)
	}
	_, err := body.Write(data)
	must(err)
	must(body.Close())
	return buf.Bytes()
}

type handFile struct {
	bodies map[uint32]string
	gens   map[uint32]uint16 // generation of the objects that are not of generation 0
	next   uint32
}

func (h *handFile) add(body string) pdf.Reference {
	n := h.next
	h.next++
	h.bodies[n] = body
	return pdf.NewReference(n, 0)
}

func (h *handFile) bytes() []byte {
	var b bytes.Buffer
	b.WriteString("%PDF-1.7\n%\xe2\xe3\xcf\xd3\n")
	offs := map[uint32]int{}
	nums := make([]uint32, 0, len(h.bodies))
	for n := range h.bodies {
		nums = append(nums, n)
	}
	sort.Slice(nums, func(i, j int) bool { return nums[i] < nums[j] })
	for _, n := range nums {
		offs[n] = b.Len()
		fmt.Fprintf(&b, "%d %d obj\n%s\nendobj\n", n, h.gens[n], h.bodies[n])
	}
	x := b.Len()
	fmt.Fprintf(&b, "xref\n0 %d\n0000000000 65535 f \n", h.next)
	for n := uint32(1); n < h.next; n++ {
		if off, ok := offs[n]; ok {
			fmt.Fprintf(&b, "%010d %05d n \n", off, h.gens[n])
		} else {
			b.WriteString("0000000000 00000 f \n")
		}
	}
	fmt.Fprintf(&b, "trailer\n<< /Size %d /Root 1 0 R >>\nstartxref\n%d\n%%%%EOF\n", h.next, x)
	return b.Bytes()
}

// writeByHand returns the file and the references of holder objects that were added
func writeByHand(g *gen, nodes []*node, longChain int) ([]byte, []pdf.Reference) {
	h := &handFile{bodies: map[uint32]string{}, gens: map[uint32]uint16{}, next: 3}
	h.bodies[1] = "<< /Type /Catalog /Pages 2 0 R >>"
	h.bodies[2] = "<< /Type /Pages /Kids [] /Count 0 >>"
	for i := range nodes {
		gen := uint16(0)
		if g.intn(6) == 0 {
			gen = uint16(1 + g.intn(3)) // a live object of generation > 0; generation 0 of its number is stale
			h.gens[h.next] = gen
		}
		g.refs[i] = pdf.NewReference(h.next, gen)
		h.next++
	}
	for i := range nodes {
		nodes[i] = g.node(true)
	}
	var extra []pdf.Reference
	holder := func(o pdf.Object) pdf.Reference {
		r := h.add(ser(o))
		extra = append(extra, r)
		// sometimes through one more alias
		if g.intn(4) == 0 {
			r = h.add(ser(r))
			extra = append(extra, r)
		}
		return r
	}
	for i, nd := range nodes {
		num := g.refs[i].Number()
		switch nd.kind {
		case nDangling:
		case nBroken:
			h.bodies[num] = "<< /A (unterminated"
		case nNullObj:
			h.bodies[num] = "null"
		case nAlias, nValue:
			h.bodies[num] = ser(nd.obj)
		case nStream:
			enc := encode(nd.filters, nd.data)
			d := pdf.Dict{}
			for k, v := range nd.dict {
				d[k] = v
			}
			if nd.indLength {
				d["Length"] = holder(pdf.Integer(len(enc)))
			} else {
				d["Length"] = pdf.Integer(len(enc))
			}
			if len(nd.filters) > 0 {
				names := pdf.Array{}
				parms := pdf.Array{}
				anyParms := false
				for _, f := range nd.filters {
					name, p, err := f.Info(pdf.V1_7)
					must(err)
					var nm pdf.Object = name
					if nd.indFilterElems && g.intn(2) == 0 {
						nm = holder(name)
					}
					names = append(names, nm)
					var po pdf.Object
					if len(p) > 0 {
						anyParms = true
						if g.intn(3) == 0 {
							// an entry the filter ignores, with a reference the copier must translate
							p["X"] = g.ref()
						}
						po = p
						if nd.indParmsElems && g.intn(2) == 0 {
							po = holder(p)
						}
					}
					parms = append(parms, po)
				}
				var fo pdf.Object = names
				var dp pdf.Object = parms
				if len(nd.filters) == 1 && g.intn(2) == 0 {
					fo, dp = names[0], parms[0]
				}
				if nd.indFilter {
					fo = holder(fo)
				}
				d["Filter"] = fo
				if anyParms || g.intn(4) == 0 {
					if nd.indParms && !isNil(dp) {
						dp = holder(dp)
					}
					d["DecodeParms"] = dp
				}
			}
			h.bodies[num] = ser(d) + "\nstream\n" + string(enc) + "\nendstream"
		}
	}
	if longChain > 0 {
		// g.refs[0] becomes the head of a chain of longChain aliases ending at an integer
		end := h.add("4711")
		extra = append(extra, end)
		cur := end
		for i := 1; i < longChain; i++ {
			cur = h.add(ser(cur))
			extra = append(extra, cur)
		}
		h.bodies[g.refs[0].Number()] = ser(cur)
	}
	return h.bytes(), extra
}

// ---------------------------------------------------------------------------
// one case

type callSpec struct {
	kind   byte // 'R' CopyReference, 'C' Copy(direct object), 'X' Redirect, 'V' Copy(value of ref), 'P' Put(result of op idx)
	ref    pdf.Reference
	obj    pdf.Object
	marker pdf.Integer
	idx    int
}

type caseResult struct {
	class string
}

var versions = []pdf.Version{pdf.V1_4, pdf.V1_7, pdf.V2_0}

func shapeEq(a, b pdf.Object) bool {
	switch x := a.(type) {
	case nil:
		return b == nil
	case pdf.Array:
		y, ok := b.(pdf.Array)
		if !ok || len(x) != len(y) || (x == nil) != (y == nil) {
			return false
		}
		for i := range x {
			if !shapeEq(x[i], y[i]) {
				return false
			}
		}
		return true
	case pdf.Dict:
		y, ok := b.(pdf.Dict)
		if !ok || len(x) != len(y) {
			return false
		}
		for k, v := range x {
			w, has := y[k]
			if !has || !shapeEq(v, w) {
				return false
			}
		}
		return true
	case pdf.Reference:
		_, ok := b.(pdf.Reference)
		return ok
	case *pdf.Stream:
		_, ok := b.(*pdf.Stream)
		return ok
	default:
		ka, ba, oka := scalar(a)
		kb, bb, okb := scalar(b)
		return oka && okb && ka == kb && bytes.Equal(ba, bb)
	}
}

func runCase(e *common.Env, id string, variant int) {
	g := &gen{e: e}
	spec := srcSpec{version: versions[g.intn(3)]}
	switch g.intn(5) {
	case 0, 1:
		spec.hand = true
	case 2:
		spec.pw = "src-secret"
	case 3:
		spec.human = true
	}
	if !spec.hand {
		g.chooseMeta(&spec)
	}
	n := 1 + g.intn(8)
	if g.intn(10) == 0 {
		n = 8 + g.intn(12)
	}
	nodes := make([]*node, n)
	g.refs = make([]pdf.Reference, n)
	longChain := 0
	var data []byte
	var extra []pdf.Reference
	if spec.hand {
		if g.intn(12) == 0 {
			longChain = []int{254, 255, 256, 257, 258, 300}[g.intn(6)]
		}
		data, extra = writeByHand(g, nodes, longChain)
	} else {
		data, extra = writeWithWriter(g, spec, nodes)
	}
	all := append(append([]pdf.Reference{}, g.refs...), extra...)

	src, err := pdf.NewReader(bytes.NewReader(data), int64(len(data)), &pdf.ReaderOptions{Password: spec.pw})
	srcProblem := ""
	if err != nil {
		srcProblem = "the Reader cannot open it: " + err.Error()
	} else if !spec.hand {
		// every object the Writer was given must be readable (hand-written files may hold broken objects)
		for _, r := range all {
			if _, err := src.Get(r, true); err != nil {
				srcProblem = fmt.Sprintf("object %v cannot be read: %v", r, err)
				break
			}
		}
	}
	if srcProblem != "" {
		if spec.hand {
			panic("harness: cannot open the hand-written source: " + srcProblem)
		}
		// not a defect of the Copier, but of the Writer/Reader pair that prepares the case
		g.e.Count(true, id+" unreadable source", "source-unreadable")
		g.e.Fail("source-file-unreadable", "a source file written by pdf.Writer cannot be read back: "+srcProblem,
			map[string]any{"id": id, "seed": g.e.Seed, "source_version": spec.version.String(), "source_encrypted": spec.pw != "",
				"source_human_readable": spec.human, "source_metadata": spec.meta, "objects": len(all)})
		return
	}
	if spec.meta > 0 {
		// the catalog's metadata stream is part of the graph: the one stream that may be exempt by identity
		if m, ok := metaRef(src); ok {
			all = append(all, m)
		}
	}

	// call sequence
	var calls []callSpec
	nred := 0
	if g.intn(5) == 0 {
		nred = 1 + g.intn(2)
	}
	usedRed := map[pdf.Reference]bool{}
	for i := 0; i < nred; i++ {
		r := g.otherGen(g.refs[g.intn(len(g.refs))]) // never a /Filter or /DecodeParms holder: those are inlined from the source
		if usedRed[r] {
			continue
		}
		usedRed[r] = true
		calls = append(calls, callSpec{kind: 'X', ref: r, marker: pdf.Integer(990000 + i)})
	}
	for i := 1 + g.intn(3); i > 0; i-- {
		if g.intn(4) == 0 {
			calls = append(calls, callSpec{kind: 'C', obj: g.obj(0, false)})
		} else {
			calls = append(calls, callSpec{kind: 'R', ref: g.otherGen(all[g.intn(len(all))])})
		}
	}
	if variant == 1 && len(calls) > 1 {
		// a Redirect in the middle of the sequence (may hit an already copied reference)
		r := g.otherGen(g.refs[g.intn(len(g.refs))])
		if !usedRed[r] {
			usedRed[r] = true
			pos := 1 + g.intn(len(calls)-1)
			calls = append(calls[:pos], append([]callSpec{{kind: 'X', ref: r, marker: 995000}}, calls[pos:]...)...)
		}
	}
	if variant == 1 {
		// Redirect for a reference that has a translation already - copied
		// explicitly, reached as part of an earlier graph or as an alias on a
		// chain, or redirected before: the new target replaces the old one for
		// every later copy
		var copied []pdf.Reference
		for _, c := range calls {
			if c.kind == 'R' {
				copied = append(copied, c.ref)
			}
		}
		pool := all
		if len(copied) > 0 && g.intn(3) != 0 {
			pool = copied
		}
		r := pool[g.intn(len(pool))]
		calls = append(calls, callSpec{kind: 'X', ref: r, marker: 996000})
		if g.intn(3) == 0 {
			calls = append(calls, callSpec{kind: 'X', ref: r, marker: 996001}) // twice: the last one counts
		}
		calls = append(calls, callSpec{kind: 'R', ref: r})
		if g.intn(2) == 0 {
			calls = append(calls, callSpec{kind: 'R', ref: all[g.intn(len(all))]})
		}
	}

	// values copied now and written later, in any order, with other copies in between
	if variant == 0 && g.intn(4) == 0 {
		var streams, others []pdf.Reference
		for _, r := range all {
			o, err := src.Get(r, true)
			if err != nil || o == nil {
				continue
			}
			if _, isStream := o.(*pdf.Stream); isStream {
				streams = append(streams, r)
			} else {
				others = append(others, r)
			}
		}
		var held []int
		for k := 1 + g.intn(3); k > 0; k-- {
			pool := streams
			if len(pool) == 0 || (len(others) > 0 && g.intn(4) == 0) {
				pool = others
			}
			if len(pool) == 0 {
				break
			}
			calls = append(calls, callSpec{kind: 'V', ref: pool[g.intn(len(pool))]})
			held = append(held, len(calls)-1)
			if g.intn(3) == 0 {
				calls = append(calls, callSpec{kind: 'R', ref: all[g.intn(len(all))]})
			}
		}
		g.e.Rand.Shuffle(len(held), func(i, j int) { held[i], held[j] = held[j], held[i] })
		for _, h := range held {
			if g.intn(6) != 0 {
				calls = append(calls, callSpec{kind: 'P', idx: h})
			}
			if g.intn(4) == 0 {
				calls = append(calls, callSpec{kind: 'R', ref: all[g.intn(len(all))]})
			}
		}
	}
	// the whole sequence may run while a stream of the target is open: the Writer then defers every Put
	inStream := g.intn(8) == 0

	// target
	tspec := srcSpec{version: versions[g.intn(3)]}
	switch g.intn(4) {
	case 0:
		tspec.pw = "dst-secret"
	case 1:
		tspec.human = true
	}
	g.chooseMeta(&tspec)
	// a seekable target lets the Writer patch /Length in place, so that every
	// allocation in the target is one of the Copier's; with a plain io.Writer
	// the Writer allocates objects of its own for the lengths of long streams
	seekable := g.intn(5) != 0
	class := "writer"
	if spec.hand {
		class = "hand"
	}
	if spec.pw != "" {
		class += "+srcenc"
	}
	if tspec.pw != "" {
		class += "+dstenc"
	}
	if nred > 0 || variant == 1 {
		class += "+redirect"
	}
	if longChain > 0 {
		class += "+longchain"
	}
	if !seekable {
		class += "+noseek"
	}
	if inStream {
		class += "+instream"
	}
	if spec.meta == 2 && spec.pw != "" {
		class += "+srcplainmeta"
	}
	if tspec.meta == 2 && tspec.pw != "" {
		class += "+dstplainmeta"
	}
	for _, c := range calls {
		if c.kind == 'P' {
			class += "+held"
			break
		}
	}
	nontrivial := false
	for _, nd := range nodes {
		if nd.kind == nAlias || nd.kind == nStream {
			nontrivial = true
		}
	}
	execCase(e, id, caseCfg{src: src, all: all, calls: calls, tspec: tspec, seekable: seekable, class: class, nontrivial: nontrivial, srcEnc: spec.pw != "", inStream: inStream, srcPlainMeta: spec.pw != "" && spec.meta == 2,
		info: map[string]any{"source_version": spec.version.String()}})
}

type caseCfg struct {
	src          *pdf.Reader
	all          []pdf.Reference // the source references presented to the model
	calls        []callSpec
	tspec        srcSpec
	seekable     bool
	class        string
	nontrivial   bool
	srcEnc       bool // the source file is encrypted
	inStream     bool // run the calls while a stream of the target is open
	srcPlainMeta bool // the source is encrypted with /EncryptMetadata false
	wantErr      bool // the copy must fail with a malformed-file error
	info         map[string]any
}

// execCase runs the calls against the real Copier and checks the result.
func execCase(e *common.Env, id string, cfg caseCfg) {
	src, all, calls := cfg.src, cfg.all, cfg.calls
	redirectOnAlias := false
	redirectOnBroken := false
	tab := &dataTab{ids: map[string]int{}}
	plain := newView(src, tab, nil)

	// hypotheses of the theorems about Redirect: the redirected reference is
	// neither an alias nor a broken object, and has no translation yet when Redirect is called
	override := map[pdf.Reference]pdf.Native{}
	redirected := map[pdf.Reference]bool{}
	lateRedirect := false
	seenCopy := false
	for _, c := range calls {
		switch c.kind {
		case 'X':
			if o, ok := plain.get(c.ref); ok {
				if _, isRef := o.(pdf.Reference); isRef {
					redirectOnAlias = true
				}
			} else {
				redirectOnBroken = true
			}
			if seenCopy || redirected[c.ref] {
				lateRedirect = true
			}
			override[c.ref] = c.marker
			redirected[c.ref] = true
		default:
			seenCopy = true
		}
	}
	// a Redirect for a reference that already has a translation is the caller
	// replacing it: outside the property.  A Redirect for an alias or an
	// unreadable object is inside it, but cannot be presented to the certified
	// checker as a modified source graph.
	outsideHyp := lateRedirect
	noChecker := redirectOnAlias || redirectOnBroken

	tspec, seekable := cfg.tspec, cfg.seekable
	dbuf := &bytes.Buffer{}
	dmem := memfile.New()
	var sink io.Writer = dbuf
	if seekable {
		sink = dmem
	}
	dw, err := pdf.NewWriter(sink, tspec.version, tspec.options())
	must(err)
	cp := pdf.NewCopier(dw, src)
	var openStream io.WriteCloser
	if cfg.inStream {
		openStream, err = dw.OpenStream(dw.Alloc(), pdf.Dict{})
		must(err)
		_, err = openStream.Write([]byte("a stream of the caller's, open while the copier works"))
		must(err)
	}
	a0 := dw.Alloc()

	// the model's input: the source as the Reader presents it, the calls
	var ms strings.Builder
	nsrc := 0
	var srcWire strings.Builder
	for _, r := range all {
		o, ok := plain.get(r)
		if !ok {
			fmt.Fprintf(&srcWire, " %d b", uint64(r))
			nsrc++
			continue
		}
		if o == nil {
			continue
		}
		fmt.Fprintf(&srcWire, " %d g", uint64(r))
		wireObj(&srcWire, o, plain.data)
		nsrc++
	}
	op := "M"
	if !seekable {
		op = "N" // no count of Puts in the observation
	}
	// the values that 'V' operations copy: what Getter.Get returns for the reference
	natives := make([]pdf.Native, len(calls))
	for i, c := range calls {
		if c.kind == 'V' {
			natives[i], _ = src.Get(c.ref, true)
		}
	}
	fmt.Fprintf(&ms, "%s %s %d %d%s %d", id, op, uint64(a0)+1, nsrc, srcWire.String(), len(calls))
	for i, c := range calls {
		switch c.kind {
		case 'X':
			fmt.Fprintf(&ms, " X %d", uint64(c.ref))
			wireObj(&ms, c.marker, nil)
		case 'R':
			fmt.Fprintf(&ms, " R %d", uint64(c.ref))
		case 'C':
			ms.WriteString(" C")
			wireObj(&ms, c.obj, nil)
		case 'V':
			ms.WriteString(" V")
			wireObj(&ms, natives[i], plain.data)
		case 'P':
			fmt.Fprintf(&ms, " P %d", c.idx)
		}
	}
	e.Line("cases.txt", "%s", ms.String())
	must(os.WriteFile(filepath.Join(e.Dir, "progress.txt"), []byte(ms.String()), 0o644))

	results := make([]pdf.Object, len(calls))
	heldChanged := ""
	var copyErr error
	panicked := ""
	func() {
		defer func() {
			if r := recover(); r != nil {
				panicked = fmt.Sprint(r)
			}
		}()
		for i, c := range calls {
			switch c.kind {
			case 'X':
				t := dw.Alloc()
				must(dw.Put(t, c.marker))
				cp.Redirect(c.ref, t)
				results[i] = t
			case 'R':
				t, err := cp.CopyReference(c.ref)
				if err != nil {
					copyErr = err
					return
				}
				results[i] = t
			case 'C':
				o, err := cp.Copy(c.obj.AsPDF(0))
				if err != nil {
					copyErr = err
					return
				}
				results[i] = o
			case 'V':
				o, err := cp.Copy(natives[i])
				if err != nil {
					copyErr = err
					return
				}
				results[i] = o
			case 'P':
				// the value must still be what the copier returned: for a stream, the
				// source's data after decryption
				if hs, isStream := results[c.idx].(*pdf.Stream); isStream {
					if ss, ok := natives[c.idx].(*pdf.Stream); ok {
						got, err1 := io.ReadAll(hs.NewReader())
						rc, err2 := pdf.RawStreamReader(src, ss)
						if err1 == nil && err2 == nil {
							want, err3 := io.ReadAll(rc)
							if err3 == nil && !bytes.Equal(got, want) {
								heldChanged = fmt.Sprintf("the stream copied from %v holds %d bytes that differ from the source's %d when it is written", calls[c.idx].ref, len(got), len(want))
							}
						}
					}
				}
				t := dw.Alloc()
				if err := dw.Put(t, results[c.idx]); err != nil {
					copyErr = err
					return
				}
				results[i] = t
			}
		}
	}()

	class := cfg.class
	nontrivial := cfg.nontrivial
	e.Count(nontrivial, ms.String(), class)
	caseInfo := map[string]any{"id": id, "seed": e.Seed, "class": class, "model_case": ms.String(),
		"target_version": tspec.version.String()}
	for k, v := range cfg.info {
		caseInfo[k] = v
	}

	if panicked != "" {
		e.Line("impl.obs", "%s err panic", id)
		e.Fail("copy-panics", "Copier panics: "+panicked, caseInfo)
		return
	}

	// what the copy must touch (source with the redirected objects replaced by their markers)
	srcView := newView(src, tab, nil)
	srcView.cache = plain.cache
	srcView.redir = override
	st := &reachSt{mapped: map[pdf.Reference]bool{}, keys: map[pdf.Reference]bool{}, redirected: redirected}
	var srcRoots []pdf.Object
	nheld := 0
	if !outsideHyp {
		for i, c := range calls {
			switch c.kind {
			case 'X':
				st.mapped[c.ref] = true
				st.keys[c.ref] = true
			case 'R':
				srcView.reach(st, c.ref)
				srcRoots = append(srcRoots, c.ref)
			case 'C':
				srcView.reach(st, c.obj)
				srcRoots = append(srcRoots, c.obj)
			case 'V':
				srcView.reach(st, natives[i])
			case 'P':
				nheld++
				if calls[c.idx].kind == 'V' {
					srcRoots = append(srcRoots, natives[c.idx])
				} else {
					srcRoots = append(srcRoots, calls[c.idx].obj)
				}
			}
		}
	}

	if copyErr != nil {
		cl := "other"
		if pdf.IsMalformed(copyErr) {
			cl = "malformed"
		}
		e.Line("impl.obs", "%s err %s", id, cl)
		if !outsideHyp && !(st.badFilter && cl == "malformed") {
			e.Fail("copy-error", "Copier returns an error for a source graph it must copy: "+copyErr.Error(), caseInfo)
		}
		return
	}

	// second copy of the same reference returns the same target, without allocating
	a1 := dw.Alloc()
	for i, c := range calls {
		if c.kind != 'R' {
			continue
		}
		t, err := cp.CopyReference(c.ref)
		if err != nil || t != results[i] {
			if lateRedirect {
				continue // the caller changed the map
			}
			e.Fail("second-copy-differs", fmt.Sprintf("CopyReference(%v) returned %v, and then %v (err=%v)", c.ref, results[i], t, err), caseInfo)
			outsideHyp = true
		}
	}
	// Redirect replaces the object for every later copy: the reference now
	// copies to the target given in the last Redirect for it (documented
	// behaviour, whether or not it had a translation before)
	lastRedirect := map[pdf.Reference]int{}
	for i, c := range calls {
		if c.kind == 'X' {
			lastRedirect[c.ref] = i
		}
	}
	for i, c := range calls {
		if c.kind != 'X' || lastRedirect[c.ref] != i {
			continue
		}
		t, err := cp.CopyReference(c.ref)
		if err != nil || pdf.Object(t) != results[i] {
			e.Fail("redirect-not-honoured", fmt.Sprintf("after Redirect(%v, %v) CopyReference(%v) returns %v (err=%v)", c.ref, results[i], c.ref, t, err), caseInfo)
			break
		}
	}
	// the real translation map, for the references the copy must have touched
	var trans [][2]pdf.Reference
	if !outsideHyp {
		for _, s := range st.order {
			t, err := cp.CopyReference(s)
			if err != nil {
				e.Fail("second-copy-differs", fmt.Sprintf("CopyReference(%v) of a reference copied before fails: %v", s, err), caseInfo)
				return
			}
			trans = append(trans, [2]pdf.Reference{s, t})
		}
		for _, c := range calls {
			if c.kind == 'X' && !st.inOrder(c.ref) {
				t, _ := cp.CopyReference(c.ref)
				trans = append(trans, [2]pdf.Reference{c.ref, t})
			}
		}
	}
	a2 := dw.Alloc()
	if !outsideHyp && a2 != a1+1 {
		e.Fail("second-copy-allocates", fmt.Sprintf("copying %d references a second time allocated %d new objects", len(trans), a2-a1-1), caseInfo)
	}

	if heldChanged != "" {
		e.Fail("held-value-changed", "a value returned by Copier.Copy changed before it was written: "+heldChanged, caseInfo)
	}
	if openStream != nil {
		if err := openStream.Close(); err != nil {
			e.Line("impl.obs", "%s err close", id)
			e.Fail("target-close", "closing the stream that was open during the copy fails (deferred Puts): "+err.Error(), caseInfo)
			return
		}
	}
	addPages(dw)
	if err := dw.Close(); err != nil {
		e.Line("impl.obs", "%s err close", id)
		e.Fail("target-close", "closing the target fails: "+err.Error(), caseInfo)
		return
	}
	tdata := dbuf.Bytes()
	if seekable {
		tdata = dmem.Data
	}
	dst, err := pdf.NewReader(bytes.NewReader(tdata), int64(len(tdata)), &pdf.ReaderOptions{Password: tspec.pw})
	if err != nil {
		e.Line("impl.obs", "%s err reopen", id)
		e.Fail("target-reopen", "the target cannot be reopened: "+err.Error(), caseInfo)
		return
	}
	dstView := newView(dst, tab, nil)
	dstView.tolerant = true

	var dstRoots []pdf.Object
	for i, c := range calls {
		switch c.kind {
		case 'R', 'C':
			dstRoots = append(dstRoots, results[i])
		case 'P':
			// the object that was written, as a value
			o, ok := dstView.get(results[i].(pdf.Reference))
			if !ok {
				e.Line("impl.obs", "%s err reopen", id)
				e.Fail("target-object-malformed", fmt.Sprintf("target object %v cannot be read", results[i]), caseInfo)
				return
			}
			dstRoots = append(dstRoots, o)
		}
	}
	nputs := int(a1.Number()) - int(a0.Number()) - 1
	ct := dstView.canonRoots(dstRoots)
	if seekable {
		e.Line("impl.obs", "%s ok %d | %s", id, nputs, ct)
	} else {
		e.Line("impl.obs", "%s ok - | %s", id, ct)
	}
	e.Sample(3, map[string]any{"case": ms.String(), "target": ct})
	if dstView.readErr != "" {
		e.Fail("target-object-unreadable", "an object of the reopened target cannot be read: "+dstView.readErr, caseInfo)
		return
	}

	if outsideHyp {
		return
	}

	// ---- the property, directly on the implementation -------------------
	cs := srcView.canonRoots(srcRoots)
	if cs != ct {
		caseInfo["source_canon"] = cs
		caseInfo["target_canon"] = ct
		e.Fail("not-isomorphic", "the reopened target graph differs from the source graph", caseInfo)
	}
	want := len(st.keys)
	if seekable && nputs != want+nheld {
		e.Fail("object-count", fmt.Sprintf("%d target objects for %d distinct source objects reached and %d values written by the caller", nputs, want, nheld), caseInfo)
	}
	tOf := map[pdf.Reference]pdf.Reference{}
	targets := map[pdf.Reference]bool{}
	for _, p := range trans {
		tOf[p[0]] = p[1]
		targets[p[1]] = true
	}
	if len(targets) != want {
		e.Fail("object-count", fmt.Sprintf("%d distinct targets for %d distinct source objects reached", len(targets), want), caseInfo)
	}
	for _, p := range trans {
		if redirected[p[0]] {
			continue
		}
		_, path, ok := srcView.chain(p[0])
		if ok && tOf[path[len(path)-1]] != p[1] {
			e.Fail("alias-not-shared", fmt.Sprintf("%v and the end of its alias chain %v have different targets", p[0], path[len(path)-1]), caseInfo)
			break
		}
	}
	for i, c := range calls {
		if c.kind == 'C' && !shapeEq(c.obj, results[i]) {
			e.Fail("returned-shape", "Copy returns an object of a different shape (keys, lengths, nulls, scalars)", caseInfo)
		}
	}

	// ---- certified checker on the graphs read back from the two files ----
	if noChecker {
		return
	}
	var ks strings.Builder
	nsrc = 0
	srcWire.Reset()
	for _, r := range all {
		o, ok := srcView.get(r)
		if m, red := override[r]; red {
			o, ok = m, true // the redirected object, replaced by what the caller put there
		}
		if !ok {
			fmt.Fprintf(&srcWire, " %d b", uint64(r))
			nsrc++
			continue
		}
		if o == nil {
			continue
		}
		fmt.Fprintf(&srcWire, " %d g", uint64(r))
		wireObj(&srcWire, o, srcView.data)
		nsrc++
	}
	for _, c := range calls {
		if c.kind != 'X' {
			continue
		}
		listed := false
		for _, r := range all {
			if r == c.ref {
				listed = true
			}
		}
		if !listed {
			fmt.Fprintf(&srcWire, " %d g", uint64(c.ref))
			wireObj(&srcWire, c.marker, nil)
			nsrc++
		}
	}
	// the references exempt from encryption by identity: the catalog's metadata stream under /EncryptMetadata false
	plainOf := func(r *pdf.Reader, plainMeta bool) string {
		if plainMeta {
			if m, ok := metaRef(r); ok {
				return fmt.Sprintf(" 1 %d", uint64(m))
			}
		}
		return " 0"
	}
	fmt.Fprintf(&ks, "%s.k K %d %d%s%s %d%s", id, b2i(cfg.srcEnc), b2i(tspec.pw != ""), plainOf(src, cfg.srcPlainMeta), plainOf(dst, tspec.pw != "" && tspec.meta == 2), nsrc, srcWire.String())
	ntgt := 0
	var tgtWire strings.Builder
	for num := a0.Number() + 1; num < a1.Number(); num++ {
		r := pdf.NewReference(num, 0)
		o, ok := dstView.get(r)
		if !ok {
			e.Fail("target-object-malformed", fmt.Sprintf("target object %v cannot be read", r), caseInfo)
			return
		}
		if o == nil {
			continue
		}
		fmt.Fprintf(&tgtWire, " %d", uint64(r))
		wireObj(&tgtWire, o, dstView.data)
		ntgt++
	}
	fmt.Fprintf(&ks, " %d%s %d", ntgt, tgtWire.String(), len(trans))
	for _, p := range trans {
		fmt.Fprintf(&ks, " %d %d", uint64(p[0]), uint64(p[1]))
	}
	fmt.Fprintf(&ks, " %d", len(srcRoots))
	for i := range srcRoots {
		wireObj(&ks, srcRoots[i], srcView.data)
		wireObj(&ks, dstRoots[i], dstView.data)
	}
	// what the copier and the target Writer did with the stream data: is it
	// ciphertext in the target file?  (compared with the model's decision)
	var obsWire, obsLine strings.Builder
	nobs := 0
	seenT := map[pdf.Reference]bool{}
	for _, p := range trans {
		if seenT[p[1]] {
			continue
		}
		seenT[p[1]] = true
		sv, _, ok := srcView.chain(p[0])
		sst, isStream := sv.(*pdf.Stream)
		if !ok || !isStream || redirected[p[0]] {
			continue
		}
		to, ok := dstView.get(p[1])
		tst, isT := to.(*pdf.Stream)
		if !ok || !isT {
			continue
		}
		flag := 2
		rc, err := pdf.RawStreamReader(src, sst)
		if err == nil {
			payload, err1 := io.ReadAll(rc)
			onDisk, err2 := io.ReadAll(tst.NewReader())
			if err1 == nil && err2 == nil && len(payload) > 0 {
				flag = 1
				if bytes.Equal(payload, onDisk) {
					flag = 0
				}
			}
		}
		fmt.Fprintf(&obsWire, " %d %d", uint64(p[1]), flag)
		fmt.Fprintf(&obsLine, " %d:%d", uint64(p[1]), flag)
		nobs++
	}
	fmt.Fprintf(&ks, " %d%s", nobs, obsWire.String())
	e.Line("cases.txt", "%s", ks.String())
	e.Line("impl.obs", "%s.k.y%s", id, obsLine.String())
	e.Line("impl.obs", "%s.k iso 1", id)
	e.Line("impl.obs", "%s.k.cs %s", id, cs)
	e.Line("impl.obs", "%s.k.ct %s", id, ct)
}

// ---------------------------------------------------------------------------
// corpus: fixed graphs from the design round and from earlier failures

type fixedCase struct {
	name   string
	bodies []string // objects 3.. of a hand-written file
	calls  []callSpec
	gens   map[uint32]uint16 // objects whose generation is not 0
}

func rcallg(n uint32, gen uint16) callSpec { return callSpec{kind: 'R', ref: pdf.NewReference(n, gen)} }
func xcallg(n uint32, gen uint16, m int) callSpec {
	return callSpec{kind: 'X', ref: pdf.NewReference(n, gen), marker: pdf.Integer(m)}
}

func rcall(n uint32) callSpec { return callSpec{kind: 'R', ref: pdf.NewReference(n, 0)} }
func xcall(n uint32, m int) callSpec {
	return callSpec{kind: 'X', ref: pdf.NewReference(n, 0), marker: pdf.Integer(m)}
}

var corpus = []fixedCase{
	// F2: empty arrays; F3: null entries; F15: alias chains and sharing
	{"empty-array", []string{"[[] 0]", "<< /E [] /D << >> >>"}, []callSpec{rcall(3), rcall(4)}, nil},
	{"null-entry", []string{"<< /A null /B [null 1 null] >>"}, []callSpec{rcall(3)}, nil},
	{"direct-null-entry", []string{"1"}, []callSpec{{kind: 'C', obj: pdf.Dict{"A": nil, "B": pdf.Array{nil, pdf.Array{}, pdf.Dict{}}}}}, nil},
	{"alias-sharing", []string{"[4 0 R 5 0 R 4 0 R 6 0 R 7 0 R]", "5 0 R", "<< /T /S /Length 11 >>\nstream\nstream data\nendstream", "4 0 R", "<< /Me 7 0 R /A 6 0 R >>"}, []callSpec{rcall(3)}, nil},
	{"alias-then-direct", []string{"4 0 R", "<< /T /S >>"}, []callSpec{rcall(3), rcall(4), rcall(3)}, nil},
	{"direct-then-alias", []string{"4 0 R", "<< /T /S >>"}, []callSpec{rcall(4), rcall(3)}, nil},
	{"alias-cycle", []string{"[4 0 R 5 0 R 6 0 R]", "5 0 R", "4 0 R", "6 0 R"}, []callSpec{rcall(3), rcall(4)}, nil},
	{"dangling", []string{"[9 0 R 9 0 R 10 0 R << /K 9 0 R >>]"}, []callSpec{rcall(3), rcall(9)}, nil},
	{"indirect-stream-keys", []string{"<< /Length 4 0 R /Filter 5 0 R /DecodeParms 7 0 R >>\nstream\n68656c6c6f>\nendstream", "11", "[6 0 R]", "/ASCIIHexDecode", "[8 0 R]", "<< /X 3 0 R >>"}, []callSpec{rcall(3)}, nil},
	{"filter-cycle", []string{"<< /Filter 4 0 R /Length 3 >>\nstream\nabc\nendstream", "4 0 R"}, []callSpec{rcall(3)}, nil},
	// F26: /Filter resolves to the stream itself, to another stream, to an array holding a stream
	{"filter-self", []string{"<< /Filter 3 0 R /Length 3 >>\nstream\nabc\nendstream"}, []callSpec{rcall(3)}, nil},
	{"filter-stream", []string{"<< /DecodeParms 4 0 R /Length 3 >>\nstream\nabc\nendstream", "<< /Length 1 >>\nstream\nx\nendstream"}, []callSpec{rcall(3)}, nil},
	{"filter-elem-stream", []string{"<< /Filter [4 0 R] /Length 3 >>\nstream\nabc\nendstream", "<< /Filter [3 0 R] /Length 1 >>\nstream\nx\nendstream"}, []callSpec{rcall(3), rcall(4)}, nil},
	// a cycle entered through an alias of one of its members
	{"alias-into-cycle", []string{"4 0 R", "<< /Kid 5 0 R >>", "<< /Parent 4 0 R /Up 3 0 R >>"}, []callSpec{rcall(3)}, nil},
	// the same object number with different generations: different objects, all but one undefined
	{name: "stale-gen-after-live", bodies: []string{"<< /A 4 0 R /B 4 1 R /C 4 65535 R >>", "<< /T /S >>"}, calls: []callSpec{rcall(3)}},
	{name: "stale-gen-before-live", bodies: []string{"<< /A 4 1 R /B 4 0 R >>", "<< /Me 4 0 R /Old 4 1 R >>"}, calls: []callSpec{rcall(3)}},
	{name: "stale-gen-calls", bodies: []string{"[4 0 R]", "<< /T /S >>"}, calls: []callSpec{rcallg(4, 1), rcall(4), rcall(3), rcallg(4, 1)}},
	{name: "live-gen-2", bodies: []string{"<< /A 4 0 R /B 4 2 R >>", "<< /T /S /Up 3 0 R >>", "4 0 R", "4 2 R"},
		calls: []callSpec{rcall(5), rcall(6), rcall(3)}, gens: map[uint32]uint16{4: 2}},
	{name: "live-gen-2-first", bodies: []string{"<< /A 4 2 R /B 4 0 R >>", "<< /T /S >>"},
		calls: []callSpec{rcall(3)}, gens: map[uint32]uint16{4: 2}},
	{name: "redirect-stale-gen", bodies: []string{"[4 0 R 4 1 R]", "<< /T /S >>"}, calls: []callSpec{xcallg(4, 1, 777), rcall(3), rcall(4)}},
	{name: "redirect-live-gen", bodies: []string{"[4 1 R 4 0 R]", "<< /T /S >>"}, calls: []callSpec{xcall(4, 777), rcall(3), rcallg(4, 1)}},
	{"alias-into-self-cycle", []string{"4 0 R", "5 0 R", "[5 0 R 3 0 R 4 0 R]"}, []callSpec{rcall(3), rcall(5)}, nil},
	{"redirect", []string{"[4 0 R 5 0 R]", "5 0 R", "<< /K 3 0 R >>"}, []callSpec{xcall(5, 777), rcall(3), rcall(4)}, nil},
	// F27: Redirect of an alias, then a copy through a longer chain ending in the same object
	{"redirect-of-alias", []string{"<< /T /S >>", "3 0 R", "4 0 R"}, []callSpec{xcall(4, 777), rcall(4), rcall(5), rcall(4)}, nil},
}

func runCorpus(e *common.Env) {
	for ci, fc := range corpus {
		h := &handFile{bodies: map[uint32]string{}, gens: fc.gens, next: 3}
		h.bodies[1] = "<< /Type /Catalog /Pages 2 0 R >>"
		h.bodies[2] = "<< /Type /Pages /Kids [] /Count 0 >>"
		for _, b := range fc.bodies {
			h.add(b)
		}
		data := h.bytes()
		var all []pdf.Reference
		for n := uint32(3); n < h.next+8; n++ {
			all = append(all, pdf.NewReference(n, fc.gens[n]))
		}
		for ti, tpw := range []string{"", "dst-secret"} {
			id := fmt.Sprintf("k%d.%d", ci, ti)
			src, err := pdf.NewReader(bytes.NewReader(data), int64(len(data)), nil)
			must(err)
			execCase(e, id, caseCfg{src: src, all: all, calls: fc.calls, tspec: srcSpec{version: pdf.V1_7, pw: tpw}, seekable: true,
				class: "corpus", nontrivial: true, info: map[string]any{"corpus": fc.name}})
		}
	}
}

// supervise runs the harness proper in a child process, so that a fatal
// runtime error in the library (stack overflow from unbounded recursion cannot
// be recovered) is reported as a failing input rather than as a crash of the
// check.
func supervise() {
	exe, err := os.Executable()
	must(err)
	cmd := exec.Command(exe, os.Args[1:]...)
	cmd.Env = append(os.Environ(), "C11_CHILD=1")
	var out bytes.Buffer
	cmd.Stdout = &out
	cmd.Stderr = &out
	err = cmd.Run()
	if err == nil {
		os.Stdout.Write(out.Bytes())
		return
	}
	e := common.New(11)
	last, _ := os.ReadFile(filepath.Join(e.Dir, "progress.txt"))
	msg := out.String()
	if i := strings.Index(msg, "\n\n"); i > 0 {
		msg = msg[:i]
	}
	if len(msg) > 600 {
		msg = msg[:600]
	}
	if bytes.HasPrefix(out.Bytes(), []byte("panic: harness:")) || len(last) == 0 {
		// the harness itself is broken
		os.Stdout.Write(out.Bytes())
		os.Exit(2)
	}
	e.Line("cases.txt", "%s", strings.TrimSpace(string(last)))
	e.Line("impl.obs", "%s err crash", strings.SplitN(string(last), " ", 2)[0])
	e.Count(true, string(last), "crash")
	e.Sample(1, map[string]any{"case": string(last), "outcome": "process died"})
	e.Fail("copier-kills-process", "the process died while copying: "+msg, map[string]any{"model_case": string(last)})
	e.Finish("the run was cut short by a fatal error in the process under test", nil)
}

func main() {
	if os.Getenv("C11_CHILD") == "" {
		supervise()
		return
	}
	debug.SetMaxStack(64 << 20)
	e := common.New(11)
	runCorpus(e)
	n := e.Pick(5000, 100000)
	for i := 0; i < n; i++ {
		variant := 0
		if i%12 == 11 {
			variant = 1
		}
		runCase(e, fmt.Sprintf("g%d", i), variant)
	}
	os.Remove(filepath.Join(e.Dir, "progress.txt"))
	e.Finish("random source graphs (1..20 objects: values, aliases incl. self-aliases and cycles, streams with 0-2 filters, dangling, "+
		"and in hand-written files broken objects, null objects, indirect /Length /Filter /DecodeParms, alias chains of 254..300 references) "+
		"x {pdf.Writer source: plain, encrypted, human-readable, object streams | hand-written source} x target {1.4,1.7,2.0} x {plain, encrypted, human-readable} x {seekable, not} "+
		"x 1-3 Copy/CopyReference calls, optionally preceded (or, every 25th case, interrupted) by Redirect; plus a fixed corpus", nil)
}
