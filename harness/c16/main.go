// C16 harness: the page tree writer and readers.
//
// A case is a program of AppendPageDict / NewRange / Close / NextPageNumber
// operations on a tree of nested pagetree.Writers.  The harness runs it on the
// real writer, closes the root, writes and reopens the file and
//
//  1. evaluates the property directly on the implementation (order of pages,
//     /Count, /Parent, fan-out, effective inheritable attributes, NumPages,
//     GetPage, page-number callbacks, accepted/refused operations) against an
//     independent Go statement of the range semantics - failing inputs go to
//     fails.jsonl;
//  2. writes cases.txt / impl.obs for the comparison with the extracted Coq
//     model: `W` cases (model writer vs real writer, and - on the model side -
//     the Coq specification as `<id>.spec`) and `R` cases (the raw tree found
//     in the file: certified validator ptree_ok and the reader model against
//     the real Iterator / GetPage / NumPages).
package main

import (
	"bytes"
	"fmt"
	"io"
	"sort"
	"strconv"
	"strings"

	"seehuhn.de/go/pdf"
	"seehuhn.de/go/pdf/internal/debug/memfile"
	"seehuhn.de/go/pdf/pagetree"
	"seehuhn.de/go/pdf/verifharness/common"
)

const maxDegree = 16

// ---------------------------------------------------------------- programs

const (
	kMediaBox = iota
	kCropBox
	kRotate
	kAA
	kResources
)

var keyNames = [5]pdf.Name{"MediaBox", "CropBox", "Rotate", "AA", "Resources"}

type op struct {
	kind  byte // 'A', 'N', 'C', 'Q'
	w     int
	page  int
	attrs [5]int // -1: absent
	k     int
}

func (o op) wire() string {
	switch o.kind {
	case 'A':
		return fmt.Sprintf("A %d %d %s", o.w, o.page, attrsWire(o.attrs))
	case 'Q':
		return fmt.Sprintf("Q %d %d", o.w, o.k)
	default:
		return fmt.Sprintf("%c %d", o.kind, o.w)
	}
}

// absent marks a missing attribute (Rotate may be negative)
const absent = -1 << 40

func attrsWire(a [5]int) string {
	var parts []string
	for _, v := range a {
		if v == absent {
			parts = append(parts, "n")
		} else {
			parts = append(parts, strconv.Itoa(v))
		}
	}
	return strings.Join(parts, " ")
}

func progWire(p []op) string {
	var sb strings.Builder
	fmt.Fprintf(&sb, "%d", len(p))
	for _, o := range p {
		sb.WriteByte(' ')
		sb.WriteString(o.wire())
	}
	return sb.String()
}

// Box values.  Ids 1..3 are the plain family; ids >= 10 form families of values that are DIFFERENT
// but coincide under some coarser equivalence: rounding to 0, 1, 2 or 3 decimals, float32 rounding,
// permuted corners.  An attribute id stands for an exact value; how the value is spelled in the page
// dictionary (*pdf.Rectangle, array of integers/reals, array of reals) is chosen per page.
var nearBoxes = map[int][4]float64{
	10: {0, 0, 595.2756, 841.8898}, // exact A4
	11: {0, 0, 595.28, 841.89},     // ... rounded to two decimals
	12: {0, 0, 595.276, 841.89},    // ... to three
	13: {0, 0, 595, 842},           // ... to none
	14: {0, 0, float64(float32(595.2756)), float64(float32(841.8898))},
	15: {0, 0, 500, 500},
	16: {0, 0, 500.004, 500},
	17: {0, 0, 500.0004, 500},
	18: {0, 0, 500.4, 500},
	19: {0, 0, 500.04, 500},
	20: {100, 100, 0, 0}, // corners of box 1 (of MediaBox) exchanged
	21: {0, 100, 100, 0},
}

var boxIDs = []int{1, 2, 3, 10, 11, 12, 13, 14, 15, 16, 17, 18, 19, 20, 21}

func boxCoords(k, v int) [4]float64 {
	if c, ok := nearBoxes[v]; ok {
		return c
	}
	if k == kMediaBox {
		return [4]float64{0, 0, float64(100 * v), 100}
	}
	return [4]float64{0, 0, float64(50 * v), 50}
}

func encodeAttr(k int, v int, spelling int) pdf.Object {
	switch k {
	case kMediaBox, kCropBox:
		c := boxCoords(k, v)
		switch spelling % 3 {
		case 0:
			return &pdf.Rectangle{LLx: c[0], LLy: c[1], URx: c[2], URy: c[3]}
		case 1:
			return pdf.Array{pdf.Number(c[0]).AsPDF(0), pdf.Number(c[1]).AsPDF(0), pdf.Number(c[2]).AsPDF(0), pdf.Number(c[3]).AsPDF(0)}
		default:
			return pdf.Array{pdf.Real(c[0]), pdf.Real(c[1]), pdf.Real(c[2]), pdf.Real(c[3])}
		}
	case kRotate:
		if spelling%3 == 2 {
			return pdf.Real(v)
		}
		return pdf.Integer(v)
	case kAA:
		return pdf.Dict{"O": pdf.Integer(v)}
	default:
		return pdf.Dict{"V": pdf.Integer(v)}
	}
}

func number(x pdf.Object) (float64, bool) {
	switch x := x.(type) {
	case pdf.Integer:
		return float64(x), true
	case pdf.Real:
		return float64(x), true
	}
	return 0, false
}

// decodeAttr maps what was read back to the id of the EXACT value (the writer formats reals
// with the shortest representation that reads back to the same float64); -2: not a known value.
func decodeAttr(r pdf.Getter, k int, obj pdf.Object) (int, bool) {
	x, err := pdf.Resolve(r, obj)
	if err != nil || x == nil {
		return absent, false
	}
	switch k {
	case kMediaBox, kCropBox:
		a, ok := x.(pdf.Array)
		if !ok || len(a) != 4 {
			return -2, true
		}
		var c [4]float64
		for i := range c {
			v, ok := number(a[i])
			if !ok {
				return -2, true
			}
			c[i] = v
		}
		for _, id := range boxIDs {
			if boxCoords(k, id) == c {
				return id, true
			}
		}
		return -2, true
	case kRotate:
		v, ok := number(x)
		if !ok || v != float64(int(v)) {
			return -2, true
		}
		return int(v), true
	case kAA:
		d, ok := x.(pdf.Dict)
		if !ok {
			return -2, true
		}
		v, ok := d["O"].(pdf.Integer)
		return int(v), ok
	default:
		d, ok := x.(pdf.Dict)
		if !ok {
			return -2, true
		}
		v, ok := d["V"].(pdf.Integer)
		return int(v), ok
	}
}

func dictAttrs(r pdf.Getter, d pdf.Dict) [5]int {
	var a [5]int
	for k := range a {
		a[k] = absent
		if obj, ok := d[keyNames[k]]; ok {
			if v, ok := decodeAttr(r, k, obj); ok {
				a[k] = v
			}
		}
	}
	return a
}

// ------------------------------------------------ the range semantics in Go

type sitem struct {
	page   int // >= 0: a page
	rng    *srange
	frozen bool
}

type srange struct {
	id     int
	closed bool
	items  []sitem
}

func (r *srange) pages(out *[]int) {
	for _, it := range r.items {
		if it.rng != nil {
			it.rng.pages(out)
		} else {
			*out = append(*out, it.page)
		}
	}
}

func (r *srange) find(id int) *srange {
	if r.id == id {
		return r
	}
	if r.closed {
		return nil // frozen: sub-ranges are gone
	}
	for _, it := range r.items {
		if it.rng != nil {
			if x := it.rng.find(id); x != nil {
				return x
			}
		}
	}
	return nil
}

func (r *srange) openIDs(out *[]int) {
	if r.closed {
		return
	}
	*out = append(*out, r.id)
	for _, it := range r.items {
		if it.rng != nil {
			it.rng.openIDs(out)
		}
	}
}

type specResult struct {
	pages []int
	acc   []bool
	log   map[int]int // callback -> value
}

func runSpec(prog []op) specResult {
	root := &srange{id: 0}
	next := 1
	type reg struct{ w, k int }
	var pending []reg
	resolved := map[int]int{} // k -> page or -1
	byPage := map[int][]int{} // page -> callbacks
	var acc []bool
	resolveClose := func(ids []int) {
		set := map[int]bool{}
		for _, i := range ids {
			set[i] = true
		}
		var rest []reg
		for _, p := range pending {
			if set[p.w] {
				resolved[p.k] = -1
			} else {
				rest = append(rest, p)
			}
		}
		pending = rest
	}
	for _, o := range prog {
		r := root.find(o.w)
		open := r != nil && !r.closed
		switch o.kind {
		case 'A':
			acc = append(acc, open)
			if open {
				r.items = append(r.items, sitem{page: o.page})
				var rest []reg
				for _, p := range pending {
					if p.w == o.w {
						byPage[o.page] = append(byPage[o.page], p.k)
					} else {
						rest = append(rest, p)
					}
				}
				pending = rest
			}
		case 'N':
			acc = append(acc, open)
			if open {
				r.items = append(r.items, sitem{page: -1, rng: &srange{id: next}})
				next++
			}
		case 'C':
			acc = append(acc, open)
			if open {
				var ids []int
				r.openIDs(&ids)
				resolveClose(ids)
				var ps []int
				r.pages(&ps)
				r.items = nil
				for _, p := range ps {
					r.items = append(r.items, sitem{page: p})
				}
				r.closed = true
			}
		case 'Q':
			acc = append(acc, true)
			if open {
				pending = append(pending, reg{o.w, o.k})
			} else {
				resolved[o.k] = -1
			}
		}
	}
	for _, p := range pending {
		resolved[p.k] = -1
	}
	var pages []int
	root.pages(&pages)
	pos := map[int]int{}
	for i, p := range pages {
		pos[p] = i
	}
	for p, ks := range byPage {
		for _, k := range ks {
			resolved[k] = pos[p]
		}
	}
	return specResult{pages: pages, acc: acc, log: resolved}
}

// ----------------------------------------------------------- raw page trees

type rnode struct {
	isPage  bool
	ref     string
	parent  string // "n" = none
	attrs   [5]int
	count   int
	kids    []*rnode
	badForm string
}

func refName(r pdf.Getter, ref pdf.Reference, pageIDs map[pdf.Reference]int) string {
	if id, ok := pageIDs[ref]; ok {
		return "p" + strconv.Itoa(id)
	}
	return "n" + strconv.Itoa(int(ref.Number()))
}

func readTree(r pdf.Getter, ref pdf.Reference, pageIDs map[pdf.Reference]int, seen map[pdf.Reference]bool, depth int) *rnode {
	n := &rnode{parent: "n"}
	if seen[ref] || depth > 100000 {
		n.badForm = "shared-or-deep"
		n.isPage = true
		n.ref = "p999999"
		return n
	}
	seen[ref] = true
	x, err := pdf.Resolve(r, ref)
	d, ok := x.(pdf.Dict)
	if err != nil || !ok {
		n.badForm = "not-a-dict"
		n.isPage = true
		n.ref = "p999999"
		return n
	}
	n.attrs = dictAttrs(r, d)
	if p, ok := d["Parent"].(pdf.Reference); ok {
		n.parent = refName(r, p, pageIDs)
	} else if _, present := d["Parent"]; present {
		n.badForm = "parent-not-a-reference"
	}
	switch d["Type"] {
	case pdf.Name("Page"):
		n.isPage = true
		id, ok := d["VerifID"].(pdf.Integer)
		if !ok {
			n.badForm = "page-without-id"
		}
		pageIDs[ref] = int(id)
		n.ref = "p" + strconv.Itoa(int(id))
	case pdf.Name("Pages"):
		n.ref = "n" + strconv.Itoa(int(ref.Number()))
		c, ok := d["Count"].(pdf.Integer)
		if !ok {
			n.badForm = "count-not-an-integer"
		}
		n.count = int(c)
		kids, _ := d["Kids"].(pdf.Array)
		for _, k := range kids {
			kr, ok := k.(pdf.Reference)
			if !ok {
				n.badForm = "kid-not-a-reference"
				continue
			}
			n.kids = append(n.kids, readTree(r, kr, pageIDs, seen, depth+1))
		}
	default:
		n.badForm = "type"
		n.isPage = true
		n.ref = "p999999"
	}
	return n
}

func (n *rnode) wire(sb *strings.Builder) {
	if n.isPage {
		fmt.Fprintf(sb, "P %s %s %s ", n.ref, n.parent, attrsWire(n.attrs))
		return
	}
	fmt.Fprintf(sb, "G %s %s %s %d %d ", n.ref, n.parent, attrsWire(n.attrs), n.count, len(n.kids))
	for _, k := range n.kids {
		k.wire(sb)
	}
}

func (n *rnode) leaves() int {
	if n.isPage {
		return 1
	}
	t := 0
	for _, k := range n.kids {
		t += k.leaves()
	}
	return t
}

func (n *rnode) height() int {
	h := 0
	for _, k := range n.kids {
		h = max(h, k.height())
	}
	return h + 1
}

// structure: the structural half of the property on a raw tree ("" = holds)
func structure(root *rnode) string {
	if root.isPage {
		return "structure:root-is-a-page"
	}
	if root.parent != "n" {
		return "structure:root-has-parent"
	}
	var rec func(n *rnode, parent string, isRoot bool) string
	rec = func(n *rnode, parent string, isRoot bool) string {
		if n.badForm != "" {
			return "structure:" + n.badForm
		}
		if !isRoot && n.parent != parent {
			return "structure:parent"
		}
		if n.isPage {
			return ""
		}
		if n.count != n.leaves() {
			return "structure:count"
		}
		if len(n.kids) > maxDegree {
			return "structure:fan-out"
		}
		if len(n.kids) == 0 {
			return "structure:no-kids"
		}
		for _, k := range n.kids {
			if s := rec(k, n.ref, false); s != "" {
				return s
			}
		}
		return ""
	}
	return rec(root, "n", true)
}

// ------------------------------------------------------------------ running

func hashStr(h uint64, s string) uint64 {
	for i := 0; i < len(s); i++ {
		h = (h*31 + uint64(s[i])) & 0xFFFFFFFFFF
	}
	return h
}

func pageStr(norm bool, id int, a [5]int) string {
	show := func(v int) string {
		if v == absent {
			return "n"
		}
		return strconv.Itoa(v)
	}
	rot := show(a[kRotate])
	if norm && a[kRotate] == absent {
		rot = "0"
	}
	return fmt.Sprintf("p%d:%s,%s,%s,%s,%s;", id, show(a[kMediaBox]), show(a[kCropBox]), rot, show(a[kAA]), show(a[kResources]))
}

type runner struct {
	e    *common.Env
	id   int
	ncfg int
}

func (t *runner) nextID() string {
	t.id++
	return fmt.Sprintf("c%d", t.id)
}

func bools(b []bool) string {
	var sb strings.Builder
	for _, x := range b {
		if x {
			sb.WriteByte('1')
		} else {
			sb.WriteByte('0')
		}
	}
	return sb.String()
}

func logStr(m map[int]int) string {
	var ks []int
	for k := range m {
		ks = append(ks, k)
	}
	sort.Ints(ks)
	var parts []string
	for _, k := range ks {
		parts = append(parts, fmt.Sprintf("%d:%d", k, m[k]))
	}
	return strings.Join(parts, ",")
}

func short(s string) string {
	if len(s) > 600 {
		return s[:600] + "..."
	}
	return s
}

func (t *runner) test(prog []op, old bool, class string) {
	e := t.e
	id := t.nextID()
	oldFlag := 0
	v := pdf.V1_7
	if old {
		oldFlag = 1
		v = pdf.V1_2
	}
	wire := progWire(prog)
	e.Line("cases.txt", "%s W %d %s", id, oldFlag, wire)
	nA := 0
	for _, o := range prog {
		if o.kind == 'A' {
			nA++
		}
	}
	e.Count(len(prog) > 1, strconv.Itoa(oldFlag)+wire, class)
	cs := map[string]any{"old": old, "program": short(wire), "ops": len(prog)}
	spec := runSpec(prog)
	given := map[int][5]int{}
	for _, o := range prog {
		if o.kind == 'A' {
			given[o.page] = o.attrs
		}
	}

	// the configuration a caller can be in: version, HumanReadable, seekable output or not,
	// a content stream open on the same Writer while the pages are added (small documents:
	// the page tree writes its nodes with WriteCompressed, which a Writer refuses inside a stream)
	t.ncfg++
	if !old {
		v = []pdf.Version{pdf.V1_7, pdf.V1_4, pdf.V2_0}[t.ncfg%3]
	}
	human := (t.ncfg/2)%3 == 1
	seekable := (t.ncfg/3)%2 == 0
	openStream := nA <= 15 && t.ncfg%2 == 0
	cfgName := fmt.Sprintf("version=%s human=%v seekable=%v stream-open=%v", v, human, seekable, openStream)
	cs["config"] = cfgName
	e.Dist[fmt.Sprintf("config:human=%v seekable=%v stream-open=%v", human, seekable, openStream)]++
	e.Dist["config:version="+v.String()]++
	var out io.Writer
	buf := &bytes.Buffer{}
	mem := memfile.New()
	if seekable {
		out = mem
	} else {
		out = buf
	}
	var opt *pdf.WriterOptions
	if human {
		opt = &pdf.WriterOptions{HumanReadable: true}
	}
	w, err := pdf.NewWriter(out, v, opt)
	if err != nil {
		panic(err)
	}
	rm := pdf.NewResourceManager(w)
	writers := []*pagetree.Writer{pagetree.NewWriter(w, rm)}
	log := map[int]int{}
	dup := false
	var acc []bool
	var rootRef pdf.Reference
	var closeErr error
	perr := func() (perr string) {
		defer func() {
			if r := recover(); r != nil {
				perr = fmt.Sprint(r)
			}
		}()
		var stm io.WriteCloser
		if openStream {
			var err error
			stm, err = w.OpenStream(w.Alloc(), nil)
			if err != nil {
				panic(err)
			}
			if _, err := stm.Write([]byte("q Q\n")); err != nil {
				panic(err)
			}
		}
		for _, o := range prog {
			if o.w >= len(writers) {
				acc = append(acc, false)
				continue
			}
			wr := writers[o.w]
			switch o.kind {
			case 'A':
				d := pdf.Dict{"Type": pdf.Name("Page"), "VerifID": pdf.Integer(o.page)}
				for k, val := range o.attrs {
					if val != absent {
						d[keyNames[k]] = encodeAttr(k, val, o.page*7+k+t.ncfg)
					}
				}
				err := wr.AppendPageDict(w.Alloc(), d)
				acc = append(acc, err == nil)
			case 'N':
				sub, err := wr.NewRange()
				acc = append(acc, err == nil)
				if err == nil {
					writers = append(writers, sub)
				}
			case 'C':
				_, err := wr.Close()
				acc = append(acc, err == nil)
			case 'Q':
				k := o.k
				wr.NextPageNumber(func(n int) {
					if _, seen := log[k]; seen {
						dup = true
					}
					log[k] = n
				})
				acc = append(acc, true)
			}
		}
		if stm != nil {
			if err := stm.Close(); err != nil {
				panic(err)
			}
		}
		rootRef, closeErr = writers[0].Close()
		return ""
	}()
	if perr != "" {
		e.Fail("writer-panic", "the page tree writer panics: "+perr, cs)
		e.Line("impl.obs", "%s panic", id)
		return
	}
	if bools(acc) != bools(spec.acc) {
		cs["got"] = bools(acc)
		cs["want"] = bools(spec.acc)
		e.Fail("accepted-ops", "an operation on an open range is refused, or one on a closed range carried out", cs)
	}
	if dup {
		e.Fail("callback-twice", "a NextPageNumber callback is called more than once", cs)
	}
	if logStr(log) != logStr(spec.log) {
		cs["got"] = short(logStr(log))
		cs["want"] = short(logStr(spec.log))
		e.Fail("page-numbers", "a NextPageNumber callback does not report the page's final position (or -1)", cs)
	}
	if len(spec.pages) == 0 {
		if closeErr == nil {
			e.Fail("empty-document", "closing a page tree without pages succeeds", cs)
			e.Line("impl.obs", "%s ok", id)
		} else {
			e.Line("impl.obs", "%s nopages acc=%s log=%s", id, bools(acc), logStr(log))
			e.Line("impl.obs", "%s.spec nopages acc=%s log=%s", id, bools(spec.acc), logStr(spec.log))
		}
		return
	}
	if closeErr != nil {
		e.Fail("close-error", "closing the root fails: "+closeErr.Error(), cs)
		e.Line("impl.obs", "%s err", id)
		return
	}
	w.GetMeta().Catalog.Pages = rootRef
	if err := rm.Close(); err != nil {
		panic(err)
	}
	if err := w.Close(); err != nil {
		e.Fail("file-close-error", "closing the PDF writer fails: "+err.Error(), cs)
		e.Line("impl.obs", "%s err", id)
		return
	}
	data := buf.Bytes()
	if seekable {
		data = mem.Data
	}
	rd, err := pdf.NewReader(bytes.NewReader(data), int64(len(data)), nil)
	if err != nil {
		e.Fail("reopen-error", "the written file cannot be opened: "+err.Error(), cs)
		e.Line("impl.obs", "%s err", id)
		return
	}

	// --- readers
	var gotIDs []int
	var gotAttrs [][5]int
	effN, effRaw := uint64(7), uint64(7)
	it := pagetree.NewIterator(rd)
	seq := it.All()
	for _, d := range seq {
		pid, _ := d["VerifID"].(pdf.Integer)
		a := dictAttrs(rd, d)
		gotIDs = append(gotIDs, int(pid))
		gotAttrs = append(gotAttrs, a)
		effN = hashStr(effN, pageStr(true, int(pid), a))
		effRaw = hashStr(effRaw, pageStr(false, int(pid), a))
	}
	if it.Err != nil {
		e.Fail("iterator-error", "Iterator.All fails: "+it.Err.Error(), cs)
	}
	// the sequence is a value: abandoning a pass, interleaving GetPage and ranging again
	// over the same value (or a new one of the same Iterator) must give the same pages
	{
		pass := func(s func(func(pdf.Reference, pdf.Dict) bool), stopAfter int) uint64 {
			h, i := uint64(7), 0
			for _, d := range s {
				if i == stopAfter {
					break
				}
				if i == 1 {
					pagetree.GetPage(rd, len(gotIDs)/2)
				}
				pid, _ := d["VerifID"].(pdf.Integer)
				h = hashStr(h, pageStr(false, int(pid), dictAttrs(rd, d)))
				i++
			}
			return h
		}
		pass(seq, len(gotIDs)/2)
		if pass(seq, -1) != effRaw || len(gotIDs) <= 300 && (pass(seq, -1) != effRaw || pass(it.All(), -1) != effRaw) {
			e.Fail("iterator-reuse", "ranging again over Iterator.All (after an abandoned pass, with GetPage in between) does not give the same pages", cs)
		}
	}
	numPages, nerr := pagetree.NumPages(rd)
	if nerr != nil {
		numPages = -1
	}

	// --- raw tree
	pageIDs := map[pdf.Reference]int{}
	raw := readTree(rd, rootRef, pageIDs, map[pdf.Reference]bool{}, 0)
	// a second pass gives parents of nodes read before their page ids were known the right names
	raw = readTree(rd, rootRef, pageIDs, map[pdf.Reference]bool{}, 0)
	verdict := structure(raw)
	if verdict != "" {
		e.Fail(verdict, "the written page tree violates a structural condition ("+verdict+")", cs)
	}
	e.Dist["height-"+strconv.Itoa(raw.height())]++
	var walk func(n *rnode)
	walk = func(n *rnode) {
		if !n.isPage {
			for k, v := range n.attrs {
				if v != absent {
					e.Dist["hoisted-into-a-Pages-node:"+string(keyNames[k])]++
					if k == kRotate && v == 0 {
						e.Dist["hoisted-into-a-Pages-node:Rotate=0"]++
					}
				}
			}
		}
		for _, c := range n.kids {
			walk(c)
		}
	}
	walk(raw)

	// --- the property on the implementation
	orderOK := len(gotIDs) == len(spec.pages)
	for i := range spec.pages {
		if !orderOK || gotIDs[i] != spec.pages[i] {
			orderOK = false
			break
		}
	}
	if !orderOK {
		cs["got-pages"] = len(gotIDs)
		cs["want-pages"] = len(spec.pages)
		e.Fail("order", "the pages of the written tree are not the pages in document order", cs)
	}
	attrsOK := true
	if orderOK {
		for i, pid := range gotIDs {
			if pageStr(true, pid, gotAttrs[i]) != pageStr(true, pid, given[pid]) {
				cs["page"] = pid
				cs["got"] = pageStr(true, pid, gotAttrs[i])
				cs["want"] = pageStr(true, pid, given[pid])
				e.Fail("inherited-attributes", "a page's effective attributes differ from the ones it was given", cs)
				attrsOK = false
				break
			}
		}
	}
	if numPages != len(spec.pages) {
		e.Fail("num-pages", fmt.Sprintf("NumPages = %d for %d pages", numPages, len(spec.pages)), cs)
	}
	// GetPage for sampled positions (all of them for small documents)
	var probes []int
	n := len(spec.pages)
	if n <= 40 {
		for i := 0; i < n; i++ {
			probes = append(probes, i)
		}
	} else {
		probes = append(probes, 0, n-1, 15, 16, 17, n/2)
		for len(probes) < 14 {
			probes = append(probes, e.Rand.IntN(n))
		}
	}
	probes = append(probes, n, n+3) // out of range
	getH := uint64(7)
	for _, i := range probes {
		_, d, err := pagetree.GetPage(rd, i)
		if i >= n {
			if err == nil {
				e.Fail("get-page", "GetPage succeeds beyond the last page", cs)
			}
			getH = hashStr(getH, "-")
			continue
		}
		if err != nil {
			cs["index"] = i
			e.Fail("get-page", "GetPage fails for an existing page: "+err.Error(), cs)
			getH = hashStr(getH, "-")
			continue
		}
		pid, _ := d["VerifID"].(pdf.Integer)
		a := dictAttrs(rd, d)
		getH = hashStr(getH, pageStr(false, int(pid), a))
		if orderOK && attrsOK && (int(pid) != spec.pages[i] || pageStr(true, int(pid), a) != pageStr(true, int(pid), given[int(pid)])) {
			cs["index"] = i
			e.Fail("get-page", "GetPage(i) is not the i-th page with its effective attributes", cs)
		}
	}

	valid := 0
	if verdict == "" && orderOK && attrsOK {
		valid = 1
	}
	e.Line("impl.obs", "%s ok acc=%s n=%d pages=%d eff=%d log=%s valid=%d", id, bools(acc), numPages, len(gotIDs), effN, logStr(log), valid)
	// the Coq specification must say the same as the Go statement of it
	specEff := uint64(7)
	for _, p := range spec.pages {
		specEff = hashStr(specEff, pageStr(true, p, given[p]))
	}
	e.Line("impl.obs", "%s.spec ok acc=%s n=%d pages=%d eff=%d log=%s valid=1", id, bools(spec.acc), len(spec.pages), len(spec.pages), specEff, logStr(spec.log))
	e.Sample(6, fmt.Sprintf("%d ops, %d pages, %d ranges, %d callbacks (%s): tree height %d", len(prog), len(spec.pages), len(writers), len(log), class, raw.height()))

	// --- raw tree for the certified validator and the reader model
	var sb strings.Builder
	raw.wire(&sb)
	fmt.Fprintf(&sb, "%d", len(spec.pages))
	for _, p := range spec.pages {
		fmt.Fprintf(&sb, " %d %s", p, attrsWire(given[p]))
	}
	fmt.Fprintf(&sb, " %d", len(probes))
	for _, i := range probes {
		fmt.Fprintf(&sb, " %d", i)
	}
	e.Line("cases.txt", "%s.raw R %d %s", id, oldFlag, sb.String())
	e.Line("impl.obs", "%s.raw raw valid=%d n=%d pages=%d iter=%d get=%d", id, valid, numPages, len(gotIDs), effRaw, getH)
}

// ------------------------------------------------------------- generators

type gen struct {
	e       *common.Env
	prog    []op
	nWr     int
	closed  map[int]bool
	parent  map[int]int
	nPages  int
	nCb     int
	palette int
}

func newGen(e *common.Env) *gen {
	return &gen{e: e, nWr: 1, closed: map[int]bool{}, parent: map[int]int{}, palette: e.Rand.IntN(7)}
}

func (g *gen) attrs(old bool) [5]int {
	R := g.e.Rand
	a := [5]int{absent, absent, absent, absent, absent}
	pick := func(absent int, vals ...int) int {
		if R.IntN(100) < absent {
			return -1 << 40
		}
		return vals[R.IntN(len(vals))]
	}
	switch g.palette {
	case 0: // mostly uniform: hoisting all the way up
		a[kMediaBox] = pick(0, 1)
		a[kRotate] = pick(50, 0)
	case 1: // two values each, sometimes absent
		a[kMediaBox] = pick(10, 1, 2)
		a[kCropBox] = pick(50, 1, 2)
		a[kRotate] = pick(30, 0, 90, 180)
	case 2: // runs of equal values
		x := (g.nPages / (1 + R.IntN(20))) % 3
		a[kMediaBox] = 1 + x%2
		a[kCropBox] = pick(20, 1+x%2)
		a[kRotate] = []int{-1, 0, 90}[x]
	case 3:
		a[kMediaBox] = pick(30, 1, 2, 3)
		a[kCropBox] = pick(30, 1, 2, 3)
		a[kRotate] = pick(25, 0, 90, 180, 270)
	case 4: // near-equal values: different boxes that agree after rounding; Rotate equal modulo 360
		a[kMediaBox] = pick(5, 10, 11, 12, 13, 14)
		a[kCropBox] = pick(30, 15, 16, 17, 18, 19)
		a[kRotate] = pick(25, 0, 360, -90, 270, 630, 90)
	case 5: // two near-equal values only (so that a whole group of 16 shares them)
		a[kMediaBox] = pick(0, 10, 11)
		a[kCropBox] = pick(0, 15, 16)
		a[kRotate] = pick(0, 270, -90)
	default: // corners exchanged, mixed with the plain family
		a[kMediaBox] = pick(10, 1, 20, 21)
		a[kCropBox] = pick(40, 2, 20, 21)
		a[kRotate] = pick(40, 0, 360)
	}
	if old || R.IntN(4) == 0 {
		a[kAA] = pick(30, 1, 2)
	}
	if R.IntN(3) == 0 {
		a[kResources] = pick(0, 1, 2)
	}
	return a
}

func (g *gen) isClosed(w int) bool {
	for {
		if g.closed[w] {
			return true
		}
		if w == 0 {
			return false
		}
		w = g.parent[w]
	}
}

func (g *gen) appendPages(w, n int, old bool) {
	for i := 0; i < n; i++ {
		g.prog = append(g.prog, op{kind: 'A', w: w, page: g.nPages, attrs: g.attrs(old)})
		g.nPages++
	}
}

func (g *gen) newRange(w int) {
	g.prog = append(g.prog, op{kind: 'N', w: w})
	if !g.isClosed(w) {
		g.parent[g.nWr] = w
		g.nWr++
	}
}

func (g *gen) close(w int) {
	g.prog = append(g.prog, op{kind: 'C', w: w})
	g.closed[w] = true
}

func (g *gen) nextPN(w int) {
	g.prog = append(g.prog, op{kind: 'Q', w: w, k: g.nCb})
	g.nCb++
}

func (g *gen) pickWriter() int {
	R := g.e.Rand
	for try := 0; try < 6; try++ {
		w := R.IntN(g.nWr)
		if !g.isClosed(w) || R.IntN(12) == 0 {
			return w
		}
	}
	return 0
}

func randomProgram(e *common.Env, target int, old bool) []op {
	g := newGen(e)
	R := e.Rand
	burst := 1
	if target > 100 {
		burst = 1 + R.IntN(40)
	}
	for g.nPages < target {
		w := g.pickWriter()
		switch x := R.IntN(100); {
		case x < 62:
			g.appendPages(w, 1+R.IntN(burst), old)
		case x < 70:
			g.appendPages(w, []int{15, 16, 17, 1}[R.IntN(4)], old)
		case x < 82:
			g.newRange(w)
		case x < 90:
			if w != 0 {
				g.close(w)
			}
		default:
			g.nextPN(w)
		}
	}
	// sometimes close some ranges explicitly at the end, in random order
	for i := 0; i < R.IntN(3); i++ {
		if w := R.IntN(g.nWr); w != 0 {
			g.close(w)
		}
	}
	return g.prog
}

// all programs of at most `depth` macro-operations over at most `maxW` writers
func exhaustive(t *runner, depth int, counts []int, old bool, palette int) {
	type macro struct {
		kind byte
		n    int
	}
	var macros []macro
	for _, c := range counts {
		macros = append(macros, macro{'A', c})
	}
	macros = append(macros, macro{'N', 0}, macro{'C', 0}, macro{'Q', 0})
	var rec func(g *gen, d int)
	rec = func(g *gen, d int) {
		if len(g.prog) > 0 {
			t.test(append([]op{}, g.prog...), old, fmt.Sprintf("exhaustive-%d", depth))
		}
		if d == depth {
			return
		}
		for w := 0; w < g.nWr && w < 3; w++ {
			for _, m := range macros {
				if m.kind == 'C' && w == 0 {
					continue
				}
				h := &gen{e: g.e, prog: append([]op{}, g.prog...), nWr: g.nWr, closed: map[int]bool{}, parent: map[int]int{},
					nPages: g.nPages, nCb: g.nCb, palette: g.palette}
				for k, v := range g.closed {
					h.closed[k] = v
				}
				for k, v := range g.parent {
					h.parent[k] = v
				}
				switch m.kind {
				case 'A':
					h.appendPages(w, m.n, old)
				case 'N':
					h.newRange(w)
				case 'C':
					h.close(w)
				case 'Q':
					h.nextPN(w)
				}
				rec(h, d+1)
			}
		}
	}
	g := newGen(t.e)
	g.palette = palette
	rec(g, 0)
}

func main() {
	e := common.New(16)
	t := &runner{e: e}

	// corpus: shapes that matter for merge()
	for _, old := range []bool{false, true} {
		g := newGen(e)
		g.appendPages(0, 20, old)
		g.newRange(0)
		g.appendPages(1, 300, old)
		g.nextPN(0)
		g.appendPages(0, 5, old)
		g.newRange(0)
		g.nextPN(2)
		g.appendPages(2, 17, old)
		g.close(1)
		g.appendPages(0, 1, old)
		t.test(g.prog, old, "corpus")
	}

	// F47: 15 subtrees of depth 2, 8 of depth 1, then a range of 9 pages - Close used to panic;
	// and a sample of the family around it (all of it in the thorough tier): d2 subtrees of depth 2,
	// ra of depth 1, `extra` pages, a range of nb pages, `after` pages behind the range
	family := func(d2, ra, extra, nb, after int, class string) {
		g := newGen(e)
		g.palette = 0
		g.appendPages(0, d2*256+ra*16+extra, false)
		g.newRange(0)
		g.appendPages(1, nb, false)
		g.appendPages(0, after, false)
		t.test(g.prog, false, class)
	}
	family(15, 8, 0, 9, 0, "corpus-F47")
	if e.Thorough {
		// the part of the 15360-program family where the two runs hold 16 or 17 nodes
		for ra := 1; ra <= 15; ra++ {
			for _, extra := range []int{0, 5} {
				for _, nb := range []int{16 - ra, 17 - ra} {
					if nb > 0 {
						family(15, ra, extra, nb, []int{0, 1, 16}[(ra+nb+extra)%3], "family-F47")
					}
				}
			}
		}
	} else {
		for i := 0; i < 3; i++ {
			ra := 1 + e.Rand.IntN(15)
			family(15, ra, 0, 17-ra, []int{0, 1, 16}[i%3], "family-F47")
		}
	}

	// deeply nested ranges: the page tree gets taller than 64 levels
	{
		g := newGen(e)
		for i := 0; i < 90; i++ {
			g.appendPages(i, 1, false)
			g.newRange(i)
			g.appendPages(i, 17, false)
		}
		g.appendPages(90, 3, false)
		t.test(g.prog, false, "corpus-deep-nesting")
	}

	// exhaustive small programs
	exhaustive(t, e.Pick(3, 4), []int{1, 16}, false, 1)
	exhaustive(t, 3, []int{15, 17}, true, 5)

	// random programs; page counts crossing the powers of the fan-out
	targets := []int{1, 2, 3, 15, 16, 17, 31, 32, 33, 100, 255, 256, 257, 300, 1000}
	for i := 0; i < e.Pick(800, 14000); i++ {
		old := e.Rand.IntN(3) == 0
		t.test(randomProgram(e, targets[e.Rand.IntN(len(targets))], old), old, "random")
	}
	big := []int{4095, 4096, 4097, 5000}
	for i := 0; i < e.Pick(4, 36); i++ {
		old := i%3 == 0
		t.test(randomProgram(e, big[i%len(big)], old), old, "random-big")
	}
	// plain appends to the root only (the balancing loop alone), every size around the powers
	for _, n := range []int{1, 15, 16, 17, 240, 241, 255, 256, 257, 272, 273, 4097} {
		g := newGen(e)
		g.appendPages(0, n, false)
		t.test(g.prog, false, "root-only")
	}

	e.Finish("programs of AppendPageDict/NewRange/Close/NextPageNumber on nested writers: all programs of <=3 (thorough 4) macro-operations "+
		"{append 1|15|16|17 pages, new range, close, next-page-number} over <=3 writers, random programs with 1..1000 pages and 4095..5000 pages "+
		"(bursts, ranges opened at arbitrary positions, closes in any order, operations on closed ranges), root-only documents around 16, 256, 4096; "+
		"writer configurations: PDF 1.2/1.4/1.7/2.0, HumanReadable, seekable or not, a stream open on the same Writer while the pages are added (documents of <= 15 pages); "+
		"attribute values from small sets in seven palettes (uniform, two-valued, runs, mixed, near-equal boxes that agree after rounding to 0-3 decimals or to float32, Rotate equal modulo 360, exchanged corners; absent values; explicit Rotate 0), each value spelled as *pdf.Rectangle, array of integers/reals or array of reals; effective values compared exactly; PDF 1.2 (AA inheritable) and 1.7; "+
		"non-trivial = more than one operation, distinct by program", nil)
}
