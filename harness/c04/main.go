// C04 harness: the Reader follows the specification for every conforming
// serialisation and history.
//
//	c04 gen            writes cases.txt (histories + rendering choices, stream-extent
//	                   cases, xref table / xref stream decoder cases) and expect.txt
//	                   (what the 30-line reference model "apply the revisions oldest to
//	                   newest" says, computed here, independently of Coq and of go-pdf)
//	driver < cases.txt | c04 run
//	                   the extracted Coq renderer writes each history as a PDF file; the
//	                   real Reader opens it; observations go to impl.obs / model.obs; the
//	                   oracle (Reader == reference model, extent == body) is run on the
//	                   implementation for every case and failures go to fails.jsonl
package main

import (
	"bufio"
	"bytes"
	"compress/zlib"
	"crypto/sha256"
	"encoding/ascii85"
	"encoding/hex"
	"errors"
	"fmt"
	"io"
	"os"
	"path/filepath"
	"sort"
	"strconv"
	"strings"
	"time"

	"seehuhn.de/go/pdf"
	"seehuhn.de/go/pdf/verifharness/common"
)

// ---------------------------------------------------------------- values

type V struct {
	k    byte // n t f i N S A D R
	i    int64
	s    []byte
	arr  []V
	keys [][]byte
	n, g uint32
}

func (v V) wire() string {
	switch v.k {
	case 'n', 't', 'f':
		return string(v.k)
	case 'i':
		return "i" + strconv.FormatInt(v.i, 10)
	case 'N', 'S':
		return string(v.k) + common.Hex(v.s)
	case 'R':
		return fmt.Sprintf("R%d.%d", v.n, v.g)
	case 'A':
		parts := []string{fmt.Sprintf("A%d", len(v.arr))}
		for _, x := range v.arr {
			parts = append(parts, x.wire())
		}
		return strings.Join(parts, " ")
	case 'D':
		parts := []string{fmt.Sprintf("D%d", len(v.arr))}
		for i, x := range v.arr {
			parts = append(parts, common.Hex(v.keys[i]), x.wire())
		}
		return strings.Join(parts, " ")
	}
	panic("bad value")
}

func (v V) canon() string {
	switch v.k {
	case 'n', 't', 'f':
		return string(v.k)
	case 'i':
		return "i" + strconv.FormatInt(v.i, 10)
	case 'N', 'S':
		return string(v.k) + common.Hex(v.s)
	case 'R':
		return fmt.Sprintf("R%d.%d", v.n, v.g)
	case 'A':
		var parts []string
		for _, x := range v.arr {
			parts = append(parts, x.canon())
		}
		return "A[" + strings.Join(parts, ",") + "]"
	case 'D':
		m := map[string]string{}
		for i, x := range v.arr {
			m[common.Hex(v.keys[i])] = x.canon()
		}
		return canonMap(m)
	}
	panic("bad value")
}

func canonMap(m map[string]string) string {
	var ks []string
	for k := range m {
		ks = append(ks, k)
	}
	sort.Strings(ks)
	var parts []string
	for _, k := range ks {
		parts = append(parts, k+":"+m[k])
	}
	return "D{" + strings.Join(parts, ",") + "}"
}

// canonObj prints what the Reader returned in the same notation.
func canonObj(o pdf.Object) string {
	switch x := o.(type) {
	case nil:
		return "n"
	case pdf.Boolean:
		if x {
			return "t"
		}
		return "f"
	case pdf.Integer:
		return "i" + strconv.FormatInt(int64(x), 10)
	case pdf.Real:
		return "r" + strconv.FormatFloat(float64(x), 'g', -1, 64)
	case pdf.Name:
		return "N" + common.Hex([]byte(x))
	case pdf.String:
		return "S" + common.Hex([]byte(x))
	case pdf.Reference:
		return fmt.Sprintf("R%d.%d", x.Number(), x.Generation())
	case pdf.Array:
		var parts []string
		for _, y := range x {
			parts = append(parts, canonObj(y))
		}
		return "A[" + strings.Join(parts, ",") + "]"
	case pdf.Dict:
		m := map[string]string{}
		for k, y := range x {
			m[common.Hex([]byte(k))] = canonObj(y)
		}
		return canonMap(m)
	case *pdf.Stream:
		data, err := io.ReadAll(x.NewReader())
		if err != nil {
			return "err"
		}
		return "stream" + canonObj(x.Dict) + common.Hex(data)
	}
	return fmt.Sprintf("?%T", o)
}

// ---------------------------------------------------------------- histories

type action struct {
	kind byte // d s c f
	num  int
	gen  int
	next int
	val  V
	data []byte
}

type revision struct {
	kind  byte // t s h
	xnum  int
	onum  int
	size  int
	extra []V // pairs as a dict value
	ekeys [][]byte
	acts  []action
}

type probe struct{ num, gen int }

type hcase struct {
	id      string
	revs    []revision
	probes  []probe
	nchoices int
	cseed    uint64
	class   string
}

func (r revision) wire() string {
	parts := []string{string(r.kind), strconv.Itoa(r.xnum), strconv.Itoa(r.onum), strconv.Itoa(r.size), strconv.Itoa(len(r.extra))}
	for i, v := range r.extra {
		parts = append(parts, common.Hex(r.ekeys[i]), v.wire())
	}
	parts = append(parts, strconv.Itoa(len(r.acts)))
	for _, a := range r.acts {
		switch a.kind {
		case 'd':
			parts = append(parts, "d", strconv.Itoa(a.num), strconv.Itoa(a.gen), a.val.wire())
		case 's':
			parts = append(parts, "s", strconv.Itoa(a.num), strconv.Itoa(a.gen), a.val.wire(), common.Hex(a.data))
		case 'c':
			parts = append(parts, "c", strconv.Itoa(a.num), a.val.wire())
		case 'f':
			parts = append(parts, "f", strconv.Itoa(a.num), strconv.Itoa(a.gen), strconv.Itoa(a.next))
		}
	}
	return strings.Join(parts, " ")
}

func (c *hcase) wire() string {
	parts := []string{c.id, "H", strconv.Itoa(len(c.revs))}
	for _, r := range c.revs {
		parts = append(parts, r.wire())
	}
	parts = append(parts, strconv.Itoa(len(c.probes)))
	for _, p := range c.probes {
		parts = append(parts, strconv.Itoa(p.num), strconv.Itoa(p.gen))
	}
	// the rendering choices: n numbers expanded by the driver from a seed
	parts = append(parts, "C", strconv.Itoa(c.nchoices), strconv.FormatUint(c.cseed, 10))
	return strings.Join(parts, " ")
}

// the reference model: apply the revisions oldest to newest, the last
// definition or free entry of a number wins
type refEntry struct {
	free  bool
	gen   int
	canon string
}

// objStmRefProbes lists the probes whose expected value is an object-stream
// member that is itself an indirect reference (finding objstm-member-is-reference).
func (c *hcase) objStmRefProbes() string {
	m := map[int]bool{}
	for _, r := range c.revs {
		for _, a := range r.acts {
			m[a.num] = a.kind == 'c' && a.val.k == 'R'
		}
	}
	var res []string
	for i, p := range c.probes {
		if m[p.num] && p.gen == 0 {
			res = append(res, strconv.Itoa(i))
		}
	}
	if len(res) == 0 {
		return "-"
	}
	return strings.Join(res, ",")
}

func (c *hcase) reference() string {
	m := map[int]refEntry{}
	var trailer map[string]string
	for _, r := range c.revs {
		for _, a := range r.acts {
			switch a.kind {
			case 'd':
				m[a.num] = refEntry{false, a.gen, topCanon(a.val.canon())}
			case 's':
				m[a.num] = refEntry{false, a.gen, "stream" + a.val.canon() + common.Hex(a.data)}
			case 'c':
				m[a.num] = refEntry{false, 0, topCanon(a.val.canon())}
			case 'f':
				m[a.num] = refEntry{true, a.gen, ""}
			}
		}
		trailer = map[string]string{}
		for i, v := range r.extra {
			trailer[common.Hex(r.ekeys[i])] = v.canon()
		}
	}
	var parts []string
	for _, p := range c.probes {
		e, ok := m[p.num]
		if ok && !e.free && e.gen == p.gen {
			parts = append(parts, e.canon)
		} else {
			parts = append(parts, "null")
		}
	}
	return strings.Join(parts, ";") + "|T=" + canonMap(trailer)
}

func topCanon(s string) string {
	if s == "n" {
		return "null"
	}
	return s
}

// ---------------------------------------------------------------- generators

type gen struct {
	e    *common.Env
	next int
	// > 0: build numbers the cross-reference / object streams from here on (large /Size)
	boost int
}

func (g *gen) id(prefix string) string {
	g.next++
	return fmt.Sprintf("%s%d", prefix, g.next)
}

var nameAlphabet = [][]byte{
	[]byte("A"), []byte("Name"), []byte("a#b"), []byte("x y"), []byte("p(q)"), []byte("sl/ash"), []byte("%pc"),
	{0xe4, 0xf6}, []byte("Type"), []byte("k<>"), []byte("t\tb"), {0x7f},
}
var strAlphabet = [][]byte{
	nil, []byte("hello"), []byte("a(b)c"), []byte(")("), []byte("back\\slash"), []byte("line\nbreak"), []byte("cr\rlf\r\n"),
	{0, 1, 2, 255}, []byte("endobj"), []byte("tab\t\b\f"), []byte("(((("), []byte("%not a comment"), {0x30}, {0x10, 0x20, 0x00},
	[]byte("\\"), []byte("<<>>"), []byte("stream\nendstream"),
	// several ends of line in one string: each is rendered in its own style
	[]byte("first\nsecond\nthird"), []byte("\n\n"), []byte("a\nb\n\nc\n"), []byte("x\r\ny\nz\r"), []byte("\nlead and trail\n"),
}

func (g *gen) value(depth int, maxRef int) V {
	r := g.e.Rand
	k := r.IntN(9)
	if depth >= 2 && k >= 7 {
		k = r.IntN(7)
	}
	switch k {
	case 0:
		return V{k: 'i', i: []int64{0, 1, -1, 7, 42, -2147483648, 9223372036854775807, 65535, 10}[r.IntN(9)]}
	case 1:
		return V{k: 'N', s: nameAlphabet[r.IntN(len(nameAlphabet))]}
	case 2, 3:
		return V{k: 'S', s: strAlphabet[r.IntN(len(strAlphabet))]}
	case 4:
		return V{k: []byte{'t', 'f'}[r.IntN(2)]}
	case 5:
		return V{k: 'R', n: uint32(1 + r.IntN(maxRef)), g: uint32([]int{0, 0, 0, 1, 65535}[r.IntN(5)])}
	case 6:
		return V{k: 'i', i: int64(r.IntN(1000))}
	case 7:
		n := r.IntN(4)
		v := V{k: 'A'}
		for i := 0; i < n; i++ {
			v.arr = append(v.arr, g.value(depth+1, maxRef))
		}
		return v
	default:
		n := r.IntN(4)
		v := V{k: 'D'}
		seen := map[string]bool{}
		for i := 0; i < n; i++ {
			key := nameAlphabet[r.IntN(len(nameAlphabet))]
			if seen[string(key)] || string(key) == "Type" || string(key) == "Length" {
				continue
			}
			seen[string(key)] = true
			x := g.value(depth+1, maxRef)
			v.keys = append(v.keys, key)
			v.arr = append(v.arr, x)
		}
		return v
	}
}

func dictV(kv ...any) V {
	v := V{k: 'D'}
	for i := 0; i < len(kv); i += 2 {
		v.keys = append(v.keys, []byte(kv[i].(string)))
		v.arr = append(v.arr, kv[i+1].(V))
	}
	return v
}
func nameV(s string) V        { return V{k: 'N', s: []byte(s)} }
func refV(n int) V            { return V{k: 'R', n: uint32(n)} }
func intV(i int64) V          { return V{k: 'i', i: i} }
func strV(b []byte) V         { return V{k: 'S', s: b} }
func arrV(vs ...V) V          { return V{k: 'A', arr: vs} }
func (c *hcase) last() *revision { return &c.revs[len(c.revs)-1] }

// abstract actions per object and revision
const (
	aLeave = iota
	aDefine
	aFree
	aDefineC   // member of an object stream (stream / hybrid sections, generation 0 only)
	aFreeLast  // free with generation 65535: the number can never be used again
	aDefStream // a stream object
	nActions
)

type ostate struct {
	ever  bool
	inUse bool
	gen   int
	dead  bool
}

// build turns abstract actions into a history.  acts[r][o] is the action of
// revision r on user object o+1; kinds[r] is the section kind.
func (g *gen) build(id string, nobj int, acts [][]int, kinds []byte, obj0InUpdates []bool, class string, nchoices int, zeroChoices bool) *hcase {
	r := g.e.Rand
	c := &hcase{id: id, class: class}
	st := make([]ostate, nobj+1)
	cat, pages := nobj+1, nobj+2
	maxNum := pages
	if g.boost > maxNum {
		// the numbers of the cross-reference and object streams begin here
		maxNum = g.boost
	}
	tag := 0
	for ri := range acts {
		rev := revision{kind: kinds[ri]}
		if ri == 0 {
			rev.acts = append(rev.acts, action{kind: 'f', num: 0, gen: 65535})
			rev.acts = append(rev.acts,
				action{kind: 'd', num: cat, val: dictV("Type", nameV("Catalog"), "Pages", refV(pages))},
				action{kind: 'd', num: pages, val: dictV("Type", nameV("Pages"), "Kids", arrV(), "Count", intV(0))})
		} else if obj0InUpdates[ri] {
			rev.acts = append(rev.acts, action{kind: 'f', num: 0, gen: 65535, next: r.IntN(3)})
		}
		compressed := false
		for o := 1; o <= nobj; o++ {
			a := acts[ri][o-1]
			s := &st[o]
			if s.dead && a != aLeave {
				a = aLeave
			}
			if a == aDefineC && (rev.kind == 't' || s.gen != 0) {
				a = aDefine
			}
			switch a {
			case aDefine, aDefStream, aDefineC:
				tag++
				s.ever, s.inUse = true, true
				switch a {
				case aDefine:
					v := g.value(0, nobj+2)
					if v.k == 'n' {
						v = intV(int64(tag))
					}
					if r.IntN(3) == 0 {
						v = arrV(intV(int64(tag)), v)
					}
					rev.acts = append(rev.acts, action{kind: 'd', num: o, gen: s.gen, val: v})
				case aDefStream:
					data := [][]byte{nil, []byte("x"), []byte("BT /F1 12 Tf ET"), {0, 255, 10, 13}, []byte("a\nb\r\nc"), []byte("endstream"), bytes.Repeat([]byte("ab"), 40)}[r.IntN(7)]
					rev.acts = append(rev.acts, action{kind: 's', num: o, gen: s.gen, val: dictV("Tag", intV(int64(tag))), data: data})
				case aDefineC:
					compressed = true
					v := g.value(0, nobj+2)
					if v.k == 'n' {
						v = intV(int64(tag))
					}
					rev.acts = append(rev.acts, action{kind: 'c', num: o, val: v})
				}
			case aFree:
				if s.inUse {
					s.inUse = false
					s.gen++
				}
				rev.acts = append(rev.acts, action{kind: 'f', num: o, gen: s.gen, next: r.IntN(2) * r.IntN(nobj+1)})
			case aFreeLast:
				s.inUse = false
				s.gen = 65535
				s.dead = true
				rev.acts = append(rev.acts, action{kind: 'f', num: o, gen: 65535, next: 0})
			}
		}
		if rev.kind != 't' {
			maxNum++
			rev.xnum = maxNum
		}
		if compressed {
			maxNum++
			rev.onum = maxNum
		}
		rev.size = maxNum + 1
		// trailer: Root always; the other keys differ between revisions
		rev.ekeys = append(rev.ekeys, []byte("Root"))
		rev.extra = append(rev.extra, refV(cat))
		if r.IntN(2) == 0 {
			rev.ekeys = append(rev.ekeys, []byte("XX_Rev"))
			rev.extra = append(rev.extra, intV(int64(ri)))
		}
		if r.IntN(3) == 0 {
			rev.ekeys = append(rev.ekeys, []byte("ID"))
			rev.extra = append(rev.extra, arrV(strV([]byte(fmt.Sprintf("id-%02d-0123456789", ri))), strV(bytes.Repeat([]byte{byte(ri), 0xfe}, 8))))
		}
		if r.IntN(4) == 0 {
			rev.ekeys = append(rev.ekeys, []byte("AAPL:Keywords"))
			rev.extra = append(rev.extra, g.value(1, nobj+2))
		}
		// shuffle the actions so that the order of the objects in the file varies
		if r.IntN(2) == 0 {
			r.Shuffle(len(rev.acts), func(i, j int) { rev.acts[i], rev.acts[j] = rev.acts[j], rev.acts[i] })
		}
		c.revs = append(c.revs, rev)
	}
	for o := 1; o <= nobj; o++ {
		gens := map[int]bool{0: true, st[o].gen: true, st[o].gen + 1: true, 65535: true}
		if st[o].gen > 0 {
			gens[st[o].gen-1] = true
		}
		var gl []int
		for x := range gens {
			if x <= 65535 {
				gl = append(gl, x)
			}
		}
		sort.Ints(gl)
		for _, x := range gl {
			c.probes = append(c.probes, probe{o, x})
		}
	}
	c.probes = append(c.probes, probe{cat, 0}, probe{pages, 0}, probe{pages, 1}, probe{maxNum + 5, 0}, probe{0, 65535}, probe{0, 0})
	if !zeroChoices {
		c.nchoices = nchoices
		c.cseed = r.Uint64() >> 2
	}
	return c
}

func classOf(nobj int, acts [][]int, kinds []byte) string {
	return fmt.Sprintf("revs=%d objs=%d kinds=%s", len(acts), nobj, string(kinds))
}

// ---------------------------------------------------------------- gen mode

func genMode() {
	e := common.New(4)
	g := &gen{e: e}
	out := func(c *hcase) {
		e.Line("cases.txt", "%s", c.wire())
		var pp []string
		for _, p := range c.probes {
			pp = append(pp, fmt.Sprintf("%d.%d", p.num, p.gen))
		}
		e.Line("expect.txt", "%s %s %s %s %d %s", c.id, strings.ReplaceAll(c.class, " ", "_"), c.reference(), strings.Join(pp, ","), len(c.revs), c.objStmRefProbes())
	}
	all := func(n int, v bool) []bool {
		r := make([]bool, n)
		for i := range r {
			r[i] = v
		}
		return r
	}

	// corpus: F12 (update section "1 1" with 0000000000 65535 f) and neighbours
	out(g.build(g.id("k"), 1, [][]int{{aDefine}, {aFreeLast}}, []byte("tt"), all(2, false), "corpus", 0, true))
	out(g.build(g.id("k"), 2, [][]int{{aDefine, aDefine}, {aFreeLast, aDefine}}, []byte("tt"), all(2, false), "corpus", 0, true))
	out(g.build(g.id("k"), 2, [][]int{{aDefine, aDefine}, {aFreeLast, aLeave}}, []byte("tt"), all(2, true), "corpus", 0, true))
	out(g.build(g.id("k"), 2, [][]int{{aDefine, aDefine}, {aFreeLast, aLeave}}, []byte("ts"), all(2, false), "corpus", 0, true))
	out(g.build(g.id("k"), 2, [][]int{{aDefine, aDefine}, {aFree, aLeave}, {aDefine, aFree}}, []byte("tth"), all(3, false), "corpus", 300, false))
	// hybrid sections that hide their objects (free marker in the table, entry in /XRefStm)
	out(g.build(g.id("k"), 2, [][]int{{aDefine, aDefineC}}, []byte("h"), all(1, false), "corpus", 0, true))
	out(g.build(g.id("k"), 3, [][]int{{aDefine, aDefine, aLeave}, {aDefine, aDefineC, aDefStream}}, []byte("th"), all(2, false), "corpus", 0, true))
	out(g.build(g.id("k"), 3, [][]int{{aDefineC, aDefine, aDefStream}, {aFree, aDefineC, aLeave}, {aDefine, aLeave, aFree}}, []byte("shs"), all(3, true), "corpus", 300, false))

	r := e.Rand
	// exhaustive part: every history of <= R revisions x N objects x {leave, define, free} x {table, stream, hybrid}
	exhaust := func(exR, exN int) {
		nA := 1
		for i := 0; i < exN; i++ {
			nA *= 3
		}
		var rec func(acts [][]int, kinds []byte)
		rec = func(acts [][]int, kinds []byte) {
			if len(acts) > 0 {
				ob0 := make([]bool, len(acts))
				for i := range ob0 {
					ob0[i] = r.IntN(2) == 0
				}
				out(g.build(g.id("x"), exN, acts, kinds, ob0, "exhaustive "+classOf(exN, acts, kinds), 400, false))
			}
			if len(acts) == exR {
				return
			}
			for code := 0; code < nA; code++ {
				row := make([]int, exN)
				c := code
				for i := range row {
					row[i] = c % 3
					c /= 3
				}
				for _, k := range []byte("tsh") {
					na := append(append([][]int{}, acts...), row)
					nk := append(append([]byte{}, kinds...), k)
					rec(na, nk)
				}
			}
		}
		rec(nil, nil)
	}
	// quick: <= 2 revisions x 3 objects; thorough: <= 3 revisions x 3 objects and <= 2 revisions x 4 objects
	if e.Thorough {
		exhaust(3, 3)
		exhaust(2, 4)
	} else {
		exhaust(2, 3)
	}

	// sampled part: up to 4 objects, up to 3 revisions (sometimes up to 7), all six actions
	nSample := e.Pick(5000, 60000)
	for i := 0; i < nSample; i++ {
		nobj := 1 + r.IntN(4)
		nrev := 1 + r.IntN(3)
		if r.IntN(12) == 0 {
			nrev = 4 + r.IntN(4)
		}
		acts := make([][]int, nrev)
		kinds := make([]byte, nrev)
		ob0 := make([]bool, nrev)
		for ri := range acts {
			acts[ri] = make([]int, nobj)
			for o := range acts[ri] {
				a := r.IntN(nActions + 3)
				if a >= nActions {
					a = []int{aLeave, aDefine, aFree}[a-nActions]
				}
				if a == aFreeLast && r.IntN(3) != 0 {
					a = aFree
				}
				if ri == 0 && a == aLeave && r.IntN(2) == 0 {
					a = aDefine
				}
				acts[ri][o] = a
			}
			kinds[ri] = "tsh"[r.IntN(3)]
			ob0[ri] = r.IntN(3) == 0
		}
		// large /Size with sparse sections: one history in eight numbers its xref streams and
		// object streams from a large number on, so that /Size is large (near 2^13, 2^16, 2^20,
		// 2^24 and around 8192 + 32 * the length of a small xref stream body) while every
		// section lists a handful of entries: /Index [0 4 20001 1], subsections 0 4 / 20001 1
		class := "sampled "
		if i%8 == 0 {
			bases := []int{8180, 8192, 8193, 8192 + 32*8, 8192 + 32*20, 8192 + 32*45, 12000, 20000, 65530, 65535, 65536, 1<<20 - 2, 1 << 20, 1<<24 - 40}
			g.boost = bases[r.IntN(len(bases))] + r.IntN(3)
			if r.IntN(4) == 0 {
				g.boost = 8192 + r.IntN(40000)
			}
			class = "large-size sparse "
		}
		out(g.build(g.id("s"), nobj, acts, kinds, ob0, class+classOf(nobj, acts, kinds), 500, r.IntN(20) == 0))
		g.boost = 0
	}

	for _, c := range cycleCases() {
		e.Line("cases.txt", "%s", c.model)
	}
	genExtent(e, g)
	genTables(e, g)
	genStreams(e, g)
	e.Finish("", nil)
}

// ---------------------------------------------------------------- stream extent cases

// an L case is a complete file built here (not by the renderer): the stream
// object 1 with the given pieces; expect.txt records the body and whether the
// hypotheses of the /Length clause hold
func genExtent(e *common.Env, g *gen) {
	alphabet := [][]byte{{'\n'}, {'\r'}, {'x'}, {' '}, []byte("e"), []byte("endstream"), []byte("\nendstream"), []byte("\rendstream"), []byte("ndstream"), []byte("endstrea"), {0}}
	var bodies [][]byte
	var rec func(cur []byte, depth int)
	maxDepth := e.Pick(2, 3)
	rec = func(cur []byte, depth int) {
		bodies = append(bodies, append([]byte{}, cur...))
		if depth == maxDepth {
			return
		}
		for _, a := range alphabet {
			rec(append(append([]byte{}, cur...), a...), depth+1)
		}
	}
	rec(nil, 0)
	// long bodies: the EOL before endstream at every alignment relative to the scanner's
	// 1024-byte buffer (the recovery search must not lose a terminator at a refill boundary)
	longDecls := []string{"absent"}
	if e.Thorough {
		longDecls = []string{"absent", "string", "dangling", "plus3"}
	}
	for _, rng := range [][2]int{{880, 1110}, {1900, 2130}} {
		if !e.Thorough && rng[0] > 1000 {
			continue
		}
		for n := rng[0]; n <= rng[1]; n++ {
			body := bytes.Repeat([]byte("a"), n)
			if n%7 == 0 {
				copy(body[n/2:], "endstream") // the keyword without an EOL before it is data
			}
			// data that itself ends in an end-of-line (LF, CR LF, LF LF, CR)
			if tail := []string{"", "\n", "", "\r\n", "", "\n\n", "", "\r"}[n%8]; tail != "" {
				copy(body[n-len(tail):], tail)
			}
			for _, e1 := range [][]byte{{'\n'}, {'\r'}, {'\r', '\n'}} {
				for _, d := range longDecls {
					if d == "plus3" {
						d = strconv.Itoa(n + 3)
					}
					id := g.id("L")
					e.Line("lcases.txt", "%s %s %s %s %s", id, common.Hex(body), common.Hex([]byte{'\n'}), common.Hex(e1), d)
					_, after, declared := buildExtentFile(body, []byte{'\n'}, e1, d)
					e.Line("cases.txt", "%s L %s %s", id, common.Hex(after), declared)
				}
			}
		}
	}
	eol0s := [][]byte{{'\n'}, {'\r', '\n'}, {'\r'}}
	eol1s := [][]byte{{'\n'}, {'\r'}, {'\r', '\n'}, {}, {' ', '\n'}}
	r := e.Rand
	for _, body := range bodies {
		for _, e0 := range eol0s {
			for _, e1 := range eol1s {
				n := len(body)
				decls := []string{"absent", "-1", "dangling", "string", "indirect-dict", "indirect", strconv.Itoa(n), strconv.Itoa(n + 1), strconv.Itoa(n + 2), "0", strconv.Itoa(n + 3), "1000000", strconv.Itoa(n + len(e1) + 9 + 1)}
				if n > 0 {
					decls = append(decls, strconv.Itoa(n-1))
				}
				if !e.Thorough {
					// quick: three declared lengths per combination
					// (and always the right one, direct: lengths 0, 1, ... with every
					// separator before endstream, none included)
					r.Shuffle(len(decls), func(i, j int) { decls[i], decls[j] = decls[j], decls[i] })
					decls = append(decls[:3], strconv.Itoa(n))
					if r.IntN(4) == 0 {
						decls = append(decls, "indirect")
					}
				}
				for _, d := range decls {
					id := g.id("L")
					e.Line("lcases.txt", "%s %s %s %s %s", id, common.Hex(body), common.Hex(e0), common.Hex(e1), d)
					_, after, declared := buildExtentFile(body, e0, e1, d)
					e.Line("cases.txt", "%s L %s %s", id, common.Hex(after), declared)
				}
			}
		}
	}
}

func buildExtentFile(body, e0, e1 []byte, decl string) (file []byte, after []byte, declared string) {
	var buf bytes.Buffer
	buf.WriteString("%PDF-1.7\n")
	offs := map[int]int{}
	offs[1] = buf.Len()
	declared = "-"
	switch decl {
	case "absent":
		buf.WriteString("1 0 obj\n<< /K 1 >>\nstream")
	case "dangling":
		// a reference to an undefined object is null, and go-pdf reads a null /Length as 0
		buf.WriteString("1 0 obj\n<< /K 1 /Length 9 0 R >>\nstream")
		declared = "0"
	case "string":
		buf.WriteString("1 0 obj\n<< /K 1 /Length (12) >>\nstream")
	case "indirect-dict":
		buf.WriteString("1 0 obj\n<< /K 1 /Length 3 0 R >>\nstream")
	case "indirect":
		fmt.Fprintf(&buf, "1 0 obj\n<< /K 1 /Length 5 0 R >>\nstream")
		declared = strconv.Itoa(len(body))
	default:
		fmt.Fprintf(&buf, "1 0 obj\n<< /K 1 /Length %s >>\nstream", decl)
		declared = decl
	}
	mark := buf.Len()
	buf.Write(e0)
	buf.Write(body)
	buf.Write(e1)
	buf.WriteString("endstream\nendobj\n")
	offs[2] = buf.Len()
	buf.WriteString("2 0 obj\n<< /Type /Catalog /Pages 3 0 R >>\nendobj\n")
	offs[3] = buf.Len()
	buf.WriteString("3 0 obj\n<< /Type /Pages /Kids [] /Count 0 >>\nendobj\n")
	offs[5] = buf.Len()
	fmt.Fprintf(&buf, "5 0 obj\n%d\nendobj\n", len(body))
	x := buf.Len()
	fmt.Fprintf(&buf, "xref\n0 4\n0000000000 65535 f \n%010d 00000 n \n%010d 00000 n \n%010d 00000 n \n5 1\n%010d 00000 n \n", offs[1], offs[2], offs[3], offs[5])
	fmt.Fprintf(&buf, "trailer\n<< /Size 6 /Root 2 0 R >>\nstartxref\n%d\n%%%%EOF\n", x)
	file = buf.Bytes()
	return file, file[mark:], declared
}

// ---------------------------------------------------------------- decoder cases (tables, xref streams)

func genTables(e *common.Env, g *gen) {
	r := e.Rand
	n := e.Pick(1500, 40000)
	for i := 0; i < n; i++ {
		var buf bytes.Buffer
		buf.WriteString("xref")
		buf.WriteString([]string{"\n", "\r\n", " \n", "\r", "\n%c\n"}[r.IntN(5)])
		nsub := 1 + r.IntN(3)
		var query []int
		num := []int{0, 0, 1, 1, 2, 5}[r.IntN(6)]
		for s := 0; s < nsub; s++ {
			cnt := r.IntN(4)
			if r.IntN(30) == 0 {
				cnt += 3
			}
			declared := cnt
			if r.IntN(25) == 0 {
				declared = cnt + 1 - r.IntN(3)
				if declared < 0 {
					declared = 0
				}
			}
			fmt.Fprintf(&buf, "%d %d%s", num, declared, []string{"\n", "\r\n", " \n", "\r"}[r.IntN(4)])
			for k := 0; k < cnt; k++ {
				query = append(query, num+k, num+k-1)
				a := []int64{0, 0, 17, 1234567890, 9999999999, int64(r.IntN(100000))}[r.IntN(6)]
				b := []int{0, 0, 1, 65535, 65535, 65534, 7}[r.IntN(7)]
				af := fmt.Sprintf("%010d", a)
				bf := fmt.Sprintf("%05d", b)
				c := "nf"[r.IntN(2)]
				eol := []string{"\r\n", " \n", " \r", "\n\n"}[r.IntN(4)]
				switch r.IntN(40) {
				case 0:
					bf = "65536"
				case 1:
					af = "-000000001"
				case 2:
					af = "+000000017"
				case 3:
					c = 'x'
				case 4:
					eol = "\n" // 19-byte line
				case 5:
					eol = "\r"
				case 6:
					af = "00000000x0"
				case 7:
					bf = "0000a"
				case 8:
					bf = "99999"
				case 9:
					eol = "  " // 20 bytes, no EOL
				case 10:
					af, bf, c = "0000000000", "65536", 'n'
				}
				fmt.Fprintf(&buf, "%s %s %c%s", af, bf, c, eol)
			}
			num += cnt + []int{0, 0, 1, 3}[r.IntN(4)]
		}
		if r.IntN(30) == 0 {
			buf.Truncate(buf.Len() - r.IntN(min(buf.Len(), 25)))
		} else {
			buf.WriteString([]string{"trailer\n", "trailer", "trailer \r\n", "\ntrailer\n", "trailer%x\n"}[r.IntN(5)])
			buf.WriteString("<< /Size 9 >>\n")
		}
		var known []int
		for k := 0; k < r.IntN(3); k++ {
			known = append(known, r.IntN(8))
		}
		query = append(query, 0, 1, 2)
		// allowRepair as readXRef passes it: the section has no /Prev
		allow := strconv.Itoa(r.IntN(2))
		parts := []string{g.id("T"), "T", common.Hex(buf.Bytes()), allow, strconv.Itoa(len(known))}
		for _, k := range known {
			parts = append(parts, strconv.Itoa(k))
		}
		q := uniq(query)
		parts = append(parts, strconv.Itoa(len(q)))
		for _, k := range q {
			parts = append(parts, strconv.Itoa(k))
		}
		e.Line("cases.txt", "%s", strings.Join(parts, " "))
	}
}

func uniq(l []int) []int {
	m := map[int]bool{}
	var res []int
	for _, x := range l {
		if x >= 0 && !m[x] {
			m[x] = true
			res = append(res, x)
		}
	}
	sort.Ints(res)
	return res
}

func genStreams(e *common.Env, g *gen) {
	r := e.Rand
	n := e.Pick(1500, 40000)
	for i := 0; i < n; i++ {
		w := [3]int{r.IntN(3), r.IntN(9), r.IntN(9)}
		if r.IntN(4) == 0 {
			w[0] = r.IntN(9)
		}
		if r.IntN(3) == 0 {
			w[1], w[2] = 1+r.IntN(3), r.IntN(3)
		}
		if w[0]+w[1]+w[2] == 0 {
			w[1] = 1
		}
		nsub := 1 + r.IntN(3)
		var subs [][2]int
		var data []byte
		var query []int
		num := r.IntN(3)
		for s := 0; s < nsub; s++ {
			cnt := r.IntN(4)
			subs = append(subs, [2]int{num, cnt})
			for k := 0; k < cnt; k++ {
				query = append(query, num+k)
				for f := 0; f < 3; f++ {
					field := make([]byte, w[f])
					switch {
					case f == 0 && w[0] > 0:
						field[w[0]-1] = byte([]int{0, 1, 2, 1, 3, 255}[r.IntN(6)])
					case r.IntN(6) == 0:
						for j := range field {
							field[j] = byte(r.IntN(256))
						}
					default:
						// small value in the low bytes
						// type 1: field 2 is a byte offset and may be far beyond the object-number bound
						v := []uint64{0, 1, 7, 300, 65535, 65536, 1 << 24, 70000, 1<<24 - 1, 1<<24 + 5, 1 << 31, 1<<32 + 9, 1 << 40}[r.IntN(13)]
						for j := len(field) - 1; j >= 0 && v > 0; j-- {
							field[j] = byte(v)
							v >>= 8
						}
					}
					data = append(data, field...)
				}
			}
			num += cnt + r.IntN(2)
		}
		if r.IntN(20) == 0 && len(data) > 0 {
			data = data[:len(data)-1-r.IntN(min(len(data), 3))]
		}
		var known []int
		for k := 0; k < r.IntN(3); k++ {
			known = append(known, r.IntN(8))
		}
		parts := []string{g.id("X"), "X", strconv.Itoa(w[0]), strconv.Itoa(w[1]), strconv.Itoa(w[2]), common.Hex(data), strconv.Itoa(len(subs))}
		for _, s := range subs {
			parts = append(parts, strconv.Itoa(s[0]), strconv.Itoa(s[1]))
		}
		parts = append(parts, strconv.Itoa(len(known)))
		for _, k := range known {
			parts = append(parts, strconv.Itoa(k))
		}
		q := uniq(query)
		parts = append(parts, strconv.Itoa(len(q)))
		for _, k := range q {
			parts = append(parts, strconv.Itoa(k))
		}
		e.Line("cases.txt", "%s", strings.Join(parts, " "))
	}
}

// ---------------------------------------------------------------- run mode

func errClass(err error) string {
	switch {
	case err == nil:
		return "ok"
	case pdf.IsMalformed(err):
		return "malformed"
	case errors.Is(err, io.EOF) || errors.Is(err, io.ErrUnexpectedEOF):
		return "eof"
	default:
		return "other"
	}
}

func entryStr(m map[uint32]pdf.VerifXRefEntry, n int) string {
	e, ok := m[uint32(n)]
	if !ok {
		return "-"
	}
	if e.HasStream {
		return fmt.Sprintf("c%d#%d", e.InStream, e.Pos)
	}
	if e.Pos < 0 {
		return fmt.Sprintf("f%d", e.Generation)
	}
	return fmt.Sprintf("u%d@%d", e.Generation, e.Pos)
}

func dumpMap(m map[uint32]pdf.VerifXRefEntry, query []int) string {
	var parts []string
	for _, n := range query {
		parts = append(parts, fmt.Sprintf("%d=%s", n, entryStr(m, n)))
	}
	return strings.Join(parts, ",")
}

type expectInfo struct {
	class  string
	ref    string
	probes []probe
	nrev   int
	osref  map[int]bool
}

type pendingCase struct {
	obs      string
	mismatch bool
	file     []byte
}

// run mode arguments: c04 -dir <dir> run <shard file> <i> <K>
func runMode(shardFile string, shard, nshards int) {
	e := common.New(5 + uint64(shard))
	gdir := filepath.Join(e.Dir, "..", "gen")
	expect := map[string]expectInfo{}
	for _, f := range common.ReadLines(filepath.Join(gdir, "expect.txt")) {
		x := expectInfo{class: f[1], ref: f[2], nrev: atoi(f[4])}
		for _, p := range strings.Split(f[3], ",") {
			ng := strings.Split(p, ".")
			x.probes = append(x.probes, probe{atoi(ng[0]), atoi(ng[1])})
		}
		if f[5] != "-" {
			x.osref = map[int]bool{}
			for _, i := range strings.Split(f[5], ",") {
				x.osref[atoi(i)] = true
			}
		}
		expect[f[0]] = x
	}

	hypOK, hypBad, tripped, hidden, rrOK := 0, 0, 0, 0, 0
	nmis := 0
	lastObs := map[string]string{}
	pending := map[string]*pendingCase{}
	in := bufio.NewReaderSize(os.Stdin, 1<<20)
	for {
		line, err := in.ReadString('\n')
		if len(line) > 0 {
			f := strings.Fields(line)
			switch {
			case len(f) >= 4 && f[0] == "F":
				id := f[1]
				data, _ := hex.DecodeString(f[3])
				exp := expect[id]
				obs := readFile(data, exp.probes)
				// history observations are long: the obs files carry a digest, mismatch.txt the text
				e.Line("impl.obs", "%s %s", id, digest(obs))
				e.Line("impl.obs", "%s.spec %s", id, digest(exp.ref))
				pending[id] = &pendingCase{obs: obs, mismatch: obs != exp.ref, file: data}
				lastObs[id] = obs
				e.Count(exp.nrev >= 2, f[3], strings.ReplaceAll(strings.SplitN(exp.class, "_objs", 2)[0], "_", " "))
				e.Sample(3, map[string]any{"id": id, "class": exp.class, "file": string(data), "reader": obs})
			case len(f) >= 8 && f[0] == "Y":
				id := f[1]
				p := pending[id]
				delete(pending, id)
				if f[2] == "wf=1" {
					hypOK++
				} else {
					hypBad++
				}
				trip := strings.TrimPrefix(f[5], "trip=")
				if trip != "-" {
					tripped++
				}
				if len(f) >= 9 && f[8] == "rr=1" {
					rrOK++
				}
				hides := f[6] == "hidden=1"
				if hides {
					hidden++
				}
				if p != nil && p.mismatch {
					sig := "reader-differs-from-revision-history"
					// a hybrid section of this file hides an object (free in the table, real entry in
					// /XRefStm): fixed by F39; named separately for the diagnosis only
					if hides {
						sig = "hybrid-hidden-object-read-as-free"
					}
					failCapped(e, sig, "Reader.Get / trailer differ from the reference model (apply revisions oldest to newest)",
						map[string]any{"id": id, "file_hex": hex.EncodeToString(p.file), "file": string(p.file),
							"reader": p.obs, "reference": expect[id].ref, "tripping_sections_newest_first": trip,
							"case_line": "the line of gen/cases.txt with this id"})
				}
			case len(f) >= 3 && f[0] == "O":
				val := strings.Join(f[2:], " ")
				if c := f[1][0]; c != 'L' && c != 'T' && c != 'X' && c != 'P' {
					id := strings.TrimSuffix(f[1], ".spec")
					var other string
					if strings.HasSuffix(f[1], ".spec") {
						other = expect[id].ref
					} else {
						other = lastObs[id]
						delete(lastObs, id)
					}
					if other != val && nmis < 50 {
						nmis++
						e.Line("mismatch.txt", "%s\n  go  : %s\n  coq : %s", f[1], other, val)
					}
					val = digest(val)
				}
				e.Line("model.obs", "%s %s", f[1], val)
			}
		}
		if err != nil {
			break
		}
	}

	// decoder cases: the real readXRefTable / decodeXRefStream through the verif hooks
	cf, err := os.Open(shardFile)
	if err != nil {
		panic(err)
	}
	sc := bufio.NewScanner(cf)
	sc.Buffer(make([]byte, 1<<20), 1<<28)
	for sc.Scan() {
		line := sc.Text()
		sp := strings.IndexByte(line, ' ')
		if sp < 0 || sp+2 >= len(line) || (line[sp+1] != 'T' && line[sp+1] != 'X') || line[sp+2] != ' ' {
			continue
		}
		f := strings.Fields(line)
		id := f[0]
		switch f[1] {
		case "T":
			data := common.UnHex(f[2])
			allow := f[3] == "1"
			nk := atoi(f[4])
			var known []uint32
			for _, x := range f[5 : 5+nk] {
				known = append(known, uint32(atoi(x)))
			}
			nq := atoi(f[5+nk])
			var query []int
			for _, x := range f[6+nk : 6+nk+nq] {
				query = append(query, atoi(x))
			}
			m, _, err := pdf.VerifReadXRefTable(data, known, allow)
			if err != nil {
				e.Line("impl.obs", "%s err-%s", id, errClass(err))
			} else {
				e.Line("impl.obs", "%s ok[%s]", id, dumpMap(m, query))
			}
			e.Count(err == nil, f[2], "table-decoder "+errClass(err))
		case "X":
			w := []int{atoi(f[2]), atoi(f[3]), atoi(f[4])}
			data := common.UnHex(f[5])
			ns := atoi(f[6])
			var subs [][2]uint32
			for i := 0; i < ns; i++ {
				subs = append(subs, [2]uint32{uint32(atoi(f[7+2*i])), uint32(atoi(f[8+2*i]))})
			}
			p := 7 + 2*ns
			nk := atoi(f[p])
			var known []uint32
			for _, x := range f[p+1 : p+1+nk] {
				known = append(known, uint32(atoi(x)))
			}
			nq := atoi(f[p+1+nk])
			var query []int
			for _, x := range f[p+2+nk : p+2+nk+nq] {
				query = append(query, atoi(x))
			}
			m, err := pdf.VerifDecodeXRefStream(data, w, subs, known)
			if err != nil {
				e.Line("impl.obs", "%s err-%s", id, errClass(err))
			} else {
				e.Line("impl.obs", "%s ok[%s]", id, dumpMap(m, query))
			}
			e.Count(err == nil, strings.Join(f[2:], " "), "stream-decoder "+errClass(err))
		}
	}
	cf.Close()

	if shard == 0 {
		runCycles(e)
		runBigOffsets(e)
	}
	runFilterChains(e, shard, nshards)
	runExtent(e, gdir, shard, nshards)

	e.Finish("a history case is non-trivial when it has at least two revisions (a /Prev chain is followed), distinct by rendered file; a decoder case when it decodes without error; a /Length case when the hypotheses of a clause hold (right /Length: any data, any or no white space before endstream; otherwise data without EOL+endstream, not ending in CR before a bare LF, an EOL before endstream, declared length absent, negative, unresolvable, or wrong and not in front of white space + endstream)",
		map[string]any{"files_satisfying_theorem_hypotheses": hypOK, "files_outside_wf_chain": hypBad, "files_with_subsection_1_n_free_65535": tripped, "files_with_hidden_objects": hidden, "files_satisfying_read_render_side_conditions": rrOK})
}

// explainedBy reports whether the observation differs from the reference only at the probes
// listed in mdiff ("all": the model does not open the file either).
func explainedBy(obs, ref, mdiff string) bool {
	if mdiff == "all" {
		return strings.HasPrefix(obs, "open-")
	}
	at := map[int]bool{}
	trailerToo := false
	for _, x := range strings.Split(mdiff, ",") {
		if x == "T" {
			trailerToo = true
		} else if x != "-" {
			at[atoi(x)] = true
		}
	}
	as, bs := strings.Split(obs, "|T="), strings.Split(ref, "|T=")
	if len(as) != 2 || len(bs) != 2 || (as[1] != bs[1] && !trailerToo) {
		return false
	}
	ap, bp := strings.Split(as[0], ";"), strings.Split(bs[0], ";")
	if len(ap) != len(bp) {
		return false
	}
	for i := range ap {
		if ap[i] != bp[i] && !at[i] {
			return false
		}
	}
	return true
}

// onlyAt reports whether two observations differ only at the given probe positions.
func onlyAt(a, b string, at map[int]bool) bool {
	if len(at) == 0 {
		return false
	}
	as, bs := strings.Split(a, "|T="), strings.Split(b, "|T=")
	if len(as) != 2 || len(bs) != 2 || as[1] != bs[1] {
		return false
	}
	ap, bp := strings.Split(as[0], ";"), strings.Split(bs[0], ";")
	if len(ap) != len(bp) {
		return false
	}
	for i := range ap {
		if ap[i] != bp[i] && !at[i] {
			return false
		}
	}
	return true
}

func digest(s string) string {
	h := sha256.Sum256([]byte(s))
	return hex.EncodeToString(h[:10])
}

func atoi(s string) int { v, _ := strconv.Atoi(s); return v }

func readFile(data []byte, probes []probe) (obs string) {
	defer func() {
		if r := recover(); r != nil {
			obs = fmt.Sprintf("panic:%v", r)
		}
	}()
	r, err := pdf.NewReader(bytes.NewReader(data), int64(len(data)), nil)
	if err != nil {
		return "open-" + errClass(err)
	}
	var parts []string
	for _, p := range probes {
		o, err := r.Get(pdf.NewReference(uint32(p.num), uint16(p.gen)), true)
		switch {
		case err != nil:
			parts = append(parts, "err")
		case o == nil:
			parts = append(parts, "null")
		default:
			parts = append(parts, canonObj(o))
		}
	}
	return strings.Join(parts, ";") + "|T=" + canonObj(r.GetMeta().Trailer)
}

// ---------------------------------------------------------------- /Prev cycles (termination)

type cycleCase struct {
	id    string
	file  []byte
	model string
}

// cycleCases builds files whose /Prev chain does not end: a section that points to itself
// and two sections that point to each other, with and without bytes before the header (so
// that header-relative and absolute offsets differ).  Not conforming; the reader must
// terminate (the `seen` set of readXRef).  The model is given the layout explicitly.
func cycleCases() []cycleCase {
	var res []cycleCase
	n := 0
	for _, junk := range []string{"", "junk before the header\n"} {
		for _, shape := range []string{"self", "two", "two-into-chain"} {
			n++
			var b bytes.Buffer
			b.WriteString(junk)
			h := b.Len()
			b.WriteString("%PDF-1.4\n")
			off := map[int]int{}
			obj := func(k int, body string) { off[k] = b.Len() - h; fmt.Fprintf(&b, "%d 0 obj\n%s\nendobj\n", k, body) }
			obj(1, "<</Type/Catalog/Pages 2 0 R>>")
			obj(2, "<</Type/Pages/Kids[]/Count 0>>")
			obj(3, "(three)")
			obj(4, "(four)")
			line := func(k int) string { return fmt.Sprintf("%010d 00000 n \n", off[k]) }
			// the sections have fixed lengths, so their offsets can be computed in advance
			secA := func(prev string) string {
				return "xref\n0 4\n0000000000 65535 f \n" + line(1) + line(2) + line(3) + "trailer\n<</Size 5/Root 1 0 R" + prev + ">>\n"
			}
			secB := func(prev string) string {
				return "xref\n4 1\n" + line(4) + "trailer\n<</Size 5/Root 1 0 R" + prev + ">>\n"
			}
			xA := b.Len() - h
			pad := func(v int) string { return fmt.Sprintf("/Prev %06d", v) }
			var start int
			var model string
			entsA := fmt.Sprintf("0 4 0 65535 f %d 0 n %d 0 n %d 0 n", off[1], off[2], off[3])
			entsB := fmt.Sprintf("4 1 %d 0 n", off[4])
			switch shape {
			case "self":
				b.WriteString(secA(pad(xA)))
				start = xA
				model = fmt.Sprintf("1 %d %d 1 %s", xA, xA, entsA)
			case "two":
				xB := xA + len(secA(pad(0)))
				b.WriteString(secA(pad(xB)))
				b.WriteString(secB(pad(xA)))
				start = xB
				model = fmt.Sprintf("2 %d %d 1 %s %d %d 1 %s", xA, xB, entsA, xB, xA, entsB)
			case "two-into-chain":
				// B -> A -> B, entered from a third section C -> B
				xB := xA + len(secA(pad(0)))
				xC := xB + len(secB(pad(0)))
				b.WriteString(secA(pad(xB)))
				b.WriteString(secB(pad(xA)))
				b.WriteString("xref\n0 1\n0000000000 65535 f \ntrailer\n<</Size 5/Root 1 0 R" + pad(xB) + ">>\n")
				start = xC
				model = fmt.Sprintf("3 %d %d 1 %s %d %d 1 %s %d %d 1 0 1 0 65535 f", xA, xB, entsA, xB, xA, entsB, xC, xB)
			}
			fmt.Fprintf(&b, "startxref\n%d\n%%%%EOF\n", start)
			id := fmt.Sprintf("P%d", n)
			size := b.Len() - h
			res = append(res, cycleCase{id: id, file: append([]byte{}, b.Bytes()...),
				model: fmt.Sprintf("%s P %d %d %s 5 0 1 2 3 4", id, size, start, model)})
		}
	}
	return res
}

func runCycles(e *common.Env) {
	for _, c := range cycleCases() {
		done := make(chan string, 1)
		go func() {
			defer func() {
				if r := recover(); r != nil {
					done <- fmt.Sprintf("panic:%v", r)
				}
			}()
			r, err := pdf.NewReader(bytes.NewReader(c.file), int64(len(c.file)), nil)
			if err != nil {
				done <- "open-" + errClass(err)
				return
			}
			bits := ""
			for k := 0; k <= 4; k++ {
				o, err := r.Get(pdf.NewReference(uint32(k), 0), true)
				if err == nil && o != nil {
					bits += "1"
				} else {
					bits += "0"
				}
			}
			done <- "opened " + bits
		}()
		var obs string
		select {
		case obs = <-done:
		case <-time.After(40 * time.Second):
			obs = "hang"
			failCapped(e, "reader-does-not-terminate-on-prev-cycle", "NewReader does not return within 40 s on a file whose /Prev chain is cyclic",
				map[string]any{"id": c.id, "file": string(c.file)})
		}
		e.Line("impl.obs", "%s %s", c.id, obs)
		e.Count(true, string(c.file), "prev-cycle")
	}
}

// ---------------------------------------------------------------- large offsets

// runBigOffsets: one file with ~17 MB of padding (a comment) between two revisions, so that
// the in-use entries of the update lie beyond 2^24; the cross-reference stream needs /W [1 4 1].
// Oracle only (the renderer cannot write files of this size).
func runBigOffsets(e *common.Env) {
	var b bytes.Buffer
	b.WriteString("%PDF-1.5\n")
	off := map[int]int{}
	obj := func(k int, body string) { off[k] = b.Len(); fmt.Fprintf(&b, "%d 0 obj\n%s\nendobj\n", k, body) }
	obj(1, "(old one)")
	obj(2, "<</Type/Catalog/Pages 3 0 R>>")
	obj(3, "<</Type/Pages/Kids[]/Count 0>>")
	x1 := b.Len()
	row := func(w int, tp, a, c int) []byte {
		r := []byte{byte(tp)}
		for i := w - 1; i >= 0; i-- {
			r = append(r, byte(a>>(8*i)))
		}
		return append(r, byte(c))
	}
	var d1 []byte
	d1 = append(d1, row(2, 0, 0, 255)...)
	for k := 1; k <= 3; k++ {
		d1 = append(d1, row(2, 1, off[k], 0)...)
	}
	d1 = append(d1, row(2, 1, x1, 0)...)
	fmt.Fprintf(&b, "4 0 obj\n<</Type/XRef/Size 5/W[1 2 1]/Root 2 0 R/Length %d>>\nstream\n", len(d1))
	b.Write(d1)
	fmt.Fprintf(&b, "\nendstream\nendobj\nstartxref\n%d\n%%%%EOF\n", x1)
	// padding: comment lines
	line := append(append([]byte("%"), bytes.Repeat([]byte("x"), 998)...), '\n')
	for b.Len() < 1<<24+5000 {
		b.Write(line)
	}
	obj(1, "(new one)")
	obj(5, "(five)")
	x2 := b.Len()
	var d2 []byte
	d2 = append(d2, row(4, 1, off[1], 0)...)
	d2 = append(d2, row(4, 1, off[5], 0)...)
	d2 = append(d2, row(4, 1, x2, 0)...)
	fmt.Fprintf(&b, "6 0 obj\n<</Type/XRef/Size 7/W[1 4 1]/Index[1 1 5 2]/Root 2 0 R/Prev %d/Length %d>>\nstream\n", x1, len(d2))
	b.Write(d2)
	fmt.Fprintf(&b, "\nendstream\nendobj\nstartxref\n%d\n%%%%EOF\n", x2)
	data := b.Bytes()
	want := "S" + common.Hex([]byte("new one")) + ";S" + common.Hex([]byte("five")) + ";null"
	got := func() (obs string) {
		defer func() {
			if r := recover(); r != nil {
				obs = fmt.Sprintf("panic:%v", r)
			}
		}()
		r, err := pdf.NewReader(bytes.NewReader(data), int64(len(data)), nil)
		if err != nil {
			return "open-" + errClass(err)
		}
		var parts []string
		for _, ref := range []pdf.Reference{pdf.NewReference(1, 0), pdf.NewReference(5, 0), pdf.NewReference(7, 0)} {
			o, err := r.Get(ref, true)
			switch {
			case err != nil:
				parts = append(parts, "err")
			case o == nil:
				parts = append(parts, "null")
			default:
				parts = append(parts, canonObj(o))
			}
		}
		return strings.Join(parts, ";")
	}()
	if got != want {
		failCapped(e, "in-use-entry-beyond-2^24-lost", "objects at byte offsets beyond 2^24 (xref stream, /W [1 4 1]) are not read as the newest revision says",
			map[string]any{"file_bytes": len(data), "offset_of_object_1": off[1], "reader": got, "reference": want})
	}
	e.Count(true, "big-offsets", "big-offsets (17 MB)")
}

// ---------------------------------------------------------------- filter chains

func pngUp(data []byte, cols int) []byte {
	var out []byte
	prev := make([]byte, cols)
	for i := 0; i < len(data); i += cols {
		row := make([]byte, cols)
		copy(row, data[i:min(i+cols, len(data))])
		out = append(out, 2)
		for j := range row {
			out = append(out, row[j]-prev[j])
		}
		prev = row
	}
	return out
}

func runLengthEnc(data []byte) []byte {
	var out []byte
	for i := 0; i < len(data); {
		// a run of equal bytes or a literal block
		j := i
		for j < len(data) && j-i < 128 && data[j] == data[i] {
			j++
		}
		if j-i >= 3 {
			out = append(out, byte(257-(j-i)), data[i])
			i = j
			continue
		}
		j = i
		for j < len(data) && j-i < 128 && !(j+2 < len(data) && data[j] == data[j+1] && data[j] == data[j+2]) {
			j++
		}
		if j == i {
			j = i + 1
		}
		out = append(out, byte(j-i-1))
		out = append(out, data[i:j]...)
		i = j
	}
	return append(out, 128)
}

type stage struct {
	name string
	cols int // > 0: Flate with /Predictor 12 /Columns cols
}

// encodeChain applies the stages so that decoding with /Filter [s1 ... sk] gives data back
func encodeChain(data []byte, st []stage) []byte {
	x := data
	for i := len(st) - 1; i >= 0; i-- {
		switch st[i].name {
		case "FlateDecode":
			if st[i].cols > 0 {
				x = pngUp(x, st[i].cols)
			}
			var z bytes.Buffer
			zw := zlib.NewWriter(&z)
			zw.Write(x)
			zw.Close()
			x = z.Bytes()
		case "ASCIIHexDecode":
			x = append([]byte(strings.ToUpper(hex.EncodeToString(x))), '>')
		case "ASCII85Decode":
			var z bytes.Buffer
			w := ascii85.NewEncoder(&z)
			w.Write(x)
			w.Close()
			x = append(z.Bytes(), '~', '>')
		case "RunLengthDecode":
			x = runLengthEnc(x)
		}
	}
	return x
}

// chainDict writes /Filter and /DecodeParms for the stages; nulls mode: how stages without
// parameters are written in the /DecodeParms array
func chainDict(st []stage, r interface{ IntN(int) int }) string {
	if len(st) == 1 && r.IntN(2) == 0 {
		s := "/Filter/" + st[0].name
		if st[0].cols > 0 {
			s += fmt.Sprintf("/DecodeParms<</Predictor 12/Columns %d>>", st[0].cols)
		}
		return s
	}
	var names, parms []string
	any := false
	for _, x := range st {
		names = append(names, "/"+x.name)
		if x.cols > 0 {
			parms = append(parms, fmt.Sprintf("<</Predictor 12/Columns %d>>", x.cols))
			any = true
		} else if r.IntN(4) == 0 {
			parms = append(parms, "<<>>")
		} else {
			parms = append(parms, "null")
		}
	}
	s := "/Filter[" + strings.Join(names, " ") + "]"
	if any || r.IntN(2) == 0 {
		s += "/DecodeParms[" + strings.Join(parms, " ") + "]"
	}
	return s
}

// runFilterChains: cross-reference streams and object streams encoded with chains of 1-3
// filters, /DecodeParms arrays with null in every position and parameters on any stage.
// Files are written here (the Coq renderer writes unfiltered streams); oracle only.
func runFilterChains(e *common.Env, shard, nshards int) {
	r := e.Rand
	names := []string{"FlateDecode", "ASCIIHexDecode", "ASCII85Decode", "RunLengthDecode"}
	n := e.Pick(240, 6000)
	for it := 0; it < n; it++ {
		mk := func(finalCols int) []stage {
			k := 1 + r.IntN(3)
			st := make([]stage, k)
			for i := range st {
				st[i].name = names[r.IntN(len(names))]
				if it%3 == 0 {
					st[i].name = "FlateDecode" // the chains of Flate stages are where parameters matter
				}
				if st[i].name == "FlateDecode" && r.IntN(2) == 0 {
					st[i].cols = 1
					if i == k-1 && r.IntN(2) == 0 {
						st[i].cols = finalCols
					}
				}
			}
			return st
		}
		if it%nshards != shard {
			// keep the random stream aligned between shards: draw the same numbers
			mk(1)
			mk(1)
			chainDict(nil, r)
			continue
		}
		var b bytes.Buffer
		b.WriteString("%PDF-1.5\n")
		off := map[int]int{}
		obj := func(k int, body string) { off[k] = b.Len(); fmt.Fprintf(&b, "%d 0 obj\n%s\nendobj\n", k, body) }
		obj(1, "<</Type/Catalog/Pages 2 0 R>>")
		obj(2, "<</Type/Pages/Kids[]/Count 0>>")
		// object stream 3 with objects 4 and 5
		o4, o5 := "(hidden text 4)", "12345"
		hdr := fmt.Sprintf("4 0 5 %d ", len(o4)+1)
		body := []byte(hdr + o4 + " " + o5 + " ")
		for len(body)%4 != 0 {
			body = append(body, ' ')
		}
		st3 := mk(4)
		enc3 := encodeChain(body, st3)
		off[3] = b.Len()
		fmt.Fprintf(&b, "3 0 obj\n<</Type/ObjStm/N 2/First %d%s/Length %d>>\nstream\n", len(hdr), chainDict(st3, r), len(enc3))
		b.Write(enc3)
		b.WriteString("\nendstream\nendobj\n")
		// xref stream 6: rows of 4 bytes
		x := b.Len()
		row := func(tp, a, c int) []byte { return []byte{byte(tp), byte(a >> 8), byte(a), byte(c)} }
		var rows []byte
		rows = append(rows, row(0, 0, 255)...)
		rows = append(rows, row(1, off[1], 0)...)
		rows = append(rows, row(1, off[2], 0)...)
		rows = append(rows, row(1, off[3], 0)...)
		rows = append(rows, row(2, 3, 0)...)
		rows = append(rows, row(2, 3, 1)...)
		rows = append(rows, row(1, x, 0)...)
		st6 := mk(4)
		enc6 := encodeChain(rows, st6)
		fmt.Fprintf(&b, "6 0 obj\n<</Type/XRef/Size 7/W[1 2 1]/Root 1 0 R%s/Length %d>>\nstream\n", chainDict(st6, r), len(enc6))
		b.Write(enc6)
		fmt.Fprintf(&b, "\nendstream\nendobj\nstartxref\n%d\n%%%%EOF\n", x)
		data := b.Bytes()
		want := "S" + common.Hex([]byte("hidden text 4")) + ";i12345"
		got := func() (obs string) {
			defer func() {
				if rr := recover(); rr != nil {
					obs = fmt.Sprintf("panic:%v", rr)
				}
			}()
			rd, err := pdf.NewReader(bytes.NewReader(data), int64(len(data)), nil)
			if err != nil {
				return "open-" + errClass(err)
			}
			var parts []string
			for _, k := range []uint32{4, 5} {
				o, err := rd.Get(pdf.NewReference(k, 0), true)
				switch {
				case err != nil:
					parts = append(parts, "err")
				case o == nil:
					parts = append(parts, "null")
				default:
					parts = append(parts, canonObj(o))
				}
			}
			return strings.Join(parts, ";")
		}()
		if got != want {
			failCapped(e, "filtered-xref-or-object-stream-not-read", "a cross-reference stream / object stream encoded with a filter chain is not read back",
				map[string]any{"file": string(data), "objstm_chain": fmt.Sprint(st3), "xref_chain": fmt.Sprint(st6), "reader": got, "reference": want})
		}
		e.Count(len(st3) > 1 || len(st6) > 1, string(data), fmt.Sprintf("filter-chain stages=%d/%d", len(st3), len(st6)))
	}
}

// ---------------------------------------------------------------- extent mode

func hypothesesHold(body, e0, e1 []byte, decl string, after []byte) bool {
	// eol before the data: LF or CRLF; after: LF, CR or CRLF
	if !(bytes.Equal(e0, []byte("\n")) || bytes.Equal(e0, []byte("\r\n"))) {
		return false
	}
	// a correct /Length (direct, or in another object): the data are the declared bytes
	// whatever they contain and whatever white space - or none - precedes endstream
	// (Prop_C04.stream_extent_declared)
	if decl == "indirect" || decl == strconv.Itoa(len(body)) {
		return len(bytes.TrimLeft(e1, "\x00\t\n\f\r ")) == 0
	}
	if !(bytes.Equal(e1, []byte("\n")) || bytes.Equal(e1, []byte("\r")) || bytes.Equal(e1, []byte("\r\n"))) {
		return false
	}
	// exactly one end-of-line marker is taken off (fix F78), so data that itself ends in an
	// end-of-line reads back whole; only data ending in CR in front of a bare LF marker cannot
	// be told from data + CR LF marker (Extent: no_cr_before_lf)
	if n := len(body); n > 0 && body[n-1] == '\r' && bytes.Equal(e1, []byte("\n")) {
		return false
	}
	if bytes.Contains(body, []byte("\nendstream")) || bytes.Contains(body, []byte("\rendstream")) {
		return false
	}
	switch decl {
	case "absent", "string", "indirect-dict", "indirect", "-1":
		return true
	case "dangling":
		decl = "0"
	}
	d, _ := strconv.Atoi(decl)
	if d == len(body) {
		return true
	}
	// wrong: must not point at white space followed by endstream
	data := after[len(e0):]
	if d > len(data) {
		return true
	}
	rest := bytes.TrimLeft(data[d:], "\x00\t\n\f\r ")
	return !bytes.HasPrefix(rest, []byte("endstream"))
}

func runExtent(e *common.Env, gdir string, shard, nshards int) {
	for li, f := range common.ReadLines(filepath.Join(gdir, "lcases.txt")) {
		if li%nshards != shard {
			continue
		}
		id := f[0]
		body, e0, e1 := common.UnHex(f[1]), common.UnHex(f[2]), common.UnHex(f[3])
		file, after, _ := buildExtentFile(body, e0, e1, f[4])
		obs := func() (obs string) {
			defer func() {
				if r := recover(); r != nil {
					obs = fmt.Sprintf("panic:%v", r)
				}
			}()
			r, err := pdf.NewReader(bytes.NewReader(file), int64(len(file)), nil)
			if err != nil {
				return "open-" + errClass(err)
			}
			o, err := r.Get(pdf.NewReference(1, 0), true)
			if err != nil {
				return "err-" + errClass(err)
			}
			stm, ok := o.(*pdf.Stream)
			if !ok {
				return "notstream"
			}
			data, err := io.ReadAll(stm.NewReader())
			if err != nil {
				return "readerr"
			}
			return common.Hex(data)
		}()
		e.Line("impl.obs", "%s %s", id, obs)
		hyp := hypothesesHold(body, e0, e1, f[4], after)
		cls := "length-clause outside-hypotheses"
		if hyp {
			cls = "length-clause " + map[bool]string{true: "recovered", false: "declared"}[f[4] != strconv.Itoa(len(body)) && f[4] != "indirect"]
			if obs != common.Hex(body) {
				failCapped(e, "stream-extent-differs-from-body", "a stream with a missing/wrong /Length is not delimited by the EOL before endstream",
					map[string]any{"id": id, "body": f[1], "eol_before": f[2], "eol_after": f[3], "length": f[4], "got": obs, "file": string(file)})
			}
		}
		e.Count(hyp, strings.Join(f[1:], " "), cls)
	}
}

// common.Env keeps at most 200 failing cases per process; a frequent known finding must not
// crowd out a different failure, so each signature is recorded at most 25 times
var failCount = map[string]int{}

func failCapped(e *common.Env, signature, what string, c any) {
	failCount[signature]++
	if failCount[signature] <= 25 {
		e.Fail(signature, what, c)
	}
}

func main() {
	args := os.Args[1:]
	if len(args) >= 2 && args[0] == "-dir" {
		args = args[2:]
	}
	mode := ""
	if len(args) > 0 {
		mode = args[0]
	}
	switch {
	case mode == "gen":
		genMode()
	case mode == "run" && len(args) == 4:
		runMode(args[1], atoi(args[2]), atoi(args[3]))
	default:
		fmt.Fprintln(os.Stderr, "usage: c04 -dir <dir> gen | c04 -dir <dir> run <shard file> <i> <K>")
		os.Exit(2)
	}
}
