// Text level of C13: the token stream the real writer produces and what the
// real reader makes of a token stream.
//
//	leg W: tokens of the real embedded stream   vs  model write_tokens of the same structure
//	leg R: model read_tokens of the real tokens vs  structure the real Extract returns
//	leg B (second phase): the MODEL-written token list printed to text, embedded
//	       by hand, read by the real Extract/ExtractToUnicode; lookups and
//	       enumeration must equal those of the original file
package main

import (
	"bufio"
	"bytes"
	"encoding/hex"
	"fmt"
	"os"
	"path/filepath"
	"sort"
	"strconv"
	"strings"

	"seehuhn.de/go/pdf"
	"seehuhn.de/go/pdf/font/charcode"
	"seehuhn.de/go/pdf/font/cmap"
	"seehuhn.de/go/pdf/internal/debug/memfile"
	"seehuhn.de/go/pdf/verifharness/common"
)

// ---------------------------------------------------------------------------
// a tokenizer for the PostScript subset CMap files use

type tok struct {
	kind byte // 'i' integer, 's' string, 'l' literal name, 'x' executable name, 'a' array of strings
	i    int64
	b    []byte
	arr  [][]byte
}

func isWhite(c byte) bool { return c == 0 || c == 9 || c == 10 || c == 12 || c == 13 || c == 32 }
func isDelim(c byte) bool { return strings.IndexByte("()<>[]{}/%", c) >= 0 }

func tokenize(data []byte) ([]tok, error) {
	var raw []tok
	i := 0
	for i < len(data) {
		c := data[i]
		switch {
		case isWhite(c):
			i++
		case c == '%':
			for i < len(data) && data[i] != '\n' && data[i] != '\r' {
				i++
			}
		case c == '/':
			j := i + 1
			for j < len(data) && !isWhite(data[j]) && !isDelim(data[j]) {
				j++
			}
			raw = append(raw, tok{kind: 'l', b: data[i+1 : j]})
			i = j
		case c == '<' && i+1 < len(data) && data[i+1] == '<':
			raw = append(raw, tok{kind: 'x', b: []byte("<<")})
			i += 2
		case c == '>' && i+1 < len(data) && data[i+1] == '>':
			raw = append(raw, tok{kind: 'x', b: []byte(">>")})
			i += 2
		case c == '<':
			j := i + 1
			var digits []byte
			for j < len(data) && data[j] != '>' {
				if !isWhite(data[j]) {
					digits = append(digits, data[j])
				}
				j++
			}
			if j >= len(data) {
				return nil, fmt.Errorf("unterminated hex string")
			}
			if len(digits)%2 == 1 {
				digits = append(digits, '0')
			}
			b, err := hex.DecodeString(string(digits))
			if err != nil {
				return nil, err
			}
			raw = append(raw, tok{kind: 's', b: b})
			i = j + 1
		case c == '(':
			depth := 1
			j := i + 1
			var out []byte
			for j < len(data) && depth > 0 {
				d := data[j]
				switch d {
				case '\\':
					j++
					if j >= len(data) {
						return nil, fmt.Errorf("bad escape")
					}
					switch e := data[j]; e {
					case 'n':
						out = append(out, '\n')
					case 'r':
						out = append(out, '\r')
					case 't':
						out = append(out, '\t')
					case 'b':
						out = append(out, '\b')
					case 'f':
						out = append(out, '\f')
					case '\n':
					default:
						if e >= '0' && e <= '7' {
							v := 0
							k := 0
							for k < 3 && j < len(data) && data[j] >= '0' && data[j] <= '7' {
								v = v*8 + int(data[j]-'0')
								j++
								k++
							}
							j--
							out = append(out, byte(v))
						} else {
							out = append(out, e)
						}
					}
				case '(':
					depth++
					out = append(out, d)
				case ')':
					depth--
					if depth > 0 {
						out = append(out, d)
					}
				default:
					out = append(out, d)
				}
				j++
			}
			if depth != 0 {
				return nil, fmt.Errorf("unterminated string")
			}
			raw = append(raw, tok{kind: 's', b: out})
			i = j
		case c == '[' || c == ']':
			raw = append(raw, tok{kind: 'x', b: []byte{c}})
			i++
		case c == '{' || c == '}' || c == ')' || c == '>':
			return nil, fmt.Errorf("unexpected %q", c)
		default:
			j := i
			for j < len(data) && !isWhite(data[j]) && !isDelim(data[j]) {
				j++
			}
			word := string(data[i:j])
			if v, err := strconv.ParseInt(word, 10, 64); err == nil {
				raw = append(raw, tok{kind: 'i', i: v})
			} else {
				raw = append(raw, tok{kind: 'x', b: []byte(word)})
			}
			i = j
		}
	}
	// `[ <..> <..> ]` becomes one array token
	var res []tok
	for k := 0; k < len(raw); k++ {
		if raw[k].kind == 'x' && string(raw[k].b) == "[" {
			a := tok{kind: 'a'}
			k++
			for k < len(raw) && !(raw[k].kind == 'x' && string(raw[k].b) == "]") {
				if raw[k].kind != 's' {
					return nil, fmt.Errorf("array element is not a string")
				}
				a.arr = append(a.arr, raw[k].b)
				k++
			}
			if k >= len(raw) {
				return nil, fmt.Errorf("unterminated array")
			}
			res = append(res, a)
			continue
		}
		res = append(res, raw[k])
	}
	return res, nil
}

func hexOrDash(b []byte) string {
	if len(b) == 0 {
		return "-"
	}
	return hex.EncodeToString(b)
}

func unhexOrDash(s string) []byte {
	if s == "-" || s == "" {
		return nil
	}
	b, err := hex.DecodeString(s)
	if err != nil {
		panic(err)
	}
	return b
}

// wire: tokens joined by ','; i<int> s<hex> l<hex> x<hex> a<hex>.<hex>... ("a" alone: empty array)
func tokWire(ts []tok) string {
	parts := make([]string, 0, len(ts))
	for _, t := range ts {
		switch t.kind {
		case 'i':
			parts = append(parts, "i"+strconv.FormatInt(t.i, 10))
		case 'a':
			var el []string
			for _, x := range t.arr {
				el = append(el, hexOrDash(x))
			}
			parts = append(parts, "a"+strings.Join(el, "."))
		default:
			parts = append(parts, string(t.kind)+hexOrDash(t.b))
		}
	}
	if len(parts) == 0 {
		return "-"
	}
	return strings.Join(parts, ",")
}

func parseTokWire(s string) []tok {
	var res []tok
	if s == "-" {
		return res
	}
	for _, p := range strings.Split(s, ",") {
		switch p[0] {
		case 'i':
			v, err := strconv.ParseInt(p[1:], 10, 64)
			if err != nil {
				panic(err)
			}
			res = append(res, tok{kind: 'i', i: v})
		case 'a':
			t := tok{kind: 'a'}
			if len(p) > 1 {
				for _, x := range strings.Split(p[1:], ".") {
					t.arr = append(t.arr, unhexOrDash(x))
				}
			}
			res = append(res, t)
		default:
			res = append(res, tok{kind: p[0], b: unhexOrDash(p[1:])})
		}
	}
	return res
}

// printTokens writes tokens as PostScript text (strings as hex strings).
func printTokens(ts []tok) []byte {
	var sb bytes.Buffer
	for _, t := range ts {
		switch t.kind {
		case 'i':
			fmt.Fprintf(&sb, "%d\n", t.i)
		case 's':
			fmt.Fprintf(&sb, "<%x>\n", t.b)
		case 'l':
			fmt.Fprintf(&sb, "/%s\n", t.b)
		case 'x':
			fmt.Fprintf(&sb, "%s\n", t.b)
		case 'a':
			sb.WriteString("[")
			for _, x := range t.arr {
				fmt.Fprintf(&sb, " <%x>", x)
			}
			sb.WriteString(" ]\n")
		}
	}
	return sb.Bytes()
}

// ---------------------------------------------------------------------------
// structural wire of files

func rosWire(f *cmap.File) string {
	if f.ROS == nil {
		return "-"
	}
	return fmt.Sprintf("%s:%s:%d", hexOrDash([]byte(f.ROS.Registry)), hexOrDash([]byte(f.ROS.Ordering)), f.ROS.Supplement)
}

func csrList(csr charcode.CodeSpaceRange) string {
	var parts []string
	for _, r := range csr {
		parts = append(parts, hexOrDash(r.Low)+":"+hexOrDash(r.High))
	}
	if len(parts) == 0 {
		return "-"
	}
	return strings.Join(parts, ";")
}

func singlesWire(ss []cmap.Single) string {
	var parts []string
	for _, s := range ss {
		parts = append(parts, fmt.Sprintf("%s:%d", hexOrDash(s.Code), uint32(s.Value)))
	}
	if len(parts) == 0 {
		return "-"
	}
	return strings.Join(parts, ";")
}

func rangesWire(rr []cmap.Range) string {
	var parts []string
	for _, r := range rr {
		parts = append(parts, fmt.Sprintf("%s:%s:%d", hexOrDash(r.First), hexOrDash(r.Last), uint32(r.Value)))
	}
	if len(parts) == 0 {
		return "-"
	}
	return strings.Join(parts, ";")
}

// name wmode ros parent csr singles ranges notdef-singles notdef-ranges
func cidStructWire(f *cmap.File, parentName string, hasParent bool) string {
	par := "-"
	if hasParent {
		par = "=" + hexOrDash([]byte(parentName))
	}
	return fmt.Sprintf("%s %d %s %s %s %s %s %s %s", hexOrDash([]byte(f.Name)), int(f.WMode), rosWire(f), par,
		csrList(f.CodeSpaceRange), singlesWire(f.CIDSingles), rangesWire(f.CIDRanges), singlesWire(f.NotdefSingles), rangesWire(f.NotdefRanges))
}

func tuSinglesWire(ss []cmap.ToUnicodeSingle) string {
	var parts []string
	for _, s := range ss {
		parts = append(parts, hexOrDash(s.Code)+":"+textWire(s.Value))
	}
	if len(parts) == 0 {
		return "-"
	}
	return strings.Join(parts, ";")
}

func tuRangesWire(rr []cmap.ToUnicodeRange) string {
	var parts []string
	for _, r := range rr {
		var vv []string
		for _, v := range r.Values {
			vv = append(vv, textWire(v))
		}
		parts = append(parts, fmt.Sprintf("%s:%s:%d:%s", hexOrDash(r.First), hexOrDash(r.Last), len(r.Values), strings.Join(vv, "|")))
	}
	if len(parts) == 0 {
		return "-"
	}
	return strings.Join(parts, ";")
}

// name parent csr singles ranges
func tuStructWire(f *cmap.ToUnicodeFile, name, parentName string, hasParent bool) string {
	par := "-"
	if hasParent {
		par = "=" + hexOrDash([]byte(parentName))
	}
	return fmt.Sprintf("%s %s %s %s %s", hexOrDash([]byte(name)), par, csrList(f.CodeSpaceRange), tuSinglesWire(f.Singles), tuRangesWire(f.Ranges))
}

// the decoded content and the dictionary of an embedded CMap stream
func streamText(r *pdf.Reader, ref pdf.Object) ([]byte, pdf.Dict, error) {
	c := pdf.NewCursor(r)
	stm, err := c.Stream(ref)
	if err != nil {
		return nil, nil, err
	}
	if stm == nil {
		return nil, nil, fmt.Errorf("no stream")
	}
	data, err := c.ReadAll(stm, 64<<20)
	return data, stm.Dict, err
}

// usecmap name found by the real reader: the token before `usecmap`
func usecmapName(ts []tok) (string, bool) {
	for i := 1; i < len(ts); i++ {
		if ts[i].kind == 'x' && string(ts[i].b) == "usecmap" && ts[i-1].kind == 'l' {
			return string(ts[i-1].b), true
		}
	}
	return "", false
}

// textLegsCID emits the W and R cases for every file of an embedded chain.
// f: the files as built, g: the files as extracted (both top first through .Parent).
func (t *runner) textLegsCID(id string, f, g *cmap.File, r *pdf.Reader, ref pdf.Object, desc map[string]any) {
	e := t.e
	lvl := 0
	for f != nil && g != nil && ref != nil {
		if _, byName := ref.(pdf.Name); byName {
			break // a predefined CMap, referred to by name
		}
		data, dict, err := streamText(r, ref)
		if err != nil {
			e.Fail("cid-embedded-stream", "cannot read the embedded CMap stream back: "+err.Error(), desc)
			return
		}
		ts, err := tokenize(data)
		if err != nil {
			e.Fail("cid-embedded-text", "the embedded CMap text does not tokenize: "+err.Error(), with(desc, "text", string(data)))
			return
		}
		wid := fmt.Sprintf("%s.w%d", id, lvl)
		parentName := ""
		if f.Parent != nil {
			parentName = f.Parent.Name
		}
		e.Line("cases.txt", "%s WC %s", wid, cidStructWire(f, parentName, f.Parent != nil))
		e.Line("impl.obs", "%s %s", wid, tokWire(ts))
		// what the real reader made of this text (parent name: as written in the text)
		rid := fmt.Sprintf("%s.r%d", id, lvl)
		pn, hasP := usecmapName(ts)
		e.Line("cases.txt", "%s RC %s", rid, tokWire(ts))
		e.Line("impl.obs", "%s %s", rid, cidStructWire(g, pn, hasP))
		ref = dict["UseCMap"]
		f, g = f.Parent, g.Parent
		lvl++
	}
}

func (t *runner) textLegsTU(id string, f, g *cmap.ToUnicodeFile, r *pdf.Reader, ref pdf.Object, desc map[string]any) {
	e := t.e
	lvl := 0
	for f != nil && g != nil && ref != nil {
		data, dict, err := streamText(r, ref)
		if err != nil {
			e.Fail("tounicode-embedded-stream", "cannot read the embedded ToUnicode stream back: "+err.Error(), desc)
			return
		}
		ts, err := tokenize(data)
		if err != nil {
			e.Fail("tounicode-embedded-text", "the embedded ToUnicode text does not tokenize: "+err.Error(), with(desc, "text", string(data)))
			return
		}
		wid := fmt.Sprintf("%s.w%d", id, lvl)
		parentName := ""
		if f.Parent != nil {
			parentName = string(f.Parent.MakeName())
		}
		e.Line("cases.txt", "%s WT %s", wid, tuStructWire(f, string(f.MakeName()), parentName, f.Parent != nil))
		e.Line("impl.obs", "%s %s", wid, tokWire(ts))
		rid := fmt.Sprintf("%s.r%d", id, lvl)
		// the real reader ignores the names; take them from the text so that only the mapping is compared
		name := ""
		for i := 1; i+1 < len(ts); i++ {
			if ts[i-1].kind == 'l' && string(ts[i-1].b) == "CMapName" && ts[i].kind == 'l' {
				name = string(ts[i].b)
				break
			}
		}
		pn, hasP := usecmapName(ts)
		e.Line("cases.txt", "%s RT %s", rid, tokWire(ts))
		e.Line("impl.obs", "%s %s", rid, tuStructWire(g, name, pn, hasP))
		ref = dict["UseCMap"]
		f, g = f.Parent, g.Parent
		lvl++
	}
}

// ---------------------------------------------------------------------------
// second phase: the model-written text through the real extractor

// expectB records what phase two needs: kind, code space, number of levels, probes, expected observation
func (t *runner) expectB(id, kind string, csr charcode.CodeSpaceRange, levels int, predef string, probes [][]byte, obs string) {
	t.e.Line("legb.txt", "%s %s %d %s %s | %s | %s", id, kind, levels, predef, probesWire(probes), csrWire(csr), obs)
}

func loadObs(path string) map[string]string {
	res := map[string]string{}
	f, err := os.Open(path)
	if err != nil {
		panic(err)
	}
	defer f.Close()
	sc := bufio.NewScanner(f)
	sc.Buffer(make([]byte, 1<<20), 1<<30)
	for sc.Scan() {
		k, v, _ := strings.Cut(sc.Text(), " ")
		res[k] = v
	}
	return res
}

func parseCSRWire(fs []string) charcode.CodeSpaceRange {
	n, _ := strconv.Atoi(fs[0])
	var csr charcode.CodeSpaceRange
	for i := 0; i < n; i++ {
		csr = append(csr, charcode.Range{Low: common.UnHex(fs[1+2*i]), High: common.UnHex(fs[2+2*i])})
	}
	return csr
}

// phaseTwo reads legb.txt (written by phase one) and model.obs (the model's token lists for the W cases),
// embeds the printed model text by hand and lets the real extractor read it.
func phaseTwo(dir string) {
	model := loadObs(filepath.Join(dir, "model.obs"))
	in, err := os.Open(filepath.Join(dir, "legb.txt"))
	if err != nil {
		panic(err)
	}
	defer in.Close()
	out, err := os.Create(filepath.Join(dir, "legb.impl.obs"))
	if err != nil {
		panic(err)
	}
	defer out.Close()
	want, err := os.Create(filepath.Join(dir, "legb.want.obs"))
	if err != nil {
		panic(err)
	}
	defer want.Close()
	wo := bufio.NewWriter(out)
	defer wo.Flush()
	ww := bufio.NewWriter(want)
	defer ww.Flush()

	sc := bufio.NewScanner(in)
	sc.Buffer(make([]byte, 1<<20), 1<<30)
	for sc.Scan() {
		parts := strings.SplitN(sc.Text(), " | ", 3)
		head := strings.Fields(parts[0])
		id, kind := head[0], head[1]
		levels, _ := strconv.Atoi(head[2])
		predef := head[3]
		np, _ := strconv.Atoi(head[4])
		var probes [][]byte
		for i := 0; i < np; i++ {
			probes = append(probes, common.UnHex(head[5+i]))
		}
		csr := parseCSRWire(strings.Fields(parts[1]))
		fmt.Fprintf(ww, "%s %s\n", id, parts[2])
		obs := func() (res string) {
			defer func() {
				if r := recover(); r != nil {
					res = fmt.Sprint("panic: ", r)
				}
			}()
			w, mf := memfile.NewPDFWriter(pdf.V2_0, nil)
			// root first: level index levels-1 is the root
			var ref pdf.Object
			have := false
			if predef != "-" {
				ref, have = pdf.Name(predef), true
			}
			for lvl := levels - 1; lvl >= 0; lvl-- {
				wire, ok := model[fmt.Sprintf("%s.w%d", id, lvl)]
				if !ok {
					return "missing model text"
				}
				text := printTokens(parseTokWire(wire))
				dict := pdf.Dict{"Type": pdf.Name("CMap")}
				if have {
					dict["UseCMap"] = ref
				}

				nr := w.Alloc()
				stm, err := w.OpenStream(nr, dict)
				if err != nil {
					return "OpenStream: " + err.Error()
				}
				stm.Write(text)
				if err := stm.Close(); err != nil {
					return "stream close: " + err.Error()
				}
				ref, have = nr, true
			}
			if err := w.Close(); err != nil {
				return "close: " + err.Error()
			}
			r, err := pdf.NewReader(mf, int64(len(mf.Data)), nil)
			if err != nil {
				return "NewReader: " + err.Error()
			}
			codec, err := charcode.NewCodec(csr)
			if err != nil {
				return "codec: " + err.Error()
			}
			var lk []string
			if kind == "C" {
				g, err := pdf.Decode(pdf.NewCursor(r), ref, cmap.Extract)
				if err != nil {
					return "Extract: " + err.Error()
				}
				for _, p := range probes {
					lk = append(lk, fmt.Sprint(uint32(g.LookupCID(p))))
				}
				aobs := "A=skipped"
				if !strings.Contains(parts[2], "A=skipped") {
					listed := collectCID(g, codec)
					for k, v := range listed {
						if g.LookupNotdefCID(codec.AppendCode(nil, k)) == v {
							delete(listed, k)
						}
					}
					aobs = "A=" + cidMapWire(listed)
				}
				wm := ""
				for h := g; h != nil && !h.IsPredefined(); h = h.Parent {
					wm += fmt.Sprint(int(h.WMode))
				}
				return fmt.Sprintf("L=%s %s W=%s S=%s", strings.Join(lk, ","), aobs, wm, csrSorted(g.CodeSpaceRange))
			}
			g, err := pdf.Decode(pdf.NewCursor(r), ref, cmap.ExtractToUnicode)
			if err != nil {
				return "ExtractToUnicode: " + err.Error()
			}
			for _, p := range probes {
				if s, ok := g.Lookup(p); ok {
					lk = append(lk, textWire(s))
				} else {
					lk = append(lk, "~")
				}
			}
			return fmt.Sprintf("L=%s A=%s S=%s", strings.Join(lk, ","), tuMapWire(collectTU(g, codec)), csrSorted(g.CodeSpaceRange))
		}()
		fmt.Fprintf(wo, "%s %s\n", id, obs)
	}
}

// code space ranges as a sorted list (the reader sorts them)
func csrSorted(csr charcode.CodeSpaceRange) string {
	var parts []string
	for _, r := range csr {
		parts = append(parts, fmt.Sprintf("%02d:%x:%x", len(r.Low), r.Low, r.High))
	}
	sort.Strings(parts)
	return strings.Join(parts, ";")
}
