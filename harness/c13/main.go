// C13 harness: CMap / ToUnicode mappings survive construction, embedding and
// extraction.
//
// For every generated case it
//
//	(1) runs the property oracle directly on the implementation: every mapped
//	    code looks up to the ORIGINAL value, unmapped probes give the notdef /
//	    absent result, All()/GetMapping() enumerate exactly the map; then
//	    Embed -> close -> reopen -> Extract and the same comparison against the
//	    original map (x writing mode x parent chain x pretty/compressed x version).
//	    Failing inputs go to fails.jsonl;
//	(2) writes cases.txt / impl.obs so that the check can compare the projected
//	    observables (lookup result per probe, collected enumeration sorted by code)
//	    with the extracted Coq model (build/ocaml/C13/driver.exe).
//
// Hand-made files (arbitrary singles/ranges, ranges crossing the last-byte
// boundary, value lists shorter than the range, invalid ranges) tie
// rangeIndex / codesInRange / lookup precedence to the model as well.
package main

import (
	"bytes"
	"fmt"
	"os"
	"sort"
	"strings"
	"unicode/utf8"

	"seehuhn.de/go/pdf"
	"seehuhn.de/go/pdf/font"
	"seehuhn.de/go/pdf/font/charcode"
	"seehuhn.de/go/pdf/font/cmap"
	"seehuhn.de/go/pdf/internal/debug/memfile"
	"seehuhn.de/go/pdf/verifharness/common"
	"seehuhn.de/go/postscript/cid"
)

// ---------------------------------------------------------------------------
// case description

type ndRange struct {
	First, Last []byte
	Value       uint32
}

type cidLevel struct {
	Name   string // CMap name ("" -> Verif-L<i>); may collide with a predefined name
	Data   map[charcode.Code]cid.CID
	NdOne  []ndRange // notdef singles (First == Last, used as Code)
	NdRng  []ndRange
	WMode  int
	HasROS bool
}

// baseFile: a hand-made file (arbitrary singles and ranges: overlapping, wide) or a predefined CMap below the
// levels that SetMapping builds.  Predef: the file is (part of the parent chain of) the predefined object
// itself, referred to by name in the PDF; its lists are only read for the expectations.
type baseFile struct {
	Name      string
	Predef    bool
	WMode     int
	Singles   []rawSingle
	Ranges    []rawRange
	NdSingles []rawSingle
	NdRanges  []rawRange
}

type cidCase struct {
	CSR    charcode.CodeSpaceRange
	Base   []baseFile // root first, below Levels
	Levels []cidLevel // root first
	Probes [][]byte
	Class  string
	NoAll  bool // wide ranges: the enumeration is cut by the budget of All(), only lookups are compared
}

type tuCase struct {
	// TextLegs: compare the text of the embedded stream with the model even when the mapping itself is not
	// replayed in the model (large maps)
	TextLegs bool
	CSR      charcode.CodeSpaceRange
	Levels   []map[charcode.Code]string // root first
	Probes   [][]byte
	Class    string
}

// hand-made structures
type rawRange struct {
	First, Last []byte
	Value       uint32   // CID files
	Values      []string // ToUnicode files
}
type rawSingle struct {
	Code  []byte
	Value uint32
	Text  string
}
type rawCase struct {
	Text    bool
	CSR     charcode.CodeSpaceRange
	Singles []rawSingle
	Ranges  []rawRange
	Probes  [][]byte
	WithAll bool
	// CountOnly: observe only the number of enumerated pairs and the largest code (budget of All)
	CountOnly bool
	Class     string
}

type runner struct {
	e      *common.Env
	nextID int
	embeds int
}

func (t *runner) id() string {
	t.nextID++
	return fmt.Sprintf("k%d", t.nextID)
}

// ---------------------------------------------------------------------------
// wire format

func csrWire(csr charcode.CodeSpaceRange) string {
	var sb strings.Builder
	fmt.Fprintf(&sb, "%d", len(csr))
	for _, r := range csr {
		fmt.Fprintf(&sb, " %s %s", common.Hex(r.Low), common.Hex(r.High))
	}
	return sb.String()
}

func textWire(s string) string {
	if s == "" {
		return "-"
	}
	var parts []string
	for _, r := range s {
		parts = append(parts, fmt.Sprintf("%x", r))
	}
	return strings.Join(parts, ".")
}

func sortedCodes[V any](m map[charcode.Code]V) []charcode.Code {
	keys := make([]charcode.Code, 0, len(m))
	for k := range m {
		keys = append(keys, k)
	}
	sort.Slice(keys, func(i, j int) bool { return keys[i] < keys[j] })
	return keys
}

func probesWire(pp [][]byte) string {
	var sb strings.Builder
	fmt.Fprintf(&sb, "%d", len(pp))
	for _, p := range pp {
		sb.WriteByte(' ')
		sb.WriteString(common.Hex(p))
	}
	return sb.String()
}

func cidMapWire(m map[charcode.Code]cid.CID) string {
	var parts []string
	for _, k := range sortedCodes(m) {
		parts = append(parts, fmt.Sprintf("%d:%d", uint32(k), uint32(m[k])))
	}
	if len(parts) == 0 {
		return "-"
	}
	return strings.Join(parts, ",")
}

func tuMapWire(m map[charcode.Code]string) string {
	var parts []string
	for _, k := range sortedCodes(m) {
		parts = append(parts, fmt.Sprintf("%d:%s", uint32(k), textWire(m[k])))
	}
	if len(parts) == 0 {
		return "-"
	}
	return strings.Join(parts, ",")
}

// ---------------------------------------------------------------------------
// helpers on codes

func inBox(lo, hi, s []byte) bool {
	if len(lo) != len(s) || len(hi) != len(s) {
		return false
	}
	for i := range s {
		if s[i] < lo[i] || s[i] > hi[i] {
			return false
		}
	}
	return true
}

func inCSR(csr charcode.CodeSpaceRange, s []byte) bool {
	for _, r := range csr {
		if inBox(r.Low, r.High, s) {
			return true
		}
	}
	return false
}

func codeOf(s []byte) charcode.Code {
	var c charcode.Code
	for i, b := range s {
		c |= charcode.Code(b) << (8 * i)
	}
	return c
}

// next code of the box in odometer order (last byte fastest); false at the end
func boxNext(r charcode.Range, s []byte) ([]byte, bool) {
	t := bytes.Clone(s)
	for pos := len(t) - 1; pos >= 0; pos-- {
		if t[pos] < r.High[pos] {
			t[pos]++
			return t, true
		}
		t[pos] = r.Low[pos]
	}
	return nil, false
}

// ---------------------------------------------------------------------------
// generators

var edgeBytes = []byte{0x00, 0x01, 0x7E, 0x7F, 0x80, 0xFD, 0xFE, 0xFF}

func (t *runner) byteIn(lo, hi byte) byte {
	r := t.e.Rand
	switch r.IntN(4) {
	case 0:
		return lo
	case 1:
		return hi
	case 2:
		if hi > lo {
			return hi - 1
		}
		return hi
	}
	return lo + byte(r.IntN(int(hi)-int(lo)+1))
}

// random prefix-free range sets: the first byte (and recursively the following
// ones) is partitioned into intervals, each interval either ends a code or has
// sub-ranges one byte longer.
func (t *runner) genCSR() charcode.CodeSpaceRange {
	r := t.e.Rand
	if r.IntN(12) == 0 {
		return leadingZeroCSRs[r.IntN(len(leadingZeroCSRs))]
	}
	switch r.IntN(10) {
	case 0:
		return charcode.Simple
	case 1:
		return charcode.UCS2
	case 2:
		return charcode.UTF8
	case 3:
		return charcode.CodeSpaceRange{{Low: []byte{0}, High: []byte{0x7f}}, {Low: []byte{0x80, 0}, High: []byte{0xff, 0xff}}}
	case 4:
		return charcode.CodeSpaceRange{{Low: []byte{0, 0, 0, 0}, High: []byte{0xff, 0xff, 0xff, 0xff}}}
	}
	var csr charcode.CodeSpaceRange
	var rec func(lo, hi []byte, depth int)
	rec = func(lo, hi []byte, depth int) {
		// cut points
		n := 1 + r.IntN(3)
		cuts := map[int]bool{0: true, 256: true}
		for i := 0; i < n; i++ {
			if r.IntN(2) == 0 {
				cuts[int(edgeBytes[r.IntN(len(edgeBytes))])] = true
			} else {
				cuts[r.IntN(256)] = true
			}
		}
		var cc []int
		for c := range cuts {
			cc = append(cc, c)
		}
		sort.Ints(cc)
		for i := 0; i+1 < len(cc); i++ {
			a, b := byte(cc[i]), byte(cc[i+1]-1)
			l2 := append(bytes.Clone(lo), a)
			h2 := append(bytes.Clone(hi), b)
			switch k := r.IntN(10); {
			case k < 2 && len(cc) > 2:
				// gap
			case k < 6 || depth == 3:
				csr = append(csr, charcode.Range{Low: l2, High: h2})
			default:
				rec(l2, h2, depth+1)
			}
		}
	}
	for len(csr) == 0 {
		rec(nil, nil, 0)
	}
	if len(csr) > 12 {
		csr = csr[:12]
	}
	return csr
}

// runs of codes: consecutive in odometer order inside one range of the code
// space, so that they cross the last-byte boundary; with small gaps now and then
func (t *runner) genRunCodes(csr charcode.CodeSpaceRange, maxLen int) [][]byte {
	r := t.e.Rand
	box := csr[r.IntN(len(csr))]
	s := make([]byte, len(box.Low))
	for i := range s {
		s[i] = t.byteIn(box.Low[i], box.High[i])
	}
	if r.IntN(3) == 0 {
		// start shortly before the end of the last byte's span
		d := byte(r.IntN(4))
		last := len(s) - 1
		if box.High[last]-box.Low[last] >= d {
			s[last] = box.High[last] - d
		}
	}
	n := 1 + r.IntN(maxLen)
	var res [][]byte
	cur := s
	for i := 0; i < n; i++ {
		res = append(res, cur)
		steps := 1
		if r.IntN(12) == 0 {
			steps = 2 + r.IntN(2)
		}
		ok := true
		for j := 0; j < steps && ok; j++ {
			cur, ok = boxNext(box, cur)
		}
		if !ok {
			break
		}
	}
	return res
}

var baseCIDs = []uint32{0, 1, 2, 100, 255, 256, 0xFFFE, 0xFFFF, 0x10000, 0x7FFFFFFE, 0x7FFFFFFF, 0xFFFFFFFD, 0xFFFFFFFE, 0xFFFFFFFF}

func (t *runner) genCIDMap(csr charcode.CodeSpaceRange, runs, maxLen int) map[charcode.Code]cid.CID {
	r := t.e.Rand
	m := map[charcode.Code]cid.CID{}
	for i := 0; i < runs; i++ {
		codes := t.genRunCodes(csr, maxLen)
		var v uint32
		if r.IntN(2) == 0 {
			v = baseCIDs[r.IntN(len(baseCIDs))]
		} else {
			v = uint32(r.IntN(70000))
		}
		for _, c := range codes {
			m[codeOf(c)] = cid.CID(v)
			switch k := r.IntN(16); {
			case k == 0:
				// repeat
			case k == 1:
				v += 2
			case k == 2:
				v--
			default:
				v++
			}
		}
	}
	return m
}

var baseRunes = []rune{'A', 'z', 0x7F, 0xFF, 0x100, 0x7FF, 0x800, 0xD7FC, 0xD7FD, 0xD7FE, 0xD7FF, 0xE000, 0xE001,
	0xFFFB, 0xFFFC, 0xFFFD, 0xFFFE, 0xFFFF, 0x10000, 0x1F600, 0x10FFFC, 0x10FFFD, 0x10FFFE, 0x10FFFF,
	0x0000, 0x0301, 0xFEFD, 0xFEFF, 0xFEFF}

// specialRunes: code points that text decoders like to treat specially (byte order mark and its mirror,
// replacement character, NUL, the ends of the planes and of the surrogate gap, a combining mark)
var specialRunes = []rune{0xFEFF, 0xFFFE, 0xFFFD, 0x0000, 0xD7FF, 0xE000, 0xFFFF, 0x10000, 0x10FFFF, 0x0301}

// textRune: a rune for the first / middle positions of a text value
func (t *runner) textRune() rune {
	r := t.e.Rand
	if r.IntN(3) == 0 {
		return specialRunes[r.IntN(len(specialRunes))]
	}
	return baseRunes[r.IntN(len(baseRunes))]
}

func validRune(x rune) bool { return x >= 0 && (x < 0xD800 || (x >= 0xE000 && x <= 0x10FFFF)) }

func (t *runner) genTUMap(csr charcode.CodeSpaceRange, runs, maxLen int) map[charcode.Code]string {
	r := t.e.Rand
	m := map[charcode.Code]string{}
	for i := 0; i < runs; i++ {
		codes := t.genRunCodes(csr, maxLen)
		var prefix []rune
		for k := r.IntN(4); k > 1; k-- { // 0,0,1,2 runes of prefix
			prefix = append(prefix, t.textRune())
		}
		var last rune
		if r.IntN(3) > 0 {
			last = baseRunes[r.IntN(len(baseRunes))]
		} else {
			last = rune(r.IntN(0x11000))
		}
		empty := r.IntN(25) == 0
		// the way successive values are produced
		mode := r.IntN(5)        // 0,1: +1 skipping to FFFD like nextString pairwise; 2: +1 jumping over the gap; 3: from first; 4: noise
		middle := r.IntN(8) == 0 // now and then an extra rune between the prefix and the last rune
		first := last
		for j, c := range codes {
			x := last
			if !validRune(x) {
				x = 0xFFFD
			}
			s := string(append(append([]rune{}, prefix...), x))
			if middle && j > 0 && r.IntN(3) == 0 {
				s = string(append(append(append([]rune{}, prefix...), t.textRune()), x))
			}
			if empty {
				s = ""
			}
			m[codeOf(c)] = s
			switch mode {
			case 0, 1:
				last = x + 1
			case 2:
				last = x + 1
				if last == 0xD800 {
					last = 0xE000
				}
				if last > 0x10FFFF {
					last = 0
				}
			case 3:
				last = first + rune(j+1)
			default:
				last = x + rune(r.IntN(3))
				if r.IntN(10) == 0 {
					empty = !empty
				}
			}
		}
	}
	return m
}

func (t *runner) genProbes(csr charcode.CodeSpaceRange, mapped [][]byte, extra int) [][]byte {
	r := t.e.Rand
	seen := map[string]bool{}
	var res [][]byte
	add := func(p []byte) {
		if !seen[string(p)] {
			seen[string(p)] = true
			res = append(res, bytes.Clone(p))
		}
	}
	for _, c := range mapped {
		add(c)
	}
	// neighbours of mapped codes
	for _, c := range mapped {
		if r.IntN(3) != 0 || len(c) == 0 {
			continue
		}
		for _, d := range []int{-1, 1} {
			n := bytes.Clone(c)
			n[len(n)-1] = byte(int(n[len(n)-1]) + d)
			add(n)
		}
		if len(c) > 1 && r.IntN(4) == 0 {
			n := bytes.Clone(c)
			n[0]++
			add(n)
			add(c[:len(c)-1])
			add(append(bytes.Clone(c), 0))
		}
	}
	for i := 0; i < extra; i++ {
		box := csr[r.IntN(len(csr))]
		s := make([]byte, len(box.Low))
		for j := range s {
			s[j] = t.byteIn(box.Low[j], box.High[j])
		}
		add(s)
	}
	for i := 0; i < 3; i++ {
		s := make([]byte, r.IntN(5))
		for j := range s {
			s[j] = edgeBytes[r.IntN(len(edgeBytes))]
		}
		add(s)
	}
	return res
}

// ---------------------------------------------------------------------------
// expectations (computed from the ORIGINAL maps only)

func ndLookupLevel(l *cidLevel, c []byte) (uint32, bool) {
	for _, s := range l.NdOne {
		if bytes.Equal(s.First, c) {
			return s.Value, true
		}
	}
	for _, s := range l.NdRng {
		if inBox(s.First, s.Last, c) {
			return s.Value, true
		}
	}
	return 0, false
}

// position of code in the box first..last, last byte fastest (independent of the implementation)
func refRangeIndex(first, last, code []byte) (int64, bool) {
	if len(first) != len(code) || len(last) != len(code) {
		return 0, false
	}
	var acc int64
	for i, b := range code {
		if b < first[i] || b > last[i] {
			return 0, false
		}
		acc = acc*(int64(last[i])-int64(first[i])+1) + int64(b-first[i])
		if acc > 0x7fffffff {
			return 0, false
		}
	}
	return acc, true
}

// what a chain of hand-made files maps c to: child first, singles before ranges, first match
func baseMapped(base []baseFile, c []byte) (uint32, bool) {
	for i := len(base) - 1; i >= 0; i-- {
		for _, s := range base[i].Singles {
			if bytes.Equal(s.Code, c) {
				return s.Value, true
			}
		}
		for _, r := range base[i].Ranges {
			if idx, ok := refRangeIndex(r.First, r.Last, c); ok {
				return r.Value + uint32(idx), true
			}
		}
	}
	return 0, false
}

func baseNotdef(base []baseFile, c []byte) (uint32, bool) {
	for i := len(base) - 1; i >= 0; i-- {
		for _, s := range base[i].NdSingles {
			if bytes.Equal(s.Code, c) {
				return s.Value, true
			}
		}
		for _, r := range base[i].NdRanges {
			if inBox(r.First, r.Last, c) {
				return r.Value, true
			}
		}
	}
	return 0, false
}

// what maps.Collect keeps of the enumeration of the base chain: root first, ranges then singles, last write wins
func (cs *cidCase) baseCollect() map[charcode.Code]cid.CID {
	m := map[charcode.Code]cid.CID{}
	for _, b := range cs.Base {
		for _, r := range b.Ranges {
			if !inBox(r.First, r.Last, r.First) {
				continue
			}
			cur, ok := bytes.Clone(r.First), true
			for i := uint32(0); ok; i++ {
				if inCSR(cs.CSR, cur) {
					m[codeOf(cur)] = cid.CID(r.Value + i)
				}
				cur, ok = boxNext(charcode.Range{Low: r.First, High: r.Last}, cur)
			}
		}
		for _, s := range b.Singles {
			if inCSR(cs.CSR, s.Code) {
				m[codeOf(s.Code)] = cid.CID(s.Value)
			}
		}
	}
	return m
}

// the notdef CID of a code: nearest level (child first) with a matching notdef entry
func (cs *cidCase) wantNotdef(c []byte) uint32 {
	for i := len(cs.Levels) - 1; i >= 0; i-- {
		if v, ok := ndLookupLevel(&cs.Levels[i], c); ok {
			return v
		}
	}
	v, _ := baseNotdef(cs.Base, c)
	return v
}

// listedEntries: which entries may be absent from the enumeration.  SetMapping may leave out an entry
// that a MAPPING of the parent chain already provides with the same CID (never one that only the notdef
// entries answer); the expected LOOKUP results never come from here.
func (cs *cidCase) listedEntries(codec *charcode.Codec) []map[charcode.Code]uint32 {
	var ent []map[charcode.Code]uint32
	for i := range cs.Levels {
		m := map[charcode.Code]uint32{}
		for k, v := range cs.Levels[i].Data {
			if i > 0 || len(cs.Base) > 0 {
				sub := cidCase{CSR: cs.CSR, Base: cs.Base, Levels: cs.Levels[:i]}
				if below, ok := sub.wantMapped(codec.AppendCode(nil, k)); ok && below == uint32(v) {
					continue
				}
			}
			m[k] = uint32(v)
		}
		ent = append(ent, m)
	}
	return ent
}

func isListed(ent []map[charcode.Code]uint32, code charcode.Code) bool {
	for _, m := range ent {
		if _, ok := m[code]; ok {
			return true
		}
	}
	return false
}

func (cs *cidCase) wantMapped(c []byte) (uint32, bool) {
	if !inCSR(cs.CSR, c) {
		return baseMapped(cs.Base, c)
	}
	code := codeOf(c)
	for i := len(cs.Levels) - 1; i >= 0; i-- {
		if v, ok := cs.Levels[i].Data[code]; ok {
			return uint32(v), true
		}
	}
	return baseMapped(cs.Base, c)
}

func (cs *cidCase) wantAll() map[charcode.Code]cid.CID {
	m := cs.baseCollect()
	for _, l := range cs.Levels {
		for k, v := range l.Data {
			m[k] = v
		}
	}
	return m
}

func (cs *tuCase) wantMapped(c []byte) (string, bool) {
	if !inCSR(cs.CSR, c) {
		return "", false
	}
	code := codeOf(c)
	for i := len(cs.Levels) - 1; i >= 0; i-- {
		if v, ok := cs.Levels[i][code]; ok {
			return v, true
		}
	}
	return "", false
}

func (cs *tuCase) wantAll() map[charcode.Code]string {
	m := map[charcode.Code]string{}
	for _, l := range cs.Levels {
		for k, v := range l {
			m[k] = v
		}
	}
	return m
}

// ---------------------------------------------------------------------------
// running the implementation

func guard(what *string, f func()) {
	defer func() {
		if r := recover(); r != nil {
			*what = fmt.Sprint("panic: ", r)
		}
	}()
	f()
}

func toRanges(nd []ndRange) []cmap.Range {
	var res []cmap.Range
	for _, r := range nd {
		res = append(res, cmap.Range{First: r.First, Last: r.Last, Value: cid.CID(r.Value)})
	}
	return res
}

func toSingles(nd []ndRange) []cmap.Single {
	var res []cmap.Single
	for _, r := range nd {
		res = append(res, cmap.Single{Code: r.First, Value: cid.CID(r.Value)})
	}
	return res
}

func toCIDSingles(ss []rawSingle) []cmap.Single {
	var res []cmap.Single
	for _, s := range ss {
		res = append(res, cmap.Single{Code: s.Code, Value: cid.CID(s.Value)})
	}
	return res
}

func toCIDRanges(rr []rawRange) []cmap.Range {
	var res []cmap.Range
	for _, r := range rr {
		res = append(res, cmap.Range{First: r.First, Last: r.Last, Value: cid.CID(r.Value)})
	}
	return res
}

func (cs *cidCase) build(codec *charcode.Codec) *cmap.File {
	var f *cmap.File
	for i, b := range cs.Base {
		if b.Predef {
			// only the topmost predefined file is referred to; its parents come with it
			if i+1 == len(cs.Base) || !cs.Base[i+1].Predef {
				p, err := cmap.Predefined(b.Name)
				if err != nil {
					panic(err)
				}
				f = p
			}
			continue
		}
		f = &cmap.File{
			Name:           b.Name,
			ROS:            &cid.SystemInfo{Registry: "Verif", Ordering: fmt.Sprintf("B%d", i)},
			WMode:          font.WritingMode(b.WMode),
			CodeSpaceRange: cs.CSR,
			CIDSingles:     toCIDSingles(b.Singles),
			CIDRanges:      toCIDRanges(b.Ranges),
			NotdefSingles:  toCIDSingles(b.NdSingles),
			NotdefRanges:   toCIDRanges(b.NdRanges),
			Parent:         f,
		}
	}
	for i := range cs.Levels {
		l := &cs.Levels[i]
		name := l.Name
		if name == "" {
			name = fmt.Sprintf("Verif-L%d", i)
		}
		g := &cmap.File{
			Name:          name,
			WMode:         font.WritingMode(l.WMode),
			NotdefSingles: toSingles(l.NdOne),
			NotdefRanges:  toRanges(l.NdRng),
			Parent:        f,
		}
		if l.HasROS {
			g.ROS = &cid.SystemInfo{Registry: "Verif", Ordering: fmt.Sprintf("O%d", i), Supplement: int32(i)}
		}
		g.SetMapping(codec, l.Data)
		f = g
	}
	return f
}

func collectCID(f *cmap.File, codec *charcode.Codec) map[charcode.Code]cid.CID {
	m := map[charcode.Code]cid.CID{}
	for k, v := range f.All(codec) {
		m[k] = v
	}
	return m
}

func collectTU(f *cmap.ToUnicodeFile, codec *charcode.Codec) map[charcode.Code]string {
	m := map[charcode.Code]string{}
	for k, v := range f.All(codec) {
		m[k] = v
	}
	return m
}

func diffCID(got, want map[charcode.Code]cid.CID, mayOmit func(charcode.Code) bool) string {
	for _, k := range sortedCodes(want) {
		g, ok := got[k]
		if !ok {
			if mayOmit != nil && mayOmit(k) {
				continue
			}
			return fmt.Sprintf("code %#x missing (want %d)", uint32(k), want[k])
		}
		if g != want[k] {
			return fmt.Sprintf("code %#x: got %d want %d", uint32(k), g, want[k])
		}
	}
	for _, k := range sortedCodes(got) {
		if _, ok := want[k]; !ok {
			return fmt.Sprintf("extra code %#x -> %d", uint32(k), got[k])
		}
	}
	return ""
}

func diffTU(got, want map[charcode.Code]string) string {
	for _, k := range sortedCodes(want) {
		g, ok := got[k]
		if !ok {
			return fmt.Sprintf("code %#x missing (want %q)", uint32(k), want[k])
		}
		if g != want[k] {
			return fmt.Sprintf("code %#x: got %q want %q", uint32(k), g, want[k])
		}
	}
	for _, k := range sortedCodes(got) {
		if _, ok := want[k]; !ok {
			return fmt.Sprintf("extra code %#x -> %q", uint32(k), got[k])
		}
	}
	return ""
}

// same set of codes, judged on the probes and by charcode's own comparison
func sameCodeSpace(a, b charcode.CodeSpaceRange, probes [][]byte) string {
	for _, p := range probes {
		if inCSR(a, p) != inCSR(b, p) {
			return fmt.Sprintf("code <%x>: in original=%v in extracted=%v", p, inCSR(a, p), inCSR(b, p))
		}
	}
	if !a.Equivalent(b) {
		return "CodeSpaceRange.Equivalent reports a difference"
	}
	return ""
}

func (cs *cidCase) describe() map[string]any {
	var lv []any
	for _, l := range cs.Levels {
		lv = append(lv, map[string]any{"map": cidMapWire(l.Data), "notdef_singles": fmt.Sprint(l.NdOne), "notdef_ranges": fmt.Sprint(l.NdRng), "wmode": l.WMode})
	}
	var bs []any
	for _, b := range cs.Base {
		if b.Predef {
			bs = append(bs, "predefined "+b.Name)
		} else {
			bs = append(bs, map[string]any{"name": b.Name, "singles": baseSinglesWire(b.Singles), "ranges": baseRangesWire(b.Ranges)})
		}
	}
	return map[string]any{"kind": "cid", "csr": csrWire(cs.CSR), "handmade_parents_root_first": bs, "levels_root_first": lv, "class": cs.Class}
}

func baseSinglesWire(ss []rawSingle) string {
	var sb strings.Builder
	fmt.Fprintf(&sb, "%d", len(ss))
	for _, x := range ss {
		fmt.Fprintf(&sb, " %s %d", common.Hex(x.Code), x.Value)
	}
	return sb.String()
}

func baseRangesWire(rr []rawRange) string {
	var sb strings.Builder
	fmt.Fprintf(&sb, "%d", len(rr))
	for _, x := range rr {
		fmt.Fprintf(&sb, " %s %s %d", common.Hex(x.First), common.Hex(x.Last), x.Value)
	}
	return sb.String()
}

func (cs *tuCase) describe() map[string]any {
	var lv []any
	for _, l := range cs.Levels {
		lv = append(lv, tuMapWire(l))
	}
	return map[string]any{"kind": "tounicode", "csr": csrWire(cs.CSR), "levels_root_first": lv, "class": cs.Class}
}

func with(m map[string]any, kv ...any) map[string]any {
	res := map[string]any{}
	for k, v := range m {
		res[k] = v
	}
	for i := 0; i+1 < len(kv); i += 2 {
		res[kv[i].(string)] = kv[i+1]
	}
	return res
}

// checkCIDFile compares a File (freshly built or extracted) with the original maps.
func (t *runner) checkCIDFile(cs *cidCase, f *cmap.File, codec *charcode.Codec, stage string, desc map[string]any) {
	e := t.e
	ent := cs.listedEntries(codec)
	for _, p := range cs.Probes {
		got := uint32(f.LookupCID(p))
		if want, ok := cs.wantMapped(p); ok {
			if got != want {
				e.Fail("cid-lookup-"+stage, fmt.Sprintf("LookupCID(<%x>) = %d, the map says %d (%s)", p, got, want, stage),
					with(desc, "code", common.Hex(p), "got", got, "want", want))
				return
			}
			continue
		}
		// unmapped: the notdef entries of the file itself apply first, then those of its parents
		want := cs.wantNotdef(p)
		if got != want {
			e.Fail("cid-unmapped-"+stage, fmt.Sprintf("LookupCID(<%x>) = %d for an unmapped code, notdef result is %d (%s)", p, got, want, stage),
				with(desc, "code", common.Hex(p), "got", got, "want", want))
			return
		}
		if nd := uint32(f.LookupNotdefCID(p)); nd != want {
			e.Fail("cid-notdef-"+stage, fmt.Sprintf("LookupNotdefCID(<%x>) = %d, want %d (%s)", p, nd, want, stage),
				with(desc, "code", common.Hex(p), "got", nd, "want", want))
			return
		}
	}
	// SetMapping leaves out what the parent already answers; for a code the parent chain does
	// not map that answer is the notdef CID, so such an entry may be absent from the enumeration
	// (lookup is unaffected: it was checked above for every mapped code)
	if cs.NoAll {
		return
	}
	wantAll := cs.wantAll()
	mayOmit := func(k charcode.Code) bool { return !isListed(ent, k) }
	if len(cs.Base) > 0 {
		// below hand-made parents (whose entries may overlap: first match for lookup, last write in the
		// enumeration) an omitted entry leaves what the parents enumerate for its code
		wantAll = cs.baseCollect()
		for _, m := range ent {
			for k, v := range m {
				wantAll[k] = cid.CID(v)
			}
		}
		mayOmit = nil
	}
	if d := diffCID(collectCID(f, codec), wantAll, mayOmit); d != "" {
		e.Fail("cid-all-"+stage, "All() differs from the map: "+d+" ("+stage+")", desc)
	}
}

func (t *runner) checkTUFile(cs *tuCase, f *cmap.ToUnicodeFile, codec *charcode.Codec, stage string, desc map[string]any) {
	e := t.e
	for _, p := range cs.Probes {
		got, ok := f.Lookup(p)
		want, wok := cs.wantMapped(p)
		if ok != wok || got != want {
			sig := "tounicode-lookup-" + stage
			if !wok {
				sig = "tounicode-unmapped-" + stage
			}
			e.Fail(sig, fmt.Sprintf("Lookup(<%x>) = %q,%v, the map says %q,%v (%s)", p, got, ok, want, wok, stage),
				with(desc, "code", common.Hex(p), "got", textWire(got), "want", textWire(want)))
			return
		}
	}
	if d := diffTU(collectTU(f, codec), cs.wantAll()); d != "" {
		e.Fail("tounicode-all-"+stage, "All() differs from the map: "+d+" ("+stage+")", desc)
		return
	}
	gm, err := f.GetMapping()
	if err != nil {
		e.Fail("tounicode-getmapping-"+stage, "GetMapping fails: "+err.Error(), desc)
		return
	}
	if d := diffTU(gm, cs.wantAll()); d != "" {
		e.Fail("tounicode-getmapping-"+stage, "GetMapping() differs from the map: "+d+" ("+stage+")", desc)
	}
}

type outCfg struct {
	Version pdf.Version
	Pretty  bool
}

var outCfgs = []outCfg{{pdf.V2_0, false}, {pdf.V1_7, true}, {pdf.V1_4, false}, {pdf.V2_0, true}, {pdf.V1_2, true}, {pdf.V1_5, false}}

// embedExtract writes the object to a PDF file in memory, reopens the file and
// hands the reference to `extract`.
func embedExtract(cfg outCfg, emb pdf.Embedder, extract func(r *pdf.Reader, ref pdf.Object) error) (res string) {
	guard(&res, func() {
		w, mf := memfile.NewPDFWriter(cfg.Version, &pdf.WriterOptions{HumanReadable: cfg.Pretty})
		rm := pdf.NewResourceManager(w)
		ref, err := rm.Embed(emb)
		if err != nil {
			res = "Embed: " + err.Error()
			return
		}
		if err = rm.Close(); err != nil {
			res = "ResourceManager.Close: " + err.Error()
			return
		}
		if err = w.Close(); err != nil {
			res = "Writer.Close: " + err.Error()
			return
		}
		r, err := pdf.NewReader(mf, int64(len(mf.Data)), nil)
		if err != nil {
			res = "NewReader: " + err.Error()
			return
		}
		if err = extract(r, ref); err != nil {
			res = "Extract: " + err.Error()
		}
	})
	return res
}

func (t *runner) runCID(cs *cidCase, withModel bool) {
	e := t.e
	desc := cs.describe()
	codec, err := charcode.NewCodec(cs.CSR)
	if err != nil {
		e.Count(false, "", "csr-rejected")
		return
	}
	total := 0
	for _, l := range cs.Levels {
		total += len(l.Data)
	}
	e.Count(total > 1, "C|"+csrWire(cs.CSR)+"|"+fmt.Sprint(desc["handmade_parents_root_first"])+fmt.Sprint(desc["levels_root_first"]), "cid/"+cs.Class+fmt.Sprintf("/parents=%d/levels=%d", len(cs.Base), len(cs.Levels)))

	var f *cmap.File
	var perr string
	guard(&perr, func() { f = cs.build(codec) })
	if perr != "" {
		e.Fail("cid-setmapping-panic", "SetMapping: "+perr, desc)
		return
	}
	if d := sameCodeSpace(cs.CSR, f.CodeSpaceRange, cs.Probes); d != "" {
		e.Fail("cid-codespace-built", "SetMapping stores a different code space: "+d, desc)
	}
	guard(&perr, func() { t.checkCIDFile(cs, f, codec, "built", desc) })
	if perr != "" {
		e.Fail("cid-panic", perr, desc)
		return
	}

	caseID := ""
	if withModel {
		id := t.id()
		doText := !e.Thorough || t.nextID%3 == 0 // the text legs for a third of the cases in the thorough tier
		if doText {
			caseID = id
		}
		var sb strings.Builder
		all := 1
		if cs.NoAll {
			all = 0
		}
		fmt.Fprintf(&sb, "%s C %s %d %d", id, csrWire(cs.CSR), all, len(cs.Base))
		for _, b := range cs.Base {
			fmt.Fprintf(&sb, " %s %s %s %s", baseSinglesWire(b.Singles), baseRangesWire(b.Ranges), baseSinglesWire(b.NdSingles), baseRangesWire(b.NdRanges))
		}
		fmt.Fprintf(&sb, " %d", len(cs.Levels))
		for _, l := range cs.Levels {
			fmt.Fprintf(&sb, " %s %d", cidMapWire(l.Data), len(l.NdOne))
			for _, s := range l.NdOne {
				fmt.Fprintf(&sb, " %s %d", common.Hex(s.First), s.Value)
			}
			fmt.Fprintf(&sb, " %d", len(l.NdRng))
			for _, s := range l.NdRng {
				fmt.Fprintf(&sb, " %s %s %d", common.Hex(s.First), common.Hex(s.Last), s.Value)
			}
		}
		fmt.Fprintf(&sb, " %s", probesWire(cs.Probes))
		e.Line("cases.txt", "%s", sb.String())
		var lk []string
		for _, p := range cs.Probes {
			lk = append(lk, fmt.Sprint(uint32(f.LookupCID(p))))
		}
		// projection: an entry whose CID is the notdef result of its code may or may not be listed
		aobs := "A=skipped"
		if !cs.NoAll {
			listed := collectCID(f, codec)
			for k, v := range listed {
				if f.LookupNotdefCID(codec.AppendCode(nil, k)) == v {
					delete(listed, k)
				}
			}
			aobs = "A=" + cidMapWire(listed)
		}
		e.Line("impl.obs", "%s L=%s %s", id, strings.Join(lk, ","), aobs)
		wm := ""
		streams, predef := 0, "-"
		for h := f; h != nil; h = h.Parent {
			if h.IsPredefined() {
				predef = h.Name
				break
			}
			wm += fmt.Sprint(int(h.WMode))
			streams++
		}
		if doText {
			t.expectB(id, "C", cs.CSR, streams, predef, cs.Probes,
				fmt.Sprintf("L=%s %s W=%s S=%s", strings.Join(lk, ","), aobs, wm, csrSorted(f.CodeSpaceRange)))
		}
		e.Sample(3, fmt.Sprintf("cid csr=[%s] levels=%v -> singles=%d ranges=%d", csrWire(cs.CSR), desc["levels_root_first"], len(f.CIDSingles), len(f.CIDRanges)))
	}

	// embed -> reopen -> extract
	cfg := outCfgs[t.embeds%len(outCfgs)]
	t.embeds++
	stage := "extracted"
	d2 := with(desc, "version", cfg.Version.String(), "pretty", cfg.Pretty)
	msg := embedExtract(cfg, f, func(r *pdf.Reader, ref pdf.Object) error {
		g, err := pdf.Decode(pdf.NewCursor(r), ref, cmap.Extract)
		if err != nil {
			return err
		}
		// the chain must have the same shape
		depth := 0
		for h := g; h != nil; h = h.Parent {
			depth++
		}
		want := 0
		for o := f; o != nil; o = o.Parent {
			want++
		}
		if depth != want {
			e.Fail("cid-parent-chain-"+stage, fmt.Sprintf("extracted chain has %d files, embedded %d", depth, want), d2)
			return nil
		}
		for h, o := g, f; o != nil; h, o = h.Parent, o.Parent {
			if d := sameCodeSpace(o.CodeSpaceRange, h.CodeSpaceRange, cs.Probes); d != "" {
				e.Fail("cid-codespace-"+stage, "code space changed: "+d, d2)
				return nil
			}
			if h.WMode != o.WMode {
				e.Fail("cid-wmode-"+stage, fmt.Sprintf("WMode %d became %d", o.WMode, h.WMode), d2)
				return nil
			}
			if o.IsPredefined() != h.IsPredefined() {
				e.Fail("cid-parent-chain-"+stage, fmt.Sprintf("file %q: predefined object before embedding: %v, after extraction: %v", o.Name, o.IsPredefined(), h.IsPredefined()), d2)
				return nil
			}
		}
		codec2, err := g.Codec()
		if err != nil {
			e.Fail("cid-codespace-"+stage, "extracted code space rejected: "+err.Error(), d2)
			return nil
		}
		t.checkCIDFile(cs, g, codec2, stage, d2)
		if caseID != "" {
			t.textLegsCID(caseID, f, g, r, ref, d2)
		}
		return nil
	})
	if msg != "" {
		e.Fail("cid-embed-extract", msg, d2)
	}
}

func (t *runner) runTU(cs *tuCase, withModel bool) {
	e := t.e
	desc := cs.describe()
	codec, err := charcode.NewCodec(cs.CSR)
	if err != nil {
		e.Count(false, "", "csr-rejected")
		return
	}
	total := 0
	for _, l := range cs.Levels {
		total += len(l)
	}
	e.Count(total > 1, "T|"+csrWire(cs.CSR)+"|"+fmt.Sprint(desc["levels_root_first"]), "tounicode/"+cs.Class+fmt.Sprintf("/levels=%d", len(cs.Levels)))

	var f *cmap.ToUnicodeFile
	var perr string
	guard(&perr, func() {
		for _, l := range cs.Levels {
			g, err := cmap.NewToUnicodeFile(cs.CSR, l)
			if err != nil {
				perr = "NewToUnicodeFile: " + err.Error()
				return
			}
			g.Parent = f
			f = g
		}
	})
	if perr != "" {
		e.Fail("tounicode-new", perr, desc)
		return
	}
	guard(&perr, func() { t.checkTUFile(cs, f, codec, "built", desc) })
	if perr != "" {
		e.Fail("tounicode-panic", perr, desc)
		return
	}

	caseID := ""
	if withModel {
		id := t.id()
		doText := !e.Thorough || t.nextID%3 == 0 // the text legs for a third of the cases in the thorough tier
		if doText {
			caseID = id
		}
		var sb strings.Builder
		fmt.Fprintf(&sb, "%s T %s %d", id, csrWire(cs.CSR), len(cs.Levels))
		for _, l := range cs.Levels {
			fmt.Fprintf(&sb, " %s", tuMapWire(l))
		}
		fmt.Fprintf(&sb, " %s", probesWire(cs.Probes))
		e.Line("cases.txt", "%s", sb.String())
		var lk []string
		for _, p := range cs.Probes {
			if s, ok := f.Lookup(p); ok {
				lk = append(lk, textWire(s))
			} else {
				lk = append(lk, "~")
			}
		}
		gm, _ := f.GetMapping()
		e.Line("impl.obs", "%s L=%s A=%s G=%s", id, strings.Join(lk, ","), tuMapWire(collectTU(f, codec)), tuMapWire(gm))
		if doText {
			t.expectB(id, "T", cs.CSR, len(cs.Levels), "-", cs.Probes,
				fmt.Sprintf("L=%s A=%s S=%s", strings.Join(lk, ","), tuMapWire(collectTU(f, codec)), csrSorted(f.CodeSpaceRange)))
		}
		e.Sample(6, fmt.Sprintf("tounicode csr=[%s] levels=%v -> singles=%d ranges=%d", csrWire(cs.CSR), desc["levels_root_first"], len(f.Singles), len(f.Ranges)))
	} else if cs.TextLegs {
		caseID = t.id()
	}

	cfg := outCfgs[t.embeds%len(outCfgs)]
	t.embeds++
	stage := "extracted"
	d2 := with(desc, "version", cfg.Version.String(), "pretty", cfg.Pretty)
	msg := embedExtract(cfg, f, func(r *pdf.Reader, ref pdf.Object) error {
		g, err := pdf.Decode(pdf.NewCursor(r), ref, cmap.ExtractToUnicode)
		if err != nil {
			if caseID != "" {
				// the model's reader must refuse the same text
				if data, _, e2 := streamText(r, ref); e2 == nil {
					if ts, e3 := tokenize(data); e3 == nil {
						e.Line("cases.txt", "%s.r0 RT %s", caseID, tokWire(ts))
						e.Line("impl.obs", "%s.r0 none", caseID)
					}
				}
			}
			return err
		}
		if g == nil {
			e.Fail("tounicode-embed-extract", "ExtractToUnicode returned nil", d2)
			return nil
		}
		depth := 0
		for h := g; h != nil; h = h.Parent {
			depth++
			if d := sameCodeSpace(cs.CSR, h.CodeSpaceRange, cs.Probes); d != "" {
				e.Fail("tounicode-codespace-"+stage, "code space changed: "+d, d2)
				return nil
			}
		}
		if depth != len(cs.Levels) {
			e.Fail("tounicode-parent-chain-"+stage, fmt.Sprintf("extracted chain has %d files, embedded %d", depth, len(cs.Levels)), d2)
			return nil
		}
		t.checkTUFile(cs, g, codec, stage, d2)
		if caseID != "" {
			t.textLegsTU(caseID, f, g, r, ref, d2)
		}
		return nil
	})
	if msg != "" {
		e.Fail("tounicode-embed-extract", msg, d2)
	}
}

// hand-made structures: correspondence with the model only (plus "no panic")
func (t *runner) runRaw(rc *rawCase) {
	e := t.e
	codec, err := charcode.NewCodec(rc.CSR)
	if err != nil {
		e.Count(false, "", "csr-rejected")
		return
	}
	id := t.id()
	var sb strings.Builder
	kind := "F"
	if rc.Text {
		kind = "U"
	}
	all := 0
	if rc.WithAll {
		all = 1
	}
	if rc.CountOnly {
		all = 2
	}
	fmt.Fprintf(&sb, "%s %s %s %d %d", id, kind, csrWire(rc.CSR), all, len(rc.Singles))
	for _, s := range rc.Singles {
		if rc.Text {
			fmt.Fprintf(&sb, " %s %s", common.Hex(s.Code), textWire(s.Text))
		} else {
			fmt.Fprintf(&sb, " %s %d", common.Hex(s.Code), s.Value)
		}
	}
	fmt.Fprintf(&sb, " %d", len(rc.Ranges))
	for _, r := range rc.Ranges {
		if rc.Text {
			fmt.Fprintf(&sb, " %s %s %d", common.Hex(r.First), common.Hex(r.Last), len(r.Values))
			for _, v := range r.Values {
				fmt.Fprintf(&sb, " %s", textWire(v))
			}
		} else {
			fmt.Fprintf(&sb, " %s %s %d", common.Hex(r.First), common.Hex(r.Last), r.Value)
		}
	}
	fmt.Fprintf(&sb, " %s", probesWire(rc.Probes))
	e.Count(len(rc.Ranges) > 0, sb.String(), "handmade/"+rc.Class)
	var perr string
	var obs string
	guard(&perr, func() {
		var lk []string
		if rc.Text {
			f := &cmap.ToUnicodeFile{CodeSpaceRange: rc.CSR}
			for _, s := range rc.Singles {
				f.Singles = append(f.Singles, cmap.ToUnicodeSingle{Code: s.Code, Value: s.Text})
			}
			for _, r := range rc.Ranges {
				f.Ranges = append(f.Ranges, cmap.ToUnicodeRange{First: r.First, Last: r.Last, Values: r.Values})
			}
			for _, p := range rc.Probes {
				if s, ok := f.Lookup(p); ok {
					lk = append(lk, textWire(s))
				} else {
					lk = append(lk, "~")
				}
			}
			obs = "L=" + strings.Join(lk, ",")
			if rc.CountOnly {
				n, top := 0, charcode.Code(0)
				for k := range f.All(codec) {
					n++
					top = max(top, k)
				}
				obs += fmt.Sprintf(" N=%d K=%d", n, uint32(top))
			}
			if rc.WithAll {
				obs += " A=" + tuMapWire(collectTU(f, codec))
				// the property itself: enumeration and lookup agree wherever entries do not overlap
				seen := map[charcode.Code]int{}
				for k := range f.All(codec) {
					seen[k]++
				}
				for k, v := range f.All(codec) {
					if seen[k] > 1 {
						continue
					}
					b := codec.AppendCode(nil, k)
					if got, ok := f.Lookup(b); !ok || got != v {
						e.Fail("all-vs-lookup-tounicode", fmt.Sprintf("All() yields <%x> -> %q, Lookup gives %q,%v (no other entry for this code)", b, v, got, ok), sb.String())
						break
					}
				}
				for _, p := range rc.Probes {
					if _, ok := f.Lookup(p); ok && inCSR(rc.CSR, p) && seen[codeOf(p)] == 0 {
						e.Fail("all-vs-lookup-tounicode", fmt.Sprintf("Lookup finds <%x>, All() does not enumerate it", p), sb.String())
						break
					}
				}
			}
		} else {
			f := &cmap.File{CodeSpaceRange: rc.CSR}
			for _, s := range rc.Singles {
				f.CIDSingles = append(f.CIDSingles, cmap.Single{Code: s.Code, Value: cid.CID(s.Value)})
			}
			for _, r := range rc.Ranges {
				f.CIDRanges = append(f.CIDRanges, cmap.Range{First: r.First, Last: r.Last, Value: cid.CID(r.Value)})
			}
			for _, p := range rc.Probes {
				lk = append(lk, fmt.Sprint(uint32(f.LookupCID(p))))
			}
			obs = "L=" + strings.Join(lk, ",")
			if rc.CountOnly {
				n, top := 0, charcode.Code(0)
				for k := range f.All(codec) {
					n++
					top = max(top, k)
				}
				obs += fmt.Sprintf(" N=%d K=%d", n, uint32(top))
			}
			if rc.WithAll {
				obs += " A=" + cidMapWire(collectCID(f, codec))
				seen := map[charcode.Code]int{}
				for k := range f.All(codec) {
					seen[k]++
				}
				for k, v := range f.All(codec) {
					if seen[k] > 1 {
						continue
					}
					b := codec.AppendCode(nil, k)
					if got := f.LookupCID(b); got != v {
						e.Fail("all-vs-lookup-cid", fmt.Sprintf("All() yields <%x> -> %d, LookupCID gives %d (no other entry for this code)", b, v, got), sb.String())
						break
					}
				}
				for _, p := range rc.Probes {
					if got := f.LookupCID(p); got != 0 && inCSR(rc.CSR, p) && seen[codeOf(p)] == 0 {
						e.Fail("all-vs-lookup-cid", fmt.Sprintf("LookupCID(<%x>) = %d, All() does not enumerate the code", p, got), sb.String())
						break
					}
				}
			}
		}
	})
	if perr != "" {
		e.Fail("handmade-panic", perr, sb.String())
		return
	}
	e.Line("cases.txt", "%s", sb.String())
	e.Line("impl.obs", "%s %s", id, obs)
}

func (t *runner) genRaw(text bool) *rawCase {
	r := t.e.Rand
	rc := &rawCase{Text: text, WithAll: true, Class: "small"}
	rc.CSR = t.genCSR()
	var mapped [][]byte
	size := 0
	nr := 1 + r.IntN(3)
	for i := 0; i < nr; i++ {
		box := rc.CSR[r.IntN(len(rc.CSR))]
		n := len(box.Low)
		first := make([]byte, n)
		last := make([]byte, n)
		cnt := 1
		for j := 0; j < n; j++ {
			a := t.byteIn(box.Low[j], box.High[j])
			span := 0
			if j == n-1 {
				span = r.IntN(6)
			} else if r.IntN(3) == 0 {
				span = r.IntN(3)
			}
			b := int(a) + span
			if b > 255 {
				b = 255
			}
			first[j], last[j] = a, byte(b)
			cnt *= b - int(a) + 1
		}
		switch r.IntN(12) {
		case 0: // invalid: one byte reversed
			j := r.IntN(n)
			if first[j] < 255 {
				last[j], first[j] = first[j], first[j]+1
				cnt = 0
			}
		case 1: // lengths disagree
			last = append(last, 0)
			cnt = 0
		}
		size += cnt
		rr := rawRange{First: first, Last: last, Value: baseCIDs[r.IntN(len(baseCIDs))]}
		if text {
			nv := 1
			switch r.IntN(4) {
			case 0:
				nv = cnt
			case 1:
				nv = r.IntN(cnt + 2)
			}
			for k := 0; k < nv; k++ {
				rr.Values = append(rr.Values, string([]rune{t.textRune(), baseRunes[r.IntN(len(baseRunes))]}[r.IntN(2):]))
			}
		}
		rc.Ranges = append(rc.Ranges, rr)
		mapped = append(mapped, first, last)
		if cnt > 0 && len(first) == len(last) {
			c := bytes.Clone(first)
			for k := 0; k < 6; k++ {
				j := r.IntN(n)
				c[j] = t.byteIn(first[j], last[j])
				mapped = append(mapped, bytes.Clone(c))
			}
		}
	}
	ns := r.IntN(4)
	for i := 0; i < ns; i++ {
		var c []byte
		if len(mapped) > 0 && r.IntN(2) == 0 {
			c = bytes.Clone(mapped[r.IntN(len(mapped))]) // overlaps a range
		} else {
			box := rc.CSR[r.IntN(len(rc.CSR))]
			c = make([]byte, len(box.Low))
			for j := range c {
				c[j] = t.byteIn(box.Low[j], box.High[j])
			}
		}
		rc.Singles = append(rc.Singles, rawSingle{Code: c, Value: uint32(r.IntN(1000)), Text: string(baseRunes[r.IntN(len(baseRunes))])})
		mapped = append(mapped, c)
	}
	rc.Probes = t.genProbes(rc.CSR, mapped, 4)
	if size > 3000 {
		rc.WithAll = false
	}
	return rc
}

// wide ranges: lookups only (MaxInt32 cap of rangeIndex)
func (t *runner) wideRaw(text bool) *rawCase {
	r := t.e.Rand
	full := charcode.CodeSpaceRange{{Low: []byte{0, 0, 0, 0}, High: []byte{0xff, 0xff, 0xff, 0xff}}}
	rc := &rawCase{Text: text, CSR: full, Class: "wide"}
	first := []byte{0, 0, 0, 0}
	last := []byte{byte(0x7e + r.IntN(3)), 0xff, 0xff, 0xff}
	if r.IntN(2) == 0 {
		last = []byte{0xff, 0xff, 0xff, byte(0x7e + r.IntN(3))}
	}
	rr := rawRange{First: first, Last: last, Value: baseCIDs[r.IntN(len(baseCIDs))], Values: []string{string(baseRunes[r.IntN(len(baseRunes))])}}
	rc.Ranges = []rawRange{rr, {First: first, Last: []byte{0xff, 0xff, 0xff, 0xff}, Value: 5, Values: []string{"q"}}}
	for _, p := range [][]byte{{0, 0, 0, 0}, {0x7f, 0xff, 0xff, 0xff}, {0x80, 0, 0, 0}, {0x7f, 0xff, 0xff, 0xfe}, {0x80, 0, 0, 1}, {0x7e, 0xff, 0xff, 0xff},
		{0xff, 0xff, 0xff, 0xff}, {0xff, 0xff, 0xff, 0x7f}, {0xff, 0xff, 0xff, 0x7e}, {0, 0, 1, 0}, {1, 0, 0, 0}, {0, 0, 0}} {
		rc.Probes = append(rc.Probes, p)
	}
	for i := 0; i < 6; i++ {
		rc.Probes = append(rc.Probes, []byte{byte(r.IntN(256)), byte(r.IntN(256)), byte(r.IntN(256)), byte(r.IntN(256))})
	}
	return rc
}

func (t *runner) genCIDCase(class string) *cidCase {
	r := t.e.Rand
	cs := &cidCase{CSR: t.genCSR(), Class: class}
	levels := 1
	switch r.IntN(6) {
	case 0, 1:
		levels = 2
	case 2:
		levels = 3
	}
	runs, maxLen := 1+r.IntN(5), 24
	switch class {
	case "long":
		runs, maxLen = 2+r.IntN(3), 300
	case "many":
		runs, maxLen = 130+r.IntN(40), 3
	}
	var mapped [][]byte
	codec, err := charcode.NewCodec(cs.CSR)
	if err != nil {
		return cs
	}
	for i := 0; i < levels; i++ {
		l := cidLevel{Data: t.genCIDMap(cs.CSR, runs, maxLen), WMode: r.IntN(2), HasROS: true}
		if i > 0 && r.IntN(12) == 0 {
			l.Data = map[charcode.Code]cid.CID{} // a level that maps nothing itself
		} else if i > 0 && len(cs.Levels[i-1].Data) > 0 {
			// repeat part of the parent (right in the parent: omitted; changed: overriding)
			for k, v := range cs.Levels[i-1].Data {
				switch r.IntN(4) {
				case 0:
					l.Data[k] = v
				case 1:
					l.Data[k] = v + 1
				}
			}
		}
		if (i == 0 && r.IntN(2) == 0) || (i > 0 && r.IntN(4) == 0) {
			box := cs.CSR[r.IntN(len(cs.CSR))]
			l.NdRng = append(l.NdRng, ndRange{First: box.Low, Last: box.High, Value: uint32(1 + r.IntN(50))})
			if r.IntN(2) == 0 {
				c := make([]byte, len(box.Low))
				for j := range c {
					c[j] = t.byteIn(box.Low[j], box.High[j])
				}
				l.NdOne = append(l.NdOne, ndRange{First: c, Last: c, Value: uint32(60 + r.IntN(9))})
				mapped = append(mapped, c)
			}
		}
		if i > 0 && (len(l.NdRng) > 0 || r.IntN(3) == 0) {
			// entries whose CID equals the notdef answer of the chain below (they must be kept: the
			// notdef entries of this or of a later level may answer differently)
			sub := cidCase{CSR: cs.CSR, Levels: cs.Levels}
			for k := 0; k < 1+r.IntN(4); k++ {
				box := cs.CSR[r.IntN(len(cs.CSR))]
				if len(l.NdRng) > 0 && r.IntN(2) == 0 {
					box = charcode.Range{Low: l.NdRng[0].First, High: l.NdRng[0].Last}
				}
				c := make([]byte, len(box.Low))
				for j := range c {
					c[j] = t.byteIn(box.Low[j], box.High[j])
				}
				if _, ok := sub.wantMapped(c); ok || !inCSR(cs.CSR, c) {
					continue
				}
				l.Data[codeOf(c)] = cid.CID(sub.wantNotdef(c))
			}
		}
		for _, k := range sortedCodes(l.Data) {
			mapped = append(mapped, codec.AppendCode(nil, k))
		}
		cs.Levels = append(cs.Levels, l)
	}
	cs.Probes = t.genProbes(cs.CSR, mapped, 6)
	return cs
}

func (t *runner) genTUCase(class string) *tuCase {
	r := t.e.Rand
	cs := &tuCase{CSR: t.genCSR(), Class: class}
	levels := 1
	switch r.IntN(6) {
	case 0:
		levels = 2
	case 1:
		levels = 3
	}
	runs, maxLen := 1+r.IntN(5), 24
	switch class {
	case "long":
		runs, maxLen = 2+r.IntN(3), 300
	case "many":
		runs, maxLen = 130+r.IntN(40), 3
	}
	codec, err := charcode.NewCodec(cs.CSR)
	if err != nil {
		return cs
	}
	var mapped [][]byte
	for i := 0; i < levels; i++ {
		l := t.genTUMap(cs.CSR, runs, maxLen)
		if i > 0 && r.IntN(10) == 0 {
			l = map[charcode.Code]string{} // a level that maps nothing itself: everything comes from the parent
		} else if i > 0 {
			for k, v := range cs.Levels[i-1] {
				switch r.IntN(4) {
				case 0:
					l[k] = v
				case 1:
					l[k] = v + "x"
				}
			}
		}
		for _, k := range sortedCodes(l) {
			mapped = append(mapped, codec.AppendCode(nil, k))
		}
		cs.Levels = append(cs.Levels, l)
	}
	cs.Probes = t.genProbes(cs.CSR, mapped, 6)
	return cs
}

// irregular text for the codes [row, 0..n-1]: no two neighbours are successors, so the run needs a value list
func listRow(m map[charcode.Code]string, row, n int) {
	for lo := 0; lo < n; lo++ {
		m[charcode.Code(row)|charcode.Code(lo)<<8] = string(rune(0x4E00 + (row*131+lo*7)%20000))
	}
}

func simpleProbes(lo, hi int) [][]byte {
	var res [][]byte
	for i := lo; i <= hi; i++ {
		res = append(res, []byte{byte(i)})
	}
	return res
}

func (t *runner) corpus() {
	// F13: run compression through the surrogate gap / past U+10FFFF
	for _, m := range []map[charcode.Code]string{
		{0x41: "\uD7FF", 0x42: "\uFFFD", 0x43: "\uFFFE"},
		{0x41: "\U0010FFFE", 0x42: "\U0010FFFF", 0x43: "\uFFFD", 0x44: "\uFFFE"},
		{0x41: "ab\uD7FE", 0x42: "ab\uD7FF", 0x43: "ab\uFFFD", 0x44: "ab\uFFFE", 0x45: "ab\uFFFF"},
		{0x41: "\uD7FF", 0x42: "\uE000", 0x43: "\uE001"},
		{0x41: "\uD7FF", 0x42: "", 0x43: ""},
		{0x41: "\uD7FF", 0x42: "\uFFFD", 0x43: "\uFFFD"},
		{0x41: "", 0x42: "", 0x43: "x", 0x44: ""},
		{0xFE: "a", 0xFF: "b", 0x00: "c"},
		// special code points at the first / middle / last position, in bfchar, bfrange base and bfrange lists
		{0x41: "\uFEFFa", 0x42: "\uFEFFb", 0x43: "\uFEFFc", 0x50: "\uFEFF", 0x52: "x\uFEFFy", 0x54: "\uFEFF\uFEFF"},
		{0x41: "\uFEFFx", 0x42: "q", 0x43: "\uFEFF\u0301", 0x44: "\uFFFE\uFEFF", 0x45: "a\uFEFF"},
		{0x41: "\x00a", 0x42: "\x00b", 0x43: "\x00c", 0x50: "\x00", 0x51: "\x01", 0x60: "a\x00b"},
		{0x41: "\uFFFEa", 0x42: "\uFFFEb", 0x50: "\uFFFD\uFFFD", 0x51: "\uFFFD\uFFFE", 0x52: "\uFFFD\uFFFF", 0x53: "\uFFFD\U00010000"},
		{0x41: "\uD7FFz", 0x42: "\uE000z", 0x43: "\uFFFFz", 0x44: "\U00010000z", 0x45: "\U0010FFFFz", 0x46: "e\u0301", 0x47: "\u0301"},
		{0x41: "\uFEFD", 0x42: "\uFEFE", 0x43: "\uFEFF", 0x44: "\uFF00", 0x50: "\U0010FFFF\uFEFE", 0x51: "\U0010FFFF\uFEFF"},
		// same first runes and consecutive last runes, but something else in between
		{0x41: "ab", 0x42: "aXc", 0x43: "ad"},
		{0x41: "b", 0x42: "Xc", 0x43: "d", 0x44: "e"},
		{0x41: "pqb", 0x42: "pc", 0x43: "pqd"},
		{0x41: "\U0001F600x", 0x42: "\U0001F600\U0001F600y", 0x43: "\U0001F600z"},
	} {
		t.runTU(&tuCase{CSR: charcode.Simple, Levels: []map[charcode.Code]string{m}, Probes: simpleProbes(0x3f, 0x46), Class: "corpus"}, true)
	}
	// F48: bfrange blocks with long value lists must be read back (the interpreter keeps the operands of a block
	// on a stack of 500): 99 short ranges followed by one with 200 / 201 / 256 values, and 82 rows of 256 values
	{
		m := map[charcode.Code]string{}
		for row := 0; row < 82; row++ {
			listRow(m, row, 256)
		}
		t.runTU(&tuCase{CSR: charcode.UCS2, Levels: []map[charcode.Code]string{m}, TextLegs: true,
			Probes: [][]byte{{0, 0}, {0, 255}, {40, 7}, {80, 255}, {81, 0}, {81, 255}, {82, 0}, {255, 255}}, Class: "long-lists"}, false)
	}
	for _, n := range []int{200, 201, 256} {
		m := map[charcode.Code]string{}
		for row := 0; row < 99; row++ {
			listRow(m, row, 2)
		}
		listRow(m, 99, n)
		listRow(m, 100, 3)
		t.runTU(&tuCase{CSR: charcode.UCS2, Levels: []map[charcode.Code]string{m},
			Probes: [][]byte{{0, 0}, {0, 1}, {0, 2}, {98, 1}, {99, 0}, {99, 199}, {99, 200}, {99, 201}, {100, 0}, {100, 2}, {100, 3}}, Class: "long-lists"}, true)
	}
	// a file without mappings of its own over a parent (and an empty level in the middle of a chain)
	t.runTU(&tuCase{CSR: charcode.Simple, Levels: []map[charcode.Code]string{{0x41: "a", 0x42: "b", 0x50: "x"}, {}},
		Probes: simpleProbes(0x40, 0x51), Class: "empty-level"}, true)
	t.runTU(&tuCase{CSR: charcode.Simple, Levels: []map[charcode.Code]string{{0x41: "a", 0x42: "b"}, {}, {0x42: "c", 0x60: "y"}},
		Probes: simpleProbes(0x40, 0x61), Class: "empty-level"}, true)
	t.runCID(&cidCase{CSR: charcode.Simple, Levels: []cidLevel{
		{Data: map[charcode.Code]cid.CID{0x41: 1, 0x42: 2}, HasROS: true, NdRng: []ndRange{{First: []byte{0}, Last: []byte{0xff}, Value: 9}}},
		{Data: map[charcode.Code]cid.CID{}, HasROS: true}},
		Probes: simpleProbes(0x40, 0x44), Class: "empty-level"}, true)
	// <41> and <0042>, <FF> and <0100>: numeric neighbours of different lengths with consecutive values
	lz := leadingZeroCSRs[0]
	t.runCID(&cidCase{CSR: lz, Levels: []cidLevel{{Data: map[charcode.Code]cid.CID{0x41: 5, 0x4200: 6, 0x4300: 7, 0xff: 9, 0x0001: 10}, HasROS: true}},
		Probes: [][]byte{{0x41}, {0, 0x42}, {0, 0x43}, {0xff}, {1, 0}, {0, 0x41}, {0x42}, {0, 0xff}, {1, 1}}, Class: "leading-zero-codes"}, true)
	t.runTU(&tuCase{CSR: lz, Levels: []map[charcode.Code]string{{0x41: "a", 0x4200: "b", 0x4300: "c", 0xff: "x", 0x0001: "y"}},
		Probes: [][]byte{{0x41}, {0, 0x42}, {0, 0x43}, {0xff}, {1, 0}, {0, 0x41}, {0x42}, {0, 0xff}, {1, 1}}, Class: "leading-zero-codes"}, true)
	// two-byte codes, run over the last-byte boundary
	t.runTU(&tuCase{CSR: charcode.UCS2, Levels: []map[charcode.Code]string{{0xFE01: "a", 0xFF01: "b", 0x0002: "c", 0x0102: "d"}},
		Probes: [][]byte{{1, 0xfe}, {1, 0xff}, {2, 0}, {2, 1}, {2, 2}, {1, 0xfd}, {1}, {}}, Class: "corpus"}, true)
	// CID values wrapping around 2^32, runs ending at FF, parent chains with entries right in the parent
	t.runCID(&cidCase{CSR: charcode.Simple, Levels: []cidLevel{{Data: map[charcode.Code]cid.CID{0x41: 0xFFFFFFFE, 0x42: 0xFFFFFFFF, 0x43: 0, 0x44: 1, 0xFE: 7, 0xFF: 8, 0x00: 9}, HasROS: true}},
		Probes: append(simpleProbes(0x40, 0x45), []byte{0xfd}, []byte{0xfe}, []byte{0xff}, []byte{0}, []byte{1}), Class: "corpus"}, true)
	t.runCID(&cidCase{CSR: charcode.UCS2, Levels: []cidLevel{
		{Data: map[charcode.Code]cid.CID{0xFE01: 10, 0xFF01: 11, 0x0002: 12, 0x0102: 13}, HasROS: true, NdRng: []ndRange{{First: []byte{0, 0}, Last: []byte{0xff, 0xff}, Value: 3}}},
		{Data: map[charcode.Code]cid.CID{0xFE01: 10, 0xFF01: 12, 0x0302: 99}, HasROS: true, WMode: 1}},
		Probes: [][]byte{{1, 0xfe}, {1, 0xff}, {2, 0}, {2, 1}, {2, 2}, {2, 3}, {1, 0xfd}, {1}, {}}, Class: "corpus"}, true)
	// hand-made: ranges crossing the last-byte boundary
	t.runRaw(&rawCase{CSR: charcode.UCS2, WithAll: true, Class: "corpus",
		Ranges: []rawRange{{First: []byte{0x01, 0xFE}, Last: []byte{0x03, 0xFF}, Value: 100}},
		Probes: [][]byte{{1, 0xfe}, {1, 0xff}, {2, 0xfe}, {2, 0xff}, {3, 0xfe}, {3, 0xff}, {2, 0}, {4, 0xfe}, {0, 0xfe}, {1, 0xfd}}})
	t.runRaw(&rawCase{Text: true, CSR: charcode.UCS2, WithAll: true, Class: "corpus",
		Ranges: []rawRange{{First: []byte{0x01, 0xFE}, Last: []byte{0x03, 0xFF}, Values: []string{"\uD7FD"}},
			{First: []byte{0x10, 0x00}, Last: []byte{0x10, 0x05}, Values: []string{"a", "b", "c"}},
			{First: []byte{0x20, 0x00}, Last: []byte{0x20, 0x05}, Values: nil}},
		Singles: []rawSingle{{Code: []byte{2, 0xfe}, Text: "S"}},
		Probes:  [][]byte{{1, 0xfe}, {1, 0xff}, {2, 0xfe}, {2, 0xff}, {3, 0xfe}, {3, 0xff}, {0x10, 0}, {0x10, 2}, {0x10, 3}, {0x10, 5}, {0x20, 1}}})
}

// the finding: notdef entries of a file that has a parent are not consulted by LookupCID
func (t *runner) childNotdef() {
	r := t.e.Rand
	lo := byte(0x20 + r.IntN(0x20))
	nd := uint32(1 + r.IntN(9))
	// F31: the notdef entries of a file that has a parent apply to its unmapped codes
	cs := &cidCase{CSR: charcode.Simple, Class: "child-notdef"}
	cs.Levels = []cidLevel{
		{Data: map[charcode.Code]cid.CID{0x41: 1, 0x42: 2}, HasROS: true},
		{Data: map[charcode.Code]cid.CID{0x50: 9}, HasROS: true, NdRng: []ndRange{{First: []byte{lo}, Last: []byte{lo + 0x40}, Value: nd}}},
	}
	cs.Probes = [][]byte{{0x41}, {0x50}, {lo}, {lo + 0x40}, {lo + 0x41}, {lo - 1}}
	t.runCID(cs, true)
	// three levels: notdef of the middle and of the root, the nearest one wins
	cs = &cidCase{CSR: charcode.Simple, Class: "child-notdef"}
	cs.Levels = []cidLevel{
		{Data: map[charcode.Code]cid.CID{0x41: 1}, HasROS: true, NdRng: []ndRange{{First: []byte{0}, Last: []byte{0xff}, Value: 40}}},
		{Data: map[charcode.Code]cid.CID{0x50: 9}, HasROS: true, NdRng: []ndRange{{First: []byte{lo}, Last: []byte{lo + 0x40}, Value: nd}},
			NdOne: []ndRange{{First: []byte{lo + 1}, Last: []byte{lo + 1}, Value: 77}}},
		{Data: map[charcode.Code]cid.CID{0x51: 10}, HasROS: true, WMode: 1},
	}
	cs.Probes = [][]byte{{0x41}, {0x50}, {0x51}, {lo}, {lo + 1}, {lo + 0x40}, {lo + 0x41}, {lo - 1}, {0xff}}
	t.runCID(cs, true)
	// a notdef range over more than MaxInt32 codes (LookupNotdefCID must not go through rangeIndex)
	full := charcode.CodeSpaceRange{{Low: []byte{0, 0, 0, 0}, High: []byte{0xff, 0xff, 0xff, 0xff}}}
	cs = &cidCase{CSR: full, Class: "wide-notdef"}
	cs.Levels = []cidLevel{
		{Data: map[charcode.Code]cid.CID{0x04030201: 1}, HasROS: true, NdRng: []ndRange{{First: []byte{0, 0, 0, 0}, Last: []byte{0xff, 0xff, 0xff, 0xff}, Value: 5}}},
		{Data: map[charcode.Code]cid.CID{0x04030202: 2}, HasROS: true, NdRng: []ndRange{{First: []byte{0x80, 0, 0, 0}, Last: []byte{0xff, 0xff, 0xff, 0xff}, Value: 6}}},
	}
	cs.Probes = [][]byte{{1, 2, 3, 4}, {2, 2, 3, 4}, {0, 0, 0, 0}, {0x7f, 0xff, 0xff, 0xff}, {0x80, 0, 0, 0}, {0x80, 0, 0, 1}, {0xff, 0xff, 0xff, 0xff}, {0xc0, 1, 2, 3}}
	t.runCID(cs, true)
	// F34: 50 -> 0 must be kept although the parent answers 0 for <50> (from notdef, not from a mapping):
	// the file's own notdef range would otherwise answer with its CID
	cs = &cidCase{CSR: charcode.Simple, Class: "shadowed-omission"}
	cs.Levels = []cidLevel{
		{Data: map[charcode.Code]cid.CID{0x41: 1}, HasROS: true},
		{Data: map[charcode.Code]cid.CID{0x41: 1, 0x50: 0, 0x51: 9}, HasROS: true, NdRng: []ndRange{{First: []byte{lo}, Last: []byte{lo + 0x40}, Value: nd}}},
	}
	cs.Probes = [][]byte{{0x41}, {0x50}, {0x51}, {lo}, {lo - 1}}
	t.runCID(cs, true)
	// three levels: the entry of the middle level equals the root's notdef answer, the top level has notdef
	// entries of its own and does not map the code
	cs = &cidCase{CSR: charcode.Simple, Class: "shadowed-omission"}
	cs.Levels = []cidLevel{
		{Data: map[charcode.Code]cid.CID{0x41: 1}, HasROS: true, NdRng: []ndRange{{First: []byte{0}, Last: []byte{0xff}, Value: 40}}},
		{Data: map[charcode.Code]cid.CID{0x50: 40, 0x52: 0, 0x41: 1}, HasROS: true},
		{Data: map[charcode.Code]cid.CID{0x51: 9, 0x53: 40}, HasROS: true, NdRng: []ndRange{{First: []byte{lo}, Last: []byte{lo + 0x40}, Value: nd}},
			NdOne: []ndRange{{First: []byte{0x53}, Last: []byte{0x53}, Value: 70}}},
	}
	cs.Probes = [][]byte{{0x41}, {0x50}, {0x51}, {0x52}, {0x53}, {lo}, {lo - 1}, {0xf0}}
	t.runCID(cs, true)
}

func main() {
	if os.Getenv("C13_PHASE") == "2" {
		dir := "."
		if len(os.Args) > 2 && os.Args[1] == "-dir" {
			dir = os.Args[2]
		}
		phaseTwo(dir)
		return
	}
	e := common.New(13)
	t := &runner{e: e}
	_ = utf8.RuneError

	t.corpus()
	t.childNotdef()

	n := e.Pick(2500, 70000)
	for i := 0; i < n; i++ {
		class := "runs"
		switch {
		case i%50 == 7:
			class = "long"
		case i%100 == 13:
			class = "many"
		}
		withModel := class == "runs" || i%200 == 7 || i%400 == 13
		t.runCID(t.genCIDCase(class), withModel)
		t.runTU(t.genTUCase(class), withModel)
	}
	// mixed-length code spaces whose longer codes start with zero bytes; values that run on across the lengths
	n = e.Pick(300, 6000)
	for i := 0; i < n; i++ {
		if cs := t.genMixedCID(); cs != nil {
			t.runCID(cs, true)
		}
		if cs := t.genMixedTU(); cs != nil {
			t.runTU(cs, true)
		}
	}
	// parent chains that SetMapping did not build: hand-made (overlapping, wide), predefined names, predefined objects
	n = e.Pick(400, 6000)
	for i := 0; i < n; i++ {
		kind := i % 4
		if kind == 3 && i%5 != 3 { // the predefined objects are large: fewer of them
			kind = 0
		}
		if cs := t.genParentCase(kind); cs != nil {
			t.runCID(cs, true)
		}
	}
	n = e.Pick(3000, 100000)
	for i := 0; i < n; i++ {
		t.runRaw(t.genRaw(i%2 == 0))
	}
	for i := 0; i < 20; i++ {
		t.runRaw(t.wideRaw(i%2 == 0))
	}
	// the budget of All() (thorough tier only: the model needs 10 s per case): a range of 17*65536 codes
	// followed by a single; only MaxCMapMappings pairs come out
	three := charcode.CodeSpaceRange{{Low: []byte{0, 0, 0}, High: []byte{0xff, 0xff, 0xff}}}
	for _, text := range []bool{false, true}[:e.Pick(0, 2)] {
		t.runRaw(&rawCase{Text: text, CSR: three, CountOnly: true, Class: "budget",
			Ranges:  []rawRange{{First: []byte{0, 0, 0}, Last: []byte{0x10, 0xff, 0xff}, Value: 5, Values: []string{"a"}}},
			Singles: []rawSingle{{Code: []byte{0x20, 0, 0}, Value: 7, Text: "s"}},
			Probes:  [][]byte{{0, 0, 0}, {0x0f, 0xff, 0xff}, {0x10, 0, 0}, {0x10, 0xff, 0xff}, {0x11, 0, 0}, {0x20, 0, 0}}})
	}

	e.Finish("code space: Simple, UCS2, UTF8, mixed 1/2-byte, full 4-byte and random prefix-free range sets of 1..4-byte codes; "+
		"maps code->CID and code->text made of runs of consecutive codes (odometer order inside a range, so runs cross the last-byte boundary; "+
		"gaps, repeated and skipped values; CIDs around 2^16, 2^31 and 2^32; text with 0..2 runes of prefix and a last rune around "+
		"D7FF/E000/FFFD/FFFE/FFFF/10000/10FFFF, empty strings); 1..3 levels of parent chain (entries repeated from the parent, changed or new), "+
		"notdef ranges/singles on the root; probes: every mapped code, neighbours, random codes of the code space, strings of other lengths; "+
		"each case is built, looked up, enumerated, embedded (6 version/pretty combinations in rotation, WMode 0/1), reopened, extracted and compared with the original map; "+
		"hand-made files with ranges over several bytes tie rangeIndex/codesInRange/precedence to the model; "+
		"non-trivial = at least two mapped codes (hand-made: at least one range), distinct by full case text", nil)
}
