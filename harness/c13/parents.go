// Parent chains below the files SetMapping builds: hand-made parents (overlapping and wide ranges,
// redirects and re-redirects), custom files that carry the NAME of a predefined CMap, and the predefined
// objects themselves (referred to by name in the PDF).
package main

import (
	"bytes"
	"fmt"
	"sort"

	"seehuhn.de/go/pdf/font/charcode"
	"seehuhn.de/go/pdf/font/cmap"
	"seehuhn.de/go/postscript/cid"
)

var predefNames = []string{"Identity-H", "Identity-V", "GB-EUC-H", "GB-EUC-V", "90ms-RKSJ-H", "90ms-RKSJ-V", "UniJIS-UTF16-H", "UniGB-UCS2-H", "B5pc-H", "KSC-EUC-V"}

func codeIn(t *runner, box charcode.Range) []byte {
	c := make([]byte, len(box.Low))
	for j := range c {
		c[j] = t.byteIn(box.Low[j], box.High[j])
	}
	return c
}

// a hand-made file over csr: a few ranges (sorted by first code, distinct first codes, so that reading
// the file back keeps their order) that may overlap, and singles on distinct codes
func (t *runner) genBaseFile(csr charcode.CodeSpaceRange, name string, overlap bool) baseFile {
	r := t.e.Rand
	b := baseFile{Name: name, WMode: r.IntN(2)}
	nr := 1 + r.IntN(4)
	seenFirst := map[string]bool{}
	for i := 0; i < nr; i++ {
		box := csr[r.IntN(len(csr))]
		n := len(box.Low)
		var first, last []byte
		if overlap && len(b.Ranges) > 0 && r.IntN(2) == 0 {
			// inside or across an earlier range of the same length
			prev := b.Ranges[r.IntN(len(b.Ranges))]
			if len(prev.First) == n {
				first, last = bytes.Clone(prev.First), bytes.Clone(prev.Last)
				j := n - 1
				if span := int(last[j]) - int(first[j]); span > 1 {
					first[j] += byte(1 + r.IntN(span))
					if r.IntN(2) == 0 && last[j] < 250 {
						last[j] += byte(r.IntN(5))
					}
				}
			}
		}
		if first == nil {
			first, last = make([]byte, n), make([]byte, n)
			for j := 0; j < n; j++ {
				a := t.byteIn(box.Low[j], box.High[j])
				span := 0
				if j == n-1 {
					span = r.IntN(40)
				} else if r.IntN(3) == 0 {
					span = r.IntN(3)
				}
				hi := int(a) + span
				if hi > int(box.High[j]) {
					hi = int(box.High[j])
				}
				first[j], last[j] = a, byte(hi)
			}
		}
		if seenFirst[string(first)] {
			continue
		}
		seenFirst[string(first)] = true
		b.Ranges = append(b.Ranges, rawRange{First: first, Last: last, Value: uint32(r.IntN(5000))})
	}
	sort.Slice(b.Ranges, func(i, j int) bool { return bytes.Compare(b.Ranges[i].First, b.Ranges[j].First) < 0 })
	seen := map[string]bool{}
	for i := r.IntN(4); i > 0; i-- {
		var c []byte
		if len(b.Ranges) > 0 && r.IntN(2) == 0 {
			rr := b.Ranges[r.IntN(len(b.Ranges))]
			c = codeIn(t, charcode.Range{Low: rr.First, High: rr.Last})
		} else {
			c = codeIn(t, csr[r.IntN(len(csr))])
		}
		if !seen[string(c)] {
			seen[string(c)] = true
			b.Singles = append(b.Singles, rawSingle{Code: c, Value: uint32(6000 + r.IntN(1000))})
		}
	}
	sort.Slice(b.Singles, func(i, j int) bool { return bytes.Compare(b.Singles[i].Code, b.Singles[j].Code) < 0 })
	return b
}

// every value some entry of the chain gives to c (first match, last match, ancestors): candidates for
// "the map sends the code back to a value found elsewhere in the chain"
func chainValues(base []baseFile, c []byte) []uint32 {
	var res []uint32
	for _, b := range base {
		for _, s := range b.Singles {
			if bytes.Equal(s.Code, c) {
				res = append(res, s.Value)
			}
		}
		for _, rg := range b.Ranges {
			if idx, ok := refRangeIndex(rg.First, rg.Last, c); ok {
				res = append(res, rg.Value+uint32(idx))
			}
		}
	}
	return res
}

func baseSize(base []baseFile) int {
	n := 0
	for _, b := range base {
		n += len(b.Singles)
		for _, rg := range b.Ranges {
			k := 1
			for j := range rg.First {
				if j < len(rg.Last) && rg.Last[j] >= rg.First[j] {
					k *= int(rg.Last[j]) - int(rg.First[j]) + 1
				}
				if k > 1<<22 {
					return k
				}
			}
			n += k
		}
	}
	return n
}

// SetMapping levels on top of a base chain: redundant entries, redirects, values taken from elsewhere in the
// chain (last match of overlapping ranges, ancestors), new codes
func (t *runner) addLevels(cs *cidCase, levels int, names []string) {
	r := t.e.Rand
	var mapped [][]byte
	// codes the base chain covers
	var covered [][]byte
	for _, b := range cs.Base {
		for _, s := range b.Singles {
			covered = append(covered, s.Code)
		}
		for _, rg := range b.Ranges {
			if !inBox(rg.First, rg.Last, rg.First) {
				continue
			}
			box := charcode.Range{Low: rg.First, High: rg.Last}
			covered = append(covered, rg.First, rg.Last)
			for k := 0; k < 4; k++ {
				covered = append(covered, codeIn(t, box))
			}
		}
	}
	if len(covered) > 60 {
		r.Shuffle(len(covered), func(i, j int) { covered[i], covered[j] = covered[j], covered[i] })
		covered = covered[:60]
	}
	for i := 0; i < levels; i++ {
		l := cidLevel{Data: map[charcode.Code]cid.CID{}, WMode: r.IntN(2), HasROS: true}
		if i < len(names) {
			l.Name = names[i]
		}
		sub := cidCase{CSR: cs.CSR, Base: cs.Base, Levels: cs.Levels}
		for _, c := range covered {
			if !inCSR(cs.CSR, c) {
				continue
			}
			cur, ok := sub.wantMapped(c)
			vals := chainValues(cs.Base, c)
			for _, lv := range cs.Levels {
				if v, ok := lv.Data[codeOf(c)]; ok {
					vals = append(vals, uint32(v))
				}
			}
			switch k := r.IntN(6); {
			case k == 0 && ok:
				l.Data[codeOf(c)] = cid.CID(cur) // what the chain says anyway
			case k == 1:
				l.Data[codeOf(c)] = cid.CID(cur + 1 + uint32(r.IntN(3))) // redirect
			case k <= 3 && len(vals) > 0:
				l.Data[codeOf(c)] = cid.CID(vals[r.IntN(len(vals))]) // a value from elsewhere in the chain
			case k == 4:
				l.Data[codeOf(c)] = 0
			}
		}
		for k, v := range t.genCIDMap(cs.CSR, 1+r.IntN(2), 12) {
			if _, ok := l.Data[k]; !ok {
				l.Data[k] = v
			}
		}
		codec, err := charcode.NewCodec(cs.CSR)
		if err != nil {
			return
		}
		for _, k := range sortedCodes(l.Data) {
			mapped = append(mapped, codec.AppendCode(nil, k))
		}
		cs.Levels = append(cs.Levels, l)
	}
	mapped = append(mapped, covered...)
	cs.Probes = t.genProbes(cs.CSR, mapped, 6)
}

func (t *runner) genParentCase(kind int) *cidCase {
	r := t.e.Rand
	switch kind {
	case 0: // hand-made parents with overlapping ranges
		csrs := []charcode.CodeSpaceRange{charcode.Simple, charcode.UCS2,
			{{Low: []byte{0}, High: []byte{0x7f}}, {Low: []byte{0x80, 0}, High: []byte{0xff, 0xff}}},
			leadingZeroCSRs[0], leadingZeroCSRs[2]}
		cs := &cidCase{CSR: csrs[r.IntN(len(csrs))], Class: "handmade-parents"}
		for i := r.IntN(3); i >= 0; i-- {
			cs.Base = append(cs.Base, t.genBaseFile(cs.CSR, fmt.Sprintf("Verif-B%d", len(cs.Base)), true))
		}
		cs.NoAll = baseSize(cs.Base) > 4000
		t.addLevels(cs, 1+r.IntN(3), nil)
		return cs
	case 1: // wide ranges: more codes than All() enumerates (limits.MaxCMapMappings)
		cs := &cidCase{Class: "wide-parents", NoAll: true}
		if r.IntN(3) == 0 {
			cs.CSR = charcode.CodeSpaceRange{{Low: []byte{0, 0, 0, 0}, High: []byte{0xff, 0xff, 0xff, 0xff}}}
			cs.Base = append(cs.Base, baseFile{Name: "Verif-Wide4", Ranges: []rawRange{{First: []byte{0, 0, 0, 0}, Last: []byte{0, byte(0x20 + r.IntN(0x40)), 0xff, 0xff}, Value: uint32(r.IntN(100))}}})
		} else {
			cs.CSR = charcode.CodeSpaceRange{{Low: []byte{0, 0, 0}, High: []byte{0x10, 0xff, 0xff}}}
			cs.Base = append(cs.Base, baseFile{Name: "Verif-Wide3", Ranges: []rawRange{{First: []byte{0, 0, 0}, Last: []byte{0x10, 0xff, 0xff}, Value: uint32(r.IntN(2))}}})
		}
		n := len(cs.CSR[0].Low)
		// a hand-made or a SetMapping level in the middle redirects a few codes, early and late in the range
		mid := baseFile{Name: "Verif-Mid"}
		seen := map[string]bool{}
		for k := 0; k < 2+r.IntN(4); k++ {
			c := make([]byte, n)
			c[n-1] = byte(0x40 + r.IntN(8))
			if r.IntN(3) == 0 {
				c[n-2] = byte(r.IntN(256))
				c[n-3] = byte(r.IntN(int(cs.Base[0].Ranges[0].Last[n-3]) + 1))
			}
			if !seen[string(c)] {
				seen[string(c)] = true
				mid.Singles = append(mid.Singles, rawSingle{Code: c, Value: uint32(7 + r.IntN(100))})
			}
		}
		sort.Slice(mid.Singles, func(i, j int) bool { return bytes.Compare(mid.Singles[i].Code, mid.Singles[j].Code) < 0 })
		if r.IntN(2) == 0 {
			cs.Base = append(cs.Base, mid)
			t.addLevels(cs, 1+r.IntN(2), nil)
		} else {
			// the redirect is itself made by SetMapping
			l := cidLevel{Data: map[charcode.Code]cid.CID{}, HasROS: true}
			for _, s := range mid.Singles {
				l.Data[codeOf(s.Code)] = cid.CID(s.Value)
			}
			cs.Levels = append(cs.Levels, l)
			base := cs.Base
			// let addLevels see the redirected codes as covered
			cs.Base = append(append([]baseFile{}, base...), baseFile{Singles: mid.Singles})
			lv := cs.Levels
			cs.Levels = nil
			tmp := &cidCase{CSR: cs.CSR, Base: cs.Base, NoAll: true}
			t.addLevels(tmp, 1+r.IntN(2), nil)
			// rebuild: the map levels of tmp sit on top of the SetMapping redirect level
			cs.Base = base
			cs.Levels = append(lv, tmp.Levels...)
			cs.Probes = tmp.Probes
		}
		for _, p := range [][]byte{cs.Base[0].Ranges[0].Last, cs.Base[0].Ranges[0].First} {
			cs.Probes = append(cs.Probes, p)
		}
		return cs
	case 2: // custom files that carry the name of a predefined CMap: a parent, or the file itself
		csrs := []charcode.CodeSpaceRange{charcode.Simple, charcode.UCS2}
		cs := &cidCase{CSR: csrs[r.IntN(len(csrs))], Class: "predefined-name-collision"}
		name := predefNames[r.IntN(len(predefNames))]
		var names []string
		switch r.IntN(3) {
		case 0: // hand-made parent with the predefined name
			cs.Base = append(cs.Base, t.genBaseFile(cs.CSR, name, false))
		case 1: // SetMapping-built parent with the predefined name
			names = []string{name}
		default: // the top file itself
			names = []string{"", name}
			if r.IntN(2) == 0 {
				cs.Base = append(cs.Base, t.genBaseFile(cs.CSR, predefNames[r.IntN(len(predefNames))], false))
			}
		}
		cs.NoAll = baseSize(cs.Base) > 4000
		t.addLevels(cs, 2, names)
		return cs
	default: // the predefined object itself as root of the chain (by name in the PDF)
		name := predefNames[r.IntN(len(predefNames))]
		p, err := cmap.Predefined(name)
		if err != nil {
			return nil
		}
		cs := &cidCase{Class: "predefined-parent", NoAll: true}
		var chain []*cmap.File
		for h := p; h != nil; h = h.Parent {
			chain = append(chain, h)
		}
		for i := len(chain) - 1; i >= 0; i-- {
			h := chain[i]
			b := baseFile{Name: h.Name, Predef: true, WMode: int(h.WMode)}
			for _, s := range h.CIDSingles {
				b.Singles = append(b.Singles, rawSingle{Code: s.Code, Value: uint32(s.Value)})
			}
			for _, rg := range h.CIDRanges {
				b.Ranges = append(b.Ranges, rawRange{First: rg.First, Last: rg.Last, Value: uint32(rg.Value)})
			}
			for _, s := range h.NotdefSingles {
				b.NdSingles = append(b.NdSingles, rawSingle{Code: s.Code, Value: uint32(s.Value)})
			}
			for _, rg := range h.NotdefRanges {
				b.NdRanges = append(b.NdRanges, rawRange{First: rg.First, Last: rg.Last, Value: uint32(rg.Value)})
			}
			cs.Base = append(cs.Base, b)
			if len(cs.CSR) == 0 || i == 0 {
				cs.CSR = h.CodeSpaceRange
			}
		}
		// the code space of the whole chain, as File.Codec() sees it
		if codec, err := p.Codec(); err == nil {
			cs.CSR = codec.CodeSpaceRange()
		}
		t.addLevels(cs, 1+r.IntN(2), nil)
		return cs
	}
}
