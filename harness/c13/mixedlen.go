// Mixed-length code spaces whose longer codes may start with zero bytes: codes of different lengths coincide
// numerically (<41>, <0041>, <000041>) or are numeric neighbours (<41>,<0042>; <FF>,<0100>; <00FF>,<000100>),
// and maps whose values run on across the lengths.
package main

import (
	"seehuhn.de/go/pdf/font/charcode"
	"seehuhn.de/go/postscript/cid"
)

func rg(lo, hi []byte) charcode.Range { return charcode.Range{Low: lo, High: hi} }

var leadingZeroCSRs = []charcode.CodeSpaceRange{
	{rg([]byte{0x20}, []byte{0xff}), rg([]byte{0, 0}, []byte{0x1f, 0xff})},
	{rg([]byte{0x01}, []byte{0xff}), rg([]byte{0, 0, 0}, []byte{0, 0xff, 0xff})},
	{rg([]byte{0x80}, []byte{0xff}), rg([]byte{0x01, 0}, []byte{0x7f, 0xff}), rg([]byte{0, 0, 0}, []byte{0, 0xff, 0xff})},
	{rg([]byte{0x01, 0}, []byte{0xff, 0xff}), rg([]byte{0, 0, 0, 0}, []byte{0, 0xff, 0xff, 0xff})},
	{rg([]byte{0x10}, []byte{0xff}), rg([]byte{0x01, 0}, []byte{0x0f, 0xff}), rg([]byte{0, 0x01, 0}, []byte{0, 0xff, 0xff}), rg([]byte{0, 0, 0, 0}, []byte{0, 0, 0xff, 0xff})},
}

// all codes of the code space whose bytes, read as a big-endian number, give v
func codesWithValue(csr charcode.CodeSpaceRange, v uint32) [][]byte {
	var res [][]byte
	for n := 1; n <= 4; n++ {
		if n < 4 && v>>(8*uint(n)) != 0 {
			continue
		}
		c := make([]byte, n)
		for i := 0; i < n; i++ {
			c[n-1-i] = byte(v >> (8 * uint(i)))
		}
		if inCSR(csr, c) {
			res = append(res, c)
		}
	}
	return res
}

// runs of numerically consecutive codes that change length on the way; returns the codes in run order
func (t *runner) numericRun(csr charcode.CodeSpaceRange) [][]byte {
	r := t.e.Rand
	starts := []uint32{0x3e, 0x41, 0xf8, 0xfd, 0xff, 0x1fc, 0xfffc, 0xffff, 0x100fd, uint32(r.IntN(0x300)), uint32(r.IntN(0x12000))}
	v := starts[r.IntN(len(starts))]
	n := 2 + r.IntN(12)
	var res [][]byte
	var prevLen int
	for i := 0; i < n; i++ {
		cands := codesWithValue(csr, v+uint32(i))
		if len(cands) == 0 {
			continue
		}
		// prefer a change of length now and then, and sometimes take every representation of the value
		if r.IntN(5) == 0 {
			res = append(res, cands...)
			prevLen = len(cands[len(cands)-1])
			continue
		}
		pick := cands[r.IntN(len(cands))]
		if r.IntN(2) == 0 {
			for _, c := range cands {
				if len(c) != prevLen {
					pick = c
					break
				}
			}
		}
		res = append(res, pick)
		prevLen = len(pick)
	}
	return res
}

func (t *runner) mixedCIDMap(csr charcode.CodeSpaceRange) map[charcode.Code]cid.CID {
	r := t.e.Rand
	m := map[charcode.Code]cid.CID{}
	for k := 1 + r.IntN(3); k > 0; k-- {
		v := uint32(r.IntN(70000))
		if r.IntN(3) == 0 {
			v = baseCIDs[r.IntN(len(baseCIDs))]
		}
		for _, c := range t.numericRun(csr) {
			m[codeOf(c)] = cid.CID(v)
			if r.IntN(10) != 0 {
				v++
			}
		}
	}
	if r.IntN(2) == 0 {
		for k, v := range t.genCIDMap(csr, 1+r.IntN(2), 12) {
			if _, ok := m[k]; !ok {
				m[k] = v
			}
		}
	}
	return m
}

func (t *runner) mixedTUMap(csr charcode.CodeSpaceRange) map[charcode.Code]string {
	r := t.e.Rand
	m := map[charcode.Code]string{}
	for k := 1 + r.IntN(3); k > 0; k-- {
		last := baseRunes[r.IntN(len(baseRunes))]
		prefix := ""
		if r.IntN(3) == 0 {
			prefix = string(t.textRune())
		}
		for _, c := range t.numericRun(csr) {
			x := last
			if !validRune(x) {
				x = 0xFFFD
			}
			m[codeOf(c)] = prefix + string(x)
			if r.IntN(10) != 0 {
				last = x + 1
			}
		}
	}
	if r.IntN(2) == 0 {
		for k, v := range t.genTUMap(csr, 1+r.IntN(2), 12) {
			if _, ok := m[k]; !ok {
				m[k] = v
			}
		}
	}
	return m
}

func (t *runner) genMixedCID() *cidCase {
	r := t.e.Rand
	cs := &cidCase{CSR: leadingZeroCSRs[r.IntN(len(leadingZeroCSRs))], Class: "leading-zero-codes"}
	codec, err := charcode.NewCodec(cs.CSR)
	if err != nil {
		return nil
	}
	var mapped [][]byte
	for i := 1 + r.IntN(2); i > 0; i-- {
		l := cidLevel{Data: t.mixedCIDMap(cs.CSR), WMode: r.IntN(2), HasROS: true}
		for _, k := range sortedCodes(l.Data) {
			c := codec.AppendCode(nil, k)
			mapped = append(mapped, c)
			// the same number with another length
			var v uint32
			for _, b := range c {
				v = v<<8 | uint32(b)
			}
			mapped = append(mapped, codesWithValue(cs.CSR, v)...)
		}
		cs.Levels = append(cs.Levels, l)
	}
	cs.Probes = t.genProbes(cs.CSR, mapped, 4)
	return cs
}

func (t *runner) genMixedTU() *tuCase {
	r := t.e.Rand
	cs := &tuCase{CSR: leadingZeroCSRs[r.IntN(len(leadingZeroCSRs))], Class: "leading-zero-codes"}
	codec, err := charcode.NewCodec(cs.CSR)
	if err != nil {
		return nil
	}
	var mapped [][]byte
	for i := 1 + r.IntN(2); i > 0; i-- {
		l := t.mixedTUMap(cs.CSR)
		for _, k := range sortedCodes(l) {
			c := codec.AppendCode(nil, k)
			mapped = append(mapped, c)
			var v uint32
			for _, b := range c {
				v = v<<8 | uint32(b)
			}
			mapped = append(mapped, codesWithValue(cs.CSR, v)...)
		}
		cs.Levels = append(cs.Levels, l)
	}
	cs.Probes = t.genProbes(cs.CSR, mapped, 4)
	return cs
}
