// C08 harness: stream decoders are total and resource-bounded on hostile data.
//
// For every generated (filter chain, DecodeParms, body) triple it runs the
// property oracle directly on the implementation (pdf.DecodeStream, read to
// the end, Close): no panic, every error classified as malformed, wall time
// under a watchdog, allocation against limits.StreamBudget(rawLen), output
// bounds of the formats with intrinsic dimensions, goroutine count back to
// its baseline.  Failing inputs go to fails.jsonl.  For the decoders that
// have a Coq model (ASCIIHex, ASCII85, RunLength, LZW with predictors, the
// parameter parsers, GetFilters, the classification wrappers, StreamBudget)
// it also writes cases.txt / impl.obs for the comparison with the extracted
// model (build/ocaml/C08/driver.exe).
package main

import (
	"bytes"
	"encoding/json"
	"errors"
	"fmt"
	"io"
	"math"
	"os"
	"path/filepath"
	"sort"
	"strings"
	"time"

	"seehuhn.de/go/membudget"
	"seehuhn.de/go/pdf"
	"seehuhn.de/go/pdf/internal/filter/jbig2"
	"seehuhn.de/go/pdf/internal/filter/predict"
	"seehuhn.de/go/pdf/internal/limits"
	"seehuhn.de/go/pdf/verifharness/common"
)

type H struct {
	e   *common.Env
	g   *gen
	seq int

	maxDur    time.Duration
	maxNsByte float64
	maxAlloc  uint64
	maxRatio  float64 // alloc / allowance
	maxCPU    float64 // CPU time / allowance
	maxCPUOf  string
	maxCPUPlain float64 // CPU time / allowance over the cases judged by the plain general allowance
	aborted   bool
	known     int

	maxLive       uint64
	sweep         map[string]int
	leakConfirmed map[string]int
	leakSeen      int
	perSig        map[string]int
}

func (h *H) id(prefix string) string {
	h.seq++
	return fmt.Sprintf("%s%d", prefix, h.seq)
}

func (h *H) both(id, caseLine, obs string) {
	h.e.Line("cases.txt", "%s %s", id, caseLine)
	h.e.Line("impl.obs", "%s %s", id, obs)
}

// ---- tokens shared with the model driver ----

var modelKeys = map[string]bool{
	"Predictor": true, "Colors": true, "BitsPerComponent": true, "Columns": true, "EarlyChange": true,
	"K": true, "EndOfLine": true, "EncodedByteAlign": true, "Rows": true, "EndOfBlock": true,
	"BlackIs1": true, "DamagedRowsBeforeError": true,
}

func dictToken(p parm) string {
	if p.Kind != "dict" || len(p.D) == 0 {
		return "-"
	}
	var parts []string
	for _, e := range p.D {
		if !modelKeys[e.K] {
			continue
		}
		v := "o"
		switch e.V.T {
		case "i":
			v = fmt.Sprintf("i%d", e.V.I)
		case "b":
			v = "b0"
			if e.V.B {
				v = "b1"
			}
		}
		parts = append(parts, e.K+"="+v)
	}
	if len(parts) == 0 {
		return "-"
	}
	return strings.Join(parts, ",")
}

func b01(b bool) string {
	if b {
		return "1"
	}
	return "0"
}

// ---- the oracle on one triple ----

func stageCount(c *tcase) int { return len(c.Names) }

func confused(c *tcase) bool {
	if c.PField == "int" || c.PField == "name" {
		return true
	}
	if c.PField == "dict" && (len(c.Parms) == 0 || c.Parms[0].Kind != "dict" && c.Parms[0].Kind != "null") {
		return true
	}
	if c.PField == "dict" && !(c.Single && len(c.Names) == 1) {
		return true
	}
	if c.PField == "arr" && c.Single && len(c.Names) == 1 {
		return true
	}
	for _, n := range c.Names {
		if n == "" {
			return true
		}
	}
	for _, p := range c.Parms {
		if p.Kind != "dict" && p.Kind != "null" {
			return true
		}
	}
	return false
}

// leakPattern names the two ways (both found on the pinned tree, repaired by F29) in which the JPEG producer
// goroutine of a DCTDecode stage that is not the last stage survives: DecodeStream gives up
// while building a later stage and never closes what it built; or the reader was built, but
// Close does not reach the DCT stage because the stage above does not close its source.
func leakPattern(c *tcase, o outcome) string {
	for _, n := range c.Names[:max(len(c.Names)-1, 0)] {
		if n == "DCTDecode" {
			if o.Phase == "build" && o.Class != "ok" {
				return "decodestream-construct-error-leaks-dct-goroutine"
			}
			return "close-does-not-reach-dct-goroutine"
		}
	}
	return "goroutine-leak"
}

func dctBelow(c *tcase) bool {
	for _, n := range c.Names[:max(len(c.Names)-1, 0)] {
		if n == "DCTDecode" {
			return true
		}
	}
	return false
}

func (h *H) fail(sig, what string, c *tcase, o outcome) {
	// the common library keeps 200 failing cases in all: do not let one signature use them up
	h.perSig[sig]++
	if h.perSig[sig] > 12 {
		return
	}
	cc := *c
	if len(cc.Hex) > 4096 {
		cc.Note += fmt.Sprintf(" (body of %d bytes truncated to 2048 in this record; regenerate from the seed)", len(cc.Hex)/2)
		cc.Hex = cc.Hex[:4096]
	}
	h.e.Fail(sig, what, map[string]any{"case": cc, "dict": pdf.AsString(c.dict()), "outcome": o})
}

// confirm re-runs a suspected violation three times in fresh processes.
func (h *H) confirm(c *tcase, big bool, pred func(outcome) bool) bool {
	return h.confirmN(c, big, 3, pred)
}

func (h *H) confirmN(c *tcase, big bool, n int, pred func(outcome) bool) bool {
	rs := replayN(h.e.Dir, c, big, n)
	if len(rs) < n {
		return false
	}
	for _, r := range rs {
		if !pred(r) {
			return false
		}
	}
	return true
}

// batchCases runs cases in a process of their own (several per process) and judges them: for
// inputs that may make a goroutine started by the decoder panic, which would take the whole
// process down.
func (h *H) batchCases(cases []*tcase) {
	outs := runBatch(h.e.Dir, cases)
	for i, c := range cases {
		o := outs[i]
		if o.Class == "crash" {
			// once more, alone, twice: a process that dies in this case every time
			if h.perSig["panic"] >= 2 {
				h.perSig["panic"]++ // confirmed twice already in this run: count the rest
			} else if h.confirmN(c, false, 2, func(r outcome) bool { return r.Class == "crash" }) {
				h.fail("panic", "the decoding process died (a panic outside the calling goroutine): "+firstLine(o.Err), c, o)
			}
			h.e.Count(true, c.Hex, "T:"+shortName[c.Names[len(c.Names)-1]]+":died")
			continue
		}
		if o.Class == "timeout" || o.Class == "hang" {
			if h.confirmN(c, false, 3, func(r outcome) bool { return r.Class == "timeout" || r.Class == "hang" }) {
				h.fail("timeout", fmt.Sprintf("decoding %d bytes used %v of CPU time without finishing", len(c.Body()), time.Duration(o.CPUNS)), c, o)
			}
			continue
		}
		h.judge(c, false, o)
	}
}

func firstLine(s string) string {
	for _, l := range strings.Split(s, "\n") {
		if strings.HasPrefix(l, "panic:") || strings.HasPrefix(l, "fatal error:") {
			return l
		}
	}
	if i := strings.IndexByte(s, '\n'); i >= 0 {
		return s[:i]
	}
	return s
}

// triple runs the oracle on one case; the outcome is returned for the
// correspondence part.  ok=false: the case could not be completed.
func (h *H) triple(c *tcase, big bool) (outcome, bool) {
	body := c.Body()
	in := int64(len(body))
	// once both known leak patterns are confirmed, do not wait the full grace period for them again
	leakGrace = 2 * time.Second
	if dctBelow(c) && h.leakConfirmed["decodestream-construct-error-leaks-dct-goroutine"]+
		h.leakConfirmed["close-does-not-reach-dct-goroutine"] > 0 {
		// (a pattern not confirmed yet is still re-run in fresh processes, with their own grace period)
		leakGrace = 100 * time.Millisecond
	}
	var o outcome
	timedOut := func(r outcome) bool { return r.Class == "timeout" || r.Class == "hang" }
	if c.Tight || c.Own {
		// bodies built to cost time run in a process of their own from the start: nothing of
		// ours runs beside them, and a run that exceeds its CPU allowance ends itself
		rs := replayN(h.e.Dir, c, big, 1)
		if len(rs) != 1 || rs[0].Class == "crash" {
			return outcome{}, false
		}
		o = rs[0]
		if os.Getenv("VERIF_C08_DEBUG") != "" {
			fmt.Fprintf(os.Stderr, "c08 debug: own process: %s: %d raw bytes -> %s, %d out, cpu %.1f ms, wall %.1f ms, allowance %.1f ms\n",
				c.Note, in, o.Class, o.N, float64(o.CPUNS)/1e6, float64(o.DurNS)/1e6, float64(allowFor(c)(in, o.N))/1e6)
		}
		if timedOut(o) {
			if h.confirmN(c, big, 2, timedOut) {
				h.fail("timeout", fmt.Sprintf("decoding %d bytes used %v of CPU time (wall %v) without finishing; the allowance is %v of CPU time (three fresh processes, one after the other, agree)",
					in, time.Duration(o.CPUNS), time.Duration(o.DurNS), time.Duration(allowFor(c)(in, o.N))), c, o)
			}
			return o, false
		}
	} else {
		var done bool
		o, done = guarded(in, allowFor(c), func() outcome { return runCase(c, big) })
		if timedOut(o) {
			if !done {
				// let the straggler finish, so that nothing of ours runs beside the re-runs
				time.Sleep(100 * time.Millisecond)
				for w := 0; w < 1200 && curStart.Load() != 0; w++ {
					time.Sleep(100 * time.Millisecond)
				}
			}
			if h.confirmN(c, big, 3, timedOut) {
				h.fail("timeout", fmt.Sprintf("decoding %d bytes used %v of CPU time (wall %v) without finishing; the allowance is %v of CPU time (three fresh processes, one after the other, agree)",
					in, time.Duration(o.CPUNS), time.Duration(o.DurNS), time.Duration(allowFor(c)(in, o.N))), c, o)
				if curStart.Load() != 0 {
					h.aborted = true // the stuck goroutine cannot be stopped; end the run here
				}
			}
			return o, false
		}
	}
	return h.judge(c, big, o)
}

// judge applies the oracle to the outcome of a case.
func (h *H) judge(c *tcase, big bool, o outcome) (outcome, bool) {
	in := int64(len(c.Body()))
	first := ""
	if len(c.Names) > 0 {
		first = shortName[c.Names[len(c.Names)-1]]
	}
	if d := time.Duration(o.DurNS); d > h.maxDur {
		h.maxDur = d
	}
	if o.CPUNS > 0 {
		if r := float64(o.CPUNS) / float64(allowFor(c)(in, o.N)); r > h.maxCPU {
			h.maxCPU, h.maxCPUOf = r, c.Note
			if c.Note == "" {
				h.maxCPUOf = strings.Join(c.Names, " ")
			}
		}
		if plain := !c.Tight && c.Work == 0 && !strings.Contains(strings.Join(c.Names, " "), "JBIG2Decode"); plain {
			if r := float64(o.CPUNS) / float64(allowedNS(in, o.N)); r > h.maxCPUPlain {
				h.maxCPUPlain = r
			}
		}
	}
	if in+o.N > 1<<16 {
		if v := float64(o.DurNS) / float64(in+o.N); v > h.maxNsByte {
			h.maxNsByte = v
		}
	}
	switch o.Class {
	case "panic":
		h.fail("panic", "panic while decoding: "+o.Err, c, o)
	case "other":
		if o.Phase == "build" && confused(c) &&
			(strings.HasPrefix(o.Err, "wrong type, expected") || o.Err == "invalid /DecodeParms field") {
			h.known++
			h.fail("getfilters-wrong-type-not-malformed", "GetFilters: "+o.Err+" is not a MalformedFileError", c, o)
		} else {
			h.fail("non-malformed-error", fmt.Sprintf("error in phase %s is not classified as malformed: %s", o.Phase, o.Err), c, o)
		}
	}
	// the chain cap and the position of Crypt
	if c.FField == "" && !(c.Single && len(c.Names) == 1) {
		if len(c.Names) > 8 && !(o.Class == "malformed" && o.Phase == "build") {
			h.fail("chain-cap", fmt.Sprintf("a /Filter array of %d entries was not rejected as malformed (%s)", len(c.Names), o.Class), c, o)
		}
		if !confused(c) && len(c.Names) <= 8 {
			for i, n := range c.Names {
				if n == "Crypt" && i > 0 && !(o.Class == "malformed" && o.Phase == "build") {
					h.fail("crypt-position", fmt.Sprintf("Crypt at index %d was not rejected as malformed (%s)", i, o.Class), c, o)
					break
				}
			}
		}
	}
	// output bounds of the formats with intrinsic dimensions
	if len(c.Names) > 0 && o.Phase != "build" {
		switch c.Names[len(c.Names)-1] {
		case "CCITTFaxDecode":
			var p pdf.Dict
			if i := len(c.Names) - 1; c.PField == "arr" && i < len(c.Parms) || c.PField == "dict" {
				if c.PField == "dict" {
					i = 0
				}
				p, _ = c.Parms[i].obj().(pdf.Dict)
			}
			if f, err := pdf.MakeFilter("CCITTFaxDecode", p); err == nil {
				ff := f.(pdf.FilterCCITTFax)
				if b := ccittBound(int64(ff.Columns)); o.N > b {
					h.fail("output-bound", fmt.Sprintf("CCITTFax produced %d bytes, above the documented cap of %d for %d columns", o.N, b, ff.Columns), c, o)
				}
			}
		case "JBIG2Decode":
			if b := limits.StreamBudget(in); o.N > b {
				h.fail("output-bound", fmt.Sprintf("JBIG2 produced %d bytes from %d, above the stream budget %d", o.N, in, b), c, o)
			}
		case "DCTDecode":
			// at most MaxImagePixels pixels of at most four components, and at most MaxImageBytes
			if o.N > limits.MaxImageBytes || strings.HasPrefix(c.Note, "flat jpeg") && o.N > limits.MaxImagePixels {
				h.fail("output-bound", fmt.Sprintf("DCT produced %d bytes, above the documented image caps", o.N), c, o)
			}
		}
	}
	// a body built for known dimensions: not a byte more than the image it declares
	if c.MaxOut > 0 && o.N > c.MaxOut {
		h.fail("output-bound", fmt.Sprintf("%d bytes decoded, the declared image has %d", o.N, c.MaxOut), c, o)
	}
	// memory (measured); where the live heap is sampled, the cumulative TotalAlloc is not judged:
	// a decoder that allocates and frees one bitmap per segment is within its budget
	allow := allocAllowance(in, o.N, stageCount(c))
	if c.Live {
		allow = ^uint64(0)
	}
	if r := float64(o.Alloc) / float64(allow); r > h.maxRatio {
		h.maxRatio = r
	}
	if o.Alloc > h.maxAlloc {
		h.maxAlloc = o.Alloc
	}
	if o.Alloc > allow {
		if h.confirm(c, big, func(r outcome) bool { return r.Alloc > allow }) {
			h.fail("alloc-over-budget", fmt.Sprintf("TotalAlloc grew by %d bytes for %d raw bytes and %d output bytes; StreamBudget is %d", o.Alloc, in, o.N, limits.StreamBudget(in)), c, o)
		}
	}
	// memory really held (measured): the live heap during the decode against the budget
	if c.Live {
		liveAllow := uint64(limits.StreamBudget(in)) + 1<<20
		if o.Live > h.maxLive {
			h.maxLive = o.Live
		}
		if o.Live > liveAllow {
			if h.confirm(c, big, func(r outcome) bool { return r.Live > liveAllow }) {
				sig := "live-heap-over-budget"
				if strings.HasPrefix(c.Note, "jbig2: text region referring") {
					// processTextRegion concatenates the symbols of every entry of the referred-to list, uncharged
					sig = "jbig2-repeated-symbol-dict-refs-uncharged"
				}
				h.fail(sig, fmt.Sprintf("the decode kept %d bytes reachable (sampled after forced collections) for %d raw bytes; StreamBudget is %d", o.Live, in, limits.StreamBudget(in)), c, o)
			}
		}
	}
	// goroutines (measured)
	if o.Leak > 0 {
		sig := leakPattern(c, o)
		if sig != "goroutine-leak" && h.leakConfirmed[sig] >= 1 {
			// the same pattern was confirmed in three fresh processes already
			h.leakSeen++
			h.perSig[sig]++
		} else if h.confirm(c, big, func(r outcome) bool { return r.Leak > 0 }) {
			h.leakConfirmed[sig]++
			h.fail(sig, fmt.Sprintf("%d goroutine(s) still running 2 s after Close / after DecodeStream returned its error", o.Leak), c, o)
		}
	}
	if h.seq%997 == 3 || o.Class == "ok" && len(c.Names) > 1 && len(h.e.Samples) < 3 {
		h.e.Sample(5, fmt.Sprintf("triple /Filter %v /DecodeParms %s body %d bytes -> %s in phase %s, %d bytes out, TotalAlloc %d, %.2f ms",
			c.Names, strings.ReplaceAll(pdf.AsString(c.dict()["DecodeParms"]), "\n", " "), in, o.Class, o.Phase, o.N, o.Alloc, float64(o.DurNS)/1e6))
	}
	key := c.Hex + "|" + pdf.AsString(c.dict())
	h.e.Count(o.Phase != "build" || o.Class != "ok", key, "T:"+first+":"+o.Class)
	return o, true
}

// ---- correspondence cases ----

// modelStages returns the stage tokens if the whole chain is modelled.
func modelStages(c *tcase) ([]string, bool) {
	if c.FField != "" || confused(c) || len(c.Names) > 8 {
		return nil, false
	}
	var st []string
	for i, n := range c.Names {
		var p parm
		switch {
		case c.PField == "dict":
			p = c.Parms[0]
		case c.PField == "arr" && i < len(c.Parms):
			p = c.Parms[i]
		}
		switch n {
		case "ASCIIHexDecode":
			st = append(st, "ahx")
		case "ASCII85Decode":
			st = append(st, "a85")
		case "RunLengthDecode":
			st = append(st, "rl")
		case "LZWDecode":
			st = append(st, "lzw:"+dictToken(p))
		case "Crypt":
			if i != 0 {
				return nil, false
			}
			for _, e := range p.D {
				if e.K == "Name" && !(e.V.T == "name" && (e.V.S == "" || e.V.S == "Identity")) {
					return nil, false
				}
			}
			st = append(st, "id")
		default:
			return nil, false
		}
	}
	return st, true
}

// chunkSafe: every RunLength stage that is not the last one must deliver at
// most 400 bytes, so that no consumer buffer boundary can fall into it (see
// the note at rl_go in coq/C08/Simple.v); the last stage is read with one
// large buffer.  Also at most one LZW stage may carry a predictor with large rows.
func (h *H) chunkSafe(c *tcase) bool {
	bigPred := 0
	for i, n := range c.Names {
		if n == "LZWDecode" {
			var p pdf.Dict
			if c.PField == "arr" && i < len(c.Parms) {
				p, _ = c.Parms[i].obj().(pdf.Dict)
			} else if c.PField == "dict" {
				p, _ = c.Parms[0].obj().(pdf.Dict)
			}
			f, _ := pdf.MakeFilter("LZWDecode", p)
			if ff := f.(pdf.FilterLZW); ff.Predictor > 1 && int64(ff.Colors)*int64(ff.Columns) > 4096 {
				bigPred++
			}
		}
		if n != "RunLengthDecode" || i == len(c.Names)-1 {
			continue
		}
		pre := *c
		pre.Names = c.Names[:i+1]
		pre.Single = false
		if c.PField == "arr" && len(c.Parms) > i+1 {
			pre.Parms = c.Parms[:i+1]
		}
		o := runStream(pre.dict(), c.Body(), true)
		if o.Class == "panic" || o.N > 400 {
			return false
		}
	}
	return bigPred <= 1
}

func (h *H) chainCase(c *tcase) {
	st, modelled := modelStages(c)
	big := modelled && len(c.Names) > 0 && c.Names[len(c.Names)-1] == "RunLengthDecode" && len(c.Body()) <= 60000
	o, ok := h.triple(c, big)
	if !ok || !modelled || len(c.Body()) > 300000 {
		return
	}
	if len(c.Names) > 0 && c.Names[len(c.Names)-1] == "RunLengthDecode" && !big {
		return
	}
	if !h.chunkSafe(c) {
		return
	}
	h.both(h.id("m"), fmt.Sprintf("M %d %s %s", len(st), strings.Join(st, " "), common.Hex(c.Body())), o.obs())
}

// single decoders through MakeFilter + Decode (the wrappers included)
func (h *H) decCase(kind string, name string, p pdf.Dict, extra string, body []byte) {
	f, err := pdf.MakeFilter(pdf.Name(name), p)
	if err != nil {
		return
	}
	o := func() (o outcome) {
		defer func() {
			if r := recover(); r != nil {
				o = outcome{Class: "panic", Err: fmt.Sprint(r)}
			}
		}()
		rd, err := f.Decode(pdf.V2_0, bytes.NewReader(body), membudget.New(limits.StreamBudget(int64(len(body)))))
		if err != nil {
			return outcome{Class: classOf(err), Err: err.Error()}
		}
		n, sum, err := drain(rd, kind == "rl")
		rd.Close()
		if err != nil {
			return outcome{Class: classOf(err), Err: err.Error()}
		}
		return outcome{Class: "ok", N: n, MD5: sum}
	}()
	line := "D " + kind
	if extra != "" {
		line += " " + extra
	}
	h.both(h.id("d"), line+" "+common.Hex(body), o.obs())
	h.e.Count(true, kind+extra+string(body), "D:"+kind+":"+o.Class)
	if o.Class == "panic" || o.Class == "other" {
		h.fail(map[string]string{"panic": "panic", "other": "non-malformed-error"}[o.Class],
			kind+" decoder: "+o.Err, &tcase{Names: []string{name}, Hex: common.Hex(body), Note: "D " + kind + " " + extra}, o)
	}
}

// the predictor alone, with a chosen budget
func (h *H) predCase(avail int64, pp predict.Params, body []byte) {
	o := func() (o outcome) {
		defer func() {
			if r := recover(); r != nil {
				o = outcome{Class: "panic", Err: fmt.Sprint(r)}
			}
		}()
		p := pp
		rd, err := pdf.VerifAsMalformedFilter(predict.NewReader(io.NopCloser(bytes.NewReader(body)), &p, membudget.New(avail)))
		if err != nil {
			return outcome{Class: classOf(err), Err: err.Error()}
		}
		n, sum, err := drain(rd, false)
		if err != nil {
			return outcome{Class: classOf(err), Err: err.Error()}
		}
		return outcome{Class: "ok", N: n, MD5: sum}
	}()
	extra := fmt.Sprintf("%d %d %d %d %d", avail, pp.Predictor, pp.Colors, pp.BitsPerComponent, pp.Columns)
	h.both(h.id("d"), "D pred "+extra+" "+common.Hex(body), o.obs())
	h.e.Count(true, extra+string(body), "D:pred:"+o.Class)
	if o.Class == "panic" {
		h.fail("panic", "predictor: "+o.Err, &tcase{Hex: common.Hex(body), Note: "D pred " + extra}, o)
	}
}

func (h *H) parseCase(name string, p parm) {
	d, _ := p.obj().(pdf.Dict)
	f, err := pdf.MakeFilter(pdf.Name(name), d)
	if err != nil {
		return
	}
	tok := dictToken(p)
	switch ff := f.(type) {
	case pdf.FilterFlate:
		h.both(h.id("p"), "P flate "+tok, fmt.Sprintf("%d %d %d %d", ff.Predictor, ff.Colors, ff.BitsPerComponent, ff.Columns))
	case pdf.FilterLZW:
		h.both(h.id("p"), "P lzw "+tok, fmt.Sprintf("%d %d %d %d %s", ff.Predictor, ff.Colors, ff.BitsPerComponent, ff.Columns, b01(ff.OffByOne)))
	case pdf.FilterCCITTFax:
		h.both(h.id("p"), "P ccitt "+tok, fmt.Sprintf("%d %s %s %d %d %s %s %d", ff.K, b01(ff.EndOfLine), b01(ff.EncodedByteAlign),
			ff.Columns, ff.Rows, b01(ff.IgnoreEndOfBlock), b01(ff.BlackIs1), ff.DamagedRowsBeforeError))
		// the oracle's own bound against the model's (keeps the two formulas in step)
		rows := ccittBound(int64(ff.Columns)) / ((int64(ff.Columns) + 7) / 8)
		if ff.Rows > 0 && int64(ff.Rows) <= rows {
			rows = int64(ff.Rows)
		}
		h.both(h.id("g"), "G "+tok, fmt.Sprintf("%d", rows*((int64(ff.Columns)+7)/8)))
	}
	h.e.Count(len(p.D) > 0, name+tok, "P:"+shortName[name])
}

func (h *H) getFiltersCase(names []string, parms []string, pfield string, single bool) {
	// names: short tokens or "x"; parms: n d0 d1 x
	long := map[string]string{}
	for k, v := range shortName {
		long[v] = k
	}
	d := pdf.Dict{}
	ftok := "none"
	switch {
	case names == nil:
	case single:
		d["Filter"] = pdf.Name(long[names[0]])
		ftok = "one:" + names[0]
	default:
		a := pdf.Array{}
		for _, n := range names {
			if n == "x" {
				a = append(a, pdf.Integer(1))
			} else {
				a = append(a, pdf.Name(long[n]))
			}
		}
		d["Filter"] = a
		ftok = "arr:" + strings.Join(names, ",")
		if len(names) == 0 {
			ftok = "arr:-"
		}
	}
	if len(names) == 1 && names[0] == "bad" {
		d["Filter"] = pdf.Integer(1)
		ftok = "bad"
	}
	mk := func(t string) pdf.Object {
		switch t {
		case "d0":
			return pdf.Dict{"Columns": pdf.Integer(3)}
		case "d1":
			return pdf.Dict{"Name": pdf.Integer(3)}
		case "x":
			return pdf.Integer(7)
		}
		return nil
	}
	ptok := "none"
	switch pfield {
	case "dict":
		d["DecodeParms"] = mk(parms[0])
		ptok = "dict:" + map[string]string{"d0": "0", "d1": "1"}[parms[0]]
	case "arr":
		a := pdf.Array{}
		for _, p := range parms {
			a = append(a, mk(p))
		}
		d["DecodeParms"] = a
		ptok = "arr:" + strings.Join(parms, ",")
		if len(parms) == 0 {
			ptok = "arr:-"
		}
	case "bad":
		d["DecodeParms"] = pdf.Integer(5)
		ptok = "bad"
	}
	fs, err := pdf.GetFilters(getter{}, nil, d)
	obs := ""
	switch {
	case err == nil:
		var ns []string
		for _, f := range fs {
			n, _, ierr := f.Info(pdf.V2_0)
			s, ok := shortName[string(n)]
			if ierr != nil || !ok {
				s = "Unk"
			}
			if _, isCrypt := f.(pdf.CryptFilter); isCrypt {
				s = "Crypt"
			}
			ns = append(ns, s)
		}
		obs = "ok -"
		if len(ns) > 0 {
			obs = "ok " + strings.Join(ns, ",")
		}
	case pdf.IsMalformed(err):
		obs = "malformed"
	default:
		obs = "other"
	}
	h.both(h.id("c"), "C "+ftok+" "+ptok, obs)
	h.e.Count(true, ftok+ptok, "C:"+strings.Fields(obs)[0])
	// direct oracle: the cap, the position of Crypt
	if !single && len(names) > 8 && obs != "malformed" {
		h.e.Fail("chain-cap", fmt.Sprintf("GetFilters accepted or misclassified a /Filter array of %d entries (%s)", len(names), obs), pdf.AsString(d))
	}
}

// ---- classification wrappers ----

type scriptErr struct{ id int }

func (e *scriptErr) Error() string { return fmt.Sprintf("scripted error %d", e.id) }

type wrapEOF struct{ id int }

func (e *wrapEOF) Error() string { return fmt.Sprintf("wrapped EOF %d", e.id) }
func (e *wrapEOF) Unwrap() error { return io.EOF }

func mkErr(tok string) error {
	if tok == "nil" {
		return nil
	}
	var id int
	fmt.Sscanf(tok[5:], "%d", &id)
	switch tok[1:4] {
	case "110":
		return io.EOF
	case "100":
		return &wrapEOF{id}
	case "101":
		return &pdf.MalformedFileError{Err: &wrapEOF{id}}
	case "001":
		if id%2 == 0 {
			return fmt.Errorf("context: %w", &pdf.MalformedFileError{Err: &scriptErr{id}})
		}
		return &pdf.MalformedFileError{Err: &scriptErr{id}}
	}
	return &scriptErr{id}
}

func showErr(err error) string {
	if err == nil {
		return "nil"
	}
	id := 0
	var se *scriptErr
	var we *wrapEOF
	if errors.As(err, &se) {
		id = se.id
	} else if errors.As(err, &we) {
		id = we.id
	}
	return fmt.Sprintf("e%s%s%s.%d", b01(errors.Is(err, io.EOF)), b01(err == io.EOF), b01(pdf.IsMalformed(err)), id)
}

type scriptReader struct {
	errs []error
	i    int
}

func (s *scriptReader) Read(p []byte) (int, error) {
	if s.i >= len(s.errs) {
		return 0, io.EOF
	}
	e := s.errs[s.i]
	s.i++
	if len(p) > 0 && s.i%2 == 1 {
		p[0] = 'x'
		return 1, e
	}
	return 0, e
}
func (s *scriptReader) Close() error { return nil }

func (h *H) classifyRead(toks []string) {
	var errs []error
	var calls []string
	for _, t := range toks {
		errs = append(errs, mkErr(t))
		calls = append(calls, "-/"+t)
	}
	rd, err := pdf.VerifAsMalformedFilter(&scriptReader{errs: errs}, nil)
	if err != nil {
		return
	}
	var final error
	buf := make([]byte, 16)
	for i := 0; i <= len(errs); i++ {
		if _, e := rd.Read(buf); e != nil {
			final = e
			break
		}
	}
	h.both(h.id("k"), "KR "+strings.Join(calls, ";"), showErr(final))
	h.e.Count(true, strings.Join(toks, ";"), "K:read")
	// directly: whatever the inner reader answers, what leaves the wrapper is io.EOF itself or malformed
	if final != nil && final != io.EOF && !pdf.IsMalformed(final) {
		h.e.Fail("non-malformed-error", "filterContentReader let an inner error through unclassified: "+showErr(final), strings.Join(toks, ";"))
	}
}

func (h *H) classifyConstruct(tok string) {
	_, err := pdf.VerifAsMalformedFilter(nil, mkErr(tok))
	h.both(h.id("k"), "KC - "+tok, showErr(err))
	h.e.Count(true, "KC"+tok, "K:construct")
	if err != nil && !pdf.IsMalformed(err) {
		h.e.Fail("non-malformed-error", "asMalformedFilter returned an unclassified construction error", tok)
	}
}

// a byte source that fails: ReadAt serves data and returns fail from offset at on
type failingSource struct {
	data   []byte
	at     int64
	fail   error
	failed bool
}

func (s *failingSource) ReadAt(p []byte, off int64) (int, error) {
	if off >= s.at {
		s.failed = true
		return 0, s.fail
	}
	end := min(int64(len(s.data)), s.at, off+int64(len(p)))
	n := copy(p, s.data[off:end])
	if n < len(p) {
		if end == s.at {
			s.failed = true
			return n, s.fail
		}
		return n, io.EOF
	}
	return n, nil
}

// sourceFailure: DecodeStream over a source that fails with a non-malformed
// error: whatever the filters do with it, that error itself must surface.
func (h *H) sourceFailure(c *tcase, at int64, kind int) {
	body := c.Body()
	var fail error = &scriptErr{id: 77}
	switch kind {
	case 1:
		fail = fmt.Errorf("disk: %w", &scriptErr{id: 78})
	case 2:
		fail = io.ErrUnexpectedEOF
	case 3:
		fail = os.ErrDeadlineExceeded
	case 4:
		fail = &wrapEOF{id: 79} // "connection lost: EOF": a failure, not the end of the data
	}
	src := &failingSource{data: body, at: at, fail: fail}
	var final error
	var class string
	func() {
		defer func() {
			if r := recover(); r != nil {
				class = "panic"
				final = fmt.Errorf("%v", r)
			}
		}()
		rd, err := pdf.DecodeStream(getter{}, nil, pdf.VerifNewStreamReaderAt(c.dict(), src, int64(len(body))))
		if err != nil {
			final = err
			return
		}
		_, _, final = drain(rd, false)
		rd.Close()
	}()
	cl := "ok"
	switch {
	case class == "panic":
		cl = "panic"
		h.fail("panic", "panic with a failing source: "+final.Error(), c, outcome{Class: "panic", Err: final.Error()})
	case final == nil:
	case src.failed && final == fail:
		cl = "source"
	case src.failed:
		cl = "masked"
		h.fail("source-error-masked", fmt.Sprintf("the byte source failed with %q but DecodeStream reported %q", fail, final), c, outcome{Class: classOf(final), Err: final.Error()})
	case pdf.IsMalformed(final):
		cl = "malformed"
	default:
		cl = "other"
		if !(confused(c) && (strings.HasPrefix(final.Error(), "wrong type, expected") || final.Error() == "invalid /DecodeParms field")) {
			h.fail("non-malformed-error", "unclassified error although the source did not fail: "+final.Error(), c, outcome{Class: "other", Err: final.Error()})
		}
	}
	h.e.Count(src.failed, fmt.Sprintf("%s|%d|%d", c.Hex, at, kind), "S:"+cl)
}

// ---- generators of triples ----

func (h *H) encodedBody(name string, p *parm) []byte {
	g := h.g
	data := g.plain()
	switch name {
	case "ASCII85Decode":
		return encodeFilter(pdf.FilterASCII85{}, data)
	case "ASCIIHexDecode":
		return encodeFilter(pdf.FilterASCIIHex{}, data)
	case "RunLengthDecode":
		return encodeFilter(pdf.FilterRunLength{}, data)
	case "FlateDecode", "LZWDecode":
		pred, colors, bpc, cols := 1, 1, 8, 1
		if g.intn(2) == 0 {
			pred = []int{2, 10, 11, 12, 13, 14, 15}[g.intn(7)]
			colors = 1 + g.intn(4)
			bpc = []int{1, 2, 4, 8, 16}[g.intn(5)]
			cols = 1 + g.intn(40)
			row := (colors*bpc*cols + 7) / 8
			if len(data) < row {
				data = append(data, make([]byte, row-len(data))...)
			}
			data = data[:len(data)/row*row]
			*p = parm{Kind: "dict", D: []kv{
				{"Predictor", pval{T: "i", I: int64(pred)}}, {"Colors", pval{T: "i", I: int64(colors)}},
				{"BitsPerComponent", pval{T: "i", I: int64(bpc)}}, {"Columns", pval{T: "i", I: int64(cols)}}}}
		} else {
			*p = parm{Kind: "null"}
		}
		if name == "FlateDecode" {
			if pred == 1 {
				return encodeFilter(pdf.FilterFlate{}, data)
			}
			return encodeFilter(pdf.FilterFlate{Predictor: pdf.FlatePredictor(pred), Colors: colors, BitsPerComponent: bpc, Columns: cols}, data)
		}
		early := g.intn(2) == 0
		if !early {
			if p.Kind != "dict" {
				*p = parm{Kind: "dict"}
			}
			p.D = append(p.D, kv{"EarlyChange", pval{T: "i", I: 0}})
		}
		if pred == 1 {
			return encodeFilter(pdf.FilterLZW{OffByOne: early}, data)
		}
		return encodeFilter(pdf.FilterLZW{Predictor: pdf.FlatePredictor(pred), Colors: colors, BitsPerComponent: bpc, Columns: cols, OffByOne: early}, data)
	case "CCITTFaxDecode":
		cols := 8 * (1 + g.intn(12))
		k := []int{-1, 0, 0, 3}[g.intn(4)]
		rows := 1 + g.intn(20)
		img := g.bytes(cols / 8 * rows)
		*p = parm{Kind: "dict", D: []kv{{"K", pval{T: "i", I: int64(k)}}, {"Columns", pval{T: "i", I: int64(cols)}}}}
		return encodeFilter(pdf.FilterCCITTFax{K: k, Columns: cols}, img)
	case "DCTDecode":
		return append([]byte{}, jpegSeeds[g.intn(len(jpegSeeds))]...)
	case "JBIG2Decode":
		return append([]byte{}, jbig2Seeds[g.intn(len(jbig2Seeds))]...)
	}
	return g.bytes(g.intn(300))
}

// randomTriple: one filter or a chain, valid nested encodings mutated, or random bytes.
func (h *H) randomTriple() *tcase {
	g := h.g
	c := &tcase{PField: "arr"}
	n := 1
	switch x := g.intn(20); {
	case x < 10:
		n = 1
	case x < 15:
		n = 2
	case x < 18:
		n = 3 + g.intn(6)
	case x == 18:
		n = 0
	default:
		n = 9 + g.intn(4)
	}
	modelledOnly := g.intn(3) == 0
	for i := 0; i < n; i++ {
		name := filterNames[g.intn(len(filterNames))]
		if modelledOnly {
			name = []string{"ASCII85Decode", "ASCIIHexDecode", "RunLengthDecode", "LZWDecode", "LZWDecode"}[g.intn(5)]
			if i == 0 && g.intn(10) == 0 {
				name = "Crypt"
			}
		}
		c.Names = append(c.Names, name)
	}
	confuse := !modelledOnly && g.intn(6) == 0
	// body: encode through the chain from the inside out where possible
	c.Parms = make([]parm, n)
	var body []byte
	if n > 0 && g.intn(5) > 0 {
		ok := true
		last := c.Names[n-1]
		body = h.encodedBody(last, &c.Parms[n-1])
		for i := n - 2; i >= 0 && ok; i-- {
			var f pdf.Filter
			switch c.Names[i] {
			case "ASCII85Decode":
				f = pdf.FilterASCII85{}
			case "ASCIIHexDecode":
				f = pdf.FilterASCIIHex{}
			case "RunLengthDecode":
				f = pdf.FilterRunLength{}
			case "FlateDecode":
				f = pdf.FilterFlate{}
			case "LZWDecode":
				f = pdf.FilterLZW{OffByOne: true}
			case "Crypt":
				continue
			default:
				ok = false
				continue
			}
			c.Parms[i] = parm{Kind: "null"}
			if len(body) > 200000 {
				body = body[:200000]
			}
			body = encodeFilter(f, body)
		}
		if g.intn(3) > 0 {
			body = g.mutate(body)
		}
	} else {
		body = g.bytes(g.intn(300))
	}
	// parameters: keep the ones the encoder chose, or draw hostile ones
	for i := range c.Parms {
		if c.Parms[i].Kind == "" || g.intn(3) == 0 {
			c.Parms[i] = g.parm(c.Names[i], confuse)
		}
	}
	if g.intn(8) == 0 && n > 0 {
		c.Parms = c.Parms[:g.intn(n)]
	}
	if confuse {
		switch g.intn(8) {
		case 0:
			c.PField = "int"
		case 1:
			c.PField = "name"
		case 2:
			if n > 0 {
				c.Names[g.intn(n)] = ""
			}
		case 3:
			c.FField = "int"
		}
	}
	if n == 1 && g.intn(2) == 0 && c.Names[0] != "" {
		c.Single = true
		c.PField = "dict"
		if len(c.Parms) == 0 {
			c.PField = "none"
		}
	}
	if g.intn(15) == 0 {
		c.PField = "none"
	}
	c.setBody(body)
	return c
}

// headerSweep: DCT frame/scan headers over component counts 1-4, sampling factors, baseline
// and progressive frames and first-scan component subsets, JBIG2 page/region sizes and CCITT
// widths, each with dimensions swept geometrically across the point where the buffers the
// decoder has to allocate equal StreamBudget(rawLen): just below, the decode may allocate;
// just above, it must refuse - whatever it charges, TotalAlloc must stay within the allowance.
func (h *H) headerSweep() {
	e, g := h.e, h.g
	factors := []float64{0.93, 1.04, 1.2, 1.38}
	if e.Thorough {
		factors = []float64{0.93, 0.5, 0.7, 0.85, 1.01, 1.04, 1.1, 1.2, 1.3, 1.38, 1.5, 1.7, 1.95}
	}
	hvs := []byte{0x11, 0x21, 0x12, 0x22}
	var layouts [][]byte
	var rec func(cur []byte, n int)
	rec = func(cur []byte, n int) {
		if n == 0 {
			layouts = append(layouts, append([]byte{}, cur...))
			return
		}
		for _, x := range hvs {
			rec(append(cur, x), n-1)
		}
	}
	for n := 1; n <= 4; n++ {
		rec(nil, n)
	}
	for _, y := range []byte{0x41, 0x42, 0x14, 0x44, 0x33, 0x31, 0x13} {
		for _, c := range []byte{0x11, 0x21, 0x12, 0x22, 0x41} {
			layouts = append(layouts, []byte{y, c, c}, []byte{y, c, c, y})
		}
	}
	extra := e.Pick(0, 4000) // sampling factors 1..4 in both directions, at random
	for i := 0; i < extra; i++ {
		l := make([]byte, 1+g.intn(4))
		for j := range l {
			l[j] = byte(1+g.intn(4))<<4 | byte(1+g.intn(4))
		}
		layouts = append(layouts, l)
	}
	refused, swept, accepted := 0, 0, 0
	for _, hv := range layouts {
		n := len(hv)
		all := make([]int, n)
		for i := range all {
			all[i] = i
		}
		h0, v0 := int(hv[0]>>4), int(hv[0]&15)
		type mode struct {
			prog bool
			scan []int
		}
		modes := []mode{{false, []int{0}}, {true, all}, {true, []int{0}}}
		if n > 1 {
			modes = append(modes, mode{false, []int{n - 1}}, mode{true, []int{n - 1}}, mode{false, all[:n-1]})
		}
		// streaming baseline (the scan lists every component): only a stripe is held
		h.chainCase(h.one("DCTDecode", parm{Kind: "null"}, jpegHeader(65535, 65535/8*8, hv, false, all), "jpeg header sweep"))
		h.chainCase(h.one("DCTDecode", parm{Kind: "null"}, jpegHeader(65535, 16, hv, false, all), "jpeg header sweep"))
		for _, m := range modes {
			// bytes the decoder has to hold per MCU of the (square) MCU grid
			per := 0
			if m.prog {
				for _, c := range m.scan {
					per += 256 * int(hv[c]>>4) * int(hv[c]&15) // coefficient blocks of the scan's components
				}
			} else {
				for _, x := range hv {
					per += 64 * int(x>>4) * int(x&15) // full-image planes
				}
			}
			for fi, f := range factors {
				body := jpegHeader(16, 16, hv, m.prog, m.scan)
				budget := float64(limits.StreamBudget(int64(len(body))))
				side := int(math.Sqrt(f * budget / float64(per)))
				w, ht := min(8*h0*side, 65535), min(8*v0*side, 65535)
				c := h.one("DCTDecode", parm{Kind: "null"}, jpegHeader(w, ht, hv, m.prog, m.scan), "jpeg header sweep")
				o, ok := h.triple(c, false)
				swept++
				if !ok {
					return
				}
				if fi == 0 {
					if float64(o.Alloc) < budget/2 {
						refused++ // this layout or scan is refused for another reason: no point in sweeping it
						break
					}
					accepted++
				}
			}
		}
	}
	// JBIG2: page bitmap, region bitmap, or both together across the budget
	for _, f := range factors {
		for shape := 0; shape < 3; shape++ {
			budget := float64(limits.StreamBudget(120))
			for _, aspect := range []int{1, 16, 256} {
				// bits = 8 * f * budget, w = aspect * h
				hh := int(math.Sqrt(8 * f * budget / float64(aspect)))
				ww := hh * aspect
				var body []byte
				switch shape {
				case 0:
					body = jbig2Sized(ww, hh, 8, 8)
				case 1:
					body = jbig2Sized(8, 8, ww, hh)
				default:
					hh = int(math.Sqrt(8 * f * budget / 2 / float64(aspect)))
					body = jbig2Sized(hh*aspect, hh, hh*aspect, hh)
				}
				h.chainCase(h.one("JBIG2Decode", parm{Kind: "null"}, body, "jbig2 size sweep"))
				swept++
			}
		}
	}
	// CCITT: the line buffers and the changing-element index grow with /Columns
	for _, k := range []int64{-1, 0, 3} {
		for _, cols := range []int64{1 << 20, 1<<20 - 1, 1040000, 1000000, 950000, 800000, 524288} {
			for _, n := range []int{1, 200, 300} {
				p := parm{Kind: "dict", D: []kv{{"K", pval{T: "i", I: k}}, {"Columns", pval{T: "i", I: cols}}, {"Rows", pval{T: "i", I: 2}}}}
				h.chainCase(h.one("CCITTFaxDecode", p, bytes.Repeat([]byte{0x00, 0x10}, n), "ccitt width sweep"))
				swept++
			}
		}
	}
	h.sweep = map[string]int{"cases": swept, "jpeg_layout_modes_refused": refused, "jpeg_layout_modes_swept_across_budget": accepted}
}

func (h *H) one(name string, p parm, body []byte, note string) *tcase {
	c := &tcase{Names: []string{name}, Parms: []parm{p}, PField: "arr", Note: note}
	c.setBody(body)
	return c
}

func main() {
	if len(os.Args) > 2 && os.Args[1] == "-batch" {
		batchMain(os.Args[2])
		return
	}
	if len(os.Args) > 2 && os.Args[1] == "-replay" {
		replayMain(os.Args[2], len(os.Args) > 3 && os.Args[3] == "-big")
		return
	}
	tPhase := time.Now()
	phase := func(name string) {
		fmt.Fprintf(os.Stderr, "c08 harness: %-28s %6.1fs\n", name, time.Since(tPhase).Seconds())
		tPhase = time.Now()
	}
	e := common.New(8)
	h := &H{e: e, g: &gen{r: e.Rand}, leakConfirmed: map[string]int{}, perSig: map[string]int{}}
	g := h.g
	initSeeds()

	// -- corpus of past failures and regression cases first
	if files, _ := filepath.Glob("/verif/corpus/C08/*.json"); len(files) > 0 {
		sort.Strings(files)
		for _, f := range files {
			var c tcase
			if b, err := os.ReadFile(f); err == nil && json.Unmarshal(b, &c) == nil {
				h.chainCase(&c)
			}
		}
	}
	for _, b := range [][]byte{
		{0x80, 0x0b, 0x60, 0x50, 0x22, 0x0c, 0x0c, 0x85, 0x01}, // the example of ISO 32000 7.4.4.2
		{0x80, 0x10, 0x60, 0x50, 0x10}, {0x80}, {}, {0x80, 0x40, 0x40},
	} {
		h.decCase("lzw", "LZWDecode", nil, "1", b)
		h.decCase("lzw", "LZWDecode", pdf.Dict{"EarlyChange": pdf.Integer(0)}, "0", b)
	}

	// -- StreamBudget / MaxXRefEntries: translated function against the compiled one
	for _, n := range []int64{math.MinInt64, -1, 0, 1, 1023, 262143, 262144, 262145, 1 << 30, 1 << 40, 1<<58 - 257, math.MaxInt64 >> 6} {
		h.both(h.id("b"), fmt.Sprintf("B %d", n), fmt.Sprintf("%d %d", limits.StreamBudget(n), limits.MaxXRefEntries(n)))
		e.Count(true, fmt.Sprint("B", n), "B")
	}
	for i := 0; i < 200; i++ {
		n := g.r.Int64() >> uint(g.intn(64))
		if n > 1<<57 {
			n >>= 7
		}
		h.both(h.id("b"), fmt.Sprintf("B %d", n), fmt.Sprintf("%d %d", limits.StreamBudget(n), limits.MaxXRefEntries(n)))
		e.Count(true, fmt.Sprint("B", n), "B")
	}

	phase("corpus+budget")
	for _, n := range []int64{math.MinInt64, -1, 0, 1, 114687, 114688, 114689, 1 << 26, 1 << 40, math.MaxInt64} {
		h.both(h.id("b"), fmt.Sprintf("B2 %d", n), fmt.Sprint(jbig2.VerifWorkLimit(n)))
	}
	for i := 0; i < 100; i++ {
		n := g.r.Int64() >> uint(g.intn(64))
		h.both(h.id("b"), fmt.Sprintf("B2 %d", n), fmt.Sprint(jbig2.VerifWorkLimit(n)))
	}
	// -- GetFilters: every chain over {AHx, Crypt, Foo, non-name} up to length 3 with every
	//    parameter shape, every length 0..11, Crypt at every index
	alpha := []string{"AHx", "Crypt", "Unk", "x"}
	var seqs [][]string
	var rec func(cur []string, n int)
	rec = func(cur []string, n int) {
		seqs = append(seqs, append([]string{}, cur...))
		if n == 0 {
			return
		}
		for _, a := range alpha {
			rec(append(cur, a), n-1)
		}
	}
	rec(nil, 3)
	ptoks := []string{"n", "d0", "d1", "x"}
	for _, s := range seqs {
		h.getFiltersCase(s, nil, "none", false)
		h.getFiltersCase(s, nil, "bad", false)
		h.getFiltersCase(s, []string{"d0"}, "dict", false)
		for _, p0 := range ptoks {
			h.getFiltersCase(s, []string{p0}, "arr", false)
			for _, p1 := range ptoks {
				h.getFiltersCase(s, []string{p0, p1}, "arr", false)
				if len(s) == 3 {
					for _, p2 := range ptoks {
						h.getFiltersCase(s, []string{p0, p1, p2}, "arr", false)
					}
				}
			}
		}
		if len(s) == 1 && s[0] != "x" {
			h.getFiltersCase(s, nil, "none", true)
			h.getFiltersCase(s, nil, "bad", true)
			h.getFiltersCase(s, []string{"d0"}, "dict", true)
			h.getFiltersCase(s, []string{"d1"}, "dict", true)
			h.getFiltersCase(s, []string{"d0"}, "arr", true)
		}
	}
	h.getFiltersCase(nil, nil, "none", false)
	h.getFiltersCase([]string{"bad"}, nil, "none", false)
	for n := 0; n <= 11; n++ {
		for pos := -1; pos < n; pos++ {
			s := make([]string, n)
			for i := range s {
				s[i] = []string{"A85", "AHx", "RL", "Fl", "LZW", "CCF", "DCT", "JBIG2", "JPX", "Unk"}[(i+n)%10]
			}
			if pos >= 0 {
				s[pos] = "Crypt"
			}
			h.getFiltersCase(s, nil, "none", false)
			ps := make([]string, n)
			for i := range ps {
				ps[i] = "d0"
			}
			h.getFiltersCase(s, ps, "arr", false)
		}
	}

	phase("getfilters")
	// -- classification wrappers: every script of up to three Reads over the five error shapes
	kinds := []string{"nil", "e110.0", "e100.3", "e101.5", "e001.7", "e001.8", "e000.9"}
	for _, a := range kinds[1:] {
		h.classifyConstruct(a)
		h.classifyRead([]string{a})
		for _, b := range kinds[1:] {
			h.classifyRead([]string{"nil", a, b})
			h.classifyRead([]string{"nil", "nil", b})
		}
	}

	phase("classify")
	// -- parameter parsing: every key with every magnitude and type, then random dictionaries
	for _, name := range []string{"FlateDecode", "LZWDecode", "CCITTFaxDecode"} {
		h.parseCase(name, parm{Kind: "null"})
		for _, k := range keysFor[name] {
			for _, m := range magnitudes {
				h.parseCase(name, parm{Kind: "dict", D: []kv{{k, pval{T: "i", I: m}}}})
				if name != "CCITTFaxDecode" && k != "Predictor" {
					h.parseCase(name, parm{Kind: "dict", D: []kv{{"Predictor", pval{T: "i", I: 12}}, {k, pval{T: "i", I: m}}}})
				}
			}
			for _, t := range []pval{{T: "b", B: true}, {T: "b"}, {T: "name", S: "x"}, {T: "real"}, {T: "array"}, {T: "string"}, {T: "dict"}, {T: "null"}} {
				if k == "Predictor" {
					h.parseCase(name, parm{Kind: "dict", D: []kv{{k, t}}})
				} else {
					h.parseCase(name, parm{Kind: "dict", D: []kv{{"Predictor", pval{T: "i", I: 2}}, {k, t}}})
				}
			}
		}
		for i := e.Pick(1500, 20000); i > 0; i-- {
			p := g.parm(name, false)
			if p.Kind == "dict" && g.intn(2) == 0 {
				p.D = append([]kv{{"Predictor", pval{T: "i", I: []int64{2, 10, 12, 15}[g.intn(4)]}}}, p.D...)
				seen := map[string]bool{}
				var d []kv
				for _, e := range p.D {
					if !seen[e.K] {
						seen[e.K] = true
						d = append(d, e)
					}
				}
				p.D = d
			}
			h.parseCase(name, p)
		}
	}

	phase("params")
	// -- single decoders: valid encodings, mutants, random bytes, hostile code streams
	nd := e.Pick(700, 5000)
	for i := 0; i < nd && !h.aborted; i++ {
		data := g.plain()
		if len(data) > 20000 {
			data = data[:20000]
		}
		pick := func(valid []byte) []byte {
			switch g.intn(4) {
			case 0:
				return valid
			case 1:
				return g.bytes(g.intn(200))
			default:
				return g.mutate(valid)
			}
		}
		h.decCase("ahx", "ASCIIHexDecode", nil, "", pick(encodeFilter(pdf.FilterASCIIHex{}, data)))
		h.decCase("a85", "ASCII85Decode", nil, "", pick(encodeFilter(pdf.FilterASCII85{}, data)))
		rl := pick(encodeFilter(pdf.FilterRunLength{}, data))
		if len(rl) > 60000 {
			rl = rl[:60000]
		}
		h.decCase("rl", "RunLengthDecode", nil, "", rl)
		early := g.intn(2) == 0
		var lp pdf.Dict
		if !early {
			lp = pdf.Dict{"EarlyChange": pdf.Integer(0)}
		}
		var lz []byte
		switch g.intn(4) {
		case 0:
			lz = pick(encodeFilter(pdf.FilterLZW{OffByOne: early}, data))
		case 1:
			lz = g.lzwCodes(early, 4200+g.intn(3000), 1) // fills the table, never cleared
		case 2:
			lz = g.lzwCodes(early, 10+g.intn(600), 2)
		default:
			lz = g.lzwCodes(early, 10+g.intn(2000), 0)
		}
		h.decCase("lzw", "LZWDecode", lp, b01(early), lz)
	}
	// extremely compressible bodies for the modelled decoders
	for _, n := range []int{1 << 16, e.Pick(1<<18, 1<<20)} {
		zeros := make([]byte, n)
		h.decCase("a85", "ASCII85Decode", nil, "", encodeFilter(pdf.FilterASCII85{}, zeros))
		h.decCase("lzw", "LZWDecode", nil, "1", encodeFilter(pdf.FilterLZW{OffByOne: true}, zeros))
		h.decCase("rl", "RunLengthDecode", nil, "", encodeFilter(pdf.FilterRunLength{}, zeros[:1<<16]))
	}
	h.decCase("rl", "RunLengthDecode", nil, "", bytes.Repeat([]byte{129, 7}, 30000)) // 64x expansion

	phase("single decoders")
	// -- the predictor alone: valid and hostile parameters, budgets around the charge
	np := e.Pick(1500, 20000)
	for i := 0; i < np; i++ {
		pp := predict.Params{
			Predictor:        []int{2, 10, 11, 12, 13, 14, 15, 1, 0, 3, 16}[g.intn(11)],
			Colors:           1 + g.intn(5),
			BitsPerComponent: []int{1, 2, 4, 8, 16}[g.intn(5)],
			Columns:          1 + g.intn(30),
		}
		avail := int64(8 << 20)
		switch g.intn(12) {
		case 0:
			pp.Colors = []int{0, -1, 60, 61, 256, 257, 1 << 20, math.MaxInt64}[g.intn(8)]
		case 1:
			pp.BitsPerComponent = []int{0, 3, 5, 32, -8}[g.intn(5)]
		case 2:
			pp.Columns = []int{0, -1, 65536, 65537, 1 << 20, math.MaxInt64}[g.intn(6)]
		case 3:
			pp.Colors, pp.BitsPerComponent, pp.Columns = 32, 16, 65536
		case 4:
			avail = int64(g.intn(400))
		}
		row := 1
		if pp.Colors > 0 && pp.Colors <= 256 && pp.Columns > 0 && pp.Columns <= 65536 && pp.BitsPerComponent > 0 && pp.BitsPerComponent <= 16 {
			row = (pp.Colors*pp.BitsPerComponent*pp.Columns + 7) / 8
			if pp.Predictor >= 10 {
				row++
			}
		}
		var body []byte
		if row < 3000 {
			body = g.bytes(row*g.intn(6) + []int{0, 0, 0, 1, row / 2}[g.intn(5)])
			if pp.Predictor >= 10 {
				for j := 0; j < len(body); j += row {
					body[j] = byte(g.intn(6))
				}
			}
		} else {
			body = g.bytes(g.intn(100))
		}
		h.predCase(avail, pp, body)
	}

	phase("predictor")
	// a stage that owns a helper goroutine (DCT) followed by every kind of stage, and in the
	// middle of longer chains: the consumer may stop early, fail to build, or never read
	for si, seed := range jpegSeeds {
		if !e.Thorough && si != len(jpegSeeds)-1 {
			continue
		}
		for _, second := range filterNames {
			for _, third := range []string{"", "JPXDecode", "ASCIIHexDecode"}[:e.Pick(2, 3)] {
				c := &tcase{Names: []string{"DCTDecode", second}, PField: "none", Note: "helper goroutine below " + second}
				if third != "" {
					c.Names = append(c.Names, third)
				}
				c.setBody(seed)
				h.chainCase(c)
			}
		}
	}
	phase("dct chains")
	// -- triples over all eleven filter names
	nt := e.Pick(6000, 150000)
	deadline := time.Now().Add(time.Duration(e.Pick(28, 300)) * time.Second)
	for i := 0; i < nt && !h.aborted && time.Now().Before(deadline); i++ {
		h.chainCase(h.randomTriple())
	}
	phase("triples")
	// the allocation sites that charge the budget; the CCITT reader row by row
	h.chargeCases()
	for i := e.Pick(1500, 30000); i > 0; i-- {
		h.firstRow()
		h.hostileRows()
	}
	phase("charge sites + ccitt rows")
	// many large JBIG2 regions: the live heap is sampled, not only the decoder's own accounting
	// (stride one byte: a byte held per pixel decoded, the cheapest way to hold memory)
	for _, sh := range [][3]int{{e.Pick(16, 56), 1, 1 << 20}, {e.Pick(0, 40), 2, 1 << 19}} {
		for _, typ := range []int{38, 39}[:e.Pick(1, 2)] {
			if sh[0] == 0 {
				continue
			}
			c := h.one("JBIG2Decode", parm{Kind: "null"}, jbig2ManyRegions(sh[0], sh[1], sh[2], typ, 8, 8), "jbig2 many large regions")
			c.Live = true
			c.Work = admittedJBIG2(int64(len(c.Body())), int64(sh[0])*int64(sh[1])*int64(sh[2]))
			h.chainCase(c)
		}
	}
	phase("jbig2 live heap")
	// CCITT 2-D bodies from chosen codes: a reference row with a changing element in every
	// column, then code storms; time must stay proportional to input plus output
	for kind := 0; kind < 4 && !h.aborted; kind++ {
		for _, cols := range []int{1 << 12, e.Pick(1<<18, 1<<20)} {
			p := parm{Kind: "dict", D: []kv{{"K", pval{T: "i", I: -1}}, {"Columns", pval{T: "i", I: int64(cols)}}}}
			c := h.one("CCITTFaxDecode", p, ccittDense(cols, kind), fmt.Sprintf("ccitt dense reference row, code storm %d", kind))
			c.Tight = true
			h.chainCase(c)
		}
	}
	phase("ccitt code storms")
	// multi-scan formats: the pass counter against its model, thousands of tiny scans under the watchdog
	h.progCases()
	phase("progressive scan scripts")
	// every frame kind x scan script; budget-charging filters behind compressing ones
	h.frameCases()
	h.behindCompression()
	h.jbig2StructCases()
	h.jpegStructCases()
	phase("frame kinds + budget identity")
	// headers whose claimed geometry straddles the stream budget, for every component layout
	h.headerSweep()
	phase("header sweep")
	// headers claiming huge dimensions, extremely compressible bodies
	nh := e.Pick(80, 1500)
	for i := 0; i < nh && !h.aborted; i++ {
		h.chainCase(h.one("DCTDecode", g.parm("DCTDecode", false), g.jpegHuge(), "jpeg header patched"))
		h.chainCase(h.one("JBIG2Decode", g.parm("JBIG2Decode", false), g.jbig2Huge(), "jbig2 page/region info patched"))
		if i%5 == 0 {
			b, p := g.ccittBomb()
			h.chainCase(h.one("CCITTFaxDecode", p, b, "ccitt all-V0 body"))
		}
		if i < 3 {
			// an explicit /Rows above the pixel cap for the widest legal row
			p := parm{Kind: "dict", D: []kv{{"K", pval{T: "i", I: -1}}, {"Columns", pval{T: "i", I: 1 << 20}},
				{"Rows", pval{T: "i", I: []int64{129, 2000, 1 << 20}[i]}}}}
			h.chainCase(h.one("CCITTFaxDecode", p, bytes.Repeat([]byte{0xFF}, 300), "ccitt all-V0 body, /Rows above the pixel cap"))
		}
		if i%10 == 0 {
			// a predictor row claiming the largest legal dimensions, over a tiny body
			p := parm{Kind: "dict", D: []kv{{"Predictor", pval{T: "i", I: 12}}, {"Colors", pval{T: "i", I: magnitudes[g.intn(len(magnitudes))]}},
				{"BitsPerComponent", pval{T: "i", I: 16}}, {"Columns", pval{T: "i", I: 1 << 20}}}}
			h.chainCase(h.one("LZWDecode", p, encodeFilter(pdf.FilterLZW{OffByOne: true}, g.bytes(50)), "largest predictor row"))
			h.chainCase(h.one("FlateDecode", p, encodeFilter(pdf.FilterFlate{}, g.bytes(50)), "largest predictor row"))
		}
	}
	if !h.aborted {
		// flat JPEGs: a small one, one above the pixel cap (must be refused, not decoded to
		// hundreds of megabytes), and in the thorough tier the largest one the caps admit
		dims := [][2]int{{64, 48}, {20000, 14000}, {65535, 65535}}
		if e.Thorough {
			dims = append(dims, [2]int{11000, 11000})
		}
		for _, d := range dims {
			h.chainCase(h.one("DCTDecode", parm{Kind: "null"}, jpegFlat(d[0], d[1]), fmt.Sprintf("flat jpeg %dx%d", d[0], d[1])))
		}
		for _, n := range []int{1 << 19, e.Pick(1<<21, 1<<24)} {
			zeros := make([]byte, n)
			h.chainCase(h.one("FlateDecode", parm{Kind: "null"}, encodeFilter(pdf.FilterFlate{}, zeros), "flate bomb"))
			h.chainCase(h.one("LZWDecode", parm{Kind: "null"}, encodeFilter(pdf.FilterLZW{OffByOne: true}, zeros), "lzw bomb"))
			c := &tcase{Names: []string{"FlateDecode", "FlateDecode"}, PField: "none", Note: "nested flate bomb"}
			c.setBody(encodeFilter(pdf.FilterFlate{}, encodeFilter(pdf.FilterFlate{}, zeros)))
			h.chainCase(c)
		}
	}

	phase("huge headers + bombs")
	// -- a failing byte source under every kind of chain
	ns := e.Pick(400, 6000)
	for i := 0; i < ns && !h.aborted; i++ {
		c := h.randomTriple()
		if len(c.Body()) == 0 {
			continue
		}
		h.sourceFailure(c, int64(g.intn(len(c.Body())+1)), g.intn(5))
	}

	phase("failing source")
	e.Sample(6, fmt.Sprintf("max wall time of a case %v; max ns per byte (cases over 64 KiB) %.1f; max TotalAlloc %d; max TotalAlloc/allowance %.3f",
		h.maxDur, h.maxNsByte, h.maxAlloc, h.maxRatio))
	e.Finish("triples (filter chain of 0..12 entries over the eleven names, /DecodeParms entries of any PDF type with integers of any magnitude, "+
		"body = nested valid encoding with 0..3 mutations or random bytes); nontrivial = the chain was built and a decoder ran, or a guard rejected it; "+
		"plus enumerated GetFilters shapes, parameter dictionaries, classification scripts, single-decoder and predictor cases compared with the extracted model",
		map[string]any{
			"measured": map[string]any{
				"max_case_wall_ms":        h.maxDur.Milliseconds(),
				"max_ns_per_byte":         h.maxNsByte,
				"max_total_alloc":         h.maxAlloc,
				"max_alloc_over_allowed":  h.maxRatio,
				"max_cpu_over_allowed":    h.maxCPU,
				"max_cpu_over_allowed_by": h.maxCPUOf,
				"max_cpu_over_allowed_plain_allowance": h.maxCPUPlain,
				"watchdog":                "CPU time (user+system of the decoding process), 5 s + 50 us per input or output byte; wall-clock only as a hang guard (90 s without output and without CPU use); a suspected violation is re-run three times in fresh processes, one after the other, each judged by its own CPU time",
				"alloc_allowance":         "StreamBudget(rawLen) + 4*|out| + 512 KiB + 128 KiB*stages, against the TotalAlloc delta",
				"goroutine_grace":         "2 s after Close",
				"run_cut_short_by_a_hang": h.aborted,
				"known_pattern_leaks":     h.leakSeen,
				"header_sweep":            h.sweep,
				"max_live_heap_growth":    h.maxLive,
				"live_heap_allowance":     "StreamBudget(rawLen) + 1 MiB, against HeapAlloc after forced collections sampled every 2 ms during the decode (multi-segment JBIG2 cases)",
				"tight_watchdog":          "0.75 s + 5 us per byte of CPU time for bodies built to cost time whose decoding is linear with a small constant (CCITT code storms, JBIG2 region storms; the unchanged tree needs < 0.1 s); they run in a process of their own",
				"progressive_scan_scripts": "process of their own, general allowance (5 s + 50 us per byte) + work term: the decoder's own bound is 64 walks over up to 32768 + 4*rawLen coefficient blocks, about 0.3 s + 33 us per input byte; the scripts need 0.3 s to 1.5 s on the unchanged tree",
				"work_term":                "bodies built to drive a decoder to its documented work cap (progressive JPEG scan scripts: 64 walks over the frame's blocks; JBIG2 region storms: min(declared pixels, 64 Mi + 4096 per input byte, 512 Mi) pixel operations) get 500 ns per admitted operation on top of the general allowance (the unchanged tree needs 35 to 130 ns per operation); the constants are written out in the harness, not read from the code under test; every other chain with a JBIG2Decode stage gets the same term for what the cap admits for the bytes that stage can see (the raw length if it comes first, else the hard cap of 512 Mi)",
				"failing_cases_by_signature (12 of each are recorded)": h.perSig,
			},
		})
}
