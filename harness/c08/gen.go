package main

import (
	"bytes"
	"image"
	"image/color"
	"image/jpeg"
	"math"
	"math/rand/v2"

	"seehuhn.de/go/pdf"
	"seehuhn.de/go/pdf/graphics/bitmap"
	"seehuhn.de/go/pdf/internal/filter/jbig2"
)

var filterNames = []string{
	"ASCII85Decode", "ASCIIHexDecode", "RunLengthDecode", "FlateDecode", "LZWDecode",
	"CCITTFaxDecode", "DCTDecode", "JBIG2Decode", "JPXDecode", "Crypt", "Foo",
}

// short names shared with the model driver (C cases)
var shortName = map[string]string{
	"ASCII85Decode": "A85", "ASCIIHexDecode": "AHx", "RunLengthDecode": "RL", "FlateDecode": "Fl",
	"LZWDecode": "LZW", "CCITTFaxDecode": "CCF", "DCTDecode": "DCT", "JBIG2Decode": "JBIG2",
	"JPXDecode": "JPX", "Crypt": "Crypt", "Foo": "Unk",
}

var magnitudes = []int64{
	0, 1, 2, 3, 4, 5, 7, 8, 9, 10, 11, 12, 13, 14, 15, 16, 17, 32, 60, 61, 255, 256, 257, 1728,
	-1, -2, -1728, 65535, 65536, 65537, 1 << 20, 1<<20 - 1, 1<<20 + 1, 1<<31 - 1, 1 << 31, 1 << 32,
	1 << 40, math.MinInt64, math.MaxInt64, math.MinInt64 + 1, math.MaxInt64 - 1,
}

var keysFor = map[string][]string{
	"FlateDecode":    {"Predictor", "Colors", "BitsPerComponent", "Columns", "EarlyChange"},
	"LZWDecode":      {"Predictor", "Colors", "BitsPerComponent", "Columns", "EarlyChange"},
	"CCITTFaxDecode": {"K", "EndOfLine", "EncodedByteAlign", "Columns", "Rows", "EndOfBlock", "BlackIs1", "DamagedRowsBeforeError"},
	"DCTDecode":      {"ColorTransform"},
	"JBIG2Decode":    {"JBIG2Globals"},
	"Crypt":          {"Name", "Type"},
}

var allKeys = []string{
	"Predictor", "Colors", "BitsPerComponent", "Columns", "EarlyChange", "K", "EndOfLine",
	"EncodedByteAlign", "Rows", "EndOfBlock", "BlackIs1", "DamagedRowsBeforeError", "ColorTransform",
	"JBIG2Globals", "Name", "Type",
}

type gen struct {
	r *rand.Rand
}

func (g *gen) intn(n int) int { return g.r.IntN(n) }

func (g *gen) bytes(n int) []byte {
	b := make([]byte, n)
	for i := range b {
		b[i] = byte(g.r.Uint32())
	}
	return b
}

// plain text to be encoded: short structured data, now and then long or constant.
func (g *gen) plain() []byte {
	switch g.intn(12) {
	case 0:
		return nil
	case 1:
		return bytes.Repeat([]byte("hello world, "), 1+g.intn(200))
	case 2:
		return make([]byte, 1+g.intn(5000)) // zeros
	case 3:
		return bytes.Repeat([]byte{byte(g.intn(256))}, 1+g.intn(70000))
	case 4:
		return g.bytes(1 + g.intn(3000))
	case 5:
		// runs of random length
		var b []byte
		for len(b) < 600 {
			b = append(b, bytes.Repeat([]byte{byte(g.intn(4))}, 1+g.intn(200))...)
		}
		return b
	default:
		n := 1 + g.intn(300)
		b := make([]byte, n)
		for i := range b {
			b[i] = byte(g.intn(8) * 37)
		}
		return b
	}
}

type nopw struct{ *bytes.Buffer }

func (nopw) Close() error { return nil }

func encodeFilter(f pdf.Filter, data []byte) []byte {
	buf := &bytes.Buffer{}
	w, err := f.Encode(pdf.V2_0, nopw{buf})
	if err != nil {
		return nil
	}
	if _, err := w.Write(data); err != nil {
		return nil
	}
	if w.Close() != nil {
		return nil
	}
	return buf.Bytes()
}

func (g *gen) mutate(b []byte) []byte {
	b = append([]byte{}, b...)
	for k := 1 + g.intn(3); k > 0; k-- {
		if len(b) == 0 {
			return append(b, byte(g.intn(256)))
		}
		switch g.intn(7) {
		case 0:
			b[g.intn(len(b))] ^= byte(1 << g.intn(8))
		case 1:
			b = b[:g.intn(len(b))]
		case 2:
			i := g.intn(len(b))
			b = append(b[:i], append([]byte{byte(g.intn(256))}, b[i:]...)...)
		case 3:
			i := g.intn(len(b))
			b = append(b[:i], b[i+1:]...)
		case 4:
			i := g.intn(len(b))
			j := i + g.intn(len(b)-i)
			b = append(b[:j], append(append([]byte{}, b[i:j]...), b[j:]...)...)
		case 5:
			b[g.intn(len(b))] = []byte{0, 0xFF, 0x80, '>', '~', 'z', 128, 129, 127}[g.intn(9)]
		case 6:
			b = b[:len(b)-1]
		}
	}
	return b
}

func (g *gen) pval(key string) pval {
	switch g.intn(10) {
	case 0, 1, 2, 3:
		return pval{T: "i", I: magnitudes[g.intn(len(magnitudes))]}
	case 4:
		return pval{T: "i", I: int64(g.intn(20))}
	case 5:
		return pval{T: "b", B: g.intn(2) == 0}
	case 6:
		if key == "Name" {
			return pval{T: "name", S: []string{"Identity", "StdCF", "Other", ""}[g.intn(4)]}
		}
		return pval{T: "name", S: "x"}
	case 7:
		if key == "JBIG2Globals" {
			return pval{T: "ref", I: int64(1 + g.intn(3))}
		}
		return pval{T: []string{"real", "array", "string", "dict", "null"}[g.intn(5)]}
	case 8:
		if key == "Predictor" {
			return pval{T: "i", I: []int64{1, 2, 10, 11, 12, 13, 14, 15}[g.intn(8)]}
		}
		if key == "BitsPerComponent" {
			return pval{T: "i", I: []int64{1, 2, 4, 8, 16}[g.intn(5)]}
		}
		return pval{T: "i", I: int64(1 + g.intn(40))}
	default:
		return pval{T: "i", I: g.r.Int64() >> uint(g.intn(64))}
	}
}

// parm draws one /DecodeParms entry for the named filter: usually a dictionary
// with entries of any type and magnitude, sometimes null, sometimes not a dictionary.
func (g *gen) parm(name string, confuse bool) parm {
	if confuse && g.intn(12) == 0 {
		return parm{Kind: []string{"int", "name", "array", "string", "real", "bool"}[g.intn(6)]}
	}
	if g.intn(5) == 0 {
		return parm{Kind: "null"}
	}
	p := parm{Kind: "dict"}
	seen := map[string]bool{}
	for i := g.intn(5); i > 0; i-- {
		var k string
		if ks := keysFor[name]; len(ks) > 0 && g.intn(5) > 0 {
			k = ks[g.intn(len(ks))]
		} else {
			k = allKeys[g.intn(len(allKeys))]
		}
		if seen[k] {
			continue
		}
		seen[k] = true
		p.D = append(p.D, kv{K: k, V: g.pval(k)})
	}
	return p
}

// ---- hostile LZW code streams ----

type bitPacker struct {
	buf   []byte
	acc   uint64
	nbits uint
}

func (p *bitPacker) put(code uint16, width uint) {
	p.acc = p.acc<<width | uint64(code)
	p.nbits += width
	for p.nbits >= 8 {
		p.buf = append(p.buf, byte(p.acc>>(p.nbits-8)))
		p.nbits -= 8
	}
}

func (p *bitPacker) flush() []byte {
	if p.nbits > 0 {
		p.buf = append(p.buf, byte(p.acc<<(8-p.nbits)))
		p.nbits = 0
	}
	return p.buf
}

// lzwCodes packs a sequence of codes chosen against the decoder's own state
// (code width schedule of the PDF variant), so that hostile choices - the
// code equal to hi (KwKwK), codes just above hi, a table that fills up and is
// never cleared - are reached rather than lost in bit misalignment.
func (g *gen) lzwCodes(early bool, n int, mode int) []byte {
	var p bitPacker
	width, hi, last := uint(9), 257, false
	ec := 0
	if early {
		ec = 1
	}
	if g.intn(4) > 0 {
		p.put(256, width)
	}
	for i := 0; i < n; i++ {
		var code int
		x := g.intn(1000)
		switch {
		case mode == 1 && (x < 700 || i < n-40): // fill the table (no clear, no error): literals, chains, KwKwK
			switch {
			case width == 12 && !last && hi > 4000 && x%5 == 0:
				code = hi // the table is full: hi is an ordinary, complete entry now
			case width == 12 && !last && hi > 4000 && x%5 == 1:
				code = hi - g.intn(3)
			case hi > 258 && x%3 == 0:
				code = hi - 1 - g.intn(min(hi-258, 3))
			case hi > 258 && x%7 == 0:
				code = 258 + g.intn(hi-258)
			case last && hi >= 258 && x%11 == 0:
				code = hi
			default:
				code = g.intn(256)
			}
		case mode == 2 && x < 900 && last && hi >= 258: // KwKwK runs
			code = hi
		case x < 550:
			code = g.intn(256)
		case x < 800 && hi > 258:
			code = 258 + g.intn(hi-258)
		case x < 900 && last:
			code = hi
		case x < 905:
			code = hi + 1 + g.intn(3)
		case x < 915:
			code = 256
		case x < 918:
			code = 257
		case x < 925:
			code = g.intn(1 << width)
		default:
			code = g.intn(256)
		}
		if code >= 1<<width {
			code = 1<<width - 1
		}
		p.put(uint16(code), width)
		switch {
		case code == 256:
			width, hi, last = 9, 257, false
			continue
		case code == 257:
			if g.intn(3) > 0 {
				return p.flush()
			}
			continue // the decoder stops here; what follows is trailing garbage
		case code > hi:
			continue
		}
		last = true
		hi++
		if hi+ec >= 1<<width {
			if width >= 12 {
				hi--
				last = false
			} else {
				width++
			}
		}
	}
	if g.intn(3) > 0 {
		p.put(257, width)
	}
	return p.flush()
}

// ---- image formats with intrinsic dimensions ----

var (
	jpegSeeds  [][]byte
	jbig2Seeds [][]byte
)

func initSeeds() {
	if jpegSeeds != nil {
		return
	}
	r := rand.New(rand.NewPCG(7, 7))
	for _, sz := range [][2]int{{8, 8}, {17, 9}, {64, 48}} {
		gray := image.NewGray(image.Rect(0, 0, sz[0], sz[1]))
		rgb := image.NewRGBA(image.Rect(0, 0, sz[0], sz[1]))
		for y := 0; y < sz[1]; y++ {
			for x := 0; x < sz[0]; x++ {
				gray.SetGray(x, y, color.Gray{Y: uint8(x*7 + y*3 + r.IntN(9))})
				rgb.Set(x, y, color.RGBA{uint8(x * 5), uint8(y * 9), uint8(r.IntN(256)), 255})
			}
		}
		for _, im := range []image.Image{gray, rgb} {
			var b bytes.Buffer
			if jpeg.Encode(&b, im, &jpeg.Options{Quality: 80}) == nil {
				jpegSeeds = append(jpegSeeds, b.Bytes())
			}
		}
	}
	for _, sz := range [][2]int{{8, 8}, {33, 17}, {256, 64}} {
		bm := bitmap.New(sz[0], sz[1])
		for y := 0; y < sz[1]; y++ {
			for x := 0; x < sz[0]; x++ {
				if (x*x+y*3)%7 < 2 {
					bm.SetPixel(x, y, true)
				}
			}
		}
		jbig2Seeds = append(jbig2Seeds, jbig2Page(bm, sz[0], sz[1], uint32(sz[0]), uint32(sz[1])))
	}
	// a globals stream: one (harmless) page-less segment sequence
	jbig2Globals = jbig2.WriteSegmentHeader(nil, 0, 51, 0, nil, 0) // end of file segment
}

// jbig2Page assembles an embedded JBIG2 stream: page information claiming
// pw x ph, one generic region of rw x rh with the bitmap's data.
func jbig2Page(bm *bitmap.Bitmap, pw, ph int, rw, rh uint32) []byte {
	seg := jbig2.EncodeGenericRegionSegment(bm, 0, 0, 1, bitmap.CombOpOR, false, false)
	if len(seg) >= 8 {
		seg[0], seg[1], seg[2], seg[3] = byte(rw>>24), byte(rw>>16), byte(rw>>8), byte(rw)
		seg[4], seg[5], seg[6], seg[7] = byte(rh>>24), byte(rh>>16), byte(rh>>8), byte(rh)
	}
	page := jbig2.WritePageInfo(nil, pw, ph)
	var s []byte
	s = jbig2.WriteSegmentHeader(s, 0, 48, 1, nil, uint32(len(page)))
	s = append(s, page...)
	s = jbig2.WriteSegmentHeader(s, 1, 38, 1, nil, uint32(len(seg)))
	s = append(s, seg...)
	return s
}

var hugeDims = [][2]int{
	{65535, 65535}, {65536, 65536}, {1 << 20, 1 << 20}, {0x7fffffff, 0x7fffffff}, {0xffffffff, 1},
	{1, 0xffffffff}, {11000, 11000}, {4096, 4096}, {60000, 1}, {1, 60000}, {0, 0}, {20000, 3000}, {1 << 16, 2048},
}

// jpegHuge patches the frame header of a seed JPEG so that it claims w x h
// (and optionally turns the baseline frame into a progressive one).
func (g *gen) jpegHuge() []byte {
	b := append([]byte{}, jpegSeeds[g.intn(len(jpegSeeds))]...)
	d := hugeDims[g.intn(len(hugeDims))]
	for i := 0; i+9 < len(b); i++ {
		if b[i] == 0xFF && (b[i+1] == 0xC0 || b[i+1] == 0xC1 || b[i+1] == 0xC2) {
			b[i+5], b[i+6] = byte(d[1]>>8), byte(d[1])
			b[i+7], b[i+8] = byte(d[0]>>8), byte(d[0])
			if g.intn(3) == 0 {
				b[i+1] = 0xC2
			}
			break
		}
	}
	if g.intn(3) == 0 {
		b = b[:len(b)/2+g.intn(len(b)/2)]
	}
	return b
}

func (g *gen) jbig2Huge() []byte {
	d := hugeDims[g.intn(len(hugeDims))]
	bm := bitmap.New(8, 8)
	bm.SetPixel(3, 3, true)
	rw, rh := uint32(8), uint32(8)
	if g.intn(2) == 0 {
		rw, rh = uint32(d[0]), uint32(d[1])
	}
	pw, ph := d[0], d[1]
	if g.intn(4) == 0 {
		pw, ph = 8, 8
	}
	return jbig2Page(bm, pw, ph, rw, rh)
}

// ccittBomb: every 1 bit of a Group 4 body is a V0 code, i.e. one more row
// equal to the (white) reference row.
func (g *gen) ccittBomb() ([]byte, parm) {
	cols := []int64{1728, 1 << 20, 65536, 1, 8, 1<<20 - 1, 100000}[g.intn(7)]
	p := parm{Kind: "dict", D: []kv{{"K", pval{T: "i", I: -1}}, {"Columns", pval{T: "i", I: cols}}}}
	switch g.intn(4) {
	case 0:
		p.D = append(p.D, kv{"EndOfBlock", pval{T: "b", B: false}})
	case 1:
		p.D = append(p.D, kv{"Rows", pval{T: "i", I: magnitudes[g.intn(len(magnitudes))]}})
	}
	n := 16 + g.intn(3000)
	return bytes.Repeat([]byte{0xFF}, n), p
}

// jpegFlat builds a baseline greyscale JPEG of w x h from scratch whose
// entropy-coded data is as small as the format allows: both Huffman tables
// hold a single one-bit code (DC difference 0, end of block), so every 8x8
// block costs two zero bits.  An extremely compressible body for DCTDecode.
func jpegFlat(w, h int) []byte {
	b := []byte{0xFF, 0xD8}
	// DQT: table 0, all ones
	b = append(b, 0xFF, 0xDB, 0, 67, 0)
	for i := 0; i < 64; i++ {
		b = append(b, 1)
	}
	// SOF0: 8 bit, h, w, one component 1x1, quantisation table 0
	b = append(b, 0xFF, 0xC0, 0, 11, 8, byte(h>>8), byte(h), byte(w>>8), byte(w), 1, 1, 0x11, 0)
	// DHT: DC table 0 and AC table 0, each one code of length 1 for symbol 0
	for _, tc := range []byte{0x00, 0x10} {
		b = append(b, 0xFF, 0xC4, 0, 20, tc, 1, 0, 0, 0, 0, 0, 0, 0, 0, 0, 0, 0, 0, 0, 0, 0, 0)
	}
	// SOS: one component, tables 0/0, spectral selection 0..63
	b = append(b, 0xFF, 0xDA, 0, 8, 1, 1, 0x00, 0, 63, 0)
	blocks := ((w + 7) / 8) * ((h + 7) / 8)
	b = append(b, make([]byte, (2*blocks+7)/8)...)
	return append(b, 0xFF, 0xD9)
}

// jpegHeader builds a JPEG that consists of headers only: a frame header for
// the given component sampling factors (hv[i] = h<<4|v) and one scan header
// listing the components scan (indices into hv).  The decoder sizes and
// allocates its buffers from these headers before it looks at entropy data.
func jpegHeader(w, h int, hv []byte, progressive bool, scan []int) []byte {
	sof := byte(0xC0)
	if progressive {
		sof = 0xC2
	}
	n := len(hv)
	b := []byte{0xFF, 0xD8, 0xFF, sof, 0, byte(8 + 3*n), 8, byte(h >> 8), byte(h), byte(w >> 8), byte(w), byte(n)}
	for i, x := range hv {
		b = append(b, byte(i+1), x, 0)
	}
	b = append(b, 0xFF, 0xDA, 0, byte(6+2*len(scan)), byte(len(scan)))
	for _, c := range scan {
		b = append(b, byte(c+1), 0)
	}
	if progressive {
		b = append(b, 0, 0, 0) // DC scan
	} else {
		b = append(b, 0, 63, 0)
	}
	return append(b, 0xFF, 0xD9)
}

// jbig2Sized: page information claiming pw x ph and a generic region claiming rw x rh.
func jbig2Sized(pw, ph, rw, rh int) []byte {
	bm := bitmap.New(8, 8)
	bm.SetPixel(2, 5, true)
	return jbig2Page(bm, pw, ph, uint32(rw), uint32(rh))
}

// jbig2ManyRegions: a page followed by n immediate generic regions of w x h pixels each,
// without coded payload (the arithmetic decoder reads zeros), and an end-of-page segment.
// Each region needs a bitmap of ceil(w/8)*h bytes only while it is decoded and composited.
func jbig2ManyRegions(n, w, h int, typ int, pageW, pageH int) []byte {
	var s []byte
	page := jbig2.WritePageInfo(nil, pageW, pageH)
	s = jbig2.WriteSegmentHeader(s, 0, 48, 1, nil, uint32(len(page)))
	s = append(s, page...)
	region := jbig2.WriteRegionSegmentInfo(nil, w, h, 0, 0, bitmap.CombOpOR)
	region = append(region, 3<<1)    // template 3, no MMR, no typical prediction
	region = append(region, 2, 0xFF) // AT pixel (2,-1)
	for i := 0; i < n; i++ {
		s = jbig2.WriteSegmentHeader(s, uint32(i+1), typ, 1, nil, uint32(len(region)))
		s = append(s, region...)
	}
	return jbig2.WriteSegmentHeader(s, uint32(n+1), 49, 1, nil, 0)
}

// ccittDense: a Group 4 body of two rows over a reference row with a changing element in
// every column (alternating pixels), the second row built from the chosen 2-D codes:
// kind 0: VR3/VL3 alternating (a0 steps back by one pixel every second code),
// kind 1: pass codes, kind 2: V0 codes, kind 3: VL1/VR2 alternating.
func ccittDense(cols, kind int) []byte {
	var p bitPacker
	put := func(c code) { p.put(c.v, c.w) }
	// row 1: black, white, black, ...
	put(horizCode)
	put(whiteRun[0])
	put(blackRun[1])
	for x := 1; x < cols; x += 2 {
		put(horizCode)
		put(whiteRun[1])
		put(blackRun[1])
	}
	// row 2
	a0, white := -1, true
	b1 := func() int {
		x := a0 + 1
		if (x%2 == 0) != white {
			x++
		}
		return min(x, cols)
	}
	vert := func(d int) {
		put(vertCode[d])
		a0 = min(b1()+d, cols)
		white = !white
	}
	for a0 < cols-16 {
		switch kind {
		case 0:
			vert(3)
			vert(-3)
		case 1:
			put(passCode)
			a0 = min(b1()+1, cols)
		case 2:
			vert(0)
		default:
			vert(-1)
			vert(2)
		}
	}
	for a0 < cols {
		vert(0)
	}
	p.put(0x001, 12) // EOFB
	p.put(0x001, 12)
	return p.flush()
}

// jbig2RepeatedRefs: a symbol dictionary of nsym small symbols (segment 1), optionally
// re-exported through a chain of further dictionaries that each refer to the previous one,
// and an immediate text region with no instances whose referred-to list names the last
// dictionary nref times (long form of the segment header: up to 2^29 entries are expressible,
// the decoder admits 65536).
func jbig2RepeatedRefs(nref, nsym, chain int, inDict bool) []byte {
	var syms []*bitmap.Bitmap
	for i := 0; i < nsym; i++ {
		// noisy 8x8 symbols: the decoder refuses a dictionary that claims more symbols
		// than it has bytes of data
		bm := bitmap.New(8, 8)
		x := uint32(i)*2654435761 + 12345
		for k := 0; k < 64; k++ {
			x = x*1664525 + 1013904223
			if x>>31 != 0 {
				bm.SetPixel(k%8, k/8, true)
			}
		}
		syms = append(syms, bm)
	}
	var s []byte
	page := jbig2.WritePageInfo(nil, 16, 16)
	s = jbig2.WriteSegmentHeader(s, 0, 48, 1, nil, uint32(len(page)))
	s = append(s, page...)
	sd := jbig2.EncodeSymbolDictSegment(syms, 1)
	s = jbig2.WriteSegmentHeader(s, 1, 0, 1, nil, uint32(len(sd)))
	s = append(s, sd...)
	last := uint32(1)
	for i := 0; i < chain; i++ {
		// a dictionary with one new symbol that refers to the previous dictionary
		// (its exports then include the imported symbols)
		sd2 := jbig2.EncodeSymbolDictSegment(syms[:1], 1)
		drefs := []uint32{last}
		if inDict { // the dictionary itself names its predecessor nref times
			drefs = make([]uint32, nref)
			for j := range drefs {
				drefs[j] = last
			}
		}
		s = jbig2.WriteSegmentHeader(s, last+1, 0, 1, drefs, uint32(len(sd2)))
		s = append(s, sd2...)
		last++
	}
	if inDict {
		nref = 1
	}
	refs := make([]uint32, nref)
	for i := range refs {
		refs[i] = last
	}
	tr := jbig2.WriteRegionSegmentInfo(nil, 8, 8, 0, 0, bitmap.CombOpOR)
	tr = append(tr, 0, 0)       // flags: arithmetic, no refinement, one strip
	tr = append(tr, 0, 0, 0, 0) // no instances
	s = jbig2.WriteSegmentHeader(s, last+1, 6, 1, refs, uint32(len(tr)))
	s = append(s, tr...)
	return jbig2.WriteSegmentHeader(s, last+2, 49, 1, nil, 0)
}
