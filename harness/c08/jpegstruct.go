package main

import "fmt"

// jpegParts: a small valid baseline JPEG (w x h, nComp components 1x1, zero coefficients) as
// a list of marker segments, so that one segment can be replaced by a hostile one.
type jseg struct {
	name string
	b    []byte
}

func seg(marker byte, payload []byte) []byte {
	n := len(payload) + 2
	return append([]byte{0xFF, marker, byte(n >> 8), byte(n)}, payload...)
}

func jpegParts(w, h, nComp int) []jseg {
	dqt := append([]byte{0}, make([]byte, 64)...)
	for i := 1; i < len(dqt); i++ {
		dqt[i] = 1
	}
	sof := []byte{8, byte(h >> 8), byte(h), byte(w >> 8), byte(w), byte(nComp)}
	sos := []byte{byte(nComp)}
	for i := 0; i < nComp; i++ {
		sof = append(sof, byte(i+1), 0x11, 0)
		sos = append(sos, byte(i+1), 0)
	}
	sos = append(sos, 0, 63, 0)
	dht := func(tc byte) []byte { return append([]byte{tc, 1, 0, 0, 0, 0, 0, 0, 0, 0, 0, 0, 0, 0, 0, 0, 0}, 0) }
	blocks := ((w + 7) / 8) * ((h + 7) / 8)
	return []jseg{
		{"SOI", []byte{0xFF, 0xD8}},
		{"APP0", seg(0xE0, []byte("JFIF\x00\x01\x01\x00\x00\x01\x00\x01\x00\x00"))},
		{"DQT", seg(0xDB, dqt)},
		{"SOF", seg(0xC0, sof)},
		{"DHT-DC", seg(0xC4, dht(0x00))},
		{"DHT-AC", seg(0xC4, dht(0x10))},
		{"SOS", seg(0xDA, sos)},
		{"DATA", make([]byte, (2*blocks*nComp+7)/8)},
		{"EOI", []byte{0xFF, 0xD9}},
	}
}

func joinParts(p []jseg, replace string, with ...[]byte) []byte {
	var b []byte
	for _, s := range p {
		if s.name == replace {
			for _, w := range with {
				b = append(b, w...)
			}
			continue
		}
		b = append(b, s.b...)
	}
	return b
}

// dhtTable: class/id byte, the 16 counts, then vals bytes of values.
func dhtTable(tc byte, counts [16]int, vals int) []byte {
	b := []byte{tc}
	for _, c := range counts {
		b = append(b, byte(c))
	}
	for i := 0; i < vals; i++ {
		b = append(b, byte(i))
	}
	return b
}

// jpegStructCases: marker segments at the limits of their structure, each put into an
// otherwise valid JPEG: Huffman tables whose counts sum to 255/256/257/300 with the excess
// in every one of the sixteen positions, several tables per segment, class/id nibbles out of
// range, lengths that do not match; quantisation tables (precision, id, truncated); frame
// headers (component counts, sampling factors, zero dimensions); scan headers (component
// counts and ids, Ss/Se/Ah/Al); restart intervals; APPn/COM lengths.  They run in a process
// of their own: the JPEG decoder works in a helper goroutine, whose panic no caller can catch.
func (h *H) jpegStructCases() {
	var cases []*tcase
	add := func(body []byte, note string) {
		cases = append(cases, h.one("DCTDecode", parm{Kind: "null"}, body, "jpeg structure: "+note))
	}
	for _, nComp := range []int{1, 3} {
		p := jpegParts(16, 16, nComp)
		// DHT count vectors
		for pos := 0; pos < 16; pos++ {
			for _, other := range []int{0, 7, 14, 15} {
				if other == pos {
					continue
				}
				for _, total := range []int{255, 256, 257, 300} {
					var counts [16]int
					counts[pos] = 100
					counts[other] = total - 100
					for _, tc := range []byte{0x00, 0x10} {
						for _, slack := range []int{0, 40} {
							t := dhtTable(tc, counts, total+slack)
							name := "DHT-DC"
							if tc == 0x10 {
								name = "DHT-AC"
							}
							if nComp == 3 && (slack != 0 || tc != 0) {
								continue
							}
							add(joinParts(p, name, seg(0xC4, t)), fmt.Sprintf("DHT counts[%d]=100 counts[%d]=%d (total %d), class/id %02x, %d value bytes", pos, other, total-100, total, tc, total+slack))
						}
					}
				}
			}
		}
		if nComp == 3 {
			continue
		}
		var one [16]int
		one[0] = 1
		for _, tc := range []byte{0x02, 0x03, 0x04, 0x0F, 0x12, 0x13, 0x20, 0xF0, 0xFF} {
			add(joinParts(p, "DHT-DC", seg(0xC4, dhtTable(tc, one, 1))), fmt.Sprintf("DHT class/id %02x", tc))
		}
		// several tables in one segment, the last one truncated / overlong
		two := append(dhtTable(0x00, one, 1), dhtTable(0x10, one, 1)...)
		add(joinParts(p, "DHT-DC", seg(0xC4, two)), "two tables in one DHT")
		for cut := 1; cut < len(two); cut += 3 {
			add(joinParts(p, "DHT-DC", seg(0xC4, two[:cut])), fmt.Sprintf("two tables in one DHT, cut after %d bytes", cut))
		}
		var big [16]int
		for i := range big {
			big[i] = 16
		}
		add(joinParts(p, "DHT-DC", seg(0xC4, append(two, dhtTable(0x01, big, 256)...))), "three tables, the last with 256 codes")
		big[15] = 17
		add(joinParts(p, "DHT-AC", seg(0xC4, dhtTable(0x10, big, 257))), "one table with 257 codes, 16 per length and 17 of length 16")
		var max [16]int
		for i := range max {
			max[i] = 255
		}
		add(joinParts(p, "DHT-AC", seg(0xC4, dhtTable(0x10, max, 4080))), "all sixteen counts 255")
		// DQT
		for _, pq := range []byte{0x00, 0x10, 0x20, 0xF0, 0x03, 0x04, 0x0F, 0x13, 0xFF} {
			for _, n := range []int{0, 1, 63, 64, 65, 127, 128, 129, 200} {
				add(joinParts(p, "DQT", seg(0xDB, append([]byte{pq}, make([]byte, n)...))), fmt.Sprintf("DQT precision/id %02x with %d bytes", pq, n))
			}
		}
		// SOF
		for _, nc := range []int{0, 1, 2, 3, 4, 5, 255} {
			for _, hv := range []byte{0x11, 0x00, 0x05, 0x50, 0x44, 0x33, 0xFF, 0x14, 0x41} {
				for _, dim := range [][2]int{{16, 16}, {0, 16}, {16, 0}, {0, 0}, {65535, 1}} {
					f := []byte{8, byte(dim[1] >> 8), byte(dim[1]), byte(dim[0] >> 8), byte(dim[0]), byte(nc)}
					for i := 0; i < nc && i < 6; i++ {
						f = append(f, byte(i+1), hv, 0)
					}
					add(joinParts(p, "SOF", seg(0xC0, f)), fmt.Sprintf("SOF %d components, sampling %02x, %dx%d", nc, hv, dim[0], dim[1]))
				}
			}
		}
		for _, prec := range []byte{0, 1, 7, 9, 12, 16, 255} {
			add(joinParts(p, "SOF", seg(0xC0, []byte{prec, 0, 16, 0, 16, 1, 1, 0x11, 0})), fmt.Sprintf("SOF precision %d", prec))
		}
		add(joinParts(p, "SOF", seg(0xC0, []byte{8, 0, 16, 0, 16, 1, 1, 0x11, 9})), "SOF quantisation table 9")
		add(joinParts(p, "SOF", p[3].b, p[3].b), "two SOF segments")
		// SOS
		for _, ns := range []int{0, 1, 2, 4, 5, 255} {
			for _, tail := range [][3]byte{{0, 63, 0}, {1, 63, 0}, {0, 64, 0}, {63, 0, 0}, {0, 63, 0x10}, {0, 63, 0xFF}, {255, 255, 255}} {
				for _, id := range []byte{1, 0, 2, 255} {
					s := []byte{byte(ns)}
					for i := 0; i < ns && i < 6; i++ {
						s = append(s, id, byte(i)*0x11)
					}
					s = append(s, tail[0], tail[1], tail[2])
					add(joinParts(p, "SOS", seg(0xDA, s)), fmt.Sprintf("SOS %d components id %d, Ss/Se/AhAl %v", ns, id, tail))
				}
			}
		}
		// DRI, APPn, COM, lengths that lie
		for _, m := range []byte{0xDD, 0xE0, 0xE1, 0xEE, 0xEF, 0xFE, 0xC8, 0xCC, 0xDC, 0xF0, 0x01, 0xD0} {
			for _, n := range []int{0, 1, 2, 3, 4, 5, 12, 65533} {
				pl := make([]byte, n)
				if n == 65533 {
					pl = pl[:10] // the length claims far more than there is
				}
				s := append([]byte{0xFF, m, byte((n + 2) >> 8), byte(n + 2)}, pl...)
				add(joinParts(p, "APP0", s), fmt.Sprintf("marker %02X with a length field of %d and %d bytes", m, n+2, len(pl)))
			}
			add(joinParts(p, "APP0", []byte{0xFF, m, 0, 0}), fmt.Sprintf("marker %02X with a length field of 0", m))
			add(joinParts(p, "APP0", []byte{0xFF, m, 0, 1}), fmt.Sprintf("marker %02X with a length field of 1", m))
		}
	}
	h.batchCases(cases)
}
