package main

import (
	"bytes"
	"compress/zlib"
	"fmt"
	"strings"

	"seehuhn.de/go/pdf"
	"seehuhn.de/go/pdf/internal/filter/jbig2"
)

// jpegSeqScript builds a sequential-style JPEG with the frame marker sof (0xC0..0xCF) of
// w x h pixels, nComp components sampled 1x1, all coefficients zero, from a list of scans
// (each the components it lists).  Both Huffman tables hold one 1-bit code, so a block costs
// two zero bits in every scan.
func jpegSeqScript(sof byte, w, h, nComp int, scans [][]int) []byte {
	b := []byte{0xFF, 0xD8, 0xFF, 0xDB, 0, 67, 0}
	for i := 0; i < 64; i++ {
		b = append(b, 1)
	}
	b = append(b, 0xFF, sof, 0, byte(8+3*nComp), 8, byte(h>>8), byte(h), byte(w>>8), byte(w), byte(nComp))
	for i := 0; i < nComp; i++ {
		b = append(b, byte(i+1), 0x11, 0)
	}
	for _, tc := range []byte{0x00, 0x10} {
		b = append(b, 0xFF, 0xC4, 0, 20, tc, 1, 0, 0, 0, 0, 0, 0, 0, 0, 0, 0, 0, 0, 0, 0, 0, 0)
	}
	blocks := ((w + 7) / 8) * ((h + 7) / 8)
	for _, s := range scans {
		b = append(b, 0xFF, 0xDA, 0, byte(6+2*len(s)), byte(len(s)))
		for _, c := range s {
			b = append(b, byte(c+1), 0)
		}
		b = append(b, 0, 63, 0)
		b = append(b, make([]byte, (2*blocks*len(s)+7)/8)...)
	}
	return append(b, 0xFF, 0xD9)
}

// frameCases: every SOF marker x scan scripts (one scan over all components, one scan per
// component, repeated scans, further scans after the image is complete), compared with
// DCTFrames.decode_frame and held to the size of the image they declare.
func (h *H) frameCases() {
	e := h.e
	type script struct {
		name  string
		scans func(n int) [][]int
	}
	all := func(n int) []int {
		a := make([]int, n)
		for i := range a {
			a[i] = i
		}
		return a
	}
	rep := func(f func(n int) [][]int, k int) func(n int) [][]int {
		return func(n int) [][]int {
			var r [][]int
			for i := 0; i < k; i++ {
				r = append(r, f(n)...)
			}
			return r
		}
	}
	one := func(n int) [][]int { return [][]int{all(n)} }
	per := func(n int) [][]int {
		var r [][]int
		for i := 0; i < n; i++ {
			r = append(r, []int{i})
		}
		return r
	}
	scripts := []script{
		{"one scan", one}, {"one scan per component", per}, {"all, then 3 more", rep(one, 4)},
		{"all, then 40 more", rep(one, 41)}, {"per component, three times", rep(per, 3)},
		{"per component, then all", func(n int) [][]int { return append(per(n), all(n)) }},
		{"all, then per component", func(n int) [][]int { return append(one(n), per(n)...) }},
		{"first component only, 20 times", func(n int) [][]int { return rep(func(int) [][]int { return [][]int{{0}} }, 20)(n) }},
		{"no scan", func(n int) [][]int { return nil }},
	}
	for sof := byte(0xC0); sof <= 0xCF; sof++ {
		if sof == 0xC4 || sof == 0xC8 || sof == 0xCC {
			continue // DHT, JPG, DAC: not frame markers
		}
		kind := "3"
		switch sof {
		case 0xC0:
			kind = "0"
		case 0xC1:
			kind = "1"
		case 0xC2:
			kind = "2"
		}
		for _, nComp := range []int{1, 3, 4} {
			for _, sc := range scripts {
				w, ht := 16, 16
				if sc.name == "one scan" {
					w, ht = 40, 24
				}
				scans := sc.scans(nComp)
				var body []byte
				if sof == 0xC2 {
					var ps []pscan
					for _, s := range scans {
						ps = append(ps, pscan{s, 0, 0, 0, 0}) // DC scans (AC scans must list one component)
					}
					body, _ = jpegProgScript(w, ht, nComp, 0, ps)
				} else {
					body = jpegSeqScript(sof, w, ht, nComp, scans)
				}
				bpp := nComp
				if nComp == 3 {
					bpp = 3
				}
				c := h.one("DCTDecode", parm{Kind: "null"}, body, fmt.Sprintf("jpeg frame %02X %dx%dx%d, %s", sof, w, ht, nComp, sc.name))
				c.MaxOut = int64(w * ht * bpp)
				o, ok := h.triple(c, false)
				if !ok {
					return
				}
				var flags strings.Builder
				for _, s := range scans {
					if len(s) == nComp {
						flags.WriteByte('a')
					} else {
						flags.WriteByte('s')
					}
				}
				fl := flags.String()
				if fl == "" {
					fl = "-"
				}
				obs := "- 0" // rows written before a refusal may still sit in the decoder's output buffer
				if o.Class == "ok" {
					obs = fmt.Sprintf("%d 1", o.N/int64(w*bpp))
				}
				h.both(h.id("f"), fmt.Sprintf("F %s %d %s", kind, ht, fl), obs)
				e.Count(true, c.Note, "F:"+o.Class)
			}
		}
	}
}

func deflate(b []byte) []byte {
	var buf bytes.Buffer
	zw, _ := zlib.NewWriterLevel(&buf, zlib.BestCompression)
	zw.Write(b)
	zw.Close()
	return buf.Bytes()
}

func jbig2Seg(buf []byte, num uint32, typ int, data []byte) []byte {
	buf = jbig2.WriteSegmentHeader(buf, num, typ, 1, nil, uint32(len(data)))
	return append(buf, data...)
}

// jbig2Retained: a page, an extension segment of padding zero bytes (ignored by the decoder,
// and compressible to nothing), and n intermediate generic regions of 4096 x 4096 pixels
// (2 MiB each, MMR coded with no data), which the decoder has to keep until the page ends.
func jbig2Retained(n, padding int) []byte {
	var s []byte
	s = jbig2Seg(s, 0, 48, jbig2.WritePageInfo(nil, 1, 1))
	s = jbig2Seg(s, 1, 62, make([]byte, padding))
	region := jbig2.WriteRegionSegmentInfo(nil, 4096, 4096, 0, 0, 0)
	region = append(region, 0x01) // MMR
	for i := 0; i < n; i++ {
		s = jbig2Seg(s, uint32(2+i), 36, region)
	}
	return s
}

// behindCompression: the stream budget is derived from the RAW length and shared along the
// chain.  A filter that charges it - JBIG2, DCT, CCITT, the predictor - placed behind filters
// that expand their input enormously must still be held to StreamBudget(raw length): the
// live heap and the allocation are measured against that.
func (h *H) behindCompression() {
	wrap := func(name string, b []byte) []byte {
		switch name {
		case "FlateDecode":
			return deflate(b)
		case "LZWDecode":
			return encodeFilter(pdf.FilterLZW{OffByOne: true}, b)
		case "RunLengthDecode":
			return encodeFilter(pdf.FilterRunLength{}, b)
		case "ASCIIHexDecode":
			return encodeFilter(pdf.FilterASCIIHex{}, b)
		}
		return encodeFilter(pdf.FilterASCII85{}, b)
	}
	type inner struct {
		name string
		p    parm
		body []byte
		note string
	}
	// JPEG: full-image planes of 2176 x 2176 x 4 (11.8 MB) after 128 KiB of padding in COM segments
	jp := []byte{0xFF, 0xD8}
	for i := 0; i < 4; i++ {
		jp = append(jp, 0xFF, 0xFE, 0x80, 0x02)
		jp = append(jp, make([]byte, 0x8000)...)
	}
	jp = append(jp, jpegHeader(2176, 2176, []byte{0x22, 0x11, 0x11, 0x22}, false, []int{0})[2:]...)
	pred := parm{Kind: "dict", D: []kv{{"Predictor", pval{T: "i", I: 12}}, {"Colors", pval{T: "i", I: 32}},
		{"BitsPerComponent", pval{T: "i", I: 16}}, {"Columns", pval{T: "i", I: 65536}}}}
	inners := []inner{
		{"JBIG2Decode", parm{Kind: "null"}, jbig2Retained(24, 128<<10), "24 retained regions of 2 MiB after 128 KiB of padding"},
		{"JBIG2Decode", parm{Kind: "null"}, append(jbig2ManyRegions(12, 1, 1<<20, 36, 8, 8), make([]byte, 0)...), "12 retained regions of 1 MiB"},
		{"DCTDecode", parm{Kind: "null"}, jp, "full-image planes of 11.8 MB after 128 KiB of comment segments"},
		{"CCITTFaxDecode", parm{Kind: "dict", D: []kv{{"K", pval{T: "i", I: 4}}, {"Columns", pval{T: "i", I: 1 << 20}}}}, make([]byte, 200000), "line buffers and index for 2^20 columns, zero body"},
		{"LZWDecode", pred, encodeFilter(pdf.FilterLZW{OffByOne: true}, make([]byte, 300000)), "largest predictor rows over 300 KB of zeros"},
	}
	outers := [][]string{{"FlateDecode"}, {"LZWDecode"}, {"RunLengthDecode"}, {"ASCIIHexDecode", "FlateDecode"}, {"FlateDecode", "FlateDecode"}}
	for _, in := range inners {
		for oi, out := range outers {
			if !h.e.Thorough && oi > 1 && in.name != "JBIG2Decode" {
				continue
			}
			body := in.body
			for i := len(out) - 1; i >= 0; i-- {
				body = wrap(out[i], body)
			}
			c := &tcase{Names: append(append([]string{}, out...), in.name), PField: "arr", Note: "budget identity: " + in.name + " behind " + strings.Join(out, ",") + ": " + in.note}
			for range out {
				c.Parms = append(c.Parms, parm{Kind: "null"})
			}
			c.Parms = append(c.Parms, in.p)
			c.Live = true
			c.setBody(body)
			h.chainCase(c)
			if h.aborted {
				return
			}
		}
	}
}
